// c14 — dynamic cross-check of property C14 on the real code (in-process, real processor).
//
// Generated expressions and statements over the built-in scalar functions (names read from the
// `Functions` map of lib/query/function.go; argument types found by probing), operators and clauses are
// evaluated TWICE in one session over a table of 240 rows with @@CPU 4:
//
//	plain      the same SELECT text executed twice
//	while      once per iteration of a WHILE loop that runs twice
//	udf        as the body of a user-defined function, the calling SELECT executed twice
//	prepared   PREPARE once, EXECUTE twice
//
// the two results must be identical (law repeat_eval:<kind>; RAND and NOW are never generated).  The
// parsed statements are printed before and after execution: evaluation must not edit the syntax tree
// (law ast_unchanged).  "Reading again gives the same": the same table selected twice with unrelated
// statements in between (reread:table), a cursor row fetched again (reread:cursor), a variable read
// before and after unrelated expressions (reread:variable).
package main

import (
	"encoding/json"
	"fmt"
	"go/ast"
	"go/parser"
	"go/token"
	"os"
	"os/exec"
	"path/filepath"
	"reflect"
	"sort"
	"strconv"
	"strings"

	csvqparser "github.com/mithrandie/csvq/lib/parser"

	"verifharness/hc"
)

func main() { hc.Main(runC14) }

// documented non-deterministic functions: never generated
var nondeterministic = map[string]bool{"RAND": true, "NOW": true}

func builtinNames(repo string) []string {
	fset := token.NewFileSet()
	f, err := parser.ParseFile(fset, filepath.Join(repo, "lib", "query", "function.go"), nil, 0)
	if err != nil {
		panic(err)
	}
	var names []string
	for _, d := range f.Decls {
		gd, ok := d.(*ast.GenDecl)
		if !ok || gd.Tok != token.VAR {
			continue
		}
		for _, sp := range gd.Specs {
			vs := sp.(*ast.ValueSpec)
			if len(vs.Names) != 1 || vs.Names[0].Name != "Functions" || len(vs.Values) != 1 {
				continue
			}
			cl, ok := vs.Values[0].(*ast.CompositeLit)
			if !ok {
				continue
			}
			for _, el := range cl.Elts {
				if kv, ok := el.(*ast.KeyValueExpr); ok {
					if bl, ok := kv.Key.(*ast.BasicLit); ok && bl.Kind == token.STRING {
						if s, err := strconv.Unquote(bl.Value); err == nil {
							names = append(names, s)
						}
					}
				}
			}
		}
	}
	sort.Strings(names)
	return names
}

type sig struct {
	fn   string
	args string // one letter per argument: N F S D
}

type ctx struct {
	g       *hc.Gen
	o       *hc.Out
	pr      *hc.Proc
	sigs    []sig
	evals   int
	seq     int
	errSeen map[string]int
	poison  bool
	dblLog  string // file the hook appends double releases to (VERIF_DOUBLE_DISCARD_LOG), "" = not used
	dblSeen int64
	nDouble int
	lastErr string
	nPoison int
	sigList []string
	sigSeen map[string]bool
	within  withinState // within.go: one statement reading a column several times around a mutating candidate
}

// atoms of each type in a row context (table t) and in a function-body context (parameters)
var rowAtoms = map[byte][]string{
	'N': {"n", "id", "7", "(-3)", "n % 5", "0"},
	'F': {"f", "2.5", "f * 2", "(-0.25)"},
	'S': {"s", "s2", "'xyz'", "'A b'", "''", "' 12 '"},
	'D': {"d", "'2012-02-03 09:18:15'", "'2020-01-01'"},
}

// atoms over the temporary view dtt (datetime-typed cells) and the datetime variable
var dtAtoms = map[byte][]string{
	'N': {"id", "dn", "3"},
	'F': {"1.5"},
	'S': {"'%Y-%m-%d'", "'x'"},
	'D': {"dv", "@dvar", "dv"},
}
var parAtoms = map[byte][]string{
	'N': {"@p1", "7", "(-3)"},
	'F': {"@p2", "2.5"},
	'S': {"@p3", "@p5", "'xyz'", "''"},
	'D': {"@p4", "'2012-02-03 09:18:15'"},
}

func (c *ctx) atom(t byte, atoms map[byte][]string) string {
	as := atoms[t]
	return as[c.g.Intn(len(as))]
}

func (c *ctx) call(atoms map[byte][]string, depth int) string {
	s := c.sigs[c.g.Intn(len(c.sigs))]
	args := make([]string, len(s.args))
	for i := range s.args {
		if depth > 0 && c.g.Intn(4) == 0 {
			args[i] = c.expr(s.args[i], atoms, depth-1)
		} else {
			args[i] = c.atom(s.args[i], atoms)
		}
	}
	return s.fn + "(" + strings.Join(args, ", ") + ")"
}

// expr generates an expression whose value is "of type t or convertible to it".
func (c *ctx) expr(t byte, atoms map[byte][]string, depth int) string {
	if depth <= 0 {
		return c.atom(t, atoms)
	}
	sub := func(tt byte) string { return c.expr(tt, atoms, depth-1) }
	switch c.g.Intn(12) {
	case 0, 1, 2:
		return c.call(atoms, depth-1)
	case 3:
		switch t {
		case 'N', 'F':
			return "(" + sub(t) + " " + c.g.Pick("+", "-", "*", "/", "%") + " " + sub(t) + ")"
		case 'S':
			return "(" + sub('S') + " || " + sub(c.pickType()) + ")"
		}
		return c.atom(t, atoms)
	case 4:
		return "CASE WHEN " + c.pred(atoms, depth-1) + " THEN " + sub(t) + " ELSE " + sub(t) + " END"
	case 5:
		return "COALESCE(NULLIF(" + sub(t) + ", " + sub(t) + "), " + sub(t) + ")"
	case 6:
		return "IF(" + c.pred(atoms, depth-1) + ", " + sub(t) + ", " + sub(t) + ")"
	case 7:
		switch t {
		case 'N':
			return "INTEGER(" + sub(c.pickType()) + ")"
		case 'F':
			return "FLOAT(" + sub(c.pickType()) + ")"
		case 'S':
			return "STRING(" + sub(c.pickType()) + ")"
		case 'D':
			return "DATETIME(" + sub(c.g.Pick("D", "N")[0]) + ")"
		}
	case 8:
		return "CASE " + sub(t) + " WHEN " + sub(t) + " THEN " + sub(t) + " WHEN " + sub(t) + " THEN " + sub(t) + " END"
	case 9:
		if t == 'N' || t == 'F' {
			return "(" + c.g.Pick("+", "-", "+") + sub(t) + ")"
		}
	}
	return c.atom(t, atoms)
}

func (c *ctx) pickType() byte { return "NFSD"[c.g.Intn(4)] }

func (c *ctx) pred(atoms map[byte][]string, depth int) string {
	t := c.pickType()
	a, b := c.expr(t, atoms, depth), c.expr(c.pickType(), atoms, depth)
	switch c.g.Intn(9) {
	case 0:
		return a + " " + c.g.Pick("=", "<>", "<", "<=", ">", ">=", "==") + " " + b
	case 1:
		return a + " BETWEEN " + b + " AND " + c.expr(t, atoms, depth)
	case 2:
		return a + " IN (" + b + ", " + c.expr(t, atoms, depth) + ", " + c.atom(t, atoms) + ")"
	case 3:
		return c.expr('S', atoms, depth) + " LIKE " + c.g.Pick("'%a%'", "'a_'", "'%'", "'x%'")
	case 4:
		return a + " IS " + c.g.Pick("NULL", "NOT NULL", "TRUE", "NOT FALSE", "UNKNOWN")
	case 5:
		if depth > 0 {
			return "(" + c.pred(atoms, depth-1) + " " + c.g.Pick("AND", "OR") + " " + c.pred(atoms, depth-1) + ")"
		}
	case 6:
		if depth > 0 {
			return "NOT (" + c.pred(atoms, depth-1) + ")"
		}
	case 7:
		return a + " " + c.g.Pick("=", "<", ">=") + " " + c.g.Pick("ANY", "ALL") + " (SELECT grp FROM t2 WHERE grp < " + c.g.Pick("2", "4", "9") + ")"
	}
	return a + " = " + b
}

// selectStmt: a SELECT over table t (no trailing semicolon); agg/analytic forms included.
func (c *ctx) selectStmt() (string, string) {
	k := 1 + c.g.Intn(3)
	cols := make([]string, k)
	for i := range cols {
		cols[i] = c.expr(c.pickType(), rowAtoms, 1+c.g.Intn(3))
	}
	switch c.g.Intn(10) {
	case 0, 1, 2:
		return "SELECT id, " + strings.Join(cols, ", ") + " FROM t ORDER BY id", "select"
	case 3:
		return "SELECT id, " + strings.Join(cols, ", ") + " FROM t WHERE " + c.pred(rowAtoms, 2) + " ORDER BY id", "where"
	case 4:
		agg := c.g.Pick("COUNT", "MIN", "MAX", "SUM", "AVG", "MEDIAN", "LISTAGG")
		arg := c.expr(c.pickType(), rowAtoms, 2)
		if agg == "COUNT" && c.g.Intn(3) == 0 {
			arg = "*"
		}
		return "SELECT grp, " + agg + "(" + arg + ") FROM t GROUP BY grp ORDER BY grp", "group"
	case 5:
		return "SELECT DISTINCT grp, " + cols[0] + " FROM t WHERE id < 120", "distinct"
	case 6:
		fn := c.g.Pick("ROW_NUMBER()", "RANK()", "DENSE_RANK()", "FIRST_VALUE(%s)", "LAST_VALUE(%s)", "LAG(%s)", "LEAD(%s)", "SUM(%s)", "COUNT(%s)", "COUNT(*)", "MIN(%s)", "MAX(%s)", "AVG(%s)", "LISTAGG(%s)")
		if strings.Contains(fn, "%s") {
			fn = fmt.Sprintf(fn, c.expr(c.pickType(), rowAtoms, 1))
		}
		over := c.g.Pick("()", "(PARTITION BY grp)", "(PARTITION BY grp ORDER BY id)", "(ORDER BY n, id)")
		if strings.HasPrefix(fn, "ROW_NUMBER") || strings.HasPrefix(fn, "RANK") || strings.HasPrefix(fn, "DENSE") || strings.HasPrefix(fn, "LAG") || strings.HasPrefix(fn, "LEAD") {
			over = c.g.Pick("(PARTITION BY grp ORDER BY id)", "(ORDER BY n, id)")
		}
		return "SELECT id, " + fn + " OVER " + over + " FROM t ORDER BY id", "analytic"
	case 7:
		return "SELECT a.id, b.name, " + c.expr(c.pickType(), rowAtoms, 1) + " FROM t a JOIN t2 b ON a.grp = b.grp AND a.id < 60 ORDER BY a.id, b.name", "join"
	case 8:
		return "SELECT id, (SELECT MAX(name) FROM t2 WHERE t2.grp = t.grp), " + cols[0] + " FROM t WHERE id IN (SELECT id FROM t WHERE " + c.pred(rowAtoms, 1) + ") ORDER BY id", "subquery"
	}
	return "SELECT " + strings.Join(cols, ", ") + " FROM t WHERE id <= 3 UNION ALL SELECT " + strings.Join(cols, ", ") + " FROM t WHERE id > 237", "union"
}

// leadingColumnsEqual: the first k columns of q1's result must be cell for cell what q0 returns — adding a
// (read-only) expression to the select list must not change what the other columns show.
func (c *ctx) leadingColumnsEqual(q0, q1 string, k int) (string, bool) {
	v0, e0 := c.pr.Query(q0)
	v1, e1 := c.pr.Query(q1)
	c.evals += 2
	if e0 != nil || e1 != nil {
		if (e0 == nil) != (e1 == nil) && e0 == nil {
			return "", true // the extra expression itself fails: no statement about the other columns
		}
		return "", true
	}
	if v0.RecordLen() != v1.RecordLen() {
		return fmt.Sprintf("%d rows without, %d rows with the extra column", v0.RecordLen(), v1.RecordLen()), false
	}
	for i := range v0.RecordSet {
		for j := 0; j < k && j < len(v0.RecordSet[i]) && j < len(v1.RecordSet[i]); j++ {
			a, b := v0.RecordSet[i][j][0].String(), v1.RecordSet[i][j][0].String()
			if a != b {
				return fmt.Sprintf("row %d column %d: %s without the extra column, %s with it", i+1, j+1, a, b), false
			}
		}
	}
	return "", true
}

// specialColumn: functions with an evaluation path of their own, over plain column references in every order
func (c *ctx) specialColumn() string {
	cols := []string{"id", "grp", "n", "f", "s", "s2", "d"}
	perm := c.g.Perm(len(cols))
	k := 1 + c.g.Intn(4)
	var args []string
	for _, i := range perm[:k] {
		args = append(args, cols[i])
	}
	switch c.g.Intn(5) {
	case 0, 1, 2:
		return "JSON_OBJECT(" + strings.Join(args, ", ") + ")"
	case 3:
		return "JSON_OBJECT(" + args[0] + " AS k1" + func() string {
			if len(args) > 1 {
				return ", " + args[1] + " AS k2"
			}
			return ""
		}() + ")"
	}
	return "JSON_OBJECT()"
}

// rowsOf evaluates a SELECT and returns its rows as strings (nil, false on error).
func (c *ctx) rowsOf(q string) ([]string, bool) {
	v, err := c.pr.Query(q)
	c.evals++
	c.lastErr = ""
	if err != nil || v == nil {
		if err != nil {
			c.lastErr = strings.SplitN(err.Error(), "\n", 2)[0]
		}
		return nil, false
	}
	out := make([]string, 0, v.RecordLen())
	for _, rec := range v.RecordSet {
		var cells []string
		for _, cell := range rec {
			cells = append(cells, cell[0].String())
		}
		out = append(out, strings.Join(cells, "|"))
	}
	return out, true
}

// cteTwice: a statement that reads one inline (WITH) table twice; the first read does a step that csvq performs
// in place (WHERE compaction, ORDER BY, LIMIT/OFFSET, aggregation, projection in another column order, an added
// column).  The second read must give exactly what a fresh single read gives.
func (c *ctx) cteTwice(form int) {
	k := 20 + c.g.Intn(100)
	with := fmt.Sprintf("WITH it (id, grp, n, s) AS (SELECT id, grp, n, s FROM t WHERE id <= %d) ", k)
	base := fmt.Sprintf("FROM t WHERE id <= %d", k)
	first := c.g.Pick(
		"SELECT COUNT(*) FROM (SELECT s FROM it WHERE n > 0) x",
		"SELECT MAX(id) FROM (SELECT id FROM it ORDER BY n DESC, id LIMIT 5 OFFSET 2) x",
		"SELECT MAX(n) FROM it",
		"SELECT COUNT(*) FROM (SELECT n, id FROM it) x",
		"SELECT COUNT(*) FROM (SELECT s, id, n * 2 AS d FROM it WHERE grp < 4 ORDER BY s DESC, id) x",
		"SELECT COUNT(DISTINCT grp) FROM it",
	)
	report := func(stmt string, got, want []string, fresh string) {
		c.o.Count("cte_twice_compared")
		diff := ""
		for i := 0; i < len(got) || i < len(want); i++ {
			g, w := "<missing>", "<missing>"
			if i < len(got) {
				g = got[i]
			}
			if i < len(want) {
				w = want[i]
			}
			if g != w {
				diff = fmt.Sprintf("row %d: %s, a fresh read gives %s", i+1, g, w)
				break
			}
		}
		if diff != "" {
			c.o.Law("reread:inline_table", map[string]string{"sql": stmt, "fresh_read": fresh, "difference": diff})
		}
	}
	failed := func(stmt, fresh string) {
		c.o.Count("cte_twice_compared")
		c.o.Law("reread:inline_table", map[string]string{"sql": stmt, "fresh_read": fresh, "difference": "the statement fails although each read on its own succeeds: " + c.lastErr})
	}
	switch form % 3 {
	case 0: // two scalar sub-queries: the first does the in-place step, the second is a fingerprint of a plain read
		fp := "(SELECT LISTAGG(id || ':' || grp || ':' || n || ':' || s, ';') FROM it)"
		stmt := with + "SELECT (" + first + ") AS a, " + fp + " AS b FROM DUAL"
		fresh := with + "SELECT " + fp + " AS b FROM DUAL"
		want, ok2 := c.rowsOf(fresh)
		firstAlone, ok0 := c.rowsOf(with + first)
		got, ok1 := c.rowsOf(stmt)
		switch {
		case ok2 && ok0 && !ok1:
			failed(stmt, fresh)
		case ok1 && ok2 && len(got) == 1 && len(want) == 1:
			if i := strings.Index(got[0], "|"); i >= 0 {
				report(stmt, []string{got[0][i+1:]}, want, fresh)
			}
		default:
			c.o.Count("cte_twice_error")
		}
		_ = firstAlone
	case 1: // outer query and sub-query
		stmt := with + "SELECT id, grp, n, s FROM it WHERE n IN (SELECT n FROM it WHERE n >= 0) ORDER BY id"
		fresh := "SELECT id, grp, n, s " + base + " AND n >= 0 ORDER BY id"
		want, ok2 := c.rowsOf(fresh)
		got, ok1 := c.rowsOf(stmt)
		if ok1 && ok2 {
			report(stmt, got, want, fresh)
		} else if ok2 {
			failed(stmt, fresh)
		}
	default: // UNION ALL of a filtering / reordering read and a plain read
		stmt := with + "SELECT s AS v FROM it WHERE n > 0 UNION ALL SELECT id AS v FROM it UNION ALL SELECT n AS v FROM it"
		w1, ok1 := c.rowsOf("SELECT s " + base + " AND n > 0")
		w2, ok2 := c.rowsOf("SELECT id " + base)
		w3, ok3 := c.rowsOf("SELECT n " + base)
		got, ok4 := c.rowsOf(stmt)
		if ok1 && ok2 && ok3 && ok4 {
			report(stmt, got, append(append(w1, w2...), w3...), "the three SELECTs over the base table")
		} else if ok1 && ok2 && ok3 {
			failed(stmt, "the three SELECTs over the base table")
		}
	}
}

// doubleReleaseCheck: (poisoning on) the hook logs a Discard of an object that already holds the poison — read what
// it appended since the last statement; (poisoning off) an object released twice sits in the pool twice: allocate
// from every pool and look for the same object handed out twice.
func (c *ctx) doubleReleaseCheck(sql string) {
	if c.nDouble >= 10 {
		return
	}
	if c.poison {
		if c.dblLog == "" {
			return
		}
		fi, err := os.Stat(c.dblLog)
		if err != nil || fi.Size() <= c.dblSeen {
			return
		}
		b, err := os.ReadFile(c.dblLog)
		if err != nil {
			return
		}
		fresh := strings.TrimSpace(string(b[c.dblSeen:]))
		c.dblSeen = int64(len(b))
		lines := strings.Split(fresh, "\n")
		if len(lines) > 3 {
			lines = lines[:3]
		}
		c.nDouble++
		c.o.Law("double_discard", map[string]string{"sql": sql, "how": "the Discard hook saw an object that was already discarded", "where": strings.Join(lines, " || ")})
		return
	}
	if problem := valuePoolProbe(24); problem != "" {
		c.nDouble++
		c.o.Law("double_discard", map[string]string{"sql": sql, "how": "after this statement the value pool hands one object to two allocations", "where": problem})
	}
}

func (c *ctx) nt(sg string) {
	if c.sigSeen == nil {
		c.sigSeen = map[string]bool{}
	}
	if !c.sigSeen[sg] {
		c.sigSeen[sg] = true
		c.sigList = append(c.sigList, sg)
	}
	c.o.NonTrivial(sg)
}

// scanText reports a poison value (hook H2: a discarded object that is still referenced) showing up in
// printed output: a result cell, a printed syntax tree, a variable, a cursor row, a re-read table.
func (c *ctx) scanText(txt string, where string, sql string) {
	if !c.poison {
		return
	}
	for needle, what := range poisonTexts() {
		if i := strings.Index(txt, needle); i >= 0 {
			lo, hi := i-80, i+len(needle)+40
			if lo < 0 {
				lo = 0
			}
			if hi > len(txt) {
				hi = len(txt)
			}
			c.poisoned(where, what, sql, txt[lo:hi])
			return
		}
	}
}

func (c *ctx) poisoned(where, what, sql, excerpt string) {
	c.nPoison++
	c.o.Count("poisoned_read:" + where)
	if c.nPoison <= 12 {
		c.o.Law("poisoned_read", map[string]string{"sql": sql, "where": where, "poison": what, "excerpt": excerpt})
	}
}

// scanView evaluates a SELECT once more through query.Select and looks at the values themselves (this
// also recognises the NaN poison, which prints like any NaN).
func (c *ctx) scanView(q string, where string) {
	if !c.poison {
		return
	}
	view, err := c.pr.Query(q)
	if err != nil || view == nil {
		return
	}
	for i, rec := range view.RecordSet {
		for j, cell := range rec {
			for _, p := range cell {
				if what := poisonOf(p); what != "" {
					c.poisoned(where, what, q, fmt.Sprintf("row %d column %d holds the %s poison", i+1, j+1, what))
					return
				}
			}
		}
	}
}

func whereOf(kind string) string {
	switch kind {
	case "reread_cursor":
		return "cursor row"
	case "reread_variable":
		return "variable"
	case "reread_table", "baseline", "final":
		return "re-read table cell"
	}
	return "result cell"
}

// canon: what two evaluations are compared on.  A failing statement is compared by csvq's error code
// only: with several workers the row whose error is reported first (and with it the value quoted in the
// message) depends on the schedule, which is no concern of this property.
func canon(out string, err error) string {
	if err != nil {
		return fmt.Sprintf("ERROR code=%d", hc.ErrCode(err))
	}
	return out
}

func errText(err error) string {
	if err == nil {
		return ""
	}
	return strings.SplitN(err.Error(), "\n", 2)[0]
}

func stmtText(s csvqparser.Statement) (txt string) {
	defer func() {
		if r := recover(); r != nil {
			txt = fmt.Sprintf("<String() panicked: %v>", r)
		}
	}()
	if st, ok := s.(fmt.Stringer); ok {
		return st.String()
	}
	return fmt.Sprintf("%#v", s)
}

// execChecked parses sql, executes it, and reports a syntax tree that reads differently afterwards.
func (c *ctx) execChecked(sql string, kind string) (string, error) {
	c.pr.Stdout.Reset()
	stmts, _, err := csvqparser.Parse(sql, "", false, c.pr.P.Tx.Flags.AnsiQuotes)
	if err != nil {
		return "", err
	}
	before := make([]string, len(stmts))
	for i, s := range stmts {
		before[i] = stmtText(s)
	}
	_, err = c.pr.P.Execute(c.pr.Ctx, stmts)
	out := c.pr.Stdout.String()
	for i, s := range stmts {
		after := stmtText(s)
		if after != before[i] {
			c.o.Law("ast_unchanged", map[string]string{"kind": kind, "sql": sql, "before": before[i], "after": after})
			c.scanText(after, "syntax tree", sql)
			break
		}
	}
	if c.poison {
		for _, s := range stmts {
			if what := poisonInTree(reflect.ValueOf(s), 0); what != "" {
				c.poisoned("syntax tree literal", what, sql, "after execution a literal of the parsed statement holds the "+what+" poison")
				break
			}
		}
	}
	c.doubleReleaseCheck(sql)
	c.scanText(out, whereOf(kind), sql)
	if err != nil {
		c.scanText(err.Error(), whereOf(kind)+" (error message)", sql)
	}
	c.evals++
	if err != nil {
		c.o.Count("result:error:" + kind)
		msg := strings.SplitN(err.Error(), "\n", 2)[0]
		if len(msg) > 70 {
			msg = msg[:70]
		}
		if c.errSeen == nil {
			c.errSeen = map[string]int{}
		}
		c.errSeen[kind+": "+msg]++
	} else {
		c.o.Count("result:ok:" + kind)
	}
	return out, err
}

func (c *ctx) noise() string {
	var b strings.Builder
	for i := 0; i < 1+c.g.Intn(3); i++ {
		switch c.g.Intn(4) {
		case 0:
			b.WriteString("SELECT COUNT(*) FROM t WHERE " + c.pred(rowAtoms, 2) + ";")
		case 1:
			b.WriteString("SELECT MAX(" + c.expr(c.pickType(), rowAtoms, 2) + ") FROM t;")
		case 2:
			b.WriteString("SELECT " + c.expr('S', rowAtoms, 2) + " || " + c.expr('N', rowAtoms, 2) + " FROM t WHERE id % 3 = 0;")
		default:
			q, _ := c.selectStmt()
			b.WriteString(q + ";")
		}
	}
	return b.String()
}

// corpus: statements evaluated first in every run (pre-findings and their neighbours)
var corpus = []string{
	"SELECT id, COUNT(*) OVER () FROM t ORDER BY id",
	"SELECT id, COUNT(*) OVER (PARTITION BY grp) FROM t ORDER BY id",
	"SELECT id, COUNT(n) OVER (), SUM(n) OVER (PARTITION BY grp ORDER BY id) FROM t ORDER BY id",
	"SELECT grp, COUNT(*), COUNT(DISTINCT s) FROM t GROUP BY grp ORDER BY grp",
	"SELECT id, NTH_VALUE(n, 2) OVER (ORDER BY id ROWS BETWEEN UNBOUNDED PRECEDING AND UNBOUNDED FOLLOWING) FROM t ORDER BY id",
	"SELECT id, NTH_VALUE(s, 3) OVER (PARTITION BY grp ORDER BY id), LAG(n, 2, 0) OVER (PARTITION BY grp ORDER BY id), NTILE(3) OVER (ORDER BY id) FROM t ORDER BY id",
	"SELECT id, s2, s FROM t ORDER BY s2, s, id",
	"SELECT id, RANK() OVER (PARTITION BY s ORDER BY s2), LISTAGG(s2, ',') OVER (PARTITION BY s) FROM t ORDER BY id",
	"SELECT DISTINCT s, s2 FROM t ORDER BY s DESC, s2",
	"SELECT id, n, +n, -n, +f, -f, +s2, +(n * 2), -(-n) FROM t ORDER BY id",
	"SELECT a.id, b.name FROM t a, t2 b WHERE a.grp = b.grp AND a.id < 40 ORDER BY a.id, b.name",
	"SELECT a.id, b.name, a.s || b.name FROM t2 b, t a WHERE a.grp = b.grp AND a.id < 20 ORDER BY a.id, b.name",
	"SELECT id, YEAR(dv), ADD_DAY(dv, 1), DATE_DIFF(dv, @dvar), DATETIME_FORMAT(dv, '%Y-%m-%d'), dv FROM dtt ORDER BY id",
	"SELECT id, dv, TRUNC_MONTH(dv), UNIX_TIME(@dvar), dv < @dvar FROM dtt WHERE dv > '2005-01-01' ORDER BY dv, id",
	"SELECT id, s || n, UPPER(s), n + f, -n, DATETIME(d) FROM t WHERE s IN ('alpha', 'Beta') OR n BETWEEN -5 AND 5 ORDER BY id",
	"SELECT id, CASE WHEN n > 0 THEN 'p' ELSE s END, COALESCE(NULLIF(z, ''), s2), IF(f > 0, f, n) FROM t ORDER BY id",
}

// iterations per workload process (a crash loses at most one chunk)
var chunkSize = 60

func runC14(seed int64, n int, dir string, args []string) {
	if os.Getenv("C14_CHILD") == "1" {
		runChild(seed, n, dir, os.Getenv("C14_CORPUS") == "1")
		return
	}
	// Parent: the workload runs in child processes, one per chunk of iterations, because a panic in one of
	// csvq's worker goroutines cannot be recovered in-process (it would take the whole stream down).
	if os.Getenv("VERIF_TIER") == "thorough" {
		chunkSize = 1000
	}
	o := hc.NewOut(dir)
	evals, crashes, chunks := 0, 0, 0
	type job struct {
		k, n   int
		poison bool
		corpus bool
	}
	var jobs []job
	for start, k := 0, 0; start < n; start, k = start+chunkSize, k+1 {
		cn := chunkSize
		if n-start < cn {
			cn = n - start
		}
		// the discarded-object poisoning (hook H2) is ON in every other workload process; the first chunk
		// (with the corpus) runs in both modes
		jobs = append(jobs, job{k, cn, k%2 == 0 && poisonAvailable, k == 0})
		if k == 0 && poisonAvailable {
			jobs = append(jobs, job{k, cn, false, true})
		}
	}
	for ji, jb := range jobs {
		k, cn := jb.k, jb.n
		cdir := filepath.Join(dir, fmt.Sprintf("chunk-%d-%d", k, ji))
		cmd := exec.Command(os.Args[0], "-seed", strconv.FormatInt(seed*100003+int64(k), 10), "-n", strconv.Itoa(cn), "-out", cdir)
		var env []string
		for _, e := range os.Environ() {
			if !strings.HasPrefix(e, "VERIF_POISON_DISCARD=") {
				env = append(env, e)
			}
		}
		cmd.Env = append(env, "C14_CHILD=1", "C14_SIGS="+filepath.Join(dir, "signatures.json"))
		if jb.corpus {
			cmd.Env = append(cmd.Env, "C14_CORPUS=1")
		}
		if jb.poison {
			cmd.Env = append(cmd.Env, "VERIF_POISON_DISCARD=1", "VERIF_DOUBLE_DISCARD_LOG="+filepath.Join(cdir, "double.log"))
		}
		var stderr strings.Builder
		cmd.Stderr = &stderr
		chunks++
		if err := cmd.Run(); err != nil {
			crashes++
			msg := strings.SplitN(strings.TrimSpace(stderr.String()), "\n", 2)[0]
			o.Count("child_crash:" + msg)
			where := ""
			for _, l := range strings.Split(stderr.String(), "\n") {
				if strings.Contains(l, "lib/query.") && where == "" && !strings.Contains(l, "panic") {
					where = strings.TrimSpace(l)
				}
			}
			if len(o.Samples) < 10 {
				o.Samples = append(o.Samples, fmt.Sprintf("CRASH of the workload process (csvq panicked in a goroutine; chunk %d, child seed %d): %s at %s", k, seed*100003+int64(k), msg, where))
			}
			continue
		}
		if b, err := os.ReadFile(filepath.Join(cdir, "laws.txt")); err == nil {
			for _, line := range strings.Split(string(b), "\n") {
				var rec struct {
					Law  string      `json:"law"`
					Case interface{} `json:"case"`
				}
				if line != "" && json.Unmarshal([]byte(line), &rec) == nil {
					o.Law(rec.Law, rec.Case)
					o.Stats["law_fail:"+rec.Law]-- // counted again below from the child's stats
				}
			}
		}
		var st struct {
			Evaluations int            `json:"evaluations"`
			Stats       map[string]int `json:"stats"`
			Samples     []string       `json:"samples"`
		}
		if b, err := os.ReadFile(filepath.Join(cdir, "stats.json")); err == nil && json.Unmarshal(b, &st) == nil {
			evals += st.Evaluations
			for key, v := range st.Stats {
				if strings.HasPrefix(key, "functions_") {
					o.Stats[key] = v
				} else {
					o.Stats[key] += v
				}
			}
			if len(o.Samples) < 8 {
				o.Samples = append(o.Samples, st.Samples...)
			}
		}
		var sigs []string
		if b, err := os.ReadFile(filepath.Join(cdir, "sigs.json")); err == nil && json.Unmarshal(b, &sigs) == nil {
			for _, sg := range sigs {
				o.NonTrivial(sg)
			}
		}
	}
	o.Stats["chunks"] = chunks
	o.Stats["child_crashes"] = crashes
	o.Close()
	p := filepath.Join(dir, "stats.json")
	var st map[string]interface{}
	if b, err := os.ReadFile(p); err == nil && json.Unmarshal(b, &st) == nil {
		st["evaluations"] = evals
		nb, _ := json.MarshalIndent(st, "", " ")
		_ = os.WriteFile(p, nb, 0o644)
	}
	if crashes*4 > chunks && crashes > 1 {
		fmt.Fprintf(os.Stderr, "c14: %d of %d workload processes crashed — the cross-check is not usable\n", crashes, chunks)
		os.Exit(4)
	}
}

func (c *ctx) probeSignatures(names []string, withSig map[string]bool) {
	probe := map[byte]string{'N': "3", 'F': "1.5", 'S': "'abc'", 'D': "'2012-02-03 09:18:15'"}
	var cands []string
	cands = append(cands, "")
	for _, a := range "NFSD" {
		cands = append(cands, string(a))
		for _, b := range "NFSD" {
			cands = append(cands, string(a)+string(b))
			for _, d := range "NFSD" {
				cands = append(cands, string(a)+string(b)+string(d))
			}
		}
	}
	cands = append(cands, "FNSSS", "SNSS", "SNSSS", "SSSS", "SNNN", "DNNN")
	for _, fn := range names {
		if nondeterministic[fn] {
			continue
		}
		var okCands []string
		for _, cand := range cands {
			args := make([]string, len(cand))
			for i := range cand {
				args[i] = probe[cand[i]]
			}
			if _, err := c.pr.Query("SELECT " + fn + "(" + strings.Join(args, ", ") + ") FROM one"); err == nil {
				okCands = append(okCands, cand)
			}
		}
		// keep, per arity, one signature per first-argument type (a datetime, a string, an integer, a float): the
		// functions convert their arguments, so most type vectors are accepted and the first ones found would all
		// start with the same type
		kept := map[string]bool{}
		perArity := map[int]int{}
		for _, first := range "DSNF" {
			for _, cand := range okCands {
				if len(cand) > 0 && rune(cand[0]) != first {
					continue
				}
				key := fmt.Sprintf("%d%c", len(cand), first)
				if kept[key] || perArity[len(cand)] >= 4 {
					continue
				}
				// prefer a vector whose later arguments differ from the first (e.g. DS, DN) over DDD
				kept[key] = true
				perArity[len(cand)]++
				c.sigs = append(c.sigs, sig{fn, cand})
				withSig[fn] = true
				if len(cand) == 0 {
					break
				}
			}
		}
	}
}

func runChild(seed int64, n int, dir string, withCorpus bool) {
	g := hc.NewGen(seed)
	o := hc.NewOut(dir)
	repoSrc := os.Getenv("VERIF_REPO")
	if repoSrc == "" {
		repoSrc = "/repo"
	}
	scratch := os.Getenv("VERIF_SCRATCH")
	if scratch == "" {
		scratch = os.TempDir()
	}
	repo, err := os.MkdirTemp(scratch, "c14repo-")
	if err != nil {
		panic(err)
	}
	defer os.RemoveAll(repo)
	c := &ctx{g: g, o: o, poison: poisonAvailable && os.Getenv("VERIF_POISON_DISCARD") != ""}
	c.dblLog = os.Getenv("VERIF_DOUBLE_DISCARD_LOG")
	if c.poison {
		o.Count("mode:poison_on")
	} else {
		o.Count("mode:poison_off")
	}
	defer func() {
		sb, _ := json.Marshal(c.sigList)
		_ = os.WriteFile(filepath.Join(dir, "sigs.json"), sb, 0o644)
		o.Close()
		p := filepath.Join(dir, "stats.json")
		var st map[string]interface{}
		if b, err := os.ReadFile(p); err == nil && json.Unmarshal(b, &st) == nil {
			st["evaluations"] = c.evals
			nb, _ := json.MarshalIndent(st, "", " ")
			_ = os.WriteFile(p, nb, 0o644)
		}
	}()

	// tables
	words := []string{"alpha", "Beta", "gamma ", " delta", "12", "3.5", "2012-02-03", "true", "", "Ünï"}
	var rows []string
	rows = append(rows, "id,grp,n,f,s,s2,d,z")
	for i := 1; i <= 240; i++ {
		z := ""
		if i%7 == 0 {
			z = "zz"
		}
		rows = append(rows, fmt.Sprintf("%d,%d,%d,%d.%02d,%s,%s%d,%s,%s", i, g.Intn(6), g.Intn(200)-100, g.Intn(50)-25, g.Intn(100),
			words[g.Intn(len(words))], words[g.Intn(4)], i%13,
			fmt.Sprintf("20%02d-%02d-%02d %02d:%02d:%02d", g.Intn(30), 1+g.Intn(12), 1+g.Intn(28), g.Intn(24), g.Intn(60), g.Intn(60)), z))
	}
	_ = os.WriteFile(filepath.Join(repo, "t.csv"), []byte(strings.Join(rows, "\n")+"\n"), 0o644)
	var r2 []string
	r2 = append(r2, "grp,name")
	for i := 0; i < 9; i++ {
		r2 = append(r2, fmt.Sprintf("%d,%s%d", i%6, words[i%4], i))
	}
	_ = os.WriteFile(filepath.Join(repo, "t2.csv"), []byte(strings.Join(r2, "\n")+"\n"), 0o644)
	_ = os.WriteFile(filepath.Join(repo, "one.csv"), []byte("x\n1\n"), 0o644)
	var ru []string
	ru = append(ru, "id,grp,n,s")
	for i := 1; i <= 70; i++ {
		ru = append(ru, fmt.Sprintf("%d,%d,%d,%s%d", i, g.Intn(5), g.Intn(90)-30, words[g.Intn(4)], i))
	}
	_ = os.WriteFile(filepath.Join(repo, "u.csv"), []byte(strings.Join(ru, "\n")+"\n"), 0o644)

	pr := hc.NewProc(repo)
	defer pr.Close()
	c.pr = pr
	if _, err := pr.Exec("SET @@CPU TO 4;"); err != nil {
		panic(err)
	}

	// signatures of the built-in scalar functions, by probing on a one-row table (done by the first
	// workload process of a run; the others read its list)
	names := builtinNames(repoSrc)
	if len(names) < 50 {
		panic(fmt.Sprintf("only %d function names found in the Functions map", len(names)))
	}
	withSig := map[string]bool{}
	sigFile := os.Getenv("C14_SIGS")
	if b, err := os.ReadFile(sigFile); sigFile != "" && err == nil {
		var list [][2]string
		if json.Unmarshal(b, &list) == nil {
			for _, e := range list {
				c.sigs = append(c.sigs, sig{e[0], e[1]})
				withSig[e[0]] = true
			}
		}
	}
	if len(c.sigs) == 0 {
		c.probeSignatures(names, withSig)
		if sigFile != "" {
			var list [][2]string
			for _, sg := range c.sigs {
				list = append(list, [2]string{sg.fn, sg.args})
			}
			b, _ := json.Marshal(list)
			_ = os.WriteFile(sigFile, b, 0o644)
		}
	}
	for _, fn := range names {
		if nondeterministic[fn] {
			o.Count("skipped_nondeterministic")
		}
	}
	o.Stats["functions_in_map"] = len(names)
	o.Stats["functions_with_signature"] = len(withSig)
	for _, fn := range names {
		if !withSig[fn] && !nondeterministic[fn] {
			o.Count("no_signature:" + fn)
		}
	}
	if len(c.sigs) == 0 {
		panic("no callable built-in function found")
	}

	baseline, err := c.execChecked("SELECT * FROM t ORDER BY id; SELECT * FROM t2;", "baseline")
	if err != nil {
		panic(err)
	}
	// values that are datetimes already (not strings that look like one): a temporary view with datetime
	// cells and a datetime variable; conversions must copy them, not hand them back
	if _, err := c.execChecked("DECLARE dtt VIEW (id, dv, dn) AS SELECT id, DATETIME(d), n FROM t WHERE id <= 120; DECLARE @dvar := DATETIME('2012-02-03 09:18:15');", "baseline"); err != nil {
		panic(err)
	}
	dtBaseline, err := c.execChecked("SELECT * FROM dtt ORDER BY id; PRINT @dvar;", "baseline")
	if err != nil {
		panic(err)
	}
	uBaseline, err := c.execChecked("SELECT * FROM u ORDER BY id;", "baseline")
	if err != nil {
		panic(err)
	}
	// a scalar function with nested blocks (IF declaring a local, WHILE declaring a local, parameters read
	// after them): its results in this fresh process are the reference for later calls
	const probeFn = "DECLARE pf FUNCTION (@a, @b) AS BEGIN VAR @r := 0; IF @a > 0 THEN VAR @loc := @a * 2; @r := @loc; IF @b > 1 THEN VAR @in := @b; @r := @r + @in; END IF; END IF; " +
		"VAR @k := 0; WHILE @k < 2 DO VAR @w := 1; @k := @k + @w; @r := @r + @k; END WHILE; RETURN @r + @a + @b; END;"
	const probeQ = "SELECT id, pf(n, 5), pf(id, grp) FROM t WHERE id <= 40 ORDER BY id;"
	if _, err := c.execChecked(probeFn, "baseline"); err != nil {
		panic(err)
	}
	probeBaseline, err := c.execChecked(probeQ, "baseline")
	if err != nil {
		panic(err)
	}
	rereadDt := func(where string) {
		again, e := c.execChecked("SELECT * FROM dtt ORDER BY id; PRINT @dvar;", "reread_table")
		if e != nil || again != dtBaseline {
			o.Law("reread:datetime_cells", map[string]string{"second": canon(again, e), "where": where})
		}
		c.scanView("SELECT * FROM dtt", "re-read table cell")
	}

	if os.Getenv("C14_ONLY_GW") != "" { // debugging aid: the grammar-derived workloads alone
		if k, err := strconv.Atoi(os.Getenv("C14_GW_PICK")); err == nil {
			for i := 0; i < k; i++ {
				c.grammarPhase(repo, false, 3)
			}
			return
		}
		c.grammarPhase(repo, true, 0)
		return
	}
	if withCorpus {
		for ci, q := range corpus {
			o.Count("kind:corpus")
			r1, e1 := c.execChecked(q+";", "plain")
			r2, e2 := c.execChecked(q+";", "plain")
			if canon(r1, e1) != canon(r2, e2) {
				o.Law("repeat_eval:plain", map[string]string{"sql": q, "first": canon(r1, e1), "second": canon(r2, e2), "first_error": errText(e1), "second_error": errText(e2)})
			}
			pq := strings.Replace(q, " FROM t", ", ? FROM t", 1)
			name := fmt.Sprintf("cps%d", ci)
			if _, e := c.execChecked(fmt.Sprintf("PREPARE %s FROM '%s';", name, strings.ReplaceAll(pq, "'", "''")), "prepared"); e == nil {
				ex := fmt.Sprintf("EXECUTE %s USING 1;", name)
				p1, pe1 := c.execChecked(ex, "prepared")
				p2, pe2 := c.execChecked(ex, "prepared")
				if canon(p1, pe1) != canon(p2, pe2) {
					o.Law("repeat_eval:prepared", map[string]string{"prepare": pq, "execute": ex, "first": canon(p1, pe1), "second": canon(p2, pe2), "first_error": errText(pe1), "second_error": errText(pe2)})
				}
			}
			v := fmt.Sprintf("@cw%d", ci)
			wsql := fmt.Sprintf("DECLARE %s := 0; WHILE %s < 2 DO %s; PRINT '#SEP#'; %s := %s + 1; END WHILE;", v, v, q, v, v)
			out, e := c.execChecked(wsql, "while")
			parts := strings.Split(out, "'#SEP#'\n")
			if e == nil && (len(parts) != 3 || parts[0] != parts[1]) {
				o.Law("repeat_eval:while", map[string]string{"sql": wsql, "output": out})
			}
			c.scanView(q, "result cell")
			c.scanView("SELECT * FROM t", "re-read table cell")
			rereadDt("after corpus statement " + q)
			c.nt(fmt.Sprintf("corpus/%d/%v/%v", ci, e1 != nil, c.poison))
		}
	}
	if withCorpus {
		for _, extra := range []string{"JSON_OBJECT(grp, id)", "JSON_OBJECT(n, s)", "JSON_OBJECT(s2, grp, id)", "JSON_OBJECT(n)", "JSON_OBJECT()", "NOW()"} {
			q0 := "SELECT id, grp, n, s FROM t ORDER BY id"
			q1 := "SELECT id, grp, n, s, " + extra + ", grp, id FROM t ORDER BY id"
			if diff, same := c.leadingColumnsEqual(q0, q1, 4); !same {
				o.Law("extra_column_changes_others", map[string]string{"without": q0, "with": q1, "difference": diff})
			}
		}
	}
	if withCorpus {
		for f := 0; f < 9; f++ {
			c.cteTwice(f)
		}
		// early-return paths: every built-in with NULL in each argument position, on one row, on the main goroutine
		// (@@CPU 1) — the paths on which a temporary is released "again" (explicitly and by a defer, or twice)
		_, _ = pr.Exec("SET @@CPU TO 1;")
		c.doubleReleaseCheck("(before the NULL-argument phase)")
		probeArg := map[byte]string{'N': "3", 'F': "1.5", 'S': "'abc'", 'D': "'2012-02-03 09:18:15'"}
		for _, sg := range c.sigs {
			for pos := 0; pos <= len(sg.args); pos++ {
				args := make([]string, len(sg.args))
				for i := range sg.args {
					args[i] = probeArg[sg.args[i]]
					if i == pos {
						args[i] = "NULL"
					}
				}
				q := "SELECT " + sg.fn + "(" + strings.Join(args, ", ") + ") FROM one"
				_, _ = c.pr.Query(q)
				_, _ = c.pr.Query(q)
				c.evals += 2
				c.doubleReleaseCheck(q)
			}
		}
		o.Count("nullarg_phase")
		_, _ = pr.Exec("SET @@CPU TO 4;")
	}
	if withCorpus {
		// every statement kind and operand position of the grammar, operands of every type from every kind of holder
		// (workloads.go, grammar.go)
		c.grammarPhase(repo, true, 0)
		// every aggregate / list / analytic function x modifier between two probes of the same column (within.go)
		c.withinPhase(repo, true, 0)
	}
	for it := 0; it < n; it++ {
		c.seq++
		kind := []string{"plain", "plain", "while", "udf", "prepared", "reread_table", "reread_cursor", "reread_variable", "dtcell", "fromlist", "dml_alias", "uda_pool", "extra_column", "cte_twice", "dispose_shared", "unary", "multi_dml", "grammar", "within"}[it%19]
		o.Count("kind:" + kind)
		switch kind {
		case "grammar":
			c.grammarPhase(repo, false, 2)
		case "within":
			c.withinPhase(repo, false, 8)
		case "plain":
			q, form := c.selectStmt()
			r1, e1 := c.execChecked(q+";", kind)
			r2, e2 := c.execChecked(q+";", kind)
			if canon(r1, e1) != canon(r2, e2) {
				o.Law("repeat_eval:plain", map[string]string{"sql": q, "first": canon(r1, e1), "second": canon(r2, e2), "first_error": errText(e1), "second_error": errText(e2)})
			}
			c.scanView(q, "result cell")
			c.nt(fmt.Sprintf("plain/%s/%v/%d", form, e1 != nil, len(r1)%97))
			if len(o.Samples) < 4 {
				o.Samples = append(o.Samples, q)
			}
		case "while":
			q, form := c.selectStmt()
			v := fmt.Sprintf("@w%d", c.seq)
			sql := fmt.Sprintf("DECLARE %s := 0; WHILE %s < 2 DO %s; PRINT '#SEP#'; %s := %s + 1; END WHILE;", v, v, q, v, v)
			out, e := c.execChecked(sql, kind)
			parts := strings.Split(out, "'#SEP#'\n")
			if e == nil && (len(parts) != 3 || parts[0] != parts[1]) {
				o.Law("repeat_eval:while", map[string]string{"sql": sql, "output": out})
			}
			c.nt(fmt.Sprintf("while/%s/%v/%d", form, e != nil, len(out)%97))
		case "udf":
			body := c.expr(c.pickType(), parAtoms, 2+c.g.Intn(2))
			fn := fmt.Sprintf("uf%d", c.seq)
			decl := fmt.Sprintf("DECLARE %s FUNCTION (@p1, @p2, @p3, @p4, @p5) AS BEGIN RETURN %s; END;", fn, body)
			if _, e := c.execChecked(decl, kind); e != nil {
				o.Count("udf_declare_error")
				continue
			}
			q := fmt.Sprintf("SELECT id, %s(n, f, s, d, s2), %s(id, 1.5, 'k', d, s) FROM t ORDER BY id;", fn, fn)
			r1, e1 := c.execChecked(q, kind)
			r2, e2 := c.execChecked(q, kind)
			if canon(r1, e1) != canon(r2, e2) {
				o.Law("repeat_eval:udf", map[string]string{"declare": decl, "sql": q, "first": canon(r1, e1), "second": canon(r2, e2), "first_error": errText(e1), "second_error": errText(e2)})
			}
			c.nt(fmt.Sprintf("udf/%v/%d", e1 != nil, len(r1)%97))
			if len(o.Samples) < 6 {
				o.Samples = append(o.Samples, decl)
			}
		case "prepared":
			q, form := c.selectStmt()
			for form == "union" || form == "subquery" {
				q, form = c.selectStmt()
			}
			q = strings.Replace(q, " FROM t", ", ? FROM t", 1)
			name := fmt.Sprintf("ps%d", c.seq)
			if _, e := c.execChecked(fmt.Sprintf("PREPARE %s FROM '%s';", name, strings.ReplaceAll(q, "'", "''")), kind); e != nil {
				o.Count("prepare_error")
				continue
			}
			ex := fmt.Sprintf("EXECUTE %s USING %s;", name, c.g.Pick("1", "'p'", "2.5", "NULL"))
			r1, e1 := c.execChecked(ex, kind)
			r2, e2 := c.execChecked(ex, kind)
			if canon(r1, e1) != canon(r2, e2) {
				o.Law("repeat_eval:prepared", map[string]string{"prepare": q, "execute": ex, "first": canon(r1, e1), "second": canon(r2, e2), "first_error": errText(e1), "second_error": errText(e2)})
			}
			c.nt(fmt.Sprintf("prepared/%s/%v/%d", form, e1 != nil, len(r1)%97))
		case "dml_alias":
			// rows read BEFORE a data-changing statement and still held (cursor, derived temporary view, variable)
			// must read the same AFTER it; ROLLBACK must bring back the committed rows
			sfx := fmt.Sprintf("%d", c.seq)
			mk := c.g.Pick("UPDATE u SET n = n + 0 WHERE id = 1;", "INSERT INTO u (id, grp, n, s) VALUES (1000, 1, 1, 'ins');", "UPDATE u SET s = s WHERE id > 60;")
			k := c.g.Intn(60)
			k2 := 1 + c.g.Intn(60)
			vs := fmt.Sprintf("@da%s, @db%s, @dc%s", sfx, sfx, sfx)
			setup := mk + fmt.Sprintf(" DECLARE dc%s CURSOR FOR SELECT id, s, n FROM u ORDER BY id; OPEN dc%s; DECLARE %s; DECLARE dv%s VIEW (id, s, n) AS SELECT id, s, n FROM u; DECLARE @dx%s := (SELECT s FROM u WHERE id = %d);",
				sfx, sfx, vs, sfx, sfx, k2)
			if _, e := c.execChecked(setup, kind); e != nil {
				o.Count("dml_alias_setup_error")
				_, _ = pr.Exec("ROLLBACK;")
				continue
			}
			held := fmt.Sprintf("FETCH ABSOLUTE %d dc%s INTO %s; PRINT %s; SELECT * FROM dv%s ORDER BY id; PRINT @dx%s;", k, sfx, vs, strings.ReplaceAll(vs, ", ", " || '|' || "), sfx, sfx)
			h1, e1 := c.execChecked(held, "reread_cursor")
			dml := c.g.Pick("UPDATE u SET n = n * 2 + 1, s = UPPER(s) || '!';", "UPDATE u SET s = s || 'x', n = n - 7 WHERE id % 2 = 0;",
				"UPDATE u SET n = grp, grp = n;", "DELETE FROM u WHERE id % 3 = 0;", "REPLACE INTO u (id, grp, n, s) USING (id) SELECT id, 9, 99, 'rep' FROM u WHERE id < 30;",
				"ALTER TABLE u ADD (extra) DEFAULT 'e';", "UPDATE u SET s = (SELECT MAX(name) FROM t2), n = NULL WHERE id > 5;")
			_, ed := c.execChecked(dml, kind)
			h2, e2 := c.execChecked(held, "reread_cursor")
			if canon(h1, e1) != canon(h2, e2) {
				o.Law("reread:held_rows", map[string]string{"setup": setup, "held": held, "statement": dml, "before": canon(h1, e1), "after": canon(h2, e2)})
			}
			_, _ = pr.Exec(fmt.Sprintf("CLOSE dc%s; DISPOSE CURSOR dc%s; DISPOSE VIEW dv%s;", sfx, sfx, sfx))
			_, _ = pr.Exec("ROLLBACK;")
			again, e := c.execChecked("SELECT * FROM u ORDER BY id;", "reread_table")
			if e != nil || again != uBaseline {
				o.Law("rollback_restores", map[string]string{"setup": mk, "statement": dml, "after_rollback": canon(again, e)})
			}
			c.nt(fmt.Sprintf("dml_alias/%s/%v", strings.SplitN(dml, " ", 2)[0], ed != nil))
		case "uda_pool":
			// a user-defined AGGREGATE call (as aggregate and as analytic function, on the main goroutine and on
			// workers), then: the scope pools hand out distinct empty objects, and a function with nested blocks
			// still computes what it computed in the fresh process
			ag := fmt.Sprintf("ua%d", c.seq)
			decl := fmt.Sprintf("DECLARE %s AGGREGATE (list, @m DEFAULT 1) AS BEGIN VAR @v; VAR @acc := 0; WHILE @v IN list DO IF @v IS NOT NULL THEN VAR @t := @v * @m; @acc := @acc + @t; END IF; END WHILE; RETURN @acc; END;", ag)
			if _, e := c.execChecked(decl, kind); e != nil {
				o.Count("uda_declare_error")
				continue
			}
			for _, cpu := range []int{1, 4} {
				q := fmt.Sprintf("SET @@CPU TO %d; SELECT grp, %s(n), %s(n, 2) FROM t GROUP BY grp ORDER BY grp; SELECT id, %s(n) OVER (PARTITION BY grp) FROM t WHERE id <= 80 ORDER BY id; SET @@CPU TO 4;", cpu, ag, ag, ag)
				r1, e1 := c.execChecked(q, kind)
				if problem, bad := poolProbe(pr.P.ReferenceScope, 96); bad {
					o.Law("pool_no_alias", map[string]string{"after": decl + " " + q, "problem": problem})
				}
				r2, e2 := c.execChecked(q, kind)
				if canon(r1, e1) != canon(r2, e2) {
					o.Law("repeat_eval:aggregate", map[string]string{"declare": decl, "sql": q, "first": canon(r1, e1), "second": canon(r2, e2), "first_error": errText(e1), "second_error": errText(e2)})
				}
				pb, pe := c.execChecked(probeQ, kind)
				if canon(pb, pe) != probeBaseline {
					o.Law("repeat_eval:after_uda", map[string]string{"after": decl + " " + q, "function": probeFn, "sql": probeQ, "fresh_process": probeBaseline, "now": canon(pb, pe), "error": errText(pe)})
				}
			}
			c.nt("uda_pool")
		case "extra_column":
			lead := []string{"id", "grp", "n", "s", "s2", "f"}
			pm := c.g.Perm(len(lead))
			l3 := []string{lead[pm[0]], lead[pm[1]], lead[pm[2]]}
			var q0, q1, what string
			switch c.g.Intn(6) {
			case 0, 1, 2:
				what = c.specialColumn()
				q0 = "SELECT " + strings.Join(l3, ", ") + " FROM t ORDER BY id"
				q1 = "SELECT " + strings.Join(l3, ", ") + ", " + what + ", " + l3[0] + " FROM t ORDER BY id"
			case 3:
				what = c.expr(c.pickType(), rowAtoms, 2)
				q0 = "SELECT " + strings.Join(l3, ", ") + " FROM t ORDER BY id"
				q1 = "SELECT " + strings.Join(l3, ", ") + ", " + what + " FROM t ORDER BY id"
			case 4:
				what = c.g.Pick("LISTAGG(s, ',') WITHIN GROUP (ORDER BY n + 1, id)", "JSON_AGG(s2) WITHIN GROUP (ORDER BY s || 'x' DESC, id)", "LISTAGG(DISTINCT s2) WITHIN GROUP (ORDER BY s2)", "MEDIAN(n * 2)")
				q0 = "SELECT grp, COUNT(*), MIN(n), MAX(s) FROM t GROUP BY grp ORDER BY grp"
				q1 = "SELECT grp, COUNT(*), MIN(n), MAX(s), " + what + " FROM t GROUP BY grp ORDER BY grp"
				l3 = []string{"grp", "COUNT(*)", "MIN(n)", "MAX(s)"}
			default:
				what = c.g.Pick("LISTAGG(s, ',') OVER (PARTITION BY grp ORDER BY n + 1, id)", "NOW()", "JSON_AGG(n) OVER (PARTITION BY grp)", "NTH_VALUE(s, 2) OVER (PARTITION BY grp ORDER BY id)")
				q0 = "SELECT " + strings.Join(l3, ", ") + " FROM t ORDER BY id"
				q1 = "SELECT " + strings.Join(l3, ", ") + ", " + what + " FROM t ORDER BY id"
			}
			if diff, same := c.leadingColumnsEqual(q0, q1, len(l3)); !same {
				o.Law("extra_column_changes_others", map[string]string{"without": q0, "with": q1, "difference": diff})
			}
			r1, e1 := c.execChecked(q1+";", "plain")
			r2, e2 := c.execChecked(q1+";", "plain")
			// NOW is documented non-deterministic: its column differs between two evaluations by design
			if !strings.Contains(what, "NOW()") && canon(r1, e1) != canon(r2, e2) {
				o.Law("repeat_eval:plain", map[string]string{"sql": q1, "first": canon(r1, e1), "second": canon(r2, e2), "first_error": errText(e1), "second_error": errText(e2)})
			}
			again, e := c.execChecked("SELECT * FROM t ORDER BY id; SELECT * FROM t2;", "reread_table")
			if e != nil || again != baseline {
				o.Law("reread:table", map[string]string{"second": canon(again, e), "after": q1})
			}
			c.nt(fmt.Sprintf("extra_column/%s/%v", strings.SplitN(what, "(", 2)[0], e1 != nil))
		case "cte_twice":
			c.cteTwice(c.seq / 14)
			c.nt(fmt.Sprintf("cte_twice/%d", (c.seq/14)%3))
		case "dispose_shared":
			// DISPOSE of a variable whose value object is shared with a table cell, a cursor row, a literal of the
			// syntax tree or another variable; then allocations of the same type; then the other holders are read
			sfx := fmt.Sprintf("%d", c.seq)
			var prog string
			switch c.g.Intn(5) {
			case 0: // fetched from a cursor over the cached table
				prog = fmt.Sprintf("DECLARE dsc%s CURSOR FOR SELECT s, n, f, s2 FROM t ORDER BY id; OPEN dsc%s; VAR @ds1%s, @ds2%s, @ds3%s, @ds4%s; FETCH ABSOLUTE %d dsc%s INTO @ds1%s, @ds2%s, @ds3%s, @ds4%s; DISPOSE @ds1%s; DISPOSE @ds2%s; DISPOSE @ds3%s; DISPOSE @ds4%s; CLOSE dsc%s; DISPOSE CURSOR dsc%s;",
					sfx, sfx, sfx, sfx, sfx, sfx, c.g.Intn(240), sfx, sfx, sfx, sfx, sfx, sfx, sfx, sfx, sfx, sfx, sfx)
			case 1: // fetched from the datetime-typed temporary view
				prog = fmt.Sprintf("DECLARE dsc%s CURSOR FOR SELECT dv, dn FROM dtt ORDER BY id; OPEN dsc%s; VAR @ds1%s, @ds2%s; FETCH ABSOLUTE %d dsc%s INTO @ds1%s, @ds2%s; DISPOSE @ds1%s; DISPOSE @ds2%s; CLOSE dsc%s; DISPOSE CURSOR dsc%s;",
					sfx, sfx, sfx, sfx, c.g.Intn(120), sfx, sfx, sfx, sfx, sfx, sfx, sfx)
			case 2: // a literal of a loop body, declared and disposed in every iteration
				prog = fmt.Sprintf("VAR @di%s := 0; WHILE @di%s < 3 DO VAR @dl%s := 'shared literal %s'; VAR @dm%s := 4242%s; PRINT @dl%s || '/' || @dm%s; DISPOSE @dl%s; DISPOSE @dm%s; @di%s := @di%s + 1; END WHILE;",
					sfx, sfx, sfx, sfx, sfx, sfx, sfx, sfx, sfx, sfx, sfx, sfx)
			case 3: // a literal of a function body
				prog = fmt.Sprintf("DECLARE dsf%s FUNCTION (@a) AS BEGIN VAR @loc := 'fn literal %s'; VAR @res := @loc || @a; DISPOSE @loc; RETURN @res; END; SELECT id, dsf%s(s) FROM t WHERE id <= 30 ORDER BY id; SELECT id, dsf%s(n) FROM t WHERE id <= 30 ORDER BY id;",
					sfx, sfx, sfx, sfx)
			default: // two variables holding one object
				prog = fmt.Sprintf("VAR @dx%s := (SELECT s2 FROM t WHERE id = %d); VAR @dy%s; @dy%s := @dx%s; VAR @dz%s := (SELECT dv FROM dtt WHERE id = %d); VAR @dw%s; @dw%s := @dz%s; DISPOSE @dx%s; DISPOSE @dz%s; PRINT @dy%s; PRINT @dw%s;",
					sfx, 1+c.g.Intn(240), sfx, sfx, sfx, sfx, 1+c.g.Intn(120), sfx, sfx, sfx, sfx, sfx, sfx, sfx)
			}
			r1, e1 := c.execChecked(prog, kind)
			_, _ = c.execChecked(c.noise(), kind)
			_, _ = c.execChecked("SELECT id, s || 'q', n + 1, f * 2, ADD_DAY(d, 1) FROM t WHERE id % 4 = 0; SELECT ADD_DAY(dv, 2), dn + 1 FROM dtt;", kind)
			if strings.Contains(prog, "PRINT @dy") {
				// the surviving variables of the last shape
				again, e := c.execChecked(fmt.Sprintf("PRINT @dy%s; PRINT @dw%s;", sfx, sfx), "reread_variable")
				tail := r1
				if canon(again, e) != tail && e1 == nil {
					o.Law("reread:variable", map[string]string{"program": prog, "first": tail, "second": canon(again, e)})
				}
			}
			again, e := c.execChecked("SELECT * FROM t ORDER BY id; SELECT * FROM t2;", "reread_table")
			if e != nil || again != baseline {
				o.Law("reread:table", map[string]string{"second": canon(again, e), "after": prog})
			}
			c.scanView("SELECT * FROM t", "re-read table cell")
			rereadDt("after " + prog)
			c.nt(fmt.Sprintf("dispose_shared/%v/%d", e1 != nil, len(r1)%7))
		case "unary":
			// unary plus / minus over every numeric class, kept in a column / a variable while further values of the
			// same type are made: +x is x, -x is x * -1, and what was computed does not change afterwards
			ops := []string{"n", "f", "id", "s2", "'12'", "' 3.5 '", "(n * 2)", "(f / 3)", "grp"}
			a, b := ops[c.g.Intn(len(ops))], ops[c.g.Intn(len(ops))]
			got, ok1 := c.rowsOf(fmt.Sprintf("SELECT +%s, -%s, +%s, -%s, %s, %s FROM t ORDER BY id", a, a, b, b, a, b))
			want, ok2 := c.rowsOf(fmt.Sprintf("SELECT %s * 1, %s * -1, %s * 1, %s * -1, %s, %s FROM t ORDER BY id", a, a, b, b, a, b))
			if ok1 && ok2 {
				for i := range got {
					if i < len(want) && got[i] != want[i] {
						o.Law("unary_identity", map[string]string{"operands": a + ", " + b, "row": fmt.Sprintf("%d", i+1), "unary": got[i], "by_multiplication": want[i]})
						break
					}
				}
			}
			c.scanView(fmt.Sprintf("SELECT +%s, -%s, +%s FROM t", a, a, b), "result cell")
			vn := fmt.Sprintf("@un%d", c.seq)
			lit := c.g.Pick("1", "7", "2.5", "'12'", "0")
			prog := fmt.Sprintf("VAR %s := +%s; VAR %sm := -%s; VAR %sb := 5 + 5; VAR %sc := 1.25 + 1.25; PRINT %s; PRINT %sm;", vn, lit, vn, lit, vn, vn, vn, vn)
			r1, e1 := c.execChecked(prog, "reread_variable")
			exp, e0 := c.execChecked(fmt.Sprintf("PRINT %s * 1; PRINT %s * -1;", lit, lit), "reread_variable")
			if e1 == nil && e0 == nil && r1 != exp {
				o.Law("unary_identity", map[string]string{"program": prog, "printed": r1, "expected": exp})
			}
			_, _ = c.execChecked(c.noise(), kind)
			r2, e2 := c.execChecked(fmt.Sprintf("PRINT %s; PRINT %sm;", vn, vn), "reread_variable")
			if canon(r1, e1) != canon(r2, e2) {
				o.Law("reread:variable", map[string]string{"program": prog, "first": canon(r1, e1), "second": canon(r2, e2)})
			}
			c.nt(fmt.Sprintf("unary/%s/%s", a, lit))
		case "multi_dml":
			// UPDATE … FROM / DELETE … FROM over a one-to-many join (one target record matches several joined
			// records), then a statement whose effect identifies the records it touched
			first := c.g.Pick(
				"UPDATE u SET u.s = 'X' || b.name FROM u JOIN t2 b ON u.grp = b.grp;",
				"UPDATE u SET u.n = u.n + 1 FROM u JOIN t2 b ON u.grp = b.grp JOIN t2 c ON c.grp = b.grp WHERE u.id < 50;",
				"DELETE u FROM u JOIN t2 b ON u.grp = b.grp WHERE u.id % 9 = 0;",
				"DELETE u FROM u, t2 b WHERE u.grp = b.grp AND u.id > 60;",
			)
			_, e1 := c.execChecked(first, kind)
			k := 1 + c.g.Intn(55)
			if k%9 == 0 {
				k++
			}
			mark := fmt.Sprintf("UPDATE u SET s = 'MARK%d' WHERE id = %d;", c.seq, k)
			_, e2 := c.execChecked(mark, kind)
			got, ok := c.rowsOf(fmt.Sprintf("SELECT id FROM u WHERE s = 'MARK%d'", c.seq))
			if e1 == nil && e2 == nil && ok && !(len(got) == 1 && strings.Trim(got[0], "'") == fmt.Sprintf("%d", k)) {
				o.Law("dml_targets", map[string]string{"first": first, "then": mark, "records_marked": strings.Join(got, ","), "expected": fmt.Sprintf("%d", k)})
			}
			del := fmt.Sprintf("DELETE FROM u WHERE id = %d;", k+1)
			_, e3 := c.execChecked(del, kind)
			left, ok2 := c.rowsOf(fmt.Sprintf("SELECT COUNT(*) FROM u WHERE id = %d", k+1))
			still, ok3 := c.rowsOf(fmt.Sprintf("SELECT COUNT(*) FROM u WHERE id = %d", k))
			if e3 == nil && ok2 && ok3 && (left[0] != "0" || still[0] != "1") {
				o.Law("dml_targets", map[string]string{"first": first, "then": del, "rows_with_deleted_id": left[0], "rows_with_marked_id": still[0]})
			}
			_, _ = pr.Exec("ROLLBACK;")
			again, e := c.execChecked("SELECT * FROM u ORDER BY id;", "reread_table")
			if e != nil || again != uBaseline {
				o.Law("rollback_restores", map[string]string{"statement": first + " " + mark + " " + del, "after_rollback": canon(again, e)})
			}
			c.nt(fmt.Sprintf("multi_dml/%s/%v", strings.SplitN(first, " ", 2)[0], e1 != nil))
		case "dtcell":
			// functions applied to datetime-typed cells and variables, twice; then the cells are read again
			k := 1 + c.g.Intn(3)
			cols := make([]string, k)
			for i := range cols {
				cols[i] = c.call(dtAtoms, 1)
			}
			q := "SELECT id, " + strings.Join(cols, ", ") + ", dv FROM dtt ORDER BY id"
			r1, e1 := c.execChecked(q+";", "plain")
			r2, e2 := c.execChecked(q+";", "plain")
			if canon(r1, e1) != canon(r2, e2) {
				o.Law("repeat_eval:plain", map[string]string{"sql": q, "first": canon(r1, e1), "second": canon(r2, e2), "first_error": errText(e1), "second_error": errText(e2)})
			}
			c.scanView(q, "result cell")
			rereadDt("after " + q)
			c.nt(fmt.Sprintf("dtcell/%v/%d", e1 != nil, len(r1)%97))
		case "fromlist":
			// comma-separated FROM list, the same syntax tree evaluated again (WHILE, PREPARE/EXECUTE)
			q := "SELECT a.id, b.name, " + c.g.Pick("a.n", "a.s || b.name", "a.f * 2", "UPPER(a.s)") + " FROM t a, t2 b" +
				" WHERE a.grp = b.grp AND a.id < " + c.g.Pick("15", "40", "90") + " ORDER BY a.id, b.name"
			v := fmt.Sprintf("@fl%d", c.seq)
			sql := fmt.Sprintf("DECLARE %s := 0; WHILE %s < 2 DO %s; PRINT '#SEP#'; %s := %s + 1; END WHILE;", v, v, q, v, v)
			out, e := c.execChecked(sql, "while")
			parts := strings.Split(out, "'#SEP#'\n")
			if e != nil || len(parts) != 3 || parts[0] != parts[1] {
				o.Law("repeat_eval:while", map[string]string{"sql": sql, "output": canon(out, e), "error": errText(e)})
			}
			name := fmt.Sprintf("fl%d", c.seq)
			if _, e := c.execChecked(fmt.Sprintf("PREPARE %s FROM '%s';", name, strings.ReplaceAll(q, "'", "''")), "prepared"); e == nil {
				ex := fmt.Sprintf("EXECUTE %s;", name)
				p1, pe1 := c.execChecked(ex, "prepared")
				p2, pe2 := c.execChecked(ex, "prepared")
				if canon(p1, pe1) != canon(p2, pe2) {
					o.Law("repeat_eval:prepared", map[string]string{"prepare": q, "execute": ex, "first": canon(p1, pe1), "second": canon(p2, pe2), "first_error": errText(pe1), "second_error": errText(pe2)})
				}
			}
			c.nt(fmt.Sprintf("fromlist/%v", e != nil))
		case "reread_table":
			_, _ = c.execChecked(c.noise(), kind)
			again, e := c.execChecked("SELECT * FROM t ORDER BY id; SELECT * FROM t2;", kind)
			if e != nil || again != baseline {
				o.Law("reread:table", map[string]string{"second": canon(again, e)})
			}
			c.scanView("SELECT * FROM t", "re-read table cell")
			c.scanView("SELECT * FROM t2", "re-read table cell")
			c.nt("reread_table")
		case "reread_cursor":
			cur := fmt.Sprintf("cur%d", c.seq)
			q := "SELECT id, " + c.expr('S', rowAtoms, 2) + ", " + c.expr(c.pickType(), rowAtoms, 2) + " FROM t ORDER BY id"
			k := 1 + c.g.Intn(240)
			vs := fmt.Sprintf("@ca%d, @cb%d, @cc%d", c.seq, c.seq, c.seq)
			setup := fmt.Sprintf("DECLARE %s CURSOR FOR %s; OPEN %s; DECLARE %s;", cur, q, cur, vs)
			if _, e := c.execChecked(setup, kind); e != nil {
				o.Count("cursor_setup_error")
				_, _ = pr.Exec(fmt.Sprintf("DISPOSE CURSOR %s;", cur))
				continue
			}
			fetch := fmt.Sprintf("FETCH ABSOLUTE %d %s INTO %s; PRINT %s;", k-1, cur, vs, strings.ReplaceAll(vs, ", ", " || '|' || "))
			r1, e1 := c.execChecked(fetch, kind)
			_, _ = c.execChecked(c.noise(), kind)
			r2, e2 := c.execChecked(fetch, kind)
			if canon(r1, e1) != canon(r2, e2) {
				o.Law("reread:cursor", map[string]string{"cursor": q, "fetch": fetch, "first": canon(r1, e1), "second": canon(r2, e2)})
			}
			_, _ = pr.Exec(fmt.Sprintf("CLOSE %s; DISPOSE CURSOR %s;", cur, cur))
			c.nt(fmt.Sprintf("reread_cursor/%v/%d", e1 != nil, len(r1)%97))
		case "reread_variable":
			v := fmt.Sprintf("@rv%d", c.seq)
			init := c.g.Pick("(SELECT MAX("+c.expr('S', rowAtoms, 1)+") FROM t)", "(SELECT "+c.expr(c.pickType(), rowAtoms, 2)+" FROM t WHERE id = 17)", c.expr(c.pickType(), parAtoms, 0))
			if strings.Contains(init, "@p") {
				init = "'lit' || 5"
			}
			if _, e := c.execChecked(fmt.Sprintf("DECLARE %s := %s;", v, init), kind); e != nil {
				o.Count("variable_setup_error")
				continue
			}
			r1, e1 := c.execChecked("PRINT "+v+";", kind)
			_, _ = c.execChecked(c.noise(), kind)
			r2, e2 := c.execChecked("PRINT "+v+";", kind)
			if canon(r1, e1) != canon(r2, e2) {
				o.Law("reread:variable", map[string]string{"init": init, "first": canon(r1, e1), "second": canon(r2, e2)})
			}
			c.nt(fmt.Sprintf("reread_variable/%d", len(r1)%97))
		}
	}
	if os.Getenv("C14_DEBUG") != "" {
		for k, v := range c.errSeen {
			fmt.Fprintln(os.Stderr, v, k)
		}
	}
	// the tables themselves, at the end of the session
	again, e := c.execChecked("SELECT * FROM t ORDER BY id; SELECT * FROM t2;", "final")
	if e != nil || again != baseline {
		o.Law("reread:table", map[string]string{"second": canon(again, e), "where": "end of session"})
	}
}
