package main

import (
	"fmt"
	"reflect"
	"time"

	"github.com/mithrandie/csvq/lib/query"
	"github.com/mithrandie/csvq/lib/value"
)

// firstPointer: the address of the first pointer reachable through struct fields (the *SyncMap inside a
// VariableMap / InlineTableMap …), read without calling Interface() so unexported fields are fine.
func firstPointer(v reflect.Value, depth int) uintptr {
	if depth > 4 {
		return 0
	}
	switch v.Kind() {
	case reflect.Ptr, reflect.Map:
		return v.Pointer()
	case reflect.Struct:
		for i := 0; i < v.NumField(); i++ {
			if p := firstPointer(v.Field(i), depth+1); p != 0 {
				return p
			}
		}
	}
	return 0
}

// poolProbe takes n blocks and n nodes from csvq's scope pools: they must be pairwise distinct, empty, and
// none may be a block of the live scope.  An object that was handed back twice (or while still in use)
// comes out twice.
func poolProbe(live *query.ReferenceScope, n int) (string, bool) {
	seen := map[uintptr]string{}
	for i, b := range live.Blocks {
		seen[firstPointer(reflect.ValueOf(b), 0)] = fmt.Sprintf("live block %d", i)
	}
	var blocks []query.BlockScope
	var nodes []query.NodeScope
	problem := ""
	for i := 0; i < n; i++ {
		b := query.GetBlockScope()
		blocks = append(blocks, b)
		if b.Variables.Len() != 0 || b.Functions.Len() != 0 || b.Cursors.Len() != 0 || b.TemporaryTables.Len() != 0 {
			problem = fmt.Sprintf("block %d taken from the pool is not empty", i)
		}
		p := firstPointer(reflect.ValueOf(b), 0)
		if prev, dup := seen[p]; dup && p != 0 {
			problem = fmt.Sprintf("block %d taken from the pool is the same object as %s", i, prev)
		}
		seen[p] = fmt.Sprintf("pool block %d", i)
	}
	seenN := map[uintptr]int{}
	for i := 0; i < n; i++ {
		nd := query.GetNodeScope()
		nodes = append(nodes, nd)
		p := firstPointer(reflect.ValueOf(nd), 0)
		if prev, dup := seenN[p]; dup && p != 0 {
			problem = fmt.Sprintf("node %d taken from the pool is the same object as node %d", i, prev)
		}
		seenN[p] = i
	}
	// give back each distinct object once
	done := map[uintptr]bool{}
	for _, b := range blocks {
		if p := firstPointer(reflect.ValueOf(b), 0); !done[p] {
			done[p] = true
			query.PutBlockScope(b)
		}
	}
	doneN := map[uintptr]bool{}
	for _, nd := range nodes {
		if p := firstPointer(reflect.ValueOf(nd), 0); !doneN[p] {
			doneN[p] = true
			query.PutNodeScope(nd)
		}
	}
	return problem, problem != ""
}

// valuePoolProbe allocates n values of each pooled type and checks that they are pairwise distinct objects: a
// value that was released twice sits in the pool twice and is handed out to two allocations.  The probe keeps
// what it allocates (nothing is given back), so one double release is reported once.
func valuePoolProbe(n int) string {
	seen := map[interface{}]int{}
	check := func(kind string, i int, p interface{}) string {
		if j, dup := seen[p]; dup {
			return fmt.Sprintf("allocations %d and %d of a %s are the same object", j, i, kind)
		}
		seen[p] = i
		return ""
	}
	problem := ""
	for i := 0; i < n; i++ {
		for _, r := range []string{
			check("Datetime", i, value.NewDatetime(time.Unix(int64(1000000+i), 0))),
			check("String", i, value.NewString(fmt.Sprintf("probe-%d", i))),
			check("Integer", i, value.NewInteger(int64(700000+i))),
			check("Float", i, value.NewFloat(float64(i)+0.5)),
		} {
			if r != "" && problem == "" {
				problem = r
			}
		}
	}
	return problem
}
