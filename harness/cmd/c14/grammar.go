package main

// grammar.go — the workloads of workloads.go, run the way property C14 is stated: a statement only READS its
// operands, so after it (and after a few fresh allocations of every pooled type, which re-issue an object that was
// released while still referenced) every variable, every cell of the operand table, the row a cursor holds and every
// literal of the statement's own syntax tree read as they did before; and the same tree executed again gives the
// same output.
//
// Each workload is a statement template with ONE hole `{}`.  The hole is filled with an operand of every value type
// (integer, float, string, datetime, boolean, NULL) from every kind of holder:
//
//	lit   a literal in the syntax tree            (`37.5`, `'abc'`)
//	var   a variable                              (`@v_F1`)
//	cur   a variable filled by FETCH from a cursor (`@c_F1`: shares its object with the cursor's row)
//	cell  a cell of the typed temporary table gtv (`(SELECT cF FROM gtv WHERE id = 1)`)
//	col   the same cell as a column reference, for templates with a row context over gtv
//
// because a wrong Discard only bites when the operand already HAS the type the code converts to (a float for
// LIMIT … PERCENT, a string for SET @%ENV), and then hits whatever object Evaluate handed out.
//
// The list of statement kinds and operand positions is not chosen here: extract/discardfacts (mode stmtkinds) reads
// them off parser.y, and Csvq.C14.every_statement_kind_has_workload / every_operand_slot_has_workload compare them
// with what workloads.go declares.  This file checks the other half on every run: that the hole of a template
// really lands in the declared Node.Field of the parsed tree and that the declared statement kind really occurs in
// it (law workload_slot_mismatch), and that a template does succeed for some operand (law workload_never_succeeds).

import (
	"fmt"
	"math"
	"os"
	"path/filepath"
	"reflect"
	"runtime"
	"sort"
	"strconv"
	"strings"
	"time"

	csvqparser "github.com/mithrandie/csvq/lib/parser"
	"github.com/mithrandie/csvq/lib/query"
	"github.com/mithrandie/csvq/lib/value"

	"verifharness/hc"
)

// one row of the operand table gtv per string profile; every row has a value of every type
type gRow struct {
	id   int
	prof string
	n    int64
	f    float64
	s    string
}

func gRows(dir string) []gRow {
	cwd, _ := os.Getwd()
	return []gRow{
		{1, "", 3, 37.5, "abc"},
		{2, "num", 50, 2.0, "2"},
		{3, "sql", 103, 3.25, "PRINT 77;"},
		{4, "dir", 104, 4.25, cwd},
		{5, "file", 105, 5.25, filepath.Join(dir, "gsrc.sql")},
		{6, "fmt", 106, 6.25, "<%s>"},
		{7, "json", 107, 7.25, `{"a":[{"x":1,"y":1},{"x":2,"y":2}]}`},
		{8, "jq", 108, 8.25, "a"},
		{9, "dtfmt", 109, 9.25, "%Y%m%d"},
		{10, "csv", 110, 10.25, "x,y\n1,2\n3,4"},
		{11, "delim", 111, 11.25, ";"},
		{12, "pat", 112, 12.25, "a%"},
		{13, "csvpath", 113, 13.25, filepath.Join(dir, "gfile.csv")},
		{14, "enc", 114, 14.25, "UTF8"},
		{15, "tz", 115, 15.25, "UTC"},
		{16, "execfmt", 116, 16.25, "PRINT '%s';"},
		{17, "kw", 117, 17.25, "limit clause"},
		{18, "bool", 118, 18.25, "true"},
	}
}

func sqlStr(s string) string {
	return "'" + strings.ReplaceAll(strings.ReplaceAll(s, `\`, `\\`), "'", "''") + "'"
}

func gDatetime(id int) string {
	return time.Date(2012, 2, 3, 9, 18, 15, 0, time.UTC).AddDate(0, 0, id).Format("2006-01-02 15:04:05")
}

// encP: a value as text, exact (float bits; the NaN poison differs from any NaN csvq computes)
func encP(p value.Primary) string {
	switch v := p.(type) {
	case nil:
		return "nil"
	case *value.String:
		return "S:" + strconv.Quote(v.Raw())
	case *value.Integer:
		return "I:" + strconv.FormatInt(v.Raw(), 10)
	case *value.Float:
		return fmt.Sprintf("F:%016x(%v)", math.Float64bits(v.Raw()), v.Raw())
	case *value.Datetime:
		return "D:" + v.Raw().UTC().Format(time.RFC3339Nano)
	}
	return fmt.Sprintf("%T:%s", p, p.String())
}

type gworld struct {
	pr      *hc.Proc
	dir     string
	rows    []gRow
	vars    []string
	baseVar []string
	baseTab []string
	baseCur map[int][]string
	selGtv  csvqparser.SelectQuery
	fetch   map[int][]csvqparser.Statement
	reset   []csvqparser.Statement
}

const gObs = 5 // id, cN, cF, cS, cD

func (c *ctx) newWorld(dir string) *gworld {
	w := &gworld{dir: dir, rows: gRows(dir), baseCur: map[int][]string{}, fetch: map[int][]csvqparser.Statement{}}
	_ = os.WriteFile(filepath.Join(dir, "gsrc.sql"), []byte("PRINT 'sourced';\n"), 0o644)
	_ = os.WriteFile(filepath.Join(dir, "gfile.csv"), []byte("a,b\n1,2\n3,4\n"), 0o644)
	w.pr = hc.NewProc(dir)
	var b strings.Builder
	b.WriteString("SET @@CPU TO 2; DECLARE gtv VIEW (id, cN, cF, cS, cD); INSERT INTO gtv VALUES ")
	for i, r := range w.rows {
		if i > 0 {
			b.WriteString(", ")
		}
		fmt.Fprintf(&b, "(%d, %d, %s, %s, DATETIME('%s'))", r.id, r.n, strconv.FormatFloat(r.f, 'f', -1, 64)+map[bool]string{true: ".0", false: ""}[r.f == math.Trunc(r.f)], sqlStr(r.s), gDatetime(r.id))
	}
	b.WriteString("; DECLARE gw VIEW (id, a, b); INSERT INTO gw VALUES (1, 'x', 'y'), (2, 'p', 'q'), (3, 'm', 'n'), (4, 'x', 'z');")
	b.WriteString("DECLARE gcur CURSOR FOR SELECT id, cN, cF, cS, cD FROM gtv; OPEN gcur;")
	b.WriteString("DECLARE gcw CURSOR FOR SELECT id, a FROM gw; OPEN gcw; VAR @w, @w1, @w2, @o_I, @o_N, @o_F, @o_S, @o_D; VAR @v_B := TRUE;")
	b.WriteString("PREPARE gps FROM 'SELECT ?, id FROM gw WHERE id <= 2'; DECLARE gpc CURSOR FOR gps;")
	for _, r := range w.rows {
		// computed values: objects of their own, not literals of this program
		fmt.Fprintf(&b, "VAR @v_N%d := %d + 0, @v_F%d := %v + 0.0, @v_S%d := %s || '', @v_D%d := DATETIME('%s');", r.id, r.n, r.id, r.f, r.id, sqlStr(r.s), r.id, gDatetime(r.id))
		fmt.Fprintf(&b, "VAR @c_I%d, @c_N%d, @c_F%d, @c_S%d, @c_D%d; FETCH ABSOLUTE %d gcur INTO @c_I%d, @c_N%d, @c_F%d, @c_S%d, @c_D%d;", r.id, r.id, r.id, r.id, r.id, r.id-1, r.id, r.id, r.id, r.id, r.id)
		for _, t := range "NFSD" {
			w.vars = append(w.vars, fmt.Sprintf("v_%c%d", t, r.id), fmt.Sprintf("c_%c%d", t, r.id))
		}
		st, _, err := csvqparser.Parse(fmt.Sprintf("FETCH ABSOLUTE %d gcur INTO @o_I, @o_N, @o_F, @o_S, @o_D;", r.id-1), "", false, false)
		if err != nil {
			panic(err)
		}
		w.fetch[r.id] = st
	}
	b.WriteString("COMMIT;")
	if _, err := w.pr.Exec(b.String()); err != nil {
		panic("c14 grammar workloads: setup failed: " + err.Error())
	}
	st, _, err := csvqparser.Parse("SELECT id, cN, cF, cS, cD FROM gtv", "", false, false)
	if err != nil {
		panic(err)
	}
	w.selGtv = st[0].(csvqparser.SelectQuery)
	w.reset, _, err = csvqparser.Parse("SET @@JSON_QUERY TO ''; SET @@WAIT_TIMEOUT TO 10; SET @@LIMIT_RECURSION TO 1000; SET @@COUNT_FORMAT_CODE TO FALSE; SET @@DATETIME_FORMAT TO ''; SET @@TIMEZONE TO 'UTC'; SET @@CPU TO 2;", "", false, false)
	if err != nil {
		panic(err)
	}
	sort.Strings(w.vars)
	w.baseVar = w.readVars()
	w.baseTab = w.readTable()
	if len(w.baseTab) != len(w.rows)*gObs {
		panic(fmt.Sprintf("c14 grammar workloads: the operand table reads as %d cells", len(w.baseTab)))
	}
	for _, r := range w.rows {
		w.baseCur[r.id] = w.readCursor(r.id)
	}
	return w
}

func (w *gworld) close() { w.pr.Close() }

func (w *gworld) readVars() []string {
	out := make([]string, len(w.vars))
	for i, name := range w.vars {
		p, err := w.pr.P.ReferenceScope.GetVariable(csvqparser.Variable{Name: name})
		if err != nil {
			out[i] = "<undeclared>"
			continue
		}
		out[i] = encP(p)
	}
	return out
}

func (w *gworld) readTable() []string {
	v, err := query.Select(w.pr.Ctx, w.pr.P.ReferenceScope, w.selGtv)
	if err != nil || v == nil {
		return []string{"<error: " + errText(err) + ">"}
	}
	var out []string
	for _, rec := range v.RecordSet {
		for _, cell := range rec {
			out = append(out, encP(cell[0]))
		}
	}
	return out
}

func (w *gworld) readCursor(row int) []string {
	if _, err := w.pr.P.Execute(w.pr.Ctx, w.fetch[row]); err != nil {
		return []string{"<error: " + errText(err) + ">"}
	}
	var out []string
	for _, n := range []string{"o_I", "o_N", "o_F", "o_S", "o_D"} {
		p, _ := w.pr.P.ReferenceScope.GetVariable(csvqparser.Variable{Name: n})
		out = append(out, encP(p))
	}
	return out
}

// churn: fresh values of every pooled type, with contents no workload uses.  With the real pool an object that was
// released although something still refers to it is re-issued here and overwritten.
func churn() {
	for i := 0; i < 6; i++ {
		_ = value.NewString("<re-issued>")
		_ = value.NewInteger(-7777777)
		_ = value.NewFloat(-7777.75)
		_ = value.NewDatetime(time.Unix(3155760000, 0))
	}
}

// treeValues: every value object a parsed statement holds (literals), in tree order
func treeValues(x reflect.Value, depth int, out *[]string) {
	if depth > 80 || !x.IsValid() {
		return
	}
	switch x.Kind() {
	case reflect.Ptr, reflect.Interface:
		if x.IsNil() {
			return
		}
		if x.CanInterface() {
			if p, ok := x.Interface().(value.Primary); ok {
				*out = append(*out, encP(p))
				return
			}
		}
		treeValues(x.Elem(), depth+1, out)
	case reflect.Struct:
		for i := 0; i < x.NumField(); i++ {
			treeValues(x.Field(i), depth+1, out)
		}
	case reflect.Slice, reflect.Array:
		for i := 0; i < x.Len(); i++ {
			treeValues(x.Index(i), depth+1, out)
		}
	}
}

// markerPath: the Type.Field steps from the root to the variable @c14_marker (nil if absent); kinds collects the
// struct types met anywhere in the tree
func markerPath(x reflect.Value, depth int, path []string, kinds map[string]bool) []string {
	if depth > 80 || !x.IsValid() {
		return nil
	}
	switch x.Kind() {
	case reflect.Ptr, reflect.Interface:
		if x.IsNil() {
			return nil
		}
		return markerPath(x.Elem(), depth+1, path, kinds)
	case reflect.Struct:
		tn := x.Type().Name()
		kinds[tn] = true
		if tn == "Variable" {
			if f := x.FieldByName("Name"); f.IsValid() && f.Kind() == reflect.String && f.String() == "c14_marker" {
				return append([]string{}, path...)
			}
		}
		var found []string
		for i := 0; i < x.NumField(); i++ {
			if p := markerPath(x.Field(i), depth+1, append(path, tn+"."+x.Type().Field(i).Name), kinds); p != nil && found == nil {
				found = p
			}
		}
		return found
	case reflect.Slice, reflect.Array:
		var found []string
		for i := 0; i < x.Len(); i++ {
			if p := markerPath(x.Index(i), depth+1, path, kinds); p != nil && found == nil {
				found = p
			}
		}
		return found
	}
	return nil
}

type operand struct {
	typ  byte // N F S D B 0
	src  string
	row  int
	text string
}

func (w *gworld) profRow(prof string) gRow {
	for _, r := range w.rows {
		if r.prof == prof {
			return r
		}
	}
	panic("c14 grammar workloads: unknown string profile " + prof)
}

// operandsFor: every (type, holder) combination for one template
func (w *gworld) operandsFor(wl workload) []operand {
	var out []operand
	add := func(t byte, r gRow, lit string) {
		col := map[byte]string{'N': "cN", 'F': "cF", 'S': "cS", 'D': "cD"}[t]
		if lit != "" {
			out = append(out, operand{t, "lit", r.id, lit})
		}
		out = append(out, operand{t, "var", r.id, fmt.Sprintf("@v_%c%d", t, r.id)})
		out = append(out, operand{t, "cur", r.id, fmt.Sprintf("@c_%c%d", t, r.id)})
		out = append(out, operand{t, "cell", r.id, fmt.Sprintf("(SELECT %s FROM gtv WHERE id = %d)", col, r.id)})
		if wl.row {
			out = append(out, operand{t, "col", r.id, col})
		}
	}
	flit := func(f float64) string {
		s := strconv.FormatFloat(f, 'f', -1, 64)
		if !strings.Contains(s, ".") {
			s += ".0"
		}
		return s
	}
	srow := w.profRow(wl.prof)
	add('S', srow, sqlStr(srow.s))
	if wl.prof == "" {
		num := w.profRow("num")
		add('S', num, sqlStr(num.s))
	}
	for _, r := range w.rows[:2] {
		add('N', r, strconv.FormatInt(r.n, 10))
		add('F', r, flit(r.f))
	}
	add('D', w.rows[0], "")
	out = append(out, operand{'B', "lit", 1, "TRUE"}, operand{'B', "var", 1, "@v_B"}, operand{'0', "lit", 1, "NULL"})
	return out
}

func fill(tpl string, op operand) string {
	return strings.ReplaceAll(strings.ReplaceAll(tpl, "{}", op.text), "{r}", strconv.Itoa(op.row))
}

type gstate struct {
	w        *gworld
	dir      string
	lawCount map[string]int
	okRuns   map[int]int
	runs     map[int]int
	checked  map[int]bool
	kindsHit map[string]bool
	lastErr  map[int]string
}

func (c *ctx) gwLaw(gs *gstate, name string, rec map[string]string) {
	gs.lawCount[name]++
	c.o.Count("gw_law:" + name)
	if gs.lawCount[name] <= 4 {
		c.o.Law(name, rec)
	}
}

// checkTemplate: the hole lands where the workload says, the statement kinds it names occur
func (c *ctx) checkTemplate(gs *gstate, idx int, wl workload) bool {
	if gs.checked[idx] {
		return true
	}
	gs.checked[idx] = true
	sql := fill(wl.sql, operand{'N', "var", 1, "@c14_marker"})
	stmts, _, err := csvqparser.Parse(sql, "", false, false)
	if err != nil {
		c.gwLaw(gs, "workload_slot_mismatch", map[string]string{"template": wl.sql, "problem": "the template does not parse: " + errText(err)})
		return false
	}
	kinds := map[string]bool{}
	var path []string
	for _, s := range stmts {
		if p := markerPath(reflect.ValueOf(s), 0, nil, kinds); p != nil && path == nil {
			path = p
		}
		if _, isStmtKind := s.(csvqparser.QueryExpression); isStmtKind {
			if _, isSelect := s.(csvqparser.SelectQuery); !isSelect {
				kinds["BareExpression"] = true
			}
		}
	}
	ok := true
	for _, k := range strings.Fields(wl.stmt) {
		if !kinds[k] {
			ok = false
			c.gwLaw(gs, "workload_slot_mismatch", map[string]string{"template": wl.sql, "problem": "declared as workload of statement kind " + k + ", but the parsed program holds no " + k})
		} else {
			gs.kindsHit[k] = true
		}
	}
	tail := path
	if len(tail) > 3 {
		tail = tail[len(tail)-3:]
	}
	for _, sl := range strings.Fields(wl.slot) {
		hit := false
		for _, p := range tail {
			hit = hit || p == sl
		}
		if !hit {
			ok = false
			c.gwLaw(gs, "workload_slot_mismatch", map[string]string{"template": wl.sql, "problem": "declared as workload of operand position " + sl + ", but the hole is at " + strings.Join(path, " > ")})
		} else {
			gs.kindsHit[sl] = true
		}
	}
	if wl.slot == "" && strings.Contains(wl.sql, "{}") {
		ok = false
		c.gwLaw(gs, "workload_slot_mismatch", map[string]string{"template": wl.sql, "problem": "a hole but no declared operand position"})
	}
	return ok
}

func firstDiff(a, b []string) int {
	for i := 0; i < len(a) || i < len(b); i++ {
		if i >= len(a) || i >= len(b) || a[i] != b[i] {
			return i
		}
	}
	return -1
}

func poisonIn(s string) string {
	switch {
	case strings.Contains(s, "<discarded>"):
		return "string"
	case strings.Contains(s, "I:-6148914691236517206"):
		return "integer"
	case strings.Contains(s, "F:7ff80000deadbeef"):
		return "float"
	case strings.Contains(s, "D:"+time.Unix(-6148914691, 0).UTC().Format(time.RFC3339Nano)):
		return "datetime"
	}
	return ""
}

// observe: everything the statement only read, read again; false = something changed (reported)
func (c *ctx) observe(gs *gstate, sql string, op operand, when string, stmts []csvqparser.Statement, tv0 []string) bool {
	w := gs.w
	report := func(law, what, first, second string) {
		rec := map[string]string{"sql": sql, "operand": fmt.Sprintf("%c from %s (row %d of gtv)", op.typ, op.src, op.row), "what": what, "first_reading": first, "now": second, "when": when}
		if c.poison {
			if p := poisonIn(second); p != "" {
				rec["poison"] = p
				rec["where"] = what
				c.gwLaw(gs, "poisoned_read", rec)
				return
			}
		}
		c.gwLaw(gs, law, rec)
	}
	get := func(l []string, i int) string {
		if i < len(l) {
			return l[i]
		}
		return "<missing>"
	}
	good := true
	var tv []string
	for _, s := range stmts {
		treeValues(reflect.ValueOf(s), 0, &tv)
	}
	if i := firstDiff(tv0, tv); i >= 0 {
		report("ast_unchanged", fmt.Sprintf("literal %d of the statement's syntax tree", i+1), get(tv0, i), get(tv, i))
		good = false
	}
	vars := w.readVars()
	if i := firstDiff(w.baseVar, vars); i >= 0 {
		report("reread:variable", "variable @"+get(w.vars, i), get(w.baseVar, i), get(vars, i))
		good = false
	}
	tab := w.readTable()
	if i := firstDiff(w.baseTab, tab); i >= 0 {
		report("reread:table", fmt.Sprintf("table gtv, row %d column %d", i/gObs+1, i%gObs+1), get(w.baseTab, i), get(tab, i))
		good = false
	}
	cur := w.readCursor(op.row)
	if i := firstDiff(w.baseCur[op.row], cur); i >= 0 {
		report("reread:cursor", fmt.Sprintf("row %d of the open cursor gcur, column %d", op.row, i+1), get(w.baseCur[op.row], i), get(cur, i))
		good = false
	}
	return good
}

func (c *ctx) gwExec(w *gworld, stmts []csvqparser.Statement) (string, error) {
	w.pr.Stdout.Reset()
	_, err := w.pr.P.Execute(w.pr.Ctx, stmts)
	return w.pr.Stdout.String(), err
}

// runWorkload: one template with one operand — executed, observed, executed again from the same tree, observed
func (c *ctx) runWorkload(gs *gstate, idx int, wl workload, op operand) {
	w := gs.w
	sql := fill(wl.sql, op)
	stmts, _, err := csvqparser.Parse(sql, "", false, false)
	if err != nil {
		c.gwLaw(gs, "workload_slot_mismatch", map[string]string{"template": wl.sql, "sql": sql, "problem": "does not parse: " + errText(err)})
		return
	}
	var post []csvqparser.Statement
	if wl.post != "" {
		if post, _, err = csvqparser.Parse(wl.post, "", false, false); err != nil {
			panic("c14 grammar workloads: post program of " + wl.sql + ": " + err.Error())
		}
	}
	var tv0 []string
	for _, s := range stmts {
		treeValues(reflect.ValueOf(s), 0, &tv0)
	}
	after := func() {
		if post != nil {
			_, _ = w.pr.P.Execute(w.pr.Ctx, post)
		}
		if wl.flags {
			_, _ = w.pr.P.Execute(w.pr.Ctx, w.reset)
		}
		churn()
	}
	// (the re-read moves the pointer of gcur to the operand's row: put it there before the first execution too, so
	// that a statement that shows cursor states prints the same twice)
	_ = w.readCursor(op.row)
	r1, e1 := c.gwExec(w, stmts)
	after()
	good := c.observe(gs, sql, op, "after the first execution", stmts, tv0)
	var r2 string
	var e2 error
	if good {
		r2, e2 = c.gwExec(w, stmts)
		after()
		good = c.observe(gs, sql, op, "after the second execution of the same syntax tree", stmts, tv0)
		if good && canon(r1, e1) != canon(r2, e2) {
			good = false
			c.gwLaw(gs, "repeat_eval:same_tree", map[string]string{"sql": sql, "operand": fmt.Sprintf("%c from %s", op.typ, op.src), "first": canon(r1, e1), "second": canon(r2, e2), "first_error": errText(e1), "second_error": errText(e2)})
		}
	}
	if c.poison {
		c.scanText(r1+r2, "result cell", sql)
	}
	c.doubleReleaseCheck(sql)
	c.evals += 2
	gs.runs[idx]++
	if e1 == nil {
		gs.okRuns[idx]++
		c.o.Count("gw_result:ok")
	} else {
		c.o.Count("gw_result:error")
		gs.lastErr[idx] = fmt.Sprintf("[%c/%s] %s", op.typ, op.src, errText(e1))
	}
	c.o.Count("gw_operand:" + string(op.typ) + "/" + op.src)
	c.nt(fmt.Sprintf("gw/%d/%c%s/%v", idx, op.typ, op.src, e1 != nil))
	if !good {
		// the world is damaged (a variable / cell / cursor row was overwritten): build a new one
		w.close()
		gs.w = c.newWorld(gs.dir)
	}
}

func (c *ctx) newGstate(dir string) *gstate {
	return &gstate{w: c.newWorld(dir), dir: dir, lawCount: map[string]int{}, okRuns: map[int]int{}, runs: map[int]int{}, checked: map[int]bool{}, kindsHit: map[string]bool{}, lastErr: map[int]string{}}
}

// fnWorkloads: every built-in scalar function, the hole in each argument position (signatures found by probing)
func (c *ctx) fnWorkloads() []workload {
	probe := map[byte]string{'N': "3", 'F': "1.5", 'S': "'abc'", 'D': "'2012-02-03 09:18:15'"}
	var out []workload
	for _, sg := range c.sigs {
		for pos := range sg.args {
			args := make([]string, len(sg.args))
			for i := range sg.args {
				args[i] = probe[sg.args[i]]
			}
			args[pos] = "{}"
			out = append(out, workload{stmt: "SelectQuery", slot: "Function.Args", sql: "SELECT " + sg.fn + "(" + strings.Join(args, ", ") + ") FROM gtv WHERE id = {r};", row: true, mayFail: true})
		}
	}
	return out
}

// grammarPhase: all declared workloads with all operands (full = true), or a random handful of templates
func (c *ctx) grammarPhase(dir string, full bool, pick int) {
	prev := runtime.GOMAXPROCS(1) // one P: what Discard puts into the pool is what the next allocation gets
	defer runtime.GOMAXPROCS(prev)
	gdir := filepath.Join(dir, "gw")
	_ = os.MkdirAll(gdir, 0o755)
	gs := c.newGstate(gdir)
	defer func() { gs.w.close() }()
	thorough := os.Getenv("VERIF_TIER") == "thorough"
	var idxs []int
	if full {
		for i := range workloads {
			idxs = append(idxs, i)
		}
	} else {
		for i := 0; i < pick; i++ {
			idxs = append(idxs, c.g.Intn(len(workloads)))
		}
	}
	for _, i := range idxs {
		wl := workloads[i]
		if !c.checkTemplate(gs, i, wl) {
			continue
		}
		ops := gs.w.operandsFor(wl)
		if !strings.Contains(wl.sql, "{}") {
			ops = ops[:1]
		}
		for _, op := range ops {
			c.runWorkload(gs, i, wl, op)
		}
		if os.Getenv("C14_GW_DEBUG") != "" {
			fmt.Fprintf(os.Stderr, "gw %3d ok %2d/%2d  %s   %s\n", i, gs.okRuns[i], gs.runs[i], strings.ReplaceAll(wl.sql, "\n", "\\n"), gs.lastErr[i])
		}
		if gs.okRuns[i] == 0 && !wl.mayFail {
			c.gwLaw(gs, "workload_never_succeeds", map[string]string{"template": wl.sql, "runs": strconv.Itoa(gs.runs[i]), "last_error": c.lastGwErr(gs, wl)})
		}
	}
	if full {
		// the declared kinds / slots were all reached by a template that passed its own check
		for i, wl := range workloads {
			_ = i
			for _, k := range append(strings.Fields(wl.stmt), strings.Fields(wl.slot)...) {
				if !gs.kindsHit[k] {
					c.o.Count("gw_declared_not_reached:" + k)
				}
			}
		}
		c.o.Stats["gw_templates"] = len(workloads)
	}
	// built-in functions, argument by argument
	fws := c.fnWorkloads()
	nfn := 24
	if thorough && full {
		nfn = len(fws)
	} else if !full {
		nfn = 4
	}
	for k := 0; k < nfn && len(fws) > 0; k++ {
		j := k
		if nfn < len(fws) {
			j = c.g.Intn(len(fws))
		}
		wl := fws[j]
		for _, op := range gs.w.operandsFor(wl) {
			if op.src == "lit" || op.src == "cell" || op.typ == 'B' || op.typ == '0' || op.row != 1 {
				continue
			}
			c.runWorkload(gs, 100000+j, wl, op)
		}
	}
}

func (c *ctx) lastGwErr(gs *gstate, wl workload) string {
	ops := gs.w.operandsFor(wl)
	stmts, _, err := csvqparser.Parse(fill(wl.sql, ops[0]), "", false, false)
	if err != nil {
		return errText(err)
	}
	_, err = c.gwExec(gs.w, stmts)
	if wl.post != "" {
		_, _ = gs.w.pr.Exec(wl.post)
	}
	return errText(err)
}
