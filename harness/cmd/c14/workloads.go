package main

// workloads.go — what the dynamic cross-check of C14 executes for every statement kind and every operand position
// of the grammar (run by grammar.go).  extract/discardfacts (mode stmtkinds) reads the `stmt:` and `slot:` strings
// of this file and the kinds / positions of lib/parser/parser.y into lean/Csvq/Gen/StmtKinds.lean; the theorems
// Csvq.C14.every_statement_kind_has_workload and every_operand_slot_has_workload fail when the grammar has a kind or
// position this table does not name.  grammar.go checks on every run that a template's hole `{}` really is at the
// declared Node.Field of the parsed tree and that the declared statement kinds occur in it.
//
//	stmt     statement kinds (node types of lib/parser) the entry is a workload for, space separated
//	slot     operand positions "Node.Field" the hole lands in (the innermost three steps of its path count)
//	sql      the program; `{}` = the operand, `{r}` = the row of gtv the operand comes from
//	prof     which row of gtv supplies the STRING operand that lets the statement succeed ("" = 'abc' and '2')
//	row      the hole is inside a query over gtv: a bare column reference is a possible operand
//	post     executed after each execution (undo: DISPOSE / ROLLBACK …)
//	flags    the statement changes flags: they are set back after each execution
//	mayFail  the statement is expected to fail for every operand (TRIGGER ERROR, EXIT 1 …)
type workload struct {
	stmt    string
	slot    string
	sql     string
	prof    string
	row     bool
	post    string
	flags   bool
	mayFail bool
}

var workloads = []workload{
	// ---- statements that evaluate an operand themselves
	{stmt: "SetEnvVar", slot: "SetEnvVar.Value", sql: "SET @%C14_GW_ENV TO {};"},
	{stmt: "SetEnvVar", slot: "SetEnvVar.Value", sql: "SET @%C14_GW_ENV = {};"},
	{stmt: "SetEnvVar", sql: "SET @%C14_GW_ENV TO ident;"},
	{stmt: "UnsetEnvVar", sql: "SET @%C14_GW_ENV2 TO 'x'; UNSET @%C14_GW_ENV2;"},
	{stmt: "SetFlag", slot: "SetFlag.Value", sql: "SET @@JSON_QUERY TO {};", flags: true},
	{stmt: "SetFlag", slot: "SetFlag.Value", sql: "SET @@WAIT_TIMEOUT TO {};", flags: true},
	{stmt: "SetFlag", slot: "SetFlag.Value", sql: "SET @@LIMIT_RECURSION = {};", flags: true},
	{stmt: "SetFlag", slot: "SetFlag.Value", sql: "SET @@COUNT_FORMAT_CODE TO {};", prof: "bool", flags: true},
	{stmt: "SetFlag", slot: "SetFlag.Value", sql: "SET @@TIMEZONE TO {};", prof: "tz", flags: true},
	{stmt: "SetFlag", slot: "SetFlag.Value", sql: "SET @@DATETIME_FORMAT TO {};", prof: "dtfmt", flags: true},
	{stmt: "AddFlagElement", slot: "AddFlagElement.Value", sql: "ADD {} TO @@DATETIME_FORMAT;", prof: "dtfmt", flags: true},
	{stmt: "RemoveFlagElement", slot: "RemoveFlagElement.Value", sql: "ADD '%Y%m%d' TO @@DATETIME_FORMAT; REMOVE {} FROM @@DATETIME_FORMAT;", prof: "dtfmt", flags: true},
	{stmt: "ShowFlag", sql: "SHOW @@DATETIME_FORMAT; SHOW @@CPU;"},
	{stmt: "Echo", slot: "Echo.Value", sql: "ECHO {};"},
	{stmt: "Print", slot: "Print.Value", sql: "PRINT {};"},
	{stmt: "Printf", slot: "Printf.Format", sql: "PRINTF {};", prof: "fmt"},
	{stmt: "Printf", slot: "Printf.Format", sql: "PRINTF {}, 'v';", prof: "fmt"},
	{stmt: "Printf", slot: "Printf.Values", sql: "PRINTF '%s|%s', {}, 1.5;"},
	{stmt: "Printf", slot: "Printf.Values", sql: "PRINTF '%s|%s' USING 'a', {};"},
	{stmt: "Chdir", slot: "Chdir.DirPath", sql: "CHDIR {};", prof: "dir"},
	{stmt: "Pwd", sql: "PWD;"},
	{stmt: "Reload", sql: "RELOAD CONFIG;"},
	{stmt: "Source", slot: "Source.FilePath", sql: "SOURCE {};", prof: "file"},
	{stmt: "Execute", slot: "Execute.Statements", sql: "EXECUTE {};", prof: "sql"},
	{stmt: "Execute", slot: "Execute.Statements", sql: "EXECUTE {} USING 'v';", prof: "execfmt"},
	{stmt: "Execute", slot: "Execute.Values", sql: "EXECUTE 'PRINT ''%s'';' USING {};"},
	{stmt: "Syntax", slot: "Syntax.Keywords", sql: "SYNTAX {};", prof: "kw"},
	{stmt: "Syntax", sql: "SYNTAX;"},
	{stmt: "ShowObjects", sql: "SHOW VIEWS; SHOW CURSORS; SHOW FUNCTIONS; SHOW STATEMENTS; SHOW FLAGS; SHOW ENV; SHOW RUNINFO;"},
	{stmt: "ShowFields", sql: "SHOW FIELDS FROM gtv; SHOW FIELDS FROM gfile;"},
	{stmt: "Trigger", slot: "Trigger.Message", sql: "TRIGGER ERROR {};", mayFail: true},
	{stmt: "Trigger", slot: "Trigger.Message", sql: "TRIGGER ERROR 300 {};", mayFail: true},
	{stmt: "Trigger", sql: "TRIGGER ERROR;", mayFail: true},
	{stmt: "Exit", sql: "EXIT;"},
	{stmt: "Exit", sql: "EXIT 3;", mayFail: true},
	{stmt: "ExternalCommand", sql: "$echo @v_S1 @c_S1 ${@v_F1} ${@c_N1}\n"},
	{stmt: "TransactionControl", sql: "COMMIT;"},
	{stmt: "TransactionControl", sql: "ROLLBACK;"},

	// ---- variables, cursors, views, functions, prepared statements
	{stmt: "VariableDeclaration", slot: "VariableAssignment.Value", sql: "VAR @gd := {};", post: "DISPOSE @gd;"},
	{stmt: "VariableDeclaration", slot: "VariableAssignment.Value", sql: "DECLARE @gd := 1, @ge := {}; PRINT @ge;", post: "DISPOSE @gd; DISPOSE @ge;"},
	{stmt: "VariableSubstitution BareExpression", slot: "VariableSubstitution.Value", sql: "@w := {};"},
	{stmt: "VariableSubstitution", slot: "VariableSubstitution.Value", sql: "SELECT @w := {} FROM gtv WHERE id = {r};", row: true},
	{stmt: "BareExpression", slot: "Function.Args", sql: "UPPER({});"},
	{stmt: "DisposeVariable", sql: "VAR @gd := @v_S1; VAR @ge := @c_F1; DISPOSE @gd; DISPOSE @ge;"},
	{stmt: "CursorDeclaration OpenCursor FetchCursor CloseCursor DisposeCursor", slot: "FetchPosition.Number", sql: "DECLARE gc2 CURSOR FOR SELECT cN, cF, cS, cD FROM gtv; OPEN gc2; FETCH ABSOLUTE {} gc2 INTO @w, @w1, @w2, @o_D; PRINT @w2; CLOSE gc2; DISPOSE CURSOR gc2;", post: "DISPOSE CURSOR gc2;"},
	{stmt: "FetchCursor", slot: "FetchPosition.Number", sql: "FETCH FIRST gcw INTO @w1, @w2; FETCH RELATIVE {} gcw INTO @w1, @w2; PRINT @w2;"},
	{stmt: "FetchCursor", sql: "FETCH FIRST gcw INTO @w1, @w2; FETCH NEXT gcw INTO @w1, @w2; FETCH gcw INTO @w1, @w2; FETCH PRIOR gcw INTO @w1, @w2; FETCH LAST gcw INTO @w1, @w2; PRINT @w2;"},
	{stmt: "OpenCursor", slot: "OpenCursor.Values ReplaceValue.Value", sql: "OPEN gpc USING {}; FETCH gpc INTO @w1, @w2; PRINT @w1; CLOSE gpc;", post: "CLOSE gpc;"},
	{stmt: "WhileInCursor", slot: "Print.Value", sql: "DECLARE gc3 CURSOR FOR SELECT id, a FROM gw; OPEN gc3; WHILE @w1, @w2 IN gc3 DO PRINT {}; END WHILE; CLOSE gc3; DISPOSE CURSOR gc3;", post: "DISPOSE CURSOR gc3;"},
	{stmt: "ViewDeclaration DisposeView", slot: "Field.Object SelectClause.Fields", sql: "DECLARE gv2 VIEW (p, q) AS SELECT id, {} FROM gtv WHERE id = {r}; SELECT * FROM gv2; DISPOSE VIEW gv2;", row: true, post: "DISPOSE VIEW gv2;"},
	{stmt: "ViewDeclaration DisposeView InsertQuery", slot: "ValueList.Values", sql: "DECLARE gv3 VIEW (p, q); INSERT INTO gv3 VALUES (1, {}); SELECT * FROM gv3; DISPOSE VIEW gv3;", post: "DISPOSE VIEW gv3;"},
	{stmt: "FunctionDeclaration Return DisposeFunction", slot: "Return.Value", sql: "DECLARE gf1 FUNCTION () AS BEGIN RETURN {}; END; SELECT gf1(), gf1() FROM gw; DISPOSE FUNCTION gf1;", post: "DISPOSE FUNCTION gf1;"},
	{stmt: "FunctionDeclaration", slot: "VariableAssignment.Value", sql: "DECLARE gf2 FUNCTION (@a, @b DEFAULT {}) AS BEGIN RETURN @b; END; SELECT gf2(1), gf2(2) FROM gw; DISPOSE FUNCTION gf2;", post: "DISPOSE FUNCTION gf2;"},
	{stmt: "FunctionDeclaration", slot: "Function.Args", sql: "DECLARE gf3 FUNCTION (@a) AS BEGIN VAR @loc := @a; RETURN @loc; END; SELECT gf3({}) FROM gtv WHERE id = {r}; DISPOSE FUNCTION gf3;", row: true, post: "DISPOSE FUNCTION gf3;"},
	{stmt: "AggregateDeclaration", slot: "Function.Args", sql: "DECLARE ga1 AGGREGATE (list, @m DEFAULT 1) AS BEGIN VAR @v; VAR @acc; WHILE @v IN list DO @acc := @v; END WHILE; RETURN @acc; END; SELECT ga1({}) FROM gtv; SELECT ga1(cN, {}) FROM gtv; DISPOSE FUNCTION ga1;", row: true, post: "DISPOSE FUNCTION ga1;"},
	{stmt: "StatementPreparation ExecuteStatement DisposeStatement", slot: "ExecuteStatement.Values ReplaceValue.Value", sql: "PREPARE gp2 FROM 'SELECT ?, :k FROM gw WHERE id = 1'; EXECUTE gp2 USING {}, 5 AS k; DISPOSE PREPARE gp2;", post: "DISPOSE PREPARE gp2;"},
	{stmt: "ExecuteStatement", slot: "ExecuteStatement.Values ReplaceValue.Value", sql: "EXECUTE gps USING {};"},

	// ---- control flow
	{stmt: "If", slot: "If.Condition", sql: "IF {} THEN PRINT 'then'; ELSE PRINT 'else'; END IF;"},
	{stmt: "If", slot: "ElseIf.Condition", sql: "IF FALSE THEN PRINT 'then'; ELSEIF {} THEN PRINT 'elseif'; ELSE PRINT 'else'; END IF;"},
	{stmt: "Case", slot: "Case.Value", sql: "CASE {} WHEN 3 THEN PRINT 'three'; WHEN 'abc' THEN PRINT 'abc'; ELSE PRINT 'other'; END CASE;"},
	{stmt: "Case", slot: "CaseWhen.Condition", sql: "CASE WHEN {} THEN PRINT 'first'; ELSE PRINT 'other'; END CASE;"},
	{stmt: "Case", slot: "CaseWhen.Condition", sql: "CASE @v_N1 WHEN {} THEN PRINT 'first'; ELSE PRINT 'other'; END CASE;"},
	{stmt: "While FlowControl", slot: "While.Condition", sql: "WHILE {} DO PRINT 'in'; BREAK; END WHILE;"},
	{stmt: "While FlowControl", slot: "Comparison.RHS", sql: "@w := 0; WHILE @w < {} DO @w := @w + 1; IF @w < 2 THEN CONTINUE; END IF; PRINT @w; IF @w > 3 THEN BREAK; END IF; END WHILE;"},

	// ---- queries: clauses
	{stmt: "SelectQuery", slot: "LimitClause.Value", sql: "SELECT id FROM gtv ORDER BY id LIMIT {};"},
	{stmt: "SelectQuery", slot: "LimitClause.Value", sql: "SELECT id FROM gtv ORDER BY id LIMIT {} PERCENT;"},
	{stmt: "SelectQuery", slot: "LimitClause.Value", sql: "SELECT cB FROM (SELECT id % 3 AS cB FROM gtv) x ORDER BY cB LIMIT {} WITH TIES;"},
	{stmt: "SelectQuery", slot: "LimitClause.Value", sql: "SELECT cB FROM (SELECT id % 3 AS cB FROM gtv) x ORDER BY cB LIMIT {} PERCENT WITH TIES;"},
	{stmt: "SelectQuery", slot: "LimitClause.Value", sql: "SELECT id FROM gtv ORDER BY id FETCH FIRST {} ROWS ONLY;"},
	{stmt: "SelectQuery", slot: "LimitClause.Value", sql: "SELECT id FROM gtv ORDER BY id OFFSET 1 ROW FETCH NEXT {} PERCENT WITH TIES;"},
	{stmt: "SelectQuery", slot: "LimitClause.Value", sql: "SELECT id, (SELECT COUNT(*) FROM (SELECT id FROM gw LIMIT {} PERCENT) y) FROM gtv ORDER BY id;"},
	{stmt: "SelectQuery", slot: "OffsetClause.Value", sql: "SELECT id FROM gtv ORDER BY id LIMIT 4 OFFSET {};"},
	{stmt: "SelectQuery", slot: "OffsetClause.Value", sql: "SELECT id FROM gtv ORDER BY id OFFSET {} ROWS;"},
	{stmt: "SelectQuery", slot: "OffsetClause.Value", sql: "SELECT id FROM gtv ORDER BY id OFFSET {} ROWS FETCH NEXT 2 ROWS ONLY;"},
	{stmt: "SelectQuery", slot: "Field.Object SelectClause.Fields", sql: "SELECT {}, id FROM gtv WHERE id = {r};", row: true},
	{stmt: "SelectQuery", slot: "Field.Object SelectClause.Fields", sql: "SELECT DISTINCT {} AS x FROM gtv;", row: true},
	{stmt: "SelectQuery", slot: "Field.Object", sql: "SELECT {} INTO @w FROM gtv WHERE id = {r}; PRINT @w;", row: true},
	{stmt: "SelectQuery", slot: "Field.Object", sql: "SELECT {} FROM gw UNION SELECT {} FROM gw EXCEPT SELECT 'zz' FROM gw;"},
	{stmt: "SelectQuery", slot: "Field.Object", sql: "WITH RECURSIVE it (n, v) AS (SELECT 1, {} UNION ALL SELECT n + 1, v FROM it WHERE n < 3) SELECT n, v FROM it;"},
	{stmt: "SelectQuery", slot: "WhereClause.Filter", sql: "SELECT id FROM gtv WHERE {};", row: true},
	{stmt: "SelectQuery", slot: "GroupByClause.Items", sql: "SELECT COUNT(*) FROM gtv GROUP BY {};", row: true},
	{stmt: "SelectQuery", slot: "GroupByClause.Items", sql: "SELECT COUNT(*), MAX(cS) FROM gtv GROUP BY id % 2, {};", row: true},
	{stmt: "SelectQuery", slot: "HavingClause.Filter", sql: "SELECT id % 2, COUNT(*) FROM gtv GROUP BY id % 2 HAVING {};"},
	{stmt: "SelectQuery", slot: "Comparison.RHS", sql: "SELECT id % 2, COUNT(*) FROM gtv GROUP BY id % 2 HAVING COUNT(*) > {};"},
	{stmt: "SelectQuery", slot: "OrderItem.Value", sql: "SELECT id FROM gtv ORDER BY {}, id DESC;", row: true},
	{stmt: "SelectQuery", slot: "OrderItem.Value", sql: "SELECT id FROM gtv ORDER BY {} DESC NULLS LAST, id LIMIT 3;", row: true},
	{stmt: "SelectQuery", slot: "JoinCondition.On", sql: "SELECT a.id, b.id FROM gtv a JOIN gw b ON {} WHERE a.id <= 2;"},
	{stmt: "SelectQuery", slot: "Comparison.RHS", sql: "SELECT a.id, b.id FROM gtv a LEFT JOIN gw b ON b.id = {} WHERE a.id <= 2;"},
	{stmt: "SelectQuery", slot: "Comparison.RHS", sql: "SELECT a.id, (SELECT MAX(b.id) FROM gw b WHERE b.id <= {} AND b.id <= a.id) FROM gtv a;"},
	{stmt: "SelectQuery", slot: "Comparison.RHS", sql: "SELECT a.id, x.m FROM gtv a, LATERAL (SELECT MAX(b.id) AS m FROM gw b WHERE b.id <= {}) x WHERE a.id <= 3;"},

	// ---- queries: table objects (ROLLBACK afterwards: csvq caches a file under its path whatever the import options
	// were, so a later plain reference to gfile in the same transaction would see it split at the operand's delimiter)
	{stmt: "SelectQuery", slot: "FormatSpecifiedFunction.FormatElement", sql: "SELECT * FROM CSV({}, gfile);", prof: "delim", post: "ROLLBACK;"},
	{stmt: "SelectQuery", slot: "FormatSpecifiedFunction.Args", sql: "SELECT * FROM CSV(',', gfile, {});", prof: "enc", post: "ROLLBACK;"},
	{stmt: "SelectQuery", slot: "FormatSpecifiedFunction.Args", sql: "SELECT * FROM CSV(',', gfile, 'UTF8', {});", prof: "bool", post: "ROLLBACK;"},
	{stmt: "SelectQuery", slot: "FormatSpecifiedFunction.FormatElement", sql: "SELECT * FROM CSV_INLINE({}, 'p;q\n1;2');", prof: "delim"},
	{stmt: "SelectQuery", slot: "FormatSpecifiedFunction.Path", sql: "SELECT * FROM CSV_INLINE(',', {});", prof: "csv"},
	{stmt: "SelectQuery", slot: "FormatSpecifiedFunction.Path", sql: "SELECT * FROM JSON_INLINE('a', {});", prof: "json"},
	{stmt: "SelectQuery", slot: "FormatSpecifiedFunction.FormatElement", sql: "SELECT * FROM JSON_INLINE({}, '{\"a\":[{\"x\":1}]}');", prof: "jq"},
	{stmt: "SelectQuery", slot: "FormatSpecifiedFunction.Args", sql: "SELECT * FROM CSV_INLINE(',', 'p,q\n1,2', {});", prof: "enc"},
	{stmt: "SelectQuery", slot: "TableFunction.Args", sql: "SELECT * FROM FILE::({});", prof: "csvpath", post: "ROLLBACK;"},
	{stmt: "SelectQuery", slot: "TableFunction.Args", sql: "SELECT * FROM CSV(',', DATA::({}));", prof: "csv"},
	{stmt: "SelectQuery", slot: "JsonQuery.Query", sql: "SELECT id FROM gtv WHERE (id, id) IN JSON_ROW({}, '{\"a\":[{\"x\":1,\"y\":1},{\"x\":2,\"y\":2}]}');", prof: "jq"},
	{stmt: "SelectQuery", slot: "JsonQuery.JsonText", sql: "SELECT id FROM gtv WHERE (id, id) IN JSON_ROW('a', {});", prof: "json"},
	{stmt: "SelectQuery", slot: "JsonQuery.JsonText", sql: "SELECT id FROM gtv WHERE (id, id) = JSON_ROW('a[0]', {});", prof: "json"},
	{stmt: "SelectQuery", slot: "Function.Args", sql: "SELECT JSON_VALUE({}, '{\"a\":\"v\"}') FROM gw WHERE id = 1;", prof: "jq"},
	{stmt: "SelectQuery", slot: "Function.Args", sql: "SELECT JSON_VALUE('a[1].y', {}), JSON_OBJECT(id) FROM gw WHERE id = 1;", prof: "json"},

	// ---- expressions
	{stmt: "SelectQuery", slot: "Parentheses.Expr", sql: "SELECT ({}) FROM gtv WHERE id = {r};", row: true},
	{stmt: "SelectQuery", slot: "Arithmetic.LHS", sql: "SELECT {} + 1, {} * 2.5, {} % 2 FROM gtv WHERE id = {r};", row: true},
	{stmt: "SelectQuery", slot: "Arithmetic.RHS", sql: "SELECT 10 - {}, 7.5 / {} FROM gtv WHERE id = {r};", row: true},
	{stmt: "SelectQuery", slot: "UnaryArithmetic.Operand", sql: "SELECT -{}, +{} FROM gtv WHERE id = {r};", row: true},
	{stmt: "SelectQuery", slot: "Concat.Items", sql: "SELECT {} || 'x', 'y' || {} || 1 FROM gtv WHERE id = {r};", row: true},
	{stmt: "SelectQuery", slot: "Comparison.LHS", sql: "SELECT {} = 3, {} < 'b', {} >= 37.5, {} == 'abc' FROM gtv WHERE id = {r};", row: true},
	{stmt: "SelectQuery", slot: "Comparison.RHS", sql: "SELECT 3 = {}, 'b' > {}, 2.0 <> {}, cD = {} FROM gtv WHERE id = {r};", row: true},
	{stmt: "SelectQuery", slot: "ValueList.Values", sql: "SELECT id FROM gtv WHERE ({}, 1) = (3, 1) OR (id, {}) < (2, 'abc');", row: true},
	{stmt: "SelectQuery", slot: "Is.LHS", sql: "SELECT {} IS NULL, {} IS NOT TRUE FROM gtv WHERE id = {r};", row: true},
	{stmt: "SelectQuery", slot: "Between.LHS", sql: "SELECT {} BETWEEN 1 AND 40, {} NOT BETWEEN 'a' AND 'b' FROM gtv WHERE id = {r};", row: true},
	{stmt: "SelectQuery", slot: "Between.Low", sql: "SELECT cN BETWEEN {} AND 100, cF BETWEEN {} AND 100.5, cS BETWEEN {} AND 'zz', cD BETWEEN {} AND '2030-01-01' FROM gtv WHERE id = {r};", row: true},
	{stmt: "SelectQuery", slot: "Between.High", sql: "SELECT cN BETWEEN 0 AND {}, cF BETWEEN 0.5 AND {}, cS BETWEEN '' AND {}, cD BETWEEN '2000-01-01' AND {} FROM gtv WHERE id = {r};", row: true},
	{stmt: "SelectQuery", slot: "In.LHS", sql: "SELECT {} IN (3, 37.5, 'abc'), {} NOT IN (SELECT id FROM gw) FROM gtv WHERE id = {r};", row: true},
	{stmt: "SelectQuery", slot: "ValueList.Values", sql: "SELECT cN IN (1, {}), cF IN ({}, 2.0), cS IN ('q', {}, 'r'), cD IN ({}) FROM gtv WHERE id = {r};", row: true},
	{stmt: "SelectQuery", slot: "Any.LHS", sql: "SELECT {} = ANY (SELECT cN FROM gtv), {} < ANY (SELECT cF FROM gtv), {} = ANY (SELECT cS FROM gtv) FROM gtv WHERE id = {r};", row: true},
	{stmt: "SelectQuery", slot: "All.LHS", sql: "SELECT {} <= ALL (SELECT cN FROM gtv), {} <> ALL (SELECT cS FROM gtv) FROM gtv WHERE id = {r};", row: true},
	{stmt: "SelectQuery", slot: "ValueList.Values", sql: "SELECT (id, {}) = ANY (SELECT id, cN FROM gtv), (id, {}) IN (SELECT id, cS FROM gtv) FROM gtv WHERE id = {r};", row: true},
	{stmt: "SelectQuery", slot: "Like.LHS", sql: "SELECT {} LIKE 'a%', {} NOT LIKE '_' FROM gtv WHERE id = {r};", row: true},
	{stmt: "SelectQuery", slot: "Like.Pattern", sql: "SELECT cS LIKE {}, 'abc' LIKE {} FROM gtv WHERE id = {r};", prof: "pat", row: true},
	{stmt: "SelectQuery", slot: "Logic.LHS", sql: "SELECT {} AND TRUE, {} OR FALSE FROM gtv WHERE id = {r};", prof: "bool", row: true},
	{stmt: "SelectQuery", slot: "Logic.RHS", sql: "SELECT TRUE AND {}, FALSE OR {} FROM gtv WHERE id = {r};", prof: "bool", row: true},
	{stmt: "SelectQuery", slot: "UnaryLogic.Operand", sql: "SELECT NOT {}, !{} FROM gtv WHERE id = {r};", prof: "bool", row: true},
	{stmt: "SelectQuery", slot: "CaseExpr.Value", sql: "SELECT CASE {} WHEN 3 THEN 'n' WHEN 37.5 THEN 'f' WHEN 'abc' THEN 's' ELSE 'other' END FROM gtv WHERE id = {r};", row: true},
	{stmt: "SelectQuery", slot: "CaseExprWhen.Condition", sql: "SELECT CASE cN WHEN {} THEN 'hit' ELSE 'miss' END, CASE cS WHEN {} THEN 'hit' END, CASE WHEN {} THEN 'truthy' ELSE 'not' END FROM gtv WHERE id = {r};", row: true},
	{stmt: "SelectQuery", slot: "CaseExprWhen.Result", sql: "SELECT CASE WHEN id > 0 THEN {} ELSE 'no' END FROM gtv WHERE id = {r};", row: true},
	{stmt: "SelectQuery", slot: "CaseExprElse.Result", sql: "SELECT CASE WHEN id < 0 THEN 'no' ELSE {} END FROM gtv WHERE id = {r};", row: true},
	{stmt: "SelectQuery", slot: "Function.Args", sql: "SELECT COALESCE({}, 'd'), NULLIF({}, 3), IF(id > 0, {}, 'e'), IFNULL({}, 1) FROM gtv WHERE id = {r};", row: true},
	{stmt: "SelectQuery", slot: "Function.Args", sql: "SELECT SUBSTRING({} FROM 2), SUBSTRING({} FROM 1 FOR 2), SUBSTRING({}, 1, 1), SUBSTR({}, 0) FROM gtv WHERE id = {r};", row: true},
	{stmt: "SelectQuery", slot: "Function.Args", sql: "SELECT SUBSTRING(cS FROM {}), SUBSTRING('abcdef' FROM {} FOR 2), SUBSTRING(cS, {}), SUBSTR('abcdef', {}, 2) FROM gtv WHERE id = {r};", row: true},
	{stmt: "SelectQuery", slot: "Function.Args", sql: "SELECT SUBSTRING('abcdef' FROM 2 FOR {}), SUBSTRING(cS, 1, {}), SUBSTR('abcdef', 0, {}) FROM gtv WHERE id = {r};", row: true},
	{stmt: "SelectQuery", slot: "Function.Args", sql: "SELECT REPLACE('abcabc', {}, 'X'), REPLACE({}, 'b', 'Y'), REPLACE('a2b3', '2', {}) FROM gtv WHERE id = {r};", row: true},
	{stmt: "SelectQuery", slot: "Function.Args Field.Object", sql: "SELECT JSON_OBJECT({}), JSON_OBJECT(id, {} AS v) FROM gtv WHERE id = {r};", row: true},
	{stmt: "SelectQuery", slot: "Function.Args", sql: "SELECT FLOAT({}), INTEGER({}), STRING({}), DATETIME({}), BOOLEAN({}), TERNARY({}) FROM gtv WHERE id = {r};", row: true},
	{stmt: "SelectQuery", slot: "Function.Args", sql: "SELECT ROUND({}, 1), ROUND(12.345, {}), ABS({}), POW({}, 2), POW(2, {}), CEIL({}), FLOOR({}, 1), SQRT({}) FROM gtv WHERE id = {r};", row: true},
	{stmt: "SelectQuery", slot: "Function.Args", sql: "SELECT DATETIME_FORMAT({}, '%Y'), DATETIME_FORMAT(cD, {}), ADD_DAY({}, 1), ADD_DAY(cD, {}), DATE_DIFF({}, cD), DATE_DIFF(cD, {}), UNIX_TIME({}), YEAR({}) FROM gtv WHERE id = {r};", prof: "dtfmt", row: true},
	{stmt: "SelectQuery", slot: "Function.Args", sql: "SELECT LPAD({}, 5, '*'), LPAD('a', {}, '*'), LPAD('a', 4, {}), FORMAT('%s', {}), TRIM({}), TRIM(' x ', {}), LEN({}), INSTR({}, 'b'), INSTR('abc', {}) FROM gtv WHERE id = {r};", row: true},

	// ---- aggregate / list / analytic functions
	{stmt: "SelectQuery", slot: "AggregateFunction.Args", sql: "SELECT COUNT({}), MIN({}), MAX({}), SUM({}), AVG({}), MEDIAN({}), STDEV({}), VAR({}) FROM gtv;", row: true},
	{stmt: "SelectQuery", slot: "AggregateFunction.Args", sql: "SELECT COUNT(DISTINCT {}), SUM(DISTINCT {}), MAX({}) FROM gtv GROUP BY id % 2;", row: true},
	{stmt: "SelectQuery", slot: "ListFunction.Args", sql: "SELECT LISTAGG({}, ','), JSON_AGG({}) FROM gtv WHERE id <= 3;", row: true},
	{stmt: "SelectQuery", slot: "ListFunction.Args", sql: "SELECT LISTAGG(cS, {}), LISTAGG(DISTINCT cN, {}) WITHIN GROUP (ORDER BY cN DESC) FROM gtv WHERE id <= 3;"},
	{stmt: "SelectQuery", slot: "AnalyticFunction.Args", sql: "SELECT id, NTILE({}) OVER (ORDER BY id) FROM gtv;"},
	{stmt: "SelectQuery", slot: "AnalyticFunction.Args", sql: "SELECT id, LAG(cN, {}) OVER (ORDER BY id), LEAD(cS, {}) OVER (ORDER BY id), LAG(cF, {}, 0.5) IGNORE NULLS OVER (ORDER BY id) FROM gtv;"},
	{stmt: "SelectQuery", slot: "AnalyticFunction.Args", sql: "SELECT id, LAG(cN, 1, {}) OVER (ORDER BY id), LEAD(cS, 2, {}) OVER (PARTITION BY id % 2 ORDER BY id) FROM gtv;", row: true},
	{stmt: "SelectQuery", slot: "AnalyticFunction.Args", sql: "SELECT id, LAG({}) OVER (ORDER BY id), LEAD({}, 1, 'd') OVER (ORDER BY id), FIRST_VALUE({}) OVER (ORDER BY id), LAST_VALUE({}) IGNORE NULLS OVER (ORDER BY id) FROM gtv;", row: true},
	{stmt: "SelectQuery", slot: "AnalyticFunction.Args", sql: "SELECT id, NTH_VALUE(cN, {}) OVER (ORDER BY id), NTH_VALUE(cS, {}) IGNORE NULLS OVER (ORDER BY id ROWS BETWEEN UNBOUNDED PRECEDING AND UNBOUNDED FOLLOWING) FROM gtv;"},
	{stmt: "SelectQuery", slot: "AnalyticFunction.Args", sql: "SELECT id, NTH_VALUE({}, 2) OVER (ORDER BY id), SUM({}) OVER (ORDER BY id ROWS BETWEEN 1 PRECEDING AND 1 FOLLOWING), COUNT({}) OVER (), MAX({}) OVER (PARTITION BY id % 2), AVG(DISTINCT {}) OVER () FROM gtv;", row: true},
	{stmt: "SelectQuery", slot: "AnalyticFunction.Args", sql: "SELECT id, LISTAGG(cS, {}) OVER (PARTITION BY id % 2 ORDER BY id), JSON_AGG({}) OVER () FROM gtv WHERE id <= 4;"},
	{stmt: "SelectQuery", slot: "AnalyticFunction.Args", sql: "SELECT id, LISTAGG({}, '-') OVER (ORDER BY id), RANK() OVER (ORDER BY id), CUME_DIST() OVER (ORDER BY id), ROW_NUMBER() OVER (ORDER BY id) FROM gtv WHERE id <= 4;", row: true},
	{stmt: "SelectQuery", slot: "PartitionClause.Values", sql: "SELECT id, COUNT(*) OVER (PARTITION BY {}), RANK() OVER (PARTITION BY id % 2, {} ORDER BY id) FROM gtv;", row: true},
	{stmt: "SelectQuery", slot: "OrderItem.Value", sql: "SELECT id, RANK() OVER (ORDER BY {}), LISTAGG(cS, ',') OVER (ORDER BY {}, id) FROM gtv WHERE id <= 3;", row: true},

	// ---- data changing statements (on the scratch table gw / the file gfile; undone by ROLLBACK)
	{stmt: "InsertQuery", slot: "ValueList.Values", sql: "INSERT INTO gw VALUES (9, {}, 'i'); SELECT * FROM gw WHERE id = 9;", post: "ROLLBACK;"},
	{stmt: "InsertQuery", slot: "ValueList.Values", sql: "INSERT INTO gw (id, b) VALUES (9, 'j'), (10, {}); SELECT * FROM gw WHERE id >= 9;", post: "ROLLBACK;"},
	{stmt: "InsertQuery", slot: "Field.Object", sql: "INSERT INTO gw (id, a, b) SELECT id + 20, {}, 'k' FROM gtv WHERE id = {r}; SELECT * FROM gw WHERE id > 20;", row: true, post: "ROLLBACK;"},
	{stmt: "UpdateQuery", slot: "UpdateSet.Value", sql: "UPDATE gw SET a = {} WHERE id = 1; SELECT * FROM gw;", post: "ROLLBACK;"},
	{stmt: "UpdateQuery", slot: "UpdateSet.Value", sql: "UPDATE gw SET a = 'u', b = {}; SELECT * FROM gw;", post: "ROLLBACK;"},
	{stmt: "UpdateQuery", slot: "UpdateSet.Value", sql: "UPDATE gw SET gw.b = {} FROM gw JOIN gtv ON gw.id = gtv.id WHERE gtv.id = {r}; SELECT * FROM gw;", row: true, post: "ROLLBACK;"},
	{stmt: "UpdateQuery", slot: "Comparison.RHS", sql: "UPDATE gw SET b = 'w' WHERE a = {} OR id = {}; SELECT * FROM gw;", post: "ROLLBACK;"},
	{stmt: "ReplaceQuery", slot: "ValueList.Values", sql: "REPLACE INTO gw (id, a, b) USING (id) VALUES (2, {}, 'r'), (11, 's', {}); SELECT * FROM gw;", post: "ROLLBACK;"},
	{stmt: "ReplaceQuery", slot: "Field.Object", sql: "REPLACE INTO gw (id, a) USING (id) SELECT id, {} FROM gtv WHERE id = {r}; SELECT * FROM gw;", row: true, post: "ROLLBACK;"},
	{stmt: "DeleteQuery", slot: "Comparison.RHS", sql: "DELETE FROM gw WHERE a = {} OR id = {}; SELECT * FROM gw;", post: "ROLLBACK;"},
	{stmt: "DeleteQuery", slot: "Comparison.RHS", sql: "DELETE gw FROM gw JOIN gtv ON gw.id = gtv.id WHERE gtv.cN = {} OR gtv.cS = {}; SELECT * FROM gw;", post: "ROLLBACK;"},
	{stmt: "CreateTable", slot: "Field.Object", sql: "CREATE TABLE `gnew.csv` (p, q) AS SELECT id, {} FROM gtv WHERE id = {r}; SELECT * FROM gnew;", row: true, post: "ROLLBACK;"},
	{stmt: "CreateTable", sql: "CREATE TABLE `gnew2.csv` (p, q); INSERT INTO gnew2 VALUES (1, @v_S1), (2, @c_F1);", post: "ROLLBACK;"},
	{stmt: "AddColumns", slot: "ColumnDefault.Value", sql: "ALTER TABLE gw ADD nc DEFAULT {}; SELECT * FROM gw;", row: false, post: "ROLLBACK;"},
	{stmt: "AddColumns", slot: "ColumnDefault.Value", sql: "ALTER TABLE gfile ADD (n1, n2 DEFAULT {}) AFTER a; SELECT * FROM gfile;", post: "ROLLBACK;"},
	{stmt: "DropColumns", sql: "ALTER TABLE gw DROP b; SELECT * FROM gw;", post: "ROLLBACK;"},
	{stmt: "RenameColumn", sql: "ALTER TABLE gw RENAME b TO bb; SELECT * FROM gw;", post: "ROLLBACK;"},
	{stmt: "SetTableAttribute", slot: "SetTableAttribute.Value", sql: "ALTER TABLE gfile SET DELIMITER TO {};", prof: "delim", post: "ROLLBACK;"},
	{stmt: "SetTableAttribute", slot: "SetTableAttribute.Value", sql: "ALTER TABLE gfile SET HEADER TO {};", prof: "bool", post: "ROLLBACK;"},
	{stmt: "SetTableAttribute", slot: "SetTableAttribute.Value", sql: "ALTER TABLE gfile SET ENCODING TO {};", prof: "enc", post: "ROLLBACK;"},
}
