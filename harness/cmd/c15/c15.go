// Stream c15 — block scoping, function calls, control transfer (property C15).
//
// Generates random procedures of the language of lean/Csvq/Model/Scope.lean (nesting <= 6, variable and
// function names from pools of 4, loops bounded by private counters, every function call passes a decreasing
// budget argument, cursor loops WHILE [VAR] @x IN cursor over a small temporary table with RETURN / BREAK /
// CONTINUE / EXIT at random, inside functions and at top level, statements that reach a block indirectly:
// SOURCE file / EXECUTE 'text' / EXECUTE prepared — model statement Z = the same statements in place), renders them as csvq program text (IF … as
// IF/ELSEIF/ELSE or as CASE WHEN), runs them through the real Processor in-process — all in ONE session, so
// that every program runs on whatever its predecessors left in csvq's pool of blocks — and records
//
//	op line   c15.run <fuel> <program, prefix token encoding of lean/Csvq/Drive/C15.lean>
//	answer    <flow> | <PRINT trace> | <variables of every block of the session scope> | <functions …>
//
// One program in five is "wild": BREAK / CONTINUE / EXIT / RETURN also stand where csvq's grammar forbids
// them (written as PRINT statements and patched into the parsed syntax tree), because the theorems of
// Csvq/Props/C15.lean quantify over all syntax trees.
//
// Laws checked on the implementation alone (law* functions): objects (variable, cursor, temporary table,
// function, aggregate) declared — directly, or through SOURCE / EXECUTE / PREPARE+EXECUTE — at random depth inside IF / ELSE / ELSEIF / CASE / WHILE / WHILE IN / function
// bodies do not survive the block; inner objects shadow outer ones and leave them unchanged; outer assignments
// persist; a declaration at the very end of a block is invisible; concurrent invocations have their own
// parameters and locals; and after EVERY generated program: a recursive probe with a known trace
// (call_frames_independent_after_history) and blocks taken from csvq's pool are empty and unshared (pool_no_alias).
package main

import (
	"bytes"
	"context"
	"fmt"
	"os"
	"path/filepath"
	"reflect"
	"sort"
	"strconv"
	"strings"
	"time"
	"unsafe"

	"github.com/mithrandie/csvq/lib/option"
	"github.com/mithrandie/csvq/lib/parser"
	"github.com/mithrandie/csvq/lib/query"
	"github.com/mithrandie/csvq/lib/value"
	"github.com/mithrandie/ternary"

	"verifharness/hc"
)

// ---------------------------------------------------------------- syntax

type Expr struct {
	K    byte // 'n' null, 't','f','u' ternary, 'i' int, 'v' var, '+','-','<','=' binary, 'c' call, 'T' rows of table X
	N    int64
	X    int
	A, B *Expr
	Args []*Expr
}

type Param struct {
	X    int
	Dflt *Expr
}

type Branch struct {
	C    *Expr
	Body []*Stmt
}

type Stmt struct {
	K byte // D A X P I W E Z B K Q R F Y; temporary table X: V declare, N insert Rows rows, L delete all, U dispose;
	// cursor Cur with state: C declare (rows 10*Rows + 0,1,2), O open, S close, H fetch into @X
	Form     byte // 'Z' (statements executed indirectly, in the current block): 's' SOURCE file, 'e' EXECUTE 'text', 'p' EXECUTE prepared
	Decl     bool // 'E': WHILE VAR @x IN …
	Rows     int  // 'E': the cursor yields the rows 0 … Rows-1
	Cur      int  // 'E': number of the cursor (one per statement)
	AsCase   bool // an 'I' written as CASE WHEN … THEN … ELSE … END CASE (Processor.Case instead of IfStmt)
	Stray    bool // a B K Q R where csvq's grammar does not admit it: written as a PRINT, patched into the syntax tree
	X        int
	E        *Expr
	Branches []Branch
	Els      []*Stmt
	Body     []*Stmt
	Params   []Param
}

const (
	aggBase     = 10 // ag0, ag1: user-defined aggregates are the functions aggBase+k of the model
	poolAggs    = 2
	poolCursors = 2 // cr0, cr1: cursors with state (closed / open at a position); in the model the variable cursorVar+k
	cursorVar   = 200
	poolTables  = 2 // t0, t1: temporary tables; in the model the variable tableVar+k holding the number of rows
	tableVar    = 100
	poolVars    = 4 // @v0..@v3: the names random statements declare, assign, dispose
	budgetVar   = 4 // @v4: first parameter of every function, the decreasing call budget
	firstCount  = 5 // @v5…: loop counters, one per WHILE statement
	poolFns     = 4
	maxDepth    = 6
	fuel        = 200000
)

// spelling: how the pool slots of ONE program are written in its text (nil: the plain names @v0 … fn0 … ag0 … t0 …
// cr0 …).  What is one object is NOT decided here: the raw texts go to the model (name table of the c15.runk ops),
// which applies the key function of each kind.
type spelling struct {
	v, f, ag, t, c []string
	stmtTwin       bool // EXECUTE of a prepared statement spells its name differently from PREPARE
}

var spell *spelling

// the stems the twins are made of: letter-case twins, Unicode case twins (dotless i: ToUpper(ı) = I, so one object
// with ki under an upper-casing key and a different one under a lower-casing key; Kelvin sign: ToLower(K) = k, its
// own upper case), near twins (kj)
var asciiStems = []string{"ki", "KI", "Ki", "kI", "kj", "KJ"}
var unicodeStems = []string{"ki", "KI", "Ki", "k\u0131", "\u212ai", "\u212a\u0131", "kj", "KJ"}

func newSpelling(g *hc.Gen) *spelling {
	switch g.Intn(20) {
	case 0, 1, 2, 3, 4, 5, 6, 7, 8, 9, 10:
		return nil
	case 11, 12: // the plain pools with letter-case twins of themselves
		return &spelling{v: []string{"@v0", "@V0", "@v1", "@V1"}, f: []string{"fn0", "FN0", "fn1", "Fn1"}, ag: []string{"ag0", "AG0"},
			t: []string{"t0", "T0"}, c: []string{"cr0", "CR0"}, stmtTwin: true}
	}
	stems := asciiStems
	if g.Intn(3) > 0 {
		stems = unicodeStems
	}
	draw := func(prefix string, n int) []string {
		perm := g.Perm(len(stems))
		out := make([]string, 0, n)
		for _, k := range perm {
			// temporary tables are not spelled with ı here: the programs DELETE from them, and DELETE / UPDATE on a table
			// whose name contains ı match no record (findings_inbox/dotless-i-table-dml; the law lawTwins covers
			// DECLARE / INSERT / SELECT / DISPOSE of such a table)
			if prefix == "t" && strings.Contains(stems[k], "\u0131") {
				continue
			}
			if len(out) < n {
				out = append(out, prefix+stems[k])
			}
		}
		return out
	}
	sp := &spelling{v: draw("@", poolVars), f: draw("f", poolFns), ag: draw("g", poolAggs), t: draw("t", poolTables), c: draw("c", poolCursors),
		stmtTwin: g.Intn(2) == 0}
	// now and then only some kinds are respelled
	if g.Intn(4) == 0 {
		switch g.Intn(4) {
		case 0:
			sp.v = nil
		case 1:
			sp.f, sp.ag = nil, nil
		case 2:
			sp.t = nil
		default:
			sp.c = nil
		}
	}
	return sp
}

func spelled(l []string, i int, plain string) string {
	if spell != nil && i >= 0 && i < len(l) {
		return l[i]
	}
	return plain
}

func vname(x int) string {
	if spell == nil {
		return "@v" + strconv.Itoa(x)
	}
	return spelled(spell.v, x, "@v"+strconv.Itoa(x))
}
func fname(f int) string {
	if f >= aggBase { // user-defined aggregates: their own names, the same map of functions
		if spell != nil {
			return spelled(spell.ag, f-aggBase, "ag"+strconv.Itoa(f-aggBase))
		}
		return "ag" + strconv.Itoa(f-aggBase)
	}
	if spell != nil {
		return spelled(spell.f, f, "fn"+strconv.Itoa(f))
	}
	return "fn" + strconv.Itoa(f)
}
func tname(t int) string {
	if spell != nil {
		return spelled(spell.t, t, "t"+strconv.Itoa(t))
	}
	return "t" + strconv.Itoa(t)
}
func cname(c int) string {
	if spell != nil {
		return spelled(spell.c, c, "cr"+strconv.Itoa(c))
	}
	return "cr" + strconv.Itoa(c)
}

// nameEnt: one raw name of a program — kind v (variable) t (temporary table) c (cursor) f (function), the number the
// model encoding uses for it, its text
type nameEnt struct {
	kind byte
	num  int
	raw  string
}

// nameTable lists every number the program mentions, with the text it is written as (under the current spelling)
func nameTable(prog []*Stmt) []nameEnt {
	vs, fs := map[int]nameEnt{}, map[int]nameEnt{}
	addV := func(x int) { vs[x] = nameEnt{'v', x, strings.TrimPrefix(vname(x), "@")} } // parser.Variable.Name: the text after the sign
	addT := func(x int) { vs[tableVar+x] = nameEnt{'t', tableVar + x, tname(x)} }
	addC := func(x int) { vs[cursorVar+x] = nameEnt{'c', cursorVar + x, cname(x)} }
	addF := func(x int) { fs[x] = nameEnt{'f', x, fname(x)} }
	var ex func(e *Expr)
	ex = func(e *Expr) {
		if e == nil {
			return
		}
		switch e.K {
		case 'v':
			addV(e.X)
		case 'T':
			addT(e.X)
		case 'c', 'a':
			addF(e.X)
		}
		ex(e.A)
		ex(e.B)
		for _, a := range e.Args {
			ex(a)
		}
	}
	var st func(ss []*Stmt)
	st = func(ss []*Stmt) {
		for _, s := range ss {
			switch s.K {
			case 'D', 'A', 'X', 'E':
				addV(s.X)
			case 'H':
				addV(s.X)
				addC(s.Cur)
			case 'C', 'O', 'S':
				addC(s.Cur)
			case 'V', 'N', 'L', 'U':
				addT(s.X)
			case 'F', 'Y':
				addF(s.X)
			case 'G':
				addF(s.X)
				addC(s.Cur)
			}
			ex(s.E)
			for _, p := range s.Params {
				addV(p.X)
				ex(p.Dflt)
			}
			for _, br := range s.Branches {
				ex(br.C)
				st(br.Body)
			}
			st(s.Els)
			st(s.Body)
		}
	}
	st(prog)
	var out []nameEnt
	for _, k := range sortedKeysEnt(vs) {
		out = append(out, vs[k])
	}
	for _, k := range sortedKeysEnt(fs) {
		out = append(out, fs[k])
	}
	return out
}

func sortedKeysEnt(m map[int]nameEnt) []int {
	ks := make([]int, 0, len(m))
	for k := range m {
		ks = append(ks, k)
	}
	sort.Ints(ks)
	return ks
}

func encNames(tbl []nameEnt) string {
	var b strings.Builder
	fmt.Fprintf(&b, "%d", len(tbl))
	for _, e := range tbl {
		fmt.Fprintf(&b, " %c%d:%x", e.kind, e.num, e.raw)
	}
	return b.String()
}

// curTable: the names the final state is reported for (nil: every object the blocks hold, by its stored key)
var curTable []nameEnt

// ---- model encoding

func (e *Expr) enc(b *strings.Builder) {
	switch e.K {
	case 'n', 't', 'f', 'u':
		b.WriteByte(' ')
		b.WriteByte(e.K)
	case 'i':
		fmt.Fprintf(b, " i%d", e.N)
	case 'v':
		fmt.Fprintf(b, " v%d", e.X)
	case 'T':
		fmt.Fprintf(b, " v%d", tableVar+e.X)
	case '+', '-', '<', '=':
		b.WriteByte(' ')
		b.WriteByte(e.K)
		e.A.enc(b)
		e.B.enc(b)
	case 'c':
		fmt.Fprintf(b, " c%d %d", e.X, len(e.Args))
		for _, a := range e.Args {
			a.enc(b)
		}
	case 'a':
		fmt.Fprintf(b, " a%d %d %d", e.X, e.N, len(e.Args))
		for _, a := range e.Args {
			a.enc(b)
		}
	default:
		panic("expr kind")
	}
}

func encBlock(b *strings.Builder, ss []*Stmt) {
	fmt.Fprintf(b, " %d", len(ss))
	for _, s := range ss {
		s.enc(b)
	}
}

func (s *Stmt) enc(b *strings.Builder) {
	switch s.K {
	case 'D', 'A':
		fmt.Fprintf(b, " %c%d", s.K, s.X)
		s.E.enc(b)
	case 'X', 'Y':
		fmt.Fprintf(b, " %c%d", s.K, s.X)
	case 'P', 'R':
		fmt.Fprintf(b, " %c", s.K)
		s.E.enc(b)
	case 'B', 'K', 'Q':
		fmt.Fprintf(b, " %c", s.K)
	case 'M':
		fmt.Fprintf(b, " M%d", s.X)
	case 'I':
		if s.E != nil { // CASE <value> WHEN …
			b.WriteString(" J")
			s.E.enc(b)
			fmt.Fprintf(b, " %d", len(s.Branches))
		} else {
			fmt.Fprintf(b, " I %d", len(s.Branches))
		}
		for _, br := range s.Branches {
			br.C.enc(b)
			encBlock(b, br.Body)
		}
		encBlock(b, s.Els)
	case 'W':
		b.WriteString(" W")
		s.E.enc(b)
		encBlock(b, s.Body)
	case 'C':
		fmt.Fprintf(b, " D%d i%d", cursorVar+s.Cur, -(100*s.Rows+30)-1)
	case 'O', 'S':
		fmt.Fprintf(b, " %c%d", s.K, cursorVar+s.Cur)
	case 'H':
		fmt.Fprintf(b, " H%d v%d", cursorVar+s.Cur, s.X)
	case 'V':
		fmt.Fprintf(b, " T%d", tableVar+s.X)
	case 'N':
		fmt.Fprintf(b, " A%d + v%d i%d", tableVar+s.X, tableVar+s.X, s.Rows)
	case 'L':
		fmt.Fprintf(b, " A%d i0", tableVar+s.X)
	case 'U':
		fmt.Fprintf(b, " X%d", tableVar+s.X)
	case 'Z':
		b.WriteString(" Z")
		encBlock(b, s.Body)
	case 'E':
		d := 0
		if s.Decl {
			d = 1
		}
		fmt.Fprintf(b, " E%d %d %d", s.X, d, s.Rows)
		for i := 0; i < s.Rows; i++ {
			fmt.Fprintf(b, " i%d", i)
		}
		encBlock(b, s.Body)
	case 'G':
		fmt.Fprintf(b, " G%d %d %d", s.X, cursorVar+s.Cur, len(s.Params))
		for _, p := range s.Params {
			if p.Dflt == nil {
				fmt.Fprintf(b, " p%d", p.X)
			} else {
				fmt.Fprintf(b, " q%d", p.X)
				p.Dflt.enc(b)
			}
		}
		encBlock(b, s.Body)
	case 'F':
		fmt.Fprintf(b, " F%d %d", s.X, len(s.Params))
		for _, p := range s.Params {
			if p.Dflt == nil {
				fmt.Fprintf(b, " p%d", p.X)
			} else {
				fmt.Fprintf(b, " q%d", p.X)
				p.Dflt.enc(b)
			}
		}
		encBlock(b, s.Body)
	default:
		panic("stmt kind")
	}
}

func encProgram(ss []*Stmt) string {
	var b strings.Builder
	encBlock(&b, ss)
	return strings.TrimPrefix(b.String(), " ")
}

// ---- csvq program text

func (e *Expr) sql(b *strings.Builder) {
	switch e.K {
	case 'n':
		b.WriteString("NULL")
	case 't':
		b.WriteString("TRUE")
	case 'f':
		b.WriteString("FALSE")
	case 'u':
		b.WriteString("UNKNOWN")
	case 'i':
		fmt.Fprintf(b, "%d", e.N)
	case 'v':
		b.WriteString(vname(e.X))
	case 'T':
		b.WriteString("(SELECT COUNT(*) FROM " + tname(e.X) + ")")
	case '+', '-', '<', '=':
		b.WriteByte('(')
		e.A.sql(b)
		b.WriteByte(' ')
		b.WriteByte(e.K)
		b.WriteByte(' ')
		e.B.sql(b)
		b.WriteByte(')')
	case 'c':
		b.WriteString(fname(e.X))
		b.WriteByte('(')
		for i, a := range e.Args {
			if i > 0 {
				b.WriteString(", ")
			}
			a.sql(b)
		}
		b.WriteByte(')')
	case 'a': // the aggregate inside a query over a group: the rows N, N+1, … (as many as N encodes, maybe none)
		fmt.Fprintf(b, "(SELECT %s((c1 + %d)", fname(e.X), e.N)
		for _, a := range e.Args {
			b.WriteString(", ")
			a.sql(b)
		}
		fmt.Fprintf(b, ") FROM tq WHERE c1 < %d)", (e.N/10)%10)
	}
}

func sqlBlock(b *strings.Builder, ss []*Stmt) {
	for _, s := range ss {
		s.sql(b)
		b.WriteByte(' ')
	}
}

func (s *Stmt) sql(b *strings.Builder) {
	switch s.K {
	case 'D':
		b.WriteString("VAR " + vname(s.X) + " := ")
		s.E.sql(b)
		b.WriteByte(';')
	case 'A':
		b.WriteString(vname(s.X) + " := ")
		s.E.sql(b)
		b.WriteByte(';')
	case 'X':
		b.WriteString("DISPOSE " + vname(s.X) + ";")
	case 'Y':
		b.WriteString("DISPOSE FUNCTION " + fname(s.X) + ";")
	case 'P':
		b.WriteString("PRINT ")
		s.E.sql(b)
		b.WriteByte(';')
	case 'R':
		if s.Stray {
			b.WriteString("PRINT ")
		} else {
			b.WriteString("RETURN ")
		}
		s.E.sql(b)
		b.WriteByte(';')
	case 'B', 'K', 'Q':
		switch {
		case s.Stray:
			b.WriteString("PRINT 0;")
		case s.K == 'B':
			b.WriteString("BREAK;")
		case s.K == 'K':
			b.WriteString("CONTINUE;")
		default:
			b.WriteString("EXIT;")
		}
	case 'M':
		if s.X == 1 {
			b.WriteString("EXIT 1;")
		} else {
			b.WriteString("TRIGGER ERROR;")
		}
	case 'I':
		if s.AsCase || s.E != nil {
			b.WriteString("CASE ")
			if s.E != nil {
				s.E.sql(b)
				b.WriteByte(' ')
			}
			for _, br := range s.Branches {
				b.WriteString("WHEN ")
				br.C.sql(b)
				b.WriteString(" THEN ")
				sqlBlock(b, br.Body)
			}
			if len(s.Els) > 0 {
				b.WriteString("ELSE ")
				sqlBlock(b, s.Els)
			}
			b.WriteString("END CASE;")
			return
		}
		for i, br := range s.Branches {
			if i == 0 {
				b.WriteString("IF ")
			} else {
				b.WriteString("ELSEIF ")
			}
			br.C.sql(b)
			b.WriteString(" THEN ")
			sqlBlock(b, br.Body)
		}
		if len(s.Els) > 0 {
			b.WriteString("ELSE ")
			sqlBlock(b, s.Els)
		}
		b.WriteString("END IF;")
	case 'W':
		b.WriteString("WHILE ")
		s.E.sql(b)
		b.WriteString(" DO ")
		sqlBlock(b, s.Body)
		b.WriteString("END WHILE;")
	case 'C':
		fmt.Fprintf(b, "DECLARE %s CURSOR FOR SELECT (c1 + %d) FROM tq WHERE c1 < 3 ORDER BY c1;", cname(s.Cur), 100*s.Rows+30)
	case 'O':
		b.WriteString("OPEN " + cname(s.Cur) + ";")
	case 'S':
		b.WriteString("CLOSE " + cname(s.Cur) + ";")
	case 'H':
		b.WriteString("FETCH " + cname(s.Cur) + " INTO " + vname(s.X) + ";")
	case 'V':
		b.WriteString("DECLARE " + tname(s.X) + " VIEW (c1);")
	case 'N':
		b.WriteString("INSERT INTO " + tname(s.X) + " VALUES (1)" + strings.Repeat(", (2)", s.Rows-1) + ";")
	case 'L':
		b.WriteString("DELETE FROM " + tname(s.X) + ";")
	case 'U':
		b.WriteString("DISPOSE VIEW " + tname(s.X) + ";")
	case 'Z': // one statement; what it runs is in a file, in a string, or prepared in front of the program
		var ib strings.Builder
		sqlBlock(&ib, s.Body)
		render.seq++
		switch s.Form {
		case 's':
			f := filepath.Join(render.dir, fmt.Sprintf("z%d.sql", render.seq))
			if err := os.WriteFile(f, []byte(ib.String()), 0o644); err != nil {
				panic(err)
			}
			b.WriteString("SOURCE " + option.QuoteString(f) + ";")
		case 'e':
			b.WriteString("EXECUTE " + option.QuoteString(ib.String()) + ";")
		default:
			name := fmt.Sprintf("pq%d", render.seq)
			exe := name
			if spell != nil && spell.stmtTwin { // a prepared statement is found under any spelling with the same upper case
				name = fmt.Sprintf("pqi%d", render.seq)
				exe = []string{"PQI", "pq\u0131", "Pqi"}[render.seq%3] + strconv.Itoa(render.seq)
			}
			render.prep = append(render.prep, "PREPARE "+name+" FROM "+option.QuoteString(ib.String())+";")
			b.WriteString("EXECUTE " + exe + ";")
		}
	case 'E': // three statements: the cursor is declared and opened in the enclosing block, right in front of the loop
		fmt.Fprintf(b, "DECLARE cq%d CURSOR FOR SELECT c1 FROM tq WHERE c1 < %d ORDER BY c1; OPEN cq%d; WHILE ", s.Cur, s.Rows, s.Cur)
		if s.Decl {
			b.WriteString("VAR ")
		}
		fmt.Fprintf(b, "%s IN cq%d DO ", vname(s.X), s.Cur)
		sqlBlock(b, s.Body)
		b.WriteString("END WHILE;")
	case 'G':
		b.WriteString("DECLARE " + fname(s.X) + " AGGREGATE (" + cname(s.Cur))
		for _, p := range s.Params {
			b.WriteString(", " + vname(p.X))
			if p.Dflt != nil {
				b.WriteString(" DEFAULT ")
				p.Dflt.sql(b)
			}
		}
		b.WriteString(") AS BEGIN ")
		sqlBlock(b, s.Body)
		b.WriteString("END;")
	case 'F':
		b.WriteString("DECLARE " + fname(s.X) + " FUNCTION (")
		for i, p := range s.Params {
			if i > 0 {
				b.WriteString(", ")
			}
			b.WriteString(vname(p.X))
			if p.Dflt != nil {
				b.WriteString(" DEFAULT ")
				p.Dflt.sql(b)
			}
		}
		b.WriteString(") AS BEGIN ")
		sqlBlock(b, s.Body)
		b.WriteString("END;")
	}
}

// tablePrelude declares, in the session scope, the temporary table the cursors of 'E' statements read (2 statements)
const tablePrelude = "DECLARE tq VIEW (c1); INSERT INTO tq VALUES (0), (1), (2), (3); "
const preludeStmts = 2

// render: where SOURCE files go, the PREPARE statements the text rendered last needs in front of it, a counter
// that makes file and statement names unique over the whole run (prepared statements belong to the session)
var render struct {
	dir  string
	seq  int
	prep []string
}

// sqlProgram renders the statements; the PREPARE statements they need are left in render.prep
func sqlProgram(ss []*Stmt) string {
	render.prep = nil
	var b strings.Builder
	sqlBlock(&b, ss)
	return b.String()
}

// preps: the PREPARE statements for the text rendered last (text, number of statements)
func preps() (string, int) {
	if len(render.prep) == 0 {
		return "", 0
	}
	return strings.Join(render.prep, " ") + " ", len(render.prep)
}

// flat lists the statements of a block with the indirectly executed ones in place (same block)
func flat(ss []*Stmt) []*Stmt {
	var out []*Stmt
	for _, s := range ss {
		if s.K == 'Z' {
			out = append(out, flat(s.Body)...)
		} else {
			out = append(out, s)
		}
	}
	return out
}

// ---------------------------------------------------------------- generator

// genCtx tracks what is probably visible at the point being generated (csvq resolves names dynamically,
// so inside a function body this is a guess: the declaration site plus the parameters); most references
// use visible names so that programs run on, a few do not so that every error kind occurs.
type genCtx struct {
	depth   int
	inLoop  bool
	inFunc  bool
	noDisp  bool // law programs: no DISPOSE
	wild    bool // BREAK / CONTINUE / EXIT / RETURN anywhere, also where the grammar forbids them
	inQuery bool // inside the argument list of an aggregate evaluated in a query: a plain call of an aggregate there
	// would aggregate over the group of THAT query, so aggregates are only called through their own sub-query
	noRet     bool           // inside SOURCE / EXECUTE text: parsed as a procedure of its own, RETURN is no statement there
	visible   map[int]bool   // pool variables probably visible here
	declared  map[int]bool   // pool variables declared in the block being generated
	fns       map[int][2]int // functions probably visible: (required, total) parameters beyond the budget parameter
	fdeclared map[int]bool   // functions declared in the block being generated
	tvisible  map[int]bool   // temporary tables probably visible here
	cvisible  map[int]bool   // cursors (with state) probably visible here
	cdeclared map[int]bool   // cursors declared in the block being generated
}

type pgen struct {
	cursorSeq int
	g         *hc.Gen
	budget    int // statements left
	nextCnt   int
	maxDepth  int
	kinds     map[byte]int
	fns       []*Stmt
}

func (c genCtx) child() genCtx {
	v := map[int]bool{}
	for k := range c.visible {
		v[k] = true
	}
	f := map[int][2]int{}
	for k, a := range c.fns {
		f[k] = a
	}
	t := map[int]bool{}
	for k := range c.tvisible {
		t[k] = true
	}
	cv := map[int]bool{}
	for k := range c.cvisible {
		cv[k] = true
	}
	c.visible, c.fns, c.tvisible, c.cvisible = v, f, t, cv
	c.declared, c.fdeclared, c.cdeclared = map[int]bool{}, map[int]bool{}, map[int]bool{}
	c.depth++
	return c
}

func lit(n int64) *Expr { return &Expr{K: 'i', N: n} }
func vr(x int) *Expr    { return &Expr{K: 'v', X: x} }
func bin(k byte, a, b *Expr) *Expr {
	return &Expr{K: k, A: a, B: b}
}

func sortedKeys(m map[int]bool) []int {
	ks := make([]int, 0, len(m))
	for k := range m {
		ks = append(ks, k)
	}
	sort.Ints(ks)
	return ks
}

func (p *pgen) pickVar(c genCtx) int {
	if len(c.visible) > 0 && p.g.Intn(100) < 96 {
		ks := sortedKeys(c.visible)
		return ks[p.g.Intn(len(ks))]
	}
	return p.g.Intn(poolVars)
}

func (p *pgen) expr(c genCtx, d int, calls bool) *Expr {
	r := p.g.Intn(100)
	switch {
	case d >= 3 || r < 25:
		if p.g.Intn(12) == 0 {
			return &Expr{K: "ntfu"[p.g.Intn(4)]}
		}
		return lit(int64(p.g.Intn(6)))
	case r < 55:
		if len(c.tvisible) > 0 && p.g.Intn(4) == 0 {
			ks := sortedKeys(c.tvisible)
			return &Expr{K: 'T', X: ks[p.g.Intn(len(ks))]}
		}
		return vr(p.pickVar(c))
	case r < 72:
		return bin("+-"[p.g.Intn(2)], p.expr(c, d+1, calls), p.expr(c, d+1, calls))
	case r < 80:
		return bin("<="[p.g.Intn(2)], p.expr(c, d+1, calls), p.expr(c, d+1, calls))
	default:
		if !calls || (len(c.fns) == 0 && p.g.Intn(8) > 0) {
			return vr(p.pickVar(c))
		}
		return p.call(c, d)
	}
}

func (p *pgen) call(c genCtx, d int) *Expr {
	f := p.g.Intn(poolFns)
	if len(c.fns) > 0 && p.g.Intn(100) < 96 {
		ks := make([]int, 0, len(c.fns))
		for k := range c.fns {
			ks = append(ks, k)
		}
		sort.Ints(ks)
		f = ks[p.g.Intn(len(ks))]
	}
	var first *Expr
	if c.inFunc {
		first = bin('-', vr(budgetVar), lit(1))
	} else {
		first = lit(int64(1 + p.g.Intn(3)))
	}
	n := p.g.Intn(3)
	if ar, ok := c.fns[f]; ok && p.g.Intn(100) < 96 {
		n = ar[0]
		if ar[1] > ar[0] {
			n += p.g.Intn(ar[1] - ar[0] + 1)
		}
	}
	inQuery := f >= aggBase && (c.inQuery || p.g.Intn(5) < 3)
	ac := c
	if inQuery {
		ac.inQuery = true
	}
	args := []*Expr{first}
	for i := 0; i < n; i++ {
		args = append(args, p.expr(ac, d+1, p.g.Intn(4) == 0))
	}
	if p.g.Intn(60) == 0 {
		args = args[:0] // no budget argument at all: argument count error
	}
	if f >= aggBase {
		if inQuery {
			// inside a query, over a group of 0 … 4 values (the state of the invocation's pseudo cursor at its start)
			p.cursorSeq++
			return &Expr{K: 'a', X: f, N: int64(1000 + 100*(p.cursorSeq%10) + 10*p.g.Intn(5)), Args: args}
		}
		// outside any query: the first argument stands where the grouped expression would, there is nothing to aggregate
		if len(args) > 0 || p.g.Intn(2) == 0 {
			args = append([]*Expr{lit(0)}, args...)
		}
	}
	return &Expr{K: 'c', X: f, Args: args}
}

func (p *pgen) cond(c genCtx) *Expr {
	switch p.g.Intn(10) {
	case 0:
		return &Expr{K: 't'}
	case 1:
		return p.expr(c, 1, true)
	}
	return bin("<="[p.g.Intn(2)], p.expr(c, 1, true), p.expr(c, 1, true))
}

func (p *pgen) block(c genCtx, lo, hi int) []*Stmt {
	n := lo
	if hi > lo {
		n += p.g.Intn(hi - lo + 1)
	}
	var out []*Stmt
	for i := 0; i < n; i++ {
		out = append(out, p.stmt(c)...)
	}
	return out
}

func (p *pgen) note(k byte, c genCtx) {
	p.kinds[k]++
	if c.depth > p.maxDepth {
		p.maxDepth = c.depth
	}
}

// stmt returns one statement (a WHILE comes with the declaration of its counter in front)
func (p *pgen) stmt(c genCtx) []*Stmt {
	p.budget--
	deep := c.depth >= maxDepth || p.budget <= 0
	r := p.g.Intn(100)
	switch {
	case r < 16: // declaration; mostly of a name this block does not have yet (an outer one is shadowed)
		x := p.g.Intn(poolVars)
		for t := 0; t < 4 && c.declared[x] && p.g.Intn(100) < 93; t++ {
			x = p.g.Intn(poolVars)
		}
		e := p.expr(c, 0, true)
		c.declared[x] = true
		c.visible[x] = true
		p.note('D', c)
		return []*Stmt{{K: 'D', X: x, E: e}}
	case r < 32:
		p.note('A', c)
		return []*Stmt{{K: 'A', X: p.pickVar(c), E: p.expr(c, 0, true)}}
	case r < 35:
		if c.noDisp {
			break
		}
		x := p.pickVar(c)
		if c.declared[x] {
			delete(c.declared, x)
		}
		if p.g.Intn(3) > 0 { // an outer variable of the same name may remain
			delete(c.visible, x)
		}
		p.note('X', c)
		return []*Stmt{{K: 'X', X: x}}
	case r < 35+1:
		break // PRINT below
	case r < 39:
		// cursors with state: declared (closed) in this block — often with the name of a visible outer one —, opened,
		// fetched from and closed at every state, from here and from deeper blocks and invocations
		k := p.g.Intn(poolCursors)
		vis := sortedKeys(c.cvisible)
		if len(vis) == 0 && p.g.Intn(3) == 0 {
			break
		}
		if len(vis) > 0 && p.g.Intn(100) < 95 {
			k = vis[p.g.Intn(len(vis))]
		}
		q := p.g.Intn(20)
		if len(vis) == 0 || (!c.cdeclared[k] && q < 5) || q < 1 {
			// a declaration: in a block below the one of a visible cursor of the same name it shadows that one
			p.cursorSeq++
			st := []*Stmt{{K: 'C', Cur: k, Rows: p.cursorSeq % 10}}
			p.note('C', c)
			inner := c.cvisible[k] && !c.cdeclared[k]
			c.cvisible[k], c.cdeclared[k] = true, true
			switch p.g.Intn(6) {
			case 0: // fetch while it has never been opened
				st = append(st, &Stmt{K: 'H', Cur: k, X: p.pickVar(c)})
			case 1: // opened, fetched from, closed, fetched from again
				st = append(st, &Stmt{K: 'O', Cur: k}, &Stmt{K: 'H', Cur: k, X: p.pickVar(c)}, &Stmt{K: 'S', Cur: k}, &Stmt{K: 'H', Cur: k, X: p.pickVar(c)})
			case 2, 3:
				st = append(st, &Stmt{K: 'O', Cur: k})
				if p.g.Intn(2) == 0 {
					st = append(st, &Stmt{K: 'H', Cur: k, X: p.pickVar(c)})
				}
			}
			if inner {
				p.kinds['s']++ // a cursor declared below a visible one of the same name
			}
			return st
		}
		switch {
		case q < 8:
			p.note('O', c)
			return []*Stmt{{K: 'O', Cur: k}}
		case q < 11:
			p.note('S', c)
			return []*Stmt{{K: 'S', Cur: k}}
		}
		p.note('H', c)
		x := p.pickVar(c)
		return []*Stmt{{K: 'H', Cur: k, X: x}, {K: 'P', E: vr(x)}}
	case r < 45:
		// temporary tables: declared in this block, changed and read from any depth below it
		t := p.g.Intn(poolTables)
		vis := sortedKeys(c.tvisible)
		if len(vis) == 0 && p.g.Intn(2) == 0 {
			break
		}
		if len(vis) == 0 || p.g.Intn(10) == 0 {
			for k := 0; k < 3 && c.tvisible[t] && p.g.Intn(100) < 92; k++ { // a visible name cannot be declared again
				t = p.g.Intn(poolTables)
			}
			c.tvisible[t] = true
			p.note('V', c)
			st := []*Stmt{{K: 'V', X: t}}
			if !deep && c.depth > 0 && p.g.Intn(2) == 0 {
				// declared in an intermediate block, changed one or two blocks further in, read back here
				ch := []*Stmt{{K: 'N', X: t, Rows: 1 + p.g.Intn(3)}}
				p.note('N', c)
				if p.g.Intn(2) == 0 {
					ch = []*Stmt{{K: 'I', AsCase: p.g.Intn(3) == 0, Branches: []Branch{{C: p.cond(c), Body: append(p.block(c.child().child(), 0, 1), ch...)}}}}
				}
				st = append(st, &Stmt{K: 'I', AsCase: p.g.Intn(3) == 0, Branches: []Branch{{C: &Expr{K: 't'}, Body: append(p.block(c.child(), 0, 1), ch...)}}},
					&Stmt{K: 'P', E: &Expr{K: 'T', X: t}})
			}
			return st
		}
		if p.g.Intn(100) < 94 {
			t = vis[p.g.Intn(len(vis))]
		}
		switch q := p.g.Intn(20); {
		case q < 12:
			p.note('N', c)
			return []*Stmt{{K: 'N', X: t, Rows: 1 + p.g.Intn(3)}}
		case q < 14:
			p.note('L', c)
			return []*Stmt{{K: 'L', X: t}}
		case q < 15 && !c.noDisp:
			delete(c.tvisible, t)
			p.note('U', c)
			return []*Stmt{{K: 'U', X: t}}
		}
		p.note('P', c)
		return []*Stmt{{K: 'P', E: &Expr{K: 'T', X: t}}}
	case r < 50:
		// statements that reach the current block indirectly: SOURCE file / EXECUTE 'text' / EXECUTE prepared
		if p.budget <= 0 {
			break
		}
		cc := c // the SAME block: declarations made there are declarations of this block
		cc.inLoop, cc.noRet, cc.wild = false, true, false
		st := &Stmt{K: 'Z', Form: "sep"[p.g.Intn(3)]}
		st.Body = p.block(cc, 1, 3)
		p.note('Z', c)
		return []*Stmt{st}
	case r < 84 && deep:
		if p.g.Intn(2) == 0 {
			p.note('A', c)
			return []*Stmt{{K: 'A', X: p.pickVar(c), E: p.expr(c, 0, true)}}
		}
		break
	case r < 63:
		nb := 1 + p.g.Intn(3)
		if p.g.Intn(3) > 0 {
			nb = 1
		}
		s := &Stmt{K: 'I', AsCase: p.g.Intn(3) == 0}
		if p.g.Intn(6) == 0 { // CASE <value> WHEN <value> THEN … (Processor.Case with a value)
			s.E = p.expr(c, 1, true)
			nb = 1 + p.g.Intn(3)
			p.kinds['J']++
		}
		for i := 0; i < nb; i++ {
			cc := p.cond(c)
			if s.E != nil {
				cc = p.expr(c, 1, true)
				if p.g.Intn(3) == 0 {
					cc = s.E // the same expression again: mostly equal (unless it is NULL or has effects)
				}
			}
			s.Branches = append(s.Branches, Branch{C: cc, Body: p.block(c.child(), 0, 3)})
		}
		if p.g.Intn(2) == 0 {
			s.Els = p.block(c.child(), 0, 3)
		}
		p.note('I', c)
		return []*Stmt{s}
	case r < 67:
		// WHILE [VAR] @x IN cursor over a small temporary table
		k := p.nextCnt
		p.nextCnt++
		cc := c.child()
		cc.inLoop = true
		st := &Stmt{K: 'E', Cur: k, Rows: p.g.Intn(4), Decl: p.g.Intn(2) == 0}
		if st.Decl {
			st.X = p.g.Intn(poolVars)
			cc.visible[st.X], cc.declared[st.X] = true, true
		} else {
			st.X = p.pickVar(c)
		}
		st.Body = p.block(cc, 1, 3)
		if c.inFunc {
			p.kinds['e']++ // cursor loops inside function bodies
		}
		p.note('E', c)
		return []*Stmt{st}
	case r < 74:
		k := p.nextCnt
		p.nextCnt++
		lim := int64(1 + p.g.Intn(3))
		cc := c.child()
		cc.inLoop = true
		body := []*Stmt{{K: 'A', X: k, E: bin('+', vr(k), lit(1))}}
		body = append(body, p.block(cc, 1, 3)...)
		p.note('W', c)
		return []*Stmt{{K: 'D', X: k, E: lit(0)}, {K: 'W', E: bin('<', vr(k), lit(lim)), Body: body}}
	case r < 77:
		// DECLARE ag AGGREGATE (cursor, @v4, …): every invocation gets its own pseudo cursor of that name — often the
		// name of a cursor that is declared (and open) outside
		f := aggBase + p.g.Intn(poolAggs)
		for t := 0; t < 3 && c.fdeclared[f] && p.g.Intn(100) < 85; t++ {
			f = aggBase + p.g.Intn(poolAggs)
		}
		cur := p.g.Intn(poolCursors)
		if vis := sortedKeys(c.cvisible); len(vis) > 0 && p.g.Intn(4) > 0 {
			cur = vis[p.g.Intn(len(vis))]
		}
		s := &Stmt{K: 'G', X: f, Cur: cur, Params: []Param{{X: budgetVar}}}
		cc := c.child()
		cc.inFunc, cc.inLoop, cc.noRet = true, false, false
		cc.cvisible[cur], cc.cdeclared[cur] = true, true
		if p.g.Intn(2) == 0 {
			x := p.g.Intn(poolVars)
			pr := Param{X: x}
			if p.g.Intn(2) == 0 {
				pr.Dflt = p.expr(cc, 1, false)
			}
			s.Params = append(s.Params, pr)
			cc.visible[x], cc.declared[x] = true, true
		}
		total, required := len(s.Params)-1, 0
		for i, pr := range s.Params[1:] {
			if pr.Dflt == nil {
				required = i + 1
			}
		}
		cc.fns[f] = [2]int{required, total}
		guard := &Stmt{K: 'I', Branches: []Branch{{C: bin('<', vr(budgetVar), lit(1)),
			Body: []*Stmt{{K: 'R', E: p.expr(cc, 1, false)}}}}}
		x := p.pickVar(cc)
		s.Body = []*Stmt{guard, {K: 'H', Cur: cur, X: x}}
		if p.g.Intn(2) == 0 {
			s.Body = append(s.Body, &Stmt{K: 'H', Cur: cur, X: p.pickVar(cc)})
		}
		s.Body = append(s.Body, p.block(cc, 1, 3)...)
		c.fns[f] = [2]int{required, total}
		c.fdeclared[f] = true
		p.fns = append(p.fns, s)
		p.note('G', c)
		return []*Stmt{s}
	case r < 84:
		f := p.g.Intn(poolFns)
		for t := 0; t < 4 && c.fdeclared[f] && p.g.Intn(100) < 85; t++ {
			f = p.g.Intn(poolFns)
		}
		if len(c.fdeclared) > 0 && p.g.Intn(100) < 4 { // now and then a redeclaration in the same block
			f = sortedKeys(c.fdeclared)[p.g.Intn(len(c.fdeclared))]
		}
		s := &Stmt{K: 'F', X: f, Params: []Param{{X: budgetVar}}}
		np := p.g.Intn(3)
		req := np
		if np > 0 && p.g.Intn(2) == 0 {
			req = p.g.Intn(np + 1)
		}
		cc := c.child()
		cc.inFunc, cc.inLoop, cc.noRet = true, false, false
		used := map[int]bool{}
		for i := 0; i < np; i++ {
			x := p.g.Intn(poolVars)
			if used[x] && p.g.Intn(8) > 0 {
				continue
			}
			used[x] = true
			pr := Param{X: x}
			if i >= req {
				pr.Dflt = p.expr(cc, 1, false) // no calls: a default is evaluated before the budget guard of the body
			}
			s.Params = append(s.Params, pr)
			cc.visible[x] = true
			cc.declared[x] = true
		}
		total, required := len(s.Params)-1, 0
		for i, pr := range s.Params[1:] {
			if pr.Dflt == nil {
				required = i + 1
			}
		}
		cc.fns[f] = [2]int{required, total} // recursion
		// guard: without budget the function returns at once, so every chain of calls ends
		guard := &Stmt{K: 'I', Branches: []Branch{{C: bin('<', vr(budgetVar), lit(1)),
			Body: []*Stmt{{K: 'R', E: p.expr(cc, 1, false)}}}}}
		s.Body = append([]*Stmt{guard}, p.block(cc, 1, 4)...)
		c.fns[f] = [2]int{required, total}
		c.fdeclared[f] = true
		p.fns = append(p.fns, s)
		p.note('F', c)
		return []*Stmt{s}
	case r < 86:
		if p.g.Intn(8) == 0 && c.depth > 0 { // the procedure ends with an error: TRIGGER ERROR anywhere, EXIT 1 where EXIT may stand
			st := &Stmt{K: 'M', X: 0}
			if !c.inFunc && p.g.Intn(2) == 0 {
				st.X = 1
			}
			p.note('M', c)
			return []*Stmt{st}
		}
		if c.noDisp || len(c.fns) == 0 || p.g.Intn(2) == 0 {
			break
		}
		f := p.g.Intn(poolFns)
		if p.g.Intn(100) < 90 {
			ks := make([]int, 0, len(c.fns))
			for k := range c.fns {
				ks = append(ks, k)
			}
			sort.Ints(ks)
			f = ks[p.g.Intn(len(ks))]
		}
		delete(c.fns, f)
		delete(c.fdeclared, f)
		p.note('Y', c)
		return []*Stmt{{K: 'Y', X: f}}
	case r < 91:
		if c.inLoop || (c.wild && p.g.Intn(3) == 0) {
			k := "BK"[p.g.Intn(2)]
			p.note(k, c)
			if !c.inLoop {
				p.kinds['!']++
			}
			return []*Stmt{{K: k, Stray: !c.inLoop}}
		}
	case r < 96:
		if c.wild && p.g.Intn(3) == 0 { // RETURN outside a function, EXIT inside one
			p.kinds['!']++
			if c.inFunc {
				p.note('Q', c)
				return []*Stmt{{K: 'Q', Stray: true}}
			}
			p.note('R', c)
			return []*Stmt{{K: 'R', E: p.expr(c, 0, true), Stray: true}}
		}
		if c.inFunc && !c.noRet {
			p.note('R', c)
			return []*Stmt{{K: 'R', E: p.expr(c, 0, true)}}
		}
		if (c.depth > 0 || c.noRet) && p.g.Intn(2) == 0 {
			p.note('Q', c)
			return []*Stmt{{K: 'Q'}}
		}
	}
	p.note('P', c)
	return []*Stmt{{K: 'P', E: p.expr(c, 0, true)}}
}

// ---- static bound on the work of a program (so that a run stays small)

const capCost = 1 << 40

func sat(x int64) int64 {
	if x > capCost {
		return capCost
	}
	return x
}

func costExpr(e *Expr, cc int64) int64 {
	if e == nil {
		return 0
	}
	switch e.K {
	case '+', '-', '<', '=':
		return sat(1 + costExpr(e.A, cc) + costExpr(e.B, cc))
	case 'c', 'a':
		t := int64(1) + cc
		for _, a := range e.Args {
			t = sat(t + costExpr(a, cc))
		}
		return t
	}
	return 1
}

func costBlock(ss []*Stmt, cc int64) int64 {
	var t int64
	for _, s := range ss {
		t = sat(t + 1 + costExpr(s.E, cc))
		switch s.K {
		case 'I':
			for _, br := range s.Branches {
				t = sat(t + costExpr(br.C, cc) + costBlock(br.Body, cc))
			}
			t = sat(t + costBlock(s.Els, cc))
		case 'W':
			t = sat(t + 4*sat(costExpr(s.E, cc)+costBlock(s.Body, cc)))
		case 'E':
			t = sat(t + 3 + int64(s.Rows)*sat(1+costBlock(s.Body, cc)))
		case 'Z':
			t = sat(t + costBlock(s.Body, cc))
		case 'F', 'G':
			for _, pr := range s.Params {
				t = sat(t + costExpr(pr.Dflt, cc))
			}
		}
	}
	return t
}

func (p *pgen) cost(prog []*Stmt) int64 {
	f := int64(4)
	for b := 0; b < 3; b++ {
		var m int64 = 4
		for _, fn := range p.fns {
			c := costBlock(fn.Body, f)
			for _, pr := range fn.Params {
				c = sat(c + costExpr(pr.Dflt, f))
			}
			if c > m {
				m = c
			}
		}
		f = m
	}
	return costBlock(prog, f)
}

func newPgen(g *hc.Gen) *pgen {
	return &pgen{g: g, budget: 14 + g.Intn(30), nextCnt: firstCount, kinds: map[byte]int{}}
}

func topCtx(noDisp bool) genCtx {
	return genCtx{visible: map[int]bool{}, declared: map[int]bool{}, fns: map[int][2]int{}, fdeclared: map[int]bool{}, tvisible: map[int]bool{}, cvisible: map[int]bool{}, cdeclared: map[int]bool{}, noDisp: noDisp}
}

func (p *pgen) program(c genCtx) []*Stmt {
	var prog []*Stmt
	for i := 0; i < 1+p.g.Intn(3); i++ { // mostly start with a few declarations
		x := p.g.Intn(poolVars)
		if c.declared[x] {
			continue
		}
		c.declared[x], c.visible[x] = true, true
		prog = append(prog, &Stmt{K: 'D', X: x, E: lit(int64(p.g.Intn(6)))})
		p.kinds['D']++
	}
	return append(prog, p.block(c, 3, 8)...)
}

func genProgram(g *hc.Gen, noDisp, wild bool) (*pgen, []*Stmt) {
	for {
		p := newPgen(g)
		c := topCtx(noDisp)
		c.wild = wild
		prog := p.program(c)
		if p.cost(prog) <= 60000 {
			return p, prog
		}
	}
}

// ---------------------------------------------------------------- running the real processor

type result struct {
	flow  string
	out   []string
	vars  string
	funs  string
	code  int
	nblk  int
	fatal bool
}

func canonLine(s string) string {
	switch s {
	case "NULL":
		return "N"
	case "TRUE":
		return "TT"
	case "FALSE":
		return "TF"
	case "UNKNOWN":
		return "TU"
	}
	if _, err := strconv.ParseInt(s, 10, 64); err == nil {
		return "I" + s
	}
	return "?" + fmt.Sprintf("%x", s)
}

func canonVal(p value.Primary) string {
	switch v := p.(type) {
	case *value.Null:
		return "N"
	case *value.Integer:
		return fmt.Sprintf("I%d", v.Raw())
	case *value.Ternary:
		return "T" + hc.EncT(v.Ternary())
	}
	return "?" + p.String()
}

func idxOf(name, prefix string) int {
	n, err := strconv.Atoi(strings.TrimPrefix(strings.ToLower(name), prefix))
	if err != nil {
		return 1 << 30
	}
	return n
}

func joinOr(l []string, d string) string {
	if len(l) == 0 {
		return d
	}
	return strings.Join(l, ",")
}

// scopeStateNamed: per block, every listed name that finds an object there — asked through csvq's own lookups
// (VariableMap.Load, CursorMap.Load, UserDefinedFunctionMap.Load with the raw text; ReferenceScope.GetTemporaryTable
// on a scope of that one block), so what is one object is csvq's decision; an object two listed names reach is
// reported under both
func scopeStateNamed(rs *query.ReferenceScope, tbl []nameEnt) (string, string) {
	var vs, fs []string
	for i := range rs.Blocks {
		b := rs.Blocks[i]
		one := &query.ReferenceScope{Tx: rs.Tx, Blocks: rs.Blocks[i : i+1]}
		var vl, fl []string
		for _, e := range tbl {
			switch e.kind {
			case 'v':
				if val, ok := b.Variables.Load(e.raw); ok {
					vl = append(vl, fmt.Sprintf("%d=%s", e.num, canonVal(val)))
				}
			case 't':
				if view, err := one.GetTemporaryTable(parser.Identifier{Literal: e.raw}); err == nil {
					vl = append(vl, fmt.Sprintf("%d=I%d", e.num, view.RecordLen()))
				}
			case 'c':
				if cur, ok := b.Cursors.Load(e.raw); ok {
					st := "C"
					if cur.IsOpen() == ternary.TRUE {
						ptr, _ := cur.Pointer()
						st = fmt.Sprintf("O%d", ptr+1)
					}
					vl = append(vl, fmt.Sprintf("%d=%s", e.num, st))
				}
			case 'f':
				if fn, ok := b.Functions.Load(e.raw); ok {
					fl = append(fl, fmt.Sprintf("%d:%d", e.num, len(fn.Parameters)))
				}
			}
		}
		vs = append(vs, joinOr(vl, "-"))
		fs = append(fs, joinOr(fl, "-"))
	}
	return strings.Join(vs, "/"), strings.Join(fs, "/")
}

func scopeState(rs *query.ReferenceScope) (string, string) {
	if curTable != nil {
		return scopeStateNamed(rs, curTable)
	}
	var vs, fs []string
	for _, b := range rs.Blocks {
		type kv struct {
			k int
			s string
		}
		var l []kv
		b.Variables.Range(func(key, val interface{}) bool {
			k := idxOf(key.(string), "v")
			l = append(l, kv{k, fmt.Sprintf("%d=%s", k, canonVal(val.(value.Primary)))})
			return true
		})
		b.Cursors.Range(func(key, val interface{}) bool {
			if k := idxOf(key.(string), "cr"); k < poolCursors { // the cursors with state, not the ones of WHILE IN loops
				cur := val.(*query.Cursor)
				st := "C"
				if cur.IsOpen() == ternary.TRUE {
					ptr, _ := cur.Pointer()
					st = fmt.Sprintf("O%d", ptr+1)
				}
				l = append(l, kv{cursorVar + k, fmt.Sprintf("%d=%s", cursorVar+k, st)})
			}
			return true
		})
		b.TemporaryTables.Range(func(key, val interface{}) bool {
			if k := idxOf(key.(string), "t"); k < poolTables { // the temporary tables of the program, not tq
				l = append(l, kv{tableVar + k, fmt.Sprintf("%d=I%d", tableVar+k, val.(*query.View).RecordLen())})
			}
			return true
		})
		sort.Slice(l, func(i, j int) bool { return l[i].k < l[j].k })
		var ss []string
		for _, e := range l {
			ss = append(ss, e.s)
		}
		vs = append(vs, joinOr(ss, "-"))
		l = nil
		b.Functions.Range(func(key, val interface{}) bool {
			k := idxOf(key.(string), "fn")
			if a := idxOf(key.(string), "ag"); a < poolAggs {
				k = aggBase + a
			}
			l = append(l, kv{k, fmt.Sprintf("%d:%d", k, len(val.(*query.UserDefinedFunction).Parameters))})
			return true
		})
		sort.Slice(l, func(i, j int) bool { return l[i].k < l[j].k })
		ss = nil
		for _, e := range l {
			ss = append(ss, e.s)
		}
		fs = append(fs, joinOr(ss, "-"))
	}
	return strings.Join(vs, "/"), strings.Join(fs, "/")
}

var flowName = map[query.StatementFlow]string{query.Terminate: "N", query.Exit: "X", query.Break: "B", query.Continue: "K"}

// exec runs program text on pr (which keeps its scope between calls) and reports what can be observed
func exec(pr *hc.Proc, sql string) result { return execPatched(pr, sql, nil, 0) }

// patch puts the stray BREAK / CONTINUE / EXIT / RETURN statements of `my` into the parsed tree, which has the
// same shape (every statement of `my` was written as exactly one statement)
func patch(my []*Stmt, parsed []parser.Statement) bool {
	j := 0
	for _, s := range my {
		i := j
		if s.K == 'E' { // DECLARE CURSOR; OPEN; WHILE IN
			i, j = j+2, j+3
		} else {
			j++
		}
		if i >= len(parsed) {
			return false
		}
		switch s.K {
		case 'B', 'K', 'Q', 'R':
			if !s.Stray {
				continue
			}
			pt, ok := parsed[i].(parser.Print)
			if !ok {
				return false
			}
			switch s.K {
			case 'B':
				parsed[i] = parser.FlowControl{Token: parser.BREAK}
			case 'K':
				parsed[i] = parser.FlowControl{Token: parser.CONTINUE}
			case 'Q':
				parsed[i] = parser.Exit{}
			case 'R':
				parsed[i] = parser.Return{Value: pt.Value}
			}
		case 'I':
			var lists [][]parser.Statement
			var els []parser.Statement
			switch n := parsed[i].(type) {
			case parser.If:
				lists = append(lists, n.Statements)
				for _, e := range n.ElseIf {
					lists = append(lists, e.Statements)
				}
				els = n.Else.Statements
			case parser.Case:
				for _, w := range n.When {
					lists = append(lists, w.Statements)
				}
				els = n.Else.Statements
			default:
				return false
			}
			if len(lists) != len(s.Branches) {
				return false
			}
			for j := range lists {
				if !patch(s.Branches[j].Body, lists[j]) {
					return false
				}
			}
			if !patch(s.Els, els) {
				return false
			}
		case 'W':
			n, ok := parsed[i].(parser.While)
			if !ok || !patch(s.Body, n.Statements) {
				return false
			}
		case 'E':
			n, ok := parsed[i].(parser.WhileInCursor)
			if !ok || !patch(s.Body, n.Statements) {
				return false
			}
		case 'F':
			n, ok := parsed[i].(parser.FunctionDeclaration)
			if !ok || !patch(s.Body, n.Statements) {
				return false
			}
		case 'G':
			n, ok := parsed[i].(parser.AggregateDeclaration)
			if !ok || !patch(s.Body, n.Statements) {
				return false
			}
		}
	}
	return j == len(parsed)
}

// returnValOf reads the unexported Processor.returnVal (only a RETURN outside any function leaves it visible)
func returnValOf(p *query.Processor) string {
	f := reflect.ValueOf(p).Elem().FieldByName("returnVal")
	if !f.IsValid() {
		return "?"
	}
	v := reflect.NewAt(f.Type(), unsafe.Pointer(f.UnsafeAddr())).Elem().Interface()
	if v == nil {
		return "N"
	}
	return canonVal(v.(value.Primary))
}

func execPatched(pr *hc.Proc, sql string, my []*Stmt, skip int) result {
	pr.Stdout.Reset()
	var r result
	stmts, _, err := parser.Parse(sql, "", false, pr.P.Tx.Flags.AnsiQuotes)
	if err != nil || (my != nil && (len(stmts) < skip || !patch(my, stmts[skip:]))) {
		r.flow, r.code, r.fatal = "SYNTAX", -2, true
		return r
	}
	ctx, cancel := context.WithTimeout(pr.Ctx, 5*time.Second)
	flow, err := pr.P.Execute(ctx, stmts)
	cancel()
	r.code = errNumber(err)
	if err != nil {
		r.flow = fmt.Sprintf("E%d", r.code)
		if r.code == query.ErrorFileNotExist || r.code == query.ErrorUndeclaredTemporaryTable {
			// a table that is not declared ("file t0 does not exist" from INSERT / DELETE / SELECT, "view t0 is
			// undeclared" from DISPOSE VIEW): the model's tables are variables, its answer is "undeclared variable"
			r.flow = fmt.Sprintf("E%d", query.ErrorUndeclaredVariable)
		}
		switch r.code { // cursors are variables in the model too
		case query.ErrorUndeclaredCursor:
			r.flow = fmt.Sprintf("E%d", query.ErrorUndeclaredVariable)
		case query.ErrorCursorRedeclared:
			r.flow = fmt.Sprintf("E%d", query.ErrorVariableRedeclared)
		}
	} else {
		r.flow = flowName[flow]
		switch flow {
		case query.TerminateWithError:
			r.flow = "E?"
		case query.Return:
			r.flow = "R" + returnValOf(pr.P)
		}
	}
	txt := strings.TrimSuffix(pr.Stdout.String(), "\n")
	if txt != "" {
		for _, l := range strings.Split(txt, "\n") {
			r.out = append(r.out, canonLine(l))
		}
	}
	r.vars, r.funs = scopeState(pr.P.ReferenceScope)
	r.nblk = len(pr.P.ReferenceScope.Blocks)
	return r
}

// errNumber maps an error to csvq's error number (lib/query/error_code.go; hc.ErrCode gives the coarser
// process return code): 0 = no error, -1 = not a csvq error.
func errNumber(err error) int {
	if err == nil {
		return 0
	}
	if e, ok := err.(query.Error); ok {
		return e.Number()
	}
	return -1
}

func (r result) line() string {
	return r.flow + " | " + joinOr(r.out, "-") + " | " + r.vars + " | " + r.funs
}

// txWatch: the transaction outcome of a run.  The session of the generated programs works in a repository with the
// file table ft.csv and has AutoCommit on (as `csvq -s file` has); every program starts with an INSERT into ft, so
// whether Processor.Execute committed shows in the file.
type txWatch struct {
	file string
	orig []byte
}

const filePrelude = "INSERT INTO ft VALUES (1); "

func newTxWatch(dir string) *txWatch {
	w := &txWatch{file: filepath.Join(dir, "ft.csv"), orig: []byte("c1\n0\n")}
	if err := os.WriteFile(w.file, w.orig, 0o644); err != nil {
		panic(err)
	}
	return w
}

// outcome reports whether the run was committed, discards what is pending and puts the file back
func (w *txWatch) outcome(pr *hc.Proc) string {
	now, err := os.ReadFile(w.file)
	committed := err != nil || !bytes.Equal(now, w.orig)
	_ = pr.P.AutoRollback()
	_ = pr.P.ReleaseResourcesWithErrors()
	if committed {
		if err := os.WriteFile(w.file, w.orig, 0o644); err != nil {
			panic(err)
		}
		return "commit"
	}
	return "nocommit"
}

func newProc() *hc.Proc {
	pr := hc.NewProc("")
	_ = pr.P.Tx.SetFlag(option.QuietFlag, true) // only PRINT writes to stdout ("1 record inserted" etc. are notices)
	return pr
}

// ---------------------------------------------------------------- laws checked on the implementation alone

var wrapKinds = []string{"if", "else", "while", "func", "elseif", "case", "casevalue", "caseelse", "whilein"}

// wrap nests `inner` in `depth` random block constructs (every one runs its body exactly once);
// helper function names are fresh (hz<n>), counters too (@wz<n>).
func wrap(g *hc.Gen, inner string, depth int, id *int) (string, []string) {
	var kinds []string
	s := inner
	for i := 0; i < depth; i++ {
		*id++
		k := wrapKinds[g.Intn(len(wrapKinds))]
		kinds = append(kinds, k)
		switch k {
		case "if":
			s = "IF TRUE THEN " + s + " END IF;"
		case "else":
			s = "IF FALSE THEN PRINT 0; ELSE " + s + " END IF;"
		case "elseif":
			s = "IF NULL THEN PRINT 0; ELSEIF (1 = 1) THEN " + s + " END IF;"
		case "case":
			s = "CASE WHEN FALSE THEN PRINT 0; WHEN TRUE THEN " + s + " END CASE;"
		case "casevalue":
			s = "CASE 2 WHEN 1 THEN PRINT 0; WHEN 2 THEN " + s + " ELSE PRINT 0; END CASE;"
		case "caseelse":
			s = "CASE WHEN NULL THEN PRINT 0; ELSE " + s + " END CASE;"
		case "whilein":
			s = fmt.Sprintf("DECLARE cwz%d CURSOR FOR SELECT 1; OPEN cwz%d; WHILE VAR @wv%d IN cwz%d DO %s END WHILE; DISPOSE CURSOR cwz%d;", *id, *id, *id, *id, s, *id)
		case "while":
			w := fmt.Sprintf("@wz%d", *id)
			s = fmt.Sprintf("VAR %s := 0; WHILE (%s < 1) DO %s := (%s + 1); %s END WHILE;", w, w, w, w, s)
		case "func":
			f := fmt.Sprintf("hz%d", *id)
			s = fmt.Sprintf("DECLARE %s FUNCTION () AS BEGIN %s END; VAR @rz%d := %s();", f, s, *id, f)
		}
	}
	return s, kinds
}

// report records a failed law; every failure is counted, the first few of each law are written out
func report(o *hc.Out, name string, c lawCase) {
	if o.Stats["law_fail:"+name] < 5 {
		o.Law(name, c)
	} else {
		o.Stats["law_fail:"+name]++
	}
}

// indirect makes `inner` reach the enclosing block the indirect way: through SOURCE of a file, EXECUTE of a string,
// or PREPARE + EXECUTE (two times out of three); the block that contains it then declares nothing by itself
func indirect(g *hc.Gen, o *hc.Out, inner string, id *int) string {
	*id++
	switch g.Intn(6) {
	case 0, 1:
		return inner
	case 2:
		f := filepath.Join(render.dir, fmt.Sprintf("law%d-%d.sql", render.seq, *id))
		render.seq++
		if err := os.WriteFile(f, []byte(inner), 0o644); err != nil {
			panic(err)
		}
		o.Count("law_indirect:source")
		return "SOURCE " + option.QuoteString(f) + ";"
	case 3:
		o.Count("law_indirect:execute")
		return "EXECUTE " + option.QuoteString(inner) + ";"
	case 4:
		o.Count("law_indirect:execute_nested")
		return "EXECUTE " + option.QuoteString("EXECUTE "+option.QuoteString(inner)+";") + ";"
	}
	o.Count("law_indirect:prepared")
	return fmt.Sprintf("PREPARE pz%d FROM %s; EXECUTE pz%d; DISPOSE PREPARE pz%d;", *id, option.QuoteString(inner), *id, *id)
}

type lawCase struct {
	Law  string   `json:"law"`
	SQL  []string `json:"sql"`
	Got  string   `json:"got"`
	Want string   `json:"want"`
}

// lawTwins (implementation alone): what counts as the same name.  Variables that differ in letter case (or by a
// Unicode case twin) are different variables — a block-local twin neither shadows the outer one nor takes the
// assignment meant for it, a parameter twin does not hide the caller's variable, both can be declared in one block;
// cursors, functions, temporary tables and prepared statements are found under every spelling with the same upper
// case (ci / CI / cı) and not under one with a different upper case (the Kelvin sign, a near twin).
func lawTwins(g *hc.Gen, o *hc.Out) {
	id := 0
	depth := 1 + g.Intn(maxDepth)
	pairs := [][2]string{{"zk", "Zk"}, {"zk", "ZK"}, {"zk", "z\u212a"}, {"zi", "z\u0131"}, {"zi", "zI"}, {"total", "Total"}, {"n", "N"}}
	pq := pairs[g.Intn(len(pairs))]
	a, b := "@"+pq[0], "@"+pq[1]
	if g.Intn(2) == 0 {
		a, b = b, a
	}
	type tc struct {
		name, first, body, last, want string
	}
	same := []string{"zi", "ZI", "Zi", "z\u0131"} // one upper case: ZI
	other := []string{"z\u212a", "zj", "zii"}     // with k for i: Kelvin sign is its own upper case, so zK ≠ ZK
	s0 := same[g.Intn(len(same))]
	s1 := same[g.Intn(len(same))]
	s2 := same[g.Intn(len(same))]
	a0, a1, a2 := same[g.Intn(3)], same[g.Intn(3)], same[g.Intn(3)]
	k0 := []string{"zk", "ZK", "zK"}[g.Intn(3)]
	ot := other[g.Intn(len(other))]
	if ot != "z\u212a" {
		k0 = s0
	}
	cases := []tc{
		{"variable_block", "VAR " + a + " := 1;", "VAR " + b + " := 50; " + a + " := (" + a + " + 1); PRINT " + b + ";", "PRINT " + a + ";", "I50,I2"},
		{"variable_param", "VAR " + a + " := 0; DECLARE fzt FUNCTION (" + b + ") AS BEGIN " + a + " := (" + a + " + 1); RETURN (" + b + " + " + b + "); END;",
			"PRINT fzt(7);", "PRINT " + a + ";", "I14,I1"},
		{"variable_same_block", "VAR @q;", "VAR " + a + " := 1; VAR " + b + " := 2; PRINT (" + a + " + " + b + "); DISPOSE " + a + "; PRINT " + b + ";", "PRINT 0;", "I3,I2,I0"},
		{"cursor", "VAR @r; DECLARE c" + s0 + " CURSOR FOR SELECT 1 UNION ALL SELECT 2;", "OPEN c" + s1 + "; FETCH c" + s2 + " INTO @r; PRINT @r;",
			"FETCH c" + s0 + " INTO @r; PRINT @r; DISPOSE CURSOR c" + s1 + ";", "I1,I2"},
		{"function", "DECLARE f" + s0 + " FUNCTION (@x) AS BEGIN RETURN (@x + 1); END;", "PRINT f" + s1 + "(1);", "PRINT f" + s2 + "(2); DISPOSE FUNCTION f" + s1 + ";", "I2,I3"},
		// DELETE / UPDATE only with ASCII spellings: on a table declared or addressed with ı they match no record
		// (findings_inbox/dotless-i-table-dml); DECLARE / INSERT / SELECT / DISPOSE are checked with every spelling
		{"table", "VAR @r; DECLARE t" + a0 + " VIEW (c1);", "INSERT INTO t" + a1 + " VALUES (1), (2); SELECT COUNT(*) INTO @r FROM t" + a2 + "; PRINT @r;",
			"DELETE FROM t" + a2 + "; SELECT COUNT(*) INTO @r FROM t" + a0 + "; PRINT @r; DISPOSE VIEW t" + a1 + ";", "I2,I0"},
		{"table_unicode", "VAR @r; DECLARE t" + s0 + " VIEW (c1);", "INSERT INTO t" + s1 + " VALUES (1), (2); SELECT COUNT(*) INTO @r FROM t" + s2 + "; PRINT @r;",
			"DISPOSE VIEW t" + s1 + "; DECLARE t" + s2 + " VIEW (c1); SELECT COUNT(*) INTO @r FROM t" + s0 + "; PRINT @r;", "I2,I0"},
		{"statement", "PREPARE p" + s0 + " FROM 'PRINT 5;';", "EXECUTE p" + s1 + ";", "EXECUTE p" + s2 + "; DISPOSE PREPARE p" + s1 + ";", "I5,I5"},
	}
	c := cases[g.Intn(len(cases))]
	pr := newProc()
	body, kinds := wrap(g, indirect(g, o, c.body, &id), depth, &id)
	r := exec(pr, c.first+" "+body+" "+c.last)
	o.Count("law:twins_" + c.name)
	o.Count("law_wrap_innermost:" + kinds[0])
	if got := strings.Join(r.out, ","); r.code != 0 || got != c.want {
		report(o, "same_name_iff_same_key_"+c.name, lawCase{"same_name_iff_same_key_" + c.name, []string{c.first + " " + body + " " + c.last},
			fmt.Sprintf("%s %s", r.flow, got), "N " + c.want})
	}
	pr.Close()
	// a name with a different upper case does not reach the object
	type neg struct {
		name, sql string
		want      int
	}
	negs := []neg{
		{"cursor", "DECLARE c" + k0 + " CURSOR FOR SELECT 1; OPEN c" + ot + ";", query.ErrorUndeclaredCursor},
		{"function", "DECLARE f" + k0 + " FUNCTION () AS BEGIN RETURN 1; END; PRINT f" + ot + "();", query.ErrorFunctionNotExist},
		{"table", "DECLARE t" + k0 + " VIEW (c1); DISPOSE VIEW t" + ot + ";", query.ErrorUndeclaredTemporaryTable},
		{"statement", "PREPARE p" + k0 + " FROM 'PRINT 5;'; EXECUTE p" + ot + ";", query.ErrorStatementNotExist},
		{"variable", "VAR " + a + " := 1; PRINT " + b + ";", query.ErrorUndeclaredVariable},
	}
	ng := negs[g.Intn(len(negs))]
	pr = newProc()
	body, _ = wrap(g, ng.sql, 1+g.Intn(2), &id)
	r = exec(pr, body)
	o.Count("law:twins_other_" + ng.name)
	if r.code != ng.want {
		report(o, "different_key_different_"+ng.name, lawCase{"different_key_different_" + ng.name, []string{body}, r.flow, fmt.Sprintf("E%d", ng.want)})
	}
	pr.Close()
}

func lawsObjects(g *hc.Gen, o *hc.Out) {
	id := 0
	depth := 1 + g.Intn(maxDepth)
	type probe struct {
		name, decl, use string
		want            int
	}
	probes := []probe{
		{"var", "VAR @zz := 1; @zz := 2;", "PRINT @zz;", query.ErrorUndeclaredVariable},
		{"var", "VAR @zz := 1;", "@zz := 3;", query.ErrorUndeclaredVariable},
		{"var", "VAR @zz;", "DISPOSE @zz;", query.ErrorUndeclaredVariable},
		{"cursor", "DECLARE cz CURSOR FOR SELECT 1; OPEN cz;", "DISPOSE CURSOR cz;", query.ErrorUndeclaredCursor},
		{"cursor", "DECLARE cz CURSOR FOR SELECT 1;", "OPEN cz;", query.ErrorUndeclaredCursor},
		{"cursor", "DECLARE cz CURSOR FOR SELECT 1; OPEN cz;", "FETCH cz INTO @q;", query.ErrorUndeclaredCursor},
		{"table", "DECLARE tz VIEW (c1); INSERT INTO tz VALUES (1);", "DISPOSE VIEW tz;", query.ErrorUndeclaredTemporaryTable},
		{"table", "DECLARE tz VIEW (c1, c2);", "DISPOSE VIEW tz;", query.ErrorUndeclaredTemporaryTable},
		{"table", "DECLARE tz VIEW (c1) AS SELECT 1;", "SELECT c1 FROM tz;", query.ErrorFileNotExist},
		{"function", "DECLARE fz FUNCTION () AS BEGIN RETURN 1; END;", "PRINT fz();", query.ErrorFunctionNotExist},
		{"function", "DECLARE fz FUNCTION (@a) AS BEGIN RETURN @a; END; PRINT fz(1);", "DISPOSE FUNCTION fz;", query.ErrorFunctionNotExist},
		{"aggregate", "DECLARE az AGGREGATE (cur) AS BEGIN RETURN 1; END;", "DISPOSE FUNCTION az;", query.ErrorFunctionNotExist},
	}
	pb := probes[g.Intn(len(probes))]
	// 1. an object declared inside a block does not survive the block
	{
		pr := newProc()
		body, kinds := wrap(g, indirect(g, o, pb.decl, &id), depth, &id)
		r1 := exec(pr, "VAR @q; "+body)
		r2 := exec(pr, pb.use)
		o.Count("law:local_" + pb.name)
		o.Count("law_wrap_innermost:" + kinds[0])
		if r1.code != 0 || r2.code != pb.want {
			report(o, "decl_local_"+pb.name, lawCase{"decl_local_" + pb.name, []string{"VAR @q; " + body, pb.use},
				fmt.Sprintf("first=%s second=%s", r1.flow, r2.flow), fmt.Sprintf("first ok, second E%d", pb.want)})
		}
		pr.Close()
	}
	// 2. an inner object shadows the outer one of the same name (a) and leaves it as it was (b)
	type shadow struct {
		name, outer, inner, wantInner, check, wantOuter string
	}
	shadows := []shadow{
		{"var", "VAR @zz := 1;", "VAR @zz := 2; @zz := (@zz + 5); PRINT @zz;", "I7", "PRINT @zz;", "I1"},
		{"cursor", "VAR @r; DECLARE cz CURSOR FOR SELECT 1; OPEN cz;",
			"DECLARE cz CURSOR FOR SELECT 2 UNION ALL SELECT 3; OPEN cz; FETCH cz INTO @r; PRINT @r; FETCH cz INTO @r; PRINT @r;", "I2,I3",
			"FETCH cz INTO @r; PRINT @r;", "I1"},
		{"table", "VAR @r; DECLARE tz VIEW (c1); INSERT INTO tz VALUES (1);",
			"DECLARE tz VIEW (c1); INSERT INTO tz VALUES (2), (3); SELECT COUNT(*) INTO @r FROM tz; PRINT @r; UPDATE tz SET c1 = 9;", "I2",
			"SELECT COUNT(*) INTO @r FROM tz; PRINT @r; SELECT SUM(c1) INTO @r FROM tz; PRINT @r;", "I1,I1"},
		{"function", "DECLARE fz FUNCTION () AS BEGIN RETURN 1; END;",
			"DECLARE fz FUNCTION () AS BEGIN RETURN 2; END; PRINT fz();", "I2", "PRINT fz();", "I1"},
	}
	sh := shadows[g.Intn(len(shadows))]
	{
		pr := newProc()
		body, kinds := wrap(g, indirect(g, o, sh.inner, &id), depth, &id)
		o.Count("law_wrap_innermost:" + kinds[0])
		r0 := exec(pr, sh.outer)
		r1 := exec(pr, body)
		r2 := exec(pr, sh.check)
		o.Count("law:shadow_" + sh.name)
		sqls := []string{sh.outer, body, sh.check}
		if got := joinOr(r1.out, "-"); r0.code != 0 || r1.code != 0 || got != sh.wantInner {
			report(o, "inner_declaration_shadows_"+sh.name, lawCase{"inner_declaration_shadows_" + sh.name, sqls, r1.flow + " " + got, "N " + sh.wantInner})
		}
		if got := joinOr(r2.out, "-"); r2.code != 0 || got != sh.wantOuter {
			report(o, "shadow_preserves_outer_"+sh.name, lawCase{"shadow_preserves_outer_" + sh.name, sqls, r2.flow + " " + got, "N " + sh.wantOuter})
		}
		pr.Close()
	}
	// 3. an assignment to an outer variable made at any depth persists
	{
		pr := newProc()
		v := int64(g.Intn(1000))
		body, kinds := wrap(g, indirect(g, o, fmt.Sprintf("@zz := %d;", v), &id), depth, &id)
		o.Count("law_wrap_innermost:" + kinds[0])
		sql := "VAR @zz := -1; " + body + " PRINT @zz;"
		r := exec(pr, sql)
		o.Count("law:outer_assign")
		if got := joinOr(r.out, "-"); r.code != 0 || got != fmt.Sprintf("I%d", v) {
			report(o, "outer_assign_persists", lawCase{"outer_assign_persists", []string{sql}, r.flow + " " + got, fmt.Sprintf("I%d", v)})
		}
		pr.Close()
	}
	// 4. an object with state, declared in an INTERMEDIATE block (1..3 blocks below the session scope), changed from
	//    1..3 blocks further in (also through SOURCE / EXECUTE), read back in the declaring block after the inner
	//    blocks have ended: the change reached it
	type state struct {
		name, decl, change, read, want string
	}
	states := []state{
		{"table_insert", "DECLARE tz VIEW (c1); INSERT INTO tz VALUES (1);", "INSERT INTO tz VALUES (2), (3);",
			"SELECT COUNT(*) INTO @r FROM tz; PRINT @r;", "I3"},
		{"table_delete", "DECLARE tz VIEW (c1); INSERT INTO tz VALUES (1), (2), (3);", "DELETE FROM tz WHERE c1 < 3;",
			"SELECT COUNT(*) INTO @r FROM tz; PRINT @r;", "I1"},
		{"table_update", "DECLARE tz VIEW (c1); INSERT INTO tz VALUES (1), (2);", "UPDATE tz SET c1 = (c1 + 10);",
			"SELECT SUM(c1) INTO @r FROM tz; PRINT @r;", "I23"},
		{"table_replace", "DECLARE tz VIEW (c1, c2); INSERT INTO tz VALUES (1, 1), (2, 2);", "REPLACE INTO tz (c1, c2) USING (c1) VALUES (2, 20), (3, 30);",
			"SELECT SUM(c2) INTO @r FROM tz; PRINT @r;", "I51"},
		{"table_alter_add", "DECLARE tz VIEW (c1); INSERT INTO tz VALUES (1);", "ALTER TABLE tz ADD (c2);",
			"SELECT COUNT(*) INTO @r FROM tz WHERE c2 IS NULL; PRINT @r;", "I1"},
		{"table_alter_drop", "DECLARE tz VIEW (c1, c2); INSERT INTO tz VALUES (1, 2);", "ALTER TABLE tz DROP (c2);",
			"INSERT INTO tz VALUES (5); SELECT COUNT(*) INTO @r FROM tz; PRINT @r;", "I2"},
		{"table_alter_rename", "DECLARE tz VIEW (c1); INSERT INTO tz VALUES (4);", "ALTER TABLE tz RENAME c1 TO c9;",
			"SELECT SUM(c9) INTO @r FROM tz; PRINT @r;", "I4"},
		{"cursor_fetch", "DECLARE cz CURSOR FOR SELECT 1 UNION ALL SELECT 2 UNION ALL SELECT 3; OPEN cz;", "FETCH cz INTO @r;",
			"FETCH cz INTO @r; PRINT @r;", "I2"},
		{"cursor_open", "DECLARE cz CURSOR FOR SELECT 7;", "OPEN cz;", "FETCH cz INTO @r; PRINT @r;", "I7"},
		{"cursor_close", "DECLARE cz CURSOR FOR SELECT 7; OPEN cz; FETCH cz INTO @r;", "CLOSE cz;", "OPEN cz; FETCH cz INTO @r; PRINT @r;", "I7"},
		{"var", "VAR @zz := 1;", "@zz := (@zz + 6);", "PRINT @zz;", "I7"},
		{"function_dispose", "DECLARE fz FUNCTION () AS BEGIN RETURN 2; END;", "DISPOSE FUNCTION fz; DECLARE fz FUNCTION () AS BEGIN RETURN 3; END;",
			"DECLARE fz FUNCTION () AS BEGIN RETURN 4; END; PRINT fz();", "I4"},
	}
	stt := states[g.Intn(len(states))]
	{
		pr := newProc()
		inner, kinds := wrap(g, indirect(g, o, stt.change, &id), 1+g.Intn(3), &id)
		middle := stt.decl + " " + inner + " " + stt.read
		outer, okinds := wrap(g, middle, 1+g.Intn(3), &id)
		sql := "VAR @r; " + outer
		r := exec(pr, sql)
		o.Count("law:inner_change_" + stt.name)
		o.Count("law_change_from:" + kinds[len(kinds)-1] + "_in_" + okinds[0])
		if got := joinOr(r.out, "-"); r.code != 0 || got != stt.want {
			report(o, "inner_change_reaches_declaring_block_"+stt.name, lawCase{"inner_change_reaches_declaring_block_" + stt.name,
				[]string{sql}, r.flow + " " + got, "N " + stt.want})
		}
		pr.Close()
	}
	// 5. cursors: the innermost declaration of the name decides, whatever its state — a fetch from an inner cursor
	//    that is closed fails with "cursor is closed" and does not touch an open outer cursor of the same name
	type closedCase struct{ name, inner string }
	closedCases := []closedCase{
		{"never_opened", "DECLARE cz CURSOR FOR SELECT 7; FETCH cz INTO @r; PRINT @r;"},
		{"closed_again", "DECLARE cz CURSOR FOR SELECT 7 UNION ALL SELECT 8; OPEN cz; FETCH cz INTO @r; CLOSE cz; FETCH cz INTO @r; PRINT @r;"},
		{"while_in", "DECLARE cz CURSOR FOR SELECT 7; WHILE @r IN cz DO PRINT @r; END WHILE;"},
		{"recursive_invocation", "DECLARE rz FUNCTION (@n) AS BEGIN DECLARE cz CURSOR FOR SELECT 7 UNION ALL SELECT 8; " +
			"IF 0 < @n THEN OPEN cz; FETCH cz INTO @r; RETURN rz(@n - 1); END IF; FETCH cz INTO @r; PRINT @r; RETURN 0; END; VAR @q := rz(2);"},
	}
	cc := closedCases[g.Intn(len(closedCases))]
	{
		pr := newProc()
		body, kinds := wrap(g, indirect(g, o, cc.inner, &id), 1+g.Intn(3), &id)
		outer := "VAR @r; DECLARE cz CURSOR FOR SELECT 1 UNION ALL SELECT 2 UNION ALL SELECT 3; OPEN cz;"
		r0 := exec(pr, outer)
		r1 := exec(pr, body)
		r2 := exec(pr, "FETCH cz INTO @r; PRINT @r;")
		o.Count("law:innermost_cursor_" + cc.name)
		o.Count("law_wrap_innermost:" + kinds[0])
		got := fmt.Sprintf("%s %s / %s %s", r1.flow, joinOr(r1.out, "-"), r2.flow, joinOr(r2.out, "-"))
		if want := fmt.Sprintf("E%d - / N I1", query.ErrorCursorClosed); r0.code != 0 || got != want {
			report(o, "innermost_cursor_decides_"+cc.name, lawCase{"innermost_cursor_decides_" + cc.name,
				[]string{outer, body, "FETCH cz INTO @r; PRINT @r;"}, got, want})
		}
		pr.Close()
	}
}

// lawFileShadow: the outermost thing a temporary table can shadow is a FILE of the repository.  A function called from
// INSIDE a query over the file fs.csv declares its own temporary table fs (at a random depth of blocks in its body)
// and reads / changes it: every invocation sees its own table, and the file is byte-identical afterwards, also
// after COMMIT.
func lawFileShadow(g *hc.Gen, o *hc.Out, base string) {
	dir, err := os.MkdirTemp(base, "c15-files-")
	if err != nil {
		panic(err)
	}
	defer os.RemoveAll(dir)
	orig := []byte("c1\n1\n2\n")
	file := filepath.Join(dir, "fs.csv")
	if err := os.WriteFile(file, orig, 0o644); err != nil {
		panic(err)
	}
	type body struct{ name, sql, perRow string }
	bodies := []body{
		{"insert", "DECLARE fs VIEW (c1); INSERT INTO fs VALUES ((@x + 100)), ((@x + 200)); SELECT COUNT(*) INTO @r FROM fs;", "I2,I2"},
		{"update", "DECLARE fs VIEW (c1) AS SELECT 5; UPDATE fs SET c1 = (c1 + @x); SELECT SUM(c1) INTO @r FROM fs;", "I6,I7"},
		{"delete", "DECLARE fs VIEW (c1); INSERT INTO fs VALUES (1), (2), (3); DELETE FROM fs WHERE c1 < 3; SELECT COUNT(*) INTO @r FROM fs;", "I1,I1"},
		{"read", "DECLARE fs VIEW (c1) AS SELECT 9 UNION ALL SELECT 9 UNION ALL SELECT 9; SELECT COUNT(*) INTO @r FROM fs;", "I3,I3"},
	}
	bd := bodies[g.Intn(len(bodies))]
	id := 0
	inner, kinds := wrap(g, bd.sql, g.Intn(3), &id)
	fn := "DECLARE fz FUNCTION (@x) AS BEGIN VAR @r; " + inner + " RETURN @r; END; VAR @a; VAR @b; "
	var query, want, form string
	switch g.Intn(3) {
	case 0:
		form = "cursor_query"
		query = "DECLARE cz CURSOR FOR SELECT c1, fz(c1) FROM fs ORDER BY c1; OPEN cz; WHILE @a, @b IN cz DO PRINT @b; END WHILE;"
		want = bd.perRow
	case 1:
		form = "where"
		query = "SELECT COUNT(*) INTO @b FROM fs WHERE fz(c1) < 1000; PRINT @b;"
		want = "I2"
	default:
		form = "select_into"
		query = "SELECT fz(c1) INTO @b FROM fs WHERE c1 = 2; PRINT @b;"
		want = strings.Split(bd.perRow, ",")[1]
	}
	sql := fn + query + " COMMIT;"
	pr := hc.NewProc(dir)
	_ = pr.P.Tx.SetFlag(option.QuietFlag, true)
	r := exec(pr, sql)
	pr.Close()
	now, _ := os.ReadFile(file)
	o.Count("law:file_shadow_" + bd.name + "_" + form)
	if len(kinds) > 0 {
		o.Count("law_file_shadow_declared_in:" + kinds[0])
	}
	got := fmt.Sprintf("%s %s file=%q", r.flow, joinOr(r.out, "-"), string(now))
	if exp := fmt.Sprintf("N %s file=%q", want, string(orig)); got != exp {
		report(o, "local_table_shadows_file_"+bd.name, lawCase{"local_table_shadows_file_" + bd.name,
			[]string{"-- repository with fs.csv = " + strconv.Quote(string(orig)), sql}, got, exp})
	}
}

// lawAggregateCursor: every invocation of a user-defined aggregate has a pseudo cursor of its own — also with NOTHING
// to aggregate (empty selection, a call outside any query, a call from another function's body, inside another
// aggregate with the same cursor name) — and an open cursor of that name outside is neither read nor moved.
func lawAggregateCursor(g *hc.Gen, o *hc.Out) {
	id := 0
	decl := "DECLARE cnt AGGREGATE (list) AS BEGIN VAR @n := 0; VAR @v; WHILE @v IN list DO @n := (@n + 1); END WHILE; RETURN @n; END; " +
		"DECLARE outerfn FUNCTION () AS BEGIN RETURN cnt(1); END; " +
		"DECLARE nest AGGREGATE (list) AS BEGIN VAR @w; FETCH list INTO @w; RETURN ((cnt(1) * 100) + @w); END; " +
		"DECLARE tz VIEW (c1); INSERT INTO tz VALUES (1), (2), (3); VAR @r; VAR @x; "
	type cse struct{ name, use, want string }
	cases := []cse{
		{"empty_selection", "SELECT cnt(c1) INTO @r FROM tz WHERE c1 > 100; PRINT @r;", "I0"},
		{"outside_query", "PRINT cnt(1);", "I0"},
		{"from_function_body", "PRINT outerfn();", "I0"},
		{"full_selection", "SELECT cnt(c1) INTO @r FROM tz; PRINT @r;", "I3"},
		{"inside_aggregate_of_same_cursor_name", "SELECT nest(c1) INTO @r FROM tz; PRINT @r;", "I1"},
		{"empty_group_in_subquery", "PRINT (SELECT cnt(c1) FROM tz WHERE c1 < 0);", "I0"},
	}
	cs := cases[g.Intn(len(cases))]
	withOuter := g.Intn(3) > 0
	outer, tail, wantTail := "", "", ""
	if withOuter {
		outer = "DECLARE list CURSOR FOR SELECT c1 FROM tz ORDER BY c1; OPEN list; "
		tail = " FETCH list INTO @x; PRINT @x;"
		wantTail = ",I1"
	}
	body, kinds := wrap(g, indirect(g, o, cs.use, &id), g.Intn(3), &id)
	sql := decl + outer + body + tail
	pr := newProc()
	r := exec(pr, sql)
	pr.Close()
	o.Count("law:aggregate_cursor_" + cs.name)
	if len(kinds) > 0 {
		o.Count("law_wrap_innermost:" + kinds[0])
	}
	if got := r.flow + " " + joinOr(r.out, "-"); got != "N "+cs.want+wantTail {
		report(o, "aggregate_call_declares_own_cursor_"+cs.name, lawCase{"aggregate_call_declares_own_cursor_" + cs.name, []string{sql}, got, "N " + cs.want + wantTail})
	}
}

func globalVar(pr *hc.Proc, x int) string {
	v, err := pr.P.ReferenceScope.GetVariable(parser.Variable{Name: "v" + strconv.Itoa(x)})
	if err != nil {
		return "-"
	}
	return canonVal(v)
}

// random programs: an inner declaration of a name shadows the outer variable and does not change it
func lawShadowRandom(g *hc.Gen, o *hc.Out, pr *hc.Proc) {
	prePg, pre := genProgram(g, true, false)
	pg := newPgen(g)
	pg.budget = 10
	c := topCtx(true).child()
	x := g.Intn(poolVars)
	c.declared[x], c.visible[x] = true, true
	for _, s := range pre { // functions of the prefix are callable from the body
		if s.K == 'F' || s.K == 'G' {
			total, required := len(s.Params)-1, 0
			for i, pr := range s.Params[1:] {
				if pr.Dflt == nil {
					required = i + 1
				}
			}
			c.fns[s.X] = [2]int{required, total}
		}
	}
	pg.fns = append(pg.fns, prePg.fns...)
	body := pg.block(c, 1, 5)
	if pg.cost(append(append([]*Stmt{}, pre...), body...)) > 60000 {
		return
	}
	pr.P = query.NewProcessor(pr.P.Tx)
	preSQL := sqlProgram(pre)
	pp1, _ := preps()
	preSQL = tablePrelude + pp1 + preSQL
	r0 := exec(pr, preSQL)
	before := globalVar(pr, x)
	bodySQL := sqlProgram(body)
	pp2, _ := preps()
	blk := pp2 + "IF TRUE THEN VAR " + vname(x) + " := 77; " + bodySQL + "END IF;"
	r1 := exec(pr, blk)
	after := globalVar(pr, x)
	o.Count("law:shadow_random")
	if before != "-" {
		o.Count("law:shadow_random_outer_declared")
	}
	if r0.fatal || r1.fatal {
		report(o, "generator_syntax", lawCase{"generator_syntax", []string{preSQL, blk}, r0.flow + " " + r1.flow, "parses"})
		return
	}
	if r1.code == query.ErrorContextDone || r1.code == query.ErrorContextCanceled || r0.code == query.ErrorContextDone {
		o.Count("skipped_timeout")
		return
	}
	if before != after {
		report(o, "shadow_preserves_outer", lawCase{"shadow_preserves_outer", []string{preSQL, blk}, after, before})
	}
}

// appending a declaration at the very end of any inner block is invisible: nothing runs while it is in scope
func lawLateDecl(g *hc.Gen, o *hc.Out, pr *hc.Proc, prog []*Stmt, base result) {
	type site struct {
		list   *[]*Stmt
		params []Param // a function's parameters live in the block of its body
	}
	var sites []site
	var walk func(ss []*Stmt)
	walk = func(ss []*Stmt) {
		for _, s := range flat(ss) {
			for i := range s.Branches {
				sites = append(sites, site{&s.Branches[i].Body, nil})
				walk(s.Branches[i].Body)
			}
			if s.K == 'I' && len(s.Els) > 0 {
				sites = append(sites, site{&s.Els, nil})
				walk(s.Els)
			}
			if s.K == 'W' || s.K == 'F' || s.K == 'E' || s.K == 'G' {
				ps := s.Params
				if s.K == 'E' && s.Decl { // WHILE VAR @x IN …: @x lives in the block of the body
					ps = []Param{{X: s.X}}
				}
				sites = append(sites, site{&s.Body, ps})
				walk(s.Body)
			}
		}
	}
	walk(prog)
	if len(sites) == 0 {
		return
	}
	st := sites[g.Intn(len(sites))]
	declaredHere := map[int]bool{}
	for _, s := range flat(*st.list) {
		if s.K == 'D' {
			declaredHere[s.X] = true
		}
	}
	for _, pr := range st.params {
		declaredHere[pr.X] = true
	}
	var cand []int
	for x := 0; x < poolVars; x++ {
		if !declaredHere[x] {
			cand = append(cand, x)
		}
	}
	if len(cand) == 0 {
		return
	}
	x := cand[g.Intn(len(cand))]
	old := *st.list
	*st.list = append(append([]*Stmt{}, old...), &Stmt{K: 'D', X: x, E: lit(99)})
	sql := sqlProgram(prog)
	pp, _ := preps()
	*st.list = old
	pr.P = query.NewProcessor(pr.P.Tx)
	r := exec(pr, tablePrelude+pp+sql)
	o.Count("law:late_decl")
	if r.line() != base.line() {
		report(o, "late_shadow_invisible", lawCase{"late_shadow_invisible", []string{"(the program without the appended declaration)", tablePrelude + pp + sql}, r.line(), base.line()})
	}
}

// concurrent invocations (a SELECT evaluated by several goroutines) have their own parameters and locals
func lawConcurrent(g *hc.Gen, o *hc.Out) {
	pr := newProc()
	defer pr.Close()
	_ = pr.P.Tx.SetFlag(option.CPUFlag, int64(4))
	n := 400 + g.Intn(200)
	var vals []string
	for i := 0; i < n; i++ {
		vals = append(vals, fmt.Sprintf("(%d)", i))
	}
	k := int64(2 + g.Intn(5))
	setup := "DECLARE tz VIEW (c1); INSERT INTO tz VALUES " + strings.Join(vals, ", ") + ";" +
		fmt.Sprintf(" DECLARE fz FUNCTION (@p) AS BEGIN VAR @acc := 0; VAR @i := 0; WHILE (@i < %d) DO @i := (@i + 1); VAR @t := @p; @acc := (@acc + @t); END WHILE; IF (@p = 0) THEN RETURN @acc; END IF; RETURN (@acc + fz(0)); END;", k)
	r := exec(pr, setup)
	if r.code != 0 {
		report(o, "call_frames_independent_concurrent", lawCase{"call_frames_independent_concurrent", []string{setup}, r.flow, "setup runs"})
		return
	}
	view, err := pr.Query("SELECT c1, fz(c1) FROM tz")
	o.Count("law:concurrent")
	if err != nil {
		report(o, "call_frames_independent_concurrent", lawCase{"call_frames_independent_concurrent", []string{setup, "SELECT c1, fz(c1) FROM tz"}, err.Error(), "no error"})
		return
	}
	bad := 0
	for i := 0; i < view.RecordLen(); i++ {
		a := value.ToIntegerStrictly(view.RecordSet[i][0][0])
		b := value.ToIntegerStrictly(view.RecordSet[i][1][0])
		if value.IsNull(a) || value.IsNull(b) || b.(*value.Integer).Raw() != k*a.(*value.Integer).Raw() {
			bad++
		}
	}
	if bad > 0 || view.RecordLen() != n {
		report(o, "call_frames_independent_concurrent", lawCase{"call_frames_independent_concurrent", []string{setup, "SELECT c1, fz(c1) FROM tz"},
			fmt.Sprintf("%d of %d rows wrong", bad, view.RecordLen()), "every row k*c1"})
	}
}

// lawConcurrentOwnArgs: user-defined functions and aggregates invoked CONCURRENTLY (--cpu 4, several hundred rows /
// partitions) with arguments that differ from row to row: every invocation answers for ITS OWN arguments.  The
// bodies hand a parameter back (after some work in their own locals), so the expected value of a row is known.
func lawConcurrentOwnArgs(g *hc.Gen, o *hc.Out) {
	pr := newProc()
	defer pr.Close()
	_ = pr.P.Tx.SetFlag(option.CPUFlag, int64(4))
	n := 500 + g.Intn(300)
	var vals []string
	for i := 1; i <= n; i++ {
		vals = append(vals, fmt.Sprintf("(%d, %d)", i, i%7))
	}
	setup := "DECLARE tz VIEW (c1, c2); INSERT INTO tz VALUES " + strings.Join(vals, ", ") + ";" +
		" DECLARE idf FUNCTION (@p, @q DEFAULT 0) AS BEGIN VAR @i := 0; VAR @l := @p; WHILE (@i < 3) DO @i := (@i + 1); VAR @t := @l; @l := @t; END WHILE; RETURN (@l + @q); END;" +
		" DECLARE pick AGGREGATE (list, @a, @b DEFAULT 0) AS BEGIN VAR @n := 0; VAR @v; WHILE @v IN list DO @n := (@n + 1); END WHILE; VAR @keep := @a; RETURN (@keep + @b); END;" +
		" DECLARE cnt AGGREGATE (list, @a) AS BEGIN VAR @n := 0; VAR @v; WHILE @v IN list DO @n := (@n + 1); END WHILE; RETURN ((@n * 1000000) + @a); END;"
	r := exec(pr, setup)
	if r.code != 0 {
		report(o, "call_frames_independent_concurrent", lawCase{"call_frames_independent_concurrent", []string{setup}, r.flow, "setup runs"})
		return
	}
	type form struct{ name, sql string }
	forms := []form{
		{"analytic_aggregate", "SELECT c1, pick(c2, c1, 3) OVER (PARTITION BY c1) - 3 FROM tz"},
		{"analytic_aggregate_two_args", "SELECT c1, pick(c2, 1, c1) OVER (PARTITION BY c1) - 1 FROM tz"},
		{"analytic_aggregate_counting", "SELECT c1, cnt(c2, c1) OVER (PARTITION BY c1) - 1000000 FROM tz"},
		{"select_list", "SELECT c1, idf(c1) FROM tz"},
		{"select_list_two_args", "SELECT c1, idf(1, c1) - 1 FROM tz"},
		{"where", "SELECT c1, c1 FROM tz WHERE idf(c1) = c1 AND idf(c1, c1) = c1 * 2"},
		{"subquery_per_record", "SELECT c1, (SELECT idf(tz.c1)) FROM tz"},
		{"group_aggregate", "SELECT c1, pick(c2, c1) FROM tz GROUP BY c1"},
		{"nested_in_function", "SELECT c1, idf(idf(c1), idf(0)) FROM tz"},
	}
	for _, f := range forms {
		o.Count("law:concurrent_" + f.name)
		view, err := pr.Query(f.sql)
		if err != nil {
			report(o, "call_frames_independent_concurrent_"+f.name, lawCase{"call_frames_independent_concurrent_" + f.name, []string{setup[:200] + " …", f.sql}, err.Error(), "no error"})
			continue
		}
		bad, first := 0, ""
		for i := 0; i < view.RecordLen(); i++ {
			a := value.ToIntegerStrictly(view.RecordSet[i][0][0])
			b := value.ToIntegerStrictly(view.RecordSet[i][1][0])
			if value.IsNull(a) || value.IsNull(b) || b.(*value.Integer).Raw() != a.(*value.Integer).Raw() {
				bad++
				if first == "" {
					first = fmt.Sprintf("row c1=%s got %s", view.RecordSet[i][0][0].String(), view.RecordSet[i][1][0].String())
				}
			}
		}
		if bad > 0 || view.RecordLen() != n {
			report(o, "call_frames_independent_concurrent_"+f.name, lawCase{"call_frames_independent_concurrent_" + f.name,
				[]string{fmt.Sprintf("-- --cpu 4; tz (c1, c2) with the rows (i, i %% 7), i = 1..%d; ", n) + setup[strings.Index(setup, " DECLARE idf"):], f.sql},
				fmt.Sprintf("%d of %d rows wrong (%s)", bad, view.RecordLen(), first), fmt.Sprintf("%d rows, the second column equal to c1: every invocation answers for its own arguments", n)})
		}
	}
}

// blocks handed out by csvq's pool are empty and are not shared with each other or with a live scope
// (a block released while still in use, or released twice, would show up here after the many scopes opened above)
func lawPool(o *hc.Out, live *query.ReferenceScope, n int, history string) {
	seen := map[*query.SyncMap]bool{}
	for _, b := range live.Blocks {
		seen[b.Variables.SyncMap] = true
	}
	var got []query.BlockScope
	dirty, shared := 0, 0
	for i := 0; i < n; i++ {
		b := query.GetBlockScope()
		got = append(got, b)
		if b.Variables.Len() != 0 || b.Functions.Len() != 0 || b.Cursors.Len() != 0 || b.TemporaryTables.Len() != 0 {
			dirty++
		}
		if seen[b.Variables.SyncMap] {
			shared++
		}
		seen[b.Variables.SyncMap] = true
	}
	for _, b := range got {
		query.PutBlockScope(b)
	}
	o.Count("law:pool")
	if dirty > 0 || shared > 0 {
		report(o, "pool_no_alias", lawCase{"pool_no_alias", []string{history}, fmt.Sprintf("of %d blocks taken from the pool after this program: dirty=%d shared=%d", n, dirty, shared), "0 0"})
	}
}

// poolProbe: after every generated program, in the same session (so with whatever the program's scopes left in
// csvq's pool of blocks), a recursive function six invocations deep, each with a WHILE block and an IF block that
// re-declare the function's local: 19 scopes are live at once.  A block that the history released twice, or
// released while in use, is now handed to two of them, and the known trace changes (or "redeclared" is raised).
const probeSQL = `DECLARE pz FUNCTION (@n) AS BEGIN
  IF @n < 1 THEN RETURN 0; END IF;
  VAR @loc := (@n + 100); VAR @i := 0; VAR @acc := 0;
  WHILE @i < 2 DO
    @i := (@i + 1);
    VAR @loc := @i;
    IF TRUE THEN
      VAR @loc := 50;
      IF @i = 1 THEN @acc := (@acc + pz(@n - 1)); END IF;
      @loc := (@loc + 1);
    END IF;
    @acc := (@acc + @loc);
  END WHILE;
  PRINT @loc;
  RETURN (@acc + @n);
END;
PRINT pz(6);`

const probeWant = "I101,I102,I103,I104,I105,I106,I39"

var probeStmts []parser.Statement

func poolProbe(o *hc.Out, pr *hc.Proc, history string) {
	if probeStmts == nil {
		st, _, err := parser.Parse(probeSQL, "", false, pr.P.Tx.Flags.AnsiQuotes)
		if err != nil {
			panic(err)
		}
		probeStmts = st
	}
	keep := pr.P
	pr.P = query.NewProcessor(pr.P.Tx)
	pr.Stdout.Reset()
	_, err := pr.P.Execute(pr.Ctx, probeStmts)
	var out []string
	if txt := strings.TrimSuffix(pr.Stdout.String(), "\n"); txt != "" {
		for _, l := range strings.Split(txt, "\n") {
			out = append(out, canonLine(l))
		}
	}
	pr.P = keep
	o.Count("law:probe_after_history")
	if got := joinOr(out, "-"); err != nil || got != probeWant {
		report(o, "call_frames_independent_after_history", lawCase{"call_frames_independent_after_history",
			[]string{history, probeSQL}, fmt.Sprintf("E%d %s", errNumber(err), got), "E0 " + probeWant})
	}
}

// ---------------------------------------------------------------- the stream

// declaredNames strips the values from a canonical variable list
func declaredNames(vars string) string {
	var out []string
	for _, kv := range strings.Split(vars, ",") {
		out = append(out, strings.SplitN(kv, "=", 2)[0])
	}
	return strings.Join(out, ",")
}

func staticShadow(prog []*Stmt) bool {
	var walk func(ss []*Stmt, outer map[int]bool) bool
	walk = func(ss []*Stmt, outer map[int]bool) bool {
		here := map[int]bool{}
		for k := range outer {
			here[k] = true
		}
		ss = flat(ss)
		for _, s := range ss {
			if s.K == 'D' && s.X < poolVars {
				here[s.X] = true
			}
		}
		for _, s := range ss {
			lists := [][]*Stmt{s.Els, s.Body}
			for _, br := range s.Branches {
				lists = append(lists, br.Body)
			}
			for _, l := range lists {
				l = flat(l)
				for _, t := range l {
					if t.K == 'D' && t.X < poolVars && here[t.X] {
						return true
					}
				}
				if walk(l, here) {
					return true
				}
			}
		}
		return false
	}
	return walk(prog, map[int]bool{})
}

var debug = os.Getenv("C15_DEBUG") != ""

func runC15(seed int64, n int, dir string, _ []string) {
	g := hc.NewGen(seed)
	o := hc.NewOut(dir)
	defer o.Close()

	base := os.Getenv("VERIF_SCRATCH")
	d, err := os.MkdirTemp(base, "c15-source-")
	if err != nil {
		panic(err)
	}
	render.dir = d
	defer os.RemoveAll(d)

	repoDir, err := os.MkdirTemp(base, "c15-repo-")
	if err != nil {
		panic(err)
	}
	defer os.RemoveAll(repoDir)
	watch := newTxWatch(repoDir)
	shared := hc.NewProc(repoDir)
	_ = shared.P.Tx.SetFlag(option.QuietFlag, true)
	shared.P.Tx.AutoCommit = true
	defer shared.Close()
	lawConcurrent(g, o)
	lawConcurrentOwnArgs(g, o)
	for i := 0; i < n; i++ {
		wild := i%5 == 4
		pg, prog := genProgram(g, false, wild)
		// how this program spells its names; the final state is asked for every name it mentions
		spell = newSpelling(g)
		curTable = nameTable(prog)
		names := encNames(curTable)
		if spell != nil {
			o.Count("twin_spelling")
		}
		sql := sqlProgram(prog)
		pp, npp := preps()
		// the transaction outcome is watched (a file table is changed in front of the program) for every program
		// that contains an EXIT and for every third other one: a commit costs a file write
		watched := i%3 == 0 || pg.kinds['Q'] > 0
		full := tablePrelude + pp + sql
		skip := preludeStmts + npp
		if watched {
			full = tablePrelude + filePrelude + pp + sql
			skip++
		}
		if debug {
			fmt.Fprintf(os.Stderr, "%d cost=%d %s\n", i, pg.cost(prog), sql)
		}
		// one session for all generated programs, a new Processor (new global scope, taken from csvq's pool of
		// blocks like every other scope) per program
		shared.P = query.NewProcessor(shared.P.Tx)
		var r result
		if wild {
			r = execPatched(shared, full, prog, skip)
			o.Count("wild_programs")
		} else {
			r = exec(shared, full)
		}
		if r.fatal {
			report(o, "generator_syntax", lawCase{"generator_syntax", []string{full}, r.flow, "parses"})
			spell, curTable = nil, nil
			continue
		}
		committed := watch.outcome(shared) // before anything else runs in this session: a normal end would commit
		// what the history left in the pool of blocks
		poolProbe(o, shared, full)
		lawPool(o, shared.P.ReferenceScope, 48, full)
		if r.code == query.ErrorContextDone || r.code == query.ErrorContextCanceled {
			o.Count("skipped_timeout")
			spell, curTable = nil, nil
			continue
		}
		if watched {
			o.Case("c15.runktx "+strconv.Itoa(fuel)+" "+names+" "+encProgram(prog), r.line()+" | "+committed)
			o.Count("tx:" + committed + "_after_" + r.flow[:1])
		} else {
			o.Case("c15.runk "+strconv.Itoa(fuel)+" "+names+" "+encProgram(prog), r.line())
		}
		if r.nblk != 1 {
			report(o, "block_stack_balanced", lawCase{"block_stack_balanced", []string{sql}, strconv.Itoa(r.nblk), "1"})
		}
		// distribution
		if strings.HasPrefix(r.flow, "R") {
			o.Count("flow:R")
		} else {
			o.Count("flow:" + r.flow)
		}
		o.Count(fmt.Sprintf("depth:%d", pg.maxDepth))
		np := len(r.out)
		if np > 8 {
			np = 8
		}
		o.Count(fmt.Sprintf("prints:%d", np))
		var ks []string
		for k, c := range pg.kinds {
			o.Stats["stmt:"+string(k)] += c
			ks = append(ks, string(k))
		}
		sort.Strings(ks)
		sh := staticShadow(prog)
		if sh {
			o.Count("static_shadowing")
		}
		if (len(r.out) > 0 || r.flow != "N") && (pg.kinds['I']+pg.kinds['W']+pg.kinds['F'] > 0) {
			o.NonTrivial(fmt.Sprintf("%s|%s|d%d|p%d|%v|%s", strings.Join(ks, ""), r.flow, pg.maxDepth, np, sh, declaredNames(r.vars)))
		}

		if wild {
			spell, curTable = nil, nil
			continue
		}
		if i%4 == 0 {
			lawLateDecl(g, o, shared, prog, r) // the same program once more: same spelling, same names reported
		}
		spell, curTable = nil, nil
		if i%4 == 1 {
			lawShadowRandom(g, o, shared)
		}
		if i%8 == 2 {
			lawsObjects(g, o)
		}
		if i%16 == 6 {
			lawFileShadow(g, o, base)
		}
		if i%16 == 14 {
			lawAggregateCursor(g, o)
		}
		if i%16 == 10 {
			lawTwins(g, o)
		}
		if i%4000 == 1999 {
			lawConcurrentOwnArgs(g, o)
		}

	}
	lawPool(o, shared.P.ReferenceScope, 256, "(end of the run)")
	if os.Getenv("VERIF_TIER") == "thorough" {
		for i := 0; i < 5; i++ {
			lawConcurrent(g, o)
		}
	}
}

func main() { hc.Main(runC15) }
