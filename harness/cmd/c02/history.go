package main

// Histories inside ONE transaction: a COMMIT that is refused because of an unspellable cell, then the
// cell repaired and the table made shorter, then COMMIT again.  The table is larger than the 4 KiB
// buffer of the go-text writers, so that the refused attempt had already handed bytes to the update
// handler's temporary file.  The committed bytes must be those of a control run that never had the
// refused attempt, and the refused COMMIT must leave the file as it was.
//
// Laws:  commit_history:<fmt>:refused_commit_changed_file
//        commit_history:<fmt>:not_refused
//        commit_history:<fmt>:second_commit_failed
//        commit_history:<fmt>:differs_from_control

import (
	"bytes"
	"encoding/hex"
	"fmt"
	"os"
	"path/filepath"

	"github.com/mithrandie/csvq/lib/option"
	"github.com/mithrandie/csvq/lib/value"
	"github.com/mithrandie/go-text"

	"verifharness/hc"
)

type historyKind struct {
	f    option.Format
	name string
	enc  text.Encoding
	bad  string // the unspellable text
}

var historyKinds = []historyKind{
	{option.LTSV, "ltsv_tab", text.UTF8, "p\tq"},
	{option.FIXED, "fixed_overflow", text.UTF8, "much-too-long-for-its-column"},
	{option.CSV, "csv_sjis", text.SJIS, "é"},
	{option.TSV, "tsv_sjis", text.SJIS, "é"},
}

func tailHex(b []byte) string {
	if len(b) > 160 {
		b = b[len(b)-160:]
	}
	return hex.EncodeToString(b)
}

// historyRun: nr records, the unspellable cell goes into record `badRec`, the repair deletes all
// records from `keep` on
func historyRun(o *hc.Out, dir string, hk historyKind, nr, badRec, keep int, lb text.LineBreak, tag string) {
	name := fmtName(hk.f)
	t := &table{header: []string{"k", "v", "w"}, rows: make([][]cell, nr)}
	words := []string{"a", "bc", "Q", "x_y", "v1", "7"}
	for i := range t.rows {
		t.rows[i] = []cell{cS(fmt.Sprintf("r%04d", i)), cS(words[i%len(words)]), cS(words[(i/7)%len(words)])}
	}
	d := baseOpts(hk.f)
	d.enc, d.lb = hk.enc, lb
	if hk.f == option.FIXED {
		d.positions = []int{6, 10, 14}
	}
	body, err := realEncode(t, d)
	must(err)
	end, err := text.Encode([]byte(d.lb.Value()), d.enc)
	must(err)
	orig := append(append([]byte{}, body...), end...)
	fname := "h" + fmtExt(hk.f)
	badLit := option.QuoteString(hk.bad)
	refused := fmt.Sprintf("UPDATE %s SET v = %s WHERE k = 'r%04d'; COMMIT;", option.QuoteIdentifier(fname), badLit, badRec)
	repair := fmt.Sprintf("UPDATE %s SET v = 'ok' WHERE k = 'r%04d'; DELETE FROM %s WHERE k >= 'r%04d'; COMMIT;",
		option.QuoteIdentifier(fname), badRec, option.QuoteIdentifier(fname), keep)
	replay := func(extra map[string]interface{}) map[string]interface{} {
		m := map[string]interface{}{"format": name, "kind": hk.name, "records": nr, "unspellable_in_record": badRec, "records_kept": keep,
			"dialect": d.sig(), "file_bytes": len(orig), "statements": []string{refused, repair}}
		if tag != "" {
			m["corpus"] = tag
		}
		for k, v := range extra {
			m[k] = v
		}
		return m
	}
	run := func(sub string, withRefusal bool) ([]byte, string) {
		wd := filepath.Join(dir, sub)
		must(os.MkdirAll(wd, 0o755))
		defer os.RemoveAll(wd)
		path := filepath.Join(wd, fname)
		must(os.WriteFile(path, orig, 0o644))
		p := importProc(wd, d, d.enc)
		defer p.Close()
		_ = p.P.Tx.SetFlag(option.QuietFlag, true)
		if withRefusal {
			_, e := p.Exec(refused)
			now, _ := os.ReadFile(path)
			if e == nil {
				return now, "not_refused"
			}
			if !bytes.Equal(now, orig) {
				return now, "refused_commit_changed_file"
			}
		}
		if _, e := p.Exec(repair); e != nil {
			return nil, "second_commit_failed: " + firstLine(e.Error())
		}
		p.Close()
		b, _ := os.ReadFile(path)
		return b, ""
	}
	a, fa := run("history", true)
	c, fc := run("control", false)
	o.Count("history:" + hk.name + ":" + lbName(lb))
	o.Case("c02.nop", "ok")
	o.NonTrivial(fmt.Sprintf("history|%s|%d|%d|%d|%s", hk.name, nr/50, badRec*10/nr, keep/10, lbName(lb)))
	switch {
	case fc != "":
		lawFail(o, "commit_history:"+name+":control_failed", replay(map[string]interface{}{"failure": fc}))
	case fa == "not_refused" || fa == "refused_commit_changed_file":
		lawFail(o, "commit_history:"+name+":"+fa, replay(map[string]interface{}{"file_tail_hex": tailHex(a)}))
	case fa != "":
		lawFail(o, "commit_history:"+name+":second_commit_failed", replay(map[string]interface{}{"failure": fa}))
	case !bytes.Equal(a, c):
		lawFail(o, "commit_history:"+name+":differs_from_control", replay(map[string]interface{}{
			"committed_bytes": len(a), "control_bytes": len(c), "committed_tail_hex": tailHex(a), "control_tail_hex": tailHex(c)}))
	default:
		if tag != "" {
			o.Count("corpus:" + tag + ":same_as_control")
		}
	}
}

func historyCase(g *hc.Gen, o *hc.Out, dir string) {
	hk := historyKinds[g.Intn(len(historyKinds))]
	nr := 520 + g.Intn(300)
	badRec := nr - 1 - g.Intn(nr/5) // late: more than 4 KiB of records precede it
	keep := 1 + g.Intn(60)
	if keep > badRec {
		keep = badRec
	}
	// the repaired record must survive the DELETE only if it is below `keep`; either way is fine
	lb := []text.LineBreak{text.LF, text.CRLF}[g.Intn(2)]
	historyRun(o, dir, hk, nr, badRec, keep, lb, "")
}

var _ = value.NewNull
