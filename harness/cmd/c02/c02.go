// Stream binary for property C02 (what csvq writes reads back as the same table).
//
// One run produces four streams:
//
//	enc  model-encode = real-encode: query.EncodeView on a constructed View, bytes compared with the Lean writer model
//	dec  model-decode = real-decode on ARBITRARY bytes through the real loader (SELECT * FROM file), plus
//	     rectangularity of the real result
//	rt   the write-then-read law on the real code alone, all six formats / encodings / line breaks / options
//	dia  an UPDATE + COMMIT through the real processor keeps the dialect of the file
package main

import (
	"bytes"
	"context"
	"encoding/hex"
	"fmt"
	"os"
	"path/filepath"
	"strconv"
	"strings"

	"github.com/mithrandie/csvq/lib/option"
	"github.com/mithrandie/csvq/lib/query"
	"github.com/mithrandie/csvq/lib/value"
	"github.com/mithrandie/go-text"
	txjson "github.com/mithrandie/go-text/json"

	"verifharness/hc"
)

var ctx = context.Background()
var scratch string
var palProc *hc.Proc

func hx(s string) string { return hex.EncodeToString([]byte(s)) }

// hexTok: a hex token that is never the empty string
func hexTok(b []byte) string {
	if len(b) == 0 {
		return "-"
	}
	return hex.EncodeToString(b)
}

// law records a failed law; at most lawCap full records per law name (the rest are only counted),
// so that every distinct law name reaches the orchestrator
const lawCap = 1

var lawSeen = map[string]int{}

func lawFail(o *hc.Out, name string, replay interface{}) {
	lawSeen[name]++
	if lawSeen[name] <= lawCap {
		o.Law(name, replay)
	} else {
		o.Count("law_fail:" + name)
	}
}

// ---------- real encode / real load ----------

func realEncode(t *table, o opts) ([]byte, error) {
	var buf bytes.Buffer
	_, err := query.EncodeView(ctx, &buf, t.view(), o.export(), palProc.P.Tx.Palette)
	return buf.Bytes(), err
}

func encName(e text.Encoding) string { return text.EncodingLiteral[e] }

func posString(p []int, single bool) string {
	if p == nil {
		return "SPACES"
	}
	s := make([]string, len(p))
	for i, v := range p {
		s[i] = strconv.Itoa(v)
	}
	r := "[" + strings.Join(s, ", ") + "]"
	if single {
		r = "S" + r
	}
	return r
}

func must(err error) {
	if err != nil {
		panic(err)
	}
}

// importProc: a fresh processor whose import flags are o (set the way cli/app.go sets them)
func importProc(dir string, o opts, enc text.Encoding) *hc.Proc {
	p := hc.NewProc(dir)
	tx := p.P.Tx
	must(tx.SetFlag(option.ImportFormatFlag, strings.ToUpper(fmtName(o.format))))
	must(tx.SetFlag(option.DelimiterFlag, string(o.delim)))
	must(tx.SetFlag(option.EncodingFlag, encName(enc)))
	must(tx.SetFlag(option.NoHeaderFlag, o.withoutHeader))
	must(tx.SetFlag(option.WithoutNullFlag, o.withoutNull))
	must(tx.SetFlag(option.AllowUnevenFieldsFlag, o.allowUneven))
	if o.format == option.FIXED {
		must(tx.SetFlag(option.DelimiterPositionsFlag, posString(o.positions, o.singleLine)))
	}
	return p
}

func realLoad(dir, name string, data []byte, o opts, enc text.Encoding, unsetLB bool) (*query.View, error) {
	path := filepath.Join(dir, name)
	must(os.WriteFile(path, data, 0o644))
	p := importProc(dir, o, enc)
	defer p.Close()
	if unsetLB {
		p.P.Tx.Flags.ExportOptions.LineBreak = "" // so that FileInfo.LineBreak shows what the reader detected
	}
	// SELECT 1 (not *) so that duplicate column names, legal in a file, are not a query error;
	// the loaded table is the view the transaction has cached for the file
	if _, err := p.Query("SELECT 1 FROM " + option.QuoteIdentifier(name)); err != nil {
		return nil, err
	}
	abs, err := filepath.Abs(path)
	must(err)
	return p.P.Tx.CachedViews.Get(strings.ToUpper(abs))
}

func isFatal(err error) bool {
	if _, ok := err.(*query.FatalError); ok {
		return true
	}
	return err != nil && hc.ErrCode(err) == -1
}

// ---------- op lines ----------

func cellTok(c cell) string {
	if c.kind == 'N' {
		return "N"
	}
	return string(c.kind) + hx(c.text)
}

func tableToks(t *table, withAlign bool) string {
	var sb strings.Builder
	fmt.Fprintf(&sb, "%d %d", len(t.header), len(t.rows))
	for _, h := range t.header {
		sb.WriteString(" S" + hx(h))
	}
	for _, r := range t.rows {
		for _, c := range r {
			sb.WriteByte(' ')
			if withAlign {
				sb.WriteByte(c.al)
			}
			sb.WriteString(cellTok(c))
		}
	}
	return sb.String()
}

func showD(d *dtable, dlb string) string {
	hs := make([]string, len(d.header))
	for i, h := range d.header {
		hs[i] = "S" + hx(h)
	}
	parts := []string{fmt.Sprintf("T %d %d %s", len(d.header), len(d.rows), dlb), strings.Join(hs, " ")}
	for _, r := range d.rows {
		cs := make([]string, len(r))
		for j, c := range r {
			if c.null {
				cs[j] = "N"
			} else {
				cs[j] = "S" + hx(c.text)
			}
		}
		parts = append(parts, strings.Join(cs, " "))
	}
	return strings.Join(parts, " | ")
}

func textClasses(t *table) string {
	cl := map[string]bool{}
	mark := func(s string) {
		if s == "" {
			cl["empty"] = true
		}
		for _, r := range s {
			switch {
			case r == '"':
				cl["quote"] = true
			case r == '\r' || r == '\n':
				cl["break"] = true
			case r == ',' || r == ';' || r == '|' || r == '\t':
				cl["delim"] = true
			case r == ':':
				cl["colon"] = true
			case r == ' ':
				cl["space"] = true
			case r == '\\':
				cl["bslash"] = true
			case r > 0xffff:
				cl["astral"] = true
			case r > 0x7f:
				cl["nonascii"] = true
			case r < 0x20 || r == 0x7f:
				cl["ctrl"] = true
			}
		}
	}
	for _, h := range t.header {
		mark(h)
	}
	for _, r := range t.rows {
		for _, c := range r {
			if c.kind == 'N' {
				cl["null"] = true
			}
			mark(c.text)
		}
	}
	ks := make([]string, 0, len(cl))
	for _, k := range []string{"empty", "null", "quote", "break", "delim", "colon", "space", "bslash", "nonascii", "astral", "ctrl"} {
		if cl[k] {
			ks = append(ks, k)
		}
	}
	return strings.Join(ks, "+")
}

func dimClass(t *table) string {
	r := len(t.rows)
	switch {
	case r == 0:
		return fmt.Sprintf("%dx0", len(t.header))
	case r == 1:
		return fmt.Sprintf("%dx1", len(t.header))
	case r <= 8:
		return fmt.Sprintf("%dxfew", len(t.header))
	}
	return fmt.Sprintf("%dxmany", len(t.header))
}

// does the pinned writer quote a field that contains a line break?  (the Lean writer model has
// both rules; the op line says which one the code under test implements)
var quoteLB bool

// the rule the cited theorem (csv_roundtrip) is about, and the one the model writer is run with:
// since /repo 3f80460 a field containing CR or LF is quoted.  If the real writer stops doing so the
// probe reports it as a law failure and the enc stream shows model/implementation differences.
const claimedQuoteLB = true

func probeQuoteLB() bool {
	t := &table{header: []string{"a", "b"}, rows: [][]cell{{mkCell(value.NewString("x\ny")), mkCell(value.NewString("r\rs"))}}}
	b, err := realEncode(t, opts{format: option.CSV, delim: ',', lb: text.LF, enc: text.UTF8})
	return err == nil && string(b) == "a,b\n\"x\ny\",\"r\rs\""
}

// ---------- stream enc ----------

func encCase(g *hc.Gen, o *hc.Out) {
	f := encFormats[g.Intn(len(encFormats))]
	op := genOpts(g, f)
	op.enc = text.UTF8
	r := genRisk(g)
	t := genTable(g, r, f != option.CSV && f != option.TSV && g.Intn(4) != 0, 50)
	if !validText(t) {
		return
	}
	var line string
	switch f {
	case option.CSV, option.TSV:
		line = fmt.Sprintf("c02.enc csv %d %s %s %s %s %s", op.delim, lbName(op.lb), b01(op.encloseAll), b01(op.withoutHeader), b01(claimedQuoteLB), tableToks(t, false))
	case option.LTSV:
		line = fmt.Sprintf("c02.enc ltsv %s %s", lbName(op.lb), tableToks(t, false))
	case option.FIXED:
		if g.Intn(2) == 0 {
			op.positions = genPositions(g, t, op)
			line = fmt.Sprintf("c02.encp fixed %s %s %s %s", lbName(op.lb), b01(op.withoutHeader), posToks(op.positions), tableToks(t, true))
		} else {
			line = fmt.Sprintf("c02.enc fixed %s %s %s", lbName(op.lb), b01(op.withoutHeader), tableToks(t, true))
		}
	}
	b, err := realEncode(t, op)
	impl := "E"
	if err == nil {
		impl = hexTok(b)
	} else if len(b) > 0 {
		_, why := refusalExpected(t, op, false)
		lawFail(o, "refuse:"+fmtName(f)+":"+partialOutputLaw(t, op, why, b), map[string]interface{}{"op": line, "sink": "EncodeView into a buffer", "emitted_bytes": len(b), "emitted_hex": clipHex(b), "error": err.Error()})
	}
	o.Case(line, impl)
	o.Count("enc:" + fmtName(f))
	if err != nil {
		o.Count("enc:" + fmtName(f) + ":refused")
	}
	o.NonTrivial("enc|" + op.sig() + "|" + textClasses(t) + "|" + dimClass(t) + "|" + b01(err != nil))
}

var encFormats = []option.Format{option.CSV, option.CSV, option.TSV, option.LTSV, option.FIXED}
var decFormats = []option.Format{option.CSV, option.CSV, option.TSV, option.LTSV, option.FIXED}

func posToks(p []int) string {
	s := make([]string, 0, len(p)+1)
	s = append(s, strconv.Itoa(len(p)))
	for _, v := range p {
		s = append(s, strconv.Itoa(v))
	}
	return strings.Join(s, " ")
}

// genPositions: explicit delimiter positions from the measured widths plus slack (sometimes too
// narrow, rarely not increasing)
func genPositions(g *hc.Gen, t *table, op opts) []int {
	start := 0
	var ps []int
	for j := range t.header {
		w := 1
		if !op.withoutHeader {
			w = max(w, text.ByteSize(t.header[j], op.enc))
		}
		for _, row := range t.rows {
			w = max(w, text.ByteSize(row[j].text, op.enc))
		}
		w += g.Intn(3)
		if g.Intn(25) == 0 && w > 1 {
			w--
		}
		if g.Intn(60) == 0 {
			w = 0
		}
		start += w
		ps = append(ps, start)
	}
	return ps
}

// ---------- stream dec ----------

var soup = []string{"a", "b", "1", ",", ",", "\"", "\"", "\"\"", "\r", "\n", "\n", "\r\n", "\t", " ", ":", ";", "é", "\xff", "x:1", "\t", "k:", "日"}

func mutate(g *hc.Gen, b []byte) []byte {
	n := 1 + g.Intn(3)
	for k := 0; k < n; k++ {
		switch g.Intn(5) {
		case 0: // delete
			if len(b) > 0 {
				i := g.Intn(len(b))
				b = append(append([]byte{}, b[:i]...), b[i+1:]...)
			}
		case 1, 2: // insert
			i := g.Intn(len(b) + 1)
			ins := soup[g.Intn(len(soup))]
			b = append(append(append([]byte{}, b[:i]...), ins...), b[i:]...)
		case 3: // truncate
			if len(b) > 0 {
				b = b[:g.Intn(len(b)+1)]
			}
		case 4: // duplicate a slice
			if len(b) > 1 {
				i := g.Intn(len(b))
				j := i + g.Intn(len(b)-i)
				b = append(append(append([]byte{}, b[:j]...), b[i:j]...), b[j:]...)
			}
		}
	}
	return b
}

func decCase(g *hc.Gen, o *hc.Out, dir string) {
	f := decFormats[g.Intn(len(decFormats))]
	op := genOpts(g, f)
	op.enc = text.UTF8
	var data []byte
	src := ""
	switch g.Intn(4) {
	case 0: // soup
		n := g.Intn(14)
		for i := 0; i < n; i++ {
			data = append(data, soup[g.Intn(len(soup))]...)
		}
		src = "soup"
		if f == option.FIXED {
			p := 0
			for k := 1 + g.Intn(3); k > 0; k-- {
				p += g.Intn(4)
				if g.Intn(10) != 0 {
					p++
				}
				op.positions = append(op.positions, p)
			}
		}
	default:
		rk := genRisk(g)
		if f == option.LTSV && g.Intn(3) != 0 {
			rk = risk{delims: g.Intn(3) == 0}
		}
		t := genTable(g, rk, f != option.CSV && f != option.TSV, 6)
		big := g.Intn(25) == 0
		if big {
			// the size band: more records than the loader's prepared capacity
			op = bigOpts(g, f)
			t = genBigTable(g, genBigRows(g))
		}
		if f == option.FIXED {
			op.positions = genPositions(g, t, op)
			if g.Intn(8) == 0 && len(op.positions) > 1 {
				op.positions = op.positions[:len(op.positions)-1]
			}
		}
		wo := op
		if g.Intn(5) == 0 {
			wo = genOpts(g, f) // written under other settings than it is read with
			wo.positions = op.positions
			if g.Intn(2) == 0 {
				wo.positions = nil
			}
		}
		wo.enc = text.UTF8
		b, err := realEncode(t, wo)
		if err != nil {
			b = nil
		}
		data = b
		src = "encoded"
		if g.Intn(3) != 0 {
			data = append(data, wo.lb.Value()...)
		}
		if big {
			src = "big"
		} else if g.Intn(2) == 0 {
			data = mutate(g, data)
			src = "mutated"
		}
	}
	// transcoding is a parameter of the model: the real detector + decoder produce the text
	enc, err := text.DetectInSpecifiedEncoding(bytes.NewReader(data), text.UTF8)
	must(err)
	txt, err := text.Decode(data, enc)
	must(err)
	var line string
	switch f {
	case option.CSV, option.TSV:
		line = fmt.Sprintf("c02.dec csv %d %s %s %s %s", op.delim, b01(op.withoutHeader), b01(op.withoutNull), b01(op.allowUneven), hexTok(txt))
	case option.LTSV:
		line = fmt.Sprintf("c02.dec ltsv %s %s", b01(op.withoutNull), hexTok(txt))
	case option.FIXED:
		line = fmt.Sprintf("c02.dec fixed %s %s %s %s", b01(op.withoutHeader), b01(op.withoutNull), posToks(op.positions), hexTok(txt))
	}
	v, lerr := realLoad(dir, "d"+fmtExt(f), data, op, text.UTF8, true)
	impl := "E"
	kind := "error"
	if lerr == nil {
		d := fromView(v)
		impl = showD(d, lbName(v.FileInfo.LineBreak))
		kind = "ok"
		for _, r := range d.rows {
			if len(r) != len(d.header) {
				lawFail(o, "rectangular:"+fmtName(f), map[string]interface{}{"op": line, "loaded": d.String()})
				break
			}
		}
		if len(d.rows) == 0 {
			kind = "ok-empty"
		}
	} else if isFatal(lerr) {
		lawFail(o, "decode:"+fmtName(f)+":fatal", map[string]interface{}{"op": line, "error": firstLine(lerr.Error())})
		kind = "fatal"
	}
	o.Case(line, impl)
	o.Count("dec:" + fmtName(f) + ":" + src + ":" + kind)
	o.NonTrivial(fmt.Sprintf("dec|%s|%s|%s|%d|%x", op.sig(), src, kind, len(data)/8, fnv(data)))
}

func firstLine(s string) string {
	if i := strings.IndexByte(s, '\n'); i >= 0 {
		return s[:i]
	}
	return s
}

func fnv(b []byte) uint32 {
	h := uint32(2166136261)
	for _, c := range b {
		h = (h ^ uint32(c)) * 16777619
	}
	return h
}

// ---------- stream rt: write, then read, on the real code ----------

var rtFormats = []option.Format{option.CSV, option.CSV, option.CSV, option.TSV, option.LTSV, option.LTSV, option.FIXED, option.FIXED, option.JSON, option.JSONL}
var rtEncodings = []text.Encoding{text.UTF8, text.UTF8, text.UTF8, text.UTF8M, text.UTF16, text.UTF16BEM, text.UTF16LEM, text.UTF16LE, text.SJIS}

func sqlLit(p value.Primary) (string, bool) {
	switch v := p.(type) {
	case *value.Null:
		return "NULL", true
	case *value.Integer:
		if v.Raw() < 0 {
			if v.Raw() == -v.Raw() {
				return "", false
			}
			return fmt.Sprintf("(-%d)", -v.Raw()), true
		}
		return fmt.Sprintf("%d", v.Raw()), true
	case *value.Float:
		f := v.Raw()
		s := strconv.FormatFloat(f, 'f', -1, 64)
		if !strings.Contains(s, ".") {
			s += ".0"
		}
		if f < 0 {
			return "(" + s + ")", true
		}
		return s, true
	case *value.String:
		if strings.ContainsRune(v.Raw(), 0) {
			return "", false
		}
		return option.QuoteString(v.Raw()), true
	case *value.Boolean:
		if v.Raw() {
			return "BOOLEAN(TRUE)", true
		}
		return "BOOLEAN(FALSE)", true
	case *value.Ternary:
		return strings.ToUpper(v.Ternary().String()), true
	case *value.Datetime:
		return "DATETIME('" + v.Raw().UTC().Format("2006-01-02T15:04:05.999999999Z07:00") + "')", true
	}
	return "", false
}

// writeViaProc: what `csvq --out FILE` writes for SELECT * FROM <the table>: flags set the CLI way,
// the table built by DECLARE VIEW + INSERT, the result written by the processor itself (including
// the ending line break).  ok=false when the table cannot be built through SQL text.
func writeViaProc(dir string, t *table, o opts) (data []byte, err error, ok bool) {
	return writeViaProcSink(dir, t, o, false)
}

// writeViaProcSink: toStdout = no --out file, the result goes to the session's stdout
func writeViaProcSink(dir string, t *table, o opts, toStdout bool) (data []byte, err error, ok bool) {
	var sb strings.Builder
	hs := make([]string, len(t.header))
	for i, h := range t.header {
		if h == "" || strings.ContainsRune(h, 0) {
			return nil, nil, false
		}
		hs[i] = option.QuoteIdentifier(h)
	}
	fmt.Fprintf(&sb, "DECLARE t VIEW (%s);", strings.Join(hs, ", "))
	if len(t.rows) > 0 {
		sb.WriteString("INSERT INTO t VALUES ")
		for i, r := range t.rows {
			if i > 0 {
				sb.WriteString(", ")
			}
			ls := make([]string, len(r))
			for j, c := range r {
				l, lok := sqlLit(c.val)
				if !lok {
					return nil, nil, false
				}
				ls[j] = l
			}
			sb.WriteString("(" + strings.Join(ls, ", ") + ")")
		}
		sb.WriteString(";")
	}
	p := hc.NewProc(dir)
	defer p.Close()
	tx := p.P.Tx
	must(tx.SetFlag(option.QuietFlag, true))
	if _, e := p.Exec(sb.String()); e != nil {
		return nil, nil, false
	}
	v, e := p.Query("SELECT * FROM t")
	if e != nil || len(v.Header) != len(t.header) || len(v.RecordSet) != len(t.rows) {
		return nil, nil, false
	}
	for i := range t.header {
		if v.Header[i].Column != t.header[i] {
			return nil, nil, false
		}
	}
	for i, r := range t.rows {
		for j, c := range r {
			if hc.EncVal(v.RecordSet[i][j][0]) != hc.EncVal(c.val) {
				return nil, nil, false
			}
		}
	}
	fname := strings.ToUpper(fmtName(o.format))
	must(tx.SetFlag(option.FormatFlag, fname))
	must(tx.SetFlag(option.ExportEncodingFlag, encName(o.enc)))
	must(tx.SetFlag(option.ExportDelimiterFlag, string(o.delim)))
	must(tx.SetFlag(option.WithoutHeaderFlag, o.withoutHeader))
	must(tx.SetFlag(option.LineBreakFlag, lbName(o.lb)))
	must(tx.SetFlag(option.EncloseAllFlag, o.encloseAll))
	must(tx.SetFlag(option.JsonEscapeFlag, []string{"BACKSLASH", "HEX", "HEXALL"}[o.jsonEscape]))
	must(tx.SetFlag(option.PrettyPrintFlag, o.pretty))
	must(tx.SetFlag(option.StripEndingLineBreakFlag, o.strip))
	if o.format == option.FIXED {
		must(tx.SetFlag(option.ExportDelimiterPositionsFlag, posString(o.positions, o.singleLine)))
	}
	if toStdout {
		var so string
		so, err = p.Exec("SELECT * FROM t")
		return []byte(so), err, true
	}
	if sessionHook != nil {
		sessionHook(tx)
	}
	var buf bytes.Buffer
	tx.Session.SetOutFile(&buf)
	_, err = p.Exec("SELECT * FROM t")
	tx.Session.SetOutFile(nil)
	return buf.Bytes(), err, true
}

func isBreak(s string) bool { return strings.ContainsAny(s, "\r\n") }

func utf16Family(e text.Encoding) bool {
	switch e {
	case text.UTF16, text.UTF16BE, text.UTF16LE, text.UTF16BEM, text.UTF16LEM:
		return true
	}
	return false
}

func dupLabels(h []string) bool {
	seen := map[string]bool{}
	for _, s := range h {
		if seen[s] {
			return true
		}
		seen[s] = true
	}
	return false
}

func ltsvLabelOK(s string) bool {
	for _, r := range s {
		if !(r == '-' || r == '.' || r == '_' || ('0' <= r && r <= '9') || ('A' <= r && r <= 'Z') || ('a' <= r && r <= 'z')) {
			return false
		}
	}
	return true
}

func ltsvValueOK(s string) bool {
	for _, r := range s {
		if !((1 <= r && r <= 8) || r == 0x0b || r == 0x0c || (0x0e <= r && r <= 0xffff) || (0x10000 <= r && r <= 0xfffff)) {
			return false
		}
	}
	return true
}

func encodable(t *table, e text.Encoding) bool {
	if e != text.SJIS {
		return true
	}
	return !hasAny(t, true, func(s string) bool {
		b, err := text.Encode([]byte(s), e)
		if err != nil {
			return true
		}
		d, err := text.Decode(b, e)
		return err != nil || string(d) != s
	})
}

// refusalExpected: the format cannot spell the table (so an error, and nothing written, is what the
// property asks for)
func refusalExpected(t *table, o opts, viaProc bool) (bool, string) {
	switch o.format {
	case option.CSV, option.TSV, option.FIXED:
		if o.withoutHeader && len(t.rows) == 0 {
			return true, "no_header_no_rows"
		}
	case option.LTSV:
		if len(t.rows) == 0 {
			return true, "no_rows"
		}
	}
	if !encodable(t, o.enc) {
		return true, "not_encodable"
	}
	switch o.format {
	case option.LTSV:
		for _, h := range t.header {
			if !ltsvLabelOK(h) {
				return true, "label"
			}
		}
		if hasAny(t, false, func(s string) bool { return !ltsvValueOK(s) }) {
			return true, "value"
		}
	}
	if o.format == option.FIXED && o.positions != nil {
		start := 0
		for j, end := range o.positions {
			if end <= start {
				return true, "positions_not_increasing" // explicit positions the user got wrong: refused
			}
			w := end - start
			start = end
			tooLong := func(s string) bool { return text.ByteSize(s, o.enc) > w }
			if !o.withoutHeader && !o.singleLine && tooLong(t.header[j]) {
				return true, "too_long"
			}
			for _, r := range t.rows {
				if tooLong(r[j].text) {
					return true, "too_long"
				}
			}
		}
	}
	return false, ""
}

func hasLargeInt(t *table) bool {
	for _, r := range t.rows {
		for _, c := range r {
			if i, ok := c.val.(*value.Integer); ok && (i.Raw() > 1<<53 || i.Raw() < -(1<<53)) {
				return true
			}
		}
	}
	return false
}

func rowsForReplay(t *table) [][]string {
	out := make([][]string, 0, len(t.rows))
	for i, r := range t.rows {
		if i >= 12 {
			out = append(out, []string{fmt.Sprintf("… %d more rows", len(t.rows)-i)})
			break
		}
		row := make([]string, len(r))
		for j, c := range r {
			row[j] = hc.EncVal(c.val) + "=" + strconv.Quote(c.text)
		}
		out = append(out, row)
	}
	return out
}

// ---------- stream dia: an updated file keeps its dialect ----------

var diaFormats = []option.Format{option.CSV, option.CSV, option.TSV, option.TSV, option.LTSV, option.FIXED, option.JSON, option.JSONL}

// sessionOpposite: the processor that updates the file has every export setting set to the OPPOSITE of
// the file's dialect (what FileInfo.ExportOptions must override), instead of the defaults
var sessionOpposite bool

func diaCase(g *hc.Gen, o *hc.Out, dir string) {
	f := diaFormats[g.Intn(len(diaFormats))]
	d := genOpts(g, f)
	d.allowUneven = false
	d.enc = []text.Encoding{text.UTF8, text.UTF8, text.UTF8M, text.UTF16BEM, text.UTF16LEM, text.UTF16, text.UTF16LE, text.UTF16BE, text.SJIS}[g.Intn(9)]
	if f == option.JSON || f == option.JSONL {
		d.enc = text.UTF8
		d.pretty = false // FileInfo.PrettyPrint is not detected on load: a pretty file is rewritten compact
	}
	if f == option.FIXED && utf16Family(d.enc) {
		d.enc = text.UTF8 // F16 utf16_padding
	}
	if f == option.JSONL && d.lb == text.CR {
		d.lb = text.CRLF // F24 jsonl cr_line_break
	}
	// a table every format round-trips: >= 2 columns, >= 2 rows, plain texts without line breaks or colons
	nc, nr := 2+g.Intn(3), 2+g.Intn(4)
	t := &table{header: genHeader(g, nc, risk{}, true), rows: make([][]cell, nr)}
	words := []string{"a", "bc", "x y", "Q", "日本", "12", "v-1", "k"}
	if f != option.LTSV {
		words = append(words, "a,b", "q\"r", "s;t", "u|v", "")
	}
	for i := range t.rows {
		t.rows[i] = make([]cell, nc)
		for j := range t.rows[i] {
			if j == 0 {
				t.rows[i][j] = mkCell(value.NewString(fmt.Sprintf("r%d", i)))
			} else {
				t.rows[i][j] = mkCell(value.NewString(words[g.Intn(len(words))]))
			}
		}
	}
	withEnd := g.Intn(4) != 0
	if d.lb == text.CR {
		withEnd = false // a CR-terminated file does not load (law roundtrip:*:cr_ending_line_break)
	}
	if f == option.JSON {
		// a compact JSON text has no line break but the ending one (without it the session's is used,
		// there is nothing to keep); CR is white space for the JSON loader
		withEnd = true
	}
	// how the import encoding is named: exactly, by its generic family (UTF8 finds a byte order mark,
	// UTF16 finds the byte order), or not at all (AUTO); by the session flag or as the argument of a
	// table object
	importEnc := d.enc
	switch g.Intn(3) {
	case 0:
		if d.enc != text.SJIS {
			importEnc = text.AUTO
		}
	case 1:
		importEnc = genericEncoding(d.enc)
	}
	diaViaTableObject = g.Intn(3) == 0 && (f == option.CSV || f == option.TSV || f == option.LTSV || f == option.FIXED)
	defer func() { diaViaTableObject = false }()
	if f == option.FIXED {
		u := t.clone()
		u.rows = append(u.rows, append([]cell(nil), u.rows[1]...))
		u.rows[len(u.rows)-1][1] = mkCell(value.NewString("NEW"))
		d.positions = writerPositionsPlain(u, d)
		if pendingFixedAuto && g.Intn(2) == 0 {
			// a file laid out for, and read with, AUTOMATIC positions (F112: the updated file was written with the
			// detected positions and lost the blank between the columns)
			d.positions = nil
			plain := []string{"a", "bc", "Q", "12", "v-1", "k", "abc"}
			for i := range t.rows {
				for j := 1; j < len(t.rows[i]); j++ {
					t.rows[i][j] = mkCell(value.NewString(plain[g.Intn(len(plain))]))
				}
			}
			if d.lb == text.CR {
				d.lb = text.LF // F24 cr_line_break_automatic_positions
			}
		}
	}
	if (f == option.JSON || f == option.JSONL) && !jsonLineBreakChecked {
		d.lb = text.LF // the session default, see jsonLineBreakChecked
	}
	sessionOpposite = g.Intn(2) == 0
	diaRun(o, dir, t, d, withEnd, importEnc, "")
	sessionOpposite = false
}

// diaRun: write the file with dialect d (the real encoder, the ending line break in d's own line
// break and encoding), UPDATE + COMMIT it through a processor with DEFAULT export settings, and
// compare the bytes with what the same dialect would write for the updated table
// jsonLineBreakChecked: the JSON and JSON Lines loaders do not detect the line break of the file, so an
// updated CRLF file is rewritten with the session's line break (reported to the coordinator as a new
// finding: laws dialect:jsonl:line_break, dialect:json:ending_line_break_kind).  While it is not
// recorded the dialect runs keep the session's line break equal to the file's for these two formats;
// set to true to check it.
const jsonLineBreakChecked = true

// diaViaTableObject: the updated table is named by a table object that carries the import settings
// (CSV(delimiter, file, encoding, no_header), FIXED(positions, file, encoding, no_header),
// LTSV(file, encoding)); the session keeps its default import settings
var diaViaTableObject bool

// genericEncoding: the family name under which csvq refines the encoding from the file
func genericEncoding(e text.Encoding) text.Encoding {
	switch e {
	case text.UTF8, text.UTF8M:
		return text.UTF8
	case text.UTF16, text.UTF16BE, text.UTF16BEM, text.UTF16LEM:
		return text.UTF16
	}
	return e
}

// concreteEncoding: what a generic name stands for when it is written
func concreteEncoding(e text.Encoding) text.Encoding {
	if e == text.UTF16 {
		return text.UTF16BE
	}
	return e
}

func tableObject(fname string, d opts, enc text.Encoding) string {
	file := option.QuoteIdentifier(fname)
	e := option.QuoteString(encName(enc))
	switch d.format {
	case option.CSV, option.TSV:
		return fmt.Sprintf("CSV(%s, %s, %s, %v)", option.QuoteString(string(d.delim)), file, e, d.withoutHeader)
	case option.FIXED:
		return fmt.Sprintf("FIXED(%s, %s, %s, %v)", option.QuoteString(posString(d.positions, d.singleLine)), file, e, d.withoutHeader)
	case option.LTSV:
		return fmt.Sprintf("LTSV(%s, %s)", file, e)
	}
	return file
}

// setOppositeSession: every attribute FileInfo.ExportOptions carries, set to something else than the file has
func setOppositeSession(p *hc.Proc, d opts) {
	tx := p.P.Tx
	pick := func(cond bool, a, b string) string {
		if cond {
			return a
		}
		return b
	}
	must(tx.SetFlag(option.FormatFlag, pick(d.format == option.CSV, "JSON", "CSV")))
	must(tx.SetFlag(option.ExportDelimiterFlag, pick(d.delim == '|', ";", "|")))
	if (d.format == option.JSON || d.format == option.JSONL) && !jsonLineBreakChecked {
		must(tx.SetFlag(option.LineBreakFlag, lbName(d.lb)))
	} else {
		must(tx.SetFlag(option.LineBreakFlag, pick(d.lb == text.LF, "CRLF", "LF")))
	}
	must(tx.SetFlag(option.EncloseAllFlag, !d.encloseAll))
	must(tx.SetFlag(option.WithoutHeaderFlag, !d.withoutHeader))
	must(tx.SetFlag(option.ExportEncodingFlag, pick(d.enc == text.UTF8, "UTF16", "UTF8")))
	must(tx.SetFlag(option.JsonEscapeFlag, pick(d.jsonEscape == txjson.Backslash, "HEXALL", "BACKSLASH")))
	must(tx.SetFlag(option.PrettyPrintFlag, !d.pretty))
	must(tx.SetFlag(option.ExportDelimiterPositionsFlag, pick(d.positions == nil, "[2, 5, 9]", "SPACES")))
}

func diaRun(o *hc.Out, dir string, t *table, d opts, withEnd bool, importEnc text.Encoding, tag string) {
	f := d.format
	name := fmtName(f)
	body, err := realEncode(t, d)
	must(err)
	end, err := text.Encode([]byte(d.lb.Value()), d.enc)
	must(err)
	if d.enc == text.UTF8M || d.enc == text.UTF16BEM || d.enc == text.UTF16LEM {
		// the ending line break without a second byte order mark
		plain := map[text.Encoding]text.Encoding{text.UTF8M: text.UTF8, text.UTF16BEM: text.UTF16BE, text.UTF16LEM: text.UTF16LE}[d.enc]
		end, err = text.Encode([]byte(d.lb.Value()), plain)
		must(err)
	}
	orig := append([]byte{}, body...)
	if withEnd {
		orig = append(orig, end...)
	}
	fname := "dia" + fmtExt(f)
	must(os.WriteFile(filepath.Join(dir, fname), orig, 0o644))
	// the update, by a processor with DEFAULT export settings
	key := "c1"
	upd := "c2"
	if headerWritten(d) {
		key, upd = t.header[0], t.header[1]
	}
	// the file must load as the table under this way of naming its encoding (UTF16 cannot tell a
	// little endian file without byte order mark; AUTO guesses): otherwise there is nothing to keep
	if v0, e0 := realLoad(dir, fname, orig, d, importEnc, false); e0 != nil || !fromView(v0).equal(expected(t, d)) {
		o.Count("dia:skipped:does_not_load_as_" + encName(importEnc) + ":" + encName(d.enc))
		o.Case("c02.nop", "ok")
		return
	}
	target := option.QuoteIdentifier(fname)
	var p *hc.Proc
	if diaViaTableObject {
		p = hc.NewProc(dir)
		target = tableObject(fname, d, importEnc)
	} else {
		p = importProc(dir, d, importEnc)
	}
	_ = p.P.Tx.SetFlag(option.QuietFlag, true)
	if sessionOpposite {
		setOppositeSession(p, d)
	}
	_, uerr := p.Exec(fmt.Sprintf("UPDATE %s SET %s = 'NEW' WHERE %s = 'r1'; COMMIT;", target, option.QuoteIdentifier(upd), option.QuoteIdentifier(key)))
	p.Close()
	o.Count("dia:" + name + ":" + encName(d.enc) + ":" + lbName(d.lb))
	replay := func(extra map[string]interface{}) map[string]interface{} {
		m := map[string]interface{}{"format": name, "dialect": d.sig(), "import_encoding": encName(importEnc), "named_by_table_object": diaViaTableObject, "original_hex": hex.EncodeToString(orig), "session_settings_opposite": sessionOpposite}
		if tag != "" {
			m["corpus"] = tag
		}
		for k, v := range extra {
			m[k] = v
		}
		return m
	}
	o.Case("c02.nop", "ok")
	o.NonTrivial("dia|" + d.sig() + "|" + b01(withEnd) + "|" + encName(importEnc) + "|" + b01(diaViaTableObject) + b01(sessionOpposite))
	o.Count("dia:encoding:" + encName(d.enc) + ":named_" + encName(importEnc) + ":object" + b01(diaViaTableObject))
	if uerr != nil {
		law := "update_failed"
		if f == option.FIXED && d.positions == nil {
			law = "automatic_positions_update_refused" // the detected positions have become the table's explicit ones
		}
		lawFail(o, "dialect:"+name+":"+law, replay(map[string]interface{}{"error": firstLine(uerr.Error())}))
		return
	}
	after, err := os.ReadFile(filepath.Join(dir, fname))
	must(err)
	t.rows[1][1] = mkCell(value.NewString("NEW"))
	wantBody, err := realEncode(t, d)
	must(err)
	want := append(append([]byte{}, wantBody...), end...)
	if bytes.Equal(after, want) {
		o.Count("dia:" + name + ":kept")
		if tag != "" {
			o.Count("corpus:" + tag + ":kept")
		}
		return
	}
	if tag != "" {
		o.Count("corpus:" + tag + ":changed")
	}
	extra := map[string]interface{}{"after_hex": hex.EncodeToString(after), "want_hex": hex.EncodeToString(want)}
	switch {
	case bytes.HasPrefix(after, wantBody):
		// only the ending line break differs: it is written from the session's --line-break flag, as raw bytes
		tail := after[len(wantBody):]
		if utf16Family(d.enc) && (bytes.Equal(tail, []byte(d.lb.Value())) || bytes.Equal(tail, []byte("\n"))) && !bytes.Equal(tail, end) {
			// the line break as raw bytes inside a UTF-16 file
			lawFail(o, "dialect:"+name+":ending_line_break_not_transcoded", replay(extra))
			if !bytes.Equal(tail, []byte(d.lb.Value())) {
				lawFail(o, "dialect:"+name+":ending_line_break_kind", replay(extra))
			}
		} else if !bytes.Equal(tail, end) {
			lawFail(o, "dialect:"+name+":ending_line_break_kind", replay(extra))
		}
	default:
		// which convention was lost?
		v, lerr := realLoad(dir, fname, after, d, importEnc, true)
		what := "bytes"
		if f == option.FIXED && d.positions == nil {
			// the file was laid out for AUTOMATIC positions (one blank between the columns) and read that way: the
			// updated file must still be
			if lerr != nil {
				extra["reread_with_automatic_positions"] = "error: " + firstLine(lerr.Error())
			} else {
				extra["reread_with_automatic_positions"] = clip(fromView(v).String())
				extra["table_expected"] = clip(expected(t, d).String())
				if fromView(v).equal(expected(t, d)) {
					lawFail(o, "dialect:fixed:automatic_positions_layout_bytes", replay(extra))
					return
				}
			}
			lawFail(o, "dialect:fixed:automatic_positions_layout_not_kept", replay(extra))
			return
		}
		if lerr != nil {
			what = "unloadable"
		} else {
			got := fromView(v)
			switch {
			case v.FileInfo.Encoding != concreteEncoding(d.enc):
				what = "encoding"
			case v.FileInfo.LineBreak != d.lb:
				what = "line_break"
			case !got.equal(expected(t, d)):
				what = "table"
			case (f == option.CSV || f == option.TSV) && v.FileInfo.EncloseAll != d.encloseAll:
				what = "enclose_all"
			case (f == option.JSON || f == option.JSONL) && v.FileInfo.JsonEscape != d.jsonEscape:
				what = "json_escape"
			}
		}
		if what == "enclose_all" && !d.encloseAll {
			// a file without a letter in an unquoted field is consistent with both conventions
			o.Count("dia:" + name + ":enclose_all_ambiguous")
			return
		}
		lawFail(o, "dialect:"+name+":"+what, replay(extra))
	}
}

// ---------- main ----------

func main() {
	hc.Main(func(seed int64, n int, outDir string, args []string) {
		g := hc.NewGen(seed)
		o := hc.NewOut(outDir)
		defer o.Close()
		base := os.Getenv("VERIF_SCRATCH")
		if base == "" {
			base = os.TempDir()
		}
		var err error
		scratch, err = os.MkdirTemp(base, "c02-")
		must(err)
		defer os.RemoveAll(scratch)
		palProc = hc.NewProc(scratch)
		defer palProc.Close()
		quoteLB = probeQuoteLB()
		o.Count("probe:writer_quotes_line_breaks:" + b01(quoteLB))
		if quoteLB != claimedQuoteLB {
			lawFail(o, "roundtrip:csv:linebreak_in_cell", map[string]interface{}{"probe": "EncodeView(CSV) of the cells \"x\\ny\", \"r\\rs\" is not a,b / \"x\\ny\",\"r\\rs\": fields containing CR/LF are not quoted"})
		}
		csvqBin = buildCsvq(scratch)
		corpus(o, scratch)
		driftCorpus(o, scratch)
		altCorpus(o, scratch)
		sessionFlagCorpus(o, scratch)
		jspellCorpus(o, scratch)
		refuseMatrix(o, scratch)
		jstructCorpus(o)
		pathCorpus(o, scratch)
		singleCorpus(o, scratch)
		// the structure-mapping cases draw from their own generator: the streams above stay what they were
		gs := hc.NewGen(seed*7919 + 17)
		for i := 0; i < n; i++ {
			switch i % 20 {
			case 0, 1, 2:
				encCase(g, o)
			case 3:
				jencCase(g, o)
			case 17:
				jencCase(g, o)
				jspellCase(g, o, scratch)
			case 4, 5, 6:
				decCase(g, o, scratch)
			case 18:
				if (i/20)%4 == 0 {
					driftCase(g, o, scratch)
				} else {
					autoCase(g, o, scratch)
				}
			case 7:
				jdecCase(g, o, scratch)
				jstructCase(gs, o, scratch)
			case 8, 9, 10, 16:
				rtCase(g, o, scratch)
			case 11:
				jescCase(g, o)
				chunkCase(g, o)
				tcCase(g, o)
			case 12:
				diaCase(g, o, scratch)
				singleCase(gs, o, scratch)
			case 13:
				switch (i / 20) % 4 {
				case 0:
					diaCase(g, o, scratch)
				case 1:
					createCase(g, o, scratch)
				case 2:
					altCase(g, o, scratch)
				default:
					if (i/80)%2 == 0 {
						altCase(g, o, scratch)
					} else {
						sessionFlagCase(g, o, scratch)
					}
				}
			case 14:
				refuseCase(g, o, scratch)
			case 15:
				bigCase(g, o, scratch)
			default: // 19
				if (i/20)%8 == 0 {
					historyCase(g, o, scratch)
				} else if (i/20)%8 == 1 || (i/20)%8 == 5 {
					boundaryCase(g, o, scratch)
				} else {
					jdecCase(g, o, scratch)
				}
			}
		}
	})
}

var _ = txjson.Backslash
