package main

// The STRUCTURE MAPPING of the JSON / JSON Lines loaders and writers (Csvq.Model.JsonStruct): model = implementation for
//
//	jsload   lib/json LoadTable (empty query and the query `{}`) on generated JSON VALUES: arrays of objects with differing
//	         key sets and orders, repeated keys, non-object elements, nested values, the empty array, a single object,
//	         scalars and nothing at top level.  The real functions are run twice: on the structure itself
//	         (Extract + ConvertToTableValue, no text in between) and through LoadTable on the value's text; the two must agree
//	         (law json_structure:text_and_structure_disagree)
//	jslines  the real JSON Lines loader (SELECT from a .jsonl file) on one generated value per line, blank lines, and
//	         mostly-valid streams with one malformed line
//	jswrite  lib/json ConvertTableValueToJsonStructure on generated tables (plain and path-named columns): the nested structure
//	jsrt     load(structure(table)): ConvertToTableValue(ConvertTableValueToJsonStructure(t)) for JSON, the written file read
//	         back for JSON Lines; laws on the real code alone: json_structure:roundtrip (plain distinct names, at least one
//	         record: the canonical table comes back), json_structure:rectangular
//
// A JSON value travels in prefix form: n | t | f | s<hex> | d<hex number literal> | a<k> item… | o<k> (k<hex> value)…

import (
	"fmt"
	"math"
	"strconv"
	"strings"

	csvjson "github.com/mithrandie/csvq/lib/json"
	"github.com/mithrandie/csvq/lib/option"
	"github.com/mithrandie/csvq/lib/query"
	"github.com/mithrandie/csvq/lib/value"
	"github.com/mithrandie/go-text"
	txjson "github.com/mithrandie/go-text/json"

	"verifharness/hc"
)

var jsKeys = []string{"a", "b", "c", "a", "b", "k", "id", "a b", "é", "", "a.b", "A", "日本", "x\"y", "n/1", "0"}
var jsStrings = []string{"", "x", "a b", "é", "日本", "x\"y", "a\\b", "l1\nl2", "\t", "[1]", "{\"a\":1}", "null", "12", "😀", "a/b", " "}
var jsNumbers = []float64{0, 1, -1, 2, 10, 42, -7, 0.5, -2.25, 1e21, 1e-7, 123456789.125, 1e300, 9007199254740993, 3.0000000000000004, 100}

func genJSScalar(g *hc.Gen) txjson.Structure {
	switch g.Intn(7) {
	case 0:
		return txjson.Null{}
	case 1:
		return txjson.Boolean(g.Intn(2) == 0)
	case 2, 3:
		return txjson.Number(jsNumbers[g.Intn(len(jsNumbers))])
	default:
		return txjson.String(jsStrings[g.Intn(len(jsStrings))])
	}
}

func genJSObject(g *hc.Gen, depth int) txjson.Object {
	n := g.Intn(5)
	if g.Intn(6) == 0 {
		n = 0
	}
	obj := txjson.NewObject(n)
	// a window of the key pool so that neighbouring objects share some keys and differ in others, in any order
	off := g.Intn(4)
	for i := 0; i < n; i++ {
		k := jsKeys[(off+g.Intn(6))%len(jsKeys)]
		if g.Intn(10) == 0 {
			k = jsKeys[g.Intn(len(jsKeys))]
		}
		obj.Add(k, genJSValue(g, depth-1, false))
	}
	return obj
}

func genJSValue(g *hc.Gen, depth int, top bool) txjson.Structure {
	if depth <= 0 {
		return genJSScalar(g)
	}
	switch r := g.Intn(10); {
	case r < 5:
		return genJSScalar(g)
	case r < 7:
		return genJSObject(g, depth)
	default:
		n := g.Intn(4)
		ar := make(txjson.Array, 0, n)
		for i := 0; i < n; i++ {
			ar = append(ar, genJSValue(g, depth-1, false))
		}
		return ar
	}
}

// genJSTop: what a JSON file may hold
func genJSTop(g *hc.Gen) (txjson.Structure, string) {
	switch r := g.Intn(20); {
	case r < 11: // an array of objects
		n := 1 + g.Intn(5)
		ar := make(txjson.Array, 0, n)
		for i := 0; i < n; i++ {
			ar = append(ar, genJSObject(g, 2))
		}
		return ar, "objects"
	case r < 14: // … with an element that is no object somewhere
		n := 1 + g.Intn(4)
		ar := make(txjson.Array, 0, n)
		bad := g.Intn(n)
		for i := 0; i < n; i++ {
			if i == bad {
				ar = append(ar, []txjson.Structure{txjson.Null{}, txjson.Number(1), txjson.String("x"), txjson.Array{}, txjson.Array{txjson.NewObject(0)}, txjson.Boolean(true)}[g.Intn(6)])
			} else {
				ar = append(ar, genJSObject(g, 2))
			}
		}
		return ar, "non_object_element"
	case r < 15:
		return txjson.Array{}, "empty_array"
	case r < 17:
		return genJSObject(g, 2), "single_object"
	case r < 19:
		return genJSScalar(g), "scalar"
	default:
		return nil, "nothing"
	}
}

func jsNumLit(f float64) string {
	return strconv.FormatFloat(f, 'f', -1, 64)
}

// jsToks: the value in prefix form.  A number is sent as a literal that ParseFloat reads as exactly that float64.
func jsToks(st txjson.Structure, sb *strings.Builder) {
	switch v := st.(type) {
	case txjson.Null:
		sb.WriteString(" n")
	case txjson.Boolean:
		if bool(v) {
			sb.WriteString(" t")
		} else {
			sb.WriteString(" f")
		}
	case txjson.String:
		sb.WriteString(" s" + hexTok([]byte(string(v))))
	case txjson.Number:
		if v.IsNaN() || v.IsInf() {
			sb.WriteString(" n") // a non-finite Float is encoded `null`
		} else {
			sb.WriteString(" d" + hx(jsNumLit(float64(v))))
		}
	case txjson.Integer:
		sb.WriteString(" d" + hx(v.Encode()))
	case txjson.Array:
		fmt.Fprintf(sb, " a%d", len(v))
		for _, e := range v {
			jsToks(e, sb)
		}
	case txjson.Object:
		fmt.Fprintf(sb, " o%d", len(v.Members))
		for _, m := range v.Members {
			sb.WriteString(" k" + hexTok([]byte(m.Key)))
			jsToks(m.Value, sb)
		}
	default:
		panic(fmt.Sprintf("json structure %T", st))
	}
}

func jsTokString(st txjson.Structure) string {
	var sb strings.Builder
	jsToks(st, &sb)
	return strings.TrimPrefix(sb.String(), " ")
}

func fromRows(header []string, rows [][]value.Primary) *dtable {
	d := &dtable{header: append([]string{}, header...), rows: make([][]dcell, len(rows))}
	for i, r := range rows {
		d.rows[i] = make([]dcell, len(r))
		for j, p := range r {
			if _, ok := p.(*value.Null); ok {
				d.rows[i][j] = dcell{null: true}
			} else if s, ok := p.(*value.String); ok {
				d.rows[i][j] = dcell{text: s.Raw()}
			} else {
				s, _, _ := query.ConvertFieldContents(p, false, false)
				d.rows[i][j] = dcell{text: s}
			}
		}
	}
	return d
}

func showLoaded(d *dtable, err error) string {
	if err != nil {
		return "E"
	}
	return showD(d, "-")
}

func rectangularD(d *dtable) bool {
	for _, r := range d.rows {
		if len(r) != len(d.header) {
			return false
		}
	}
	return true
}

// structLoad: the real functions on the STRUCTURE: Extract (nil query = the data), then LoadTable's own two steps
func structLoad(q string, st txjson.Structure) (*dtable, error) {
	qe, err := csvjson.Query.Parse(q)
	if err != nil {
		return nil, err
	}
	ex, err := csvjson.Extract(qe, st)
	if err != nil {
		return nil, err
	}
	ar, ok := ex.(txjson.Array)
	if !ok {
		return nil, fmt.Errorf("json value does not exists")
	}
	h, rows, err := csvjson.ConvertToTableValue(ar)
	if err != nil {
		return nil, err
	}
	return fromRows(h, rows), nil
}

func textLoad(q string, txt string) (*dtable, error) {
	h, rows, _, err := csvjson.LoadTable(q, txt)
	if err != nil {
		return nil, err
	}
	return fromRows(h, rows), nil
}

func jsText(st txjson.Structure) string {
	if st == nil {
		return ""
	}
	return st.Encode()
}

func jsloadCase(g *hc.Gen, o *hc.Out) {
	st, kind := genJSTop(g)
	q, qn := "", "json"
	if g.Intn(3) == 0 {
		q, qn = "{}", "jsonq"
	}
	toks := "-"
	if st != nil {
		toks = jsTokString(st)
	}
	line := "c02.jsload " + qn + " " + toks
	var d *dtable
	var err error
	func() {
		defer func() {
			if r := recover(); r != nil {
				err = fmt.Errorf("panic: %v", r)
				lawFail(o, "json_structure:fatal", map[string]interface{}{"op": line, "panic": fmt.Sprint(r)})
			}
		}()
		d, err = structLoad(q, st)
	}()
	dt, errt := textLoad(q, jsText(st))
	if (err == nil) != (errt == nil) || (err == nil && !d.equal(dt)) {
		lawFail(o, "json_structure:text_and_structure_disagree", map[string]interface{}{"op": line, "text": jsText(st), "query": q,
			"structure": showLoaded(d, err), "through_text": showLoaded(dt, errt)})
	}
	if err == nil && !rectangularD(d) {
		lawFail(o, "json_structure:rectangular", map[string]interface{}{"op": line, "loaded": d.String()})
	}
	o.Case(line, showLoaded(d, err))
	o.Count("jsload:" + qn + ":" + kind + ":" + okErr(err))
	sig := ""
	if err == nil {
		sig = fmt.Sprintf("%d.%d", len(d.header), len(d.rows))
	}
	o.NonTrivial("jsload|" + qn + "|" + kind + "|" + okErr(err) + "|" + sig)
}

var jsBadLines = []string{"{", "{\"a\":}", "{\"a\":1", "[1,", "nul", "{\"a\" 1}", "{a:1}", "\"x", "{\"a\":1}}", "01", "{\"a\":1e}", "{,}", "]"}

func jslinesCase(g *hc.Gen, o *hc.Out, dir string) {
	n := g.Intn(6)
	toks := make([]string, 0, n)
	lines := make([]string, 0, n)
	kind := "objects"
	malformed := -1
	other := -1
	switch g.Intn(6) {
	case 0:
		if n > 0 {
			malformed, kind = g.Intn(n), "malformed_line"
		}
	case 1:
		if n > 0 {
			other, kind = g.Intn(n), "non_object_line"
		}
	}
	for i := 0; i < n; i++ {
		switch {
		case i == malformed:
			b := jsBadLines[g.Intn(len(jsBadLines))]
			toks = append(toks, "x"+hx(b))
			lines = append(lines, b)
		case i == other:
			v := []txjson.Structure{txjson.Null{}, txjson.Number(1), txjson.String("x"), txjson.Array{}, txjson.Array{txjson.NewObject(0)}, txjson.Boolean(false)}[g.Intn(6)]
			toks = append(toks, jsTokString(v))
			lines = append(lines, v.Encode())
		case g.Intn(7) == 0:
			toks = append(toks, "b")
			lines = append(lines, []string{"", " ", "\t "}[g.Intn(3)])
		case g.Intn(5) == 0:
			// an object given as raw text with white space and escapes: the model scans it
			b := []string{"{ \"a\" : 1 , \"b\" : [ 1 , { \"c\" : null } ] }", "{\"a\":\"\\u00e9\\n\",\"a\":2}", " {} ", "{\"k\":1.50,\"b\":-0.0,\"c\":1E2}", "{\"b\":true,\"a\":{\"x\":{}}}"}[g.Intn(5)]
			toks = append(toks, "x"+hx(b))
			lines = append(lines, b)
		default:
			v := genJSObject(g, 2)
			toks = append(toks, jsTokString(v))
			lines = append(lines, v.Encode())
		}
	}
	lb := []string{"\n", "\n", "\r\n"}[g.Intn(3)]
	data := strings.Join(lines, lb)
	if n > 0 && g.Intn(3) != 0 {
		data += lb
	}
	line := fmt.Sprintf("c02.jslines %d %s", n, strings.Join(toks, " "))
	op := opts{format: option.JSONL, delim: ',', lb: text.LF, enc: text.UTF8, jsonEscape: txjson.Backslash}
	v, lerr := realLoad(dir, "js.jsonl", []byte(data), op, text.UTF8, false)
	impl := "E"
	if lerr == nil {
		d := fromView(v)
		impl = showD(d, "-")
		if !rectangularD(d) {
			lawFail(o, "json_structure:rectangular", map[string]interface{}{"op": line, "loaded": d.String()})
		}
	} else if isFatal(lerr) {
		lawFail(o, "json_structure:fatal", map[string]interface{}{"op": line, "error": firstLine(lerr.Error())})
	}
	o.Case(line, impl)
	o.Count("jslines:" + kind + ":" + okErr(lerr))
	o.NonTrivial(fmt.Sprintf("jslines|%s|%s|%d|%x", kind, okErr(lerr), n, fnv([]byte(data))%64))
}

// ---------- the writer's structure, and the round trip on structures ----------

var jsPlainNames = []string{"a", "b", "c", "id", "k_1", "a b", "é", "日本", "x\"y", "n/1", "A", "a\\b", "[k]", "0"}
var jsSafeTexts = []string{"", "x", "a b", "é", "日本", "x\"y", "a\\b", "l1\nl2", "\t", "null", "12", "😀", "a/b", " ", "1]", "}{", " [", "tr ue"}

func genStructTable(g *hc.Gen) (*table, string) {
	nc := 1 + g.Intn(4)
	h := make([]string, nc)
	kind := "plain"
	pool := jsPlainNames
	if g.Intn(3) == 0 {
		pool, kind = pathNames, "paths"
	}
	for j := range h {
		h[j] = pool[g.Intn(len(pool))]
	}
	nr := g.Intn(5)
	t := &table{header: h, rows: make([][]cell, nr)}
	for i := range t.rows {
		t.rows[i] = make([]cell, nc)
		for j := range t.rows[i] {
			var v value.Primary
			switch g.Intn(10) {
			case 0:
				v = value.NewNull()
			case 1:
				v = value.NewInteger(int64(g.Intn(2000) - 1000))
			case 2:
				v = value.NewFloat(jsNumbers[g.Intn(len(jsNumbers))])
			case 3:
				v = value.NewFloat([]float64{math.NaN(), math.Inf(1), math.Inf(-1), 0.1}[g.Intn(4)])
			case 4:
				v = value.NewBoolean(g.Intn(2) == 0)
			case 5:
				v = genValue(g, risk{})
			default:
				v = value.NewString(jsSafeTexts[g.Intn(len(jsSafeTexts))])
			}
			if s, ok := v.(*value.String); ok && (strings.HasPrefix(strings.TrimSpace(s.Raw()), "[") || strings.HasPrefix(strings.TrimSpace(s.Raw()), "{") || strings.HasSuffix(s.Raw(), "\\")) {
				v = value.NewString("x" + s.Raw() + "y") // F73 / F27 are the text level's, not the structure mapping's
			}
			if iv, ok := v.(*value.Integer); ok && (iv.Raw() > 1<<53 || iv.Raw() < -(1<<53)) {
				v = value.NewInteger(iv.Raw() % 1000) // F27 large_integer
			}
			t.rows[i][j] = mkCell(v)
		}
	}
	return t, kind
}

func plainDistinct(h []string) bool {
	seen := map[string]bool{}
	for _, s := range h {
		if strings.ContainsAny(s, ".") || strings.HasPrefix(s, "\\") || strings.Contains(s, "\\\\") || seen[s] {
			return false
		}
		seen[s] = true
	}
	return true
}

func jswriteCase(g *hc.Gen, o *hc.Out, dir string) {
	t, kind := genStructTable(g)
	if !validText(t) {
		return
	}
	prof := profile{}
	toks := jtableToks(t, prof)
	rows := make([][]value.Primary, len(t.rows))
	for i, r := range t.rows {
		rows[i] = make([]value.Primary, len(r))
		for j := range r {
			rows[i][j] = r[j].val
		}
	}
	st, werr := csvjson.ConvertTableValueToJsonStructure(ctx, t.header, rows)
	implW := "E"
	if werr == nil {
		implW = jsTokString(st)
	}
	o.Case("c02.jswrite "+toks, implW)
	o.Count("jswrite:" + kind + ":" + okErr(werr))

	// load(structure(table)): JSON on the structure itself, JSON Lines through the written file
	implR := "E"
	if werr == nil && keyEndsInBackslash(st) {
		// the text level cannot delimit a key that ends in a backslash (F27): not the structure mapping's business
		o.Count("jsrt:skipped_backslash_key")
		return
	}
	if werr == nil {
		// what reaches a reader: a non-finite Float is written `null` by every encoder (Number.Encode, Encoder.Encode)
		h, rr, cerr := csvjson.ConvertToTableValue(nonFiniteAsNull(st).(txjson.Array))
		dj := (*dtable)(nil)
		if cerr == nil {
			dj = fromRows(h, rr)
		}
		op := opts{format: option.JSONL, delim: ',', lb: text.LF, enc: text.UTF8, jsonEscape: txjson.Backslash}
		var dl *dtable
		b, eerr := realEncode(t, op)
		lerr := eerr
		if eerr == nil {
			var v *query.View
			v, lerr = realLoad(dir, "jsrt.jsonl", b, op, text.UTF8, false)
			if lerr == nil {
				dl = fromView(v)
			}
		}
		implR = showLoaded(dj, cerr) + " || " + showLoaded(dl, lerr)
		for _, d := range []*dtable{dj, dl} {
			if d != nil && !rectangularD(d) {
				lawFail(o, "json_structure:rectangular", map[string]interface{}{"header": t.header, "rows": rowsForReplay(t), "loaded": d.String()})
			}
		}
		// the law on the real code alone, where the round trip is claimed: plain distinct names, at least one record
		if plainDistinct(t.header) && len(t.rows) > 0 {
			want := expected(t, opts{format: option.JSON})
			for i, r := range t.rows {
				for j, c := range r {
					// JSON has no spelling for NaN / ±Inf: written `null` (the model's canonVal)
					if f, ok := c.val.(*value.Float); ok && (math.IsNaN(f.Raw()) || math.IsInf(f.Raw(), 0)) {
						want.rows[i][j] = dcell{null: true}
					}
				}
			}
			for k, d := range []*dtable{dj, dl} {
				if d == nil || !d.equal(want) {
					got := "error"
					if d != nil {
						got = d.String()
					}
					lawFail(o, "json_structure:roundtrip", map[string]interface{}{"format": []string{"json", "jsonl"}[k], "header": t.header, "rows": rowsForReplay(t),
						"expected": want.String(), "loaded": got})
					break
				}
			}
			o.Count("jsrt:law_checked")
		} else if pathListKind(t.header) == "spellable" && len(t.rows) > 0 {
			// path-named columns the writers accept (F115): the write-then-read law through real files
			pathLaw(o, dir, t, "generated")
		}
	}
	o.Case("c02.jsrt "+toks, implR)
	sig := ""
	if werr == nil {
		sig = fmt.Sprintf("%d.%d", len(t.header), len(t.rows))
	}
	o.NonTrivial("jsrt|" + kind + "|" + okErr(werr) + "|" + sig + "|" + pathListKind(t.header))
}

func nonFiniteAsNull(st txjson.Structure) txjson.Structure {
	switch v := st.(type) {
	case txjson.Number:
		if v.IsNaN() || v.IsInf() {
			return txjson.Null{}
		}
	case txjson.Array:
		r := make(txjson.Array, len(v))
		for i, e := range v {
			r[i] = nonFiniteAsNull(e)
		}
		return r
	case txjson.Object:
		r := txjson.NewObject(len(v.Members))
		for _, m := range v.Members {
			r.Add(m.Key, nonFiniteAsNull(m.Value))
		}
		return r
	}
	return st
}

// jsonWant: the table C02 says must come back from JSON / JSON Lines (NaN / ±Inf have no spelling: NULL)
func jsonWant(t *table) *dtable {
	want := expected(t, opts{format: option.JSON})
	for i, r := range t.rows {
		for j, c := range r {
			if f, ok := c.val.(*value.Float); ok && (math.IsNaN(f.Raw()) || math.IsInf(f.Raw(), 0)) {
				want.rows[i][j] = dcell{null: true}
			}
		}
	}
	return want
}

// fileRoundTrip: EncodeView into a file of that format, a fresh processor reads it back
func fileRoundTrip(dir string, t *table, f option.Format) (*dtable, error) {
	op := opts{format: f, delim: ',', lb: text.LF, enc: text.UTF8, jsonEscape: txjson.Backslash}
	b, err := realEncode(t, op)
	if err != nil {
		return nil, err
	}
	v, err := realLoad(dir, "prt"+fmtExt(f), b, op, text.UTF8, false)
	if err != nil {
		return nil, err
	}
	return fromView(v), nil
}

// pathLaw: the write-then-read law on the real code for a table whose column names are paths the writers accept.  A failure is
// put down to the path names (roundtrip:<fmt>:path_named_column, known finding F115) only if the SAME table under plain distinct
// names reads back as itself; anything else stays json_structure:roundtrip.
func pathLaw(o *hc.Out, dir string, t *table, src string) {
	want := jsonWant(t)
	for _, f := range []option.Format{option.JSON, option.JSONL} {
		d, err := fileRoundTrip(dir, t, f)
		o.Count("jsrt:path_law:" + fmtName(f) + ":" + src)
		if err == nil && d.equal(want) {
			continue
		}
		got := "error"
		if err == nil {
			got = d.String()
		} else {
			got = "error: " + firstLine(err.Error())
		}
		replay := map[string]interface{}{"format": fmtName(f), "header": t.header, "rows": rowsForReplay(t), "expected": want.String(), "loaded": got}
		plain := t.clone()
		for j := range plain.header {
			plain.header[j] = fmt.Sprintf("p%d", j+1)
		}
		dp, perr := fileRoundTrip(dir, plain, f)
		if perr == nil && dp.equal(jsonWant(plain)) && !plainDistinct(t.header) {
			replay["with_plain_names"] = "reads back as written"
			lawFail(o, "roundtrip:"+fmtName(f)+":path_named_column", replay)
		} else {
			lawFail(o, "json_structure:roundtrip", replay)
		}
	}
}

// pathCorpus: the two witnesses of F115, every run
func pathCorpus(o *hc.Out, dir string) {
	for _, h := range [][]string{{"a.b", "c"}, {"a\\.b"}, {"a.b", "a.c", "d"}} {
		t := &table{header: h, rows: [][]cell{make([]cell, len(h))}}
		for j := range h {
			t.rows[0][j] = mkCell(value.NewInteger(int64(j + 1)))
		}
		pathLaw(o, dir, t, "corpus")
	}
}

func keyEndsInBackslash(st txjson.Structure) bool {
	switch v := st.(type) {
	case txjson.Array:
		for _, e := range v {
			if keyEndsInBackslash(e) {
				return true
			}
		}
	case txjson.Object:
		for _, m := range v.Members {
			if strings.HasSuffix(m.Key, "\\") || keyEndsInBackslash(m.Value) {
				return true
			}
		}
	}
	return false
}

func jstructCase(g *hc.Gen, o *hc.Out, dir string) {
	jsloadCase(g, o)
	jslinesCase(g, o, dir)
	jswriteCase(g, o, dir)
}

// jstructCorpus: one witness per clause, every run
func jstructCorpus(o *hc.Out) {
	obj := func(kv ...interface{}) txjson.Object {
		ob := txjson.NewObject(len(kv) / 2)
		for i := 0; i+1 < len(kv); i += 2 {
			ob.Add(kv[i].(string), kv[i+1].(txjson.Structure))
		}
		return ob
	}
	num := func(f float64) txjson.Structure { return txjson.Number(f) }
	cases := []struct {
		q  string
		st txjson.Structure
	}{
		{"", txjson.Array{obj("b", num(1), "a", num(2)), obj("a", num(3), "c", num(4)), obj()}},                      // header over ALL elements, first appearance
		{"", txjson.Array{obj("a", num(1), "a", num(2))}},                                                            // repeated key: the first member
		{"", txjson.Array{obj("a", txjson.Array{num(1), txjson.String("x")}, "o", obj("k", txjson.Null{}))}},         // nested values: compact text
		{"", txjson.Array{obj("a", num(1)), txjson.Null{}}},                                                          // an element that is no object
		{"", txjson.Array{}},                                                                                         // the empty array
		{"", obj("a", num(1))},                                                                                       // a single object: error
		{"{}", obj("a", num(1), "b", txjson.Null{})},                                                                 // … one record with the query {}
		{"{}", txjson.Array{obj("a", num(1)), obj("b", num(2))}},                                                     // {}: rebuilt with explicit nulls
		{"", txjson.String("x")}, {"{}", txjson.Number(1)}, {"", nil}, {"{}", nil},                                   // scalars, nothing
		{"", txjson.Array{obj("", num(1), "a.b", num(2))}},                                                           // the empty key, a key with a dot
	}
	for _, c := range cases {
		qn := "json"
		if c.q != "" {
			qn = "jsonq"
		}
		toks := "-"
		if c.st != nil {
			toks = jsTokString(c.st)
		}
		d, err := structLoad(c.q, c.st)
		dt, errt := textLoad(c.q, jsText(c.st))
		line := "c02.jsload " + qn + " " + toks
		if (err == nil) != (errt == nil) || (err == nil && !d.equal(dt)) {
			lawFail(o, "json_structure:text_and_structure_disagree", map[string]interface{}{"op": line, "text": jsText(c.st), "query": c.q,
				"structure": showLoaded(d, err), "through_text": showLoaded(dt, errt)})
		}
		o.Case(line, showLoaded(d, err))
		o.Count("jsload:corpus")
	}
}
