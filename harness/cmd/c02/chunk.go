package main

// The line-break detector of the JSON / JSON Lines loaders, the REAL one (query.VerifJsonLineBreak, build
// tag verif), on arbitrary chunkings of arbitrary byte strings:
//
//   - the whole text as one chunk goes to the driver as `c02.jlb <hex>`: the answer of the implementation
//     must be the model's Json.firstBreak (a model/implementation diff);
//   - every other way of cutting the same text into successive reads - between CR and LF, inside an escape,
//     inside a string, with empty reads, byte by byte - must give the same answer as the single chunk
//     (implementation law `json_line_break_chunk_dependent`; gen_detector_chunks proves it of the
//     regenerated code).

import (
	"encoding/hex"
	"sort"
	"strconv"

	"github.com/mithrandie/csvq/lib/query"

	"verifharness/hc"
)

const chunkLaw = "json_line_break_chunk_dependent"

// pieces the random texts are made of: weighted towards what moves the detector
var chunkPieces = []string{
	"\"", "\"", "\"", "\\", "\\", "\\\\", "\\\"", "\r", "\r", "\n", "\n", "\r\n", "\r\n", "\r\r\n", "\n\r",
	"x", "x", " ", "{", "}", "[", "]", ",", ":", "1", "\"k\":", "\"a\\\"b\"", "\"a\\\\\"", "\"\\r\\n\"", "\"\r\n\"",
	"{\"k\":\"v\"}", "\t", "\\u000d", string(rune(0x3042)), "\x00", "\xff",
}

func genChunkText(g *hc.Gen) []byte {
	var n int
	switch g.Intn(4) {
	case 0:
		n = g.Intn(4)
	case 1:
		n = g.Intn(12)
	default:
		n = g.Intn(48)
	}
	var b []byte
	// a share of the texts keeps the first line break away from the start: a string in front
	if g.Intn(3) == 0 {
		b = append(b, "{\"k\":\""...)
		for i, m := 0, g.Intn(6); i < m; i++ {
			b = append(b, []string{"x", "\\\"", "\\\\", "\r", "\n", "\r\n", "\\" + "n"}[g.Intn(7)]...)
		}
		b = append(b, "\"}"...)
	}
	for i := 0; i < n; i++ {
		b = append(b, chunkPieces[g.Intn(len(chunkPieces))]...)
	}
	return b
}

func cutAt(b []byte, cuts []int) [][]byte {
	sort.Ints(cuts)
	var out [][]byte
	prev := 0
	for _, c := range cuts {
		out = append(out, b[prev:c]) // equal cuts give empty chunks
		prev = c
	}
	return append(out, b[prev:])
}

// chunkings of b: every two-way cut, byte by byte (with empty reads in between), the cuts right after
// every CR and every backslash, and `random` random ones
func chunkings(g *hc.Gen, b []byte, random int) [][][]byte {
	var all [][][]byte
	for i := 0; i <= len(b); i++ {
		all = append(all, cutAt(b, []int{i}))
	}
	var single, sensitive [][]byte
	var cuts []int
	for i := range b {
		single = append(single, b[i:i+1], nil)
		if b[i] == '\r' || b[i] == '\\' || b[i] == '"' {
			cuts = append(cuts, i+1)
		}
	}
	all = append(all, single)
	sensitive = cutAt(b, cuts)
	all = append(all, sensitive, [][]byte{nil, b, nil}, nil)
	if g != nil {
		for k := 0; k < random; k++ {
			var cs []int
			for i, m := 0, 1+g.Intn(6); i < m; i++ {
				c := g.Intn(len(b) + 1)
				cs = append(cs, c)
				if g.Intn(4) == 0 {
					cs = append(cs, c) // an empty read
				}
			}
			all = append(all, cutAt(b, cs))
		}
	}
	return all
}

func chunkRun(g *hc.Gen, o *hc.Out, b []byte, random int, tag string) {
	whole := lbName(query.VerifJsonLineBreak([][]byte{b}))
	o.Case("c02.jlb "+hexTok(b), whole)
	o.Count("chunks:whole:" + whole)
	o.NonTrivial("chunks|" + whole + "|" + b01(len(b) > 8))
	bad := 0
	for _, ch := range chunkings(g, b, random) {
		if len(b) > 0 && len(ch) == 0 {
			continue // (the no-read chunking only makes sense for the empty text)
		}
		got := lbName(query.VerifJsonLineBreak(ch))
		if got == whole {
			continue
		}
		bad++
		if bad > 1 {
			continue
		}
		hs := make([]string, len(ch))
		for i, c := range ch {
			hs[i] = hexTok(c)
		}
		r := map[string]interface{}{
			"text": hex.EncodeToString(b), "text_quoted": strconv.Quote(string(b)), "reads": hs,
			"one_read": whole, "these_reads": got,
			"replay": "query.VerifJsonLineBreak(reads) (harness built with -tags verif)",
		}
		if tag != "" {
			r["witness"] = tag
		}
		lawFail(o, chunkLaw, r)
	}
	if tag != "" {
		if bad == 0 {
			o.Count("corpus:" + tag + ":chunk_independent")
		} else {
			o.Count("corpus:" + tag + ":CHUNK_DEPENDENT")
		}
	}
}

func chunkCase(g *hc.Gen, o *hc.Out) {
	chunkRun(g, o, genChunkText(g), 6, "")
}

// deterministic witnesses (corpus)
func chunkCorpus(o *hc.Out) {
	for _, w := range []struct{ id, text string }{
		{"chunks.empty", ""},
		{"chunks.cr_lf_between_records", "{\"a\":1}\r\n{\"a\":2}\r\n"},
		{"chunks.cr_alone", "{\"a\":1}\r{\"a\":2}\r"},
		{"chunks.cr_last_byte", "[{\"a\":1}]\r"},
		{"chunks.lf", "{\"a\":1}\n{\"a\":2}\n"},
		{"chunks.line_break_inside_string_first", "{\"a\":\"x\r\ny\"}\n"},
		{"chunks.escaped_quote_then_line_break_in_string", "{\"a\":\"x\\\"\ny\"}\r\n"},
		{"chunks.escaped_backslash_ends_string", "{\"a\":\"x\\\\\"}\r\n{\"a\":\"\n\"}"},
		{"chunks.no_line_break", "[{\"a\":\"\\r\\n\"}]"},
		{"chunks.unterminated_string", "{\"a\":\"x\r\n"},
	} {
		chunkRun(nil, o, []byte(w.text), 0, w.id)
	}
}
