package main

// JSON and JSON Lines streams: model = implementation for
//   jesc / junesc   go-text/json Escape, EscapeWithHexDigits, EscapeAll, Unescape on code-point strings
//   jenc            query.EncodeView bytes for JSON (compact and pretty) and JSON Lines
//   jdec            the real loader on generated and mutated JSON / JSON Lines texts
// Numbers are opaque atoms for the model: the op line carries, for every number literal that can
// occur as a token, what strconv makes of it (ParseFloat then FormatFloat 'f'), or "!" when
// ParseFloat fails.

import (
	"encoding/hex"
	"fmt"
	"math"
	"sort"
	"strconv"
	"strings"

	"github.com/mithrandie/csvq/lib/option"
	"github.com/mithrandie/csvq/lib/value"
	"github.com/mithrandie/go-text"
	txjson "github.com/mithrandie/go-text/json"
	"github.com/mithrandie/ternary"

	"verifharness/hc"
)

// ---------- code-point strings ----------

var cpClasses = [][]rune{
	{'a', 'Z', '0', ' ', '~'},                                    // plain ASCII
	{'"', '\\', '/', '\'', '`'},                                  // quotes, backslash, solidus
	{0, 1, 8, 9, 10, 11, 12, 13, 27, 31},                         // controls (incl. \b \t \n \f \r)
	{0x7f, 0x80, 0x85, 0xa0, 0xe9, 0xff},                         // DEL, C1, Latin-1
	{0x2028, 0x2029, 0x200b, 0xfeff, 0x3000},                     // separators, BOM, ideographic space
	{0x3042, 0x65e5, 0xff71, 0xd7ff, 0xe000, 0xfffd, 0xffff},     // BMP incl. the edges of the surrogate gap
	{0x10000, 0x1f600, 0x100000, 0x10ffff},                       // non-BMP
	{'u', 'b', 'f', 'n', 'r', 't', 'd', '8', '3', 'D', 'c', 'e'}, // what follows a backslash in an escape
}

func genCodePoints(g *hc.Gen) string {
	n := g.Intn(9)
	var sb strings.Builder
	for i := 0; i < n; i++ {
		cl := cpClasses[g.Intn(len(cpClasses))]
		sb.WriteRune(cl[g.Intn(len(cl))])
	}
	return sb.String()
}

// texts that look like escapes: valid, truncated, wrong digits, lone and paired surrogates
var escSoup = []string{"\\", "\\\\", "\\\"", "\\/", "\\b", "\\f", "\\n", "\\r", "\\t", "\\u", "\\u00", "\\u0041", "\\u00e9", "\\u00E9", "\\uD83D", "\\ud83d", "\\ude00",
	"\\ud83d\\ude00", "\\ud83d\\u0041", "\\ud83d\\", "\\ud83d\\u", "\\udc00\\ud83d", "\\u000", "\\u00g1", "\\x", "\\a", "a", "\"", "é", "😀", "u", "0041", "\\u0000", "\\uffff", "\\udbff\\udfff"}

func jescCase(g *hc.Gen, o *hc.Out) {
	s := genCodePoints(g)
	t := g.Intn(3)
	var real string
	switch t {
	case 0:
		real = txjson.Escape(s)
	case 1:
		real = txjson.EscapeWithHexDigits(s)
	default:
		real = txjson.EscapeAll(s)
	}
	o.Case(fmt.Sprintf("c02.jesc %d %s", t, hexTok([]byte(s))), hexTok([]byte(real)))
	back, _ := txjson.Unescape(real)
	if back != s {
		lawFail(o, "json:unescape_escape", map[string]interface{}{"escape_type": t, "text_hex": hx(s), "escaped": real, "unescaped_hex": hx(back)})
	}
	// unescape: what was just escaped, and escape-like soup
	u := real
	if g.Intn(2) == 0 {
		n := 1 + g.Intn(5)
		var sb strings.Builder
		for i := 0; i < n; i++ {
			sb.WriteString(escSoup[g.Intn(len(escSoup))])
		}
		u = sb.String()
	}
	ru, _ := txjson.Unescape(u)
	o.Case(fmt.Sprintf("c02.junesc %s", hexTok([]byte(u))), hexTok([]byte(ru)))
	o.Count(fmt.Sprintf("jesc:type%d", t))
	o.NonTrivial(fmt.Sprintf("jesc|%d|%x|%x", t, fnv([]byte(s)), fnv([]byte(u))))
}

// ---------- the number profile ----------

func isDig(b byte) bool { return '0' <= b && b <= '9' }

// numberAt: the literal go-text's Scanner.scanNumber would take at position i ("" = invalid number)
func numberAt(s string, i int) string {
	j := i
	if j < len(s) && s[j] == '-' {
		j++
	}
	if j >= len(s) || !isDig(s[j]) {
		return ""
	}
	if s[j] == '0' {
		j++
	} else {
		for j < len(s) && isDig(s[j]) {
			j++
		}
	}
	if j < len(s) && s[j] == '.' {
		j++
		if j >= len(s) || !isDig(s[j]) {
			return ""
		}
		for j < len(s) && isDig(s[j]) {
			j++
		}
	}
	if j < len(s) && (s[j] == 'e' || s[j] == 'E') {
		j++
		if j < len(s) && (s[j] == '+' || s[j] == '-') {
			j++
		}
		if j >= len(s) || !isDig(s[j]) {
			return ""
		}
		for j < len(s) && isDig(s[j]) {
			j++
		}
	}
	return s[i:j]
}

type profile map[string]string

func (p profile) addText(s string) {
	for i := 0; i < len(s); i++ {
		if s[i] == '-' || isDig(s[i]) {
			if lit := numberAt(s, i); lit != "" {
				p.addLit(lit)
			}
		}
	}
}

func (p profile) addLit(lit string) {
	if _, ok := p[lit]; ok {
		return
	}
	f, err := strconv.ParseFloat(lit, 64)
	if err != nil {
		p[lit] = "!"
	} else {
		p[lit] = hx(strconv.FormatFloat(f, 'f', -1, 64))
	}
}

func (p profile) toks() string {
	ks := make([]string, 0, len(p))
	for k := range p {
		ks = append(ks, k)
	}
	sort.Strings(ks)
	parts := []string{strconv.Itoa(len(ks))}
	for _, k := range ks {
		parts = append(parts, hx(k)+"="+p[k])
	}
	return strings.Join(parts, " ")
}

// ---------- tables for JSON ----------

var jsonKeys = []string{"id", "name", "c1", "k_1", "n-2", "A1", "a b", "q\"r", "é", "日本", "x/y", "t\tu", "😀", "0", "-", "[k]", "{"}

var jsonTexts = []string{"[1, 2]", "[1,2]", "{\"a\": 1}", "{\"a\":1.50}", "[\"[1]\"]", "[", "{}", "[]", " [ ] ", "[1e2]", "{\"k\":[true,null]}", "12", "-0.5", "true", "null",
	"a\\", "\\", "a\\\"", "\"", "/", "\b\f", "x\ny", "\r\n", "\u2028", "é", "😀", "", " ", "a:b"}

func genJsonTable(g *hc.Gen, maxRows int) *table {
	nc := 1 + g.Intn(4)
	used := map[string]bool{}
	h := make([]string, nc)
	for j := range h {
		for {
			k := jsonKeys[g.Intn(len(jsonKeys))]
			if g.Intn(3) == 0 {
				k += strconv.Itoa(g.Intn(9))
			}
			if !used[k] {
				used[k] = true
				h[j] = k
				break
			}
		}
	}
	nr := g.Intn(maxRows + 1)
	t := &table{header: h, rows: make([][]cell, nr)}
	for i := range t.rows {
		t.rows[i] = make([]cell, nc)
		for j := range t.rows[i] {
			var v value.Primary
			switch g.Intn(14) {
			case 0:
				v = value.NewNull()
			case 1:
				v = value.NewInteger(g.Int64())
			case 2:
				v = value.NewInteger(int64(g.Intn(100) - 20))
			case 3:
				v = value.NewFloat(float64(g.Intn(2001)-1000) / 8)
			case 4:
				v = value.NewFloat([]float64{math.NaN(), math.Inf(1), math.Inf(-1), 1e21, 1e-7, 0, math.Copysign(0, -1), 123456789.125}[g.Intn(8)])
			case 5:
				v = value.NewBoolean(g.Intn(2) == 0)
			case 6:
				v = value.NewTernary([]ternary.Value{ternary.TRUE, ternary.FALSE, ternary.UNKNOWN}[g.Intn(3)])
			case 7:
				v = genValue(g, risk{})
			case 8, 9:
				v = value.NewString(jsonTexts[g.Intn(len(jsonTexts))])
			case 10:
				v = value.NewString(genCodePoints(g))
			default:
				v = value.NewString(genText(g, risk{delims: true, quotes: true, breaks: g.Intn(3) == 0}))
			}
			t.rows[i][j] = mkCell(v)
		}
	}
	return t
}

// jcellTok: the cell as the JSON model sees it; number atoms are what go-text writes for them
func jcellTok(c cell, prof profile) string {
	switch v := c.val.(type) {
	case *value.Null:
		return "N"
	case *value.String:
		if strings.ContainsAny(v.Raw(), "[{") {
			prof.addText(v.Raw())
		}
		return "S" + hx(v.Raw())
	case *value.Integer:
		a := txjson.Integer(v.Raw()).Encode()
		prof.addLit(a)
		return "I" + hx(a)
	case *value.Float:
		if math.IsNaN(v.Raw()) || math.IsInf(v.Raw(), 0) {
			return "X"
		}
		a := txjson.Float(v.Raw()).Encode()
		prof.addLit(a)
		return "F" + hx(a)
	case *value.Boolean:
		if v.Raw() {
			return "B1"
		}
		return "B0"
	case *value.Ternary:
		switch v.Ternary() {
		case ternary.TRUE:
			return "T1"
		case ternary.FALSE:
			return "T0"
		}
		return "TU"
	case *value.Datetime:
		return "D" + hx(c.text)
	}
	panic("cell class")
}

func jtableToks(t *table, prof profile) string {
	var sb strings.Builder
	fmt.Fprintf(&sb, "%d %d", len(t.header), len(t.rows))
	for _, h := range t.header {
		sb.WriteString(" S" + hx(h))
	}
	for _, r := range t.rows {
		for _, c := range r {
			sb.WriteByte(' ')
			sb.WriteString(jcellTok(c, prof))
		}
	}
	return sb.String()
}

var pathNames = []string{"a", "a", "b", "a.b", "a.b", "a.c", "a.b.c", "a.b.d", "b.a", "c.d.e.f", "a\\.b", "\\.b", "x\\\\.y", "a\\b.c", "a.b\\", "\\", "a..b", ".a", "a.", "", ".",
	"é.日", "a.a", "A.b", "a .b", "k.\"q\"", "[1].x", "a.b.c.d", "b.c"}

func jencCase(g *hc.Gen, o *hc.Out) {
	f := []option.Format{option.JSON, option.JSON, option.JSONL}[g.Intn(3)]
	op := genOpts(g, f)
	if op.pretty && g.Intn(2) == 0 {
		op.pretty = false
	}
	t := genJsonTable(g, 5)
	paths := g.Intn(3) == 0
	if paths {
		// column names as paths into nested objects (Csvq.Model.JsonPath): prefixes of one another,
		// duplicates, escapes, empty segments
		for j := range t.header {
			t.header[j] = pathNames[g.Intn(len(pathNames))]
		}
	}
	if !validText(t) {
		return
	}
	prof := profile{}
	toks := jtableToks(t, prof)
	line := fmt.Sprintf("c02.jenc %s %d %s %s %s %s", fmtName(f), op.jsonEscape, b01(op.pretty), lbName(op.lb), prof.toks(), toks)
	b, err := realEncode(t, op)
	impl := "E"
	if err == nil {
		impl = hexTok(b)
	}
	o.Case(line, impl)
	if paths {
		o.Count("jenc:paths:" + okErr(err))
	}
	o.Count(fmt.Sprintf("jenc:%s:esc%d:pretty%s", fmtName(f), op.jsonEscape, b01(op.pretty)))
	o.NonTrivial("jenc|" + op.sig() + "|" + textClasses(t) + "|" + dimClass(t) + "|" + b01(err != nil))
}

var jsonSoup = []string{"{", "}", "[", "]", ":", ",", ",", "\"a\"", "\"b\"", "\"x\\\"y\"", "\"\\\\\"", "\"a\\\\\"", "1", "-2.5", "1e3", "01", "1.", "-", "1e400", "true", "false", "null", "nul", "tru e",
	" ", "\n", "\r\n", "\t", "\"\\u00e9\"", "\"\\ud83d\\ude00\"", "\"\\ud83d\"", "é", "\"", "{\"a\":1}", "[1,2]", "\"k\":", "\"[1]\"", "0"}

func jdecCase(g *hc.Gen, o *hc.Out, dir string) {
	f := []option.Format{option.JSON, option.JSONL}[g.Intn(2)]
	op := genOpts(g, f)
	var data []byte
	src := "soup"
	switch g.Intn(4) {
	case 0:
		n := g.Intn(16)
		for i := 0; i < n; i++ {
			data = append(data, jsonSoup[g.Intn(len(jsonSoup))]...)
		}
	default:
		t := genJsonTable(g, 4)
		b, err := realEncode(t, op)
		if err != nil {
			b = nil
		}
		data = b
		src = "encoded"
		if g.Intn(3) != 0 {
			data = append(data, op.lb.Value()...)
		}
		if g.Intn(2) == 0 {
			src = "mutated"
			for k := 1 + g.Intn(3); k > 0; k-- {
				i := g.Intn(len(data) + 1)
				switch g.Intn(4) {
				case 0:
					if i < len(data) {
						data = append(append([]byte{}, data[:i]...), data[i+1:]...)
					}
				case 1:
					if len(data) > 0 {
						data = data[:i]
					}
				default:
					ins := jsonSoup[g.Intn(len(jsonSoup))]
					data = append(append(append([]byte{}, data[:i]...), ins...), data[i:]...)
				}
			}
		}
	}
	// the loaders turn the bytes into runes the Go way: every invalid byte is U+FFFD
	txt := string([]rune(string(data)))
	prof := profile{}
	prof.addText(txt)
	line := fmt.Sprintf("c02.jdec %s %s %s", fmtName(f), prof.toks(), hexTok([]byte(txt)))
	v, lerr := realLoad(dir, "jd"+fmtExt(f), data, op, text.UTF8, false)
	impl, kind := "E", "error"
	if lerr == nil {
		d := fromView(v)
		impl, kind = showD(d, "-"), "ok"
		for _, r := range d.rows {
			if len(r) != len(d.header) {
				lawFail(o, "rectangular:"+fmtName(f), map[string]interface{}{"op": line, "loaded": d.String()})
				break
			}
		}
		if len(d.rows) == 0 {
			kind = "ok-empty"
		}
	} else if isFatal(lerr) {
		lawFail(o, "decode:"+fmtName(f)+":fatal", map[string]interface{}{"op": line, "error": firstLine(lerr.Error())})
		kind = "fatal"
	}
	o.Case(line, impl)
	o.Count("jdec:" + fmtName(f) + ":" + src + ":" + kind)
	o.NonTrivial(fmt.Sprintf("jdec|%s|%s|%s|%d|%x", fmtName(f), src, kind, len(data)/8, fnv(data)))
}

var _ = hex.EncodeToString
