package main

// Generators and the table/option vocabulary of the C02 streams.

import (
	"fmt"
	"strings"
	"time"
	"unicode"
	"unicode/utf8"

	"github.com/mithrandie/csvq/lib/option"
	"github.com/mithrandie/csvq/lib/query"
	"github.com/mithrandie/csvq/lib/value"
	"github.com/mithrandie/go-text"
	txjson "github.com/mithrandie/go-text/json"
	"github.com/mithrandie/ternary"

	"verifharness/hc"
)

type cell struct {
	val  value.Primary
	text string // what ConvertFieldContents makes of it
	kind byte   // 'N' NULL / no text and no effect, 'S' String or Datetime, 'R' number / boolean text
	al   byte   // 'L' 'C' 'R' alignment in fixed-length output
}

type table struct {
	header []string
	rows   [][]cell
}

func mkCell(v value.Primary) cell {
	s, effect, al := query.ConvertFieldContents(v, false, false)
	c := cell{val: v, text: s, al: 'L'}
	switch al {
	case text.Centering:
		c.al = 'C'
	case text.RightAligned:
		c.al = 'R'
	}
	switch v.(type) {
	case *value.Null:
		c.kind = 'N'
	case *value.String, *value.Datetime:
		c.kind = 'S'
	default:
		c.kind = 'R'
	}
	if (effect == option.StringEffect || effect == option.DatetimeEffect) != (c.kind == 'S') {
		panic("effect/kind mismatch")
	}
	return c
}

func (t *table) view() *query.View {
	v := query.NewView()
	v.Header = query.NewHeader("t", append([]string(nil), t.header...))
	v.RecordSet = make(query.RecordSet, len(t.rows))
	for i, r := range t.rows {
		vals := make([]value.Primary, len(r))
		for j := range r {
			vals[j] = r[j].val
		}
		v.RecordSet[i] = query.NewRecord(vals)
	}
	return v
}

type opts struct {
	format        option.Format
	delim         rune
	lb            text.LineBreak
	encloseAll    bool
	withoutHeader bool
	strip         bool
	enc           text.Encoding
	withoutNull   bool
	allowUneven   bool
	jsonEscape    txjson.EscapeType
	pretty        bool
	positions     []int // fixed-length: nil = automatic
	readPos       []int // fixed-length: positions used for READING only (nil = the same as positions)
	singleLine    bool
}

func fmtName(f option.Format) string {
	switch f {
	case option.CSV:
		return "csv"
	case option.TSV:
		return "tsv"
	case option.LTSV:
		return "ltsv"
	case option.FIXED:
		return "fixed"
	case option.JSON:
		return "json"
	case option.JSONL:
		return "jsonl"
	}
	return "?"
}

func fmtExt(f option.Format) string {
	switch f {
	case option.CSV:
		return ".csv"
	case option.TSV:
		return ".tsv"
	case option.LTSV:
		return ".ltsv"
	case option.FIXED:
		return ".txt"
	case option.JSON:
		return ".json"
	case option.JSONL:
		return ".jsonl"
	}
	return ".dat"
}

func lbName(lb text.LineBreak) string {
	switch lb {
	case text.LF:
		return "LF"
	case text.CRLF:
		return "CRLF"
	case text.CR:
		return "CR"
	}
	return "-"
}

func b01(b bool) string {
	if b {
		return "1"
	}
	return "0"
}

func (o opts) export() option.ExportOptions {
	e := option.NewExportOptions()
	e.Format = o.format
	e.Delimiter = o.delim
	e.LineBreak = o.lb
	e.EncloseAll = o.encloseAll
	e.WithoutHeader = o.withoutHeader
	e.StripEndingLineBreak = o.strip
	e.Encoding = o.enc
	e.JsonEscape = o.jsonEscape
	e.PrettyPrint = o.pretty
	e.DelimiterPositions = o.positions
	e.SingleLine = o.singleLine
	return e
}

func (o opts) sig() string {
	return fmt.Sprintf("%s d%d %s q%s h%s s%s %s n%s u%s j%d p%s P%v%s", fmtName(o.format), o.delim, lbName(o.lb), b01(o.encloseAll), b01(o.withoutHeader),
		b01(o.strip), o.enc, b01(o.withoutNull), b01(o.allowUneven), o.jsonEscape, b01(o.pretty), o.positions != nil, b01(o.singleLine))
}

// ---------- text repertoire ----------

var atomsSafe = []string{"a", "b", "Z", "0", "1", "-", ".", "_", "x y", "é", "ß", "日本", "あ", "ｱ", "😀", "NULL", "null", "true", "1.5", "abc", "Q"}
var atomsDelim = []string{",", "\t", ";", "|", " ", "  ", ":", "12:30", "a:b"}
var atomsQuote = []string{"\"", "\"\"", "'", "\\", "\\n", "\\\""}
var atomsBreak = []string{"\r", "\n", "\r\n", "\n\n", "x\ny"}
var atomsOdd = []string{string(rune(0x3000)), string(rune(0xA0)), string(rune(0x85)), string(rune(0x2028)), string(rune(0xFEFF)), string(rune(0x1)), string(rune(0xB)), string(rune(0xC)), string(rune(0x1F)), string(rune(0x7F)), string(rune(0x100000)), string(rune(0x301)), string(rune(0x200B))}

type risk struct {
	breaks bool // CR / LF inside texts
	odd    bool // unusual white space, control characters
	delims bool
	quotes bool
	blanks bool // leading / trailing blanks
	nul    bool
}

func genRisk(g *hc.Gen) risk {
	switch g.Intn(10) {
	case 0, 1:
		return risk{}
	case 2, 3, 4:
		return risk{delims: true, quotes: true, blanks: g.Intn(2) == 0}
	case 5:
		return risk{delims: true, quotes: true, blanks: true, odd: true}
	case 6:
		return risk{breaks: true, delims: g.Intn(2) == 0, quotes: g.Intn(2) == 0}
	}
	return risk{breaks: g.Intn(3) == 0, odd: g.Intn(3) == 0, delims: g.Intn(2) == 0, quotes: g.Intn(2) == 0, blanks: g.Intn(2) == 0, nul: g.Intn(12) == 0}
}

func genText(g *hc.Gen, r risk) string {
	if g.Intn(8) == 0 {
		return ""
	}
	pools := [][]string{atomsSafe, atomsSafe}
	if r.delims {
		pools = append(pools, atomsDelim)
	}
	if r.quotes {
		pools = append(pools, atomsQuote)
	}
	if r.breaks {
		pools = append(pools, atomsBreak)
	}
	if r.odd {
		pools = append(pools, atomsOdd)
	}
	n := 1 + g.Intn(4)
	var sb strings.Builder
	for i := 0; i < n; i++ {
		p := pools[g.Intn(len(pools))]
		sb.WriteString(p[g.Intn(len(p))])
	}
	s := sb.String()
	if r.nul && g.Intn(6) == 0 {
		s += "\x00"
	}
	if r.blanks && g.Intn(3) == 0 {
		s = g.Pick(" ", "  ", string(rune(9)), string(rune(0x3000)), string(rune(0xA0))) + s
	}
	if r.blanks && g.Intn(3) == 0 {
		s = s + g.Pick(" ", "  ", string(rune(9)), string(rune(0xA0)), string(rune(0x2028)))
	}
	return s
}

func genValue(g *hc.Gen, r risk) value.Primary {
	switch g.Intn(16) {
	case 0, 1:
		return value.NewNull()
	case 2:
		return value.NewInteger(g.Int64())
	case 3:
		return value.NewInteger(int64(g.Intn(200) - 50))
	case 4:
		return value.NewFloat(float64(g.Intn(2001)-1000) / 8)
	case 5:
		return value.NewBoolean(g.Intn(2) == 0)
	case 6:
		return value.NewTernary([]ternary.Value{ternary.TRUE, ternary.FALSE, ternary.UNKNOWN}[g.Intn(3)])
	case 7:
		return value.NewDatetime(time.Date(1990+g.Intn(50), time.Month(1+g.Intn(12)), 1+g.Intn(28), g.Intn(24), g.Intn(60), g.Intn(60), g.Intn(2)*g.Intn(1000000000), time.UTC))
	}
	return value.NewString(genText(g, r))
}

var simpleNames = []string{"id", "name", "c1", "c2", "col", "a", "b", "x", "y", "z", "A1", "val", "k_1", "n-2", "v.1", "Total"}

// header names: "simple" = distinct identifiers every format can carry as a label
func genHeader(g *hc.Gen, n int, r risk, simple bool) []string {
	h := make([]string, n)
	used := map[string]bool{}
	for i := range h {
		for {
			var s string
			if simple {
				s = simpleNames[g.Intn(len(simpleNames))]
				if g.Intn(3) == 0 {
					s += fmt.Sprint(g.Intn(9))
				}
			} else {
				s = genText(g, r)
				if i == 0 && strings.HasPrefix(s, bom) {
					continue // a leading U+FEFF in the first field of the file IS a byte order mark
				}
			}
			if simple && (used[strings.ToUpper(s)] || strings.Contains(s, ".")) {
				continue
			}
			used[strings.ToUpper(s)] = true
			h[i] = s
			break
		}
	}
	return h
}

func genTable(g *hc.Gen, r risk, simpleHeader bool, maxRows int) *table {
	nc := 1 + g.Intn(6)
	if g.Intn(5) == 0 {
		nc = 1 + g.Intn(2)
	}
	var nr int
	switch g.Intn(10) {
	case 0:
		nr = 0
	case 1, 2, 3:
		nr = 1 + g.Intn(3)
	case 4:
		nr = g.Intn(maxRows + 1)
	default:
		nr = 1 + g.Intn(8)
	}
	t := &table{header: genHeader(g, nc, r, simpleHeader), rows: make([][]cell, nr)}
	for i := range t.rows {
		t.rows[i] = make([]cell, nc)
		for j := range t.rows[i] {
			t.rows[i][j] = mkCell(genValue(g, r))
		}
	}
	// the first character of the file must not be U+FEFF (it would be a byte order mark)
	if len(t.rows) > 0 {
		if s, ok := t.rows[0][0].val.(*value.String); ok && strings.HasPrefix(s.Raw(), bom) {
			t.rows[0][0] = mkCell(value.NewString("a" + s.Raw()))
		}
	}
	return t
}

var csvDelims = []rune{',', ',', ',', ';', '|', ' ', ':', '\t'}
var lineBreaks = []text.LineBreak{text.LF, text.LF, text.CRLF, text.CR}

func genOpts(g *hc.Gen, f option.Format) opts {
	o := opts{format: f, delim: ',', lb: lineBreaks[g.Intn(len(lineBreaks))], enc: text.UTF8, jsonEscape: txjson.Backslash}
	o.strip = g.Intn(3) == 0
	switch f {
	case option.CSV:
		o.delim = csvDelims[g.Intn(len(csvDelims))]
	case option.TSV:
		o.delim = '\t'
	}
	switch f {
	case option.CSV, option.TSV:
		o.encloseAll = g.Intn(3) == 0
		o.withoutHeader = g.Intn(4) == 0
		o.withoutNull = g.Intn(4) == 0
		o.allowUneven = g.Intn(6) == 0
	case option.FIXED:
		o.withoutHeader = g.Intn(4) == 0
		o.withoutNull = g.Intn(4) == 0
	case option.LTSV:
		o.withoutNull = g.Intn(4) == 0
	case option.JSON, option.JSONL:
		o.jsonEscape = []txjson.EscapeType{txjson.Backslash, txjson.HexDigits, txjson.AllWithHexDigits}[g.Intn(3)]
		o.pretty = f == option.JSON && g.Intn(3) == 0
	}
	return o
}

// ---------- what the property expects to read back ----------

type dcell struct {
	null bool
	text string
}

type dtable struct {
	header []string
	rows   [][]dcell
}

func (d *dtable) String() string {
	var sb strings.Builder
	fmt.Fprintf(&sb, "%q", d.header)
	for _, r := range d.rows {
		sb.WriteString(" [")
		for j, c := range r {
			if j > 0 {
				sb.WriteByte(' ')
			}
			if c.null {
				sb.WriteString("NULL")
			} else {
				fmt.Fprintf(&sb, "%q", c.text)
			}
		}
		sb.WriteString("]")
	}
	return sb.String()
}

func (d *dtable) equal(e *dtable) bool {
	if len(d.header) != len(e.header) || len(d.rows) != len(e.rows) {
		return false
	}
	for i := range d.header {
		if d.header[i] != e.header[i] {
			return false
		}
	}
	for i := range d.rows {
		if len(d.rows[i]) != len(e.rows[i]) {
			return false
		}
		for j := range d.rows[i] {
			if d.rows[i][j] != e.rows[i][j] {
				return false
			}
		}
	}
	return true
}

// trimBlanks: what "drops edge blanks" means for fixed-length (Unicode white space at both ends)
func trimBlanks(s string) string { return strings.TrimFunc(s, unicode.IsSpace) }

// expected: the table the property says must come back (NULL and empty coincide where the format
// has one spelling for both; fixed-length drops edge blanks; header-less files are read as c1…cn)
func expected(t *table, o opts) *dtable {
	d := &dtable{header: make([]string, len(t.header)), rows: make([][]dcell, len(t.rows))}
	for i, h := range t.header {
		switch {
		case o.withoutHeader && (o.format == option.CSV || o.format == option.TSV || o.format == option.FIXED):
			d.header[i] = fmt.Sprintf("c%d", i+1)
		case o.format == option.FIXED:
			d.header[i] = trimBlanks(h)
		default:
			d.header[i] = h
		}
		// NewHeaderWithAutofill (fixed-length always, CSV/TSV under --allow-uneven-fields): a column
		// without a name is given the name __@i__
		if d.header[i] == "" && (o.format == option.FIXED || ((o.format == option.CSV || o.format == option.TSV) && o.allowUneven)) {
			d.header[i] = fmt.Sprintf("__@%d__", i+1)
		}
	}
	blank := dcell{null: !o.withoutNull}
	for i, r := range t.rows {
		d.rows[i] = make([]dcell, len(r))
		for j, c := range r {
			var e dcell
			switch o.format {
			case option.CSV, option.TSV:
				if c.text == "" && !(o.encloseAll && c.kind == 'S') {
					e = blank
				} else {
					e = dcell{text: c.text}
				}
			case option.LTSV:
				if c.text == "" {
					e = blank
				} else {
					e = dcell{text: c.text}
				}
			case option.FIXED:
				if s := trimBlanks(c.text); s == "" {
					e = blank
				} else {
					e = dcell{text: s}
				}
			default: // JSON, JSONL: null and "" are spelled differently
				if c.kind == 'N' || (c.kind == 'R' && c.text == "") {
					e = dcell{null: true}
				} else {
					e = dcell{text: c.text}
				}
			}
			d.rows[i][j] = e
		}
	}
	return d
}

// fromView: a loaded view as header + (NULL | text) cells
func fromView(v *query.View) *dtable {
	d := &dtable{header: make([]string, len(v.Header)), rows: make([][]dcell, len(v.RecordSet))}
	for i := range v.Header {
		d.header[i] = v.Header[i].Column
	}
	for i, r := range v.RecordSet {
		d.rows[i] = make([]dcell, len(r))
		for j := range r {
			p := r[j][0]
			if _, ok := p.(*value.Null); ok {
				d.rows[i][j] = dcell{null: true}
			} else if s, ok := p.(*value.String); ok {
				d.rows[i][j] = dcell{text: s.Raw()}
			} else {
				s, _, _ := query.ConvertFieldContents(p, false, false)
				d.rows[i][j] = dcell{text: s}
			}
		}
	}
	return d
}

func hasAny(t *table, header bool, pred func(string) bool) bool {
	if header {
		for _, h := range t.header {
			if pred(h) {
				return true
			}
		}
	}
	for _, r := range t.rows {
		for _, c := range r {
			if pred(c.text) {
				return true
			}
		}
	}
	return false
}

func validText(t *table) bool {
	return !hasAny(t, true, func(s string) bool { return !utf8.ValidString(s) })
}

var bom = string(rune(0xFEFF))

// ---------- the size band around the loaders' prepared capacity ----------

// fileLoadingPreparedRecordSetCap in lib/query/load_view.go: readRecordSet (CSV/TSV/LTSV/fixed) and the
// JSON Lines loader allocate room for this many records and re-allocate + copy when the file has more
const preparedCap = 300

// genBigRows: a record count in 280..700, weighted towards the capacity and its growth step
func genBigRows(g *hc.Gen) int {
	switch g.Intn(4) {
	case 0:
		return preparedCap - 2 + g.Intn(6) // 298..303
	case 1:
		return preparedCap + 1 + g.Intn(80) // just beyond: the re-allocated set is filled by append
	}
	return 280 + g.Intn(421)
}

// genBigTable: many records, short plain cells every format spells; column 0 identifies the record
func genBigTable(g *hc.Gen, nr int) *table {
	nc := 2 + g.Intn(2)
	t := &table{header: genHeader(g, nc, risk{}, true), rows: make([][]cell, nr)}
	words := []string{"a", "bc", "Q", "x_y", "k", "v1", "7", "é"}
	for i := range t.rows {
		t.rows[i] = make([]cell, nc)
		t.rows[i][0] = mkCell(value.NewString(fmt.Sprintf("r%d", i)))
		for j := 1; j < nc; j++ {
			switch g.Intn(6) {
			case 0:
				t.rows[i][j] = mkCell(value.NewInteger(int64(g.Intn(1000))))
			case 1:
				t.rows[i][j] = mkCell(value.NewNull())
			default:
				t.rows[i][j] = mkCell(value.NewString(words[g.Intn(len(words))]))
			}
		}
	}
	return t
}

// bigOpts: settings without any of the known-finding causes (UTF-8, LF or CRLF)
func bigOpts(g *hc.Gen, f option.Format) opts {
	o := genOpts(g, f)
	o.enc = text.UTF8
	if o.lb == text.CR {
		o.lb = text.CRLF
	}
	o.allowUneven = false
	return o
}
