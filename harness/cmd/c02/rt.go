package main

// Stream rt: the write-then-read law on the real code alone, and the ATTRIBUTION of a failure to
// its cause.  A law name names a cause only if removing exactly that cause from the input repairs
// the round trip (counterfactual re-runs on the real code); what no known cause explains is
// reported as roundtrip:<fmt>:other.

import (
	"encoding/hex"
	"fmt"
	"strings"

	"github.com/mithrandie/csvq/lib/option"
	"github.com/mithrandie/csvq/lib/query"
	"github.com/mithrandie/csvq/lib/value"
	"github.com/mithrandie/go-text"

	"verifharness/hc"
)

type rtResult struct {
	path    string // "proc" (the processor wrote it, with the ending line break) | "direct" (EncodeView only)
	data    []byte
	encErr  error
	ending  bool
	refuse  bool // the format cannot spell the table: an error is what the property asks for
	why     string
	outcome string // ok | refused | dataempty | refused_spellable | fail
	fail    string
	exp     *dtable
	got     *dtable
	fatal   bool
}

func (r *rtResult) passes() bool {
	return r.outcome == "ok" || r.outcome == "refused" || r.outcome == "dataempty"
}

// roundTrip: real write (through the processor when wantProc and the table can be built by SQL
// text), real load under the same settings, comparison with what the property expects.
func roundTrip(dir string, t *table, op opts, wantProc bool) *rtResult {
	r := &rtResult{path: "direct"}
	if wantProc {
		if d, e, ok := writeViaProc(dir, t, op); ok {
			r.path, r.data, r.encErr = "proc", d, e
			r.ending = !op.strip
		}
	}
	if r.path == "direct" {
		r.data, r.encErr = realEncode(t, op)
		if r.encErr == query.DataEmpty {
			r.data = nil
		}
	}
	r.refuse, r.why = refusalExpected(t, op, r.path == "proc")
	if r.encErr != nil && r.encErr != query.DataEmpty {
		if r.refuse {
			r.outcome = "refused"
		} else {
			r.outcome = "refused_spellable"
			r.fail = "refused: " + firstLine(r.encErr.Error())
		}
		return r
	}
	if r.encErr == query.DataEmpty || (r.refuse && (r.why == "no_rows" || r.why == "no_header_no_rows") && len(r.data) == 0) {
		r.outcome = "dataempty" // nothing is written at all (not an error on the command line)
		return r
	}
	lo := op
	if op.readPos != nil {
		lo.positions = op.readPos
	}
	v, lerr := realLoad(dir, "rt"+fmtExt(op.format), r.data, lo, op.enc, false)
	r.exp = expected(t, op)
	r.outcome = "ok"
	if lerr != nil {
		r.outcome, r.fail = "fail", "load error: "+firstLine(lerr.Error())
		r.fatal = isFatal(lerr)
	} else {
		r.got = fromView(v)
		if !r.got.equal(r.exp) {
			r.outcome, r.fail = "fail", "different table"
		}
	}
	return r
}

// ---------- causes and their repairs ----------

func (t *table) clone() *table {
	n := &table{header: append([]string(nil), t.header...), rows: make([][]cell, len(t.rows))}
	for i, r := range t.rows {
		n.rows[i] = append([]cell(nil), r...)
	}
	return n
}

// mapTexts rewrites header names (when header) and the texts of String cells
func mapTexts(t *table, header bool, f func(string) string) *table {
	n := t.clone()
	if header {
		for i, h := range n.header {
			n.header[i] = f(h)
		}
	}
	for i := range n.rows {
		for j, c := range n.rows[i] {
			if s, ok := c.val.(*value.String); ok {
				if x := f(s.Raw()); x != s.Raw() {
					n.rows[i][j] = mkCell(value.NewString(x))
				}
			}
		}
	}
	return n
}

func headerWritten(o opts) bool {
	return !o.withoutHeader || o.format == option.LTSV || o.format == option.JSON || o.format == option.JSONL
}

func unbreak(s string) string { return strings.NewReplacer("\r", "~", "\n", "~").Replace(s) }

func uniqueLabels(t *table) *table {
	n := t.clone()
	seen := map[string]bool{}
	for i, h := range n.header {
		for seen[h] {
			h += "x"
		}
		seen[h] = true
		n.header[i] = h
	}
	return n
}

// writerPositions: where the automatic fixed-length writer puts the delimiters (Measure + one
// inserted blank per column after the first)
func writerPositions(t *table, o opts) []int {
	var ps []int
	pos := 0
	for j := range t.header {
		w := 0
		if !o.withoutHeader {
			w = text.ByteSize(t.header[j], o.enc)
		}
		for _, row := range t.rows {
			w = max(w, text.ByteSize(row[j].text, o.enc))
		}
		if j > 0 {
			pos++
		}
		pos += w
		ps = append(ps, pos)
	}
	return ps
}

func emptyColumns(t *table, o opts) []int {
	var cols []int
	for j := range t.header {
		empty := o.withoutHeader || t.header[j] == ""
		for _, row := range t.rows {
			if row[j].text != "" {
				empty = false
			}
		}
		if empty {
			cols = append(cols, j)
		}
	}
	return cols
}

type cause struct {
	name    string
	applies func(t *table, o opts, r *rtResult) bool
	repair  func(t *table, o opts) (*table, opts)
}

var causeBreak = cause{"linebreak_in_cell",
	func(t *table, o opts, r *rtResult) bool { return hasAny(t, headerWritten(o), isBreak) },
	func(t *table, o opts) (*table, opts) { return mapTexts(t, true, unbreak), o }}

var causeCREnding = cause{"cr_ending_line_break",
	func(t *table, o opts, r *rtResult) bool { return r.ending && o.lb == text.CR },
	func(t *table, o opts) (*table, opts) { o.strip = true; return t, o }}

var causeEndingRaw = cause{"ending_line_break_not_transcoded",
	func(t *table, o opts, r *rtResult) bool { return r.ending && utf16Family(o.enc) },
	func(t *table, o opts) (*table, opts) { o.strip = true; return t, o }}

// for CSV / TSV / LTSV the two ending-line-break causes have independent repairs
var causeCREndingLB = cause{"cr_ending_line_break",
	func(t *table, o opts, r *rtResult) bool { return r.ending && o.lb == text.CR },
	func(t *table, o opts) (*table, opts) { o.lb = text.LF; return t, o }}

var causeEndingRawEnc = cause{"ending_line_break_not_transcoded",
	func(t *table, o opts, r *rtResult) bool { return r.ending && utf16Family(o.enc) },
	func(t *table, o opts) (*table, opts) { o.enc = text.UTF8; return t, o }}

var causeDupLabel = cause{"duplicate_label",
	func(t *table, o opts, r *rtResult) bool { return dupLabels(t.header) },
	func(t *table, o opts) (*table, opts) { return uniqueLabels(t), o }}

func causesFor(f option.Format) []cause {
	switch f {
	case option.CSV, option.TSV:
		return []cause{causeBreak,
			{"single_column_empty",
				func(t *table, o opts, r *rtResult) bool {
					return len(t.header) == 1 && hasAny(t, headerWritten(o), func(s string) bool { return s == "" })
				},
				func(t *table, o opts) (*table, opts) {
					n := mapTexts(t, true, func(s string) string {
						if s == "" {
							return "e"
						}
						return s
					})
					for i := range n.rows {
						for j, c := range n.rows[i] {
							if c.text == "" {
								n.rows[i][j] = mkCell(value.NewString("e"))
							}
						}
					}
					return n, o
				}},
			causeCREndingLB, causeEndingRawEnc}
	case option.LTSV:
		return []cause{
			{"colon_in_value",
				func(t *table, o opts, r *rtResult) bool {
					return hasAny(t, false, func(s string) bool { return strings.Contains(s, ":") })
				},
				func(t *table, o opts) (*table, opts) {
					n := t.clone()
					for i := range n.rows {
						for j, c := range n.rows[i] {
							if strings.Contains(c.text, ":") {
								n.rows[i][j] = mkCell(value.NewString(strings.ReplaceAll(c.text, ":", "")))
							}
						}
					}
					return n, o
				}},
			{"single_field_record",
				func(t *table, o opts, r *rtResult) bool { return len(t.header) == 1 },
				func(t *table, o opts) (*table, opts) {
					n := t.clone()
					n.header = append(n.header, "zz9")
					for i := range n.rows {
						n.rows[i] = append(n.rows[i], mkCell(value.NewString("1")))
					}
					return n, o
				}},
			causeDupLabel, causeCREndingLB, causeEndingRawEnc}
	case option.FIXED:
		return []cause{causeBreak,
			{"empty_column",
				func(t *table, o opts, r *rtResult) bool {
					return o.positions == nil && r.encErr != nil && strings.Contains(r.encErr.Error(), "invalid delimiter position") && len(emptyColumns(t, o)) > 0
				},
				func(t *table, o opts) (*table, opts) {
					n := t.clone()
					for _, j := range emptyColumns(t, o) {
						for i := range n.rows {
							n.rows[i][j] = mkCell(value.NewString("e"))
						}
						if len(n.rows) == 0 {
							n.header[j] = "e"
						}
					}
					return n, o
				}},
			causeCREnding, causeEndingRaw,
			{"cr_line_break_automatic_positions",
				func(t *table, o opts, r *rtResult) bool { return o.positions == nil && o.lb == text.CR },
				func(t *table, o opts) (*table, opts) { o.lb = text.LF; return t, o }},
			{"utf16_padding",
				func(t *table, o opts, r *rtResult) bool { return utf16Family(o.enc) },
				func(t *table, o opts) (*table, opts) { o.enc = text.UTF8; return t, o }},
			// the loader must hand the WHOLE file to the position detection: the positions go-text's detector finds on
			// the whole written file, given explicitly, read the file back — so the heuristic (F16) is not the cause
			{"positions_not_detected_on_whole_file",
				func(t *table, o opts, r *rtResult) bool { return o.positions == nil && r.encErr == nil && len(r.data) > 0 },
				func(t *table, o opts) (*table, opts) {
					wo := o
					wo.positions, wo.readPos = nil, nil
					if b, err := realEncode(t, wo); err == nil {
						if ps := wholeFilePositions(append(b, wo.lb.Value()...), wo); ps != nil {
							o.readPos = ps
						}
					}
					return t, o
				}},
			{"automatic_positions",
				func(t *table, o opts, r *rtResult) bool { return o.positions == nil },
				func(t *table, o opts) (*table, opts) { o.readPos = writerPositions(t, o); return t, o }},
		}
	case option.JSON, option.JSONL:
		cs := []cause{
			{"empty_table_header",
				func(t *table, o opts, r *rtResult) bool { return len(t.rows) == 0 },
				func(t *table, o opts) (*table, opts) {
					n := t.clone()
					row := make([]cell, len(n.header))
					for j := range row {
						row[j] = mkCell(value.NewString("1"))
					}
					n.rows = [][]cell{row}
					return n, o
				}},
			causeDupLabel,
			{"json_text_in_string",
				func(t *table, o opts, r *rtResult) bool {
					return hasAny(t, false, func(s string) bool {
						u := strings.TrimLeft(s, " \t\r\n")
						return strings.HasPrefix(u, "[") || strings.HasPrefix(u, "{")
					})
				},
				func(t *table, o opts) (*table, opts) {
					return mapTexts(t, false, func(s string) string {
						u := strings.TrimLeft(s, " \t\r\n")
						if strings.HasPrefix(u, "[") || strings.HasPrefix(u, "{") {
							return "x" + s
						}
						return s
					}), o
				}},
			{"trailing_backslash",
				func(t *table, o opts, r *rtResult) bool {
					return hasAny(t, true, func(s string) bool { return strings.HasSuffix(s, "\\") })
				},
				func(t *table, o opts) (*table, opts) {
					return mapTexts(t, true, func(s string) string {
						if strings.HasSuffix(s, "\\") {
							return s + "x"
						}
						return s
					}), o
				}},
			{"large_integer",
				func(t *table, o opts, r *rtResult) bool { return hasLargeInt(t) },
				func(t *table, o opts) (*table, opts) {
					n := t.clone()
					for i := range n.rows {
						for j, c := range n.rows[i] {
							if v, ok := c.val.(*value.Integer); ok && (v.Raw() > 1<<53 || v.Raw() < -(1<<53)) {
								n.rows[i][j] = mkCell(value.NewInteger(1))
							}
						}
					}
					return n, o
				}},
		}
		if f == option.JSONL {
			cs = append(cs,
				cause{"cr_line_break",
					func(t *table, o opts, r *rtResult) bool { return o.lb == text.CR },
					func(t *table, o opts) (*table, opts) { o.lb = text.LF; return t, o }},
				cause{"blank_last_line",
					func(t *table, o opts, r *rtResult) bool { return r.ending },
					func(t *table, o opts) (*table, opts) { o.strip = true; return t, o }})
		}
		return cs
	}
	return nil
}

// attribute: which causes explain the failure r of (t, op)?
//
//	all  = every applicable cause repaired; if that still fails nothing known explains it → "other"
//	a cause is reported when it is NECESSARY: with every other applicable cause repaired the round
//	trip still fails.  If none is necessary (two repairs overlap), the first cause whose repair alone
//	suffices is reported, else all applicable ones (they fail only jointly).
func attribute(dir string, t *table, op opts, r *rtResult) (names []string, how string, trials int) {
	var app []cause
	for _, c := range causesFor(op.format) {
		if c.applies(t, op, r) {
			app = append(app, c)
		}
	}
	other := "other"
	if r.outcome == "refused_spellable" {
		other = "refused_spellable"
	} else if r.got != nil && r.exp != nil && len(r.got.rows) != len(r.exp.rows) {
		other = "record_count" // records lost or invented, and no known cause explains it
	}
	if len(app) == 0 {
		return []string{other}, "no-known-cause-present", 0
	}
	run := func(skip int, only int) bool {
		tt, oo := t, op
		for k, c := range app {
			if k == skip || (only >= 0 && k != only) {
				continue
			}
			tt, oo = c.repair(tt, oo)
		}
		trials++
		return roundTrip(dir, tt, oo, r.path == "proc").passes()
	}
	if !run(-1, -1) {
		return []string{other}, "fails-with-all-known-causes-repaired", trials
	}
	if len(app) == 1 {
		return []string{app[0].name}, "sole-cause-present", trials
	}
	for k, c := range app {
		if !run(k, -1) {
			names = append(names, c.name)
		}
	}
	if len(names) > 0 {
		return names, "necessary", trials
	}
	for k, c := range app {
		if run(-1, k) {
			return []string{c.name}, "sufficient-alone", trials
		}
	}
	for _, c := range app {
		names = append(names, c.name)
	}
	return names, "jointly", trials
}

// rtRun: one write-then-read case (generated, or from the corpus) with its laws
func rtRun(o *hc.Out, dir string, t *table, op opts, wantProc bool, tag string) (*rtResult, []string) {
	name := fmtName(op.format)
	r := roundTrip(dir, t, op, wantProc)
	o.Count("rt:" + name + ":" + r.path)
	o.Count("rt:enc:" + encName(op.enc))
	replay := func(extra map[string]interface{}) map[string]interface{} {
		m := map[string]interface{}{"format": name, "options": op.sig(), "path": r.path, "header": t.header, "rows": rowsForReplay(t), "written_hex": hex.EncodeToString(r.data)}
		if tag != "" {
			m["corpus"] = tag
		}
		for k, v := range extra {
			m[k] = v
		}
		return m
	}
	sigBase := fmt.Sprintf("rt|%s|%s|%s|%s", op.sig(), r.path, textClasses(t), dimClass(t))
	if r.encErr != nil && r.encErr != query.DataEmpty && len(r.data) > 0 {
		lawFail(o, "refuse:"+name+":"+partialOutputLaw(t, op, r.why, r.data), replay(map[string]interface{}{"error": firstLine(r.encErr.Error()), "emitted_bytes": len(r.data)}))
	}
	if r.refuse && r.outcome != "refused" && r.outcome != "dataempty" {
		// written although the format cannot spell it: the read-back decides whether it matters
		o.Count("rt:" + name + ":unspellable_written:" + r.why)
	}
	o.Count("rt:" + name + ":" + r.outcome)
	if r.fatal {
		o.Count("rt:" + name + ":fatal_on_load")
	}
	var names []string
	if !r.passes() {
		var how string
		var trials int
		names, how, trials = attribute(dir, t, op, r)
		extra := map[string]interface{}{"failure": r.fail, "attribution": how, "causes": names}
		if r.exp != nil {
			extra["expected"] = clip(r.exp.String())
			extra["expected_records"] = len(r.exp.rows)
		}
		if r.got != nil {
			extra["loaded"] = clip(r.got.String())
			extra["loaded_records"] = len(r.got.rows)
			if r.exp != nil {
				extra["first_middle_last"] = sampleRows(r.exp, r.got)
			}
		}
		for _, n := range names {
			lawFail(o, "roundtrip:"+name+":"+n, replay(extra))
		}
		o.Count(fmt.Sprintf("rt:attribution:%s", how))
		o.Count(fmt.Sprintf("rt:attribution_trials:%d", trials))
		o.NonTrivial(sigBase + "|fail:" + strings.Join(names, "+"))
	} else {
		o.NonTrivial(sigBase + "|" + r.outcome + ":" + r.why)
	}
	o.Case("c02.nop", "ok")
	return r, names
}

func clip(s string) string {
	if len(s) > 1500 {
		return s[:1500] + "…"
	}
	return s
}

// sampleRows: first / middle / last record of what was expected and of what was loaded
func sampleRows(exp, got *dtable) map[string]string {
	pick := func(d *dtable) string {
		if len(d.rows) == 0 {
			return "(no records)"
		}
		s := &dtable{header: d.header, rows: [][]dcell{d.rows[0], d.rows[len(d.rows)/2], d.rows[len(d.rows)-1]}}
		return s.String()
	}
	return map[string]string{"expected": pick(exp), "loaded": pick(got)}
}

var bigFormats = []option.Format{option.CSV, option.TSV, option.LTSV, option.FIXED, option.FIXED, option.JSONL, option.JSONL, option.JSON}

// bigCase: the write-then-read law on tables of 280-700 records (the loaders prepare room for 300
// records and re-allocate beyond that)
func bigCase(g *hc.Gen, o *hc.Out, dir string) {
	f := bigFormats[g.Intn(len(bigFormats))]
	op := bigOpts(g, f)
	t := genBigTable(g, genBigRows(g))
	if f == option.FIXED && g.Intn(2) == 0 {
		op.positions = writerPositionsPlain(t, op)
	}
	o.Count(fmt.Sprintf("big:%s:%s", fmtName(f), sizeBand(len(t.rows))))
	rtRun(o, dir, t, op, g.Intn(5) == 0, "")
}

func sizeBand(n int) string {
	switch {
	case n < preparedCap:
		return "below_cap"
	case n == preparedCap:
		return "at_cap"
	case n <= preparedCap+80:
		return "just_above_cap"
	}
	return "above_cap"
}

// writerPositionsPlain: explicit positions wide enough for every text (no inserted blanks)
func writerPositionsPlain(t *table, o opts) []int {
	var ps []int
	pos := 0
	for j := range t.header {
		w := 1
		if !o.withoutHeader {
			w = max(w, text.ByteSize(t.header[j], o.enc))
		}
		for _, row := range t.rows {
			w = max(w, text.ByteSize(row[j].text, o.enc))
		}
		pos += w + 1
		ps = append(ps, pos)
	}
	return ps
}

var jsonLooking = []string{"[1, 2]", "[1,2]", "{\"a\": 1}", "{\"a\":1.50}", "[\"[1]\"]", "[", "{}", "[]", " [ ] ", "[1e2]", "{\"k\":[true,null]}", "[x]", "{a}", "[\"a\" ,\"b\"]", "{\"k\" : \"v\"}"}

func rtCase(g *hc.Gen, o *hc.Out, dir string) {
	f := rtFormats[g.Intn(len(rtFormats))]
	op := genOpts(g, f)
	if f != option.JSON && f != option.JSONL {
		op.enc = rtEncodings[g.Intn(len(rtEncodings))]
	}
	r := genRisk(g)
	if g.Intn(2) == 0 {
		r.breaks = false
	}
	simple := f == option.JSON || f == option.JSONL || g.Intn(3) != 0
	t := genTable(g, r, simple, 50)
	if op.enc == text.SJIS && g.Intn(4) != 0 {
		// mostly tables Shift_JIS can carry
		for !encodable(t, op.enc) {
			r.odd = false
			t = genTable(g, r, true, 50)
			for i := range t.rows {
				for j := range t.rows[i] {
					if s, ok := t.rows[i][j].val.(*value.String); ok && !encodable(&table{header: []string{s.Raw()}}, op.enc) {
						t.rows[i][j] = mkCell(value.NewString("日本 ｱ"))
					}
				}
			}
		}
	}
	if f == option.FIXED && g.Intn(3) == 0 {
		op.positions = genPositions(g, t, op)
	}
	if (f == option.JSON || f == option.JSONL) && g.Intn(3) == 0 {
		// texts that are themselves JSON (F73: the encoder embeds them) or look like it
		for k := 1 + g.Intn(2); k > 0 && len(t.rows) > 0; k-- {
			t.rows[g.Intn(len(t.rows))][g.Intn(len(t.header))] = mkCell(value.NewString(jsonLooking[g.Intn(len(jsonLooking))]))
		}
	}
	rtRun(o, dir, t, op, g.Intn(10) < 7, "")
}
