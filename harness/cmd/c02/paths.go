package main

// "Refuse or spell" for LISTS of JSON column names (column names are paths into nested objects, lib/json):
// a list has a lossless spelling exactly when every name is a path and no path is a prefix of another — then
// the writers must write it so that every value is found at its own path; every other list (a name that is a
// prefix path of another IN EITHER ORDER, duplicates, empty segments) must be refused.
//
//	op    c02.jspell <ncols> <hdr…>        the model's decision (Csvq.Json.pathsSpellable): spell | refuse
//	impl  what the real encoder did with a one-record table of these names:
//	      refuse | spell (written, every value at its path, no object with a repeated key) | lossy (written otherwise)
//	law   refuse_or_spell:<fmt>:conflicting_paths_written   a list that must be refused was written
//	      refuse_or_spell:<fmt>:spellable_paths_lost        a list that must be spelled was refused / written lossy
//
// Lists with two equal paths are the known finding F40 (law roundtrip:*:duplicate_label), keys ending in a backslash
// the known finding F27 (roundtrip:*:trailing_backslash); both are left to those laws.
// A later name that is a proper prefix path of an earlier one (`a.b`, `a`) is written with a repeated key on the
// unchanged tree (reported, neither repaired nor recorded yet): those lists are generated under
// VERIF_C02_PENDING=1 only.

import (
	"fmt"
	"strings"

	"github.com/mithrandie/csvq/lib/option"
	"github.com/mithrandie/go-text"
	txjson "github.com/mithrandie/go-text/json"

	"verifharness/hc"
)

// splitPath: the segments of a column name (lib/json PathScanner: '.' separates, `\.` and `\\` are escapes but
// not at the start of a segment); ok=false for an empty segment.  Used to choose what is generated and to say
// what is wrong in the replay — the decision itself is the model's.
func splitPath(s string) (segs []string, ok bool) {
	if s == "" {
		return []string{""}, true
	}
	r := []rune(s)
	unesc := func(raw []rune) string {
		var out []rune
		for i := 0; i < len(raw); i++ {
			if raw[i] == '\\' && i+1 < len(raw) {
				if raw[i+1] == '.' || raw[i+1] == '\\' {
					out = append(out, raw[i+1])
				} else {
					out = append(out, raw[i], raw[i+1])
				}
				i++
				continue
			}
			out = append(out, raw[i])
		}
		return string(out)
	}
	i := 0
	for {
		// the first character of a segment is taken as it is, unless it is the separator
		if i >= len(r) || r[i] == '.' {
			return nil, false
		}
		raw := []rune{r[i]}
		i++
		for i < len(r) && r[i] != '.' {
			if r[i] == '\\' && i+1 < len(r) {
				raw = append(raw, r[i], r[i+1])
				i += 2
				continue
			}
			raw = append(raw, r[i])
			i++
		}
		segs = append(segs, unesc(raw))
		if i >= len(r) {
			return segs, true
		}
		i++ // the separator
	}
}

func isPrefixPath(p, q []string) bool {
	if len(p) > len(q) {
		return false
	}
	for i := range p {
		if p[i] != q[i] {
			return false
		}
	}
	return true
}

// pathListKind: parse_error | duplicate | shorter_first (a name is a proper prefix path of a LATER name) |
// longer_first (… of an EARLIER name) | spellable
func pathListKind(names []string) string {
	ps := make([][]string, len(names))
	for i, n := range names {
		p, ok := splitPath(n)
		if !ok {
			return "parse_error"
		}
		ps[i] = p
	}
	kind := "spellable"
	for i := range ps {
		for j := i + 1; j < len(ps); j++ {
			a, b := isPrefixPath(ps[i], ps[j]), isPrefixPath(ps[j], ps[i])
			switch {
			case a && b:
				return "duplicate"
			case b:
				kind = "longer_first"
			case a && kind == "spellable":
				kind = "shorter_first"
			}
		}
	}
	return kind
}

// lossless: the written record has every value at the path of its column, and no object repeats a key
func lossless(data []byte, f option.Format, names []string, vals []string) (bool, string) {
	src := string(data)
	if f == option.JSONL {
		src = strings.TrimRight(src, "\r\n")
	}
	st, _, err := txjson.NewDecoder().Decode(src)
	if err != nil {
		return false, "the written text does not parse: " + firstLine(err.Error())
	}
	if f == option.JSON {
		ar, ok := st.(txjson.Array)
		if !ok || len(ar) != 1 {
			return false, "not an array of one record"
		}
		st = ar[0]
	}
	rec, ok := st.(txjson.Object)
	if !ok {
		return false, "the record is not an object"
	}
	var repeated func(o txjson.Object, at string) string
	repeated = func(o txjson.Object, at string) string {
		seen := map[string]bool{}
		for _, m := range o.Members {
			if seen[m.Key] {
				return fmt.Sprintf("the object at %q has the key %q twice", at, m.Key)
			}
			seen[m.Key] = true
			if sub, ok := m.Value.(txjson.Object); ok {
				if r := repeated(sub, at+"/"+m.Key); r != "" {
					return r
				}
			}
		}
		return ""
	}
	if r := repeated(rec, ""); r != "" {
		return false, r
	}
	for j, n := range names {
		segs, ok := splitPath(n)
		if !ok {
			return false, "a name that is no path was written"
		}
		var cur txjson.Structure = rec
		for _, s := range segs {
			o, ok := cur.(txjson.Object)
			if !ok || !o.Exists(s) {
				return false, fmt.Sprintf("nothing at the path of column %q", n)
			}
			cur = o.Value(s)
		}
		if v, ok := cur.(txjson.String); !ok || v.Raw() != vals[j] {
			return false, fmt.Sprintf("the value at the path of column %q is not the column's", n)
		}
	}
	return true, ""
}

func jspellRun(o *hc.Out, dir string, f option.Format, names []string, tag string) {
	kind := pathListKind(names)
	name := fmtName(f)
	if kind == "duplicate" {
		o.Count("jspell:skipped:duplicate_paths_F40")
		return
	}
	for _, n := range names {
		if segs, ok := splitPath(n); ok {
			for _, sg := range segs {
				if strings.HasSuffix(sg, "\\") {
					// F27: a key ending in a backslash is written so that the scanner rejects the text
					o.Count("jspell:skipped:trailing_backslash_F27")
					return
				}
			}
		}
	}
	if kind == "longer_first" && !pendingCases {
		o.Count("pending:skipped:json_prefix_path_after_longer_path")
		return
	}
	row := make([]cell, len(names))
	vals := make([]string, len(names))
	hs := make([]string, len(names))
	for j := range names {
		vals[j] = fmt.Sprintf("v%d", j)
		row[j] = cS(vals[j])
		hs[j] = "S" + hx(names[j])
	}
	t := tbl(names, row)
	op := baseOpts(f)
	b, err := realEncode(t, op)
	impl, why := "refuse", ""
	if err == nil {
		impl = "lossy"
		var ok bool
		if ok, why = lossless(b, f, names, vals); ok {
			impl = "spell"
		}
	} else {
		why = firstLine(err.Error())
	}
	line := fmt.Sprintf("c02.jspell %d %s", len(names), strings.Join(hs, " "))
	o.Case(line, impl)
	o.Count("jspell:" + name + ":" + kind + ":" + impl)
	o.NonTrivial("jspell|" + name + "|" + kind + "|" + impl + "|" + strings.Join(names, "\x00"))
	if tag != "" {
		o.Count("corpus:" + tag + ":" + impl)
	}
	mustSpell := kind == "spellable"
	if mustSpell == (impl == "spell") && (mustSpell || impl == "refuse") {
		return
	}
	// the reproducer on the command line
	var sel []string
	for j, n := range names {
		sel = append(sel, fmt.Sprintf("'%s' AS %s", vals[j], option.QuoteIdentifier(n)))
	}
	replay := map[string]interface{}{"format": name, "column_names": names, "kind": kind, "encoder": impl, "detail": why, "written": string(b), "op": line,
		"csvq_args": []string{"-f", strings.ToUpper(name), "SELECT " + strings.Join(sel, ", ")}}
	if tag != "" {
		replay["corpus"] = tag
	}
	if err == nil {
		// what csvq itself reads back from what it wrote
		if v, lerr := realLoad(dir, "jp"+fmtExt(f), append(append([]byte{}, b...), '\n'), op, text.UTF8, false); lerr == nil {
			replay["csvq_reads_back"] = fromView(v).String()
		} else {
			replay["csvq_reads_back"] = "error: " + firstLine(lerr.Error())
		}
	}
	if mustSpell {
		lawFail(o, "refuse_or_spell:"+name+":spellable_paths_lost", replay)
	} else {
		lawFail(o, "refuse_or_spell:"+name+":conflicting_paths_written", replay)
	}
}

func jspellCase(g *hc.Gen, o *hc.Out, dir string) {
	f := []option.Format{option.JSON, option.JSONL}[g.Intn(2)]
	n := 2 + g.Intn(3)
	names := make([]string, n)
	for j := range names {
		names[j] = pathNames[g.Intn(len(pathNames))]
	}
	jspellRun(o, dir, f, names, "")
}

// jspellCorpus: both orders of every kind of conflict, whatever the seed
func jspellCorpus(o *hc.Out, dir string) {
	for _, f := range []option.Format{option.JSON, option.JSONL} {
		for i, names := range [][]string{
			{"a", "a.b"}, {"a.b", "a"}, {"a.b", "a.b.c"}, {"a.b.c", "a.b"}, {"x", "a.b.c", "y", "a"}, {"a", "x", "a.b.c"},
			{"a.b", "a.c"}, {"a.b", "b.a", "c"}, {"a\\.b", "a"}, {"a..b", "c"}, {"c", ".a"}, {"a.", "a"}, {"", "a"}, {"a.b.c", "a.b.d", "a.e"},
		} {
			jspellRun(o, dir, f, names, fmt.Sprintf("jspell.%s.%d.%s", fmtName(f), i, pathListKind(names)))
		}
	}
}
