package main

// The deterministic corpus of C02: it runs first on every run, whatever the seed.
//   * one minimal witness per known finding (so that each finding is re-established, and printed as
//     KNOWN-FINDING, on every run; when a finding gets fixed its witness simply passes and the
//     count corpus:<id>:ok says so);
//   * one witness per defect that has been FIXED in /repo (these must pass; a regression is
//     reported under the law name of the defect).

import (
	"strconv"

	"github.com/mithrandie/csvq/lib/option"
	"github.com/mithrandie/csvq/lib/value"
	"github.com/mithrandie/go-text"
	txjson "github.com/mithrandie/go-text/json"

	"verifharness/hc"
)

func itoa(i int) string { return strconv.Itoa(i) }

func cS(s string) cell { return mkCell(value.NewString(s)) }
func cI(i int64) cell  { return mkCell(value.NewInteger(i)) }

func tbl(header []string, rows ...[]cell) *table { return &table{header: header, rows: rows} }

func baseOpts(f option.Format) opts {
	o := opts{format: f, delim: ',', lb: text.LF, enc: text.UTF8, jsonEscape: txjson.Backslash}
	if f == option.TSV {
		o.delim = '\t'
	}
	return o
}

type rtWitness struct {
	id   string
	t    *table
	op   opts
	proc bool
}

func corpus(o *hc.Out, dir string) {
	ab := []string{"a", "b"}
	with := func(f option.Format, mod func(*opts)) opts {
		op := baseOpts(f)
		if mod != nil {
			mod(&op)
		}
		return op
	}
	crEnd := func(op *opts) { op.lb = text.CR }
	utf16 := func(op *opts) { op.enc = text.UTF16 }
	strip := func(op *opts) { op.strip = true }
	sjis := func(op *opts) { op.enc = text.SJIS }
	ws := []rtWitness{
		// ---- known findings ----
		{"F13.ltsv.colon_in_value", tbl(ab, []cell{cS("12:30"), cI(2)}), with(option.LTSV, strip), true},
		{"F23.csv.single_column_empty", tbl([]string{"a"}, []cell{cS("")}, []cell{cS("z")}), with(option.CSV, strip), true},
		{"F23.tsv.single_column_empty", tbl([]string{"a"}, []cell{mkCell(value.NewNull())}, []cell{cS("z")}), with(option.TSV, strip), true},
		{"F24.csv.cr_ending_line_break", tbl(ab, []cell{cI(1), cI(2)}), with(option.CSV, crEnd), true},
		{"F24.tsv.cr_ending_line_break", tbl(ab, []cell{cI(1), cI(2)}), with(option.TSV, crEnd), true},
		{"F24.ltsv.cr_ending_line_break", tbl(ab, []cell{cI(1), cI(2)}), with(option.LTSV, crEnd), true},
		{"F24.fixed.cr_ending_line_break", tbl(ab, []cell{cI(1), cI(2)}), with(option.FIXED, func(op *opts) { op.lb = text.CR; op.positions = []int{2, 4} }), true},
		{"F24.jsonl.cr_line_break", tbl(ab, []cell{cI(1), cS("x")}, []cell{cI(2), cS("y")}), with(option.JSONL, func(op *opts) { op.lb = text.CR; op.strip = true }), true},
		{"F24.fixed.cr_line_break_automatic_positions", tbl(ab, []cell{cS("abc"), cI(2)}), with(option.FIXED, func(op *opts) { op.lb = text.CR; op.strip = true }), true},
		{"fixed.F25.csv.utf16_ending_line_break", tbl(ab, []cell{cS("x"), cI(2)}), with(option.CSV, utf16), true},
		{"fixed.F25.tsv.utf16_ending_line_break", tbl(ab, []cell{cS("x"), cI(2)}), with(option.TSV, utf16), true},
		{"fixed.F25.ltsv.utf16_ending_line_break", tbl(ab, []cell{cS("x"), cI(2)}), with(option.LTSV, utf16), true},
		{"F26.ltsv.single_field_record", tbl([]string{"a"}, []cell{cI(1)}, []cell{cI(2)}), with(option.LTSV, strip), true},
		{"F16.fixed.utf16_padding", tbl(ab, []cell{cS("abc"), cI(2)}), with(option.FIXED, func(op *opts) { op.enc = text.UTF16; op.strip = true }), true},
		{"F16.fixed.automatic_positions", tbl(ab, []cell{cS("x y"), cI(1)}, []cell{cS("x y"), cI(2)}), with(option.FIXED, strip), true},
		{"F16.fixed.linebreak_in_cell", tbl(ab, []cell{cS("x\ny"), cI(2)}), with(option.FIXED, strip), true},
		{"F16.fixed.empty_column", tbl(ab, []cell{cS(""), cI(2)}), with(option.FIXED, func(op *opts) { op.withoutHeader = true; op.strip = true }), true},
		{"F27.json.large_integer", tbl(ab, []cell{cI(9007199254740993), cI(2)}), with(option.JSON, strip), true},
		{"F27.jsonl.large_integer", tbl(ab, []cell{cI(9007199254740993), cI(2)}), with(option.JSONL, strip), true},
		{"F27.json.trailing_backslash", tbl(ab, []cell{cS("a\\"), cI(2)}), with(option.JSON, strip), true},
		{"F27.jsonl.trailing_backslash", tbl(ab, []cell{cS("a\\"), cI(2)}), with(option.JSONL, strip), true},
		{"F27.json.empty_table_header", tbl(ab), with(option.JSON, strip), true},
		{"F27.jsonl.empty_table_header", tbl(ab), with(option.JSONL, strip), true},
		{"new.ltsv.duplicate_label", tbl([]string{"a", "a"}, []cell{cI(1), cI(2)}), with(option.LTSV, strip), false},
		{"new.json.duplicate_label", tbl([]string{"a", "a"}, []cell{cI(1), cI(2)}), with(option.JSON, strip), false},
		{"new.jsonl.duplicate_label", tbl([]string{"a", "a"}, []cell{cI(1), cI(2)}), with(option.JSONL, strip), false},
		{"F73.json.json_text_in_string", tbl(ab, []cell{cS("[1, 2]"), cS("{\"k\" : 1.50}")}), with(option.JSON, strip), true},
		{"F73.jsonl.json_text_in_string", tbl(ab, []cell{cS("[1, 2]"), cI(2)}), with(option.JSONL, strip), true},
		{"F16c.csv.partial_output", tbl(ab, []cell{cS("abc"), cS("é")}), with(option.CSV, sjis), true},
		{"F16c.tsv.partial_output", tbl(ab, []cell{cS("abc"), cS("é")}), with(option.TSV, sjis), true},
		{"F16c.ltsv.partial_output", tbl(ab, []cell{cS("abc"), cS("é")}), with(option.LTSV, sjis), true},
		{"F16c.fixed.partial_output", tbl(ab, []cell{cS("abc"), cS("é")}), with(option.FIXED, sjis), true},
		// ---- fixed in /repo: must pass ----
		{"fixed.F12.csv.linebreak_in_cell", tbl([]string{"h\n1", "b"}, []cell{cS("x\ny"), cS("r\rs")}, []cell{cS("\r\n"), cI(2)}), with(option.CSV, nil), true},
		{"fixed.F12.tsv.linebreak_in_cell", tbl([]string{"h\n1", "b"}, []cell{cS("x\ny"), cS("r\rs")}, []cell{cS("\r\n"), cI(2)}), with(option.TSV, func(op *opts) { op.lb = text.CRLF }), true},
		{"fixed.F12.csv.linebreak_single_column", tbl([]string{"a"}, []cell{cS("x\ny")}), with(option.CSV, nil), true},
		{"fixed.F29.jsonl.csvq_written_file_reloads", tbl(ab, []cell{cI(1), cS("x")}, []cell{cI(2), cS("y")}), with(option.JSONL, nil), true},
	}
	// ---- the size band: one record more than the loaders' prepared capacity; must pass ----
	bigT := func() *table {
		t := &table{header: []string{"id", "v"}, rows: make([][]cell, preparedCap+1)}
		for i := range t.rows {
			t.rows[i] = []cell{cS("r" + itoa(i)), cI(int64(i % 7))}
		}
		return t
	}
	for _, f := range []option.Format{option.CSV, option.TSV, option.LTSV, option.FIXED, option.JSONL, option.JSON} {
		ws = append(ws, rtWitness{"size." + fmtName(f) + ".301_records", bigT(), with(f, nil), f == option.CSV})
	}
	for _, w := range ws {
		r, names := rtRun(o, dir, w.t, w.op, w.proc, w.id)
		out := r.outcome
		if r.encErr != nil && len(r.data) > 0 {
			out += "+partial_output"
		}
		for _, n := range names {
			out += "+" + n
		}
		o.Count("corpus:" + w.id + ":" + out)
	}
	// ---- refused COMMIT, repair, COMMIT: the committed file is that of a run without the refused attempt ----
	for _, hk := range historyKinds {
		historyRun(o, dir, hk, 600, 590, 20, text.LF, "history."+hk.name)
	}
	// ---- tables CREATED in the session: the export side prescribes the dialect, the import-side twins differ ----
	crT := func() *table {
		return tbl([]string{"k", "v"}, []cell{cS("r0"), cS("a\"b")}, []cell{cS("r1"), cS("")}, []cell{cS("r2"), cS("x y")})
	}
	for _, f := range []option.Format{option.CSV, option.TSV, option.LTSV, option.JSON, option.JSONL} {
		for _, woh := range []bool{false, true} {
			for _, asSel := range []bool{false, true} {
				e := with(f, func(op *opts) {
					op.withoutHeader = woh
					op.lb = text.CRLF
					op.encloseAll = !woh
					op.delim = ';'
					op.enc = text.UTF8M
					op.pretty = f == option.JSON && woh
				})
				if f == option.TSV {
					e.delim = '\t'
				}
				t := crT()
				if f == option.LTSV {
					t.rows[0][1] = cS("ab")
				}
				im := importSide{delim: '|', enc: text.SJIS, noHeader: !woh, format: option.LTSV}
				if f == option.LTSV {
					im.format = option.CSV
				}
				how := "insert"
				if asSel {
					how = "as_select"
				}
				id := "created." + fmtName(f) + ".without_header_" + b01(woh) + "." + how
				createRun(o, dir, t, e, im, asSel, false, id)
				createRun(o, dir, t, e, im, asSel, true, id+".csvq")
			}
		}
	}
	// ---- the first line break of a JSON Lines / JSON file right at the buffer boundaries of the readers ----
	for _, first := range []int{2047, 2048, 4095, 4096, 4097, 8191, 8192} {
		for _, lb := range []text.LineBreak{text.CRLF, text.LF} {
			boundaryRun(o, dir, option.JSONL, first, lb, first%2 == 1, "boundary.jsonl."+lbName(lb)+".first_record_"+itoa(first))
		}
	}
	for _, lb := range []text.LineBreak{text.CRLF, text.LF, text.CR} {
		boundaryRun(o, dir, option.JSON, 4095, lb, true, "boundary.json."+lbName(lb)+".first_record_4095")
	}
	// ---- the real line-break detector on every chunking of a few texts ----
	chunkCorpus(o)
	// ---- the dialect clause ----
	dt := func() *table {
		return tbl([]string{"k", "v"}, []cell{cS("r0"), cS("a")}, []cell{cS("r1"), cS("b")}, []cell{cS("r2"), cS("c")})
	}
	if pendingFixedAuto {
		// a fixed-length file laid out for, and read with, AUTOMATIC positions stays readable that way through UPDATE + COMMIT
		for _, woh := range []bool{false, true} {
			diaRun(o, dir, dt(), with(option.FIXED, func(op *opts) { op.withoutHeader = woh }), true, text.UTF8, "dialect.fixed.automatic_positions.header_"+b01(!woh))
		}
	}
	// fixed in /repo (00af35b): an updated CRLF file ends with CRLF
	diaRun(o, dir, dt(), with(option.CSV, func(op *opts) { op.lb = text.CRLF }), true, text.AUTO, "fixed.F28.csv.crlf_file_updated")
	diaRun(o, dir, dt(), with(option.LTSV, func(op *opts) { op.lb = text.CRLF }), true, text.AUTO, "fixed.F28.ltsv.crlf_file_updated")
	// a header-less file keeps its line break, enclosure and encoding through UPDATE + COMMIT under
	// --no-header (the line break has to be detected from the records, there is no header line)
	for _, f := range []option.Format{option.CSV, option.TSV} {
		for _, lb := range []text.LineBreak{text.LF, text.CRLF, text.CR} {
			for _, q := range []bool{false, true} {
				for _, e := range []text.Encoding{text.UTF8, text.UTF8M, text.SJIS} {
					if f == option.TSV && (e != text.UTF8 || q) {
						continue
					}
					d := with(f, func(op *opts) { op.lb = lb; op.encloseAll = q; op.enc = e; op.withoutHeader = true })
					// a CR-terminated file does not load (F24): the CR file is written without ending line break
					diaRun(o, dir, dt(), d, lb != text.CR, e, "dialect.no_header."+fmtName(f)+"."+lbName(lb)+".q"+b01(q)+"."+encName(e))
				}
			}
		}
	}
	// every format x every attribute FileInfo.ExportOptions carries, the updating session set to the
	// OPPOSITE of the file's dialect: delimiter, positions, encoding, line break, header, enclose-all,
	// JSON escape, pretty print
	sessionOpposite = true
	for _, w := range []struct {
		id string
		d  opts
	}{
		{"csv.delimiter_semicolon", with(option.CSV, func(op *opts) { op.delim = ';' })},
		{"csv.enclose_all", with(option.CSV, func(op *opts) { op.encloseAll = true })},
		{"csv.not_enclose_all", with(option.CSV, nil)},
		{"csv.crlf_utf8m", with(option.CSV, func(op *opts) { op.lb = text.CRLF; op.enc = text.UTF8M })},
		{"csv.no_header_sjis", with(option.CSV, func(op *opts) { op.withoutHeader = true; op.enc = text.SJIS })},
		{"tsv.enclose_all", with(option.TSV, func(op *opts) { op.encloseAll = true })},
		{"tsv.not_enclose_all_crlf", with(option.TSV, func(op *opts) { op.lb = text.CRLF })},
		{"tsv.no_header", with(option.TSV, func(op *opts) { op.withoutHeader = true })},
		{"ltsv.crlf_sjis", with(option.LTSV, func(op *opts) { op.lb = text.CRLF; op.enc = text.SJIS })},
		{"ltsv.lf_utf8m", with(option.LTSV, func(op *opts) { op.enc = text.UTF8M })},
		{"fixed.positions", with(option.FIXED, func(op *opts) { op.positions = []int{4, 9} })},
		{"fixed.positions_no_header_crlf", with(option.FIXED, func(op *opts) { op.positions = []int{5, 8}; op.withoutHeader = true; op.lb = text.CRLF })},
		{"json.escape_hex", with(option.JSON, func(op *opts) { op.jsonEscape = txjson.HexDigits })},
		{"json.escape_hexall_crlf", with(option.JSON, func(op *opts) { op.jsonEscape = txjson.AllWithHexDigits; op.lb = text.CRLF })},
		{"json.escape_backslash_compact", with(option.JSON, nil)},
		{"jsonl.escape_hex_crlf", with(option.JSONL, func(op *opts) { op.jsonEscape = txjson.HexDigits; op.lb = text.CRLF })},
		{"jsonl.escape_backslash", with(option.JSONL, nil)},
	} {
		t := tbl([]string{"k", "v"}, []cell{cS("r0"), cS("a\"b")}, []cell{cS("r1"), cS("b")}, []cell{cS("r2"), cS("")}, []cell{cS("r3"), cS("q/r")})
		if w.d.format == option.LTSV {
			t.rows[0][1] = cS("ab")
		}
		diaRun(o, dir, t, w.d, true, w.d.enc, "dialect.opposite_session."+w.id)
	}
	sessionOpposite = false
	// the encoding is kept however the import encoding is named: exact name, generic family name
	// (UTF8 / UTF16), AUTO; by the session flag or by the argument of a table object
	for _, f := range []option.Format{option.CSV, option.LTSV, option.TSV, option.FIXED} {
		for _, e := range []text.Encoding{text.UTF8, text.UTF8M, text.UTF16LEM, text.UTF16BEM, text.UTF16LE, text.UTF16BE, text.UTF16, text.SJIS} {
			if f == option.FIXED && utf16Family(e) {
				continue // F16 utf16_padding
			}
			if (f == option.TSV || f == option.FIXED) && e != text.UTF8M && e != text.UTF16LEM && e != text.SJIS {
				continue
			}
			names := []text.Encoding{e}
			if g := genericEncoding(e); g != e {
				names = append(names, g)
			}
			if e == text.UTF8 || e == text.UTF8M || e == text.UTF16LEM || e == text.UTF16BEM {
				names = append(names, text.AUTO)
			}
			for _, n := range names {
				for _, obj := range []bool{false, true} {
					d := with(f, func(op *opts) { op.enc = e })
					if f == option.FIXED {
						d.positions = []int{4, 9}
					}
					diaViaTableObject = obj
					how := "flag"
					if obj {
						how = "table_object"
					}
					diaRun(o, dir, dt(), d, true, n, "encoding_kept."+fmtName(f)+"."+encName(e)+".named_"+encName(n)+"."+how)
				}
			}
		}
	}
	diaViaTableObject = false
	// F25 (repaired by /tmp/c02-patches/02: the ending line break is written in the file's encoding): an
	// updated UTF-16 file ends in a UTF-16 line break; must be kept byte for byte
	diaRun(o, dir, dt(), with(option.CSV, func(op *opts) { op.enc = text.UTF16BEM }), true, text.AUTO, "fixed.F25.csv.utf16_file_updated")
	diaRun(o, dir, dt(), with(option.TSV, func(op *opts) { op.enc = text.UTF16LEM }), true, text.AUTO, "fixed.F25.tsv.utf16_file_updated")
	diaRun(o, dir, dt(), with(option.LTSV, func(op *opts) { op.enc = text.UTF16BEM }), true, text.AUTO, "fixed.F25.ltsv.utf16_file_updated")
}
