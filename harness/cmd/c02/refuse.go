package main

// "A cell the format cannot spell is refused with an error and NOTHING is written."
//
// refuseCase   (generated)      a table of several records, an unspellable cell put into the first, a
//                               middle or the last record: EncodeView into a buffer, the processor
//                               writing to an --out writer, the processor writing to stdout — zero bytes.
// refuseMatrix (deterministic,  the same through the real csvq binary, per format that can refuse and
//               every run)      per sink: --out FILE (must not exist afterwards; an existing file stays
//                               byte-identical), stdout (zero bytes), UPDATE + COMMIT of a file (file
//                               unchanged, nothing left behind), CREATE TABLE … AS (no file, nothing left).
//
// Law names:  refuse:<fmt>:written_before_refusal   bytes reached an in-process sink before the error
//             refuse:<fmt>:out_file_written         csvq --out left / changed a file
//             refuse:<fmt>:stdout_written           csvq wrote to stdout
//             refuse:<fmt>:commit_changed_file      the file of a refused COMMIT is not byte-identical
//             refuse:<fmt>:create_left_file         a refused CREATE TABLE … AS left its file
//             refuse:<fmt>:files_left_behind        temporary / lock files remain
//             refuse:<fmt>:not_refused              csvq exited 0 although the cell cannot be spelled
//             refuse:<fmt>:partial_output           (known, F16c) output before a TRANSCODING failure, or
//                                                   output flushed because more than 4 KiB were pending

import (
	"bytes"
	"encoding/hex"
	"fmt"
	"os"
	"os/exec"
	"path/filepath"
	"sort"
	"strings"

	"github.com/mithrandie/csvq/lib/option"
	"github.com/mithrandie/csvq/lib/value"
	"github.com/mithrandie/go-text"

	"verifharness/hc"
)

func clipHex(b []byte) string {
	if len(b) > 200 {
		b = b[:200]
	}
	return hex.EncodeToString(b)
}

// approxVolume: an upper bound of the UTF-8 bytes the writer is handed for the whole table
func approxVolume(t *table, o opts) int {
	hl := 0
	for _, h := range t.header {
		hl += len(h) + 4
	}
	if o.format == option.FIXED {
		// every record is padded to the width of the widest text of each column
		w := 0
		for j := range t.header {
			cw := len(t.header[j])
			for _, r := range t.rows {
				cw = max(cw, len(r[j].text))
			}
			w += cw + 2
		}
		if o.positions != nil && len(o.positions) > 0 {
			w = max(w, o.positions[len(o.positions)-1]+2)
		}
		return (len(t.rows) + 1) * w
	}
	v := hl
	for _, r := range t.rows {
		v += hl // LTSV repeats the labels; JSON the keys
		for _, c := range r {
			v += len(c.text) + 4
		}
	}
	return v
}

// partialOutputLaw: bytes were emitted although the write ended in an error.  Known (F16c): the error
// is a transcoding failure (the bytes before the unencodable character are out already), or so much
// was pending that the 4 KiB bufio.Writer inside the go-text writers had to flush.  Anything else —
// output before a FORMAT refusal on a small table — is a different defect.
func partialOutputLaw(t *table, o opts, why string, emitted []byte) string {
	if why == "not_encodable" || approxVolume(t, o) >= 3500 {
		return "partial_output"
	}
	if n := len(bytes.TrimPrefix(emitted, []byte(text.UTF8BOM))); n > 0 && n%4096 == 0 && (o.enc == text.UTF8 || o.enc == text.UTF8M) {
		return "partial_output" // exactly the flushed 4 KiB buffers
	}
	return "written_before_refusal"
}

// ---------- injections ----------

type injection struct {
	f    option.Format
	kind string
	bad  func() value.Primary // the unspellable cell
	opt  func(t *table, o *opts)
}

var injections = []injection{
	{option.LTSV, "value_tab", func() value.Primary { return value.NewString("p\tq") }, nil},
	{option.LTSV, "value_lf", func() value.Primary { return value.NewString("p\nq") }, nil},
	{option.LTSV, "value_cr", func() value.Primary { return value.NewString("p\rq") }, nil},
	{option.LTSV, "value_u100000", func() value.Primary { return value.NewString("p" + string(rune(0x100000)) + "q") }, nil},
	{option.FIXED, "overflow", func() value.Primary { return value.NewString("much-too-long-for-its-column") },
		func(t *table, o *opts) {
			// explicit positions that fit every other text
			pos := 0
			o.positions = nil
			for j := range t.header {
				w := len(t.header[j])
				for _, r := range t.rows {
					if !strings.HasPrefix(r[j].text, "much-too-long") {
						w = max(w, text.ByteSize(r[j].text, o.enc))
					}
				}
				pos += w + 1
				o.positions = append(o.positions, pos)
			}
		}},
}

// refusable: a small table (several records, plain short texts, < 1 KiB) with the unspellable cell at
// record `rec`, field `fld`
func refusable(nr, nc int, inj injection, rec, fld int, word func(i, j int) string) (*table, opts) {
	t := &table{header: make([]string, nc), rows: make([][]cell, nr)}
	for j := range t.header {
		t.header[j] = string(rune('a' + j))
	}
	for i := range t.rows {
		t.rows[i] = make([]cell, nc)
		for j := range t.rows[i] {
			if j == 0 {
				t.rows[i][j] = cS(fmt.Sprintf("r%d", i))
			} else {
				t.rows[i][j] = cS(word(i, j))
			}
		}
	}
	t.rows[rec][fld] = mkCell(inj.bad())
	o := baseOpts(inj.f)
	if inj.opt != nil {
		inj.opt(t, &o)
	}
	return t, o
}

func where(rec, nr int) string {
	switch {
	case rec == 0:
		return "first"
	case rec == nr-1:
		return "last"
	}
	return "middle"
}

func refuseReplay(t *table, o opts, inj injection, rec, fld int, sink string, extra map[string]interface{}) map[string]interface{} {
	m := map[string]interface{}{"format": fmtName(inj.f), "unspellable": inj.kind, "record": rec, "of_records": len(t.rows), "field": fld,
		"options": o.sig(), "header": t.header, "rows": rowsForReplay(t), "sink": sink}
	for k, v := range extra {
		m[k] = v
	}
	return m
}

// inProcessSinks: EncodeView into a buffer; the processor to an --out writer; the processor to stdout
func inProcessSinks(o *hc.Out, dir string, t *table, op opts, inj injection, rec, fld int) {
	name := fmtName(inj.f)
	check := func(sink string, b []byte, err error) {
		o.Count("refuse:" + name + ":" + inj.kind + ":" + where(rec, len(t.rows)) + ":" + sink)
		if err == nil {
			lawFail(o, "refuse:"+name+":not_refused", refuseReplay(t, op, inj, rec, fld, sink, map[string]interface{}{"written_hex": clipHex(b)}))
			return
		}
		if len(b) > 0 {
			lawFail(o, "refuse:"+name+":"+partialOutputLaw(t, op, "", b), refuseReplay(t, op, inj, rec, fld, sink,
				map[string]interface{}{"error": firstLine(err.Error()), "emitted_bytes": len(b), "emitted_hex": clipHex(b)}))
		}
	}
	b, err := realEncode(t, op)
	check("EncodeView", b, err)
	if d, e, ok := writeViaProcSink(dir, t, op, false); ok {
		check("processor_out", d, e)
	}
	if d, e, ok := writeViaProcSink(dir, t, op, true); ok {
		check("processor_stdout", d, e)
	}
}

func refuseCase(g *hc.Gen, o *hc.Out, dir string) {
	inj := injections[g.Intn(len(injections))]
	nr, nc := 2+g.Intn(11), 2+g.Intn(3)
	rec := []int{0, nr / 2, nr - 1, g.Intn(nr)}[g.Intn(4)]
	fld := g.Intn(nc)
	words := []string{"a", "bc", "Q", "x_y", "v1", "7", "é", ""}
	t, op := refusable(nr, nc, inj, rec, fld, func(i, j int) string { return words[g.Intn(len(words))] })
	op.lb = []text.LineBreak{text.LF, text.CRLF}[g.Intn(2)]
	op.strip = g.Intn(2) == 0
	if inj.f == option.FIXED {
		op.withoutHeader = g.Intn(3) == 0
	}
	inProcessSinks(o, dir, t, op, inj, rec, fld)
	o.Case("c02.nop", "ok")
	o.NonTrivial(fmt.Sprintf("refuse|%s|%s|%s|f%d/%d|%s", fmtName(inj.f), inj.kind, where(rec, nr), fld, nc, op.sig()))
}

// ---------- the real binary ----------

var csvqBin string

// buildCsvq: the csvq binary of the tree under test (VERIF_REPO), built once per run
func buildCsvq(dir string) string {
	repo := os.Getenv("VERIF_REPO")
	if repo == "" {
		repo = "/repo"
	}
	out := filepath.Join(dir, "csvq-under-test")
	cmd := exec.Command("go", "build", "-tags", "verif", "-o", out, ".")
	cmd.Dir = repo
	cmd.Env = append(os.Environ(), "GOFLAGS=-mod=mod", "GOPROXY=off", "GOSUMDB=off", "GOTOOLCHAIN=local")
	if b, err := cmd.CombinedOutput(); err != nil {
		panic("csvq does not build: " + string(b))
	}
	return out
}

type binResult struct {
	rc     int
	stdout []byte
	stderr string
}

func runCsvq(cwd string, args ...string) binResult {
	cmd := exec.Command(csvqBin, args...)
	cmd.Dir = cwd
	cmd.Env = append(os.Environ(), "TZ=UTC")
	var so, se bytes.Buffer
	cmd.Stdout, cmd.Stderr = &so, &se
	err := cmd.Run()
	rc := 0
	if err != nil {
		rc = -1
		if ee, ok := err.(*exec.ExitError); ok {
			rc = ee.ExitCode()
		}
	}
	return binResult{rc, so.Bytes(), se.String()}
}

func listDir(d string) []string {
	es, err := os.ReadDir(d)
	must(err)
	var ns []string
	for _, e := range es {
		ns = append(ns, e.Name())
	}
	sort.Strings(ns)
	return ns
}

// selectSQL: the table as SELECT … UNION ALL SELECT …
func selectSQL(t *table) (string, bool) {
	var parts []string
	for i, r := range t.rows {
		ls := make([]string, len(r))
		for j, c := range r {
			l, ok := sqlLit(c.val)
			if !ok {
				return "", false
			}
			if i == 0 {
				l += " AS " + option.QuoteIdentifier(t.header[j])
			}
			ls[j] = l
		}
		parts = append(parts, "SELECT "+strings.Join(ls, ", "))
	}
	return strings.Join(parts, " UNION ALL "), true
}

func exportArgs(o opts) []string {
	a := []string{"-q", "-f", strings.ToUpper(fmtName(o.format)), "-l", lbName(o.lb)}
	if o.positions != nil {
		a = append(a, "-M", posString(o.positions, false))
	}
	if o.strip {
		a = append(a, "-T")
	}
	if o.withoutHeader {
		a = append(a, "-N")
	}
	return a
}

// binarySinks: one refusal through csvq itself, every sink
func binarySinks(o *hc.Out, dir string, t *table, op opts, inj injection, rec, fld int) {
	name := fmtName(inj.f)
	sql, ok := selectSQL(t)
	if !ok {
		return
	}
	fresh := func() string {
		d, err := os.MkdirTemp(dir, "refuse-")
		must(err)
		return d
	}
	tag := func(sink string) {
		o.Count("refuse:" + name + ":" + inj.kind + ":" + where(rec, len(t.rows)) + ":" + sink)
	}
	fail := func(law, sink string, r binResult, extra map[string]interface{}) {
		m := map[string]interface{}{"rc": r.rc, "stderr": firstLine(r.stderr), "query": sql}
		for k, v := range extra {
			m[k] = v
		}
		lawFail(o, "refuse:"+name+":"+law, refuseReplay(t, op, inj, rec, fld, sink, m))
	}
	// --out FILE that does not exist
	{
		d := fresh()
		r := runCsvq(d, append(exportArgs(op), "-o", "out"+fmtExt(op.format), sql)...)
		tag("csvq_out")
		if r.rc == 0 {
			fail("not_refused", "csvq --out", r, nil)
		} else if ls := listDir(d); len(ls) > 0 {
			b, _ := os.ReadFile(filepath.Join(d, "out"+fmtExt(op.format)))
			fail("out_file_written", "csvq --out", r, map[string]interface{}{"directory_after": ls, "file_hex": clipHex(b)})
		}
		if len(r.stdout) > 0 {
			fail("stdout_written", "csvq --out", r, map[string]interface{}{"stdout_hex": clipHex(r.stdout)})
		}
		os.RemoveAll(d)
	}
	// --out FILE that exists: it stays byte-identical
	{
		d := fresh()
		old := []byte("precious\n")
		must(os.WriteFile(filepath.Join(d, "out"+fmtExt(op.format)), old, 0o644))
		r := runCsvq(d, append(exportArgs(op), "-o", "out"+fmtExt(op.format), sql)...)
		tag("csvq_out_existing")
		b, _ := os.ReadFile(filepath.Join(d, "out"+fmtExt(op.format)))
		if ls := listDir(d); !bytes.Equal(b, old) || len(ls) != 1 {
			fail("out_file_written", "csvq --out (existing file)", r, map[string]interface{}{"directory_after": ls, "file_hex": clipHex(b)})
		}
		os.RemoveAll(d)
	}
	// stdout
	{
		d := fresh()
		r := runCsvq(d, append(exportArgs(op), sql)...)
		tag("csvq_stdout")
		if r.rc == 0 {
			fail("not_refused", "csvq stdout", r, map[string]interface{}{"stdout_hex": clipHex(r.stdout)})
		} else if len(r.stdout) > 0 {
			fail("stdout_written", "csvq stdout", r, map[string]interface{}{"stdout_hex": clipHex(r.stdout)})
		}
		if ls := listDir(d); len(ls) > 0 {
			fail("files_left_behind", "csvq stdout", r, map[string]interface{}{"directory_after": ls})
		}
		os.RemoveAll(d)
	}
	// UPDATE + COMMIT of a file in that format: the spellable table on disk, the unspellable cell by UPDATE
	{
		d := fresh()
		good := t.clone()
		good.rows[rec][fld] = cS("ok")
		body, err := realEncode(good, op)
		if err == nil {
			fname := "tbl" + fmtExt(op.format)
			orig := append(append([]byte{}, body...), op.lb.Value()...)
			must(os.WriteFile(filepath.Join(d, fname), orig, 0o644))
			lit, _ := sqlLit(t.rows[rec][fld].val)
			col, key := t.header[fld], t.header[0]
			if op.withoutHeader {
				col, key = fmt.Sprintf("c%d", fld+1), "c1"
			}
			q := fmt.Sprintf("UPDATE %s SET %s = %s WHERE %s = 'r%d'", option.QuoteIdentifier(fname), option.QuoteIdentifier(col), lit, option.QuoteIdentifier(key), rec)
			if fld == 0 {
				// the key column itself receives the unspellable text: its spellable stand-in is 'ok'
				q = fmt.Sprintf("UPDATE %s SET %s = %s WHERE %s = 'ok'", option.QuoteIdentifier(fname), option.QuoteIdentifier(col), lit, option.QuoteIdentifier(key))
			}
			args := []string{"-q", "-i", strings.ToUpper(fmtName(op.format))}
			if op.positions != nil {
				args = append(args, "-m", posString(op.positions, false))
			}
			if op.withoutHeader {
				args = append(args, "-n")
			}
			r := runCsvq(d, append(args, q)...)
			tag("csvq_commit")
			after, _ := os.ReadFile(filepath.Join(d, fname))
			ex := map[string]interface{}{"statement": q, "before_hex": clipHex(orig), "after_hex": clipHex(after)}
			if r.rc == 0 {
				fail("not_refused", "csvq UPDATE + COMMIT", r, ex)
			} else if !bytes.Equal(after, orig) {
				fail("commit_changed_file", "csvq UPDATE + COMMIT", r, ex)
			}
			if ls := listDir(d); len(ls) != 1 {
				ex["directory_after"] = ls
				fail("files_left_behind", "csvq UPDATE + COMMIT", r, ex)
			}
		}
		os.RemoveAll(d)
	}
	// CREATE TABLE … AS (the format follows the file name: LTSV only)
	if op.format == option.LTSV {
		d := fresh()
		hs := make([]string, len(t.header))
		for j, h := range t.header {
			hs[j] = option.QuoteIdentifier(h)
		}
		q := fmt.Sprintf("CREATE TABLE `new.ltsv` (%s) AS %s", strings.Join(hs, ", "), sql)
		r := runCsvq(d, "-q", q)
		tag("csvq_create_as")
		ls := listDir(d)
		ex := map[string]interface{}{"statement": q, "directory_after": ls}
		if r.rc == 0 {
			fail("not_refused", "csvq CREATE TABLE AS", r, ex)
		} else {
			for _, n := range ls {
				if n == "new.ltsv" {
					fail("create_left_file", "csvq CREATE TABLE AS", r, ex)
				} else {
					fail("files_left_behind", "csvq CREATE TABLE AS", r, ex)
				}
			}
		}
		os.RemoveAll(d)
	}
}

// refuseMatrix: every format that refuses × the unspellable cell in the first / a middle / the last
// record (and first / middle / last field) × every sink, in-process and through the binary
func refuseMatrix(o *hc.Out, dir string) {
	word := func(i, j int) string { return []string{"x", "yz", "w"}[(i+j)%3] }
	for _, inj := range injections {
		if inj.kind == "value_cr" || inj.kind == "value_u100000" {
			continue // the generated stream covers them; the matrix keeps to TAB, LF and overflow
		}
		for k, rec := range []int{0, 2, 4} {
			t, op := refusable(5, 3, inj, rec, k, word)
			inProcessSinks(o, dir, t, op, inj, rec, k)
			binarySinks(o, dir, t, op, inj, rec, k)
			o.Case("c02.nop", "ok")
		}
	}
	// refusals that do not depend on a record: an LTSV label outside the label alphabet, a JSON path
	// that runs through a scalar
	for _, c := range []struct {
		f      option.Format
		kind   string
		header []string
	}{
		{option.LTSV, "label", []string{"a", "b c"}},
		{option.JSON, "path_conflict", []string{"a", "a.b"}},
		{option.JSONL, "path_conflict", []string{"a", "a.b"}},
	} {
		inj := injection{f: c.f, kind: c.kind}
		t := tbl(c.header, []cell{cS("r0"), cS("x")}, []cell{cS("r1"), cS("y")}, []cell{cS("r2"), cS("z")})
		op := baseOpts(c.f)
		name := fmtName(c.f)
		b, err := realEncode(t, op)
		o.Count("refuse:" + name + ":" + c.kind + ":EncodeView")
		if err == nil {
			lawFail(o, "refuse:"+name+":not_refused", refuseReplay(t, op, inj, 0, 1, "EncodeView", map[string]interface{}{"written_hex": clipHex(b)}))
		} else if len(b) > 0 {
			lawFail(o, "refuse:"+name+":written_before_refusal", refuseReplay(t, op, inj, 0, 1, "EncodeView", map[string]interface{}{"emitted_hex": clipHex(b), "error": firstLine(err.Error())}))
		}
		if sql, ok := selectSQL(t); ok {
			d, e := os.MkdirTemp(dir, "refuse-")
			must(e)
			r := runCsvq(d, append(exportArgs(op), "-o", "out"+fmtExt(c.f), sql)...)
			o.Count("refuse:" + name + ":" + c.kind + ":csvq_out")
			if ls := listDir(d); r.rc == 0 || len(ls) > 0 || len(r.stdout) > 0 {
				law := "out_file_written"
				if r.rc == 0 {
					law = "not_refused"
				}
				lawFail(o, "refuse:"+name+":"+law, refuseReplay(t, op, inj, 0, 1, "csvq --out", map[string]interface{}{"rc": r.rc, "stderr": firstLine(r.stderr), "directory_after": ls, "query": sql}))
			}
			os.RemoveAll(d)
			d, e = os.MkdirTemp(dir, "refuse-")
			must(e)
			r = runCsvq(d, append(exportArgs(op), sql)...)
			o.Count("refuse:" + name + ":" + c.kind + ":csvq_stdout")
			if r.rc == 0 || len(r.stdout) > 0 {
				law := "stdout_written"
				if r.rc == 0 {
					law = "not_refused"
				}
				lawFail(o, "refuse:"+name+":"+law, refuseReplay(t, op, inj, 0, 1, "csvq stdout", map[string]interface{}{"rc": r.rc, "stderr": firstLine(r.stderr), "stdout_hex": clipHex(r.stdout), "query": sql}))
			}
			os.RemoveAll(d)
		}
		o.Case("c02.nop", "ok")
	}
}
