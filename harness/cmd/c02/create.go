package main

// Tables that are CREATED in the session (CREATE TABLE … ; INSERT; COMMIT and CREATE TABLE … AS SELECT):
// the file is written in the dialect the EXPORT side of the session prescribes (--write-delimiter,
// --write-encoding, --without-header, --line-break, --enclose-all, --pretty-print; the format follows the
// file name), whatever the IMPORT side twins say (--delimiter, --encoding, --no-header, --import-format),
// which are set DIFFERENTLY here.  The bytes are compared with what the real encoder writes for that
// dialect, then the file is imported again by a fresh processor (and, for the corpus, by the csvq binary).
//
// Laws:  created:<fmt>:header_taken_from_import_flag | delimiter_taken_from_import_flag |
//        encoding_taken_from_import_flag | bytes | create_failed | reimport
//
// And: JSON / JSON Lines files whose first line break straddles the buffer boundaries of the readers
// (boundaryCase): the dialect must be kept through UPDATE + COMMIT, and the detected line break is
// compared with the model (op c02.jlb).

import (
	"bytes"
	"encoding/hex"
	"fmt"
	"os"
	"path/filepath"
	"strconv"
	"strings"

	"github.com/mithrandie/csvq/lib/option"
	"github.com/mithrandie/csvq/lib/value"
	"github.com/mithrandie/go-text"
	txjson "github.com/mithrandie/go-text/json"

	"verifharness/hc"
)

type importSide struct {
	delim    rune
	enc      text.Encoding
	noHeader bool
	format   option.Format
}

// endingBytes: the line break after the encoded text, in the output's encoding without byte order mark
func endingBytes(d opts) []byte {
	b := []byte(d.lb.Value())
	switch d.format {
	case option.CSV, option.TSV, option.LTSV, option.FIXED:
		var e text.Encoding
		switch d.enc {
		case text.UTF16, text.UTF16BE, text.UTF16BEM:
			e = text.UTF16BE
		case text.UTF16LE, text.UTF16LEM:
			e = text.UTF16LE
		default:
			return b
		}
		x, err := text.Encode(b, e)
		must(err)
		return x
	}
	return b
}

// createdDialect: what the created file must look like: the export side, the format from the file name,
// and what CreateTable does not take from the session (JSON escape: always Backslash)
func createdDialect(e opts) opts {
	d := e
	switch d.format {
	case option.TSV:
		d.delim = '\t'
	case option.JSON, option.JSONL:
		d.enc = text.UTF8
		d.jsonEscape = txjson.Backslash
	}
	if d.format != option.JSON {
		d.pretty = false
	}
	return d
}

func createSQL(fname string, t *table, asSelect bool) (string, bool) {
	hs := make([]string, len(t.header))
	for j, h := range t.header {
		hs[j] = option.QuoteIdentifier(h)
	}
	head := fmt.Sprintf("CREATE TABLE %s (%s)", option.QuoteIdentifier(fname), strings.Join(hs, ", "))
	if asSelect && len(t.rows) > 0 {
		sel, ok := selectSQL(t)
		return head + " AS " + sel + "; COMMIT;", ok
	}
	var sb strings.Builder
	sb.WriteString(head + ";")
	if len(t.rows) > 0 {
		sb.WriteString(" INSERT INTO " + option.QuoteIdentifier(fname) + " VALUES ")
		for i, r := range t.rows {
			ls := make([]string, len(r))
			for j, c := range r {
				l, ok := sqlLit(c.val)
				if !ok {
					return "", false
				}
				ls[j] = l
			}
			if i > 0 {
				sb.WriteString(", ")
			}
			sb.WriteString("(" + strings.Join(ls, ", ") + ")")
		}
		sb.WriteString(";")
	}
	sb.WriteString(" COMMIT;")
	return sb.String(), true
}

func sessionArgs(e opts, im importSide) []string {
	a := []string{"-q", "-l", lbName(e.lb), "-D", string(e.delim), "-E", encName(e.enc), "-d", string(im.delim), "-e", encName(im.enc),
		"-i", strings.ToUpper(fmtName(im.format)), "-J", []string{"BACKSLASH", "HEX", "HEXALL"}[e.jsonEscape]}
	if e.withoutHeader {
		a = append(a, "-N")
	}
	if im.noHeader {
		a = append(a, "-n")
	}
	if e.encloseAll {
		a = append(a, "-Q")
	}
	if e.pretty {
		a = append(a, "-P")
	}
	if e.strip {
		a = append(a, "-T")
	}
	return a
}

func createRun(o *hc.Out, dir string, t *table, e opts, im importSide, asSelect, viaBinary bool, tag string) {
	name := fmtName(e.format)
	d := createdDialect(e)
	fname := "cr" + fmtExt(e.format)
	wd, err := os.MkdirTemp(dir, "create-")
	must(err)
	defer os.RemoveAll(wd)
	sql, ok := createSQL(fname, t, asSelect)
	if !ok {
		return
	}
	body, err := realEncode(t, d)
	must(err)
	want := append([]byte{}, body...)
	if !e.strip {
		want = append(want, endingBytes(d)...)
	}
	replay := func(extra map[string]interface{}) map[string]interface{} {
		m := map[string]interface{}{"format": name, "export_side": e.sig(), "import_side": fmt.Sprintf("delimiter %q encoding %s no-header %v import-format %s", im.delim, encName(im.enc), im.noHeader, fmtName(im.format)),
			"statements": sql, "as_select": asSelect, "via_binary": viaBinary, "want_hex": clipHex(want)}
		if viaBinary {
			m["csvq_args"] = sessionArgs(e, im)
		}
		if tag != "" {
			m["corpus"] = tag
		}
		for k, v := range extra {
			m[k] = v
		}
		return m
	}
	o.Count(fmt.Sprintf("created:%s:as%s:bin%s", name, b01(asSelect), b01(viaBinary)))
	o.Case("c02.nop", "ok")
	o.NonTrivial(fmt.Sprintf("created|%s|%d|%s|%v|%s|%s%s", e.sig(), im.delim, encName(im.enc), im.noHeader, fmtName(im.format), b01(asSelect), b01(viaBinary)))
	if viaBinary {
		r := runCsvq(wd, append(sessionArgs(e, im), sql)...)
		if r.rc != 0 {
			lawFail(o, "created:"+name+":create_failed", replay(map[string]interface{}{"rc": r.rc, "stderr": firstLine(r.stderr)}))
			return
		}
	} else {
		p := hc.NewProc(wd)
		tx := p.P.Tx
		must(tx.SetFlag(option.QuietFlag, true))
		must(tx.SetFlag(option.ExportDelimiterFlag, string(e.delim)))
		must(tx.SetFlag(option.ExportEncodingFlag, encName(e.enc)))
		must(tx.SetFlag(option.WithoutHeaderFlag, e.withoutHeader))
		must(tx.SetFlag(option.LineBreakFlag, lbName(e.lb)))
		must(tx.SetFlag(option.EncloseAllFlag, e.encloseAll))
		must(tx.SetFlag(option.JsonEscapeFlag, []string{"BACKSLASH", "HEX", "HEXALL"}[e.jsonEscape]))
		must(tx.SetFlag(option.PrettyPrintFlag, e.pretty))
		must(tx.SetFlag(option.StripEndingLineBreakFlag, e.strip))
		must(tx.SetFlag(option.DelimiterFlag, string(im.delim)))
		must(tx.SetFlag(option.EncodingFlag, encName(im.enc)))
		must(tx.SetFlag(option.NoHeaderFlag, im.noHeader))
		must(tx.SetFlag(option.ImportFormatFlag, strings.ToUpper(fmtName(im.format))))
		_, cerr := p.Exec(sql)
		p.Close()
		if cerr != nil {
			lawFail(o, "created:"+name+":create_failed", replay(map[string]interface{}{"error": firstLine(cerr.Error())}))
			return
		}
	}
	got, err := os.ReadFile(filepath.Join(wd, fname))
	if err != nil {
		lawFail(o, "created:"+name+":create_failed", replay(map[string]interface{}{"error": "the file does not exist after COMMIT"}))
		return
	}
	if !bytes.Equal(got, want) {
		// which import-side twin leaked into the file?
		alt := func(mod func(*opts)) []byte {
			x := d
			mod(&x)
			b, err := realEncode(t, x)
			if err != nil {
				return nil
			}
			if !e.strip {
				b = append(b, endingBytes(x)...)
			}
			return b
		}
		law := "bytes"
		switch {
		case bytes.Equal(got, alt(func(x *opts) { x.withoutHeader = im.noHeader })):
			law = "header_taken_from_import_flag"
		case bytes.Equal(got, alt(func(x *opts) { x.delim = im.delim })):
			law = "delimiter_taken_from_import_flag"
		case bytes.Equal(got, alt(func(x *opts) { x.enc = im.enc })):
			law = "encoding_taken_from_import_flag"
		}
		lawFail(o, "created:"+name+":"+law, replay(map[string]interface{}{"file_hex": clipHex(got)}))
		return
	}
	if tag != "" {
		o.Count("corpus:" + tag + ":as_prescribed")
	}
	// import it again, fresh, under the dialect it was written in
	if d.lb == text.CR && !e.strip {
		return // F24: a file ending in CR does not load
	}
	ro := d
	v, lerr := realLoad(wd, fname, got, ro, d.enc, false)
	exp := expected(t, d)
	if lerr != nil || !fromView(v).equal(exp) {
		ex := map[string]interface{}{"expected": clip(exp.String())}
		if lerr != nil {
			ex["error"] = firstLine(lerr.Error())
		} else {
			ex["loaded"] = clip(fromView(v).String())
		}
		lawFail(o, "created:"+name+":reimport", replay(ex))
		return
	}
	if viaBinary {
		args := []string{"-q", "-i", strings.ToUpper(name), "-d", string(d.delim), "-e", encName(d.enc), "-f", "CSV", "-N", "-T"}
		if d.withoutHeader {
			args = append(args, "-n")
		}
		r := runCsvq(wd, append(args, "SELECT COUNT(*) FROM "+option.QuoteIdentifier(fname))...)
		if n, err := strconv.Atoi(strings.TrimSpace(string(r.stdout))); r.rc != 0 || err != nil || n != len(t.rows) {
			lawFail(o, "created:"+name+":reimport", replay(map[string]interface{}{"csvq_count": strings.TrimSpace(string(r.stdout)), "records": len(t.rows), "stderr": firstLine(r.stderr)}))
		}
	}
}

var createFormats = []option.Format{option.CSV, option.CSV, option.TSV, option.LTSV, option.JSON, option.JSONL}

func createTable(g *hc.Gen, f option.Format, sjis bool) *table {
	nc, nr := 2+g.Intn(3), 1+g.Intn(4)
	t := &table{header: genHeader(g, nc, risk{}, true), rows: make([][]cell, nr)}
	words := []string{"a", "bc", "x y", "Q", "日本", "12", "v-1", "k"}
	if f != option.LTSV {
		words = append(words, "a,b", "q\"r", "s;t", "u|v", "")
	}
	for i := range t.rows {
		t.rows[i] = make([]cell, nc)
		for j := range t.rows[i] {
			if j == 0 {
				t.rows[i][j] = cS(fmt.Sprintf("r%d", i))
			} else {
				t.rows[i][j] = cS(words[g.Intn(len(words))])
			}
		}
	}
	return t
}

func createCase(g *hc.Gen, o *hc.Out, dir string) {
	f := createFormats[g.Intn(len(createFormats))]
	e := genOpts(g, f)
	e.allowUneven, e.withoutNull = false, false
	e.enc = []text.Encoding{text.UTF8, text.UTF8, text.UTF8M, text.UTF16BEM, text.UTF16LEM, text.SJIS}[g.Intn(6)]
	if f == option.JSONL && e.lb == text.CR {
		e.lb = text.CRLF // F24
	}
	t := createTable(g, f, e.enc == text.SJIS)
	// the import side: every twin set differently
	im := importSide{delim: '|', enc: text.SJIS, noHeader: !e.withoutHeader, format: option.LTSV}
	if e.delim == '|' {
		im.delim = ';'
	}
	if e.enc == text.SJIS {
		im.enc = text.UTF8
	}
	if f == option.LTSV {
		im.format = option.CSV
	}
	createRun(o, dir, t, e, im, g.Intn(2) == 0, false, "")
}

// ---------- the first line break at the buffer boundaries of the readers ----------

var boundaryLengths = []int{2047, 2048, 2049, 4095, 4096, 4097, 6143, 6144, 6145, 8191, 8192, 8193, 12287, 12288}

// boundaryTable: a JSON Lines / JSON table whose first record is encoded in exactly `first` bytes
func boundaryTable(first int, tricky bool) *table {
	// {"k":"r0","v":"<pad>"}  =  17 bytes + the escaped pad
	n := first - 17
	pad := strings.Repeat("x", n)
	if tricky && n > 8 {
		// an escaped backslash and an escaped quotation mark right before the end of the record (in this
		// order: a text ENDING in a backslash is F27)
		pad = strings.Repeat("x", n-4) + "\\\"" // 2 characters, 4 bytes when escaped
	}
	return tbl([]string{"k", "v"}, []cell{cS("r0"), cS(pad)}, []cell{cS("r1"), cS("b")}, []cell{cS("r2"), cS("c")})
}

func boundaryRun(o *hc.Out, dir string, f option.Format, first int, lb text.LineBreak, tricky bool, tag string) {
	t := boundaryTable(first, tricky)
	d := baseOpts(f)
	d.lb = lb
	body, err := realEncode(t, d)
	must(err)
	if f == option.JSONL {
		if i := bytes.IndexAny(body, "\r\n"); i != first {
			panic(fmt.Sprintf("boundary table: first record is %d bytes, wanted %d", i, first))
		}
	}
	data := append(append([]byte{}, body...), lb.Value()...)
	// what the loader detects, against the model
	name := fmtName(f)
	v, lerr := realLoad(dir, "jb"+fmtExt(f), data, d, text.UTF8, true)
	impl := "E"
	if lerr == nil {
		impl = lbName(v.FileInfo.LineBreak)
	} else {
		o.Count("boundary:load_error:" + firstLine(lerr.Error()))
	}
	o.Case("c02.jlb "+hex.EncodeToString(data), impl)
	o.Count(fmt.Sprintf("boundary:%s:%s:first_record_%d", name, lbName(lb), first))
	o.NonTrivial(fmt.Sprintf("boundary|%s|%s|%d|%v", name, lbName(lb), first, tricky))
	// and the file keeps it through UPDATE + COMMIT
	if lb == text.CR && f == option.JSONL {
		return // F24: not loadable
	}
	diaRun(o, dir, t, d, true, text.UTF8, tag)
}

func boundaryCase(g *hc.Gen, o *hc.Out, dir string) {
	f := []option.Format{option.JSONL, option.JSONL, option.JSONL, option.JSON}[g.Intn(4)]
	first := boundaryLengths[g.Intn(len(boundaryLengths))]
	if g.Intn(3) == 0 {
		first += g.Intn(5) - 2
	}
	lb := []text.LineBreak{text.CRLF, text.CRLF, text.LF, text.CR}[g.Intn(4)]
	if f == option.JSONL && lb == text.CR {
		lb = text.CRLF
	}
	boundaryRun(o, dir, f, first, lb, g.Intn(2) == 0, "")
}

var _ = value.NewNull
