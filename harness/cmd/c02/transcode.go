package main

// Transcoding: the Lean models of UTF-8, UTF-8 with BOM and UTF-16 BE / LE with and without BOM
// (Csvq.Model.Encoding) against go-text's transform writer / decoder (text.Encode, text.Decode).
//
//   c02.tenc <ENCODING> <hex of the UTF-8 text>   →  hex of the written bytes
//   c02.tdec <ENCODING> <hex bytes>               →  hex of the decoded text (UTF-8) | E
//
// Law on the implementation alone: transcode:<ENCODING>:roundtrip - what is written decodes to the text.

import (
	"bytes"
	"encoding/hex"
	"fmt"
	"unicode/utf8"

	"github.com/mithrandie/go-text"

	"verifharness/hc"
)

var modelledEncodings = []text.Encoding{text.UTF8, text.UTF8M, text.UTF16, text.UTF16BE, text.UTF16LE, text.UTF16BEM, text.UTF16LEM}

var tcRunes = []rune{'a', 'z', '0', ' ', '\n', '\r', ',', '"', 0x7f, 0x80, 0xe9, 0x7ff, 0x800, 0x3042, 0xd7ff, 0xe000, 0xfeff, 0xfffd, 0xfffe, 0xffff,
	0x10000, 0x10001, 0x1f600, 0x103ff, 0x10400, 0xfffff, 0x100000, 0x10ffff, 0xff, 0x100, 0xfe, 0xfffe, 0xfeff}

func genTcText(g *hc.Gen) string {
	n := g.Intn(10)
	if g.Intn(6) == 0 {
		n = 0
	}
	var rs []rune
	for i := 0; i < n; i++ {
		switch g.Intn(4) {
		case 0:
			r := rune(g.Intn(0x110000))
			if r >= 0xd800 && r <= 0xdfff {
				r = 0xe000
			}
			rs = append(rs, r)
		default:
			rs = append(rs, tcRunes[g.Intn(len(tcRunes))])
		}
	}
	return string(rs)
}

func hexOrE(b []byte, err error) string {
	if err != nil {
		return "E"
	}
	return hexTok(b)
}

// bytes to decode: a real encoding, mutated, or byte soup with surrogates / BOMs / odd length
var tcByteSoup = [][]byte{{0xfe, 0xff}, {0xff, 0xfe}, {0xef, 0xbb, 0xbf}, {0xd8, 0x00}, {0xdc, 0x00}, {0x00, 0xd8}, {0x00, 0xdc}, {0xdb, 0xff}, {0xdf, 0xff},
	{0x00}, {0x41}, {0x00, 0x41}, {0x41, 0x00}, {0xe3, 0x81, 0x82}, {0xe3, 0x81}, {0xf0, 0x9f, 0x98, 0x80}, {0xf0, 0x9f, 0x98}, {0xf0, 0x9f}, {0xc3, 0xa9}, {0xc3},
	{0xc0, 0x80}, {0xe0, 0x80, 0x80}, {0xed, 0xa0, 0x80}, {0xf4, 0x90, 0x80, 0x80}, {0xf5}, {0x80}, {0xbf}, {0xff}, {0xe0, 0xa0}, {0xed, 0x9f, 0xbf}, {0xf0, 0x90, 0x80, 0x80}}

func tcCase(g *hc.Gen, o *hc.Out) {
	e := modelledEncodings[g.Intn(len(modelledEncodings))]
	name := encName(e)
	s := genTcText(g)
	enc, eerr := text.Encode([]byte(s), e)
	o.Case(fmt.Sprintf("c02.tenc %s %s", name, hexTok([]byte(s))), hexOrE(enc, eerr))
	o.Count("transcode:enc:" + name)
	if rs := []rune(s); e == text.UTF16 && len(rs) > 0 && (rs[0] == 0xfeff || rs[0] == 0xfffe) {
		// UTF16 = big endian without BOM for the writer, "the BOM decides" for the decoder: a text that starts
		// with U+FEFF / U+FFFE IS a byte order mark to the reader (Enc.utf16_bom_counterexample)
		o.Count("transcode:UTF16:text_starts_with_a_bom")
	} else if eerr == nil {
		back, derr := text.Decode(enc, e)
		if derr != nil || string(back) != s {
			lawFail(o, "transcode:"+name+":roundtrip", map[string]interface{}{"text": hex.EncodeToString([]byte(s)), "written": hex.EncodeToString(enc),
				"decoded": hexOrE(back, derr), "replay": "text.Decode(text.Encode(text, enc), enc)"})
		}
	}
	// the decoder on what the writer wrote, on mutations of it and on byte soup
	var data []byte
	src := "written"
	switch g.Intn(3) {
	case 0:
		data = enc
	case 1:
		data, src = mutate(g, append([]byte{}, enc...)), "mutated"
	default:
		for i, n := 0, g.Intn(7); i < n; i++ {
			data = append(data, tcByteSoup[g.Intn(len(tcByteSoup))]...)
		}
		src = "soup"
	}
	dec, derr := text.Decode(data, e)
	if e == text.UTF8M && derr == nil && !utf8.Valid(dec) {
		// after a UTF-8 BOM the real transformer copies the bytes unchecked: not a text, nothing to compare
		o.Count("transcode:dec:UTF8M:ill_formed_passed_on")
		return
	}
	o.Case(fmt.Sprintf("c02.tdec %s %s", name, hexTok(data)), hexOrE(dec, derr))
	o.Count("transcode:dec:" + name + ":" + src + ":" + okErr(derr))
	o.NonTrivial(fmt.Sprintf("tc|%s|%s|%v|%d|%x", name, src, derr == nil, len(data)/4, fnv(append(bytes.Clone(data), []byte(s)...))))
}

func okErr(err error) string {
	if err == nil {
		return "ok"
	}
	return "error"
}
