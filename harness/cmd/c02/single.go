package main

// Fixed-length SINGLE-LINE files (delimiter positions `S[…]`; Csvq.Model.Fixed section "single-line files"):
//
//	c02.encs   model-encode = real bytes: query.EncodeView with SingleLine, the processor's --out file, the file COMMITted after
//	           CREATE TABLE + ALTER TABLE … SET DELIMITER_POSITIONS TO 'S[…]' + INSERT (the created-files loop of Transaction.Commit),
//	           and the file COMMITted after an INSERT into an existing single-line file (the updated-files loop): the records
//	           and NOTHING else — no header line, no line break between records, no ending line break whatever
//	           strip-ending-line-break says
//	c02.decs   model-decode = the real loader on written, mutated, line-broken and arbitrary texts read with `S[…]`
//	laws       roundtrip:fixed:single_line (EncodeView then the loader: the canonical table c1…cn; a failure that goes away when the
//	           line breaks in the cells are replaced is roundtrip:fixed:linebreak_in_cell, F16), single_line:<path>:reads_back
//	           (a fresh processor reads the committed / --out file as the table), rectangular:fixed
//
// Column changes on single-line tables (F113) are not driven here.

import (
	"bytes"
	"fmt"
	"os"
	"path/filepath"
	"strings"

	"github.com/mithrandie/csvq/lib/option"
	"github.com/mithrandie/csvq/lib/value"
	"github.com/mithrandie/go-text"
	txjson "github.com/mithrandie/go-text/json"

	"verifharness/hc"
)

func singleOpts(g *hc.Gen, t *table) opts {
	op := opts{format: option.FIXED, delim: ',', lb: lineBreaks[g.Intn(len(lineBreaks))], enc: text.UTF8, jsonEscape: txjson.Backslash, singleLine: true}
	op.strip = g.Intn(2) == 0
	op.withoutHeader = g.Intn(3) == 0
	w := op
	w.withoutHeader = true // the header line is never written: the widths come from the cells
	op.positions = genPositions(g, t, w)
	if op.positions == nil {
		op.positions = []int{}
	}
	return op
}

func singleTable(g *hc.Gen, breaks bool, maxRows int) *table {
	r := genRisk(g)
	r.breaks = breaks && g.Intn(4) == 0
	if !breaks {
		r.breaks = false
	}
	t := genTable(g, r, true, maxRows)
	if len(t.rows) > maxRows {
		t.rows = t.rows[:maxRows]
	}
	if !breaks {
		for i := range t.rows {
			for j, c := range t.rows[i] {
				if isBreak(c.text) {
					t.rows[i][j] = mkCell(value.NewString(unbreak(c.text)))
				}
			}
		}
	}
	return t
}

func singleEncLine(t *table, op opts) string {
	return fmt.Sprintf("c02.encs fixed %s %s %s %s %s", b01(op.withoutHeader), b01(op.strip), lbName(op.lb), posToks(op.positions), tableToks(t, true))
}

func singleWant(t *table) *dtable {
	return expected(t, opts{format: option.FIXED, withoutHeader: true})
}

func hasBreakCell(t *table) bool {
	for _, r := range t.rows {
		for _, c := range r {
			if isBreak(c.text) {
				return true
			}
		}
	}
	return false
}

// singleEncCase: EncodeView, then the loader on what it wrote
func singleEncCase(g *hc.Gen, o *hc.Out, dir string) {
	t := singleTable(g, true, 6)
	if !validText(t) {
		return
	}
	op := singleOpts(g, t)
	line := singleEncLine(t, op)
	b, err := realEncode(t, op)
	impl := "E"
	if err == nil {
		impl = hexTok(b)
	}
	o.Case(line, impl)
	o.Count("encs:view:" + okErr(err))
	o.NonTrivial("encs|view|" + op.sig() + "|" + textClasses(t) + "|" + dimClass(t) + "|" + okErr(err))
	if err != nil || len(op.positions) == 0 {
		return
	}
	// outside the law: positions no reader accepts (a zero-width column), a table without records (a single-line file has
	// no header line: nothing is written that could be read back), and a file whose first bytes are a byte-order mark
	// because the first cell begins with U+FEFF (every text loader takes those bytes for the mark)
	last := 0
	for _, p := range op.positions {
		if p <= last {
			o.Count("encs:roundtrip:outside:zero_width_column")
			return
		}
		last = p
	}
	if len(t.rows) == 0 {
		o.Count("encs:roundtrip:outside:no_records")
		return
	}
	if len(b) >= 3 && b[0] == 0xEF && b[1] == 0xBB && b[2] == 0xBF {
		o.Count("encs:roundtrip:outside:leading_bom_bytes")
		return
	}
	// the write-then-read law on the real code
	load := func(tt *table) (*dtable, error) {
		bb, e := realEncode(tt, op)
		if e != nil {
			return nil, e
		}
		v, e := realLoad(dir, "sl.txt", bb, op, text.UTF8, false)
		if e != nil {
			return nil, e
		}
		return fromView(v), nil
	}
	d, lerr := load(t)
	if lerr == nil && !rectangularD(d) {
		lawFail(o, "rectangular:fixed", map[string]interface{}{"op": line, "loaded": d.String()})
	}
	want := singleWant(t)
	if lerr == nil && d.equal(want) {
		o.Count("encs:roundtrip:ok")
		return
	}
	got := "error"
	if lerr == nil {
		got = d.String()
	} else {
		got = "error: " + firstLine(lerr.Error())
	}
	replay := map[string]interface{}{"op": line, "positions": posString(op.positions, true), "header": t.header, "rows": rowsForReplay(t), "expected": want.String(), "loaded": got}
	if hasBreakCell(t) {
		t2 := mapTexts(t, false, unbreak)
		if d2, e2 := load(t2); e2 == nil && d2.equal(singleWant(t2)) {
			lawFail(o, "roundtrip:fixed:linebreak_in_cell", replay)
			return
		}
	}
	lawFail(o, "roundtrip:fixed:single_line", replay)
}

// singleDecCase: the loader with `S[…]` on written, mutated, line-broken and arbitrary texts
func singleDecCase(g *hc.Gen, o *hc.Out, dir string) {
	var data []byte
	var op opts
	src := "soup"
	switch g.Intn(4) {
	case 0:
		op = opts{format: option.FIXED, delim: ',', lb: text.LF, enc: text.UTF8, singleLine: true, positions: []int{}}
		n := g.Intn(14)
		for i := 0; i < n; i++ {
			data = append(data, soup[g.Intn(len(soup))]...)
		}
		p := 0
		for k := g.Intn(4); k > 0; k-- {
			p += g.Intn(4)
			if g.Intn(10) != 0 {
				p++
			}
			op.positions = append(op.positions, p)
		}
		if len(op.positions) == 0 && g.Intn(3) != 0 {
			op.positions = []int{1 + g.Intn(3)}
		}
	default:
		t := singleTable(g, true, 6)
		op = singleOpts(g, t)
		b, err := realEncode(t, op)
		if err != nil {
			b = nil
		}
		data = b
		src = "encoded"
		switch g.Intn(5) {
		case 0:
			data = append(data, op.lb.Value()...) // what a commit must NOT append: one more record
			src = "ending_line_break"
		case 1:
			data = mutate(g, data)
			src = "mutated"
		case 2:
			if len(data) > 0 {
				data = data[:g.Intn(len(data))] // a last record that is cut short
				src = "truncated"
			}
		case 3:
			if g.Intn(2) == 0 && len(op.positions) > 1 {
				op.positions = op.positions[:len(op.positions)-1] // read with other positions than written
				src = "other_positions"
			}
		}
	}
	op.withoutNull = g.Intn(3) == 0
	enc, err := text.DetectInSpecifiedEncoding(bytes.NewReader(data), text.UTF8)
	must(err)
	txt, err := text.Decode(data, enc)
	must(err)
	line := fmt.Sprintf("c02.decs fixed %s %s %s", b01(op.withoutNull), posToks(op.positions), hexTok(txt))
	v, lerr := realLoad(dir, "sd.txt", data, op, text.UTF8, true)
	impl, kind := "E", "error"
	if lerr == nil {
		d := fromView(v)
		impl, kind = showD(d, lbName(v.FileInfo.LineBreak)), "ok"
		if !rectangularD(d) {
			lawFail(o, "rectangular:fixed", map[string]interface{}{"op": line, "loaded": d.String()})
		}
		if len(d.rows) == 0 {
			kind = "ok-empty"
		}
	} else if isFatal(lerr) {
		lawFail(o, "decode:fixed:fatal", map[string]interface{}{"op": line, "error": firstLine(lerr.Error())})
		kind = "fatal"
	}
	o.Case(line, impl)
	o.Count("decs:" + src + ":" + kind)
	o.NonTrivial(fmt.Sprintf("decs|%s|%s|%d|%d|%x", src, kind, len(op.positions), len(data)/8, fnv(data)%256))
}

func insertSQL(target string, rows [][]cell) (string, bool) {
	if len(rows) == 0 {
		return "", true
	}
	var sb strings.Builder
	sb.WriteString("INSERT INTO " + target + " VALUES ")
	for i, r := range rows {
		ls := make([]string, len(r))
		for j, c := range r {
			l, ok := sqlLit(c.val)
			if !ok {
				return "", false
			}
			ls[j] = l
		}
		if i > 0 {
			sb.WriteString(", ")
		}
		sb.WriteString("(" + strings.Join(ls, ", ") + ")")
	}
	sb.WriteString(";")
	return sb.String(), true
}

// readsBack: a fresh processor reads the file with the same positions as the table
func readsBack(o *hc.Out, dir string, how string, data []byte, t *table, op opts, replay map[string]interface{}) {
	last := 0
	for _, p := range op.positions {
		if p <= last {
			return // positions no reader accepts
		}
		last = p
	}
	if len(op.positions) == 0 {
		return
	}
	if len(data) >= 3 && data[0] == 0xEF && data[1] == 0xBB && data[2] == 0xBF {
		o.Count("single_line:outside:leading_bom_bytes") // the first cell begins with U+FEFF: read as a byte-order mark
		return
	}
	want := singleWant(t)
	v, err := realLoad(dir, "back.txt", data, op, text.UTF8, false)
	got := ""
	if err != nil {
		got = "error: " + firstLine(err.Error())
	} else if d := fromView(v); !d.equal(want) {
		got = d.String()
	}
	if got != "" {
		replay["expected"], replay["loaded"] = want.String(), got
		lawFail(o, "single_line:"+how+":reads_back", replay)
	}
}

// singleCreateRun: CREATE TABLE, switch it to a single-line file, fill it, COMMIT (the created-files loop of Transaction.Commit)
func singleCreateRun(o *hc.Out, dir string, t *table, op opts, tag string) {
	wd, err := os.MkdirTemp(dir, "single-")
	must(err)
	defer os.RemoveAll(wd)
	hs := make([]string, len(t.header))
	for j, h := range t.header {
		hs[j] = option.QuoteIdentifier(h)
	}
	ins, ok := insertSQL("`sl.txt`", t.rows)
	if !ok {
		return
	}
	sql := fmt.Sprintf("CREATE TABLE `sl.txt` (%s); ALTER TABLE `sl.txt` SET DELIMITER_POSITIONS TO %s; %s COMMIT;",
		strings.Join(hs, ", "), option.QuoteString(posString(op.positions, true)), ins)
	p := hc.NewProc(wd)
	tx := p.P.Tx
	must(tx.SetFlag(option.QuietFlag, true))
	must(tx.SetFlag(option.LineBreakFlag, lbName(op.lb)))
	must(tx.SetFlag(option.StripEndingLineBreakFlag, op.strip))
	_, cerr := p.Exec(sql)
	p.Close()
	w := op
	w.withoutHeader = false
	line := singleEncLine(t, w)
	impl := "E"
	var got []byte
	if cerr == nil {
		got, err = os.ReadFile(filepath.Join(wd, "sl.txt"))
		if err != nil {
			lawFail(o, "single_line:created_then_switched:no_file", map[string]interface{}{"statements": sql})
			return
		}
		impl = hexTok(got)
	}
	o.Context(sql)
	o.Case(line, impl)
	o.Count("encs:created_then_switched:" + okErr(cerr))
	o.NonTrivial("encs|created|" + w.sig() + "|" + dimClass(t) + "|" + okErr(cerr) + tag)
	if cerr == nil {
		readsBack(o, wd, "created_then_switched", got, t, op, map[string]interface{}{"statements": sql, "strip_ending_line_break": op.strip, "committed_hex": clipHex(got)})
	}
}

// singleUpdateRun: INSERT into an existing single-line file, COMMIT (the updated-files loop)
func singleUpdateRun(o *hc.Out, dir string, t *table, op opts) {
	if len(t.rows) < 1 || len(op.positions) == 0 {
		return
	}
	wd, err := os.MkdirTemp(dir, "single-")
	must(err)
	defer os.RemoveAll(wd)
	old := &table{header: t.header, rows: t.rows[:len(t.rows)-1]}
	before, err := realEncode(old, op)
	if err != nil {
		return
	}
	must(os.WriteFile(filepath.Join(wd, "sl.txt"), before, 0o644))
	ins, ok := insertSQL("`sl.txt`", t.rows[len(t.rows)-1:])
	if !ok {
		return
	}
	sql := ins + " COMMIT;"
	p := importProc(wd, op, text.UTF8)
	tx := p.P.Tx
	must(tx.SetFlag(option.QuietFlag, true))
	must(tx.SetFlag(option.LineBreakFlag, lbName(op.lb)))
	must(tx.SetFlag(option.StripEndingLineBreakFlag, op.strip))
	_, cerr := p.Exec(sql)
	p.Close()
	// what the transaction held: the loaded records are texts (left-aligned, NULL where blank), the new one is as inserted
	now := &table{header: t.header, rows: make([][]cell, len(t.rows))}
	for i, r := range t.rows {
		if i == len(t.rows)-1 {
			now.rows[i] = r
			continue
		}
		now.rows[i] = make([]cell, len(r))
		for j, c := range r {
			s := trimBlanks(c.text)
			if s == "" {
				now.rows[i][j] = mkCell(value.NewNull())
			} else {
				now.rows[i][j] = mkCell(value.NewString(s))
			}
		}
	}
	if hasBreakCell(old) {
		return // the file does not hold the records of `old` (F16)
	}
	w := op
	w.withoutHeader = false
	line := singleEncLine(now, w)
	impl := "E"
	var got []byte
	if cerr == nil {
		got, err = os.ReadFile(filepath.Join(wd, "sl.txt"))
		must(err)
		impl = hexTok(got)
	}
	o.Context("file " + clipHex(before) + " read with " + posString(op.positions, true) + "; " + sql)
	o.Case(line, impl)
	o.Count("encs:updated:" + okErr(cerr))
	o.NonTrivial("encs|updated|" + w.sig() + "|" + dimClass(t) + "|" + okErr(cerr))
	if cerr == nil && !hasBreakCell(t) {
		readsBack(o, wd, "updated", got, now, op, map[string]interface{}{"file_before_hex": clipHex(before), "statements": sql, "committed_hex": clipHex(got)})
	}
}

// singleOutRun: the processor's --out file
func singleOutRun(o *hc.Out, dir string, t *table, op opts) {
	if op.withoutHeader && len(t.rows) == 0 {
		return // DataEmpty: the processor writes nothing and reports no error
	}
	data, err, ok := writeViaProcSink(dir, t, op, false)
	if !ok {
		return
	}
	line := singleEncLine(t, op)
	impl := "E"
	if err == nil {
		impl = hexTok(data)
	}
	o.Case(line, impl)
	o.Count("encs:out_file:" + okErr(err))
	o.NonTrivial("encs|out|" + op.sig() + "|" + dimClass(t) + "|" + okErr(err))
	if err == nil && !hasBreakCell(t) {
		readsBack(o, dir, "out_file", data, t, op, map[string]interface{}{"header": t.header, "rows": rowsForReplay(t), "positions": posString(op.positions, true), "written_hex": clipHex(data)})
	}
}

func singleCase(g *hc.Gen, o *hc.Out, dir string) {
	singleEncCase(g, o, dir)
	singleDecCase(g, o, dir)
	t := singleTable(g, false, 5)
	if !validText(t) {
		return
	}
	op := singleOpts(g, t)
	switch g.Intn(3) {
	case 0:
		singleCreateRun(o, dir, t, op, "")
	case 1:
		singleUpdateRun(o, dir, t, op)
	default:
		singleOutRun(o, dir, t, op)
	}
}

// singleCorpus: the table of the manual's example shape, through every path, with and without strip-ending-line-break
func singleCorpus(o *hc.Out, dir string) {
	mk := func(rows ...[]value.Primary) *table {
		t := &table{header: []string{"code", "qty"}}
		for _, r := range rows {
			cs := make([]cell, len(r))
			for j, v := range r {
				cs[j] = mkCell(v)
			}
			t.rows = append(t.rows, cs)
		}
		return t
	}
	t := mk([]value.Primary{value.NewString("aa"), value.NewString("111")}, []value.Primary{value.NewString("bb"), value.NewInteger(22)},
		[]value.Primary{value.NewString("c"), value.NewNull()})
	for _, strip := range []bool{false, true} {
		for _, lb := range []text.LineBreak{text.LF, text.CRLF} {
			op := opts{format: option.FIXED, delim: ',', lb: lb, enc: text.UTF8, jsonEscape: txjson.Backslash, singleLine: true, positions: []int{2, 5}, strip: strip}
			singleCreateRun(o, dir, t, op, "|corpus")
			singleUpdateRun(o, dir, t, op)
			singleOutRun(o, dir, t, op)
		}
	}
	empty := mk()
	singleCreateRun(o, dir, empty, opts{format: option.FIXED, delim: ',', lb: text.LF, enc: text.UTF8, singleLine: true, positions: []int{2, 5}}, "|corpus-empty")
}
