package main

// Sequences inside ONE transaction that end in a COMMIT: the attributes of a table are changed by
// ALTER TABLE … SET while the table may already have uncommitted changes.
//
//	{nothing, UPDATE, INSERT, DELETE, ALTER … ADD, an earlier ALTER … SET}
//	  × ALTER TABLE t SET <every attribute> TO <every other value>   (or no SET at all)
//	  × {nothing, a further UPDATE}
//	  × COMMIT
//
// What csvq REPORTS for the table (SHOW FIELDS FROM t right before the COMMIT) is the dialect the file must be
// written in:
//
//   - the op line is the model's encoder on (the table the statements must produce, the REPORTED attributes);
//     the implementation's answer is the text of the committed file, decoded in the reported encoding
//     (c02.enc / c02.encp / c02.jenc, and c02.tenc for the bytes of that text in the reported encoding);
//   - a FRESH processor (and, for the corpus, the csvq binary) loads the committed bytes under the reported
//     attributes and must see that table;
//   - the reported attributes are those the statements ask for (FileInfo.Set* as the specification);
//   - the same statements in a session that differs only in a flag that concerns TERMINAL output (colour,
//     width counting, the format / encoding / delimiter of the result stream, statistics …) commit the same bytes.
//
// Laws:  altered:<fmt>:bytes | encoding | ending_line_break | reload | reported_attributes | loaded_attributes |
//        statement_failed | commit_failed | set_not_refused
//        session_flag_changes_committed_file | session_flag_changes_created_file | session_flag_changes_out_file

import (
	"bytes"
	"encoding/hex"
	"encoding/json"
	"fmt"
	"os"
	"path/filepath"
	"regexp"
	"strconv"
	"strings"

	"github.com/mithrandie/csvq/lib/option"
	"github.com/mithrandie/csvq/lib/query"
	"github.com/mithrandie/csvq/lib/value"
	"github.com/mithrandie/go-text"
	txjson "github.com/mithrandie/go-text/json"

	"verifharness/hc"
)

// pendingCases / pendingFixedAuto: generator cases for defects of the unchanged tree that are reported but neither
// repaired nor recorded yet are switched on by VERIF_C02_PENDING=1 only.  None at present: the colour escapes in JSON
// files (F102, cc560dc), the prefix path after the longer path (F103, 868dfbb) and the detected positions of a
// fixed-length file becoming its explicit ones (F112, 6d60636: UPDATE + COMMIT rewrote a file read with AUTOMATIC
// positions without the blank between the columns, and refused a value longer than the detected column) are repaired
// in /repo, so all three case families run in every check; VERIF_C02_PENDING=0 switches them off (to look at an older
// tree).
var pendingCases = os.Getenv("VERIF_C02_PENDING") != "0"
var pendingFixedAuto = os.Getenv("VERIF_C02_PENDING") != "0"

// ---------- the attribute vocabulary ----------

var altAttrs = []string{"DELIMITER", "DELIMITER_POSITIONS", "FORMAT", "ENCODING", "LINE_BREAK", "HEADER", "ENCLOSE_ALL", "JSON_ESCAPE", "PRETTY_PRINT"}

var altValues = map[string][]string{
	"DELIMITER":           {",", ";", "|", "\t", " ", ":"},
	"DELIMITER_POSITIONS": {"[]", "SPACES"}, // "[]" stands for explicit positions that fit the table
	"FORMAT":              {"CSV", "TSV", "FIXED", "JSON", "JSONL", "LTSV", "JSONH", "JSONA"},
	"ENCODING":            {"UTF8", "UTF8M", "UTF16", "UTF16BE", "UTF16LE", "UTF16BEM", "UTF16LEM", "SJIS"},
	"LINE_BREAK":          {"LF", "CRLF", "CR"},
	"HEADER":              {"TRUE", "FALSE"},
	"ENCLOSE_ALL":         {"TRUE", "FALSE"},
	"JSON_ESCAPE":         {"BACKSLASH", "HEX", "HEXALL"},
	"PRETTY_PRINT":        {"TRUE", "FALSE"},
}

func parseEnc(s string) text.Encoding {
	e, err := option.ParseEncoding(s)
	must(err)
	return e
}

func parseLBName(s string) text.LineBreak {
	lb, err := option.ParseLineBreak(s)
	must(err)
	return lb
}

func formatByName(s string) (option.Format, bool) {
	switch s {
	case "CSV":
		return option.CSV, true
	case "TSV":
		return option.TSV, true
	case "FIXED":
		return option.FIXED, true
	case "JSON":
		return option.JSON, true
	case "JSONL":
		return option.JSONL, true
	case "LTSV":
		return option.LTSV, true
	}
	return option.CSV, false
}

func isJSONFormat(f option.Format) bool { return f == option.JSON || f == option.JSONL }

func samePositions(a, b []int) bool {
	if (a == nil) != (b == nil) || len(a) != len(b) {
		return false
	}
	for i := range a {
		if a[i] != b[i] {
			return false
		}
	}
	return true
}

// applySet: what ALTER TABLE … SET attr TO raw means for the attributes cur (FileInfo.Set* taken as the
// specification): "changed", "unchanged" (csvq says so and changes nothing) or "refused"
func applySet(cur opts, attr, raw string, fit []int) (opts, string) {
	n := cur
	switch attr {
	case "DELIMITER":
		r := []rune(raw)[0]
		f := option.CSV
		if r == '\t' {
			f = option.TSV
		}
		if cur.delim == r && cur.format == f {
			return cur, "unchanged"
		}
		n.delim, n.format = r, f
	case "DELIMITER_POSITIONS":
		var p []int
		if raw != "SPACES" {
			p = append([]int{}, fit...)
		}
		if cur.format == option.FIXED && samePositions(cur.positions, p) && !cur.singleLine {
			return cur, "unchanged"
		}
		n.format, n.positions, n.singleLine = option.FIXED, p, false
	case "FORMAT":
		esc := cur.jsonEscape
		name := raw
		switch raw {
		case "JSONH":
			name, esc = "JSON", txjson.HexDigits
		case "JSONA":
			name, esc = "JSON", txjson.AllWithHexDigits
		}
		f, ok := formatByName(name)
		if !ok {
			return cur, "refused"
		}
		if cur.format == f && cur.jsonEscape == esc {
			return cur, "unchanged"
		}
		n.format, n.jsonEscape = f, esc
		switch f {
		case option.TSV:
			n.delim = '\t'
		case option.JSON, option.JSONL:
			n.enc = text.UTF8
		}
	case "ENCODING":
		e := parseEnc(raw)
		if isJSONFormat(cur.format) && e != text.UTF8 {
			return cur, "refused"
		}
		if cur.enc == e {
			return cur, "unchanged"
		}
		n.enc = e
	case "LINE_BREAK":
		lb := parseLBName(raw)
		if cur.lb == lb {
			return cur, "unchanged"
		}
		n.lb = lb
	case "HEADER":
		b := raw != "TRUE"
		if cur.withoutHeader == b {
			return cur, "unchanged"
		}
		n.withoutHeader = b
	case "ENCLOSE_ALL":
		b := raw == "TRUE"
		if cur.encloseAll == b {
			return cur, "unchanged"
		}
		n.encloseAll = b
	case "JSON_ESCAPE":
		e := map[string]txjson.EscapeType{"BACKSLASH": txjson.Backslash, "HEX": txjson.HexDigits, "HEXALL": txjson.AllWithHexDigits}[raw]
		if cur.jsonEscape == e {
			return cur, "unchanged"
		}
		n.jsonEscape = e
	case "PRETTY_PRINT":
		b := raw == "TRUE"
		if cur.pretty == b {
			return cur, "unchanged"
		}
		n.pretty = b
	default:
		panic("attribute " + attr)
	}
	return n, "changed"
}

func setSQL(target, attr, raw string, fit []int) string {
	v := option.QuoteString(raw)
	switch attr {
	case "HEADER", "ENCLOSE_ALL", "PRETTY_PRINT":
		v = raw
	case "DELIMITER_POSITIONS":
		if raw != "SPACES" {
			v = option.QuoteString(posString(fit, false))
		}
	}
	return fmt.Sprintf("ALTER TABLE %s SET %s TO %s", target, attr, v)
}

// ---------- what csvq reports ----------

var reAttr = regexp.MustCompile(`(Format|Delimiter Positions|Delimiter|Enclose All|Escape|Encoding|LineBreak|Pretty Print|Header): *('(?:[^'\\]|\\.)*'|S?\[[^\]]*\]|[^ \n]+)`)

// parseReport: the attribute lines of SHOW FIELDS (or of the log of ALTER TABLE … SET) as a dialect; only what
// csvq prints for the format is set, `shown` says which
func parseReport(s string) (d opts, shown map[string]bool, ok bool) {
	d = opts{delim: ',', enc: text.UTF8, lb: text.LF, jsonEscape: txjson.Backslash}
	shown = map[string]bool{}
	for _, m := range reAttr.FindAllStringSubmatch(s, -1) {
		k, v := m[1], m[2]
		if shown[k] {
			continue
		}
		shown[k] = true
		switch k {
		case "Format":
			f, fok := formatByName(v)
			if !fok {
				return d, shown, false
			}
			d.format = f
		case "Delimiter":
			u := option.UnescapeString(strings.TrimSuffix(strings.TrimPrefix(v, "'"), "'"), '\'')
			r := []rune(u)
			if len(r) != 1 {
				return d, shown, false
			}
			d.delim = r[0]
		case "Delimiter Positions":
			if strings.HasPrefix(v, "S") && v != "SPACES" {
				d.singleLine = true
				v = v[1:]
			}
			if v != "SPACES" {
				d.positions = []int{}
				if json.Unmarshal([]byte(v), &d.positions) != nil {
					return d, shown, false
				}
			}
		case "Enclose All":
			d.encloseAll = v == "true"
		case "Escape":
			e, err := option.ParseJsonEscapeType(v)
			if err != nil {
				return d, shown, false
			}
			d.jsonEscape = e
		case "Encoding":
			e, err := option.ParseEncoding(v)
			if err != nil {
				return d, shown, false
			}
			d.enc = e
		case "LineBreak":
			lb, err := option.ParseLineBreak(v)
			if err != nil {
				return d, shown, false
			}
			d.lb = lb
		case "Pretty Print":
			d.pretty = v == "true"
		case "Header":
			d.withoutHeader = v != "true"
		}
	}
	return d, shown, shown["Format"]
}

// shownDiff: the attributes csvq shows for the format on which the two dialects differ
func shownDiff(rep, want opts, shown map[string]bool) []string {
	var ds []string
	add := func(k string, differs bool) {
		if shown[k] && differs {
			ds = append(ds, k)
		}
	}
	add("Format", rep.format != want.format)
	add("Delimiter", rep.delim != want.delim)
	add("Delimiter Positions", !samePositions(rep.positions, want.positions) || rep.singleLine != want.singleLine)
	add("Enclose All", rep.encloseAll != want.encloseAll)
	add("Escape", rep.jsonEscape != want.jsonEscape)
	add("Encoding", rep.enc != want.enc)
	add("LineBreak", rep.lb != want.lb)
	add("Pretty Print", rep.pretty != want.pretty)
	add("Header", rep.withoutHeader != want.withoutHeader)
	return ds
}

// ---------- the model's op line for (table, dialect) ----------

func modelEncLine(t *table, op opts) string {
	switch op.format {
	case option.CSV, option.TSV:
		return fmt.Sprintf("c02.enc csv %d %s %s %s %s %s", op.delim, lbName(op.lb), b01(op.encloseAll), b01(op.withoutHeader), b01(claimedQuoteLB), tableToks(t, false))
	case option.LTSV:
		return fmt.Sprintf("c02.enc ltsv %s %s", lbName(op.lb), tableToks(t, false))
	case option.FIXED:
		if op.positions != nil {
			return fmt.Sprintf("c02.encp fixed %s %s %s %s", lbName(op.lb), b01(op.withoutHeader), posToks(op.positions), tableToks(t, true))
		}
		return fmt.Sprintf("c02.enc fixed %s %s %s", lbName(op.lb), b01(op.withoutHeader), tableToks(t, true))
	}
	prof := profile{}
	toks := jtableToks(t, prof)
	return fmt.Sprintf("c02.jenc %s %d %s %s %s %s", fmtName(op.format), op.jsonEscape, b01(op.pretty && op.format == option.JSON), lbName(op.lb), prof.toks(), toks)
}

// bomOf: the byte order mark the encoding writes, and the encoding of what follows it
func bomOf(e text.Encoding) ([]byte, text.Encoding) {
	switch e {
	case text.UTF8M:
		return []byte(text.UTF8BOM), text.UTF8
	case text.UTF16BEM:
		return []byte{0xfe, 0xff}, text.UTF16BE
	case text.UTF16LEM:
		return []byte{0xff, 0xfe}, text.UTF16LE
	case text.UTF16:
		return nil, text.UTF16BE
	}
	return nil, e
}

// decodeAs: the text of a file that is in the encoding e exactly as csvq writes e (nil = it is not)
func decodeAs(data []byte, e text.Encoding) ([]byte, bool) {
	mark, plain := bomOf(e)
	if !bytes.HasPrefix(data, mark) {
		return nil, false
	}
	body := data[len(mark):]
	if plain == text.UTF8 {
		if !validBytes(body) || bytes.HasPrefix(body, []byte(text.UTF8BOM)) {
			return nil, false
		}
		return body, true
	}
	txt, err := text.Decode(body, plain)
	if err != nil {
		return nil, false
	}
	back, err := text.Encode(txt, plain)
	if err != nil || !bytes.Equal(back, body) {
		return nil, false
	}
	return txt, true
}

func validBytes(b []byte) bool {
	return validText(&table{header: []string{string(b)}})
}

// ---------- tables ----------

func fromD(d *dtable) *table {
	t := &table{header: append([]string(nil), d.header...), rows: make([][]cell, len(d.rows))}
	for i, r := range d.rows {
		t.rows[i] = make([]cell, len(r))
		for j, c := range r {
			if c.null {
				t.rows[i][j] = mkCell(value.NewNull())
			} else {
				t.rows[i][j] = cS(c.text)
			}
		}
	}
	return t
}

type altNeeds struct {
	ascii, noBlank, nonEmpty, sjis, noNull bool
}

var altWords = []string{"a", "bc", "x y", "Q", "日本", "12", "v-1", "k", "a,b", "q\"r", "s;t", "u|v", "", "ｱｲ"}

func altTable(g *hc.Gen, nd altNeeds) *table {
	var words []string
	for _, w := range altWords {
		switch {
		case nd.ascii && len(w) != len([]rune(w)),
			nd.noBlank && strings.Contains(w, " "),
			nd.nonEmpty && w == "":
			continue
		}
		words = append(words, w)
	}
	nc, nr := 2+g.Intn(3), 2+g.Intn(4)
	t := &table{header: genHeader(g, nc, risk{}, true), rows: make([][]cell, nr)}
	for i := range t.rows {
		t.rows[i] = make([]cell, nc)
		for j := range t.rows[i] {
			if j == 0 {
				t.rows[i][j] = cS(fmt.Sprintf("r%d", i))
			} else {
				t.rows[i][j] = cS(words[g.Intn(len(words))])
			}
		}
	}
	return t
}

// ---------- one sequence ----------

type altPlan struct {
	d0      opts
	pre     string // none | update | insert | delete | add | set
	preAttr string // the attribute of the earlier SET
	preVal  int
	attr    string // "" = no ALTER TABLE … SET
	val     int    // index into the attribute's vocabulary (moved on when it names the current value)
	post    bool
	term    string // the terminal-only session flag of the second run ("" = none)
	viaBin  bool   // the committed file is also loaded by the csvq binary
}

func (pl altPlan) sig() string {
	return fmt.Sprintf("%s|%s:%s|%s=%d|%v|%s", fmtName(pl.d0.format), pl.pre, pl.preAttr, pl.attr, pl.val, pl.post, pl.term)
}

// pickValue: the val-th value of the attribute, moved on until the SET changes something and (for the formats
// the model and the readers cover) is usable
func pickValue(cur opts, attr string, start int, fit []int, avoid func(opts) bool) (string, opts, bool) {
	vs := altValues[attr]
	for k := 0; k < len(vs); k++ {
		raw := vs[(start+k)%len(vs)]
		n, st := applySet(cur, attr, raw, fit)
		if st == "changed" && !avoid(n) {
			return raw, n, true
		}
	}
	return "", cur, false
}

// unusable: dialects outside what the writers / readers are known to carry (known findings)
func unusable(d opts) bool {
	if d.format == option.FIXED && utf16Family(d.enc) {
		return true // F16 utf16_padding
	}
	return false
}

var termFlags = []string{"COLOR", "EAST_ASIAN_ENCODING", "COUNT_DIACRITICAL_SIGN", "COUNT_FORMAT_CODE", "STATS", "FORMAT_JSON", "FORMAT_BOX", "PRETTY_PRINT",
	"COLOR+PRETTY_PRINT", "WRITE_ENCODING", "WRITE_DELIMITER", "WRITE_DELIMITER_POSITIONS", "WITHOUT_HEADER"}

// setTermFlag: a session flag that concerns the terminal / the result stream only
func setTermFlag(tx *query.Transaction, name string) {
	for _, n := range strings.Split(name, "+") {
		switch n {
		case "COLOR":
			must(tx.SetFlag(option.ColorFlag, true))
		case "EAST_ASIAN_ENCODING":
			must(tx.SetFlag(option.EastAsianEncodingFlag, true))
		case "COUNT_DIACRITICAL_SIGN":
			must(tx.SetFlag(option.CountDiacriticalSignFlag, true))
		case "COUNT_FORMAT_CODE":
			must(tx.SetFlag(option.CountFormatCodeFlag, true))
		case "STATS":
			must(tx.SetFlag(option.StatsFlag, true))
		case "FORMAT_JSON":
			must(tx.SetFlag(option.FormatFlag, "JSON"))
		case "FORMAT_BOX":
			must(tx.SetFlag(option.FormatFlag, "BOX"))
		case "PRETTY_PRINT":
			must(tx.SetFlag(option.PrettyPrintFlag, true))
		case "WRITE_ENCODING":
			must(tx.SetFlag(option.ExportEncodingFlag, "UTF16"))
		case "WRITE_DELIMITER":
			must(tx.SetFlag(option.ExportDelimiterFlag, "#"))
		case "WRITE_DELIMITER_POSITIONS":
			must(tx.SetFlag(option.ExportDelimiterPositionsFlag, "[1, 3, 40]"))
		case "WITHOUT_HEADER":
			must(tx.SetFlag(option.WithoutHeaderFlag, true))
		default:
			panic("terminal flag " + n)
		}
	}
}

// termFlagArgs: the same flag on the command line of the binary
func termFlagArgs(name string) []string {
	var a []string
	for _, n := range strings.Split(name, "+") {
		switch n {
		case "COLOR":
			a = append(a, "--color")
		case "EAST_ASIAN_ENCODING":
			a = append(a, "--east-asian-encoding")
		case "COUNT_DIACRITICAL_SIGN":
			a = append(a, "--count-diacritical-sign")
		case "COUNT_FORMAT_CODE":
			a = append(a, "--count-format-code")
		case "STATS":
			a = append(a, "--stats")
		case "PRETTY_PRINT":
			a = append(a, "--pretty-print")
		}
	}
	return a
}

// pendingColor: the colour flag reaches a pretty-printed JSON file (reported; not repaired or recorded yet)
func pendingColor(term string, final opts) bool {
	return strings.Contains(term, "COLOR") && final.format == option.JSON && final.pretty
}

func altRun(o *hc.Out, dir string, g *hc.Gen, pl altPlan, tag string) {
	d0 := pl.d0
	f0 := d0.format
	name := fmtName(f0)
	o.Case("c02.nop", "ok")

	// --- the plan as attributes: what the table has after load, after the earlier SET, after the SET
	cur := d0
	cur.enc = concreteEncoding(d0.enc)
	if !isJSONFormat(f0) {
		cur.jsonEscape = txjson.Backslash
	}
	if f0 != option.CSV && f0 != option.TSV {
		cur.encloseAll = false
	}
	cur.pretty, cur.strip = false, false
	if f0 == option.LTSV || isJSONFormat(f0) {
		cur.withoutHeader = false
	}
	// explicit delimiter positions are symbols until the table is known: -3 those of the file, -1 / -2 those of
	// the earlier / the main SET (pairwise different, as the real ones are)
	if f0 == option.FIXED {
		cur.positions = []int{-3}
	}
	type step struct {
		attr, raw string
		pos       int // which explicit positions a DELIMITER_POSITIONS step sets
	}
	var sets []step
	final := cur
	avoid := func(n opts) bool { return unusable(n) }
	if pl.pre == "set" {
		raw, n, ok := pickValue(final, pl.preAttr, pl.preVal, []int{-1}, avoid)
		if !ok {
			pl.pre = "update"
		} else {
			sets = append(sets, step{pl.preAttr, raw, -1})
			final = n
		}
	}
	if pl.attr != "" {
		raw, n, ok := pickValue(final, pl.attr, pl.val, []int{-2}, avoid)
		if !ok {
			o.Count("alter:skipped:no_other_value:" + pl.attr)
			return
		}
		sets = append(sets, step{pl.attr, raw, -2})
		final = n
	}
	if final.format == option.FIXED && samePositions(final.positions, []int{-3}) && pl.pre == "add" {
		pl.pre = "insert" // the positions the file was read with cannot carry an added column
	}
	// the table: what every format involved can carry
	fixedAt := func(d opts) bool { return d.format == option.FIXED }
	autoAt := func(d opts) bool { return d.format == option.FIXED && d.positions == nil }
	nd := altNeeds{}
	for _, d := range []opts{cur, final} {
		nd.ascii = nd.ascii || fixedAt(d)
		nd.noBlank = nd.noBlank || autoAt(d)
		nd.nonEmpty = nd.nonEmpty || fixedAt(d)
		nd.noNull = nd.noNull || fixedAt(d)
	}
	t := altTable(g, nd)
	if f0 == option.FIXED {
		d0.positions = writerPositionsPlain(t, d0) // to build the expected table; replaced below
	}

	// --- the table the statements must produce
	want := fromD(expected(t, d0))
	key, upd := want.header[0], want.header[1]
	apply := func(kind string) {
		switch kind {
		case "update":
			for i := range want.rows {
				if want.rows[i][0].text == "r1" {
					want.rows[i][1] = cS("NEW")
				}
			}
		case "insert":
			row := make([]cell, len(want.header))
			for j := range row {
				row[j] = cS("ins")
			}
			row[0] = cS("r9")
			if len(row) >= 3 && !nd.noNull {
				row[len(row)-1] = mkCell(value.NewNull())
			}
			want.rows = append(want.rows, row)
		case "delete":
			var rows [][]cell
			for _, r := range want.rows {
				if r[0].text != "r0" {
					rows = append(rows, r)
				}
			}
			want.rows = rows
		case "add":
			want.header = append(want.header, "zz")
			for i := range want.rows {
				want.rows[i] = append(want.rows[i], cS("d"))
			}
		case "post":
			for i := range want.rows {
				if want.rows[i][0].text == "r0" {
					want.rows[i][1] = cS("POST")
				}
			}
		}
	}
	if pl.pre != "set" {
		apply(pl.pre)
	}
	if pl.post {
		apply("post")
	}
	// explicit positions that fit the table before and after; those of a SET are wider by 1 / 2 in the first column
	fitBase := func() []int {
		var ps []int
		pos := 0
		for j := range want.header {
			w := 4
			for _, tt := range []*table{t, want} {
				if j < len(tt.header) {
					w = max(w, len(tt.header[j]))
					for _, r := range tt.rows {
						w = max(w, len(r[j].text))
					}
				}
			}
			pos += w + 1
			ps = append(ps, pos)
		}
		return ps
	}()
	positionsOf := func(sym int) []int {
		switch sym {
		case -3:
			return append([]int{}, fitBase[:len(t.header)]...)
		}
		ps := make([]int, len(fitBase))
		for j := range ps {
			ps[j] = fitBase[j] - sym // -1 → +1, -2 → +2
		}
		return ps
	}
	if f0 == option.FIXED {
		d0.positions = positionsOf(-3)
		cur.positions = d0.positions
	}
	loaded := cur
	// the attributes again, with the real positions
	final = cur
	for _, s := range sets {
		final, _ = applySet(final, s.attr, s.raw, positionsOf(s.pos))
	}

	// --- the file
	body, err := realEncode(t, d0)
	must(err)
	withEnd := d0.lb != text.CR || f0 == option.JSON
	orig := append([]byte{}, body...)
	if withEnd {
		orig = append(orig, endingBytes(d0)...)
	}
	fname := "alt" + fmtExt(f0)
	target := option.QuoteIdentifier(fname)

	// --- the statements
	var stmts []string
	q := option.QuoteIdentifier
	switch pl.pre {
	case "update":
		stmts = append(stmts, fmt.Sprintf("UPDATE %s SET %s = 'NEW' WHERE %s = 'r1'", target, q(upd), q(key)))
	case "insert":
		vals := make([]string, len(t.header))
		for j := range vals {
			vals[j] = "'ins'"
		}
		vals[0] = "'r9'"
		if len(vals) >= 3 && !nd.noNull {
			vals[len(vals)-1] = "NULL"
		}
		stmts = append(stmts, fmt.Sprintf("INSERT INTO %s VALUES (%s)", target, strings.Join(vals, ", ")))
	case "delete":
		stmts = append(stmts, fmt.Sprintf("DELETE FROM %s WHERE %s = 'r0'", target, q(key)))
	case "add":
		stmts = append(stmts, fmt.Sprintf("ALTER TABLE %s ADD (zz DEFAULT 'd')", target))
	}
	for _, s := range sets {
		stmts = append(stmts, setSQL(target, s.attr, s.raw, positionsOf(s.pos)))
	}
	if pl.post {
		stmts = append(stmts, fmt.Sprintf("UPDATE %s SET %s = 'POST' WHERE %s = 'r0'", target, q(upd), q(key)))
	}

	replay := func(extra map[string]interface{}) map[string]interface{} {
		m := map[string]interface{}{"format": name, "file": fname, "dialect_of_the_file": d0.sig(), "original_hex": hex.EncodeToString(orig),
			"statements": append(append([]string{}, stmts...), "SHOW FIELDS FROM "+target, "COMMIT"), "table_expected": clip(expected(want, opts{format: option.JSON}).String())}
		if tag != "" {
			m["corpus"] = tag
		}
		for k, v := range extra {
			m[k] = v
		}
		return m
	}
	fail := func(law string, extra map[string]interface{}) {
		lawFail(o, "altered:"+name+":"+law, replay(extra))
		o.Count("alter:law:" + law)
	}

	// run: the statements + COMMIT in a fresh directory; returns the committed bytes and what SHOW FIELDS said
	run := func(sub, term string) (after []byte, report string, failed string) {
		wd := filepath.Join(dir, sub)
		must(os.MkdirAll(wd, 0o755))
		defer os.RemoveAll(wd)
		path := filepath.Join(wd, fname)
		must(os.WriteFile(path, orig, 0o644))
		p := importProc(wd, d0, d0.enc)
		defer p.Close()
		if term != "" {
			setTermFlag(p.P.Tx, term)
		}
		if _, e := p.Exec("SHOW FIELDS FROM " + target); e != nil {
			return nil, "", "load: " + firstLine(e.Error())
		}
		first := p.Stdout.String()
		for _, s := range stmts {
			if _, e := p.Exec(s); e != nil {
				return nil, "", "statement_failed: " + s + ": " + firstLine(e.Error())
			}
		}
		rep, e := p.Exec("SHOW FIELDS FROM " + target)
		if e != nil {
			return nil, "", "statement_failed: SHOW FIELDS: " + firstLine(e.Error())
		}
		if _, e := p.Exec("COMMIT"); e != nil {
			return nil, rep, "commit_failed: " + firstLine(e.Error())
		}
		p.Close()
		b, e := os.ReadFile(path)
		must(e)
		return b, first + "\x00" + rep, ""
	}

	if len(stmts) == 0 {
		// nothing to commit: the file stays as it is
		b, _, f := run("alter", "")
		o.Count("alter:" + name + ":no_statement")
		if f != "" || !bytes.Equal(b, orig) {
			fail("bytes", map[string]interface{}{"failure": f, "committed_hex": hex.EncodeToString(b), "note": "a COMMIT without any change rewrote the file"})
		}
		return
	}
	after, reports, failed := run("alter", "")
	o.Count("alter:" + name + ":pre_" + pl.pre + ":set_" + pl.attr + ":post_" + b01(pl.post))
	if len(sets) > 0 {
		o.Count("alter:value:" + sets[len(sets)-1].attr + ":" + strings.TrimSpace(strconv.Quote(sets[len(sets)-1].raw)))
	}
	o.NonTrivial("alter|" + pl.sig() + "|" + d0.sig() + "|" + final.sig())
	if failed != "" {
		law := "statement_failed"
		if strings.HasPrefix(failed, "commit_failed") {
			law = "commit_failed"
		}
		fail(law, map[string]interface{}{"failure": failed})
		return
	}
	parts := strings.SplitN(reports, "\x00", 2)
	rep0, shown0, ok0 := parseReport(parts[0])
	rep, shown, ok := parseReport(parts[1])
	if !ok0 || !ok {
		fail("reported_attributes", map[string]interface{}{"failure": "SHOW FIELDS does not show the attributes", "show_fields": parts[1]})
		return
	}
	// what csvq says about the loaded file is its dialect
	if ds := shownDiff(rep0, loaded, shown0); len(ds) > 0 && !(len(ds) == 1 && ds[0] == "Escape") {
		fail("loaded_attributes", map[string]interface{}{"differ": ds, "show_fields": parts[0], "dialect": loaded.sig()})
		return
	}
	if shown0["Escape"] && rep0.jsonEscape != loaded.jsonEscape {
		// the escape type is detected from the escapes the file has; a file without any is BACKSLASH
		o.Count("alter:escape_detected_differently")
		return
	}
	// the reported attributes are those the statements ask for
	if ds := shownDiff(rep, final, shown); len(ds) > 0 {
		fail("reported_attributes", map[string]interface{}{"differ": ds, "show_fields": parts[1], "attributes_expected": final.sig()})
	}
	// the dialect csvq reports: what is shown, the rest from the prediction (it does not reach the writer of the format)
	rd := final
	rd.format = rep.format
	if shown["Delimiter"] {
		rd.delim = rep.delim
	}
	if shown["Delimiter Positions"] {
		rd.positions, rd.singleLine = rep.positions, rep.singleLine
	}
	if shown["Enclose All"] {
		rd.encloseAll = rep.encloseAll
	}
	if shown["Escape"] {
		rd.jsonEscape = rep.jsonEscape
	}
	if shown["Encoding"] {
		rd.enc = rep.enc
	}
	if shown["LineBreak"] {
		rd.lb = rep.lb
	}
	if shown["Pretty Print"] {
		rd.pretty = rep.pretty
	}
	if shown["Header"] {
		rd.withoutHeader = rep.withoutHeader
	}
	if rd.format == option.TSV {
		rd.delim = '\t'
	}
	if rd.singleLine {
		o.Count("alter:skipped:single_line")
		return
	}

	// --- the committed file against the model's encoder for (table, reported attributes)
	line := modelEncLine(want, rd)
	txt, decodable := decodeAs(after, rd.enc)
	impl := "X" + hexTok(after)
	extra := map[string]interface{}{"reported": rd.sig(), "show_fields": parts[1], "committed_hex": hex.EncodeToString(after), "op": line}
	if !decodable {
		fail("encoding", extra)
	} else {
		end := []byte(rd.lb.Value())
		if !bytes.HasSuffix(txt, end) {
			fail("ending_line_break", extra)
			impl = hexTok(txt)
		} else {
			impl = hexTok(txt[:len(txt)-len(end)])
		}
		// and the bytes are that text in the reported encoding (the Unicode encodings are modelled)
		if rd.enc != text.SJIS && rd.enc != text.UTF8 {
			o.Case(fmt.Sprintf("c02.tenc %s %s", encName(rd.enc), hexTok(txt)), hexTok(after))
		}
	}
	o.Case(line, impl)
	// the same on the real code alone: the encoder, called with the reported attributes
	wantBody, werr := realEncode(want, rd)
	wantBytes := append([]byte{}, wantBody...)
	if werr == nil {
		wantBytes = append(wantBytes, endingBytes(rd)...)
	}
	if werr == nil && !bytes.Equal(after, wantBytes) {
		extra["want_hex"] = hex.EncodeToString(wantBytes)
		if bytes.Equal(after, orig) {
			extra["note"] = "the file is as it was before the transaction"
		}
		fail("bytes", extra)
	} else if werr == nil {
		o.Count("alter:" + name + ":bytes_as_reported")
		if tag != "" {
			o.Count("corpus:" + tag + ":as_reported")
		}
	}

	// --- a fresh processor loads the committed bytes under the reported attributes
	loadable := !(rd.lb == text.CR && rd.format != option.JSON) && werr == nil
	if loadable {
		exp := expected(want, rd)
		v, lerr := realLoad(dir, "re"+fmtExt(rd.format), after, rd, rd.enc, false)
		switch {
		case lerr != nil:
			extra["error"] = firstLine(lerr.Error())
			fail("reload", extra)
		case !fromView(v).equal(exp):
			extra["loaded"], extra["expected"] = clip(fromView(v).String()), clip(exp.String())
			fail("reload", extra)
		default:
			o.Count("alter:" + name + ":reloaded")
			if pl.viaBin {
				altReloadBinary(o, dir, after, rd, exp, fail, extra)
			}
		}
	}

	// --- a flag that concerns terminal output only does not change the committed file
	if pl.term != "" {
		term := pl.term
		if pendingColor(term, rd) && !pendingCases {
			o.Count("pending:skipped:color_reaches_pretty_json_file")
			term = "EAST_ASIAN_ENCODING"
		}
		b, _, f2 := run("alter-term", term)
		o.Count("session_flag:commit:" + term)
		if f2 != "" || !bytes.Equal(b, after) {
			lawFail(o, "session_flag_changes_committed_file", replay(map[string]interface{}{"session_flag": term, "failure_with_flag": f2, "committed_hex_with_flag": clipHex(b), "committed_hex_without": clipHex(after), "reported": rd.sig()}))
		}
	}
}

// altReloadBinary: the csvq binary of the tree under test loads the committed bytes under the reported attributes
func altReloadBinary(o *hc.Out, dir string, data []byte, rd opts, exp *dtable, fail func(string, map[string]interface{}), extra map[string]interface{}) {
	wd, err := os.MkdirTemp(dir, "alter-bin-")
	must(err)
	defer os.RemoveAll(wd)
	fname := "re" + fmtExt(rd.format)
	must(os.WriteFile(filepath.Join(wd, fname), data, 0o644))
	args := []string{"-q", "-i", strings.ToUpper(fmtName(rd.format)), "-d", string(rd.delim), "-e", encName(rd.enc), "-f", "JSONL", "-T"}
	if rd.withoutHeader && (rd.format == option.CSV || rd.format == option.TSV || rd.format == option.FIXED) {
		args = append(args, "-n")
	}
	if rd.format == option.FIXED {
		args = append(args, "-m", posString(rd.positions, false))
	}
	r := runCsvq(wd, append(args, "SELECT * FROM "+option.QuoteIdentifier(fname))...)
	got, ok := parseJSONL(r.stdout)
	o.Count("alter:reloaded_by_binary")
	if r.rc != 0 || !ok || !got.equalCells(exp) {
		extra["csvq_args"], extra["csvq_stdout"], extra["csvq_stderr"], extra["expected"] = args, clip(string(r.stdout)), firstLine(r.stderr), clip(exp.String())
		fail("reload", extra)
	}
}

// parseJSONL: the records csvq printed as JSON Lines (objects of strings / nulls), keys in the order printed
func parseJSONL(b []byte) (*dtable, bool) {
	d := &dtable{}
	for n, ln := range strings.Split(strings.TrimRight(string(b), "\n"), "\n") {
		if ln == "" {
			continue
		}
		dec := json.NewDecoder(strings.NewReader(ln))
		if tk, err := dec.Token(); err != nil || tk != json.Delim('{') {
			return nil, false
		}
		var hs []string
		var row []dcell
		for dec.More() {
			k, err := dec.Token()
			if err != nil {
				return nil, false
			}
			v, err := dec.Token()
			if err != nil {
				return nil, false
			}
			hs = append(hs, k.(string))
			switch x := v.(type) {
			case nil:
				row = append(row, dcell{null: true})
			case string:
				row = append(row, dcell{text: x})
			default:
				return nil, false
			}
		}
		if n == 0 {
			d.header = hs
		}
		d.rows = append(d.rows, row)
	}
	return d, true
}

// equalCells: the same header and cells (an empty table printed as JSON Lines has no header)
func (d *dtable) equalCells(e *dtable) bool {
	if len(e.rows) == 0 {
		return len(d.rows) == 0
	}
	return d.equal(e)
}

// ---------- generated, and the deterministic matrix ----------

var altFormats0 = []option.Format{option.CSV, option.CSV, option.TSV, option.LTSV, option.FIXED, option.JSON, option.JSONL}
var altPres = []string{"none", "update", "update", "insert", "delete", "add", "set", "set"}

func altDialect(g *hc.Gen, f option.Format) opts {
	d := genOpts(g, f)
	d.allowUneven, d.withoutNull, d.strip = false, false, false
	d.enc = []text.Encoding{text.UTF8, text.UTF8, text.UTF8M, text.UTF16BEM, text.UTF16LEM, text.UTF16LE, text.UTF16BE, text.SJIS}[g.Intn(8)]
	if isJSONFormat(f) {
		d.enc, d.pretty = text.UTF8, false
	}
	if f == option.FIXED && utf16Family(d.enc) {
		d.enc = text.UTF8 // F16 utf16_padding
	}
	if f == option.JSONL && d.lb == text.CR {
		d.lb = text.CRLF // F24
	}
	if f == option.CSV && d.delim == ' ' {
		d.delim = ';' // a blank as the delimiter and cells with blanks: the loader trims
	}
	return d
}

func altCase(g *hc.Gen, o *hc.Out, dir string) {
	f := altFormats0[g.Intn(len(altFormats0))]
	pl := altPlan{d0: altDialect(g, f)}
	pl.pre = altPres[g.Intn(len(altPres))]
	pl.attr = altAttrs[g.Intn(len(altAttrs))]
	if g.Intn(12) == 0 {
		pl.attr = ""
	}
	pl.val = g.Intn(8)
	if pl.pre == "set" {
		pl.preAttr = altAttrs[g.Intn(len(altAttrs))]
		pl.preVal = g.Intn(8)
	}
	pl.post = g.Intn(3) == 0
	if g.Intn(2) == 0 {
		pl.term = termFlags[g.Intn(len(termFlags))]
	}
	altRun(o, dir, g, pl, "")
}

// altCorpus: every attribute, set on a table that already has a change (and on one that has none), per format
// it applies to; runs whatever the seed
func altCorpus(o *hc.Out, dir string) {
	g := hc.NewGen(20240913)
	base := func(f option.Format) opts {
		d := baseOpts(f)
		if f == option.FIXED {
			d.positions = []int{1}
		}
		return d
	}
	for _, c := range []struct {
		f    option.Format
		attr string
		val  int
	}{
		{option.CSV, "DELIMITER", 1}, {option.CSV, "DELIMITER", 3}, {option.TSV, "DELIMITER", 0},
		{option.CSV, "DELIMITER_POSITIONS", 0}, {option.FIXED, "DELIMITER_POSITIONS", 1},
		{option.CSV, "FORMAT", 3}, {option.CSV, "FORMAT", 5}, {option.TSV, "FORMAT", 4}, {option.JSON, "FORMAT", 0}, {option.JSONL, "FORMAT", 3}, {option.LTSV, "FORMAT", 1}, {option.FIXED, "FORMAT", 0}, {option.JSON, "FORMAT", 6},
		{option.CSV, "ENCODING", 1}, {option.CSV, "ENCODING", 4}, {option.TSV, "ENCODING", 7}, {option.LTSV, "ENCODING", 5}, {option.FIXED, "ENCODING", 1},
		{option.CSV, "LINE_BREAK", 1}, {option.LTSV, "LINE_BREAK", 1}, {option.JSONL, "LINE_BREAK", 1}, {option.FIXED, "LINE_BREAK", 1}, {option.JSON, "LINE_BREAK", 1},
		{option.CSV, "HEADER", 1}, {option.TSV, "HEADER", 1}, {option.FIXED, "HEADER", 1},
		{option.CSV, "ENCLOSE_ALL", 0}, {option.TSV, "ENCLOSE_ALL", 0},
		{option.JSON, "JSON_ESCAPE", 1}, {option.JSONL, "JSON_ESCAPE", 2},
		{option.JSON, "PRETTY_PRINT", 0},
	} {
		for k, pre := range []string{"update", "none", "insert", "set"} {
			if k >= 2 && c.val%2 == 1 {
				continue
			}
			pl := altPlan{d0: base(c.f), pre: pre, attr: c.attr, val: c.val, post: k == 2, viaBin: k == 0 && (c.val == 1 || c.attr == "PRETTY_PRINT")}
			if pre == "set" {
				pl.preAttr, pl.preVal = "LINE_BREAK", 1
				if c.attr == "LINE_BREAK" {
					pl.preAttr = "HEADER"
				}
			}
			if k == 1 {
				pl.term = termFlags[(len(c.attr)+c.val)%len(termFlags)]
			}
			altRun(o, dir, g, pl, fmt.Sprintf("alter.%s.%s_%d.after_%s", fmtName(c.f), strings.ToLower(c.attr), c.val, pre))
		}
	}
	// the colour flag of the session and a table that is pretty-printed by its own attribute
	for _, pre := range []string{"none", "update"} {
		altRun(o, dir, g, altPlan{d0: base(option.JSON), pre: pre, attr: "PRETTY_PRINT", val: 0, term: "COLOR"}, "alter.json.pretty_print_0.after_"+pre+".colour_session")
	}
	altRun(o, dir, g, altPlan{d0: base(option.CSV), pre: "update", attr: "FORMAT", val: 3, term: "COLOR+PRETTY_PRINT"}, "alter.csv.format_3.after_update.colour_session")
}

// ---------- terminal-only flags: tables CREATED in the session, results written to --out ----------

// sessionHook: set by the --out runs; writeViaProcSink calls it on the session right before the result is written
var sessionHook func(tx *query.Transaction)

// pureTermFlags: flags that say nothing about the dialect of a written result
var pureTermFlags = []string{"COLOR", "COLOR", "EAST_ASIAN_ENCODING", "COUNT_DIACRITICAL_SIGN", "COUNT_FORMAT_CODE", "STATS", "COLOR+EAST_ASIAN_ENCODING"}

func setExportSide(tx *query.Transaction, e opts) {
	must(tx.SetFlag(option.QuietFlag, true))
	must(tx.SetFlag(option.ExportDelimiterFlag, string(e.delim)))
	must(tx.SetFlag(option.ExportEncodingFlag, encName(e.enc)))
	must(tx.SetFlag(option.WithoutHeaderFlag, e.withoutHeader))
	must(tx.SetFlag(option.LineBreakFlag, lbName(e.lb)))
	must(tx.SetFlag(option.EncloseAllFlag, e.encloseAll))
	must(tx.SetFlag(option.JsonEscapeFlag, []string{"BACKSLASH", "HEX", "HEXALL"}[e.jsonEscape]))
	must(tx.SetFlag(option.PrettyPrintFlag, e.pretty))
	must(tx.SetFlag(option.StripEndingLineBreakFlag, e.strip))
}

// sessionFlagRun: the same table CREATED (how = "created") or written by --out (how = "out") in two sessions that
// differ in the terminal-only flag alone: the same bytes
func sessionFlagRun(o *hc.Out, dir string, t *table, e opts, how, term string, viaBin bool, tag string) {
	name := fmtName(e.format)
	if pendingColor(term, e) && !pendingCases {
		o.Count("pending:skipped:color_reaches_pretty_json_file")
		term = "EAST_ASIAN_ENCODING"
	}
	o.Case("c02.nop", "ok")
	o.Count("session_flag:" + how + ":" + term)
	o.NonTrivial("session_flag|" + how + "|" + term + "|" + e.sig() + "|" + b01(viaBin))
	fname := "sf" + fmtExt(e.format)
	var sql string
	var ok bool
	if how == "created" {
		sql, ok = createSQL(fname, t, false)
	} else {
		sql, ok = selectSQL(t)
	}
	if !ok {
		return
	}
	args := func(flag string) []string {
		a := sessionArgs(e, importSide{delim: ',', enc: text.UTF8, format: option.CSV})
		if how == "out" {
			a = append(a, "-f", strings.ToUpper(name), "-o", fname)
		}
		if flag != "" {
			a = append(a, termFlagArgs(flag)...)
		}
		return append(a, sql)
	}
	one := func(flag string) ([]byte, string) {
		wd, err := os.MkdirTemp(dir, "sflag-")
		must(err)
		defer os.RemoveAll(wd)
		if viaBin {
			if r := runCsvq(wd, args(flag)...); r.rc != 0 {
				return nil, firstLine(r.stderr)
			}
		} else if how == "created" {
			p := hc.NewProc(wd)
			setExportSide(p.P.Tx, e)
			if flag != "" {
				setTermFlag(p.P.Tx, flag)
			}
			_, cerr := p.Exec(sql)
			p.Close()
			if cerr != nil {
				return nil, firstLine(cerr.Error())
			}
		} else {
			if flag != "" {
				sessionHook = func(tx *query.Transaction) { setTermFlag(tx, flag) }
			}
			d, werr, wok := writeViaProc(wd, t, e)
			sessionHook = nil
			if !wok {
				return nil, "not built"
			}
			if werr != nil {
				return nil, firstLine(werr.Error())
			}
			return d, ""
		}
		b, err := os.ReadFile(filepath.Join(wd, fname))
		if err != nil {
			return nil, "no file"
		}
		return b, ""
	}
	plain, f0 := one("")
	with, f1 := one(term)
	if f0 == "not built" || f1 == "not built" {
		return
	}
	if f0 != f1 || !bytes.Equal(plain, with) {
		m := map[string]interface{}{"format": name, "how": how, "session_flag": term, "export_side": e.sig(), "statements": sql, "via_binary": viaBin,
			"csvq_args_with_flag": args(term), "failure_without": f0, "failure_with_flag": f1, "file_hex_without": clipHex(plain), "file_hex_with_flag": clipHex(with), "file_with_flag": clip(string(with))}
		if tag != "" {
			m["corpus"] = tag
		}
		lawFail(o, "session_flag_changes_"+how+"_file", m)
	} else if tag != "" {
		o.Count("corpus:" + tag + ":same_bytes")
	}
}

var sessionFlagFormats = []option.Format{option.CSV, option.TSV, option.LTSV, option.FIXED, option.JSON, option.JSON, option.JSONL}

func sessionFlagCase(g *hc.Gen, o *hc.Out, dir string) {
	f := sessionFlagFormats[g.Intn(len(sessionFlagFormats))]
	how := []string{"created", "out"}[g.Intn(2)]
	if f == option.FIXED {
		how = "out" // the format of a created table follows the file name: there is none for fixed-length
	}
	e := genOpts(g, f)
	e.allowUneven, e.withoutNull = false, false
	if f == option.JSONL && e.lb == text.CR {
		e.lb = text.CRLF
	}
	if f == option.JSON && g.Intn(2) == 0 {
		e.pretty = true
	}
	t := createTable(g, f, false)
	sessionFlagRun(o, dir, t, e, how, pureTermFlags[g.Intn(len(pureTermFlags))], false, "")
}

// sessionFlagCorpus: the colour flag x every format x created / --out, through the csvq binary
func sessionFlagCorpus(o *hc.Out, dir string) {
	t := func(f option.Format) *table {
		w := "x y"
		if f == option.FIXED {
			w = "xy"
		}
		return tbl([]string{"k", "v"}, []cell{cS("r0"), cS("a")}, []cell{cS("r1"), cS(w)})
	}
	for _, f := range []option.Format{option.CSV, option.TSV, option.LTSV, option.FIXED, option.JSON, option.JSONL} {
		for _, how := range []string{"created", "out"} {
			if f == option.FIXED && how == "created" {
				continue
			}
			for _, pretty := range []bool{false, true} {
				if pretty && f != option.JSON {
					continue
				}
				e := baseOpts(f)
				e.pretty = pretty
				sessionFlagRun(o, dir, t(f), e, how, "COLOR", true, fmt.Sprintf("session_flag.color.%s.%s.pretty%s", fmtName(f), how, b01(pretty)))
			}
		}
	}
}
