package main

// Fixed-length files read with AUTOMATIC delimiter positions ("SPACES"): the model of go-text's
// Delimiter.Delimit (Csvq.Model.FixedAuto) against the real one, and the loader on top of it.
//
//   c02.fpos <noHeader> <hex>              positions found by fixedlen.Delimiter.Delimit
//   c02.deca fixed <noHeader> <withoutNull> <hex>   the loaded table

import (
	"bytes"
	"fmt"
	"strconv"
	"strings"

	"github.com/mithrandie/csvq/lib/option"
	"github.com/mithrandie/go-text"
	"github.com/mithrandie/go-text/fixedlen"

	"verifharness/hc"
)

var layoutWords = []string{"a", "ab", "abc", "abcdef", "x", "1", "12", "12345", "-7", "0.5", "true", "NULL", "é", "日本", "a-b", "..", "z"}

// layoutText: lines made of words and blank runs, roughly column-like
func layoutText(g *hc.Gen) []byte {
	nl := 1 + g.Intn(6)
	nc := 1 + g.Intn(4)
	widths := make([]int, nc)
	for j := range widths {
		widths[j] = 1 + g.Intn(7)
	}
	lb := []string{"\n", "\n", "\r\n"}[g.Intn(3)]
	var sb strings.Builder
	for i := 0; i < nl; i++ {
		if g.Intn(12) == 0 {
			sb.WriteString(lb) // an empty line
			continue
		}
		for j := 0; j < nc; j++ {
			w := layoutWords[g.Intn(len(layoutWords))]
			if g.Intn(7) == 0 {
				w = ""
			}
			n := len([]rune(w))
			padn := widths[j] - n
			if padn < 0 {
				padn = 0
			}
			switch g.Intn(3) {
			case 0:
				sb.WriteString(w + strings.Repeat(" ", padn))
			case 1:
				sb.WriteString(strings.Repeat(" ", padn) + w)
			default:
				sb.WriteString(strings.Repeat(" ", padn/2) + w + strings.Repeat(" ", padn-padn/2))
			}
			if j+1 < nc {
				sb.WriteString([]string{" ", " ", " ", "  ", "\t", ""}[g.Intn(6)])
			}
		}
		if i+1 < nl || g.Intn(2) == 0 {
			sb.WriteString(lb)
		}
	}
	return []byte(sb.String())
}

func realDelimit(data []byte, noHeader bool) string {
	d, err := fixedlen.NewDelimiter(bytes.NewReader(data), text.UTF8)
	if err != nil {
		return "E"
	}
	d.NoHeader = noHeader
	d.Encoding = text.UTF8
	ps, err := d.Delimit()
	if err != nil {
		return "E"
	}
	s := make([]string, 0, len(ps)+1)
	s = append(s, "P")
	for _, p := range ps {
		s = append(s, strconv.Itoa(p))
	}
	return strings.Join(s, " ")
}

func autoRun(o *hc.Out, dir string, data []byte, op opts, src string) {
	op.positions = nil
	impl := realDelimit(data, op.withoutHeader)
	// transcoding is a parameter of the model: the real detector + decoder produce the text
	enc, err := text.DetectInSpecifiedEncoding(bytes.NewReader(data), text.UTF8)
	must(err)
	txt, err := text.Decode(data, enc)
	must(err)
	o.Case(fmt.Sprintf("c02.fpos %s %s", b01(op.withoutHeader), hexTok(txt)), impl)
	line := fmt.Sprintf("c02.deca fixed %s %s %s", b01(op.withoutHeader), b01(op.withoutNull), hexTok(txt))
	v, lerr := realLoad(dir, "fa.txt", data, op, text.UTF8, true)
	res, kind := "E", "error"
	if lerr == nil {
		d := fromView(v)
		res, kind = showD(d, lbName(v.FileInfo.LineBreak)), "ok"
		for _, r := range d.rows {
			if len(r) != len(d.header) {
				lawFail(o, "rectangular:fixed", map[string]interface{}{"op": line, "loaded": d.String()})
				break
			}
		}
	} else if isFatal(lerr) {
		lawFail(o, "decode:fixed:fatal", map[string]interface{}{"op": line, "error": firstLine(lerr.Error())})
		kind = "fatal"
	}
	o.Case(line, res)
	o.Count("deca:fixed:" + src + ":" + kind)
	o.NonTrivial(fmt.Sprintf("deca|%s|%s|%s|%s|%d|%x", b01(op.withoutHeader), src, kind, impl, len(data)/8, fnv(data)))
}

func autoCase(g *hc.Gen, o *hc.Out, dir string) {
	op := genOpts(g, option.FIXED)
	op.enc = text.UTF8
	var data []byte
	src := ""
	switch g.Intn(5) {
	case 0:
		data, src = layoutText(g), "layout"
	case 1:
		n := g.Intn(14)
		for i := 0; i < n; i++ {
			data = append(data, soup[g.Intn(len(soup))]...)
		}
		src = "soup"
	default:
		rk := genRisk(g)
		if g.Intn(2) == 0 {
			rk = risk{}
		}
		t := genTable(g, rk, true, 6)
		wo := op
		wo.positions = nil
		b, err := realEncode(t, wo)
		if err != nil {
			b = nil
		}
		data, src = b, "encoded"
		if g.Intn(3) != 0 {
			data = append(data, wo.lb.Value()...)
		}
		if g.Intn(4) == 0 {
			data, src = mutate(g, data), "mutated"
		}
	}
	autoRun(o, dir, data, op, src)
}
