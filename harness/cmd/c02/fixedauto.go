package main

// Fixed-length files read with AUTOMATIC delimiter positions ("SPACES"): the model of go-text's
// Delimiter.Delimit (Csvq.Model.FixedAuto) against the real one, and the loader on top of it.
//
//   c02.fpos <noHeader> <hex>              positions found by fixedlen.Delimiter.Delimit
//   c02.deca fixed <noHeader> <withoutNull> <hex>   the loaded table

import (
	"bytes"
	"fmt"
	"os"
	"strconv"
	"strings"

	"github.com/mithrandie/csvq/lib/option"
	"github.com/mithrandie/csvq/lib/value"
	"github.com/mithrandie/go-text"
	"github.com/mithrandie/go-text/fixedlen"

	"verifharness/hc"
)

var layoutWords = []string{"a", "ab", "abc", "abcdef", "x", "1", "12", "12345", "-7", "0.5", "true", "NULL", "é", "日本", "a-b", "..", "z"}

// layoutText: lines made of words and blank runs, roughly column-like
func layoutText(g *hc.Gen) []byte {
	nl := 1 + g.Intn(6)
	nc := 1 + g.Intn(4)
	widths := make([]int, nc)
	for j := range widths {
		widths[j] = 1 + g.Intn(7)
	}
	lb := []string{"\n", "\n", "\r\n"}[g.Intn(3)]
	var sb strings.Builder
	for i := 0; i < nl; i++ {
		if g.Intn(12) == 0 {
			sb.WriteString(lb) // an empty line
			continue
		}
		for j := 0; j < nc; j++ {
			w := layoutWords[g.Intn(len(layoutWords))]
			if g.Intn(7) == 0 {
				w = ""
			}
			n := len([]rune(w))
			padn := widths[j] - n
			if padn < 0 {
				padn = 0
			}
			switch g.Intn(3) {
			case 0:
				sb.WriteString(w + strings.Repeat(" ", padn))
			case 1:
				sb.WriteString(strings.Repeat(" ", padn) + w)
			default:
				sb.WriteString(strings.Repeat(" ", padn/2) + w + strings.Repeat(" ", padn-padn/2))
			}
			if j+1 < nc {
				sb.WriteString([]string{" ", " ", " ", "  ", "\t", ""}[g.Intn(6)])
			}
		}
		if i+1 < nl || g.Intn(2) == 0 {
			sb.WriteString(lb)
		}
	}
	return []byte(sb.String())
}

func realDelimit(data []byte, noHeader bool) string {
	d, err := fixedlen.NewDelimiter(bytes.NewReader(data), text.UTF8)
	if err != nil {
		return "E"
	}
	d.NoHeader = noHeader
	d.Encoding = text.UTF8
	ps, err := d.Delimit()
	if err != nil {
		return "E"
	}
	s := make([]string, 0, len(ps)+1)
	s = append(s, "P")
	for _, p := range ps {
		s = append(s, strconv.Itoa(p))
	}
	return strings.Join(s, " ")
}

func autoRun(o *hc.Out, dir string, data []byte, op opts, src string) {
	op.positions = nil
	impl := realDelimit(data, op.withoutHeader)
	// transcoding is a parameter of the model: the real detector + decoder produce the text
	enc, err := text.DetectInSpecifiedEncoding(bytes.NewReader(data), text.UTF8)
	must(err)
	txt, err := text.Decode(data, enc)
	must(err)
	o.Case(fmt.Sprintf("c02.fpos %s %s", b01(op.withoutHeader), hexTok(txt)), impl)
	line := fmt.Sprintf("c02.deca fixed %s %s %s", b01(op.withoutHeader), b01(op.withoutNull), hexTok(txt))
	v, lerr := realLoad(dir, "fa.txt", data, op, text.UTF8, true)
	res, kind := "E", "error"
	if lerr == nil {
		d := fromView(v)
		res, kind = showD(d, lbName(v.FileInfo.LineBreak)), "ok"
		for _, r := range d.rows {
			if len(r) != len(d.header) {
				lawFail(o, "rectangular:fixed", map[string]interface{}{"op": line, "loaded": d.String()})
				break
			}
		}
	} else if isFatal(lerr) {
		lawFail(o, "decode:fixed:fatal", map[string]interface{}{"op": line, "error": firstLine(lerr.Error())})
		kind = "fatal"
	}
	o.Case(line, res)
	o.Count("deca:fixed:" + src + ":" + kind)
	o.NonTrivial(fmt.Sprintf("deca|%s|%s|%s|%s|%d|%x", b01(op.withoutHeader), src, kind, impl, len(data)/8, fnv(data)))
}

func autoCase(g *hc.Gen, o *hc.Out, dir string) {
	op := genOpts(g, option.FIXED)
	op.enc = text.UTF8
	var data []byte
	src := ""
	switch g.Intn(5) {
	case 0:
		data, src = layoutText(g), "layout"
	case 1:
		n := g.Intn(14)
		for i := 0; i < n; i++ {
			data = append(data, soup[g.Intn(len(soup))]...)
		}
		src = "soup"
	default:
		rk := genRisk(g)
		if g.Intn(2) == 0 {
			rk = risk{}
		}
		t := genTable(g, rk, true, 6)
		wo := op
		wo.positions = nil
		b, err := realEncode(t, wo)
		if err != nil {
			b = nil
		}
		data, src = b, "encoded"
		if g.Intn(3) != 0 {
			data = append(data, wo.lb.Value()...)
		}
		if g.Intn(4) == 0 {
			data, src = mutate(g, data), "mutated"
		}
	}
	autoRun(o, dir, data, op, src)
}

// ---------- tables whose column population CHANGES along the file ----------
//
// The position detection must see the WHOLE file: a column that is blank in every record of the first k
// records (NULL cells) and holds values further down — or the other way round — is a column all the same.
// The files are sized around every buffer of the readers: the 2048-byte head file.NewReader keeps for the
// detection of the encoding, the 4096-byte bufio / transform buffers of fixedlen.Delimiter and fixedlen.Reader
// (and their multiples), the 300 records readRecordSet prepares room for; the thorough tier adds 65536.
// The oracle is the model's detection over the whole text (ops c02.fpos / c02.deca: positions and loaded
// table = model), and on the real code alone the write-then-read law, where a failure is attributed to
// `positions_not_detected_on_whole_file` when fixedlen.Delimiter.Delimit on the WHOLE written file finds
// positions under which the file reads back (so the heuristic, F16, is not what lost the column).

var driftBoundaries = []int{2048, 2048, 2048, 4096, 4096, 8192, 12288}

var driftWords = []string{"a", "bc", "Q", "x_y", "v1", "7", "k", "abc", "zz9", "é"}

// driftTable: nr records of nc columns; column 0 names the record, column `late` follows the pattern
//
//	late_start   NULL in the first k records, a value in all the others
//	early_stop   a value in the first k records, NULL in all the others
//	sparse_tail  NULL in the first k records, a value in every third record after that
//
// every other column always holds a value
func driftTable(g *hc.Gen, nc, nr, late, k int, pattern string) *table {
	t := &table{header: genHeader(g, nc, risk{}, true), rows: make([][]cell, nr)}
	for i := range t.rows {
		t.rows[i] = make([]cell, nc)
		t.rows[i][0] = cS(fmt.Sprintf("r%04d", i))
		for j := 1; j < nc; j++ {
			filled := true
			if j == late {
				switch pattern {
				case "late_start":
					filled = i >= k
				case "early_stop":
					filled = i < k
				case "sparse_tail":
					filled = i >= k && (i-k)%3 == 0
				}
			}
			if filled {
				t.rows[i][j] = cS(driftWords[g.Intn(len(driftWords))])
			} else {
				t.rows[i][j] = mkCell(value.NewNull())
			}
		}
	}
	return t
}

// driftPlan: table and settings for a file of about `size` bytes whose late column changes at about byte `at`
func driftPlan(g *hc.Gen, size, at int, pattern string, withoutHeader bool, lb text.LineBreak) (*table, opts) {
	nc := 2 + g.Intn(3)
	late := 1 + g.Intn(nc-1)
	op := baseOpts(option.FIXED)
	op.withoutHeader, op.lb = withoutHeader, lb
	// the width of a record: measure a small table of the same shape
	probe := driftTable(g, nc, 12, late, 0, "late_start")
	b, err := realEncode(probe, opts{format: option.FIXED, lb: lb, enc: text.UTF8, withoutHeader: true})
	must(err)
	w := (len(b) + len(lb.Value())) / 12
	nr := max(3, size/w)
	k := min(max(1, at/w), nr-1)
	t := driftTable(g, nc, nr, late, k, pattern)
	t.header = probe.header
	return t, op
}

func driftRun(o *hc.Out, dir string, t *table, op opts, tag string) {
	op.positions = nil
	b, err := realEncode(t, op)
	must(err)
	data := append(append([]byte{}, b...), op.lb.Value()...)
	o.Count(fmt.Sprintf("drift:%s:h%s:%dKiB", lbName(op.lb), b01(!op.withoutHeader), (len(data)+1023)/1024))
	// positions and loaded table = the model's, over the whole text
	autoRun(o, dir, data, op, "drift")
	// and the write-then-read law on the real code
	r, names := rtRun(o, dir, t, op, false, tag)
	if tag != "" {
		out := r.outcome
		for _, n := range names {
			out += "+" + n
		}
		o.Count("corpus:" + tag + ":" + out)
	}
}

var driftPatterns = []string{"late_start", "late_start", "early_stop", "sparse_tail"}

func driftCase(g *hc.Gen, o *hc.Out, dir string) {
	bnd := driftBoundaries[g.Intn(len(driftBoundaries))]
	if os.Getenv("VERIF_TIER") == "thorough" && g.Intn(6) == 0 {
		bnd = 65536
	}
	// the file ends somewhere between the boundary and twice the boundary (sometimes right at it), the late
	// column changes on either side of the boundary
	size := bnd + g.Intn(bnd)
	at := bnd - 200 + g.Intn(bnd/2+400)
	switch g.Intn(6) {
	case 0:
		size = bnd + g.Intn(120) - 40
		at = bnd / 2
	case 1:
		at = bnd + g.Intn(80) - 40
	}
	lb := []text.LineBreak{text.LF, text.LF, text.CRLF}[g.Intn(3)]
	t, op := driftPlan(g, size, at, driftPatterns[g.Intn(len(driftPatterns))], g.Intn(3) != 0, lb)
	driftRun(o, dir, t, op, "")
}

// driftCorpus: whatever the seed — a column that starts after the 2 KiB head / after the first 4 KiB, with and
// without header line
func driftCorpus(o *hc.Out, dir string) {
	g := hc.NewGen(20240914)
	for _, c := range []struct {
		size, at int
		pattern  string
	}{
		{5000, 2600, "late_start"}, {9000, 4500, "late_start"}, {3000, 2100, "late_start"}, {5000, 2600, "early_stop"}, {6000, 2300, "sparse_tail"},
	} {
		for _, woh := range []bool{true, false} {
			t, op := driftPlan(g, c.size, c.at, c.pattern, woh, text.LF)
			driftRun(o, dir, t, op, fmt.Sprintf("drift.%s.size_%d.change_at_%d.header_%s", c.pattern, c.size, c.at, b01(!woh)))
		}
	}
}

// wholeFilePositions: what fixedlen.Delimiter.Delimit finds on the whole file (nil = error)
func wholeFilePositions(data []byte, op opts) []int {
	d, err := fixedlen.NewDelimiter(bytes.NewReader(data), op.enc)
	if err != nil {
		return nil
	}
	d.NoHeader = op.withoutHeader
	d.Encoding = op.enc
	ps, err := d.Delimit()
	if err != nil {
		return nil
	}
	return ps
}
