package main

import (
	"fmt"
	"os"
	"path/filepath"
	"strings"

	"verifharness/hc"
)

// outFile: runs with --out / -o that write no result — the procedure does not parse (argument, --source file), the
// source cannot be read, the procedure is empty, fails at its first statement, ends with EXIT, is interrupted before
// its first statement, holds no statement with a result — and --out paths that cannot be created or exist already:
// afterwards no zero-length or partial out file exists (law out_file_left_behind), nothing else in the directory has
// changed, an existing file of that name is byte-identical.  One run that DOES write a result is the control.
func outFile(o *hc.Out, bin, scratch string) {
	type sc struct {
		name    string
		setup   func(d string)
		args    []string // after the out option
		env     []string
		written bool // a result is written: the out file must exist and hold it
	}
	srcFile := func(name, text string) func(string) {
		return func(d string) { must(os.WriteFile(filepath.Join(d, name), []byte(text), 0o644)) }
	}
	scs := []sc{
		{"syntax-error-argument", nil, []string{"SELECT FROM WHERE;"}, nil, false},
		{"syntax-error-late-in-argument", nil, []string{"SELECT 1; SELECT COUNT(*) FROM a; SELECT FROM;"}, nil, false},
		{"syntax-error-source", srcFile("s.sql", "SELECT 1;\nSELECT FROM WHERE;\n"), []string{"--source", "s.sql"}, nil, false},
		{"unterminated-string-source", srcFile("s.sql", "SELECT 'abc;\n"), []string{"--source", "s.sql"}, nil, false},
		{"source-is-directory", func(d string) { must(os.Mkdir(filepath.Join(d, "s.sql"), 0o755)) }, []string{"--source", "s.sql"}, nil, false},
		{"source-missing", nil, []string{"--source", "nosuch.sql"}, nil, false},
		{"empty-procedure", nil, []string{" "}, nil, false},
		{"only-semicolon", nil, []string{";"}, nil, false},
		{"empty-source", srcFile("s.sql", "\n"), []string{"--source", "s.sql"}, nil, false},
		{"error-at-first-statement", nil, []string{"SELECT * FROM nosuch;"}, nil, false},
		{"division-error", nil, []string{"SELECT 1 / 0 FROM a;"}, nil, false},
		{"exit", nil, []string{"EXIT;"}, nil, false},
		{"exit-code", nil, []string{"EXIT 3;"}, nil, false},
		{"no-result-statement", nil, []string{"VAR @x := 1; UPDATE a SET v = 2 WHERE id = 1;"}, nil, false},
		{"signal-before-first-statement", nil, []string{"SELECT COUNT(*) FROM a;"}, []string{"VERIF_SIGNAL_AT=rlock.stat#1:SIGINT"}, false},
		{"signal-term-before-first-statement", nil, []string{"SELECT COUNT(*) FROM a;"}, []string{"VERIF_SIGNAL_AT=rlock.stat#1:SIGTERM"}, false},
		{"result-written", nil, []string{"SELECT COUNT(*) FROM a;"}, nil, true},
	}
	mk := func(tag string) string {
		d := filepath.Join(scratch, "c11-out-"+tag)
		_ = os.RemoveAll(d)
		must(os.MkdirAll(d, 0o755))
		must(os.WriteFile(filepath.Join(d, "a.csv"), []byte("id,v\n1,1\n2,2\n3,3\n"), 0o644))
		return d
	}
	for _, flag := range []string{"--out", "-o"} {
		for _, c := range scs {
			d := mk(c.name)
			if c.setup != nil {
				c.setup(d)
			}
			before := listing(d)
			r := csvq(bin, d, c.env, 0, 0, append([]string{flag, "result.csv"}, c.args...)...)
			after := listing(d)
			rep := map[string]interface{}{"scenario": c.name, "option": flag, "args": c.args, "rc": r.rc, "output": r.out}
			v, ok := after["result.csv"]
			switch {
			case !c.written && ok:
				rep["out_file"] = v
				o.Law("out_file_left_behind", rep)
			case c.written && (!ok || v == "file:"):
				rep["out_file"] = v
				o.Law("result_not_in_out_file", rep)
			}
			for k, bv := range before {
				if after[k] != bv && !(k == "a.csv" && c.name == "no-result-statement") {
					rep["changed"] = k
					o.Law("run_changed_unrelated_file", rep)
				}
			}
			for k := range after {
				if _, was := before[k]; !was && k != "result.csv" {
					rep["appeared"] = k
					if isControl(k) {
						o.Law("control_files_left_behind", rep)
					} else {
						o.Law("run_changed_unrelated_file", rep)
					}
				}
			}
			if r.rc == -2 {
				o.Law("hang", rep)
			}
			o.Eval()
			o.Count("outfile:" + c.name)
			o.NonTrivial(fmt.Sprintf("outfile:%s:%s:%d", flag, c.name, r.rc))
			_ = os.RemoveAll(d)
		}
	}
	// --out paths that cannot be created, or that exist: nothing appears, nothing changes, whatever the procedure is
	for _, p := range []struct{ name, out string }{
		{"missing-directory", "nodir/result.csv"},
		{"parent-is-a-file", "a.csv/result.csv"},
		{"is-a-directory", "sub"},
		{"exists-already", "keep.csv"},
	} {
		for _, prog := range []string{"SELECT COUNT(*) FROM a;", "SELECT FROM;", "EXIT;"} {
			d := mk("path-" + p.name)
			must(os.Mkdir(filepath.Join(d, "sub"), 0o755))
			must(os.WriteFile(filepath.Join(d, "keep.csv"), []byte("keep,me\n"), 0o644))
			before := listing(d)
			r := csvq(bin, d, nil, 0, 0, "--out", p.out, prog)
			after := listing(d)
			rep := map[string]interface{}{"scenario": "out-path-" + p.name, "out": p.out, "program": prog, "rc": r.rc, "output": r.out}
			bad := false
			for k, bv := range before {
				if after[k] != bv {
					rep["changed"] = k
					bad = true
				}
			}
			for k := range after {
				if _, was := before[k]; !was {
					rep["appeared"] = k
					bad = true
				}
			}
			if ents, _ := os.ReadDir(filepath.Join(d, "sub")); len(ents) > 0 {
				rep["appeared"] = "sub/" + ents[0].Name()
				bad = true
			}
			if bad {
				o.Law("out_file_left_behind", rep)
			}
			if strings.Contains(r.out, "panic:") {
				o.Law("internal_error_on_termination", rep)
			}
			o.Eval()
			o.Count("outfile:path-" + p.name)
			o.NonTrivial(fmt.Sprintf("outpath:%s:%s:%d", p.name, prog, r.rc))
			_ = os.RemoveAll(d)
		}
	}
}

// parallelSubquery: a signal while the records of a big table are evaluated by several goroutines and one of them is
// inside the FIRST load of a table that only a sub-query refers to (read lock created, handler perhaps not yet
// registered).  big: 480 records, --cpu 2 … 4; the sub-query in the WHERE clause (IN, EXISTS) and in the select list
// (correlated scalar).  A signal at every (lib/file point, occurrence) the run reaches — the second and later
// occurrences are the load of the sub-query's table — then: no control file (law control_files_left_behind), every
// file byte-identical.
func parallelSubquery(o *hc.Out, g *hc.Gen, bin, scratch string) {
	sigNames := []string{"SIGINT", "SIGTERM", "SIGQUIT"}
	progs := []struct{ name, text string }{
		{"in-subquery", "SELECT id FROM big WHERE x IN (SELECT k FROM other WHERE k < 9);"},
		{"scalar-subquery", "SELECT id, (SELECT v FROM other WHERE other.k = big.x) AS v FROM big;"},
		{"exists-subquery", "SELECT id FROM big WHERE EXISTS (SELECT 1 FROM other WHERE other.k = big.x AND other.v <> 'v3');"},
	}
	mk := func(tag string) string {
		d := filepath.Join(scratch, "c11-par-"+tag)
		_ = os.RemoveAll(d)
		must(os.MkdirAll(d, 0o755))
		var a, b strings.Builder
		a.WriteString("id,x\n")
		b.WriteString("k,v\n")
		for i := 0; i < 480; i++ {
			fmt.Fprintf(&a, "%d,%d\n", i, i%23)
		}
		for i := 0; i < 20; i++ {
			fmt.Fprintf(&b, "%d,v%d\n", i, i)
		}
		must(os.WriteFile(filepath.Join(d, "big.csv"), []byte(a.String()), 0o644))
		must(os.WriteFile(filepath.Join(d, "other.csv"), []byte(b.String()), 0o644))
		return d
	}
	thorough := os.Getenv("VERIF_TIER") != "quick"
	for pi, p := range progs {
		cpu := fmt.Sprint(2 + (pi+g.Intn(3))%3)
		d := mk("trace")
		trace := filepath.Join(scratch, "c11-par-trace.txt")
		_ = os.Remove(trace)
		before := snapshot(d)
		r := csvq(bin, d, []string{"VERIF_TRACE=" + trace}, 0, 0, "--cpu", cpu, p.text)
		tb, _ := os.ReadFile(trace)
		_ = os.Remove(trace)
		if r.rc != 0 {
			o.Law("parallel_subquery_program_failed", map[string]interface{}{"program": p.text, "rc": r.rc, "output": r.out})
		}
		_ = os.RemoveAll(d)
		seen := map[string]int{}
		for _, pt := range strings.Fields(string(tb)) {
			seen[pt]++
			pick := g.Intn(3)
			for si, sn := range sigNames {
				if !thorough && si != pick {
					continue
				}
				d = mk("sig")
				spec := fmt.Sprintf("%s#%d:%s", pt, seen[pt], sn)
				r = csvq(bin, d, []string{"VERIF_SIGNAL_AT=" + spec}, 0, 0, "--cpu", cpu, p.text)
				after := snapshot(d)
				rep := map[string]interface{}{"phase": "parallel evaluation, first load of the sub-query's table", "program": p.text, "cpu": cpu, "ending": "signal@" + spec, "rc": r.rc, "files_after": names(after)}
				var left []string
				for _, nme := range names(after) {
					if isControl(nme) {
						left = append(left, nme)
					}
				}
				if len(left) > 0 {
					rep["leftover"] = left
					o.Law("control_files_left_behind", rep)
				}
				for k, v := range before {
					if after[k] != v {
						rep["changed"] = k
						o.Law("read_only_program_changed_file", rep)
					}
				}
				if r.rc == -2 {
					rep["output"] = r.out
					o.Law("hang", rep)
				}
				o.Eval()
				o.Count("parallel_signal_point:" + pt)
				o.NonTrivial(fmt.Sprintf("parallel:%s:%s#%d:%d", p.name, pt, seen[pt], r.rc))
				_ = os.RemoveAll(d)
			}
		}
	}
}
