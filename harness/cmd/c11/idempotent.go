package main

import (
	"context"
	"fmt"
	"os"
	"path/filepath"
	"strings"
	"time"

	"github.com/mithrandie/csvq/lib/file"

	"verifharness/hc"
)

// commitPaths: the real Handler.commit / Handler.close (through Container.Commit / Container.Close, in process) on a
// table opened for update, created, opened for read — and, for update, with the temporary file holding exactly the
// bytes of the table ("#same") as well as different ones: what the directory holds afterwards, in the words of the
// model (old / new / missing + temp + lock + rlock).  The model answers from EVERY successful path through the
// regenerated tree of the function (Gen/CommitPaths): they must all leave the same, and it must be this.
func commitPaths(o *hc.Out, scratch string) {
	ctx := context.Background()
	for _, fn := range []string{"commit", "close"} {
		for _, kind := range []string{"update", "update #same", "create", "read"} {
			d := filepath.Join(scratch, "c11-cp")
			_ = os.RemoveAll(d)
			must(os.MkdirAll(d, 0o755))
			p := filepath.Join(d, "t.csv")
			oldB, newB := "id,v\n1,old\n", "id,v\n1,new\n"
			if strings.HasSuffix(kind, "#same") {
				newB = oldB
			}
			c := file.NewContainer()
			var h *file.Handler
			var err error
			switch strings.Fields(kind)[0] {
			case "update":
				must(os.WriteFile(p, []byte(oldB), 0o644))
				h, err = c.CreateHandlerForUpdate(ctx, p, time.Second, 10*time.Millisecond)
			case "create":
				h, err = c.CreateHandlerForCreate(p)
			case "read":
				must(os.WriteFile(p, []byte(oldB), 0o644))
				h, err = c.CreateHandlerForRead(ctx, p, time.Second, 10*time.Millisecond)
			}
			must(err)
			if fp, e := h.FileForUpdate(); e == nil {
				_, e = fp.WriteString(newB)
				must(e)
			}
			if fn == "commit" {
				err = c.Commit(h)
			} else {
				err = c.Close(h)
			}
			ans := ""
			if err != nil {
				ans = "error:" + err.Error()
			} else {
				b, e := os.ReadFile(p)
				switch {
				case e != nil:
					ans = "missing"
				case fn == "commit" && kind != "read" && string(b) == newB:
					ans = "new" // the bytes the transaction wrote are in place
				case string(b) == oldB:
					ans = "old"
				case string(b) == newB:
					ans = "new"
				default:
					ans = "other"
				}
				ents, _ := os.ReadDir(d)
				for _, suf := range []string{".temp", ".lock", ".rlock"} {
					for _, en := range ents {
						if strings.HasPrefix(en.Name(), ".") && strings.HasSuffix(en.Name(), suf) {
							ans += "+" + suf[1:]
							break
						}
					}
				}
				if len(c.Keys()) != 0 {
					ans += "+registered"
				}
			}
			_ = c.CloseAllWithErrors()
			o.Case("c11.h"+fn+" "+kind, ans)
			o.NonTrivial("commitpath:" + fn + ":" + kind + ":" + ans)
			_ = os.RemoveAll(d)
		}
	}
}

type fmtTable struct {
	name, file, body string
	args            []string
}

// the six formats, each with a table (id, status) of three records; row 2 is 'done', row 3 is the last one
var fmtTables = []fmtTable{
	{"csv", "t.csv", "id,status\n1,open\n2,done\n3,open\n", nil},
	{"tsv", "t.tsv", "id\tstatus\n1\topen\n2\tdone\n3\topen\n", nil},
	{"json", "t.json", `[{"id":1,"status":"open"},{"id":2,"status":"done"},{"id":3,"status":"open"}]`, nil},
	{"jsonl", "t.jsonl", "{\"id\":1,\"status\":\"open\"}\n{\"id\":2,\"status\":\"done\"}\n{\"id\":3,\"status\":\"open\"}\n", nil},
	{"ltsv", "t.ltsv", "id:1\tstatus:open\nid:2\tstatus:done\nid:3\tstatus:open\n", nil},
	{"fixed", "t.txt", "id status\n1  open  \n2  done  \n3  open  \n", []string{"--import-format", "FIXED"}},
}

// idempotent: statements that count as a change and change no byte, on files in the form csvq itself writes (each
// table is first rewritten by csvq: a real update and its reversal), for all six formats.  After the run — which
// must succeed — the directory holds no control file, and a second process with --wait-timeout 1 can update the
// table at once (law table_stays_locked_after_successful_run).
func idempotent(o *hc.Out, bin, scratch string) {
	stmts := []struct{ name, text string }{
		{"update-same-value", "UPDATE `%[1]s` SET status = 'done' WHERE id = 2;"},
		{"set-a-to-a", "UPDATE `%[1]s` SET status = status;"},
		{"replace-identical", "REPLACE INTO `%[1]s` (id, status) USING (id) VALUES (2, 'done');"},
		{"delete-insert-same", "DELETE FROM `%[1]s` WHERE id = 3; INSERT INTO `%[1]s` VALUES (3, 'open');"},
		{"alter-to-current", "ALTER TABLE `%[1]s` SET LINE_BREAK TO LF;"},
		{"insert-rollback", "INSERT INTO `%[1]s` VALUES (9, 'x'); ROLLBACK;"},
		{"update-commit-update", "UPDATE `%[1]s` SET status = status WHERE id = 1; COMMIT; UPDATE `%[1]s` SET status = 'open' WHERE id = 3;"},
		{"update-where-nothing", "UPDATE `%[1]s` SET status = 'x' WHERE id = 77;"},
		{"select-for-update", "SELECT * FROM `%[1]s` FOR UPDATE;"},
	}
	for _, ft := range fmtTables {
		for _, st := range stmts {
			d := filepath.Join(scratch, "c11-idem-"+ft.name+"-"+st.name)
			_ = os.RemoveAll(d)
			must(os.MkdirAll(d, 0o755))
			must(os.WriteFile(filepath.Join(d, ft.file), []byte(ft.body), 0o644))
			run := func(extra []string, text string) result {
				return csvq(bin, d, nil, 0, 0, append(append(append([]string{}, ft.args...), extra...), text)...)
			}
			// canonical form: csvq rewrites the file itself
			pre := run(nil, fmt.Sprintf("UPDATE `%[1]s` SET status = 'tmp' WHERE id = 1; COMMIT; UPDATE `%[1]s` SET status = 'open' WHERE id = 1;", ft.file))
			canon := snapshot(d)
			text := fmt.Sprintf(st.text, ft.file)
			r := run(nil, text)
			after := snapshot(d)
			var left []string
			for _, nme := range names(after) {
				if isControl(nme) {
					left = append(left, nme)
				}
			}
			rep := map[string]interface{}{"format": ft.name, "statement": text, "rc": r.rc, "output": r.out, "files_after": names(after), "setup_rc": pre.rc, "setup_output": pre.out}
			if len(left) > 0 {
				rep["leftover"] = left
				o.Law("control_files_left_behind", rep)
			}
			// the statement is legal and changes nothing: it succeeds, and the table holds what it held
			if pre.rc == 0 && r.rc == 0 && st.name != "alter-to-current" && after[ft.file] != canon[ft.file] {
				rep["table_before"], rep["table_after"] = canon[ft.file], after[ft.file]
				o.Count("idempotent_statement_rewrote_table_differently:" + ft.name + ":" + st.name)
			}
			// a second process can update the table at once
			t0 := time.Now()
			r2 := run([]string{"--wait-timeout", "1"}, fmt.Sprintf("UPDATE `%s` SET status = 'z' WHERE id = 1;", ft.file))
			el := time.Since(t0)
			final := snapshot(d)
			if pre.rc == 0 && r.rc == 0 && (r2.rc != 0 || final[ft.file] == after[ft.file]) {
				rep["second_rc"], rep["second_output"], rep["second_elapsed_ms"] = r2.rc, r2.out, el.Milliseconds()
				o.Law("table_stays_locked_after_successful_run", rep)
			}
			for _, nme := range names(final) {
				if isControl(nme) && len(left) == 0 {
					rep["leftover_after_second"] = nme
					o.Law("control_files_left_behind", rep)
					break
				}
			}
			if r.rc == -2 || r2.rc == -2 {
				o.Law("hang", rep)
			}
			o.Eval()
			o.Count("idempotent:" + st.name)
			o.NonTrivial(fmt.Sprintf("idempotent:%s:%s:%d:%d", ft.name, st.name, r.rc, r2.rc))
			_ = os.RemoveAll(d)
		}
	}
}

// interruptedCommit: one commit over a created and an updated table, for each of the six formats, with a signal at
// the points where Transaction.Commit starts to encode them.  Whatever the run reports, every file is afterwards
// either what it was before (the created table: absent) or exactly what the uninterrupted run leaves — never a
// table cut short — and the files of the one commit are all changed or none (law partial_commit_after_termination),
// and no control file is left.
func interruptedCommit(o *hc.Out, g *hc.Gen, bin, scratch string) {
	sigNames := []string{"SIGINT", "SIGTERM", "SIGQUIT"}
	for _, ft := range fmtTables {
		created := "c" + filepath.Ext(ft.file)
		text := fmt.Sprintf("CREATE TABLE `%[2]s` (x, y); INSERT INTO `%[2]s` VALUES (1, 'one'), (2, 'two'), (3, 'three'); UPDATE `%[1]s` SET status = 'z' WHERE id < 3;", ft.file, created)
		mk := func(tag string) string {
			d := filepath.Join(scratch, "c11-ic-"+ft.name+"-"+tag)
			_ = os.RemoveAll(d)
			must(os.MkdirAll(d, 0o755))
			must(os.WriteFile(filepath.Join(d, ft.file), []byte(ft.body), 0o644))
			return d
		}
		run := func(d string, env []string) result {
			return csvq(bin, d, env, 0, 0, append(append([]string{}, ft.args...), text)...)
		}
		d := mk("ref")
		before := snapshot(d)
		rr := run(d, nil)
		ref := snapshot(d)
		_ = os.RemoveAll(d)
		if rr.rc != 0 {
			o.Count("interrupted_commit_reference_failed:" + ft.name)
			continue
		}
		for k := 1; k <= 2; k++ {
			spec := fmt.Sprintf("tx.commit.encode#%d:%s", k, sigNames[g.Intn(3)])
			d = mk("sig")
			r := run(d, []string{"VERIF_SIGNAL_AT=" + spec})
			after := snapshot(d)
			rep := map[string]interface{}{"format": ft.name, "program": text, "ending": "signal@" + spec, "rc": r.rc, "output": r.out, "files_after": names(after)}
			changed := 0
			for _, f := range []string{created, ft.file} {
				av, aok := after[f]
				bv, bok := before[f]
				switch {
				case aok == bok && av == bv:
				case aok && av == ref[f]:
					changed++
				default:
					rep["file"], rep["holds"], rep["uninterrupted_run_leaves"] = f, av, ref[f]
					o.Law("partial_commit_after_termination", rep)
					changed = -10
				}
			}
			if changed == 1 {
				o.Law("partial_commit_after_termination", rep)
			}
			for _, nme := range names(after) {
				if isControl(nme) {
					rep["leftover"] = nme
					o.Law("control_files_left_behind", rep)
					break
				}
			}
			if r.rc == -2 {
				o.Law("hang", rep)
			}
			o.Eval()
			o.Count("interrupted_commit")
			o.NonTrivial(fmt.Sprintf("interrupted-commit:%s:%d:%d:%d", ft.name, k, r.rc, changed))
			_ = os.RemoveAll(d)
		}
	}
}
