package main

import (
	"fmt"
	"io/fs"
	"os"
	"path/filepath"
	"sort"
	"strings"
	"syscall"
	"time"

	"verifharness/hc"
)

// the places csvq looks for csvq_env.json / csvqrc (lib/option GetSpecialFilePath), with HOME = the repository, so
// that every one of them lies inside the observed directory
func configPlaces(d, name string) []string {
	return []string{
		filepath.Join(d, ".config", "csvq", name),
		filepath.Join(d, "."+name),
		filepath.Join(d, ".csvq", name),
		filepath.Join(d, name),
	}
}

// controlFilesBelow lists every control file below d, at any depth
func controlFilesBelow(d string) []string {
	var out []string
	_ = filepath.WalkDir(d, func(p string, e fs.DirEntry, err error) error {
		if err == nil && !e.IsDir() && isControl(e.Name()) {
			rel, _ := filepath.Rel(d, p)
			out = append(out, rel)
		}
		return nil
	})
	sort.Strings(out)
	return out
}

// startUp: the phase of a run BEFORE signal handling and the deferred clean-up exist (NewSession, NewTransaction →
// Environment.Load reading every csvq_env.json, NewProcessor), with configuration files in every place csvq looks:
//   - the points (VerifPoint) reached before the first statement are listed (a run whose only statement touches no
//     file, without csvqrc files) and compared with what the regenerated list of the handlers opened in that phase
//     predicts (op c11.startup);
//   - a signal at every (point, occurrence) reached by a run with csvq_env.json AND csvqrc in all places;
//   - a competitor holds an exclusive flock on one of the configuration files (each place in turn), the starting
//     csvq waits for it, and SIGINT / SIGTERM / SIGQUIT arrives during the wait; the competitor lets go without
//     a signal;
//   - a configuration file that is slow to open (a FIFO nobody writes to) and a signal during the open.
//
// Whatever happens to the process, afterwards no control file exists anywhere below the directory
// (law control_files_left_behind) and no other file has changed.
func startUp(o *hc.Out, g *hc.Gen, bin, scratch string) {
	sigNames := []string{"SIGINT", "SIGTERM", "SIGQUIT"}
	sigs := []syscall.Signal{syscall.SIGINT, syscall.SIGTERM, syscall.SIGQUIT}
	mk := func(tag string, rc bool) string {
		d := filepath.Join(scratch, "c11-su-"+tag)
		_ = os.RemoveAll(d)
		must(os.MkdirAll(d, 0o755))
		must(os.WriteFile(filepath.Join(d, "a.csv"), []byte("id,v\n1,1\n2,2\n"), 0o644))
		for i, p := range configPlaces(d, "csvq_env.json") {
			must(os.MkdirAll(filepath.Dir(p), 0o755))
			must(os.WriteFile(p, []byte(fmt.Sprintf("{\"environment_variables\":{\"C11_PLACE_%d\":\"x\"}}", i)), 0o644))
		}
		if rc {
			for i, p := range configPlaces(d, "csvqrc") {
				must(os.MkdirAll(filepath.Dir(p), 0o755))
				must(os.WriteFile(p, []byte(fmt.Sprintf("VAR @c11_place_%d := %d;\n", i, i)), 0o644))
			}
		}
		return d
	}
	tree := func(d string) map[string]string {
		m := map[string]string{}
		_ = filepath.WalkDir(d, func(p string, e fs.DirEntry, err error) error {
			if err == nil && e.Type().IsRegular() {
				b, _ := os.ReadFile(p)
				rel, _ := filepath.Rel(d, p)
				m[rel] = string(b)
			}
			return nil
		})
		return m
	}
	check := func(d string, before map[string]string, how, text string, r result) {
		left := controlFilesBelow(d)
		rep := map[string]interface{}{"phase": "start-up", "program": text, "ending": how, "rc": r.rc, "output": r.out}
		if len(left) > 0 {
			rep["leftover"] = left
			o.Law("control_files_left_behind", rep)
		}
		after := tree(d)
		for k, v := range before {
			if after[k] != v {
				rep["changed"] = k
				o.Law("read_only_program_changed_file", rep)
				break
			}
		}
		if r.rc == -2 {
			o.Law("hang", rep)
		}
		o.Eval()
		o.NonTrivial(fmt.Sprintf("startup:%s:%d", how, r.rc))
	}
	env := func(d string, extra ...string) []string {
		return append([]string{"XDG_CONFIG_HOME=" + filepath.Join(d, ".config")}, extra...)
	}
	const text = "SELECT 1;"

	// 1. the points reached before the first statement
	d := mk("trace", false)
	trace := filepath.Join(scratch, "c11-su-trace.txt")
	_ = os.Remove(trace)
	before := tree(d)
	r := csvq(bin, d, env(d, "VERIF_TRACE="+trace), 0, 0, text)
	check(d, before, "plain", text, r)
	tb, _ := os.ReadFile(trace)
	_ = os.Remove(trace)
	var startPoints []string // what follows the first `tx.` point is the (empty) commit at the end of the run
	for _, pt := range strings.Fields(string(tb)) {
		if strings.HasPrefix(pt, "tx.") {
			break
		}
		startPoints = append(startPoints, pt)
	}
	o.Case("c11.startup 4", strings.Join(startPoints, ","))
	for _, p := range startPoints {
		o.Count("startup_point:" + p)
	}
	_ = os.RemoveAll(d)

	// 2. a signal at every (point, occurrence) of a run with csvq_env.json and csvqrc in every place
	d = mk("trace2", true)
	_ = os.Remove(trace)
	before = tree(d)
	r = csvq(bin, d, env(d, "VERIF_TRACE="+trace), 0, 0, text)
	check(d, before, "plain-with-csvqrc", text, r)
	tb, _ = os.ReadFile(trace)
	_ = os.Remove(trace)
	_ = os.RemoveAll(d)
	seen := map[string]int{}
	for _, pt := range strings.Fields(string(tb)) {
		seen[pt]++
		pick := g.Intn(3)
		for si, sn := range sigNames {
			// the points of the start-up phase under every signal; the later ones (csvqrc, behind the handler) under one
			if seen[pt] > len(startPoints) && si != pick {
				continue
			}
			d = mk("sig", true)
			before = tree(d)
			spec := fmt.Sprintf("%s#%d:%s", pt, seen[pt], sn)
			r = csvq(bin, d, env(d, "VERIF_SIGNAL_AT="+spec), 0, 0, text)
			check(d, before, "signal@"+spec, text, r)
			o.Count("startup_signal_point:" + pt)
			_ = os.RemoveAll(d)
		}
	}

	// 3. a competitor holds an exclusive flock on one configuration file; the signal arrives while csvq waits
	for pi := range configPlaces("", "csvq_env.json") {
		pick := g.Intn(3)
		for si := range sigs {
			if os.Getenv("VERIF_TIER") == "quick" && si != (pi+pick)%3 {
				continue
			}
			d = mk("flock", true)
			before = tree(d)
			p := configPlaces(d, "csvq_env.json")[pi]
			fp, err := os.OpenFile(p, os.O_RDWR, 0)
			must(err)
			must(syscall.Flock(int(fp.Fd()), syscall.LOCK_EX))
			r = csvq(bin, d, env(d), sigs[si], 120*time.Millisecond, text)
			_ = syscall.Flock(int(fp.Fd()), syscall.LOCK_UN)
			_ = fp.Close()
			check(d, before, fmt.Sprintf("flock-place%d+%s", pi, sigNames[si]), text, r)
			o.Count("startup_flock")
			_ = os.RemoveAll(d)
		}
	}
	// … and lets go without a signal: the run goes on and succeeds
	{
		d = mk("flock-release", true)
		before = tree(d)
		p := configPlaces(d, "csvq_env.json")[3]
		fp, err := os.OpenFile(p, os.O_RDWR, 0)
		must(err)
		must(syscall.Flock(int(fp.Fd()), syscall.LOCK_EX))
		go func() {
			time.Sleep(120 * time.Millisecond)
			_ = syscall.Flock(int(fp.Fd()), syscall.LOCK_UN)
		}()
		r = csvq(bin, d, env(d), 0, 0, text)
		_ = fp.Close()
		check(d, before, "flock-released", text, r)
		if r.rc != 0 {
			o.Law("start_up_failed_after_lock_was_released", map[string]interface{}{"rc": r.rc, "output": r.out})
		}
		_ = os.RemoveAll(d)
	}

	// 4. a configuration file that is slow to open (a FIFO without a writer) and a signal during the open
	pickFifo := g.Intn(3)
	for si := range sigs {
		if os.Getenv("VERIF_TIER") == "quick" && si != pickFifo {
			continue
		}
		d = mk("fifo", false)
		p := configPlaces(d, "csvq_env.json")[3]
		_ = os.Remove(p)
		must(syscall.Mkfifo(p, 0o644))
		before = tree(d)
		r = csvq(bin, d, env(d), sigs[si], 120*time.Millisecond, text)
		check(d, before, "slow-open+"+sigNames[si], text, r)
		o.Count("startup_slow_open")
		_ = os.RemoveAll(d)
	}
}
