package main

import (
	"bytes"
	"fmt"
	"os"
	"os/exec"
	"path/filepath"
	"strings"
	"time"

	"verifharness/hc"
)

// usageErrors: a command line csvq rejects as INCORRECT USAGE is rejected only after the pre-load commands
// (csvqrc files) have run in the same transaction.  Whatever those commands hold (update locks, temporary files)
// or have done without committing (changed tables, created tables) is discarded like after any other error:
// afterwards the repository holds exactly what the committed part of the pre-load commands left — no control
// file, no uncommitted created table, every data file byte-identical.
//
// pre-load programs × every class of usage error (lib/cli/app.go, lib/action: NewIncorrectCommandUsageError) ×
// the main command and every sub-command × the places a csvqrc is read from.
func usageErrors(o *hc.Out, bin, scratch string, mk func(string) string) {
	type pre struct {
		name        string
		committed   string // statements up to and including a COMMIT (their effect stays)
		uncommitted string // statements after it: discarded with the transaction
	}
	pres := []pre{
		{"update", "", "UPDATE a SET v = 8 WHERE id < 4;"},
		{"create", "", "CREATE TABLE `p.csv` (q); INSERT INTO `p.csv` VALUES (1);"},
		{"for-update", "", "SELECT COUNT(*) FROM a FOR UPDATE;"},
		{"commit-then-more", "UPDATE a SET v = 8 WHERE id < 4; COMMIT;", "UPDATE b SET w = 'z' WHERE id < 2; CREATE TABLE `p.csv` (q); DELETE FROM a WHERE id > 20;"},
		{"insert-two-tables-and-create", "", "INSERT INTO a VALUES (500, 5); DELETE FROM b WHERE id < 10; CREATE TABLE `p.csv` (q); CREATE TABLE `r.csv` (s, t); INSERT INTO `r.csv` VALUES (1, 2);"},
		{"read-only", "", "VAR @x := 1; SELECT COUNT(*) FROM a;"},
	}
	type uc struct {
		name  string
		args  []string
		stdin string // "": /dev/null; otherwise the text piped in
	}
	srcFile := filepath.Join(scratch, "c11-usage-source.sql")
	must(os.WriteFile(srcFile, []byte("SELECT 1;\n"), 0o644))
	defer os.Remove(srcFile)
	ucs := []uc{
		// the main command
		{"two_arguments", []string{"SELECT 1", "SELECT 2"}, ""},
		{"source_and_argument", []string{"--source", srcFile, "SELECT 1"}, ""},
		{"repository_missing", []string{"--repository", filepath.Join(scratch, "c11-no-such-directory"), "SELECT 1"}, ""},
		{"timezone_invalid", []string{"--timezone", "Nowhere/Land", "SELECT 1"}, ""},
		{"import_format_invalid", []string{"--import-format", "nosuchformat", "SELECT 1"}, ""},
		{"delimiter_invalid", []string{"--delimiter", "ab", "SELECT 1"}, ""},
		{"delimiter_positions_invalid", []string{"--delimiter-positions", "x", "SELECT 1"}, ""},
		{"encoding_invalid", []string{"--encoding", "nosuchencoding", "SELECT 1"}, ""},
		{"format_invalid", []string{"--format", "nosuchformat", "SELECT 1"}, ""},
		{"write_encoding_invalid", []string{"--write-encoding", "nosuchencoding", "SELECT 1"}, ""},
		{"write_delimiter_invalid", []string{"--write-delimiter", "ab", "SELECT 1"}, ""},
		{"write_delimiter_positions_invalid", []string{"--write-delimiter-positions", "x", "SELECT 1"}, ""},
		{"line_break_invalid", []string{"--line-break", "nosuchbreak", "SELECT 1"}, ""},
		{"json_escape_invalid", []string{"--json-escape", "nosuchescape", "SELECT 1"}, ""},
		{"interactive_shell_with_piped_stdin", nil, "SELECT 1;\n"},
		{"unknown_flag", []string{"--no-such-flag", "SELECT 1"}, ""},
		{"valid_flags_then_two_arguments", []string{"--format", "json", "--write-encoding", "SJIS", "SELECT 1", "SELECT 2"}, ""},
		// the sub-commands
		{"fields_no_argument", []string{"fields"}, ""},
		{"fields_two_arguments", []string{"fields", "a.csv", "b.csv"}, ""},
		{"calc_without_stdin", []string{"calc", "1 + 1"}, ""},
		{"calc_two_arguments", []string{"calc", "c1", "c2"}, "1\n"},
		{"check_update_with_argument", []string{"check-update", "now"}, ""},
		{"subcommand_after_invalid_format", []string{"--format", "nosuchformat", "fields", "a.csv"}, ""},
		{"subcommand_after_invalid_encoding", []string{"--encoding", "nosuchencoding", "calc", "1"}, "1\n"},
		{"syntax_after_invalid_line_break", []string{"--line-break", "nosuchbreak", "syntax", "select"}, ""},
	}
	// where the pre-load commands are read from
	places := []string{"home-dot-csvqrc", "cwd-csvqrc", "home-dot-csvq-dir"}

	runCsvq := func(d, home string, args []string, stdin string) result {
		cmd := exec.Command(bin, args...)
		cmd.Dir = d
		cmd.Env = append(os.Environ(), "HOME="+home, "XDG_CONFIG_HOME="+filepath.Join(home, ".config"))
		var out bytes.Buffer
		cmd.Stdout, cmd.Stderr = &out, &out
		if stdin != "" {
			cmd.Stdin = strings.NewReader(stdin)
		}
		must(cmd.Start())
		done := make(chan error, 1)
		go func() { done <- cmd.Wait() }()
		select {
		case err := <-done:
			if err == nil {
				return result{out.String(), 0}
			}
			if ee, ok := err.(*exec.ExitError); ok {
				return result{out.String(), ee.ExitCode()}
			}
			return result{out.String(), -1}
		case <-time.After(30 * time.Second):
			_ = cmd.Process.Kill()
			return result{out.String() + "\n[hang: killed after 30s]", -2}
		}
	}
	setup := func(tag string, rc string, place string) (d, home string) {
		d = mk("us-" + tag)
		home = filepath.Join(scratch, "c11-us-home-"+tag)
		_ = os.RemoveAll(home)
		must(os.MkdirAll(home, 0o755))
		switch place {
		case "home-dot-csvqrc":
			must(os.WriteFile(filepath.Join(home, ".csvqrc"), []byte(rc), 0o644))
		case "cwd-csvqrc":
			must(os.WriteFile(filepath.Join(d, "csvqrc"), []byte(rc), 0o644))
		default:
			must(os.MkdirAll(filepath.Join(home, ".csvq"), 0o755))
			must(os.WriteFile(filepath.Join(home, ".csvq", "csvqrc"), []byte(rc), 0o644))
		}
		return
	}

	k := 0
	wants := map[string]map[string]string{}
	for _, p := range pres {
		for _, c := range ucs {
			place := places[k%len(places)]
			k++
			// what must be there afterwards: the repository after the committed part alone (a run of its own,
			// with a command that is fine)
			want, cached := wants[p.name+"/"+place]
			if !cached {
				d, home := setup("ref", p.committed+"\n", place)
				r := runCsvq(d, home, []string{"--quiet", "SELECT 1"}, "")
				if r.rc != 0 {
					o.Law("usage_reference_run_failed", map[string]interface{}{"preload": p.committed, "rc": r.rc, "output": r.out})
				}
				want = snapshot(d)
				// (the csvqrc of the reference run and of this run differ, and it may live in the repository)
				delete(want, "csvqrc")
				wants[p.name+"/"+place] = want
				_ = os.RemoveAll(d)
				_ = os.RemoveAll(home)
			}
			marker := "PRINT 'pre-load commands have run';"
			d, home := setup("run", p.committed+" "+marker+" "+p.uncommitted+"\n", place)
			before := snapshot(d)
			r := runCsvq(d, home, c.args, c.stdin)
			after := snapshot(d)
			delete(after, "csvqrc")
			ran := strings.Contains(r.out, "pre-load commands have run")
			if !ran {
				// a command line refused before the pre-load commands were read: nothing at all has happened
				want = before
				delete(want, "csvqrc")
			}
			rep := map[string]interface{}{"preload": p.committed + " " + p.uncommitted, "preload_read_from": place, "usage_error": c.name, "args": c.args, "stdin": c.stdin, "rc": r.rc, "output": r.out, "preload_ran": ran, "files_after": names(after)}
			var left, created, changed []string
			for _, nme := range names(after) {
				if isControl(nme) {
					left = append(left, nme)
				} else if _, ok := want[nme]; !ok {
					created = append(created, nme)
				}
			}
			for _, nme := range names(want) {
				if after[nme] != want[nme] {
					changed = append(changed, nme)
				}
			}
			if len(left) > 0 {
				rep["leftover"] = left
				o.Law("control_files_left_behind", rep)
			}
			if len(created) > 0 {
				rep["uncommitted_created"] = created
				o.Law("uncommitted_created_table_left", rep)
			}
			if len(changed) > 0 {
				rep["changed"] = changed
				o.Law("rejected_command_line_changed_data_file", rep)
			}
			if r.rc == -2 {
				o.Law("hang", rep)
			}
			if r.rc == 0 {
				// every case here is a command line csvq has to refuse
				o.Law("incorrect_usage_accepted", rep)
			}
			if strings.Contains(r.out, "Fatal Error") || strings.Contains(r.out, "panic:") {
				o.Law("internal_error_on_termination", rep)
			}
			o.Eval()
			o.Count(fmt.Sprintf("usage_error:%s:preload_ran=%v", c.name, ran))
			o.NonTrivial(fmt.Sprintf("usage:%s:%s:%d:%v", p.name, c.name, r.rc, ran))
			_ = os.RemoveAll(d)
			_ = os.RemoveAll(home)
		}
	}
}
