package main

import (
	"fmt"
	"os"
	"strings"

	"verifharness/hc"
)

// endingPlacement: a run that is ended by EXIT or by an error BEFORE any COMMIT leaves nothing behind, from whatever
// depth of nested statement lists the ending statement is reached (IF / ELSEIF / ELSE, CASE, WHILE, WHILE IN over a
// cursor, SOURCE of a file, SOURCE inside IF, a file that sources a file, EXECUTE of a string, PREPARE + EXECUTE, and
// two of them nested).  The program creates a table and changes two existing ones before the ending statement and
// changes one after it: after EXIT / the error the created table must not exist, every existing file must be
// byte-identical, no control file may be left, and the statement behind the ending must not have run (its PRINT
// marker must not appear).  Deterministic; every wrapper × {EXIT, EXIT with a code, error} is one real process.
func endingPlacement(o *hc.Out, bin, scratch string, mk func(string) string) {
	ws := hc.EndingWrappers()
	endings := []struct {
		name, st string
		rcZero   bool
	}{
		{"exit", "EXIT;", true},
		{"exit-code", "EXIT 3;", false},
		{"error", "SELECT 1 / 0 FROM DUAL;", false},
	}
	for _, w := range ws {
		for _, e := range endings {
			d := mk("place-" + w.Name + "-" + e.name)
			before := snapshot(d)
			text := "CREATE TABLE `c.csv` (x, y); INSERT INTO `c.csv` VALUES (1, 2); UPDATE a SET v = 9 WHERE id < 5; INSERT INTO b VALUES (100, 'n'); " +
				w.Wrap(d, e.st) + " PRINT 'LATE-STATEMENT'; INSERT INTO b VALUES (300, 'late');"
			withFiles := snapshot(d) // the sourced files are part of the directory: not a change of the run
			r := csvq(bin, d, nil, 0, 0, text)
			after := snapshot(d)
			rep := map[string]interface{}{"program": text, "wrapper": w.Name, "ending": e.name, "rc": r.rc, "output": r.out, "files_after": names(after)}
			bad := false
			if _, ok := after["c.csv"]; ok {
				rep["uncommitted_created"] = "c.csv"
				bad = true
			}
			for _, nme := range names(withFiles) {
				if after[nme] != withFiles[nme] {
					rep["changed"] = nme
					bad = true
				}
			}
			for _, nme := range names(after) {
				if _, ok := withFiles[nme]; !ok {
					rep["appeared"] = nme
					bad = true
				}
			}
			if strings.Contains(r.out, "LATE-STATEMENT") || strings.Contains(r.out, "LATE-IN-FILE") {
				rep["ran_after_ending"] = true
				bad = true
			}
			if e.rcZero != (r.rc == 0) {
				rep["exit_status_unexpected"] = true
				bad = true
			}
			if strings.Contains(r.out, "Fatal Error") || strings.Contains(r.out, "panic:") {
				bad = true
			}
			if bad {
				o.Law("ending_from_nested_list_left_changes", rep)
			}
			_ = before
			o.Eval()
			o.Count("placement:" + w.Name + ":" + e.name)
			o.NonTrivial(fmt.Sprintf("placement:%s:%s:%d", w.Name, e.name, r.rc))
			_ = os.RemoveAll(d)
		}
	}
}
