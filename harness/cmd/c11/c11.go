package main

import (
	"bytes"
	"fmt"
	"os"
	"os/exec"
	"path/filepath"
	"sort"
	"strings"
	"syscall"
	"time"

	"verifharness/hc"
)

func main() { hc.Main(run) }

func must(err error) {
	if err != nil {
		panic(err)
	}
}

type result struct {
	out string
	rc  int
}

// csvq runs the real binary; if sigAfter > 0 a signal is delivered after that delay (timing-based stream).
func csvq(bin, dir string, env []string, sig syscall.Signal, sigAfter time.Duration, args ...string) result {
	cmd := exec.Command(bin, append([]string{"--repository", dir, "--quiet"}, args...)...)
	cmd.Dir = dir
	cmd.Env = append(append(os.Environ(), "HOME="+dir), env...)
	var out bytes.Buffer
	cmd.Stdout, cmd.Stderr = &out, &out
	must(cmd.Start())
	done := make(chan error, 1)
	go func() { done <- cmd.Wait() }()
	if sigAfter > 0 {
		go func() {
			time.Sleep(sigAfter)
			_ = cmd.Process.Signal(sig)
		}()
	}
	select {
	case err := <-done:
		if err == nil {
			return result{out.String(), 0}
		}
		if ee, ok := err.(*exec.ExitError); ok {
			return result{out.String(), ee.ExitCode()}
		}
		return result{out.String(), -1}
	case <-time.After(30 * time.Second):
		_ = cmd.Process.Kill()
		return result{out.String() + "\n[hang: killed after 30s]", -2}
	}
}

func snapshot(dir string) map[string]string {
	m := map[string]string{}
	ents, _ := os.ReadDir(dir)
	for _, e := range ents {
		b, _ := os.ReadFile(filepath.Join(dir, e.Name()))
		m[e.Name()] = string(b)
	}
	return m
}

func names(m map[string]string) []string {
	out := []string{}
	for k := range m {
		out = append(out, k)
	}
	sort.Strings(out)
	return out
}

func isControl(name string) bool {
	return strings.HasPrefix(name, ".") && (strings.HasSuffix(name, ".lock") || strings.HasSuffix(name, ".rlock") || strings.HasSuffix(name, ".temp"))
}

type prog struct {
	text     string
	readOnly bool
	creates  []string // tables created and NOT committed at the moment the program can be interrupted
	kind     string
}

func run(seed int64, n int, dir string, _ []string) {
	g := hc.NewGen(seed)
	o := hc.NewOut(dir)
	defer o.Close()
	bin, scratch := os.Getenv("VERIF_CSVQ"), os.Getenv("VERIF_SCRATCH")
	if bin == "" || scratch == "" {
		panic("VERIF_CSVQ and VERIF_SCRATCH must be set")
	}
	// what the regenerated close / closeWithErrors / commit(other) sequences leave behind, model vs expectation
	o.Case("c10.close plain", "old")
	o.Case("c10.close witherrors", "old")
	o.Case("c10.close commitother", "old")

	mk := func(tag string) string {
		d := filepath.Join(scratch, "c11-"+tag)
		_ = os.RemoveAll(d)
		must(os.MkdirAll(d, 0o755))
		var a, b strings.Builder
		a.WriteString("id,v\n")
		b.WriteString("id,w\n")
		for k := 0; k < 30; k++ {
			fmt.Fprintf(&a, "%d,%d\n", k, k%7)
			fmt.Fprintf(&b, "%d,x%d\n", k, k%3)
		}
		must(os.WriteFile(filepath.Join(d, "a.csv"), []byte(a.String()), 0o644))
		must(os.WriteFile(filepath.Join(d, "b.csv"), []byte(b.String()), 0o644))
		return d
	}
	progs := []prog{
		{"SELECT COUNT(*) FROM a; SELECT * FROM b WHERE id < 3; SELECT a.id FROM a JOIN b ON a.id = b.id WHERE a.v > 2;", true, nil, "read"},
		{"SELECT * FROM a FOR UPDATE; SELECT COUNT(*) FROM b;", true, nil, "read-for-update"},
		{"UPDATE a SET v = 9 WHERE id < 5; INSERT INTO b VALUES (100, 'n');", false, nil, "dml-autocommit"},
		{"UPDATE a SET v = 9 WHERE id < 5; COMMIT; DELETE FROM b WHERE id > 20;", false, nil, "dml-commit-dml"},
		{"UPDATE a SET v = 9 WHERE id < 5; SELECT 1 / 0;", false, nil, "dml-then-error"},
		{"CREATE TABLE `c.csv` (x, y); INSERT INTO `c.csv` VALUES (1, 2); SELECT 1 / 0;", false, []string{"c.csv"}, "create-then-error"},
		{"CREATE TABLE `c.csv` (x, y); INSERT INTO a VALUES (200, 1); EXIT;", false, []string{"c.csv"}, "create-then-exit"},
		{"UPDATE a SET v = 1; ROLLBACK; SELECT COUNT(*) FROM a;", true, nil, "dml-rollback"},
		{"CREATE TABLE `c.csv` (x, y); INSERT INTO `c.csv` VALUES (1, 2); COMMIT; UPDATE `c.csv` SET y = 3;", false, nil, "create-commit-update"},
		{"SELECT * FROM nosuch;", true, nil, "missing-table"},
	}
	sigs := []string{"SIGINT", "SIGTERM", "SIGQUIT"}

	check := func(p prog, d string, before map[string]string, how string, r result) {
		after := snapshot(d)
		var left []string
		for _, nme := range names(after) {
			if isControl(nme) {
				left = append(left, nme)
			}
		}
		rep := map[string]interface{}{"program": p.text, "ending": how, "rc": r.rc, "files_after": names(after), "output": r.out}
		if len(left) > 0 {
			rep["leftover"] = left
			o.Law("control_files_left_behind", rep)
		}
		if r.rc == -2 {
			o.Law("hang", rep)
		}
		if strings.Contains(r.out, "Fatal Error") || strings.Contains(r.out, "panic:") {
			o.Law("internal_error_on_termination", rep)
		}
		for _, c := range p.creates {
			if _, ok := after[c]; ok && r.rc != 0 {
				rep["uncommitted_created"] = c
				o.Law("uncommitted_created_table_left", rep)
			}
		}
		if p.readOnly {
			for _, nme := range names(before) {
				if after[nme] != before[nme] {
					rep["changed"] = nme
					o.Law("read_only_program_changed_file", rep)
				}
			}
			for _, nme := range names(after) {
				if _, ok := before[nme]; !ok && !isControl(nme) {
					rep["created"] = nme
					o.Law("read_only_program_changed_file", rep)
				}
			}
		}
		o.Eval()
		o.NonTrivial(fmt.Sprintf("%s:%s:%d", p.kind, how, r.rc))
	}

	budget := n
	for pi, p := range progs {
		// 1. plain run (success / error / EXIT) and the list of points it reaches
		d := mk(fmt.Sprintf("%d", pi))
		before := snapshot(d)
		trace := filepath.Join(scratch, "c11-trace")
		_ = os.Remove(trace)
		r := csvq(bin, d, []string{"VERIF_TRACE=" + trace}, 0, 0, p.text)
		check(p, d, before, "plain", r)
		tb, _ := os.ReadFile(trace)
		points := strings.Fields(string(tb))
		_ = os.Remove(trace)
		// 2. a competing process holds the lock of table a: lock timeout
		d = mk(fmt.Sprintf("%d-lk", pi))
		must(os.WriteFile(filepath.Join(d, ".a.csv.lock"), nil, 0o644))
		before = snapshot(d)
		r = csvq(bin, d, nil, 0, 0, "--wait-timeout", "0.15", p.text)
		_ = os.Remove(filepath.Join(d, ".a.csv.lock"))
		check(p, d, before, "competing-lock", r)
		// 3. a signal at every point reached (each occurrence), deterministically
		seen := map[string]int{}
		for _, pt := range points {
			seen[pt]++
			if budget <= 0 && g.Intn(4) != 0 {
				continue
			}
			budget--
			sig := sigs[g.Intn(len(sigs))]
			d = mk(fmt.Sprintf("%d-sig", pi))
			before = snapshot(d)
			spec := fmt.Sprintf("%s#%d:%s", pt, seen[pt], sig)
			r = csvq(bin, d, []string{"VERIF_SIGNAL_AT=" + spec}, 0, 0, p.text)
			check(p, d, before, "signal@"+spec, r)
			o.Count("signal_point:" + pt)
		}
		// 4. signals by timing (covers loading / evaluating between the named points)
		for k := 0; k < 3; k++ {
			d = mk(fmt.Sprintf("%d-tm", pi))
			before = snapshot(d)
			delay := time.Duration(1+g.Intn(12)) * time.Millisecond
			sg := []syscall.Signal{syscall.SIGINT, syscall.SIGTERM, syscall.SIGQUIT}[g.Intn(3)]
			r = csvq(bin, d, nil, sg, delay, p.text)
			check(p, d, before, fmt.Sprintf("timed-signal@%s", delay), r)
		}
		for _, tag := range []string{"", "-lk", "-sig", "-tm"} {
			_ = os.RemoveAll(filepath.Join(scratch, fmt.Sprintf("c11-%d%s", pi, tag)))
		}
	}
}
