package main

import (
	"bytes"
	"fmt"
	"os"
	"os/exec"
	"path/filepath"
	"sort"
	"strings"
	"syscall"
	"time"

	"verifharness/hc"
)

func main() { hc.Main(run) }

func must(err error) {
	if err != nil {
		panic(err)
	}
}

type result struct {
	out string
	rc  int
}

// csvq runs the real binary; if sigAfter > 0 a signal is delivered after that delay (timing-based stream).
func csvq(bin, dir string, env []string, sig syscall.Signal, sigAfter time.Duration, args ...string) result {
	cmd := exec.Command(bin, append([]string{"--repository", dir, "--quiet"}, args...)...)
	cmd.Dir = dir
	cmd.Env = append(append(os.Environ(), "HOME="+dir), env...)
	var out bytes.Buffer
	cmd.Stdout, cmd.Stderr = &out, &out
	must(cmd.Start())
	done := make(chan error, 1)
	go func() { done <- cmd.Wait() }()
	if sigAfter > 0 {
		go func() {
			time.Sleep(sigAfter)
			_ = cmd.Process.Signal(sig)
		}()
	}
	select {
	case err := <-done:
		if err == nil {
			return result{out.String(), 0}
		}
		if ee, ok := err.(*exec.ExitError); ok {
			return result{out.String(), ee.ExitCode()}
		}
		return result{out.String(), -1}
	case <-time.After(30 * time.Second):
		_ = cmd.Process.Kill()
		return result{out.String() + "\n[hang: killed after 30s]", -2}
	}
}

func snapshot(dir string) map[string]string {
	m := map[string]string{}
	ents, _ := os.ReadDir(dir)
	for _, e := range ents {
		b, _ := os.ReadFile(filepath.Join(dir, e.Name()))
		m[e.Name()] = string(b)
	}
	return m
}

func names(m map[string]string) []string {
	out := []string{}
	for k := range m {
		out = append(out, k)
	}
	sort.Strings(out)
	return out
}

func isControl(name string) bool {
	return strings.HasPrefix(name, ".") && (strings.HasSuffix(name, ".lock") || strings.HasSuffix(name, ".rlock") || strings.HasSuffix(name, ".temp"))
}

type prog struct {
	text     string
	readOnly bool
	creates  []string // tables created and NOT committed at the moment the program can be interrupted
	kind     string
	atomic   []string // files written by ONE commit: after any ending they are all changed / created, or none is
}

func run(seed int64, n int, dir string, _ []string) {
	g := hc.NewGen(seed)
	o := hc.NewOut(dir)
	defer o.Close()
	bin, scratch := os.Getenv("VERIF_CSVQ"), os.Getenv("VERIF_SCRATCH")
	if bin == "" || scratch == "" {
		panic("VERIF_CSVQ and VERIF_SCRATCH must be set")
	}
	// what the regenerated close / closeWithErrors / commit(other) sequences leave behind, model vs expectation
	o.Case("c10.close plain", "old")
	o.Case("c10.close witherrors", "old")
	o.Case("c10.close commitother", "old")

	mk := func(tag string) string {
		d := filepath.Join(scratch, "c11-"+tag)
		_ = os.RemoveAll(d)
		must(os.MkdirAll(d, 0o755))
		var a, b strings.Builder
		a.WriteString("id,v\n")
		b.WriteString("id,w\n")
		for k := 0; k < 30; k++ {
			fmt.Fprintf(&a, "%d,%d\n", k, k%7)
			fmt.Fprintf(&b, "%d,x%d\n", k, k%3)
		}
		must(os.WriteFile(filepath.Join(d, "a.csv"), []byte(a.String()), 0o644))
		must(os.WriteFile(filepath.Join(d, "b.csv"), []byte(b.String()), 0o644))
		return d
	}
	progs := []prog{
		{"SELECT COUNT(*) FROM a; SELECT * FROM b WHERE id < 3; SELECT a.id FROM a JOIN b ON a.id = b.id WHERE a.v > 2;", true, nil, "read", nil},
		{"SELECT * FROM a FOR UPDATE; SELECT COUNT(*) FROM b;", true, nil, "read-for-update", nil},
		{"UPDATE a SET v = 9 WHERE id < 5; INSERT INTO b VALUES (100, 'n');", false, nil, "dml-autocommit", nil},
		{"UPDATE a SET v = 9 WHERE id < 5; COMMIT; DELETE FROM b WHERE id > 20;", false, nil, "dml-commit-dml", nil},
		{"UPDATE a SET v = 9 WHERE id < 5; SELECT 1 / 0;", false, nil, "dml-then-error", nil},
		{"CREATE TABLE `c.csv` (x, y); INSERT INTO `c.csv` VALUES (1, 2); SELECT 1 / 0;", false, []string{"c.csv"}, "create-then-error", nil},
		{"CREATE TABLE `c.csv` (x, y); INSERT INTO a VALUES (200, 1); EXIT;", false, []string{"c.csv"}, "create-then-exit", nil},
		{"UPDATE a SET v = 1; ROLLBACK; SELECT COUNT(*) FROM a;", true, nil, "dml-rollback", nil},
		{"CREATE TABLE `c.csv` (x, y); INSERT INTO `c.csv` VALUES (1, 2); COMMIT; UPDATE `c.csv` SET y = 3;", false, nil, "create-commit-update", nil},
		{"SELECT * FROM nosuch;", true, nil, "missing-table", nil},
		// the preload commands of $HOME/.csvqrc run before the command itself: a signal there is a signal like any other
		{"SELECT COUNT(*) FROM b;", false, nil, "preload-update", nil},
		{"UPDATE b SET w = 'z' WHERE id < 2;", false, nil, "preload-update-then-update", nil},
		// one commit over a created and two updated tables: whenever the run is ended, either all three reached the disk or none
		{"CREATE TABLE `c.csv` (x, y); INSERT INTO `c.csv` VALUES (1, 2); UPDATE a SET v = 9 WHERE id < 5; INSERT INTO b VALUES (100, 'n');", false, nil, "create-and-update-one-commit", []string{"c.csv", "a.csv", "b.csv"}},
		{"CREATE TABLE `c.csv` (x, y); CREATE TABLE `d.csv` (z); INSERT INTO `d.csv` VALUES (7); DELETE FROM b WHERE id > 20; COMMIT; SELECT COUNT(*) FROM a;", false, nil, "two-created-one-updated-commit", []string{"c.csv", "d.csv", "b.csv"}},
	}
	sigs := []string{"SIGINT", "SIGTERM", "SIGQUIT"}
	obstacles(o, bin, scratch, mk)
	vanishing(o, bin, scratch)
	usageErrors(o, bin, scratch, mk)
	endingPlacement(o, bin, scratch, mk)
	commitPaths(o, scratch)
	idempotent(o, bin, scratch)
	interruptedCommit(o, hc.NewGen(seed+104729), bin, scratch)
	outFile(o, bin, scratch)
	parallelSubquery(o, hc.NewGen(seed+1299709), bin, scratch)
	startUp(o, hc.NewGen(seed+7919), bin, scratch)

	preload := func(p prog, d string) {
		if strings.HasPrefix(p.kind, "preload-") {
			must(os.WriteFile(filepath.Join(d, ".csvqrc"), []byte("UPDATE a SET v = 8 WHERE id < 4; CREATE TABLE `p.csv` (q); INSERT INTO `p.csv` VALUES (1); COMMIT; UPDATE a SET v = 7 WHERE id < 2;\n"), 0o644))
		}
	}
	check := func(p prog, d string, before map[string]string, how string, r result) {
		after := snapshot(d)
		var left []string
		for _, nme := range names(after) {
			if isControl(nme) {
				left = append(left, nme)
			}
		}
		rep := map[string]interface{}{"program": p.text, "ending": how, "rc": r.rc, "files_after": names(after), "output": r.out}
		if len(left) > 0 {
			rep["leftover"] = left
			o.Law("control_files_left_behind", rep)
		}
		if r.rc == -2 {
			o.Law("hang", rep)
		}
		if strings.Contains(r.out, "Fatal Error") || strings.Contains(r.out, "panic:") {
			o.Law("internal_error_on_termination", rep)
		}
		for _, c := range p.creates {
			// an EXIT ends the procedure without commit and with status 0: what it had created is gone all the same
			if _, ok := after[c]; ok && (r.rc != 0 || strings.HasSuffix(p.kind, "-then-exit")) {
				rep["uncommitted_created"] = c
				o.Law("uncommitted_created_table_left", rep)
			}
		}
		if len(p.atomic) > 0 {
			changed := 0
			for _, f := range p.atomic {
				if after[f] != before[f] {
					changed++
				}
			}
			if changed != 0 && changed != len(p.atomic) {
				rep["atomic_files"] = p.atomic
				rep["changed"] = changed
				o.Law("partial_commit_after_termination", rep)
			}
			if r.rc == 0 && changed != len(p.atomic) {
				rep["atomic_files"] = p.atomic
				o.Law("successful_run_did_not_commit", rep)
			}
		}
		if p.readOnly {
			for _, nme := range names(before) {
				if after[nme] != before[nme] {
					rep["changed"] = nme
					o.Law("read_only_program_changed_file", rep)
				}
			}
			for _, nme := range names(after) {
				if _, ok := before[nme]; !ok && !isControl(nme) {
					rep["created"] = nme
					o.Law("read_only_program_changed_file", rep)
				}
			}
		}
		o.Eval()
		o.NonTrivial(fmt.Sprintf("%s:%s:%d", p.kind, how, r.rc))
	}

	budget := n
	for pi, p := range progs {
		mk := func(tag string) string {
			d := mk(tag)
			preload(p, d)
			return d
		}
		// 1. plain run (success / error / EXIT) and the list of points it reaches
		d := mk(fmt.Sprintf("%d", pi))
		before := snapshot(d)
		trace := filepath.Join(scratch, "c11-trace")
		_ = os.Remove(trace)
		r := csvq(bin, d, []string{"VERIF_TRACE=" + trace}, 0, 0, p.text)
		check(p, d, before, "plain", r)
		tb, _ := os.ReadFile(trace)
		points := strings.Fields(string(tb))
		_ = os.Remove(trace)
		// 2. a competing process holds the lock of table a: lock timeout
		d = mk(fmt.Sprintf("%d-lk", pi))
		must(os.WriteFile(filepath.Join(d, ".a.csv.lock"), nil, 0o644))
		before = snapshot(d)
		r = csvq(bin, d, nil, 0, 0, "--wait-timeout", "0.15", p.text)
		_ = os.Remove(filepath.Join(d, ".a.csv.lock"))
		check(p, d, before, "competing-lock", r)
		// 3. a signal at every point reached (each occurrence), deterministically
		seen := map[string]int{}
		for _, pt := range points {
			seen[pt]++
			if budget <= 0 && g.Intn(4) != 0 {
				continue
			}
			budget--
			sig := sigs[g.Intn(len(sigs))]
			d = mk(fmt.Sprintf("%d-sig", pi))
			before = snapshot(d)
			spec := fmt.Sprintf("%s#%d:%s", pt, seen[pt], sig)
			r = csvq(bin, d, []string{"VERIF_SIGNAL_AT=" + spec}, 0, 0, p.text)
			check(p, d, before, "signal@"+spec, r)
			o.Count("signal_point:" + pt)
		}
		// 4. signals by timing (covers loading / evaluating between the named points)
		for k := 0; k < 3; k++ {
			d = mk(fmt.Sprintf("%d-tm", pi))
			before = snapshot(d)
			delay := time.Duration(1+g.Intn(12)) * time.Millisecond
			sg := []syscall.Signal{syscall.SIGINT, syscall.SIGTERM, syscall.SIGQUIT}[g.Intn(3)]
			r = csvq(bin, d, nil, sg, delay, p.text)
			check(p, d, before, fmt.Sprintf("timed-signal@%s", delay), r)
		}
		for _, tag := range []string{"", "-lk", "-sig", "-tm"} {
			_ = os.RemoveAll(filepath.Join(scratch, fmt.Sprintf("c11-%d%s", pi, tag)))
		}
	}
}

// listing renders a directory as name=kind:content (symlinks by their target, directories by "dir")
// vanishing: the table a statement is waiting for disappears while it waits.  Process 1 holds a table it has
// created (or locked) and is held (VERIF_PAUSE_AT) at the start of its forced release; process 2 starts a
// statement on that table — it passes the existence check and waits for the lock; process 1 is let go and
// removes / releases the table.  Whatever process 2 then reports, nothing of EITHER process may be left.
func vanishing(o *hc.Out, bin, scratch string) {
	cases := []struct{ name, p1, p2 string }{
		{"created_then_error", "CREATE TABLE `n.csv` (a, b); INSERT INTO `n.csv` VALUES (1, 2); SELECT 1 / 0;", "INSERT INTO `n.csv` VALUES (3, 4);"},
		{"created_then_error_update", "CREATE TABLE `n.csv` (a, b); INSERT INTO `n.csv` VALUES (1, 2); SELECT 1 / 0;", "UPDATE `n.csv` SET a = 9;"},
		{"created_then_error_read", "CREATE TABLE `n.csv` (a, b); INSERT INTO `n.csv` VALUES (1, 2); SELECT 1 / 0;", "SELECT COUNT(*) FROM `n.csv`;"},
		{"created_then_error_for_update", "CREATE TABLE `n.csv` (a, b); SELECT 1 / 0;", "SELECT * FROM `n.csv` FOR UPDATE;"},
		{"updated_then_error", "UPDATE a SET v = 5; SELECT 1 / 0;", "DELETE FROM a WHERE id < 3;"},
	}
	for i, c := range cases {
		d := filepath.Join(scratch, fmt.Sprintf("c11-van-%d", i))
		_ = os.RemoveAll(d)
		must(os.MkdirAll(d, 0o755))
		must(os.WriteFile(filepath.Join(d, "a.csv"), []byte("id,v\n1,1\n2,2\n3,3\n"), 0o644))
		gate := filepath.Join(scratch, fmt.Sprintf("c11-van-gate-%d", i))
		_ = os.Remove(gate)
		_ = os.Remove(gate + ".reached")
		done := make(chan result, 1)
		go func() { done <- csvq(bin, d, []string{"VERIF_PAUSE_AT=close.closefp#1:" + gate}, 0, 0, c.p1) }()
		reached := false
		for k := 0; k < 2000; k++ {
			if _, err := os.Stat(gate + ".reached"); err == nil {
				reached = true
				break
			}
			time.Sleep(5 * time.Millisecond)
		}
		done2 := make(chan result, 1)
		go func() { done2 <- csvq(bin, d, nil, 0, 0, "--wait-timeout", "5", c.p2) }()
		time.Sleep(300 * time.Millisecond) // process 2 is past its existence check and waits for the lock
		must(os.WriteFile(gate, nil, 0o644))
		r1, r2 := <-done, <-done2
		_ = os.Remove(gate)
		_ = os.Remove(gate + ".reached")
		after := snapshot(d)
		var left []string
		for _, nme := range names(after) {
			if isControl(nme) {
				left = append(left, nme)
			}
		}
		rep := map[string]interface{}{"scenario": c.name, "first": c.p1, "second": c.p2, "first_held_before_release": reached, "first_output": r1.out, "second_output": r2.out, "second_rc": r2.rc, "files_after": names(after)}
		if len(left) > 0 {
			rep["leftover"] = left
			o.Law("control_files_left_behind", rep)
		}
		if r1.rc == -2 || r2.rc == -2 {
			o.Law("hang", rep)
		}
		if strings.Contains(r1.out+r2.out, "Fatal Error") || strings.Contains(r1.out+r2.out, "panic:") {
			o.Law("internal_error_on_termination", rep)
		}
		o.Eval()
		o.NonTrivial(fmt.Sprintf("vanishing:%s:%d:%v", c.name, r2.rc, reached))
		_ = os.RemoveAll(d)
	}
}

func listing(dir string) map[string]string {
	m := map[string]string{}
	ents, _ := os.ReadDir(dir)
	for _, e := range ents {
		p := filepath.Join(dir, e.Name())
		fi, err := os.Lstat(p)
		switch {
		case err != nil:
			m[e.Name()] = "?"
		case fi.Mode()&os.ModeSymlink != 0:
			t, _ := os.Readlink(p)
			m[e.Name()] = "link:" + t
		case fi.IsDir():
			m[e.Name()] = "dir"
		default:
			b, _ := os.ReadFile(p)
			m[e.Name()] = "file:" + string(b)
		}
	}
	return m
}

// obstacles: accesses that fail while the handler is being set up (the path cannot be created / opened
// although the pre-checks pass), and runs whose working directory changes: a failed or read-only run leaves
// the repository exactly as it was — no control file, no emptied or deleted user file, nothing new.
func obstacles(o *hc.Out, bin, scratch string, mk func(string) string) {
	type sc struct {
		name  string
		setup func(d string)
		args  []string
		// files the run may legitimately add or change
		allow map[string]bool
	}
	scs := []sc{
		{"create_over_dangling_symlink", func(d string) { _ = os.Symlink(filepath.Join(d, "nowhere", "t.csv"), filepath.Join(d, "n.csv")) }, []string{"CREATE TABLE `n.csv` (x, y)"}, nil},
		{"create_over_symlink_loop", func(d string) {
			_ = os.Symlink(filepath.Join(d, "l2.csv"), filepath.Join(d, "l1.csv"))
			_ = os.Symlink(filepath.Join(d, "l1.csv"), filepath.Join(d, "l2.csv"))
		}, []string{"CREATE TABLE `l1.csv` (x)"}, nil},
		{"create_then_insert_over_dangling_symlink", func(d string) { _ = os.Symlink("missing/t.csv", filepath.Join(d, "n.csv")) }, []string{"CREATE TABLE `n.csv` (x); INSERT INTO `n.csv` VALUES (1); COMMIT;"}, nil},
		{"select_from_directory", func(d string) { _ = os.Mkdir(filepath.Join(d, "d.csv"), 0o755) }, []string{"SELECT * FROM `d.csv`"}, nil},
		{"update_directory", func(d string) { _ = os.Mkdir(filepath.Join(d, "d.csv"), 0o755) }, []string{"UPDATE `d.csv` SET a = 1"}, nil},
		{"create_over_directory", func(d string) { _ = os.Mkdir(filepath.Join(d, "d.csv"), 0o755) }, []string{"CREATE TABLE `d.csv` (x)"}, nil},
		{"select_dangling_symlink", func(d string) { _ = os.Symlink("missing.csv", filepath.Join(d, "n.csv")) }, []string{"SELECT * FROM `n.csv`"}, nil},
		{"update_dangling_symlink", func(d string) { _ = os.Symlink("missing.csv", filepath.Join(d, "n.csv")) }, []string{"UPDATE `n.csv` SET a = 1"}, nil},
		{"update_then_create_over_dangling_symlink", func(d string) { _ = os.Symlink("missing.csv", filepath.Join(d, "n.csv")) }, []string{"UPDATE a SET v = 1; CREATE TABLE `n.csv` (x);"}, nil},
		{"lock_path_is_directory", func(d string) { _ = os.Mkdir(filepath.Join(d, ".a.csv.lock"), 0o755) }, []string{"--wait-timeout", "0.1", "UPDATE a SET v = 1"}, nil},
		{"temp_path_is_directory", func(d string) { _ = os.Mkdir(filepath.Join(d, ".a.csv.temp"), 0o755) }, []string{"--wait-timeout", "0.1", "UPDATE a SET v = 1"}, nil},
	}
	for _, c := range scs {
		d := mk("ob-" + c.name)
		c.setup(d)
		before := listing(d)
		r := csvq(bin, d, nil, 0, 0, c.args...)
		after := listing(d)
		rep := map[string]interface{}{"scenario": c.name, "args": c.args, "rc": r.rc, "output": r.out}
		diff := []string{}
		for k, v := range before {
			if after[k] != v {
				diff = append(diff, "changed or removed: "+k)
			}
		}
		for k := range after {
			if _, ok := before[k]; !ok {
				diff = append(diff, "new: "+k)
			}
		}
		sort.Strings(diff)
		if r.rc != 0 && len(diff) > 0 {
			rep["difference"] = diff
			o.Law("failed_access_changed_directory", rep)
		}
		if strings.Contains(r.out, "Fatal Error") || strings.Contains(r.out, "panic:") {
			o.Law("internal_error_on_termination", rep)
		}
		o.Eval()
		o.NonTrivial(fmt.Sprintf("obstacle:%s:%d", c.name, r.rc))
		o.Count("obstacle:" + c.name)
		_ = os.RemoveAll(d)
	}

	// COMMIT steps that fail because the files were interfered with during the transaction (the program does it
	// itself through external commands): the failed commit is rolled back and leaves no control file
	for _, c := range []struct{ name, prog string }{
		{"temp_removed_before_commit", "UPDATE a SET v = 1; $ rm .a.csv.temp;"},
		{"temp_removed_two_tables", "UPDATE a SET v = 1; UPDATE b SET w = 'q'; $ rm .b.csv.temp;"},
		{"table_replaced_by_directory", "UPDATE a SET v = 1; $ rm a.csv; $ mkdir a.csv;"},
		{"created_table_removed_before_commit", "CREATE TABLE `c.csv` (x); INSERT INTO `c.csv` VALUES (1); UPDATE a SET v = 2; $ rm .a.csv.temp;"},
		{"temp_removed_then_explicit_commit", "UPDATE a SET v = 1; $ rm .a.csv.temp; COMMIT; SELECT 1 FROM DUAL;"},
		{"lock_removed_before_commit", "UPDATE a SET v = 1; $ rm .a.csv.lock;"},
	} {
		d := mk("sab-" + c.name)
		r := csvq(bin, d, nil, 0, 0, c.prog)
		var left []string
		for nme := range listing(d) {
			if isControl(nme) {
				left = append(left, nme)
			}
		}
		sort.Strings(left)
		rep := map[string]interface{}{"scenario": c.name, "program": c.prog, "rc": r.rc, "output": r.out, "leftover": left}
		if len(left) > 0 {
			o.Law("control_files_left_behind", rep)
		}
		if r.rc == -2 {
			o.Law("hang", rep)
		}
		if strings.Contains(r.out, "Fatal Error") || strings.Contains(r.out, "panic:") {
			o.Law("internal_error_on_termination", rep)
		}
		o.Eval()
		o.NonTrivial(fmt.Sprintf("sabotage:%s:%d", c.name, r.rc))
		o.Count("obstacle:" + c.name)
		_ = os.RemoveAll(d)
	}

	// runs whose working directory changes (CHDIR) while an --out file is pending: nothing but the named
	// output file may appear, and a file of the same name in the new directory is none of the run's business
	type oc struct{ name, prog string }
	for _, c := range []oc{
		{"out_chdir_failing_select", "CHDIR '%s'; SELECT * FROM no_such_table;"},
		{"out_chdir_exit", "CHDIR '%s'; EXIT;"},
		{"out_chdir_no_select", "CHDIR '%s'; VAR @x := 1;"},
		{"out_chdir_select", "CHDIR '%s'; SELECT COUNT(*) FROM a;"},
		{"out_no_chdir_failing_select", "PRINT '%s'; SELECT * FROM no_such_table;"},
	} {
		data := mk("oc-" + c.name)
		must(os.WriteFile(filepath.Join(data, "result.csv"), []byte("keep,me\n1,2\n"), 0o644))
		start := filepath.Join(scratch, "c11-start-"+c.name)
		_ = os.RemoveAll(start)
		must(os.MkdirAll(start, 0o755))
		before := listing(data)
		cmd := exec.Command(bin, "--repository", data, "--quiet", "--out", "result.csv", fmt.Sprintf(c.prog, data))
		cmd.Dir = start
		cmd.Env = append(os.Environ(), "HOME="+start)
		var out bytes.Buffer
		cmd.Stdout, cmd.Stderr = &out, &out
		_ = cmd.Run()
		after := listing(data)
		startAfter := listing(start)
		rep := map[string]interface{}{"scenario": c.name, "program": fmt.Sprintf(c.prog, data), "output": out.String(), "start_dir_after": fmt.Sprint(startAfter)}
		for k, v := range before {
			if after[k] != v {
				rep["changed_or_removed"] = k
				o.Law("run_changed_unrelated_file", rep)
			}
		}
		for k, v := range startAfter {
			if k != "result.csv" || (v == "file:" && c.name != "out_chdir_select") {
				rep["left_in_start_directory"] = k + "=" + v
				o.Law("empty_output_file_left_behind", rep)
			}
		}
		o.Eval()
		o.NonTrivial("outdir:" + c.name)
		o.Count("obstacle:" + c.name)
		_ = os.RemoveAll(data)
		_ = os.RemoveAll(start)
	}
}
