package main

// Deterministic generators added after defects that the random streams missed:
//
//	accessPathJobs   multi-statement programs that reach the SAME file through different access paths in one
//	                 transaction (plain name, quoted path, ./path, table functions, *_INLINE functions, sub-queries)
//	                 after SELECT / SELECT … FOR UPDATE / UPDATE / INSERT / DELETE / ALTER / CREATE TABLE, in every
//	                 order of two accesses, sampled orders of three
//	grammarJobs      the small grammars of option values that take a structured string: delimiter positions
//	                 (through FIXED(), --delimiter-positions, SET @@DELIMITER_POSITIONS, --write-delimiter-positions,
//	                 ALTER TABLE … SET DELIMITER_POSITIONS, stdin), delimiter, encoding, line break, JSON escape,
//	                 time zone, datetime format, numeric and boolean options — each through every route that takes it
//	raggedJobs       option PAIRS over ragged / empty / blank-line data with column references beyond the shortest line
//	lockJobs         stale lock / read-lock / temp control files with wait timeouts 0, negative, tiny

import (
	"fmt"
	"strings"
	"time"

	"verifharness/hc"
)

// ---------------------------------------------------------------- access paths

type target struct {
	file  string   // fixture file
	col   string   // a column of it (under every path below)
	paths []string // FROM items that read it as a table with that column
	wr    []string // the subset that may be the target of UPDATE / DELETE / INSERT / FOR UPDATE
}

func pathFixtures() []fileSpec {
	return append(append([]fileSpec{}, fixtures()...), fileSpec{Name: "v.tsv", Data: []byte("a\tb\n1\tx\n2\ty\n")})
}

var targets = []target{
	{"t.csv", "c2",
		[]string{"t", "`t.csv`", "`./t.csv`", "CSV(',', `t.csv`)", "CSV(',', `t.csv`, 'UTF8', FALSE, FALSE)", "CSV_INLINE(',', `t.csv`)", "CSV_INLINE(',', `t.csv`, 'UTF8', FALSE, TRUE)", "(SELECT * FROM t)", "(SELECT * FROM CSV_INLINE(',', `t.csv`))"},
		[]string{"t", "`t.csv`", "`./t.csv`", "CSV(',', `t.csv`)", "CSV_INLINE(',', `t.csv`)"}},
	{"j.json", "b",
		[]string{"JSON('a', `j.json`)", "JSON_INLINE('a', `j.json`)", "JSON_TABLE('a', `j.json`)", "JSON_INLINE('a', `j.json`, 'UTF8')", "(SELECT * FROM JSON('a', `j.json`))"},
		[]string{"JSON('a', `j.json`)", "JSON_INLINE('a', `j.json`)"}},
	{"jl.jsonl", "a",
		[]string{"`jl.jsonl`", "JSONL('', `jl.jsonl`)", "JSONL('', `./jl.jsonl`)", "(SELECT * FROM `jl.jsonl`)"},
		[]string{"`jl.jsonl`", "JSONL('', `jl.jsonl`)"}},
	{"l.ltsv", "a",
		[]string{"`l.ltsv`", "LTSV(`l.ltsv`)", "LTSV(`l.ltsv`, 'UTF8', TRUE)", "(SELECT * FROM `l.ltsv`)"},
		[]string{"`l.ltsv`", "LTSV(`l.ltsv`)"}},
	{"fixed.txt", "a",
		[]string{"FIXED('SPACES', `fixed.txt`)", "FIXED('[5,9,12]', `fixed.txt`)", "FIXED('SPACES', `./fixed.txt`, 'UTF8', FALSE, FALSE)", "(SELECT * FROM FIXED('SPACES', `fixed.txt`))"},
		[]string{"FIXED('SPACES', `fixed.txt`)", "FIXED('[5,9,12]', `fixed.txt`)"}},
	{"v.tsv", "a",
		[]string{"v", "`v.tsv`", "TSV(`v.tsv`)", "CSV('\\t', `v.tsv`)", "CSV_INLINE('\\t', `v.tsv`)", "(SELECT * FROM v)"},
		[]string{"v", "`v.tsv`", "TSV(`v.tsv`)", "CSV_INLINE('\\t', `v.tsv`)"}},
}

type access struct {
	kind string
	stmt string
}

// accesses: every statement that touches the target through one path.
func (t target) accesses() []access {
	var out []access
	for i, p := range t.paths {
		al := fmt.Sprintf("x%d", i)
		out = append(out, access{"read", "SELECT * FROM " + p + " " + al})
		if i%2 == 0 {
			out = append(out, access{"read-count", "SELECT COUNT(" + t.col + ") FROM " + p + " " + al})
		}
	}
	for i, p := range t.wr {
		al := fmt.Sprintf("w%d", i)
		out = append(out, access{"for-update", "SELECT * FROM " + p + " " + al + " FOR UPDATE"})
		out = append(out, access{"update", "UPDATE " + p + " " + al + " SET " + t.col + " = 'x'"})
		if i%2 == 0 {
			out = append(out, access{"delete", "DELETE FROM " + p + " " + al + " WHERE " + t.col + " = 'nosuchvalue'"})
			out = append(out, access{"insert-select", "INSERT INTO " + p + " SELECT * FROM " + t.paths[len(t.paths)-1] + " z LIMIT 1"})
		} else {
			out = append(out, access{"alter", "ALTER TABLE " + p + " ADD added_column"})
		}
	}
	return out
}

func accessPathJobs(g *hc.Gen, triples int, first bool) []*job {
	var jobs []*job
	files := pathFixtures()
	mids := []string{"", "", "", "COMMIT", "ROLLBACK"}
	mk := func(t target, kinds []string, stmts []string) *job {
		tags := []string{"paths:" + t.file + ":" + strings.Join(kinds, " > ")}
		return &job{Group: "paths", Tags: tags, Files: files, Stmts: stmts}
	}
	if first {
		for _, t := range targets {
			acc := t.accesses()
			for _, a := range acc {
				for _, b := range acc {
					stmts := []string{a.stmt}
					if m := mids[g.Intn(len(mids))]; m != "" {
						stmts = append(stmts, m)
					}
					stmts = append(stmts, b.stmt)
					jobs = append(jobs, mk(t, []string{a.kind, b.kind}, stmts))
				}
			}
		}
		// after CREATE TABLE in the same transaction (the file does not exist yet), and after its COMMIT
		created := target{"n.csv", "c2",
			[]string{"n", "`n.csv`", "`./n.csv`", "CSV(',', `n.csv`)", "CSV_INLINE(',', `n.csv`)", "(SELECT * FROM n)"},
			[]string{"n", "`n.csv`", "CSV(',', `n.csv`)", "CSV_INLINE(',', `n.csv`)"}}
		for _, create := range []string{"CREATE TABLE `n.csv` (c1, c2, c3)", "CREATE TABLE `n.csv` (c1, c2, c3) AS SELECT * FROM t", "CREATE TABLE IF NOT EXISTS `n.csv` (c1, c2, c3)"} {
			acc := created.accesses()
			for i, a := range acc {
				for _, mid := range []string{"", "COMMIT", "ROLLBACK"} {
					stmts := []string{create}
					if mid != "" {
						stmts = append(stmts, mid)
					}
					stmts = append(stmts, a.stmt, acc[(i*7+3)%len(acc)].stmt)
					jobs = append(jobs, mk(created, []string{"create", a.kind, acc[(i*7+3)%len(acc)].kind}, stmts))
				}
			}
		}
	}
	// three accesses, sampled; two different files in one program now and then
	for n := 0; n < triples; n++ {
		t := targets[g.Intn(len(targets))]
		acc := t.accesses()
		var stmts, kinds []string
		for k := 0; k < 3; k++ {
			a := acc[g.Intn(len(acc))]
			if g.Intn(6) == 0 {
				o := targets[g.Intn(len(targets))]
				oa := o.accesses()
				a = oa[g.Intn(len(oa))]
			}
			stmts = append(stmts, a.stmt)
			kinds = append(kinds, a.kind)
			if m := mids[g.Intn(len(mids))]; m != "" && k < 2 {
				stmts = append(stmts, m)
			}
		}
		j := mk(t, kinds, stmts)
		if g.Intn(3) == 0 {
			j.Opts = cpu4
		}
		jobs = append(jobs, j)
	}
	return jobs
}

// ---------------------------------------------------------------- grammars of structured option values

var positionGrammar = []string{"SPACES", "spaces", "Spaces", "[]", "[0]", "[-1]", "[3,1]", "[5,5]", "[1,3,5]", "[5, 9, 12]", "[5,9,12,12]", "s[]", "S[ ]", "S[]", "s[0]", "s[2]", "s[2,5]", "S[5,9,12]", "s[3,1]", "s[-1]", "s[5,5]",
	"[99999999999999999999]", "[9223372036854775807]", "s[9223372036854775807]", "[3,9223372036854775807]", "[1000000]", "s[1000000]", "[1e3]", "s[1e3]", "[1.5]", "s[1.5]", "[[1,2]]", "s[[1]]", "[null]", "[\"1\"]", "[true]", "{}", "{\"a\":1}",
	"x", "", " ", "[", "[1,", "s", "s[", "ss[1]", "S [1]", "[1,2]x", "SPACES[1]", "SPACES ", "null", "0", "[ 2 , 4 ]", "s[ 2 , 4 ]", "[1,2,3,4,5,6,7,8,9,10,11,12,13,14,15,16,17,18,19,20]"}

func grammarJobs(g *hc.Gen) []*job {
	var jobs []*job
	base := append(append([]fileSpec{}, fixtures()...),
		fileSpec{Name: "one.txt", Data: []byte("abcdefghijklmnop")},
		fileSpec{Name: "onenl.txt", Data: []byte("abcdefghijklmnop\n")},
		fileSpec{Name: "empty.txt", Data: nil},
		fileSpec{Name: "wide.txt", Data: []byte("日本語 ｱｲｳ  é\nab   cd   ef\n\n  x\n")},
		fileSpec{Name: "u16.csv", Data: utf16Of([]byte("a,b\n1,日本\n"), false, true)},
		fileSpec{Name: "sj.csv", Data: []byte("a,b\n\x93\xfa\x96\x7b,1\n")},
		fileSpec{Name: "bom.csv", Data: []byte("\xef\xbb\xbfa,b\n1,2\n")},
		fileSpec{Name: "cr.csv", Data: []byte("a,b\r1,2\r")},
		fileSpec{Name: "semi.csv", Data: []byte("a;b\n1;2\n\"x;y\";3\n")},
		fileSpec{Name: "dt.csv", Data: []byte("d\n20120203\n03/02/12 9\n2012-02-03T09:18:15Z\n\n")},
	)
	add := func(tag, route string, opts []opt, stmts ...string) *job {
		j := &job{Group: "grammar", Tags: []string{"grammar:" + tag, "route:" + route}, Files: base, Opts: opts, Stmts: stmts}
		jobs = append(jobs, j)
		return j
	}
	o := func(kv ...string) []opt {
		var out []opt
		for i := 0; i+1 < len(kv); i += 2 {
			out = append(out, opt{kv[i], kv[i+1], true})
		}
		return out
	}
	fixedFiles := []string{"fixed.txt", "one.txt", "onenl.txt", "empty.txt", "wide.txt"}
	for _, p := range positionGrammar {
		s := sqlString(p)
		tag := "delimiter-positions " + p
		for _, f := range fixedFiles {
			add(tag, "FIXED()", nil, "SELECT * FROM FIXED("+s+", `"+f+"`)")
			add(tag, "--delimiter-positions", o("--import-format", "FIXED", "--delimiter-positions", p), "SELECT * FROM `"+f+"`")
			add(tag, "SET @@DELIMITER_POSITIONS", nil, "SET @@IMPORT_FORMAT TO 'FIXED'", "SET @@DELIMITER_POSITIONS TO "+s, "SELECT * FROM `"+f+"`")
		}
		add(tag, "FIXED() no header", nil, "SELECT * FROM FIXED("+s+", `fixed.txt`, 'UTF8', TRUE, TRUE)", "SELECT COUNT(*) FROM FIXED("+s+", `one.txt`, 'AUTO', TRUE)")
		j := add(tag, "--delimiter-positions on stdin", o("--import-format", "FIXED", "--delimiter-positions", p), "SELECT * FROM STDIN")
		j.HasStdin, j.Stdin = true, []byte(pick(g, []string{"a  b  c\n1  2  3\n", "abcdefghij", "", "\n"}))
		add(tag, "--write-delimiter-positions", o("--format", "FIXED", "--write-delimiter-positions", p), "SELECT * FROM t")
		add(tag, "--write-delimiter-positions --out", o("--out", "o.txt", "--format", "FIXED", "--write-delimiter-positions", p), "SELECT * FROM t", "SELECT 'x' AS a")
		add(tag, "--write-delimiter-positions without header", []opt{{"--format", "FIXED", true}, {"--write-delimiter-positions", p, true}, {"--without-header", "", false}}, "SELECT * FROM t WHERE FALSE", "SELECT * FROM big LIMIT 3")
		add(tag, "SET @@WRITE_DELIMITER_POSITIONS", nil, "SET @@FORMAT TO FIXED", "SET @@WRITE_DELIMITER_POSITIONS TO "+s, "SELECT * FROM t", "SHOW @@WRITE_DELIMITER_POSITIONS")
		add(tag, "ALTER TABLE SET DELIMITER_POSITIONS", nil, "ALTER TABLE u SET FORMAT TO FIXED", "ALTER TABLE u SET DELIMITER_POSITIONS TO "+s, "COMMIT", "SELECT * FROM FIXED('SPACES', `u.csv`)", "SELECT * FROM FIXED("+s+", `u.csv`)")
		add(tag, "CREATE TABLE fixed", o("--write-delimiter-positions", p), "CREATE TABLE `o.txt` (a, b)", "ALTER TABLE `o.txt` SET FORMAT TO FIXED", "INSERT INTO `o.txt` VALUES ('日本語', 1), (NULL, 'x')", "COMMIT", "SELECT * FROM FIXED("+s+", `o.txt`)")
	}
	for _, d := range []string{",", "\\t", "\t", ";", " ", "", "ab", ",,", "\"", "'", "\\", "\\n", "\n", "\r", "日", "é", "\xff", "SPACES", "|", ":", "0"} {
		s := sqlString(d)
		tag := "delimiter " + d
		add(tag, "--delimiter", o("--delimiter", d), "SELECT * FROM `semi.csv`", "SELECT * FROM t")
		add(tag, "--delimiter --import-format TSV", o("--delimiter", d, "--import-format", "TSV"), "SELECT * FROM `semi.csv`")
		add(tag, "SET @@DELIMITER", nil, "SET @@DELIMITER TO "+s, "SHOW @@DELIMITER", "SELECT * FROM `semi.csv`")
		add(tag, "CSV()", nil, "SELECT * FROM CSV("+s+", `semi.csv`)")
		add(tag, "CSV_INLINE()", nil, "SELECT * FROM CSV_INLINE("+s+", 'a;b\n1;2')", "SELECT * FROM CSV_INLINE("+s+", `semi.csv`)")
		add(tag, "--write-delimiter", o("--write-delimiter", d, "--format", "CSV"), "SELECT * FROM t")
		add(tag, "--write-delimiter --format TSV", o("--write-delimiter", d, "--format", "TSV"), "SELECT * FROM t")
		add(tag, "SET @@WRITE_DELIMITER", nil, "SET @@WRITE_DELIMITER TO "+s, "SELECT * FROM t")
		add(tag, "ALTER TABLE SET DELIMITER", nil, "ALTER TABLE u SET DELIMITER TO "+s, "COMMIT", "SELECT * FROM u", "SELECT * FROM CSV("+s+", `u.csv`)")
	}
	for _, e := range []string{"AUTO", "auto", "UTF8", "utf-8", "UTF8M", "UTF16", "UTF16BE", "UTF16LE", "UTF16BEM", "UTF16LEM", "SJIS", "sjis", "Shift_JIS", "XXX", "", "UTF", "UTF8 ", "UTF32"} {
		s := sqlString(e)
		tag := "encoding " + e
		for _, f := range []string{"u16.csv", "sj.csv", "bom.csv", "t.csv", "empty.txt"} {
			add(tag, "--encoding", o("--encoding", e), "SELECT * FROM `"+f+"`")
			add(tag, "CSV(,,enc)", nil, "SELECT * FROM CSV(',', `"+f+"`, "+s+")")
		}
		add(tag, "SET @@ENCODING", nil, "SET @@ENCODING TO "+s, "SELECT * FROM `u16.csv`", "SELECT * FROM `j.json`")
		add(tag, "other table functions", nil, "SELECT * FROM LTSV(`l.ltsv`, "+s+")", "SELECT * FROM FIXED('SPACES', `fixed.txt`, "+s+")", "SELECT * FROM TSV(`sj.csv`, "+s+")", "SELECT * FROM JSON_INLINE('a', `j.json`, "+s+")")
		for _, f := range []string{"CSV", "FIXED", "JSON", "LTSV", "GFM", "BOX"} {
			add(tag, "--write-encoding --format "+f, o("--write-encoding", e, "--format", f), "SELECT * FROM t", "SELECT 'ｱé\\' AS `日本`")
		}
		add(tag, "--write-encoding --out", o("--write-encoding", e, "--out", "o.csv"), "SELECT * FROM t")
		add(tag, "SET @@WRITE_ENCODING", nil, "SET @@WRITE_ENCODING TO "+s, "SELECT * FROM t")
		add(tag, "ALTER TABLE SET ENCODING", nil, "ALTER TABLE u SET ENCODING TO "+s, "UPDATE u SET c2 = '日本ｱé'", "COMMIT", "SELECT * FROM u", "SELECT * FROM CSV(',', `u.csv`, "+s+")")
	}
	for _, lb := range []string{"CRLF", "CR", "LF", "crlf", "\\n", "\n", "", "XX", "LFCR"} {
		s := sqlString(lb)
		tag := "line-break " + lb
		for _, f := range []string{"CSV", "TSV", "FIXED", "JSON", "JSONL", "LTSV", "GFM", "ORG", "BOX", "TEXT"} {
			add(tag, "--line-break --format "+f, []opt{{"--line-break", lb, true}, {"--format", f, true}, {"--pretty-print", "", false}}, "SELECT * FROM t", "SELECT 'a\nb' AS `x\ry`")
		}
		add(tag, "SET @@LINE_BREAK", nil, "SET @@LINE_BREAK TO "+s, "SELECT * FROM t", "UPDATE u SET c2 = 1", "COMMIT", "SELECT * FROM u")
		add(tag, "ALTER TABLE SET LINE_BREAK", nil, "ALTER TABLE u SET LINE_BREAK TO "+s, "COMMIT", "SELECT * FROM u", "SELECT * FROM `cr.csv`", "UPDATE `cr.csv` SET a = 2", "COMMIT", "SELECT * FROM `cr.csv`")
	}
	for _, je := range []string{"BACKSLASH", "HEX", "HEXALL", "hex", "", "X"} {
		tag := "json-escape " + je
		for _, f := range []string{"JSON", "JSONL"} {
			add(tag, "--json-escape --format "+f, []opt{{"--json-escape", je, true}, {"--format", f, true}}, "SELECT 'a\"\\\\/\n\t日本<>&\x7f' AS `k\"\\\\`, c3 FROM t", "SELECT JSON_OBJECT(c1, c2) FROM t")
		}
		add(tag, "SET @@JSON_ESCAPE", nil, "SET @@JSON_ESCAPE TO "+sqlString(je), "SELECT JSON_AGG(c2) FROM t", "ALTER TABLE u SET FORMAT TO JSON", "ALTER TABLE u SET JSON_ESCAPE TO "+sqlString(je), "COMMIT", "SELECT * FROM JSON('', `u.csv`)")
	}
	uses := []string{"SELECT NOW() IS NOT NULL, DATETIME('2012-02-03 09:18:15'), DATETIME_FORMAT(DATETIME('2012-02-03 09:18:15'), '%Y-%m-%d %H:%i:%s %Z'), UNIX_TIME('2012-02-03')", "SELECT DATETIME(d), d FROM `dt.csv` ORDER BY DATETIME(d)", "SELECT UTC(DATETIME('2012-02-03T09:18:15+09:00')), DATETIME('20120203'), DATETIME('03/02/12 9'), DATETIME(1)"}
	for _, tz := range []string{"Local", "UTC", "utc", "Asia/Tokyo", "+09:00", "", "../../etc/passwd", "No/Where", "/", ".", "Etc/GMT+14", strings.Repeat("A/", 300), "UTC\n"} {
		tag := "timezone " + trunc(tz, 24)
		add(tag, "--timezone", o("--timezone", tz), uses...)
		add(tag, "SET @@TIMEZONE", nil, append([]string{"SET @@TIMEZONE TO " + sqlString(tz), "SHOW @@TIMEZONE"}, uses...)...)
	}
	for _, df := range []string{"%Y%m%d", "[\"%Y%m%d\",\"%d/%m/%y %H\"]", "[]", "[1]", "[null]", "[\"%\"]", "[\"%%%\"]", "[", "{}", "\"\"", "", "[[\"a\"]]", "%", "%%", "[\"\"]", strings.Repeat("%Y", 2000), "[\"%Y\", 1]", "null", "%d/%m/%y %H", "%i%s%n%Z%a%b%e%p%v"} {
		s := sqlString(df)
		tag := "datetime-format " + trunc(df, 24)
		add(tag, "--datetime-format", o("--datetime-format", df), uses...)
		add(tag, "SET @@DATETIME_FORMAT", nil, append([]string{"SET @@DATETIME_FORMAT TO " + s, "SHOW @@DATETIME_FORMAT"}, uses...)...)
		add(tag, "ADD / REMOVE @@DATETIME_FORMAT", nil, append([]string{"ADD " + s + " TO @@DATETIME_FORMAT", "ADD " + s + " TO @@DATETIME_FORMAT", "SHOW @@DATETIME_FORMAT", "REMOVE " + s + " FROM @@DATETIME_FORMAT", "REMOVE 0 FROM @@DATETIME_FORMAT", "REMOVE 5 FROM @@DATETIME_FORMAT"}, uses...)...)
		add(tag, "csvq_env.json", nil, "SELECT 1").Files = append(append([]fileSpec{}, base...), fileSpec{Name: "csvq_env.json", Data: []byte("{\"datetime_format\": " + jsonOrString(df) + "}")})
	}
	// numeric options
	for _, v := range []string{"0", "-1", "1", "1.5", "1e3", "0.0001", "x", "", "99999999999999999999", "9223372036854775807", "-9223372036854775808", "NaN", "Inf", "-Inf", "0x10", " 1", "1 "} {
		for _, f := range []string{"--cpu", "--wait-timeout", "--limit-recursion"} {
			tag := f[2:] + " " + v
			add(tag, f, o(f, v), "SELECT COUNT(*) FROM big a JOIN big b ON a.i = b.i", "WITH RECURSIVE r (n) AS (SELECT 1 UNION ALL SELECT n + 1 FROM r WHERE n < 20) SELECT COUNT(*) FROM r", "UPDATE u SET c2 = 1")
			flag := strings.ToUpper(strings.ReplaceAll(f[2:], "-", "_"))
			add(tag, "SET @@"+flag, nil, "SET @@"+flag+" TO "+sqlString(v), "SET @@"+flag+" TO "+v, "SHOW @@"+flag, "SELECT COUNT(*) FROM big GROUP BY b", "WITH RECURSIVE r (n) AS (SELECT 1 UNION ALL SELECT n + 1 FROM r WHERE n < 20) SELECT COUNT(*) FROM r")
		}
	}
	// boolean switches given a value, and their flags set to things that are not booleans
	for _, f := range []string{"--ansi-quotes", "--strict-equal", "--allow-uneven-fields", "--no-header", "--without-null", "--without-header", "--enclose-all", "--pretty-print", "--scientific-notation", "--strip-ending-line-break",
		"--east-asian-encoding", "--count-diacritical-sign", "--count-format-code", "--color", "--quiet", "--stats"} {
		for _, v := range []string{"true", "false", "x", "", "1", "0", "TRUE", "null"} {
			tag := f[2:] + "=" + v
			jobs = append(jobs, &job{Group: "grammar", Tags: []string{"grammar:" + tag, "route:" + f + "=value"}, Files: base, Fixed: []string{f + "=" + v},
				Stmts: []string{"SELECT \"c1\", 'á​日本' AS w, 1e30, 1 = '1' FROM t", "SELECT * FROM `wide.txt`", "UPDATE u SET c2 = 1"}})
		}
		flag := strings.ToUpper(strings.ReplaceAll(f[2:], "-", "_"))
		for _, v := range []string{"TRUE", "FALSE", "UNKNOWN", "NULL", "'x'", "''", "1", "0", "2", "'true'", "1.5"} {
			add(f[2:]+" := "+v, "SET @@"+flag, nil, "SET @@"+flag+" TO "+v, "SHOW @@"+flag, "SELECT \"c1\", 'á​日本' AS w FROM t", "SELECT * FROM FIXED('SPACES', `wide.txt`)")
		}
	}
	// formats against output files
	for _, f := range []string{"CSV", "TSV", "FIXED", "JSON", "JSONL", "LTSV", "GFM", "ORG", "BOX", "TEXT", "csv", "XXX", ""} {
		for _, out := range []string{"", "o.csv", "o.json", "o.jsonl", "o.md", "o.org", "o.txt", "o.ltsv", "o.tsv", "o"} {
			ov := o("--format", f)
			if out != "" {
				ov = append(ov, opt{"--out", out, true})
			}
			add("format "+f, "--format --out "+out, ov, "SELECT * FROM t", "SELECT * FROM t WHERE FALSE", "SELECT 1 AS `a.b`, 2 AS `a.c`, 'x\ny' AS `日本 語`")
		}
	}
	return jobs
}

func jsonOrString(s string) string {
	t := strings.TrimSpace(s)
	if strings.HasPrefix(t, "[") && strings.HasSuffix(t, "]") || t == "null" || t == "{}" {
		return s
	}
	return `"` + strings.NewReplacer(`\`, `\\`, `"`, `\"`).Replace(s) + `"`
}

// ---------------------------------------------------------------- ragged data × option pairs

func raggedJobs() []*job {
	var jobs []*job
	data := []struct{ name, body string }{
		{"ragged-short-first", "a,b,c\n1\n2,3\n4,5,6\n7,8,9,10\n"},
		{"ragged-long-first", "1,2,3,4\n5,6\n7\n"},
		{"ragged-header-short", "a\n1,2,3\n4,5\n"},
		{"ragged-header-long", "a,b,c,d\n1,2\n3\n"},
		{"blank-lines", "a,b\n\n1,2\n\n\n3\n\n"},
		{"blank-first", "\n\na,b\n1,2,3\n"},
		{"empty", ""},
		{"newline-only", "\n"},
		{"header-only", "a,b,c"},
		{"one-field-lines", "a\n\n1\n2,\n,\n"},
		{"quoted-ragged", "a,b\n\"x\ny\",1,2\n\"\"\n3\n"},
		{"crlf-ragged", "a,b\r\n1\r\n2,3,4\r\n"},
	}
	switches := []string{"--no-header", "--allow-uneven-fields", "--without-null"}
	valued := []opt{{"--import-format", "TSV", true}, {"--delimiter", ";", true}, {"--cpu", "4", true}}
	var sets [][]opt
	sets = append(sets, nil)
	var singles []opt
	for _, s := range switches {
		singles = append(singles, opt{s, "", false})
	}
	singles = append(singles, valued...)
	for i, a := range singles {
		sets = append(sets, []opt{a})
		for _, b := range singles[i+1:] {
			if a.Flag == b.Flag {
				continue
			}
			sets = append(sets, []opt{a, b})
		}
	}
	sets = append(sets, []opt{{"--no-header", "", false}, {"--allow-uneven-fields", "", false}, {"--without-null", "", false}})
	queries := []string{
		"SELECT * FROM `f.csv`",
		"SELECT f.1, f.2, f.3, f.4 FROM `f.csv` f",
		"SELECT COUNT(f.3), MAX(f.4) FROM `f.csv` f",
		"SELECT * FROM `f.csv` f WHERE f.3 IS NULL OR f.2 = 1 ORDER BY 3, 2, 1",
		"UPDATE `f.csv` f SET f.1 = 'x' WHERE f.2 IS NULL; SELECT * FROM `f.csv`; COMMIT; SELECT * FROM `f.csv`",
		"ALTER TABLE `f.csv` ADD z LAST; SELECT * FROM `f.csv`; INSERT INTO `f.csv` SELECT * FROM `f.csv`; COMMIT; SELECT COUNT(*) FROM `f.csv`",
		"SELECT c1, c2, c3, c4, a, b, c, d FROM `f.csv`",
	}
	for _, d := range data {
		files := []fileSpec{{Name: "f.csv", Data: []byte(d.body)}}
		tsv := []fileSpec{{Name: "f.csv", Data: []byte(strings.ReplaceAll(d.body, ",", "\t"))}}
		semi := []fileSpec{{Name: "f.csv", Data: []byte(strings.ReplaceAll(d.body, ",", ";"))}}
		for _, set := range sets {
			fs := files
			for _, o := range set {
				if o.Val == "TSV" {
					fs = tsv
				}
				if o.Val == ";" {
					fs = semi
				}
			}
			tags := append([]string{"ragged:" + d.name}, optTags(set)...)
			for qi, q := range queries {
				j := &job{Group: "ragged", Tags: append([]string{fmt.Sprintf("ragged_query:%d", qi)}, tags...), Files: fs, Opts: append([]opt{}, set...), Stmts: strings.Split(q, "; ")}
				if qi == 0 {
					j.Opts = append(j.Opts, opt{"--format", "JSON", true})
					j.Probe = "json_rect"
					j.InProc = &inproc{Opts: set, Table: "f.csv"}
				}
				jobs = append(jobs, j)
			}
		}
	}
	return jobs
}

// ---------------------------------------------------------------- stale control files × wait timeouts

func lockJobs() []*job {
	var jobs []*job
	controls := []fileSpec{{Name: ".t.csv.lock"}, {Name: ".t.csv.rlock.c19"}, {Name: ".t.csv.temp"}, {Name: ".t.csv.lock", Kind: "dir"}, {Name: ".t.csv.lock", Kind: "symlink", Data: []byte("nowhere")},
		{Name: ".new.csv.lock"}, {Name: ".new.csv.temp"}, {Name: ".o.csv.lock"}}
	timeouts := []string{"0", "0.0", "-1", "-0.5", "0.0001", "1e-9", "0.05", "0.3"}
	ops := [][]string{
		{"SELECT * FROM t"}, {"SELECT * FROM t FOR UPDATE"}, {"UPDATE t SET c2 = 1"}, {"INSERT INTO t VALUES (1, 2, 3)"}, {"DELETE FROM t"}, {"ALTER TABLE t ADD z"},
		{"SELECT * FROM CSV(',', `t.csv`)"}, {"SELECT * FROM CSV_INLINE(',', `t.csv`)"}, {"SELECT * FROM u", "SELECT * FROM t"}, {"UPDATE u SET c2 = 1", "UPDATE t SET c2 = 1"},
		{"CREATE TABLE `new.csv` (a)"}, {"CREATE TABLE `new.csv` (a) AS SELECT * FROM t"}, {"SHOW FIELDS FROM t"}, {"SOURCE `t.csv`"},
	}
	for _, c := range controls {
		for _, to := range timeouts {
			for _, op := range ops {
				kind := c.Kind
				if kind == "" {
					kind = "file"
				}
				j := &job{Group: "lock", Tags: []string{"lock:" + c.Name + " (" + kind + ")", "wait-timeout:" + to}, Files: append(append([]fileSpec{}, fixtures()...), c),
					Opts: []opt{{"--wait-timeout", to, true}}, Stmts: op, Timeout: 20 * time.Second}
				if strings.HasPrefix(c.Name, ".o.csv") {
					j.Opts = append(j.Opts, opt{"--out", "o.csv", true})
				}
				jobs = append(jobs, j)
			}
		}
	}
	// the same through SET @@WAIT_TIMEOUT
	for _, to := range timeouts {
		jobs = append(jobs, &job{Group: "lock", Tags: []string{"lock:.t.csv.lock (file)", "wait-timeout:SET " + to}, Files: append(append([]fileSpec{}, fixtures()...), controls[0]),
			Stmts: []string{"SET @@WAIT_TIMEOUT TO " + to, "UPDATE t SET c2 = 1"}})
	}
	return jobs
}
