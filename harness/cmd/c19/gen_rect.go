package main

// "Every table it loads is rectangular" as a run-time law at the place a table is LOADED.
//
// rectGrid (in-process, once per stream): generated table sources are loaded through the exported loader
// query.LoadView (the call query.Select makes for its FROM clause — before any SELECT list, WHERE or encoder touches the
// records) and lib/json's LoadTable; after EVERY successful load
//
//	len(record) == len(header)   for every record                         law loaded_table_not_rectangular
//
// with the bytes of the source, the import options and the table expression as replay.  Sources:
//
//	JSON arrays of objects whose key sets GROW (a new key first appearing at element 2, 3, the last; at the front, in the
//	middle, at the end of the object; twice), SHRINK, REORDER, are disjoint, empty ({}), repeat a key, hold nested objects /
//	arrays — bare and wrapped ({"data": [...]}), with the json-queries "", [], {}, {a, c}, data, data[], data{} …;
//	the same key sequences as JSON Lines and as LTSV labels; CSV / TSV lines whose field counts grow / shrink (with and
//	without --allow-uneven-fields, --no-header, --without-null); fixed-length lines of changing length;
//	each as a file (by extension and through the table function), as JSON_TABLE / JSON_INLINE / CSV_INLINE text and on STDIN.
//
// After the law the ordinary statements run on the same source under recover (SELECT *, the late column, WHERE on it, JSON
// output): a recovered panic is law internal_panic, confirmed on the binary through the normal queue (group "rect").

import (
	"bytes"
	"context"
	"fmt"
	"io"
	"os"
	"path/filepath"
	"sort"
	"strings"

	cjson "github.com/mithrandie/csvq/lib/json"
	"github.com/mithrandie/csvq/lib/option"
	"github.com/mithrandie/csvq/lib/parser"
	"github.com/mithrandie/csvq/lib/query"

	"verifharness/hc"
)

type rectSource struct {
	shape  string // name of the key-set sequence
	format string // JSON JSONL LTSV CSV TSV FIXED
	data   string
	late   string // a column that first appears in a later element ("" = none)
}

// keySeqs: sequences of key lists (one list per array element / line)
var keySeqs = []struct {
	name string
	rows [][]string
	late string
}{
	{"homogeneous", [][]string{{"a", "b"}, {"a", "b"}, {"a", "b"}}, ""},
	{"grow at element 2", [][]string{{"a", "b"}, {"a", "b", "c"}}, "c"},
	{"grow at element 3", [][]string{{"a", "b"}, {"a", "b"}, {"a", "b", "c"}}, "c"},
	{"grow at the last of 5", [][]string{{"a", "b"}, {"a", "b"}, {"a", "b"}, {"a", "b"}, {"a", "b", "c"}}, "c"},
	{"grow at element 2, then homogeneous", [][]string{{"a", "b"}, {"a", "b", "c"}, {"a", "b", "c"}}, "c"},
	{"grow twice", [][]string{{"a"}, {"a", "b"}, {"a", "b", "c"}}, "c"},
	{"grow at the front of the object", [][]string{{"a", "b"}, {"c", "a", "b"}}, "c"},
	{"grow in the middle of the object", [][]string{{"a", "b"}, {"a", "c", "b"}}, "c"},
	{"grow by two keys", [][]string{{"a"}, {"a", "b", "c"}, {"a"}}, "c"},
	{"shrink", [][]string{{"a", "b", "c"}, {"a", "b"}}, ""},
	{"shrink twice", [][]string{{"a", "b", "c"}, {"a", "b"}, {"a"}}, ""},
	{"shrink to empty", [][]string{{"a", "b"}, {}}, ""},
	{"shrink then grow", [][]string{{"a", "b"}, {"a"}, {"a", "b", "c"}}, "c"},
	{"reorder", [][]string{{"a", "b"}, {"b", "a"}}, ""},
	{"rotate", [][]string{{"a", "b", "c"}, {"c", "a", "b"}, {"b", "c", "a"}}, ""},
	{"reorder and grow", [][]string{{"a", "b"}, {"b", "a", "c"}}, "c"},
	{"same length, other key", [][]string{{"a", "b"}, {"a", "c"}}, "c"},
	{"disjoint", [][]string{{"a"}, {"b"}, {"c"}}, "c"},
	{"empty first", [][]string{{}, {"a", "b"}}, "b"},
	{"all empty", [][]string{{}, {}}, ""},
	{"single", [][]string{{"a", "b"}}, ""},
	{"repeated key", [][]string{{"a", "a"}, {"a", "b"}}, "b"},
	{"repeated key later", [][]string{{"a", "b"}, {"a", "b", "a"}}, ""},
	{"repeated key and grow", [][]string{{"a", "b"}, {"a", "a", "b", "c"}}, "c"},
}

func jsonObj(keys []string, row int, nested bool) string {
	var parts []string
	for k, key := range keys {
		v := fmt.Sprintf("%d", row*10+k)
		switch {
		case nested && k == 0:
			v = fmt.Sprintf(`{"x":%d,"y":{"z":[]}}`, row)
		case nested && k == 1:
			v = `[1,{"q":2}]`
		case (row+k)%4 == 1:
			v = fmt.Sprintf(`"s%d"`, row)
		case (row+k)%4 == 2:
			v = "null"
		}
		parts = append(parts, fmt.Sprintf("%q:%s", key, v))
	}
	return "{" + strings.Join(parts, ",") + "}"
}

func rectSources() []rectSource {
	var out []rectSource
	for _, ks := range keySeqs {
		for _, nested := range []bool{false, true} {
			var objs []string
			for i, keys := range ks.rows {
				objs = append(objs, jsonObj(keys, i+1, nested))
			}
			nm := ks.name
			if nested {
				nm += ", nested values"
			}
			out = append(out, rectSource{nm, "JSON", "[" + strings.Join(objs, ",") + "]", ks.late})
			out = append(out, rectSource{nm + ", wrapped", "JSON", `{"n":1,"data":[` + strings.Join(objs, ",\n ") + `],"tail":{}}`, ks.late})
			out = append(out, rectSource{nm, "JSONL", strings.Join(objs, "\n") + "\n", ks.late})
		}
		// the same sequences as LTSV labels and as delimited lines (field COUNTS grow / shrink; the first line is the header)
		var ltsv, csv, tsv, fixed []string
		for i, keys := range ks.rows {
			var l, c []string
			for k, key := range keys {
				l = append(l, fmt.Sprintf("%s:%d", key, (i+1)*10+k))
				c = append(c, fmt.Sprintf("%s%d", key, i))
			}
			ltsv = append(ltsv, strings.Join(l, "\t"))
			csv = append(csv, strings.Join(c, ","))
			tsv = append(tsv, strings.Join(c, "\t"))
			fixed = append(fixed, strings.Join(c, "   "))
		}
		out = append(out, rectSource{ks.name, "LTSV", strings.Join(ltsv, "\n") + "\n", ks.late})
		out = append(out, rectSource{ks.name, "CSV", strings.Join(csv, "\n") + "\n", ""})
		out = append(out, rectSource{ks.name, "TSV", strings.Join(tsv, "\n") + "\n", ""})
		out = append(out, rectSource{ks.name, "FIXED", strings.Join(fixed, "\n") + "\n", ""})
	}
	return out
}

type rectRoute struct {
	name  string
	opts  []opt  // session options
	file  string // file name written ("" = none)
	stdin bool
	from  string // the table expression of the FROM clause
}

func sqlQuote(s string) string { return "'" + strings.ReplaceAll(strings.ReplaceAll(s, `\`, `\\`), "'", `\'`) + "'" }

func rectRoutes(s rectSource) []rectRoute {
	var rs []rectRoute
	bools := func(flags ...string) []opt {
		var o []opt
		for _, f := range flags {
			o = append(o, opt{f, "", false})
		}
		return o
	}
	switch s.format {
	case "JSON":
		wrapped := strings.HasPrefix(s.data, "{")
		qs := []string{"", "[]", "{}", "{a, c}", "{c}", "[0]", "[1]"}
		if wrapped {
			qs = []string{"data", "data[]", "data{}", "data{a, c}", "data[1]"}
		}
		for _, q := range qs {
			rs = append(rs, rectRoute{"file, --json-query " + q, []opt{{"--json-query", q, true}}, "t.json", false, "`t.json`"})
			rs = append(rs, rectRoute{"JSON() " + q, nil, "t.json", false, "JSON(" + sqlQuote(q) + ", `t.json`)"})
			rs = append(rs, rectRoute{"JSON_TABLE " + q, nil, "", false, "JSON_TABLE(" + sqlQuote(q) + ", " + sqlQuote(s.data) + ")"})
			rs = append(rs, rectRoute{"JSON_INLINE " + q, nil, "", false, "JSON_INLINE(" + sqlQuote(q) + ", " + sqlQuote(s.data) + ")"})
			rs = append(rs, rectRoute{"JSON_INLINE of a file " + q, nil, "t.json", false, "JSON_INLINE(" + sqlQuote(q) + ", `t.json`)"})
			rs = append(rs, rectRoute{"stdin, --json-query " + q, []opt{{"--import-format", "JSON", true}, {"--json-query", q, true}}, "", true, "STDIN"})
		}
		rs = append(rs, rectRoute{"file, other extension", []opt{{"--import-format", "JSON", true}}, "t.dat", false, "`t.dat`"})
	case "JSONL":
		for _, q := range []string{"", "{}", "{a, c}"} {
			rs = append(rs, rectRoute{"file, --json-query " + q, []opt{{"--json-query", q, true}}, "t.jsonl", false, "`t.jsonl`"})
			rs = append(rs, rectRoute{"JSONL() " + q, nil, "t.jsonl", false, "JSONL(" + sqlQuote(q) + ", `t.jsonl`)"})
			rs = append(rs, rectRoute{"stdin, --json-query " + q, []opt{{"--import-format", "JSONL", true}, {"--json-query", q, true}}, "", true, "STDIN"})
		}
	case "LTSV":
		rs = append(rs, rectRoute{"file", nil, "t.ltsv", false, "`t.ltsv`"})
		rs = append(rs, rectRoute{"file, --without-null", bools("--without-null"), "t.ltsv", false, "`t.ltsv`"})
		rs = append(rs, rectRoute{"LTSV()", nil, "t.ltsv", false, "LTSV(`t.ltsv`)"})
		rs = append(rs, rectRoute{"stdin", []opt{{"--import-format", "LTSV", true}}, "", true, "STDIN"})
	case "CSV", "TSV":
		ext, fn := ".csv", "CSV(',', `t.csv`)"
		if s.format == "TSV" {
			ext, fn = ".tsv", "CSV('\\t', `t.tsv`)"
		}
		for _, o := range [][]opt{nil, bools("--allow-uneven-fields"), bools("--no-header"), bools("--allow-uneven-fields", "--no-header"), bools("--allow-uneven-fields", "--without-null")} {
			rs = append(rs, rectRoute{"file " + optText(o), o, "t" + ext, false, "`t" + ext + "`"})
			rs = append(rs, rectRoute{"stdin " + optText(o), append([]opt{{"--import-format", s.format, true}}, o...), "", true, "STDIN"})
		}
		rs = append(rs, rectRoute{"table function", bools("--allow-uneven-fields"), "t" + ext, false, fn})
		if s.format == "CSV" {
			rs = append(rs, rectRoute{"CSV_INLINE", bools("--allow-uneven-fields"), "", false, "CSV_INLINE(',', " + sqlQuote(s.data) + ")"})
		}
	case "FIXED":
		for _, pos := range []string{"SPACES", "[2, 5]", "[1, 3, 9, 30]", "S[2, 4]"} {
			for _, o := range [][]opt{nil, bools("--no-header"), bools("--allow-uneven-fields")} {
				oo := append([]opt{{"--import-format", "FIXED", true}, {"--delimiter-positions", pos, true}}, o...)
				rs = append(rs, rectRoute{"file " + pos + " " + optText(o), oo, "t.txt", false, "`t.txt`"})
			}
			rs = append(rs, rectRoute{"FIXED() " + pos, nil, "t.txt", false, "FIXED(" + sqlQuote(pos) + ", `t.txt`)"})
		}
	}
	return rs
}

func optText(o []opt) string {
	var p []string
	for _, x := range o {
		if x.Has {
			p = append(p, x.Flag+" "+x.Val)
		} else {
			p = append(p, x.Flag)
		}
	}
	return strings.Join(p, " ")
}

var rectFlagOf = map[string]string{
	"--import-format": option.ImportFormatFlag, "--delimiter": option.DelimiterFlag, "--delimiter-positions": option.DelimiterPositionsFlag,
	"--encoding": option.EncodingFlag, "--no-header": option.NoHeaderFlag, "--allow-uneven-fields": option.AllowUnevenFieldsFlag,
	"--without-null": option.WithoutNullFlag, "--json-query": option.JsonQueryFlag,
}

type nopReadCloser struct{ io.Reader }

func (nopReadCloser) Close() error { return nil }

// loadOnly: the FROM clause of `SELECT * FROM <from>` through query.LoadView, nothing else.  outcome: ok | err | panic
func loadOnly(p *hc.Proc, from string) (outcome string, header int, bad int, badLen int, msg string) {
	defer func() {
		if e := recover(); e != nil {
			outcome, msg = "panic", fmt.Sprint(e)
		}
	}()
	stmts, _, err := parser.Parse("SELECT * FROM "+from, "", false, false)
	if err != nil || len(stmts) != 1 {
		return "parse", 0, -1, 0, fmt.Sprint(err)
	}
	sq, ok := stmts[0].(parser.SelectQuery)
	if !ok {
		return "parse", 0, -1, 0, ""
	}
	ent, ok := sq.SelectEntity.(parser.SelectEntity)
	if !ok {
		return "parse", 0, -1, 0, ""
	}
	fc, ok := ent.FromClause.(parser.FromClause)
	if !ok {
		return "parse", 0, -1, 0, ""
	}
	sc := p.P.ReferenceScope.CreateNode()
	defer sc.CloseCurrentNode()
	view, err := query.LoadView(context.Background(), sc, fc.Tables, false, false)
	if err != nil {
		if hc.ErrNum(err) == query.ErrorFatal {
			return "fatal", 0, -1, 0, err.Error()
		}
		return "err", 0, -1, 0, err.Error()
	}
	n := view.FieldLen()
	for i, rec := range view.RecordSet {
		if len(rec) != n {
			return "ok", n, i, len(rec), ""
		}
	}
	return "ok", n, -1, 0, ""
}

func rectGrid(o *hc.Out) []*job {
	var jobs []*job
	seenLaw := map[string]bool{}
	seenPanic := map[string]bool{}
	base := filepath.Join(scratch, "rect")
	must(os.MkdirAll(base, 0o755))
	defer os.RemoveAll(base)
	loads, okLoads := 0, 0
	shapes := map[string]bool{}
	for _, s := range rectSources() {
		shapes[s.format+": "+s.shape] = true
		// lib/json on its own: LoadTable is what every JSON route ends in
		if s.format == "JSON" {
			for _, q := range []string{"", "[]", "{}", "data", "data[]", "data{}"} {
				func() {
					defer func() {
						if e := recover(); e != nil {
							if !seenPanic["LoadTable"] {
								seenPanic["LoadTable"] = true
								o.Law("internal_panic", map[string]interface{}{"grid": "loaded tables", "call": "json.LoadTable(" + fmt.Sprintf("%q", q) + ", <json text>)", "json_text": s.data, "stderr": fmt.Sprint(e),
									"reproduce": "csvq " + shellQuote("SELECT * FROM JSON_INLINE("+sqlQuote(q)+", "+sqlQuote(s.data)+")")})
							}
						}
					}()
					o.Eval()
					h, rows, _, err := cjson.LoadTable(q, s.data)
					if err != nil {
						return
					}
					for i, r := range rows {
						if len(r) != len(h) {
							key := "LoadTable"
							o.Count("rect_violation:json.LoadTable")
							if !seenLaw[key] {
								seenLaw[key] = true
								o.Law("loaded_table_not_rectangular", map[string]interface{}{"loader": "lib/json LoadTable (exported API)", "json_query": q, "file_bytes": s.data, "key_sets": s.shape,
									"header_fields": len(h), "header": h, "record": i + 1, "record_fields": len(r),
									"command":   "csvq -f JSON " + shellQuote("SELECT * FROM JSON_INLINE("+sqlQuote(q)+", "+sqlQuote(s.data)+")"),
									"reproduce": "csvq -f JSON " + shellQuote("SELECT * FROM JSON_INLINE("+sqlQuote(q)+", "+sqlQuote(s.data)+")") + "   (directly: json.LoadTable returns a header of " + fmt.Sprint(len(h)) + " fields and a record of " + fmt.Sprint(len(r)) + ")"})
							}
							break
						}
					}
				}()
			}
		}
		for _, rt := range rectRoutes(s) {
			d := filepath.Join(base, fmt.Sprintf("r%d", loads))
			must(os.MkdirAll(d, 0o755))
			if rt.file != "" {
				must(os.WriteFile(filepath.Join(d, rt.file), []byte(s.data), 0o644))
			}
			p := hc.NewProc(d)
			bad := false
			for _, x := range rt.opts {
				var v interface{} = x.Val
				if !x.Has {
					v = true
				}
				if err := p.P.Tx.SetFlag(rectFlagOf[x.Flag], v); err != nil {
					bad = true
				}
			}
			if bad {
				p.Close()
				_ = os.RemoveAll(d)
				continue
			}
			if rt.stdin {
				_ = p.P.Tx.Session.SetStdin(nopReadCloser{bytes.NewReader([]byte(s.data))})
			}
			loads++
			o.Eval()
			o.Count("rect_route:" + s.format + " " + strings.SplitN(rt.name, " ", 2)[0])
			outcome, hn, badRec, badLen, msg := loadOnly(p, rt.from)
			o.Count("rect_outcome:" + outcome)
			if outcome == "parse" {
				o.Count("rect_parse_error:" + s.format + " " + rt.name + ": " + trunc(msg, 80))
			}
			mk := func(stmts ...string) *job {
				j := &job{Group: "rect", Tags: []string{"rect:" + s.format, "rect-shape:" + s.shape}, Opts: append([]opt{}, rt.opts...), Stmts: stmts}
				if rt.file != "" {
					j.Files = []fileSpec{{Name: rt.file, Data: []byte(s.data)}}
				}
				if rt.stdin {
					j.HasStdin, j.Stdin = true, []byte(s.data)
				}
				return j
			}
			cmdline := func(stmt string) string { return repro(mk(stmt)) }
			switch {
			case outcome == "panic" || outcome == "fatal":
				key := "load|" + s.format
				if !seenPanic[key] {
					seenPanic[key] = true
					o.Law("internal_panic", map[string]interface{}{"grid": "loaded tables", "statement": "SELECT * FROM " + rt.from, "outcome": outcome, "stderr": msg, "file_bytes": s.data,
						"command": cmdline("SELECT * FROM " + rt.from), "reproduce": cmdline("SELECT * FROM "+rt.from) + "   (in-process: query.LoadView of the FROM clause under recover)"})
					jobs = append(jobs, mk("SELECT * FROM "+rt.from))
				}
			case outcome == "ok" && badRec >= 0:
				o.Count("rect_violation:" + s.format)
				key := "rect|" + s.format
				if !seenLaw[key] {
					seenLaw[key] = true
					o.Law("loaded_table_not_rectangular", map[string]interface{}{"loader": "query.LoadView (exported API), route: " + rt.name, "format": s.format, "options": optText(rt.opts), "table": rt.from,
						"file_bytes": s.data, "key_sets": s.shape, "header_fields": hn, "record": badRec + 1, "record_fields": badLen,
						"command":   cmdline("SELECT * FROM " + rt.from),
						"reproduce": cmdline("SELECT * FROM "+rt.from) + "   (directly: the view query.LoadView returns has a header of " + fmt.Sprint(hn) + " fields and record " + fmt.Sprint(badRec+1) + " has " + fmt.Sprint(badLen) + ")"})
					j := mk("SELECT * FROM " + rt.from)
					j.Opts = append(j.Opts, opt{"--format", "JSON", true})
					j.Probe = "json_rect"
					jobs = append(jobs, j)
				}
			}
			if outcome == "ok" {
				okLoads++
				// the statements that read the loaded records
				stmts := []string{"SELECT * FROM " + rt.from, "SELECT COUNT(*) FROM " + rt.from + " WHERE `1` IS NOT NULL"}
				if s.late != "" {
					stmts = append(stmts, "SELECT `"+s.late+"` FROM "+rt.from, "SELECT * FROM "+rt.from+" WHERE `"+s.late+"` IS NULL", "SELECT * FROM "+rt.from+" ORDER BY `"+s.late+"`")
				}
				for _, st := range stmts {
					if rt.stdin {
						_ = p.P.Tx.Session.SetStdin(nopReadCloser{bytes.NewReader([]byte(s.data))})
					}
					cls, emsg := execRecovered(p, st)
					o.Eval()
					if cls == "fatal" || cls == "panic" {
						key := "stmt|" + s.format
						o.Count("rect_statement_fatal:" + s.format)
						if !seenPanic[key] {
							seenPanic[key] = true
							o.Law("internal_panic", map[string]interface{}{"grid": "loaded tables", "statement": st, "outcome": cls, "stderr": emsg, "file_bytes": s.data, "key_sets": s.shape,
								"command": cmdline(st), "reproduce": cmdline(st) + "   (in-process: the same statement through query.Processor.Execute under recover)"})
							jobs = append(jobs, mk(st))
						}
						break
					}
				}
			}
			p.Close()
			_ = os.RemoveAll(d)
		}
	}
	o.Stats["rect_grid_loads"] += loads
	o.Stats["rect_grid_successful_loads"] += okLoads
	var names []string
	for k := range shapes {
		names = append(names, k)
	}
	sort.Strings(names)
	for _, k := range names {
		o.Count("rect_shape:" + k)
	}
	o.NonTrivial(fmt.Sprintf("rect grid: %d shapes", len(names)))
	return jobs
}

// execRecovered: one statement in-process; class ok | err | fatal | panic
func execRecovered(p *hc.Proc, sql string) (class string, msg string) {
	defer func() {
		if e := recover(); e != nil {
			class, msg = "panic", fmt.Sprint(e)
		}
	}()
	_, err := p.Exec(sql)
	switch {
	case err == nil:
		return "ok", ""
	case hc.ErrNum(err) == query.ErrorFatal:
		return "fatal", err.Error()
	}
	return "err", err.Error()
}
