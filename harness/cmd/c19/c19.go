// c19 — process-level exploration of the REAL csvq binary (env VERIF_CSVQ) for property C19:
// whatever program, data, options or file-system state, csvq ends with exit code 0 or a documented
// error message and code; never `Fatal Error`, a Go panic or a hang; every loaded table is rectangular.
//
// Streams (all randomness from the one seeded hc.Gen; jobs are generated sequentially and then run by a
// pool of worker processes, results are judged in generation order):
//
//	data    arbitrary / mutated bytes × format × delimiter / positions / encoding / no-header /
//	        allow-uneven-fields / without-null / json-query, as file, as table object and on stdin;
//	        rectangularity probed on the `-f JSON` output and directly on the loaded view (in-process)
//	fn      every key of query.Functions with 0..5 boundary arguments, `SELECT fn(..)` and
//	        `SELECT fn(col..) FROM big` (200 rows, --cpu 4); aggregate, analytic and user-defined functions
//	clause  every clause / operator / statement kind of the manual with holes filled from the boundary pool
//	fs      missing file, directory / dangling symlink / symlink loop / FIFO in place of a file, unwritable
//	        targets for -o and CREATE TABLE, removed working directory, stale lock files
//
// Oracle (laws on the implementation alone): exit code documented; no `Fatal Error`, `panic:`,
// `goroutine `, `runtime error` in the output; wall-clock bound; rectangular output.  A failure is
// classified into a stable law name, shrunk, and reported with a minimal shell reproducer.
package main

import (
	"bytes"
	"encoding/json"
	"fmt"
	"os"
	"os/exec"
	"path/filepath"
	"regexp"
	"runtime"
	"sort"
	"strings"
	"sync"
	"syscall"
	"time"

	"verifharness/hc"
)

func main() {
	if os.Getenv("C19_INPROC_SPEC") != "" {
		inprocChild() // child mode of the in-process function fuzzer (inproc.go)
		return
	}
	hc.Main(run)
}

func must(err error) {
	if err != nil {
		panic(err)
	}
}

// ---------------------------------------------------------------- jobs

type fileSpec struct {
	Name string
	Gen  string // a shell command that writes the same bytes to stdout (reproducers of large generated files)
	Data []byte
	Kind string // "" regular file | "dir" | "symlink" (Data = target) | "fifo" | "fifo_writer" (Data written by a late writer)
}

type opt struct {
	Flag string // e.g. --delimiter
	Val  string // "" + !HasVal = boolean switch
	Has  bool
}

type callSpec struct {
	Pre, Post string   // program = Pre + strings.Join(Args, ", ") + Post
	Args      []string // SQL text of each argument
}

type job struct {
	Group      string
	Tags       []string
	Files      []fileSpec
	Opts       []opt    // removable command-line options
	Fixed      []string // non-removable leading arguments (sub-command …)
	Stmts      []string // program = statements joined by "; " (when Call == nil)
	Call       *callSpec
	Stdin      []byte
	HasStdin   bool
	RemovedCwd bool
	Allow      []int // exit codes the PROGRAM asks for (EXIT n, TRIGGER ERROR n)
	Timeout    time.Duration
	Env        []string // KEY=VALUE set for the child, "-KEY" = unset (HOME, TMPDIR …); "%d" in a value is the run's directory
	Stdio      string   // shell redirections of the child's standard streams, e.g. "<&-" (stdin closed), ">&-", ">/dev/full"
	SmallLimit bool   // run under smallLimitKB instead of the 3 GB limit (reproducers of endless nesting)
	BlockOK    bool   // a timeout is the documented behaviour of the OS object (FIFO without writer), not a law
	Probe      string // "json_rect": stdout must be a JSON array of objects with identical key lists
	InProc     *inproc
	PtyCols    int // standard input is a pseudo-terminal of that many columns (-1: the 0 x 0 winsize of a fresh pty); 0 = not a terminal
}

func (j *job) program() string {
	if j.Call != nil {
		return j.Call.Pre + strings.Join(j.Call.Args, ", ") + j.Call.Post
	}
	return strings.Join(j.Stmts, "; ")
}

func (j *job) argv() []string {
	var a []string
	for _, o := range j.Opts {
		a = append(a, o.Flag)
		if o.Has {
			a = append(a, o.Val)
		}
	}
	a = append(a, j.Fixed...)
	if j.Call != nil || j.Stmts != nil {
		a = append(a, j.program())
	}
	return a
}

func (j *job) clone() *job {
	c := *j
	c.Files = append([]fileSpec{}, j.Files...)
	c.Opts = append([]opt{}, j.Opts...)
	c.Stmts = append([]string(nil), j.Stmts...)
	if j.Call != nil {
		cc := *j.Call
		cc.Args = append([]string{}, j.Call.Args...)
		c.Call = &cc
	}
	return &c
}

type result struct {
	rc       int
	stdout   string
	stderr   string
	timedOut bool
}

func (r result) all() string { return r.stdout + "\n" + r.stderr }

// ---------------------------------------------------------------- running one job

// every child runs under an address-space limit: a program that asks for gigabytes (LPAD(s, 2147483647, 'x'))
// must not take the machine down; running out of memory under the limit is counted, not reported as a law
const hangBound = 20 * time.Second

const limitSh = "ulimit -v 3000000; "

// smallLimitKB: an address-space limit just above what the csvq binary needs to start (probed at the start of a
// run): under it a program that nests without end meets the Go runtime's fatal failure within a second or two
var smallLimitKB = 1000000

func (j *job) limit() string {
	if j.SmallLimit {
		return fmt.Sprintf("ulimit -v %d; ", smallLimitKB)
	}
	return limitSh
}

func probeSmallLimit() {
	for _, kb := range []int{800000, 1000000, 1500000, 2000000} {
		ok := true
		for t := 0; t < 3 && ok; t++ {
			cmd := exec.Command("/bin/sh", "-c", fmt.Sprintf("ulimit -v %d; ", kb)+`exec "$@"`, "sh", bin, "SELECT 1")
			cmd.Env = []string{"HOME=" + scratch, "PATH=/usr/bin:/bin"}
			cmd.Dir = scratch
			ok = cmd.Run() == nil
		}
		if ok {
			smallLimitKB = kb
			return
		}
	}
	smallLimitKB = 3000000
}

var (
	bin     string
	scratch string
	dirSeq  int64
	dirMu   sync.Mutex
)

func freshDir() string {
	dirMu.Lock()
	dirSeq++
	n := dirSeq
	dirMu.Unlock()
	d := filepath.Join(scratch, fmt.Sprintf("c19-%d", n))
	_ = os.RemoveAll(d)
	must(os.MkdirAll(d, 0o755))
	return d
}

func materialise(d string, files []fileSpec) (late []fileSpec) {
	for _, f := range files {
		p := filepath.Join(d, f.Name)
		if dir := filepath.Dir(p); dir != d {
			_ = os.MkdirAll(dir, 0o755)
		}
		switch f.Kind {
		case "":
			must(os.WriteFile(p, f.Data, 0o644))
		case "dir":
			must(os.MkdirAll(p, 0o755))
		case "symlink":
			must(os.Symlink(string(f.Data), p))
		case "fifo":
			must(syscall.Mkfifo(p, 0o644))
		case "fifo_writer":
			must(syscall.Mkfifo(p, 0o644))
			late = append(late, f)
		default:
			panic("unknown file kind " + f.Kind)
		}
	}
	return
}

func execJob(j *job) result {
	d := freshDir()
	defer os.RemoveAll(d)
	late := materialise(d, j.Files)
	args := j.argv()
	var cmd *exec.Cmd
	if j.RemovedCwd {
		gone := filepath.Join(d, "gone")
		must(os.Mkdir(gone, 0o755))
		sh := j.limit() + `cd "$1" && rmdir "$1" && shift && exec "$@" ` + j.Stdio
		cmd = exec.Command("/bin/sh", append([]string{"-c", sh, "sh", gone, bin}, args...)...)
		cmd.Dir = d
	} else {
		cmd = exec.Command("/bin/sh", append([]string{"-c", j.limit() + `exec "$@" ` + j.Stdio, "sh", bin}, args...)...)
		cmd.Dir = d
	}
	env := map[string]string{"HOME": d, "PATH": "/usr/bin:/bin", "TZ": "UTC", "LANG": "C"}
	for _, e := range j.Env {
		if strings.HasPrefix(e, "-") {
			delete(env, e[1:])
		} else if i := strings.IndexByte(e, '='); i > 0 {
			env[e[:i]] = strings.ReplaceAll(e[i+1:], "%d", d)
		}
	}
	cmd.Env = nil
	for _, k := range []string{"HOME", "PATH", "TZ", "LANG", "TMPDIR", "XDG_CONFIG_HOME", "CSVQ_REPOSITORY"} {
		if v, ok := env[k]; ok {
			cmd.Env = append(cmd.Env, k+"="+v)
		}
	}
	if cmd.Env == nil {
		cmd.Env = []string{"C19_EMPTY_ENV=1"}
	}
	var so, se bytes.Buffer
	cmd.Stdout, cmd.Stderr = &so, &se
	if j.HasStdin {
		cmd.Stdin = bytes.NewReader(j.Stdin)
	}
	if j.PtyCols != 0 && ptyAvailable {
		if m, s, err := openPty(j.PtyCols); err == nil {
			cmd.Stdin = s
			defer m.Close()
			defer s.Close()
		}
	}
	cmd.SysProcAttr = &syscall.SysProcAttr{Setpgid: true}
	to := j.Timeout
	if to == 0 {
		to = 20 * time.Second
	}
	must(cmd.Start())
	writers := make(chan bool, len(late))
	for _, f := range late {
		f := f
		go func() {
			defer func() { writers <- true }()
			// blocks until csvq (or the clean-up below) opens the read end
			w, err := os.OpenFile(filepath.Join(d, f.Name), os.O_WRONLY, 0)
			if err != nil {
				return
			}
			_, _ = w.Write(f.Data)
			_ = w.Close()
		}()
	}
	defer func() {
		for _, f := range late {
			// release a writer csvq never met
			if rf, err := os.OpenFile(filepath.Join(d, f.Name), os.O_RDONLY|syscall.O_NONBLOCK, 0); err == nil {
				defer rf.Close()
			}
		}
		for range late {
			select {
			case <-writers:
			case <-time.After(2 * time.Second):
			}
		}
	}()
	done := make(chan error, 1)
	go func() { done <- cmd.Wait() }()
	r := result{}
	select {
	case err := <-done:
		if err == nil {
			r.rc = 0
		} else if ee, ok := err.(*exec.ExitError); ok {
			r.rc = ee.ExitCode()
			if ws, ok := ee.Sys().(syscall.WaitStatus); ok && ws.Signaled() {
				r.rc = 128 + int(ws.Signal())
			}
		} else {
			r.rc = -1
		}
	case <-time.After(to):
		_ = syscall.Kill(-cmd.Process.Pid, syscall.SIGKILL)
		<-done
		r.rc = -2
		r.timedOut = true
	}
	r.stdout, r.stderr = so.String(), se.String()
	return r
}

// ---------------------------------------------------------------- oracle

var documented = map[int]bool{0: true, 1: true, 2: true, 4: true, 8: true, 16: true, 32: true, 64: true}

var (
	reFrame   = regexp.MustCompile(`(?m)^\s+\d+: (\S+) \[`)                     // frames of csvq's own Fatal Error report
	rePanicFn = regexp.MustCompile(`(?m)^(github\.com/mithrandie/[^\s(]+)\(`)     // frames of a raw Go trace
	reFatalL1 = regexp.MustCompile(`\[Fatal Error\] ([^\n]*)`)
)

func short(fn string) string {
	fn = strings.TrimPrefix(fn, "github.com/mithrandie/csvq/lib/")
	fn = strings.TrimPrefix(fn, "github.com/mithrandie/")
	fn = strings.NewReplacer("(*", "", ")", "").Replace(fn)
	return fn
}

// firstOwnFrame: the innermost frame of csvq or its own libraries below the runtime's panic machinery
// (frames are listed innermost first; standard-library frames such as strings.Repeat are skipped).
func firstOwnFrame(frames []string) string {
	// skip the recovering closure(s) and the runtime's panic machinery that follows them (one contiguous block)
	start := 0
	for start < len(frames) && start < 4 && !strings.HasPrefix(frames[start], "runtime.") {
		start++
	}
	if start < len(frames) && strings.HasPrefix(frames[start], "runtime.") {
		for start < len(frames) && strings.HasPrefix(frames[start], "runtime.") {
			start++
		}
	} else {
		start = 0
	}
	if start >= len(frames) {
		start = 0
	}
	for _, f := range frames[start:] {
		if strings.HasPrefix(f, "github.com/mithrandie/") {
			return short(f)
		}
	}
	for _, f := range frames[start:] {
		if !strings.HasPrefix(f, "runtime.") {
			return short(f)
		}
	}
	return "unknown"
}

func has(tags []string, t string) bool {
	for _, x := range tags {
		if x == t {
			return true
		}
	}
	return false
}

// classify returns the law names the run violates (empty = clean ending) — most specific first.
func classify(j *job, r result) []string {
	laws, _ := judge(j, r)
	return laws
}

var reHugeInt = regexp.MustCompile(`\d{10,}`)
var rePlaceholder = regexp.MustCompile(`%[-+0# ]*\d*(\.\d*)?[a-zA-Z]`)
var reUnconditionalJoin = regexp.MustCompile("(?i)\\bFROM\\s+[^\\s,]+(\\s+\\w+)?\\s*,|CROSS\\s+JOIN")
var reSourceStmt = regexp.MustCompile(`(?i)(^|;)\s*SOURCE\b`)
var rePreparedExecute = regexp.MustCompile(`(?is)\bPREPARE\s+(\w+)\s+FROM\s+'[^']*\bEXECUTE\b`)

// a frame offset is clamped to the partition: `9223372036854775807 FOLLOWING` names no amount of work
var reFrameOffset = regexp.MustCompile(`(?i)\d+\s+(PRECEDING|FOLLOWING)`)
var reLargeQuantity = regexp.MustCompile(`\d{7,}|\d[eE]\+?\d{1,3}\b`)

// tagKind: the first tag of the job without its value part ("grammar:delimiter-positions s[]" → "grammar:delimiter-positions"),
// so that one defect reached with several values keeps one law name.
func tagKind(j *job) string {
	if len(j.Tags) == 0 {
		return j.Group
	}
	t := j.Tags[0]
	if i := strings.IndexByte(t, ' '); i > 0 {
		t = t[:i]
	}
	return t
}

// hugeRequest: the job itself names a large quantity (a number of 7+ digits, an exponent, a very long argument)
// or feeds csvq more than 32 KB: running out of 3 GB is then no evidence of a defect.
func hugeRequest(j *job) bool {
	for _, a := range j.argv() {
		// a width or precision inside a format placeholder is not a quantity of data: `%99999999999d` is a
		// 13-character string, and a formatter that allocates what it says is the defect
		if len(a) > 3000 || reLargeQuantity.MatchString(reFrameOffset.ReplaceAllString(rePlaceholder.ReplaceAllString(a, "%"), "n $1")) {
			return true
		}
	}
	if len(j.Stdin) > 32<<10 {
		return true
	}
	// a join without a condition squares the input: 5000 rows are 25 million records before LIMIT applies
	data := len(j.Stdin)
	for _, f := range j.Files {
		if f.Kind == "" && len(f.Data) > data && j.Group == "data" {
			data = len(f.Data)
		}
	}
	if data > 1<<10 && reUnconditionalJoin.MatchString(j.program()) {
		return true
	}
	for _, f := range j.Files {
		if f.Kind == "" && len(f.Data) > 32<<10 && j.usesFile(f.Name) {
			return true
		}
	}
	return false
}
var reHugeFrame = regexp.MustCompile(`(?i)\b\d{10,}\s+(PRECEDING|FOLLOWING)`)

// judge: the laws violated, and observations that are counted but are not violations of C19.
func judge(j *job, r result) (laws []string, notes []string) {
	out := r.all()
	if strings.Contains(out, "fatal error: out of memory") || strings.Contains(out, "fatal error: stack overflow") || strings.Contains(out, "stack exceeds") {
		// the Go runtime gave up while the STACK was growing: which construction nested without end is read off the
		// goroutine dump, not off the generator's tags (any other runtime fatal keeps its own law name below)
		nUDF := strings.Count(out, "query.(*UserDefinedFunction).Execute(")
		nStmt := strings.Count(out, "query.(*Processor).ExecuteStatement(")
		usesSource := false
		for _, a := range j.argv() {
			if a == "--source" || a == "-s" || reSourceStmt.MatchString(a) {
				usesSource = true
			}
		}
		switch {
		case strings.Count(out, "query.evalPlaceholder(") >= 5:
			// a placeholder in a USING list that reads itself (F118)
			return []string{"runtime_fatal:placeholder_in_using"}, nil
		case nUDF >= 5:
			return []string{"runtime_fatal:udf_recursion"}, nil
		case nStmt >= 10 && usesSource:
			return []string{"runtime_fatal:source_nesting"}, nil
		case nStmt >= 10 && rePreparedExecute.MatchString(j.program()):
			// a prepared statement whose text executes the statement itself (PREPARE st FROM 'EXECUTE st'; EXECUTE st)
			return []string{"runtime_fatal:prepared_self_execution"}, nil
		case j.SmallLimit:
			return nil, []string{"observed:run_under_the_small_limit_did_not_show_the_nesting(not a law)"}
		}
	}
	if strings.Contains(out, "out of memory") || strings.Contains(out, "cannot allocate memory") {
		if hugeRequest(j) {
			// the program asked for more memory than the harness allows a child (ulimit -v): resource exhaustion
			return nil, []string{"observed:out_of_memory_under_the_harness_limit(not a law)", "observed_oom:" + trunc(shJoin(j.argv()), 140)}
		}
		// 3 GB for a small program over small data that names no large quantity: unbounded growth
		return []string{"memory:unbounded_growth:" + tagKind(j)}, nil
	}
	if r.timedOut {
		if j.BlockOK {
			return nil, []string{"observed:blocked_on_fifo_without_writer(OS semantics, not a law)"}
		}
		if hugeRequest(j) {
			// the job names a large quantity (iterations, rows, widths) or feeds much data: long work is what it asks for
			return nil, []string{"observed:timeout_of_a_job_that_names_a_large_quantity(not a law)", "observed_timeout:" + trunc(shJoin(j.argv()), 140)}
		}
		prog := j.program()
		switch {
		case reHugeFrame.MatchString(prog):
			laws = append(laws, "hang:window_frame_huge_offset")
		default:
			laws = append(laws, "hang:"+tagKind(j))
		}
	}
	raw := strings.Contains(out, "panic:") || strings.Contains(out, "goroutine ") && strings.Contains(out, "[running]") ||
		strings.Contains(out, "fatal error:")
	if raw {
		var frames []string
		for _, m := range rePanicFn.FindAllStringSubmatch(out, -1) {
			frames = append(frames, m[1])
		}
		switch {
		case strings.Contains(out, "stack overflow") || strings.Contains(out, "stack exceeds"):
			laws = append(laws, "panic:stack_overflow:"+firstOwnFrame(frames))
		case strings.Contains(out, "created by github.com/mithrandie/csvq/lib/query.") && !strings.Contains(out, "fatal error:"):
			// a worker goroutine died outside any recover(): the guard `if !gm.HasError()` skipped it
			laws = append(laws, "panic:unrecovered_worker")
		default:
			laws = append(laws, "panic:other:"+firstOwnFrame(frames))
		}
	}
	if strings.Contains(out, "Fatal Error") {
		msg := ""
		if m := reFatalL1.FindStringSubmatch(out); m != nil {
			msg = m[1]
		}
		var frames []string
		for _, m := range reFrame.FindAllStringSubmatch(out, -1) {
			frames = append(frames, m[1])
		}
		ff := firstOwnFrame(frames)
		switch {
		case strings.Contains(ff, "execStringsPadding") && (strings.Contains(msg, "output length overflow") || strings.Contains(msg, "makeslice") ||
			strings.Contains(msg, "negative Repeat count") && reHugeInt.MatchString(strings.Join(j.argv(), " "))):
			laws = append(laws, "fatal:pad_length_overflow")
		case strings.Contains(msg, "negative Repeat count") && strings.Contains(ff, "execStringsPadding"):
			laws = append(laws, "fatal:lpad_empty_pad")
		case strings.Contains(msg, "nil pointer dereference") && strings.Contains(ff, "cacheViewFromFile"):
			if j.RemovedCwd {
				laws = append(laws, "fatal:nil_error_removed_cwd")
			} else {
				laws = append(laws, "fatal:nil_error:"+ff)
			}
		default:
			laws = append(laws, "fatal:other:"+ff)
		}
	} else if !raw && strings.Contains(out, "runtime error") {
		laws = append(laws, "runtime_error_text")
	}
	if !r.timedOut && !raw {
		ok := documented[r.rc]
		for _, a := range j.Allow {
			if r.rc == a&0xff {
				ok = true
			}
		}
		if !ok {
			laws = append(laws, fmt.Sprintf("exit_code:%d", r.rc))
		}
	}
	if j.Probe == "json_rect" && r.rc == 0 && len(laws) == 0 {
		switch why := jsonRect(r.stdout); why {
		case "":
		case "keys_differ":
			laws = append(laws, "nonrectangular:json_output")
		default:
			// malformed JSON on stdout is a defect of the encoder (property C02's ground), not of rectangularity
			notes = append(notes, "observed:json_output_"+why+"(not a C19 law)")
		}
	}
	return laws, notes
}

// jsonRect: "" if s is a JSON array of objects all having the same ordered key list.
func jsonRect(s string) string {
	dec := json.NewDecoder(strings.NewReader(s))
	dec.UseNumber()
	tok, err := dec.Token()
	if err != nil {
		if strings.TrimSpace(s) == "" {
			return ""
		}
		return "not_json"
	}
	if d, ok := tok.(json.Delim); !ok || d != '[' {
		return "not_array"
	}
	var first []string
	n := 0
	for dec.More() {
		var raw json.RawMessage
		if err := dec.Decode(&raw); err != nil {
			return "not_json"
		}
		keys, ok := topKeys(raw)
		if !ok {
			return "not_object"
		}
		if n == 0 {
			first = keys
		} else if strings.Join(keys, "\x00") != strings.Join(first, "\x00") {
			return "keys_differ"
		}
		n++
	}
	return ""
}

func topKeys(raw json.RawMessage) ([]string, bool) {
	dec := json.NewDecoder(bytes.NewReader(raw))
	tok, err := dec.Token()
	if err != nil {
		return nil, false
	}
	if d, ok := tok.(json.Delim); !ok || d != '{' {
		return nil, false
	}
	var keys []string
	for dec.More() {
		k, err := dec.Token()
		if err != nil {
			return nil, false
		}
		ks, ok := k.(string)
		if !ok {
			return nil, false
		}
		keys = append(keys, ks)
		var v json.RawMessage
		if err := dec.Decode(&v); err != nil {
			return nil, false
		}
	}
	return keys, true
}

// ---------------------------------------------------------------- reproducer text

func shq(s string) string {
	plain := true
	for _, c := range []byte(s) {
		if !(c >= 'a' && c <= 'z' || c >= 'A' && c <= 'Z' || c >= '0' && c <= '9' || strings.IndexByte("-_./=,:@%+", c) >= 0) {
			plain = false
		}
	}
	if plain && s != "" {
		return s
	}
	printable := true
	for _, c := range []byte(s) {
		if c < 0x20 || c >= 0x7f {
			printable = false
		}
	}
	if printable {
		return "'" + strings.ReplaceAll(s, "'", `'\''`) + "'"
	}
	return `"$(printf '` + printfEsc([]byte(s)) + `')"`
}

func printfEsc(b []byte) string {
	var sb strings.Builder
	for _, c := range b {
		switch {
		case c == '\\':
			sb.WriteString(`\\`)
		case c == '\'':
			sb.WriteString(`\047`)
		case c == '%':
			sb.WriteString(`%%`)
		case c == '\n':
			sb.WriteString(`\n`)
		case c == '\t':
			sb.WriteString(`\t`)
		case c < 0x20 || c >= 0x7f:
			fmt.Fprintf(&sb, `\%03o`, c)
		default:
			sb.WriteByte(c)
		}
	}
	return sb.String()
}

func (j *job) usesFile(name string) bool {
	base := strings.TrimSuffix(name, filepath.Ext(name))
	re, err := regexp.Compile(`(^|[^A-Za-z0-9_.])(` + regexp.QuoteMeta(name) + `|` + regexp.QuoteMeta(base) + `)([^A-Za-z0-9_]|$)`)
	for _, a := range j.argv() {
		if err == nil && base != "" && re.MatchString(a) || strings.Contains(a, name) {
			return true
		}
	}
	return false
}

func repro(j *job) string {
	var sb strings.Builder
	sb.WriteString(`cd "$(mktemp -d)"`)
	for _, f := range j.Files {
		if !j.usesFile(f.Name) && f.Kind == "" && !strings.HasPrefix(f.Name, ".") {
			continue // fixture table the program does not name
		}
		if dir := filepath.Dir(f.Name); dir != "." {
			sb.WriteString(" && mkdir -p " + shq(dir))
		}
		switch f.Kind {
		case "":
			d := f.Data
			if f.Gen != "" {
				sb.WriteString(" && " + f.Gen + " > " + shq(f.Name))
				continue
			}
			if f.Name == "big.csv" && isBig(d) {
				sb.WriteString(" && " + bigAwk + " > big.csv")
				continue
			}
			if len(d) > 1500 {
				sb.WriteString(fmt.Sprintf(" && : '%s: %d bytes, first 1500 shown'", f.Name, len(d)))
				d = d[:1500]
			}
			sb.WriteString(" && printf '" + printfEsc(d) + "' > " + shq(f.Name))
		case "dir":
			sb.WriteString(" && mkdir -p " + shq(f.Name))
		case "symlink":
			sb.WriteString(" && ln -s " + shq(string(f.Data)) + " " + shq(f.Name))
		case "fifo":
			sb.WriteString(" && mkfifo " + shq(f.Name))
		case "fifo_writer":
			sb.WriteString(" && mkfifo " + shq(f.Name) + " && (sleep 0.2; printf '" + printfEsc(f.Data) + "' > " + shq(f.Name) + ") &")
		}
	}
	if j.RemovedCwd {
		sb.WriteString(` && mkdir gone && cd gone && rmdir ../gone`)
	}
	sb.WriteString(" && ")
	if j.HasStdin {
		sb.WriteString("printf '" + printfEsc(j.Stdin) + "' | ")
	}
	for _, e := range j.Env {
		if strings.HasPrefix(e, "-") {
			sb.WriteString("env -u " + e[1:] + " ")
		} else {
			if strings.Contains(e, "%d") {
				sb.WriteString("env \"" + strings.ReplaceAll(e, "%d", "$PWD") + "\" ")
			} else {
				sb.WriteString("env " + shq(e) + " ")
			}
		}
	}
	if j.SmallLimit {
		// without the limit the same program meets the runtime's own stack limit (1 GB) after 10-20 s or more
		sb.WriteString(fmt.Sprintf("ulimit -v %d && ", smallLimitKB))
	}
	if j.PtyCols != 0 {
		// standard input is a terminal of that many columns
		var inner strings.Builder
		if j.PtyCols > 0 {
			inner.WriteString(fmt.Sprintf("stty cols %d; ", j.PtyCols))
		} else {
			inner.WriteString("stty cols 0 rows 0; ")
		}
		inner.WriteString("csvq")
		for _, a := range j.argv() {
			inner.WriteString(" " + shq(a))
		}
		sb.WriteString("script -qec " + shq(inner.String()) + " /dev/null")
		return sb.String()
	}
	sb.WriteString("csvq")
	for _, a := range j.argv() {
		sb.WriteString(" " + shq(a))
	}
	if j.Stdio != "" {
		sb.WriteString(" " + j.Stdio)
	} else if !j.HasStdin && (j.Group == "report" || j.Group == "rect") {
		sb.WriteString(" < /dev/null")
	}
	return sb.String()
}

func shJoin(args []string) string {
	q := make([]string, len(args))
	for i, a := range args {
		q[i] = shq(a)
	}
	return strings.Join(q, " ")
}

func trunc(s string, n int) string {
	if len(s) > n {
		return s[:n] + "…"
	}
	return s
}

// ---------------------------------------------------------------- shrinking

// shrink reduces j while some run of the candidate still violates `law` (tries: how often a candidate is
// run before it is rejected — > 1 for schedule-dependent failures).
func shrink(j *job, law string, tries int, budget int) *job {
	fails := func(c *job) bool {
		for t := 0; t < tries && budget > 0; t++ {
			budget--
			for _, l := range classify(c, execJob(c)) {
				if l == law {
					return true
				}
			}
		}
		return false
	}
	cur := j.clone()
	changed := true
	for changed && budget > 0 {
		changed = false
		// statements
		for i := 0; cur.Stmts != nil && i < len(cur.Stmts) && len(cur.Stmts) > 1; i++ {
			c := cur.clone()
			c.Stmts = append(c.Stmts[:i:i], c.Stmts[i+1:]...)
			if fails(c) {
				cur, changed = c, true
				i--
			}
		}
		// the items of a `SELECT a, b, c` list
		for si := 0; cur.Stmts != nil && si < len(cur.Stmts); si++ {
			head, items, ok := selectItems(cur.Stmts[si])
			for i := 0; ok && len(items) > 1 && i < len(items); i++ {
				c := cur.clone()
				rest := append(append([]string{}, items[:i]...), items[i+1:]...)
				c.Stmts[si] = head + strings.Join(rest, ", ")
				if fails(c) {
					cur, changed = c, true
					items = rest
					i--
				}
			}
		}
		// options
		for i := 0; i < len(cur.Opts); i++ {
			c := cur.clone()
			c.Opts = append(c.Opts[:i:i], c.Opts[i+1:]...)
			if fails(c) {
				cur, changed = c, true
				i--
			}
		}
		// call arguments: drop, then simplify
		if cur.Call != nil {
			for i := len(cur.Call.Args) - 1; i >= 0; i-- {
				c := cur.clone()
				c.Call.Args = append(c.Call.Args[:i:i], c.Call.Args[i+1:]...)
				if fails(c) {
					cur, changed = c, true
				}
			}
			for i := range cur.Call.Args {
				for _, simple := range []string{"NULL", "1", "'a'"} {
					if cur.Call.Args[i] == simple || len(cur.Call.Args[i]) <= len(simple) {
						continue
					}
					c := cur.clone()
					c.Call.Args[i] = simple
					if fails(c) {
						cur, changed = c, true
						break
					}
				}
			}
		}
		// stdin and data files: remove chunks
		if cur.HasStdin && len(cur.Stdin) > 0 {
			if d, ok := shrinkBytes(cur.Stdin, func(b []byte) bool { c := cur.clone(); c.Stdin = b; return fails(c) }); ok {
				cur.Stdin, changed = d, true
			}
		}
		for fi := range cur.Files {
			if cur.Files[fi].Kind != "" || len(cur.Files[fi].Data) == 0 || !cur.usesFile(cur.Files[fi].Name) || cur.Group != "data" {
				continue
			}
			fi := fi
			if d, ok := shrinkBytes(cur.Files[fi].Data, func(b []byte) bool { c := cur.clone(); c.Files[fi].Data = b; return fails(c) }); ok {
				cur.Files[fi].Data, changed = d, true
			}
		}
		if cur.RemovedCwd {
			c := cur.clone()
			c.RemovedCwd = false
			if fails(c) {
				cur, changed = c, true
			}
		}
	}
	return cur
}

// selectItems splits `SELECT a, b, c` (no FROM / clauses at the top level) into its items.
func selectItems(stmt string) (head string, items []string, ok bool) {
	if !strings.HasPrefix(strings.ToUpper(stmt), "SELECT ") {
		return "", nil, false
	}
	head, body := stmt[:7], stmt[7:]
	depth, start := 0, 0
	var quote byte
	for i := 0; i < len(body); i++ {
		c := body[i]
		switch {
		case quote != 0:
			if c == '\\' {
				i++
			} else if c == quote {
				quote = 0
			}
		case c == '\'' || c == '"' || c == '`':
			quote = c
		case c == '(':
			depth++
		case c == ')':
			depth--
		case c == ',' && depth == 0:
			items = append(items, strings.TrimSpace(body[start:i]))
			start = i + 1
		case depth == 0 && (c == ' ' || c == '\n') && i+6 <= len(body) && strings.EqualFold(body[i:i+6], " FROM "):
			return "", nil, false
		}
	}
	if quote != 0 || depth != 0 {
		return "", nil, false
	}
	items = append(items, strings.TrimSpace(body[start:]))
	return head, items, true
}

func shrinkBytes(b []byte, fails func([]byte) bool) ([]byte, bool) {
	any := false
	for chunk := len(b) / 2; chunk >= 1; chunk /= 2 {
		for i := 0; i+chunk <= len(b); {
			c := append(append([]byte{}, b[:i]...), b[i+chunk:]...)
			if fails(c) {
				b, any = c, true
			} else {
				i += chunk
			}
		}
		if len(b) > 4096 && chunk < 64 {
			break
		}
	}
	return b, any
}

// ---------------------------------------------------------------- main loop

func run(seed int64, n int, dir string, _ []string) {
	g := hc.NewGen(seed)
	o := hc.NewOut(dir)
	defer o.Close()
	bin, scratch = os.Getenv("VERIF_CSVQ"), os.Getenv("VERIF_SCRATCH")
	if bin == "" || scratch == "" {
		panic("VERIF_CSVQ and VERIF_SCRATCH must be set")
	}
	scratch = filepath.Join(scratch, "c19")
	must(os.MkdirAll(scratch, 0o755))
	defer os.RemoveAll(scratch)

	probeSmallLimit()
	probePty()
	workers := runtime.NumCPU()
	if workers > 32 {
		workers = 32
	}
	if workers < 2 {
		workers = 2
	}
	type found struct {
		j *job
		r result
	}
	firstOf := map[string]found{}
	var order []string
	t0 := time.Now()
	total := 0

	// rounds of at most roundSize generated cases: generate (sequential, seeded) → run (parallel) → judge (in
	// generation order) → forget; the corpus and the file-system conditions belong to the first round
	const roundSize = 20000
	for done := 0; done < n || done == 0; done += roundSize {
		budget := n - done
		if budget > roundSize {
			budget = roundSize
		}
		var jobs []*job
		{
			// the in-process function fuzzer first: its candidates are confirmed on the binary like any other job
			// (first round: exhaustive singles / pairs / triples + samples; later rounds: other samples only)
			ti := time.Now()
			ip := runInproc(seed, workers, done/roundSize)
			ncalls := 0
			for name, c := range ip.calls {
				o.Stats["inproc:"+name] += c
				ncalls += c
			}
			for i := 0; i < ncalls; i++ {
				o.Eval()
			}
			for a, c := range ip.arity {
				o.Stats["inproc_arity:"+a] += c
			}
			for a, c := range ip.outcomes {
				o.Stats["inproc_outcome:"+a] += c
			}
			for _, sg := range ip.sigs {
				o.NonTrivial(sg)
			}
			o.Stats["inproc_calls"] += ncalls
			o.Stats["inproc_candidates"] += len(ip.cands)
			o.Stats["inproc_child_restarts"] += ip.restarts
			o.Stats["observed:inproc_out_of_memory_under_the_harness_limit(not a law)"] += ip.oom
			for _, a := range ip.abandoned {
				o.Count("inproc_abandoned:" + a)
			}
			for _, c := range ip.cands {
				o.Count("inproc_candidate_kind:" + c.what)
				fr := c.frame
				if fr == "" {
					fr = "-"
				}
				o.Count("inproc_candidate_at:" + c.t.Name + "@" + fr)
			}
			cj := ip.confirmJobs()
			fmt.Fprintf(os.Stderr, "c19: in-process: %d calls of %d functions in %.1fs, %d candidates, %d confirmation jobs, %d child restarts\n",
				ncalls, len(ip.calls), time.Since(ti).Seconds(), len(ip.cands), len(cj), ip.restarts)
			jobs = append(jobs, cj...)
		}
		if done == 0 {
			// every function × every argument count through SQL text, in-process (gen_arity.go); fatal outcomes are confirmed on the binary
			jobs = append(jobs, arityGrid(o, seed)...)
			// FORMAT / PRINTF placeholders and LIMIT / OFFSET / WITH TIES / PERCENT, exhaustive over small ranges, in-process (gen_grid.go)
			jobs = append(jobs, formatGrid(o)...)
			jobs = append(jobs, limitGrid(o)...)
			// every loaded table is rectangular (gen_rect.go); titled reports x name lengths x screen widths (gen_report.go)
			tg := time.Now()
			jobs = append(jobs, rectGrid(o)...)
			fmt.Fprintf(os.Stderr, "c19: rect grid %.1fs\n", time.Since(tg).Seconds())
			tg = time.Now()
			jobs = append(jobs, reportGrid(o)...)
			jobs = append(jobs, reportJobs()...)
			fmt.Fprintf(os.Stderr, "c19: report grid %.1fs\n", time.Since(tg).Seconds())
			jobs = append(jobs, corpusJobs()...)
			jobs = append(jobs, knownFindingJobs()...)
			if os.Getenv("VERIF_TIER") == "thorough" {
				jobs = append(jobs, thoroughKnownFindingJobs()...)
			}
			// function names through the generic production, table objects of every shape as the target of a statement
			jobs = append(jobs, quotedNameJobs()...)
			jobs = append(jobs, dmlTargetJobs()...)
			// small deterministic grids, unsliced (gen_roles.go)
			jobs = append(jobs, fieldsGridJobs()...)
			jobs = append(jobs, preparedJobs()...)
			jobs = append(jobs, roleJobs()...)
		}
		// the deterministic grids: one slice per round (it rotates with seed + round; the rounds of a thorough run
		// cover every slice several times), every kind of job of a grid in every slice
		phase := int(seed%1000) + done/roundSize
		det := func(k int, js []*job) { jobs = append(jobs, rotate(js, k, phase)...) }
		det(2, jsonPathJobs())
		det(6, grammarJobs(g))
		det(4, raggedJobs())
		det(4, lockJobs())
		det(6, joinJobs())
		det(4, levelPairJobs())
		det(2, udfEffectJobs())
		det(2, nameListJobs())
		det(2, patternJobs())
		det(4, fieldlessJobs())
		det(2, fsJobs(g))
		det(4, clauseComboJobs())
		det(5, outputCellJobs())
		det(8, frameJobs())
		det(5, jsonlQueryJobs())
		det(6, emptyAggJobs())
		det(3, subcommandJobs())
		det(6, envJobs(false))
		det(1, envJobs(true))
		det(4, outerDmlJobs())
		det(2, selectIntoJobs())
		jobs = append(jobs, modeAndLikeJobs()...)
		det(6, accessPathJobs(g, 0, true))
		det(6, sizeJobs(g, 0, true))
		jobs = append(jobs, accessPathJobs(g, budget*3/100, false)...)
		jobs = append(jobs, sizeJobs(g, budget*2/100, false)...)
		jobs = append(jobs, stmtJobs(g, budget*18/100)...)
		jobs = append(jobs, fnJobs(g, budget*47/100)...)
		jobs = append(jobs, dataJobs(g, budget*30/100)...)

		results := make([]result, len(jobs))
		var wg sync.WaitGroup
		idx := make(chan int, 256)
		for w := 0; w < workers; w++ {
			wg.Add(1)
			go func() {
				defer wg.Done()
				for i := range idx {
					results[i] = execJob(jobs[i])
				}
			}()
		}
		for i := range jobs {
			idx <- i
		}
		close(idx)
		wg.Wait()

		for i, j := range jobs {
			r := results[i]
			o.Eval()
			o.Count("group:" + j.Group)
			for _, t := range j.Tags {
				o.Count(t)
			}
			o.Count(fmt.Sprintf("exit:%d", r.rc))
			if r.rc != 0 && !r.timedOut {
				o.Count("error_class:" + errClass(j, r))
			}
			laws, notes := judge(j, r)
			for _, nt := range notes {
				o.Count(nt)
			}
			if j.InProc != nil && r.rc == 0 && len(laws) == 0 {
				if why := j.InProc.check(j); why != "" {
					laws = append(laws, "nonrectangular:"+why)
				}
				o.Count("inprocess_rect_probe")
			}
			if j.Group == "arity" {
				if len(laws) > 0 {
					o.Count("arity_confirmed")
				} else {
					o.Count("arity_unconfirmed:" + strings.TrimPrefix(j.Tags[2], "arity_candidate:"))
				}
			}
			if j.Group == "inproc" {
				if len(laws) > 0 {
					o.Count("inproc_confirmed")
				} else {
					o.Count("inproc_unconfirmed:" + strings.TrimPrefix(j.Tags[1], "inproc_candidate:"))
				}
			}
			o.NonTrivial(j.Group + ":" + strings.Join(sigTags(j.Tags), ",") + fmt.Sprintf(":%d", r.rc))
			for _, l := range laws {
				o.Count("law_seen:" + l)
				if _, ok := firstOf[l]; !ok {
					firstOf[l] = found{j, r}
					order = append(order, l)
				}
			}
			if len(o.Samples) < 10 && i%(len(jobs)/10+1) == 0 {
				o.Samples = append(o.Samples, fmt.Sprintf("csvq %s  => rc=%d", trunc(shJoin(j.argv()), 200), r.rc))
			}
		}
		total += len(jobs)
	}
	fmt.Fprintf(os.Stderr, "c19: %d jobs run and judged in %.1fs with %d workers, %d distinct laws\n", total, time.Since(t0).Seconds(), workers, len(order))
	t0 = time.Now()
	defer func() { fmt.Fprintf(os.Stderr, "c19: shrunk in %.1fs\n", time.Since(t0).Seconds()) }()

	// ---- shrink and report each distinct law once (the count of occurrences is in the stats); laws in parallel ----
	type report struct {
		skip string
		rec  map[string]interface{}
	}
	reports := make([]report, len(order))
	var rwg sync.WaitGroup
	sem := make(chan bool, 8)
	for li, l := range order {
		li, l := li, l
		rwg.Add(1)
		go func() {
			defer rwg.Done()
			sem <- true
			defer func() { <-sem }()
			orig := firstOf[l].j
			j := orig
			tries := 1
			if strings.HasPrefix(l, "panic:") {
				tries = 6 // which worker panics second depends on the schedule
			}
			budget := 300
			if strings.HasPrefix(l, "runtime_fatal:") {
				budget = 0 // deterministic reproducers of known constructions
			}
			if strings.HasPrefix(l, "memory:") {
				budget = 6 // every run fills the address-space limit first
			}
			isHang := strings.HasPrefix(l, "hang:")
			if isHang {
				// first make sure it is not merely slow (under the load of the parallel phase or by the work it asks
				// for): alone, with a deadline 4 times the bound
				alone := j.clone()
				alone.Timeout = 4 * hangBound
				if r := execJob(alone); !r.timedOut {
					reports[li].skip = "observed:slow_but_finished_alone_within_4x_the_bound(not a law):" + strings.TrimPrefix(l, "hang:")
					return
				}
				// a candidate that still runs after 4 s counts as still hanging (a shrunk result is confirmed below)
				j = j.clone()
				j.Timeout = 4 * time.Second
				budget = 4
			}
			m := shrink(j, l, tries, budget)
			var r result
			if isHang {
				m.Timeout = hangBound // the original was confirmed alone with 4 times the bound; the shrunk form must reach the bound itself
				if strings.Join(m.argv(), "\x00") == strings.Join(orig.argv(), "\x00") {
					r = firstOf[l].r // nothing was removed: already confirmed alone with 4 times the bound
				} else if r = execJob(m); !r.timedOut {
					m, r = orig, firstOf[l].r
				}
				m.Timeout = 0
			} else {
				r = execJob(m)
				for t := 0; t < tries*2 && !contains(classify(m, r), l); t++ {
					r = execJob(m)
				}
				if !contains(classify(m, r), l) && !strings.HasPrefix(l, "nonrectangular:") {
					m, r = orig, firstOf[l].r
				}
			}
			reports[li].rec = map[string]interface{}{
				"command":   "csvq " + shJoin(m.argv()),
				"reproduce": repro(m),
				"exit_code": r.rc,
				"stdout":    trunc(r.stdout, 500),
				"stderr":    trunc(r.stderr, 1800),
				"group":     orig.Group,
				"tags":      orig.Tags,
				"found_as":  trunc(repro(orig), 1500),
			}
		}()
	}
	rwg.Wait()
	for li, l := range order {
		if reports[li].skip != "" {
			o.Count(reports[li].skip)
			continue
		}
		reports[li].rec["occurrences"] = o.Stats["law_seen:"+l]
		o.Law(l, reports[li].rec)
	}
}

func contains(xs []string, s string) bool {
	for _, x := range xs {
		if x == s {
			return true
		}
	}
	return false
}

// sigTags: the tags that make a case distinct (functions, clauses, formats, options, conditions).
func sigTags(tags []string) []string {
	var out []string
	for _, t := range tags {
		if strings.HasPrefix(t, "argclass:") {
			continue
		}
		out = append(out, t)
	}
	sort.Strings(out)
	return out
}

var reErrHead = regexp.MustCompile(`^(?:\S+ )?\[L:\d+ C:\d+\] (.*)`)
var reQuoted = regexp.MustCompile("\"[^\"]*\"|'[^']*'|`[^`]*`")

// errClass: the error message with its variable parts masked (quoted text, numbers, words that come from the
// program text), cut to its first words — a coarse but stable class of the documented error messages.
func errClass(j *job, r result) string {
	line := ""
	for _, l := range strings.Split(r.stderr, "\n") {
		l = strings.TrimSpace(l)
		if l == "" || strings.HasPrefix(l, "No help topic for") {
			continue
		}
		line = l
		break
	}
	if m := reErrHead.FindStringSubmatch(line); m != nil {
		line = m[1]
	}
	line = reQuoted.ReplaceAllString(line, "_")
	prog := strings.Join(j.argv(), " ")
	var keep []string
	for _, w := range strings.Fields(line) {
		core := strings.Trim(w, ".,:;()[]{}")
		switch {
		case core == "":
			continue
		case strings.ContainsAny(core, "0123456789/\\_=<>'\"`@%$*+|{}[]"):
			w = "_"
		case len(core) > 2 && core != strings.ToLower(core):
			w = "_" // identifiers, function names, file names are echoed as written
		case len(core) > 3 && strings.Contains(prog, core) && !strings.Contains(" field function table file cursor variable view value values query select from record records ", " "+core+" "):
			w = "_"
		}
		if w == "_" && len(keep) > 0 && keep[len(keep)-1] == "_" {
			continue
		}
		keep = append(keep, w)
		if len(keep) == 9 {
			break
		}
	}
	if len(keep) == 0 {
		return fmt.Sprintf("rc%d:(no message)", r.rc)
	}
	return fmt.Sprintf("rc%d:%s", r.rc, strings.Join(keep, " "))
}

var bigOnce []byte

func isBig(d []byte) bool {
	if bigOnce == nil {
		bigOnce = bigCSV()
	}
	return bytes.Equal(d, bigOnce)
}
