package main

// emptyAggJobs     row-context expressions (JSON_OBJECT, field references inside functions, row values, analytic functions,
//                  CASE, sub-queries …) beside an aggregate over an EMPTY table / an empty selection, with and without
//                  GROUP BY / HAVING
// subcommandJobs   the sub-commands calc, fields, syntax with hostile texts (whatever parses after calc wraps it as
//                  "SELECT <expr> FROM STDIN": set operators, a second statement, INTO, sub-queries, comments that swallow
//                  the FROM, empty text) and stdin empty / missing / closed        (check-update is never run: network)
// envJobs          hostile process ENVIRONMENT: working directory removed, HOME unset / a file / missing, TMPDIR missing,
//                  repository removed or a file, stdin closed, stdout closed / full — under each, every SHOW object, every
//                  @# runtime information, flags, and a read / write statement
// outerDmlJobs     multi-table DELETE / UPDATE … FROM over LEFT / RIGHT / FULL joins with unmatched rows on either side
// selectIntoJobs   SELECT … INTO with wildcards of 0 / 1 / ≥ 2 fields × 0 / 1 / ≥ 2 records

import (
	"fmt"
	"strings"

	"github.com/mithrandie/csvq/lib/option"
	"github.com/mithrandie/csvq/lib/query"
)

func emptyAggJobs() []*job {
	var jobs []*job
	files := []fileSpec{{Name: "e.csv", Data: []byte("a,b\n")}, {Name: "e0.csv"}, {Name: "o.csv", Data: []byte("a,b\n1,x\n")}, {Name: "m.csv", Data: []byte("a,b\n1,x\n2,y\n2,z\n")},
		{Name: "ej.json", Data: []byte("[]")}, {Name: "z.json", Data: []byte("[{},{}]")}}
	aggs := []string{"COUNT(*)", "COUNT(a)", "MAX(a)", "SUM(a)", "LISTAGG(b, ',')", "JSON_AGG(a)", "MEDIAN(a)", "COUNT(DISTINCT a)"}
	rows := []string{"JSON_OBJECT()", "JSON_OBJECT(a)", "JSON_OBJECT(a, b)", "JSON_OBJECT(a AS x, b AS `y.z`)", "a", "UPPER(b)", "a + 1", "COALESCE(a, b, 1)", "(a, b) = (1, 'x')", "(a, b) IN ((1, 'x'))",
		"CASE WHEN a IS NULL THEN 1 ELSE b END", "ROW_NUMBER() OVER ()", "RANK() OVER (ORDER BY a)", "SUM(a) OVER ()", "FIRST_VALUE(a) OVER (ORDER BY b)", "(SELECT MAX(a) FROM o)", "(SELECT o.a FROM o WHERE o.a = e.a)",
		"EXISTS (SELECT 1 FROM o WHERE o.a = e.a)", "a IN (SELECT a FROM o)", "@v := a", "e.*", "*", "e.1", "JSON_OBJECT(COUNT(*) AS c)", "JSON_VALUE('x', JSON_OBJECT(a))", "IF(a IS NULL, JSON_OBJECT(), b)", "NOW() IS NOT NULL"}
	srcs := []struct{ tag, from string }{
		{"header-only file", "`e.csv` e"}, {"empty file", "`e0.csv` e"}, {"WHERE FALSE", "`m.csv` e WHERE FALSE"}, {"WHERE no match", "`m.csv` e WHERE a > 9"}, {"empty JSON array", "`ej.json` e"},
		{"sub-query without rows", "(SELECT * FROM `o.csv` WHERE FALSE) e"}, {"field-less", "`z.json` e"}, {"one row", "`o.csv` e"}, {"many rows", "`m.csv` e"}, {"join without rows", "`o.csv` e JOIN `m.csv` m ON e.a = m.a + 10"},
	}
	tails := []string{"", " GROUP BY a", " GROUP BY a HAVING COUNT(*) >= 0", " HAVING COUNT(*) >= 0", " GROUP BY 1", " ORDER BY 1", " LIMIT 1"}
	k := 0
	for _, s := range srcs {
		for _, r := range rows {
			for ai, a := range aggs {
				for ti, t := range tails {
					k++
					if (ai+ti+len(r))%4 != 0 && !(ai == 0 && ti == 0) { // every (source, row expression) with COUNT(*) and no tail; a quarter of the rest
						continue
					}
					sel := a + ", " + r
					if k%2 == 0 {
						sel = r + ", " + a
					}
					var ov []opt
					if k%3 == 0 {
						ov = cpu4
					}
					jobs = append(jobs, &job{Group: "emptyagg", Tags: []string{"emptyagg:" + strings.Fields(r)[0] + " beside an aggregate, " + s.tag, "tail:" + strings.TrimSpace(t)}, Files: files, Opts: ov,
						Stmts: []string{"SELECT " + sel + " FROM " + s.from + t}})
				}
			}
		}
	}
	return jobs
}

func subcommandJobs() []*job {
	var jobs []*job
	files := fixtures()
	texts := []string{"1", "c1 + 1", "", " ", "1 from dual union select 2", "1; select 2", "1 from stdin; select 2", "1 into @x", "1, 2 into @a, @b", "(select 1)", "(select c1 from stdin)", "(select * from t)",
		"1 -- ", "1 /* ", "1 /*", "1 from dual -- ", "*", "stdin.*", "c1, c2, c3", "count(*)", "max(c1) over ()", "1 from dual where 1 = 1 union all select c1", "1 from t, u", "1 as `a.b`",
		"1 limit 0", "1 from stdin limit 1 offset 5", "1 order by 1", "1 group by 1", "@a := 1", "json_object()", "json_object(c1)", "lpad(c1, 5, '')", "1 from", "select 1", "from stdin", ")", "(", "'", "`", "1 for update",
		"1 from stdin for update", "1 except select 1", "1 intersect select c1 from stdin", "call('true')", "now()", "@@cpu", "@#version", "@%HOME", "1 from json_inline('', '[]')", "1 from csv(',', stdin)", strings.Repeat("1 + ", 400) + "1"}
	stdins := []struct {
		tag   string
		has   bool
		data  string
		stdio string
	}{{"one value", true, "1", ""}, {"two lines", true, "1\n2", ""}, {"csv line", true, "a,b", ""}, {"empty", true, "", ""}, {"missing (/dev/null)", false, "", ""}, {"closed", false, "", "<&-"}, {"invalid UTF-8", true, "\xff\xfe", ""}}
	for ti, t := range texts {
		for si, s := range stdins {
			if (ti+si)%2 == 1 && si > 1 {
				continue
			}
			jobs = append(jobs, &job{Group: "subcmd", Tags: []string{"subcommand-text:calc " + trunc(t, 28), "stdin:" + s.tag}, Files: files, Fixed: []string{"calc", t}, HasStdin: s.has, Stdin: []byte(s.data), Stdio: s.stdio})
		}
	}
	// calc with options in front, more than one argument, none
	jobs = append(jobs, &job{Group: "subcmd", Tags: []string{"subcommand-text:calc without argument"}, Files: files, Fixed: []string{"calc"}, HasStdin: true, Stdin: []byte("1")})
	jobs = append(jobs, &job{Group: "subcmd", Tags: []string{"subcommand-text:calc two arguments"}, Files: files, Fixed: []string{"calc", "1", "2"}, HasStdin: true, Stdin: []byte("1")})
	for _, o := range [][]opt{{{"--format", "JSON", true}}, {{"--import-format", "JSON", true}}, {{"--no-header", "", false}}, {{"--out", "o.txt", true}}, {{"--delimiter", "", true}}, {{"--cpu", "4", true}}} {
		jobs = append(jobs, &job{Group: "subcmd", Tags: append([]string{"subcommand-text:calc with options"}, optTags(o)...), Files: files, Opts: o, Fixed: []string{"calc", "c1 || 'x'"}, HasStdin: true, Stdin: []byte("1,2")})
	}
	names := []string{"t.csv", "t", "nosuch.csv", "j.json", "jl.jsonl", "fixed.txt", ".", "", "/", "STDIN", "t.csv u.csv", "`t.csv`", "t;select 1", "'", strings.Repeat("x", 300), "e0.csv", "z.json"}
	ff := append(append([]fileSpec{}, files...), fileSpec{Name: "e0.csv"}, fileSpec{Name: "z.json", Data: []byte("[{},{}]")})
	for _, n := range names {
		jobs = append(jobs, &job{Group: "subcmd", Tags: []string{"subcommand-text:fields " + trunc(n, 20)}, Files: ff, Fixed: append([]string{"fields"}, strings.Fields(n)...)})
		jobs = append(jobs, &job{Group: "subcmd", Tags: []string{"subcommand-text:fields -i JSON " + trunc(n, 20)}, Files: ff, Opts: []opt{{"--import-format", "JSON", true}, {"--json-query", "a", true}}, Fixed: []string{"fields", n}})
	}
	for _, w := range []string{"", "select", "SELECT QUERY", "limit clause", "%", "*", "'", "nosuch", "select from where", strings.Repeat("a ", 500), "\x1b[31m"} {
		jobs = append(jobs, &job{Group: "subcmd", Tags: []string{"subcommand-text:syntax " + trunc(w, 20)}, Files: files, Fixed: append([]string{"syntax"}, strings.Fields(w)...)})
		jobs = append(jobs, &job{Group: "subcmd", Tags: []string{"subcommand-text:syntax (one argument) " + trunc(w, 20)}, Files: files, Fixed: []string{"syntax", w}, Stdio: ">/dev/full"})
	}
	for _, sc := range [][]string{{"help"}, {"help", "calc"}, {"help", "nosuch"}, {"h"}, {"--version"}, {"--help"}, {"nosuch"}, {"calc", "--help"}, {"fields", "--help"}, {"-v", "calc", "1"}} {
		jobs = append(jobs, &job{Group: "subcmd", Tags: []string{"subcommand-text:" + strings.Join(sc, " ")}, Files: files, Fixed: sc})
	}
	return jobs
}

// core: only the conditions around a removed working directory (run unsliced); otherwise the remaining ones
func envJobs(core bool) []*job {
	var jobs []*job
	files := fixtures()
	type cond struct {
		tag     string
		env     []string
		stdio   string
		removed bool
		opts    []opt
		extra   []fileSpec
	}
	conds := []cond{
		{tag: "working directory removed", removed: true},
		{tag: "working directory removed, --repository of a removed directory", removed: true, opts: []opt{{"--repository", ".", true}}},
		{tag: "HOME unset", env: []string{"-HOME"}},
		{tag: "HOME missing", env: []string{"HOME=%d/nosuch"}},
		{tag: "HOME is a file", env: []string{"HOME=%d/t.csv"}},
		{tag: "HOME empty", env: []string{"HOME="}},
		{tag: "HOME unwritable (/proc)", env: []string{"HOME=/proc/self"}},
		{tag: "TMPDIR missing", env: []string{"TMPDIR=%d/nosuch"}},
		{tag: "TMPDIR is a file", env: []string{"TMPDIR=%d/t.csv"}},
		{tag: "PATH unset", env: []string{"-PATH", "-TZ", "-LANG"}},
		{tag: "TZ invalid", env: []string{"TZ=No/Where"}},
		{tag: "repository missing", opts: []opt{{"--repository", "nosuch", true}}},
		{tag: "repository is a file", opts: []opt{{"--repository", "t.csv", true}}},
		{tag: "repository is a dangling symlink", opts: []opt{{"--repository", "dl", true}}, extra: []fileSpec{{Name: "dl", Kind: "symlink", Data: []byte("nowhere")}}},
		{tag: "stdin closed", stdio: "<&-"},
		{tag: "stdout closed", stdio: ">&-"},
		{tag: "stdout full", stdio: ">/dev/full"},
		{tag: "stderr closed", stdio: "2>&-"},
		{tag: "stdout and stderr closed", stdio: ">&- 2>&-"},
		{tag: "stdin is a directory", stdio: "<."},
		{tag: "broken csvq_env.json in HOME/.config", extra: []fileSpec{{Name: ".config/csvq/csvq_env.json", Data: []byte("{")}, {Name: ".csvq/csvq_env.json", Data: []byte("[1]")}}},
		{tag: "config directory is a file", extra: []fileSpec{{Name: ".config", Data: []byte("x")}, {Name: ".csvq", Data: []byte("x")}}},
	}
	var progs [][]string
	for _, ob := range append(append([]string{}, query.ShowObjectList...), "NOSUCH") {
		progs = append(progs, []string{"SHOW " + ob})
		progs = append(progs, []string{"DECLARE v VIEW (a)", "DECLARE c CURSOR FOR SELECT 1", "DECLARE f FUNCTION () AS BEGIN RETURN 1; END", "PREPARE s FROM 'SELECT 1'", "UPDATE u SET c2 = 1", "SHOW " + ob})
	}
	for _, ri := range append(append([]string{}, query.RuntimeInformatinList...), "NOSUCH") {
		progs = append(progs, []string{"SELECT @#" + ri}, []string{"UPDATE u SET c2 = 1", "CREATE TABLE `n.csv` (a)", "SELECT @#" + ri, "PRINT @#" + ri})
	}
	for _, f := range option.FlagList {
		progs = append(progs, []string{"SHOW @@" + f, "SELECT @@" + f})
	}
	progs = append(progs, []string{"SHOW FLAGS"}, []string{"PWD"}, []string{"CHDIR `.`", "PWD"}, []string{"RELOAD CONFIG"}, []string{"SELECT * FROM t"}, []string{"SELECT * FROM `./t.csv`"}, []string{"SELECT * FROM STDIN"},
		[]string{"UPDATE u SET c2 = 1", "COMMIT"}, []string{"CREATE TABLE `n.csv` (a)", "COMMIT"}, []string{"SELECT 1"}, []string{"PRINT 1"}, []string{"SOURCE `prog.sql`"}, []string{"SHOW FIELDS FROM t"}, []string{"SELECT NOW(), @%HOME, @%TMPDIR"},
		[]string{"SELECT * FROM big"}, []string{"SYNTAX select"}, []string{"SELECT * FROM t FOR UPDATE"}, []string{"SELECT * FROM CSV_INLINE(',', 'a\n1')"}, []string{"ECHO @%HOME"})
	for _, c := range conds {
		if c.removed != core {
			continue
		}
		for _, p := range progs {
			j := &job{Group: "env", Tags: []string{"env:" + strings.ReplaceAll(c.tag, " ", "_") + " " + trunc(p[len(p)-1], 30)}, Files: append(append([]fileSpec{}, files...), c.extra...), Opts: c.opts, Stmts: p,
				Env: c.env, Stdio: c.stdio, RemovedCwd: c.removed}
			jobs = append(jobs, j)
		}
		// the sub-commands and --out / --source under the same condition
		jobs = append(jobs, &job{Group: "env", Tags: []string{"env:" + strings.ReplaceAll(c.tag, " ", "_") + " calc"}, Files: files, Opts: c.opts, Fixed: []string{"calc", "c1 + 1"}, HasStdin: c.stdio == "", Stdin: []byte("1"), Env: c.env, Stdio: c.stdio, RemovedCwd: c.removed})
		jobs = append(jobs, &job{Group: "env", Tags: []string{"env:" + strings.ReplaceAll(c.tag, " ", "_") + " fields"}, Files: files, Opts: c.opts, Fixed: []string{"fields", "t.csv"}, Env: c.env, Stdio: c.stdio, RemovedCwd: c.removed})
		jobs = append(jobs, &job{Group: "env", Tags: []string{"env:" + strings.ReplaceAll(c.tag, " ", "_") + " --out"}, Files: files, Opts: append(append([]opt{}, c.opts...), opt{"--out", "o.csv", true}), Stmts: []string{"SELECT * FROM t"}, Env: c.env, Stdio: c.stdio, RemovedCwd: c.removed})
		jobs = append(jobs, &job{Group: "env", Tags: []string{"env:" + strings.ReplaceAll(c.tag, " ", "_") + " --source"}, Files: files, Opts: append(append([]opt{}, c.opts...), opt{"--source", "prog.sql", true}), Env: c.env, Stdio: c.stdio, RemovedCwd: c.removed})
	}
	return jobs
}

func outerDmlJobs() []*job {
	var jobs []*job
	files := []fileSpec{{Name: "p.csv", Data: []byte("id,v\n1,a\n2,b\n3,c\n")}, {Name: "q.csv", Data: []byte("id,w\n2,x\n3,y\n4,z\n4,zz\n")}, {Name: "e.csv", Data: []byte("id,w\n")}, {Name: "r.csv", Data: []byte("id,u\n1,r\n5,s\n")}}
	joins := []string{"p LEFT JOIN q ON p.id = q.id", "p RIGHT JOIN q ON p.id = q.id", "p FULL JOIN q ON p.id = q.id", "p LEFT JOIN q USING (id)", "p NATURAL FULL JOIN q", "p LEFT JOIN e q ON p.id = q.id", "e q RIGHT JOIN p ON p.id = q.id",
		"p LEFT JOIN q ON p.id = q.id LEFT JOIN r ON q.id = r.id", "p FULL JOIN q ON p.id = q.id FULL JOIN r ON r.id = p.id", "p LEFT JOIN q ON FALSE", "p CROSS JOIN q", "p JOIN q ON p.id = q.id",
		"p LEFT JOIN LATERAL (SELECT * FROM q WHERE q.id = p.id) q ON TRUE", "p LEFT JOIN (SELECT * FROM q WHERE id > 3) q ON p.id = q.id", "p a LEFT JOIN p b ON a.id = b.id + 1"}
	wheres := []string{"", " WHERE q.id IS NULL", " WHERE p.id IS NULL", " WHERE q.w = 'x'", " WHERE FALSE", " WHERE p.id = 1 OR q.id = 4"}
	for _, jn := range joins {
		for wi, w := range wheres {
			for ti, tg := range []string{"q", "p", "p, q", "q, p", "r", "nosuch", "a", "b"} {
				if (wi+ti)%2 == 1 && wi > 1 {
					continue
				}
				tag := "outer-dml:DELETE " + tg + " FROM " + jn
				jobs = append(jobs, &job{Group: "outerdml", Tags: []string{tag, "where:" + strings.TrimSpace(w)}, Files: files, Stmts: []string{"DELETE " + tg + " FROM " + jn + w, "SELECT COUNT(*) FROM p", "SELECT COUNT(*) FROM q", "COMMIT", "SELECT * FROM q"}})
			}
			for si, set := range []string{"q.w = p.v", "p.v = q.w", "q.w = 'n', p.v = 'm'", "q.id = p.id", "p.v = q.w || p.v", "w = v"} {
				if (wi+si)%2 == 1 {
					continue
				}
				for _, tg := range []string{"q", "p", "p, q"} {
					jobs = append(jobs, &job{Group: "outerdml", Tags: []string{"outer-dml:UPDATE " + tg + " FROM " + jn, "where:" + strings.TrimSpace(w)}, Files: files, Opts: cpu4,
						Stmts: []string{"UPDATE " + tg + " SET " + set + " FROM " + jn + w, "SELECT * FROM p", "SELECT * FROM q", "COMMIT"}})
				}
			}
		}
	}
	return jobs
}

func selectIntoJobs() []*job {
	var jobs []*job
	files := []fileSpec{{Name: "t0.csv"}, {Name: "z.json", Data: []byte("[{}]")}, {Name: "z2.json", Data: []byte("[{},{}]")}, {Name: "c1r0.csv", Data: []byte("a\n")}, {Name: "c1r1.csv", Data: []byte("a\n1\n")}, {Name: "c1r2.csv", Data: []byte("a\n1\n2\n")},
		{Name: "c2r0.csv", Data: []byte("a,b\n")}, {Name: "c2r1.csv", Data: []byte("a,b\n1,x\n")}, {Name: "c2r2.csv", Data: []byte("a,b\n1,x\n2,y\n")}, {Name: "c3r1.csv", Data: []byte("a,b,c\n1,x,y\n")}}
	srcs := []struct {
		tag   string
		setup []string
		from  string
	}{
		{"0 fields × 0 records (empty file)", nil, "`t0.csv` T"}, {"0 fields × 1 record", nil, "`z.json` T"}, {"0 fields × 2 records", nil, "`z2.json` T"},
		{"0 fields × 1 record (temporary table, column dropped)", []string{"DECLARE T VIEW (a)", "INSERT INTO T VALUES (1)", "ALTER TABLE T DROP a"}, "T"},
		{"0 fields × 1 record (file, every column dropped)", []string{"ALTER TABLE `c2r1.csv` DROP (a, b)"}, "`c2r1.csv` T"},
		{"1 field × 0 records", nil, "`c1r0.csv` T"}, {"1 field × 1 record", nil, "`c1r1.csv` T"}, {"1 field × 2 records", nil, "`c1r2.csv` T"},
		{"2 fields × 0 records", nil, "`c2r0.csv` T"}, {"2 fields × 1 record", nil, "`c2r1.csv` T"}, {"2 fields × 2 records", nil, "`c2r2.csv` T"}, {"3 fields × 1 record", nil, "`c3r1.csv` T"},
		{"1 field × 1 record (WHERE)", nil, "`c1r2.csv` T WHERE a = 1"}, {"2 fields × 0 records (WHERE FALSE)", nil, "`c2r2.csv` T WHERE FALSE"},
		{"join 0 + 2 fields", nil, "`z.json` T CROSS JOIN `c2r1.csv` U"}, {"join 2 + 2 fields", nil, "`c2r1.csv` T CROSS JOIN `c2r1.csv` U"},
	}
	sels := []string{"*", "T.*", "T.*, T.*", "*, 1", "1, T.*", "T.*, U.*", "a", "a, b", "COUNT(*)", "COUNT(*), T.*", "DISTINCT *", "T.1", "1"}
	intos := []string{"@x", "@x, @y", "@x, @y, @z", "@x, @x", "@undeclared"}
	for _, s := range srcs {
		for si, sel := range sels {
			for ii, into := range intos {
				if (si+ii)%2 == 1 && si > 1 && ii > 1 {
					continue
				}
				stmts := append(append([]string{}, s.setup...), "VAR @x, @y, @z", "SELECT "+sel+" INTO "+into+" FROM "+s.from, "SELECT @x, @y, @z")
				jobs = append(jobs, &job{Group: "into", Tags: []string{"select-into:" + strings.ReplaceAll(s.tag, " ", "_") + " " + sel + " INTO " + into}, Files: files, Stmts: stmts})
			}
		}
		// the same shapes through FETCH INTO and a scalar sub-query / row value
		stmts := append(append([]string{}, s.setup...), "VAR @x, @y", "DECLARE c CURSOR FOR SELECT * FROM "+s.from, "OPEN c", "FETCH c INTO @x", "FETCH c INTO @x, @y", fmt.Sprintf("SELECT (SELECT * FROM %s LIMIT 1), (1, 2) = (SELECT * FROM %s LIMIT 1)", s.from, s.from))
		jobs = append(jobs, &job{Group: "into", Tags: []string{"select-into:" + strings.ReplaceAll(s.tag, " ", "_") + " FETCH INTO / sub-query"}, Files: files, Stmts: stmts})
	}
	return jobs
}
