package main

// frameJobs        window frames with int64-boundary offsets in every position (low / high bound × PRECEDING / FOLLOWING ×
//                  every windowed function) over 2-5 rows, under the hang watchdog
// jsonlQueryJobs   JSON Lines × json-query where the query yields [] / a scalar / a non-object for SOME lines, through
//                  the flag, the table function, SET @@JSON_QUERY and stdin
// knownFindingJobs deterministic reproducers of the two recorded findings (F83 self / mutual SOURCE nesting, F84 unbounded
//                  recursion of a user-defined function), run under the small address-space limit so that they end at once

import (
	"strings"
	"time"
)

func frameJobs() []*job {
	var jobs []*job
	files := []fileSpec{{Name: "p.csv", Data: comboTable(5)}, {Name: "p2.csv", Data: comboTable(2)}}
	offs := []string{"0", "1", "3", "2147483647", "9223372036854775806", "9223372036854775807", "9223372036854775808"}
	var bounds []string
	for _, o := range offs {
		bounds = append(bounds, o+" PRECEDING", o+" FOLLOWING")
	}
	bounds = append(bounds, "UNBOUNDED PRECEDING", "UNBOUNDED FOLLOWING", "CURRENT ROW")
	fns := []string{"SUM(score)", "COUNT(*)", "COUNT(DISTINCT score)", "AVG(score)", "MAX(name)", "MIN(score)", "MEDIAN(score)", "STDEV(score)", "VAR(score)", "LISTAGG(name, ',')", "JSON_AGG(score)",
		"FIRST_VALUE(name)", "LAST_VALUE(name)", "NTH_VALUE(name, 2)", "FIRST_VALUE(score) IGNORE NULLS", "LAST_VALUE(score) IGNORE NULLS", "ua(score)"}
	uag := "DECLARE ua AGGREGATE (cur) AS BEGIN VAR @v, @s := 0; WHILE @v IN cur DO @s := @s + IFNULL(@v, 0); END WHILE; RETURN @s; END"
	huge := func(b string) bool { // an offset of 10 or more digits
		n := 0
		for n < len(b) && b[n] >= '0' && b[n] <= '9' {
			n++
		}
		return n >= 10
	}
	k := 0
	for _, fn := range fns {
		for _, lo := range bounds {
			for _, hi := range bounds {
				// every pair in which a boundary offset takes part, and a sample of the small ones
				if !huge(lo) && !huge(hi) {
					k++
					if k%5 != 0 {
						continue
					}
				}
				over := "ORDER BY score ROWS BETWEEN " + lo + " AND " + hi
				tbl := "p"
				if (len(lo)+len(hi))%3 == 0 {
					tbl = "p2"
					over = "PARTITION BY grp " + over
				}
				j := &job{Group: "frame", Tags: []string{"frame:" + strings.Fields(fn)[0] + " " + lo + " .. " + hi, "frame-low:" + lo, "frame-high:" + hi}, Files: files,
					Stmts: []string{uag, "SELECT name, " + fn + " OVER (" + over + ") FROM " + tbl}, Timeout: 10 * time.Second}
				if k%2 == 0 {
					j.Opts = cpu4
				}
				jobs = append(jobs, j)
			}
			// the one-bound form
			jobs = append(jobs, &job{Group: "frame", Tags: []string{"frame:" + strings.Fields(fn)[0] + " " + lo, "frame-low:" + lo}, Files: files,
				Stmts: []string{uag, "SELECT name, " + fn + " OVER (ORDER BY score DESC ROWS " + lo + ") FROM p"}, Timeout: 10 * time.Second})
		}
	}
	return jobs
}

func jsonlQueryJobs() []*job {
	var jobs []*job
	lines := []string{`{"items":[]}`, `{"items":[{"a":1,"b":"x"}]}`, `{"items":[{"a":2},{"a":3}]}`, `{"items":1}`, `{"items":null}`, `{}`, `{"items":{"a":1}}`, `{"items":[1,2]}`, `{"items":[[]]}`, `{"items":"s"}`}
	queries := []string{"items{}", "items", "items[]", "items[0]", "items{a}", "items[].a", "items[0].a", "nosuch", "items{a, b}", "items[1]"}
	var bodies []string
	for _, a := range lines {
		bodies = append(bodies, a+"\n")
		for _, b := range lines {
			bodies = append(bodies, a+"\n"+b+"\n")
		}
	}
	bodies = append(bodies, strings.Join(lines, "\n")+"\n", lines[1]+"\n\n"+lines[0]+"\n", "[]\n"+lines[1]+"\n", "1\n")
	for bi, body := range bodies {
		files := []fileSpec{{Name: "q.jsonl", Data: []byte(body)}, {Name: "q.txt", Data: []byte(body)}}
		first := body[:strings.IndexByte(body, '\n')]
		for qi, q := range queries {
			tag := "jsonl-query:" + q + " over " + trunc(first, 30)
			s := sqlString(q)
			switch (bi + qi) % 5 {
			case 0:
				jobs = append(jobs, &job{Group: "jsonlq", Tags: []string{tag, "route:--json-query on .jsonl"}, Files: files, Opts: []opt{{"--json-query", q, true}}, Stmts: []string{"SELECT * FROM `q.jsonl`"}})
			case 1:
				jobs = append(jobs, &job{Group: "jsonlq", Tags: []string{tag, "route:JSONL()"}, Files: files, Opts: cpu4, Stmts: []string{"SELECT * FROM JSONL(" + s + ", `q.jsonl`)"}})
			case 2:
				jobs = append(jobs, &job{Group: "jsonlq", Tags: []string{tag, "route:-i JSONL --json-query"}, Files: files, Opts: []opt{{"--import-format", "JSONL", true}, {"--json-query", q, true}}, Stmts: []string{"SELECT COUNT(*) FROM `q.txt`"}})
			case 3:
				jobs = append(jobs, &job{Group: "jsonlq", Tags: []string{tag, "route:SET @@JSON_QUERY"}, Files: files, Stmts: []string{"SET @@JSON_QUERY TO " + s, "SELECT * FROM `q.jsonl`", "SELECT * FROM JSONL(" + s + ", `q.txt`)"}})
			default:
				jobs = append(jobs, &job{Group: "jsonlq", Tags: []string{tag, "route:--json-query on stdin"}, Opts: []opt{{"--import-format", "JSONL", true}, {"--json-query", q, true}, {"--format", "JSONL", true}},
					Stmts: []string{"SELECT * FROM STDIN"}, HasStdin: true, Stdin: []byte(body)})
			}
		}
	}
	return jobs
}

func knownFindingJobs() []*job {
	self := []fileSpec{{Name: "a.sql", Data: []byte("SOURCE `a.sql`;\n")}}
	mutual := []fileSpec{{Name: "m1.sql", Data: []byte("SOURCE `m2.sql`;\n")}, {Name: "m2.sql", Data: []byte("PRINT 'm2'; SOURCE `m1.sql`;\n")}}
	return []*job{
		{Group: "corpus", Tags: []string{"corpus:F83 a source file that includes itself (-s)"}, Files: self, Opts: []opt{{"--source", "a.sql", true}}, SmallLimit: true},
		{Group: "corpus", Tags: []string{"corpus:F83 a source file that includes itself (SOURCE)"}, Files: self, Stmts: []string{"SOURCE `a.sql`"}, SmallLimit: true},
		{Group: "corpus", Tags: []string{"corpus:F83 two source files that include each other"}, Files: mutual, Stmts: []string{"SOURCE `m1.sql`"}, SmallLimit: true},
		{Group: "corpus", Tags: []string{"corpus:F84 user-defined function that calls itself without end"}, Stmts: []string{"DECLARE f FUNCTION () AS BEGIN RETURN f(); END", "SELECT f()"}, SmallLimit: true},
		{Group: "corpus", Tags: []string{"corpus:F84 user-defined function that calls itself without end (argument, table)"}, Files: []fileSpec{{Name: "t.csv", Data: []byte("a\n1\n")}},
			Stmts: []string{"DECLARE f FUNCTION (@n) AS BEGIN RETURN f(@n + 1); END", "SELECT f(a) FROM t"}, SmallLimit: true},
		// F118 (fixed in /repo 6dd3cc3): a placeholder inside a USING list read itself without end (the value expressions
		// of the list were evaluated in the reader's context); recognised by the evalPlaceholder frames of the dump
		{Group: "corpus", Tags: []string{"corpus:F118 EXECUTE ... USING ? inside a prepared statement"},
			Stmts: []string{"PREPARE pin FROM 'SELECT ? + 100'", "PREPARE pout FROM 'EXECUTE pin USING ?;'", "EXECUTE pout USING 5"}, SmallLimit: true},
		{Group: "corpus", Tags: []string{"corpus:F118 OPEN ... USING ?, 4 inside a prepared statement"}, Files: []fileSpec{{Name: "t.csv", Data: []byte("id,v\n1,a\n2,b\n3,c\n4,d\n")}},
			Stmts: []string{"PREPARE pick FROM 'SELECT id, v FROM t WHERE id > ? AND id < ?'", "DECLARE cur CURSOR FOR pick", "PREPARE e1 FROM 'OPEN cur USING ?, 4;'", "EXECUTE e1 USING 1", "PRINT CURSOR cur COUNT"}, SmallLimit: true},
	}
}

// thoroughKnownFindingJobs: reproducers of known constructions that only the thorough tier runs.
// F97: a prepared statement whose text executes the statement itself nests Processor.ExecuteStatement without end (no
// nesting limit, the class of F83 / F84); under the small address-space limit the runtime gives up within seconds
// while the stack grows (recognised by >= 10 nested ExecuteStatement frames of a program that PREPAREs a text with EXECUTE).
func thoroughKnownFindingJobs() []*job {
	return []*job{
		{Group: "corpus", Tags: []string{"corpus:F97 a prepared statement that executes itself"}, Stmts: []string{"PREPARE st FROM 'EXECUTE st'", "EXECUTE st"}, SmallLimit: true, Timeout: 10 * time.Second},
		{Group: "corpus", Tags: []string{"corpus:F97 two prepared statements that execute each other"}, Stmts: []string{"PREPARE a FROM 'EXECUTE b USING 1'", "PREPARE b FROM 'EXECUTE a'", "EXECUTE a"}, SmallLimit: true, Timeout: 10 * time.Second},
	}
}
