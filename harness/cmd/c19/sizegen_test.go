package main

import (
	"bytes"
	"os/exec"
	"testing"
)

func TestSizeGenCmd(t *testing.T) {
	for _, format := range sizeFormats {
		for _, rep := range repertoires {
			for _, enc := range fileEncs {
				for _, lb := range []string{"\n", "\r\n", "\r"} {
					want, ok := encodeAs(enc.name, sizeText(format, 7, rep, 3, 4, lb))
					if !ok {
						continue
					}
					cmd := sizeGenCmd(format, 7, rep, 3, 4, lb, enc.name)
					got, err := exec.Command("/bin/sh", "-c", cmd).Output()
					if err != nil || !bytes.Equal(got, want) {
						t.Fatalf("%s %s %s %q: err=%v\n got %q\nwant %q\ncmd %s", format, rep.name, enc.name, lb, err, got, want, cmd)
					}
				}
			}
		}
	}
}
