package main

// clauseComboJobs  clause COMBINATIONS in one query: {plain, analytic functions, aggregates, DISTINCT, GROUP BY, HAVING} ×
//                  ORDER BY on {select-list column, alias, ordinal, computed expression not in the list, aggregate,
//                  analytic} × LIMIT / OFFSET, over tables of 2-5 rows
// outputCellJobs   every OUTPUT format × cells (and header names) whose text starts with / ends with / consists only of /
//                  contains each special character, with and without --out
// rotate           the slice of a deterministic grid that one round runs (all slices over the rounds of a thorough run)

import (
	"fmt"
	"strings"
	"unicode/utf8"
)

// rotate keeps, of every kind of job in the grid (first tag without its value part), the jobs whose position within
// the kind is ≡ phase (mod k) — at least one per kind.  phase = seed + round: a quick run takes one slice that
// rotates with the seed, the rounds of a thorough run cover every slice.
func rotate(jobs []*job, k int, phase int) []*job {
	if k <= 1 {
		return jobs
	}
	if phase < 0 {
		phase = -phase
	}
	pos := map[string]int{}
	kept := map[string]int{}
	var out []*job
	var first = map[string]*job{}
	var order []string
	for _, j := range jobs {
		key := tagKind(j)
		if _, ok := first[key]; !ok {
			first[key] = j
			order = append(order, key)
		}
		if (pos[key]+phase)%k == 0 {
			out = append(out, j)
			kept[key]++
		}
		pos[key]++
	}
	for _, key := range order {
		if kept[key] == 0 {
			out = append(out, first[key])
		}
	}
	return out
}

// ---------------------------------------------------------------- clause combinations

func comboTable(rows int) []byte {
	all := []string{"ann,10,x", "bob,20,y", "cy,10,x", "dee,,y", "eve,30,"}
	return []byte("name,score,grp\n" + strings.Join(all[:rows], "\n") + "\n")
}

func clauseComboJobs() []*job {
	var jobs []*job
	type shape struct{ tag, sel, tail string }
	shapes := []shape{
		{"plain", "SELECT name, score AS s", ""},
		{"star", "SELECT *", ""},
		{"analytic RANK", "SELECT name, RANK() OVER (ORDER BY score) AS r", ""},
		{"analytic ROW_NUMBER () ", "SELECT name, ROW_NUMBER() OVER () AS r", ""},
		{"analytic SUM PARTITION", "SELECT name, SUM(score) OVER (PARTITION BY grp ORDER BY name) AS r, LAG(score) OVER (ORDER BY score DESC) AS l", ""},
		{"analytic + DISTINCT", "SELECT DISTINCT grp, COUNT(*) OVER (PARTITION BY grp) AS r", ""},
		{"DISTINCT", "SELECT DISTINCT grp, score AS s", ""},
		{"aggregate", "SELECT COUNT(*) AS c, MAX(score) AS m", ""},
		{"GROUP BY", "SELECT grp, COUNT(*) AS c, MAX(score) AS m", " GROUP BY grp"},
		{"GROUP BY HAVING", "SELECT grp, COUNT(*) AS c, SUM(score) AS m", " GROUP BY grp HAVING COUNT(*) > 0"},
		{"GROUP BY + analytic", "SELECT grp, COUNT(*) AS c, RANK() OVER (ORDER BY COUNT(*)) AS r", " GROUP BY grp"},
		{"GROUP BY expression", "SELECT score % 20 AS k, LISTAGG(name, ',') AS l", " GROUP BY score % 20"},
		{"WHERE + analytic", "SELECT name, NTILE(2) OVER (ORDER BY score) AS r", " WHERE score IS NOT NULL"},
	}
	orders := []struct{ tag, by string }{
		{"none", ""}, {"select-list column", "name"}, {"alias", "r"}, {"alias s", "s"}, {"ordinal 1", "1"}, {"ordinal 2 DESC", "2 DESC"}, {"ordinal beyond", "9"},
		{"computed not in list", "name || 'x'"}, {"computed arithmetic not in list", "score * 2 DESC NULLS FIRST"}, {"column not in list", "grp"}, {"two computed", "name || 'x', score + 1"},
		{"aggregate", "COUNT(*)"}, {"aggregate expression", "MAX(score) - MIN(score) DESC"}, {"analytic", "RANK() OVER (ORDER BY score)"}, {"analytic + computed", "ROW_NUMBER() OVER (ORDER BY name), name || score"},
		{"function of alias", "UPPER(name) || r"}, {"sub-query", "(SELECT COUNT(*) FROM p q WHERE q.score < p.score)"}, {"CASE", "CASE WHEN score > 10 THEN name ELSE grp END"},
	}
	limits := []struct{ tag, cl string }{
		{"none", ""}, {"LIMIT 1", " LIMIT 1"}, {"LIMIT OFFSET", " LIMIT 2 OFFSET 1"}, {"LIMIT PERCENT WITH TIES", " LIMIT 50 PERCENT WITH TIES"}, {"OFFSET beyond", " OFFSET 10"},
	}
	for _, rows := range []int{2, 5} {
		files := []fileSpec{{Name: "p.csv", Data: comboTable(rows)}}
		for _, s := range shapes {
			for _, o := range orders {
				for li, l := range limits {
					if strings.Contains(l.cl, "WITH TIES") && o.by == "" {
						continue
					}
					q := s.sel + " FROM p" + s.tail
					if o.by != "" {
						q += " ORDER BY " + o.by
					}
					q += l.cl
					var ov []opt
					if (rows+li)%2 == 0 {
						ov = cpu4
					}
					jobs = append(jobs, &job{Group: "combo", Tags: []string{"combo:" + strings.ReplaceAll(s.tag, " ", "_") + " × ORDER BY " + o.tag, "limit:" + l.tag, fmt.Sprintf("rows:%d", rows)}, Files: files, Opts: ov, Stmts: []string{q}})
				}
			}
		}
	}
	return jobs
}

// ---------------------------------------------------------------- output formats × special cells

var specialChars = []struct{ tag, s string }{
	{"CR", "\r"}, {"LF", "\n"}, {"CRLF", "\r\n"}, {"TAB", "\t"}, {"double_quote", "\""}, {"single_quote", "'"}, {"backslash", "\\"}, {"NUL", "\x00"}, {"ESC_sequence", "\x1b[31m"}, {"bare_ESC", "\x1b"},
	{"wide", "\u65e5"}, {"combining", "\u0301"}, {"RTL_mark", "\u200f"}, {"zero_width", "\u200b"}, {"BOM", "\ufeff"}, {"space", " "}, {"comma", ","}, {"pipe", "|"}, {"colon", ":"}, {"backtick", "`"},
	{"plus_minus", "+-"}, {"emoji", "\U0001F600"}, {"DEL", "\x7f"}, {"invalid_UTF-8", "\xff"}, {"vertical_tab", "\v"}, {"form_feed", "\f"}, {"NEL", "\u0085"}, {"line_separator", "\u2028"},
}

var outputFormats = []string{"TEXT", "BOX", "GFM", "ORG", "CSV", "TSV", "FIXED", "JSON", "JSONL", "LTSV"}

func jsonString(s string) string {
	var sb strings.Builder
	sb.WriteByte('"')
	for i := 0; i < len(s); {
		r, w := utf8.DecodeRuneInString(s[i:])
		switch {
		case r == utf8.RuneError && w == 1:
			sb.WriteByte(s[i]) // an invalid byte stays in the file as it is
		case r == '"':
			sb.WriteString(`\"`)
		case r == '\\':
			sb.WriteString(`\\`)
		case r < 0x20 || r == 0x7f:
			fmt.Fprintf(&sb, `\u%04x`, r)
		default:
			sb.WriteRune(r)
		}
		i += w
	}
	sb.WriteByte('"')
	return sb.String()
}

func outputCellJobs() []*job {
	var jobs []*job
	for _, f := range outputFormats {
		for _, sp := range specialChars {
			places := []struct{ tag, text string }{
				{"ends with", "x" + sp.s}, {"starts with", sp.s + "x"}, {"only", sp.s}, {"middle", "x" + sp.s + "y"}, {"twice at the end", "x" + sp.s + sp.s},
			}
			for pi, pl := range places {
				for _, hdr := range []bool{false, true} {
					key := "k"
					if hdr {
						key = pl.text
					}
					// the cell through a JSON file (every character can be spelled) and, where CSV can hold it, through a quoted CSV field
					js := "[{" + jsonString(key) + ":" + jsonString(pl.text) + ",\"n\":1},{" + jsonString(key) + ":\"plain\",\"n\":" + jsonString(pl.text) + "}]"
					files := []fileSpec{{Name: "c.json", Data: []byte(js)}}
					src := "`c.json`"
					if (pi+len(sp.tag))%2 == 1 && !strings.ContainsAny(pl.text, "\x00") && sp.tag != "invalid_UTF-8" {
						q := func(s string) string { return "\"" + strings.ReplaceAll(s, "\"", "\"\"") + "\"" }
						files = []fileSpec{{Name: "c.csv", Data: []byte(q(key) + ",n\n" + q(pl.text) + ",1\nplain," + q(pl.text) + "\n")}}
						src = "`c.csv`"
					}
					for _, out := range []bool{false, true} {
						ov := []opt{{"--format", f, true}}
						tags := []string{"output:" + f + ":" + sp.tag + " " + pl.tag, "special:" + sp.tag, "placement:" + pl.tag, "output-format:" + f}
						if hdr {
							tags = append(tags, "placement:in the header name too")
						}
						if out {
							ov = append(ov, opt{"--out", "o.out", true})
							tags = append(tags, "opt:--out")
						}
						if (pi+len(sp.tag))%3 == 0 {
							ov = append(ov, opt{pick3(pi, "--enclose-all", "--pretty-print", "--without-header"), "", false})
						}
						stmts := []string{"SELECT * FROM " + src}
						if !strings.ContainsRune(pl.text, 0) { // a NUL cannot be part of a command-line argument
							stmts = append(stmts, "SELECT "+sqlString(pl.text)+" AS "+"`"+strings.ReplaceAll(key, "`", "``")+"`")
						}
						jobs = append(jobs, &job{Group: "output", Tags: tags, Files: files, Opts: ov, Stmts: stmts})
					}
				}
			}
		}
	}
	return jobs
}

func pick3(i int, a, b, c string) string { return []string{a, b, c}[i%3] }

// modeAndLikeJobs: (1) string functions with an optional unit / encoding argument over DATA whose characters differ in
// length, byte count and display width (the in-process mode grid covers the literals); (2) LIKE patterns with multi-byte
// literal parts before / between / after wildcards on short multi-byte values.  Small, run in every round.
func modeAndLikeJobs() []*job {
	var jobs []*job
	sp := []string{"", "́", "​", "́​", "á", "日本", "\U0001F600", "ｱ", "\x01\x1b", "abc"}
	var rows []string
	for i, s := range sp {
		rows = append(rows, fmt.Sprintf("%d,%s", i, "\""+s+"\""))
	}
	files := []fileSpec{{Name: "sp.csv", Data: []byte("i,s\n" + strings.Join(rows, "\n") + "\n")}}
	for _, m := range []string{"'LEN'", "'BYTE'", "'WIDTH'", "'len'", "'XXX'", "NULL", "''"} {
		for _, e := range []string{"", ", 'UTF8'", ", 'SJIS'", ", 'UTF16'", ", 'XXX'"} {
			if e != "" && m != "'BYTE'" && m != "'WIDTH'" {
				continue
			}
			for _, n := range []string{"0", "3", "10"} {
				jobs = append(jobs, &job{Group: "modes", Tags: []string{"modes:LPAD/RPAD " + m + e, "cpu:4"}, Files: files, Opts: cpu4, Stmts: []string{
					"SELECT LPAD('ab', " + n + ", s, " + m + e + "), RPAD(s, " + n + ", 'x', " + m + e + "), LPAD(s, " + n + ", s, " + m + e + ") FROM sp"}})
			}
		}
	}
	for _, e := range []string{"'UTF8'", "'SJIS'", "'UTF16'", "'AUTO'", "'XXX'", "NULL"} {
		jobs = append(jobs, &job{Group: "modes", Tags: []string{"modes:encoding argument " + e}, Files: files, Stmts: []string{
			"SELECT LEN(s), BYTE_LEN(s, " + e + "), WIDTH(s), HEX_ENCODE(s, " + e + "), BASE64_ENCODE(s, " + e + "), HEX_DECODE(HEX_ENCODE(s), " + e + ") FROM sp",
			"SELECT SUBSTR(s, 1, 1), SUBSTRING(s, -1), INSTR(s, s), TRIM(s, s), LTRIM('a' || s, s), UPPER(s), TITLE_CASE(s), REPLACE(s, s, s), LIST_ELEM(s, s, 0) FROM sp"}})
	}
	vals := []string{"東京都港区", "東京都", "é", "éa", "aé", "日", "日本", "ｱｲ", "😀", "a😀b", "é́"}
	pats := []string{"%東京都%区", "東京都%区", "%都%", "東_都%", "é_", "_é", "é%", "%é", "%é%a", "日_", "_日_", "%日%本%", "%😀", "😀_", "_😀_", "%ｱ%ｲ", "ｱ_", "%é́", "é_%_", "%区%都", "\\%é", "é\\_", "東京都港区_", "%東京都港区%"}
	for _, p := range pats {
		var items []string
		for _, v := range vals {
			items = append(items, sqlString(v)+" LIKE "+sqlString(p), sqlString(v)+" NOT LIKE "+sqlString(p))
		}
		jobs = append(jobs, progJob("modes", []string{"like-multibyte:" + p}, nil, "SELECT "+strings.Join(items, ", ")))
		jobs = append(jobs, &job{Group: "modes", Tags: []string{"like-multibyte over data:" + p}, Files: files, Opts: cpu4, Stmts: []string{"SELECT i FROM sp WHERE s LIKE " + sqlString(p) + " OR s || '区' LIKE " + sqlString(p)}})
	}
	return jobs
}
