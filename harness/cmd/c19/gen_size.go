package main

// sizeJobs: REAL FILES (not stdin — only a file reports its size to the loader) whose record counts lie on both
// sides of the loader's internal thresholds (the prepared record set holds 300 records, then its capacity is
// re-estimated from file size / bytes read), in encodings that are more compact or more bulky than the UTF-8
// the loader counts in, over cell repertoires that shrink or grow under transcoding, in every line-oriented
// format.  A deterministic grid first, generated variations (other counts, widths, column numbers, mixed
// repertoires, table functions) in every round.

import (
	"fmt"
	"strings"
	"unicode/utf16"

	"verifharness/hc"
)

// ---------------------------------------------------------------- Shift_JIS for the repertoires used here

var sjisKanji = map[rune][2]byte{'日': {0x93, 0xfa}, '本': {0x96, 0x7b}, '語': {0x8c, 0xea}, '漢': {0x8a, 0xbf}, '字': {0x8e, 0x9a}}

func sjisOf(s string) ([]byte, bool) {
	var out []byte
	for _, r := range s {
		switch {
		case r < 0x80:
			out = append(out, byte(r))
		case r >= 0xff61 && r <= 0xff9f: // half-width katakana: one byte
			out = append(out, byte(r-0xff61+0xa1))
		case r >= 0x3041 && r <= 0x3093: // hiragana
			out = append(out, 0x82, byte(0x9f+(r-0x3041)))
		case r >= 0x30a1 && r <= 0x30f6: // katakana
			b := 0x40 + int(r-0x30a1)
			if b >= 0x7f {
				b++
			}
			out = append(out, 0x83, byte(b))
		default:
			k, ok := sjisKanji[r]
			if !ok {
				return nil, false
			}
			out = append(out, k[0], k[1])
		}
	}
	return out, true
}

type fileEnc struct {
	name   string // tag
	option string // the --encoding value that names it
}

var fileEncs = []fileEnc{{"UTF-8", "UTF8"}, {"UTF-8 BOM", "UTF8M"}, {"SJIS", "SJIS"}, {"UTF-16LE BOM", "UTF16LEM"}, {"UTF-16BE BOM", "UTF16BEM"}, {"UTF-16LE no BOM", "UTF16LE"}}

func encodeAs(enc string, s string) ([]byte, bool) {
	switch enc {
	case "UTF-8":
		return []byte(s), true
	case "UTF-8 BOM":
		return append([]byte{0xef, 0xbb, 0xbf}, s...), true
	case "SJIS":
		return sjisOf(s)
	}
	be := strings.Contains(enc, "BE")
	var out []byte
	put := func(u uint16) {
		if be {
			out = append(out, byte(u>>8), byte(u))
		} else {
			out = append(out, byte(u), byte(u>>8))
		}
	}
	if !strings.Contains(enc, "no BOM") {
		put(0xfeff)
	}
	for _, u := range utf16.Encode([]rune(s)) {
		put(u)
	}
	return out, true
}

// ---------------------------------------------------------------- repertoires

type repertoire struct {
	name  string
	units []string // each one display cell wide or two; a cell is a fixed number of units, so columns stay aligned
}

var repertoires = []repertoire{
	{"ASCII", []string{"a", "b", "x", "7"}},
	{"half-width katakana", []string{"ｱ", "ｲ", "ｳ", "ﾝ", "ﾞ"}},
	{"CJK", []string{"日", "本", "語", "あ", "ア"}},
	{"emoji", []string{"😀", "🎉", "é", "ß"}},
	{"mixed", []string{"a", "ｱ", "日", "1"}},
}

var sizeFormats = []string{"CSV", "TSV", "LTSV", "FIXED", "JSONL"}

var sizeExt = map[string]string{"CSV": ".csv", "TSV": ".tsv", "LTSV": ".ltsv", "FIXED": ".txt", "JSONL": ".jsonl"}

// sizeText: n records of `cols` cells; cell k of every record has the same number of units (so a fixed-length
// rendering is aligned in every encoding), the first cell is the record number.
func sizeText(format string, n int, rep repertoire, cols int, unitsPerCell int, lineBreak string) string {
	var sb strings.Builder
	cell := func(row, k int) string {
		if k == 0 {
			return fmt.Sprintf("%05d", row)
		}
		var c strings.Builder
		for u := 0; u < unitsPerCell; u++ {
			c.WriteString(rep.units[(row+k+u)%len(rep.units)])
		}
		return c.String()
	}
	names := []string{"a", "b", "c", "d", "e", "f", "g", "h"}
	switch format {
	case "CSV", "TSV", "FIXED":
		sep := map[string]string{"CSV": ",", "TSV": "\t", "FIXED": "   "}[format]
		for k := 0; k < cols; k++ {
			if k > 0 {
				sb.WriteString(sep)
			}
			h := names[k%len(names)]
			if format == "FIXED" { // pad the header to the width of the column (in units)
				w := unitsPerCell
				if k == 0 {
					w = 5
				}
				h += strings.Repeat(" ", w-1)
			}
			sb.WriteString(h)
		}
		sb.WriteString(lineBreak)
		for r := 1; r <= n; r++ {
			for k := 0; k < cols; k++ {
				if k > 0 {
					sb.WriteString(sep)
				}
				sb.WriteString(cell(r, k))
			}
			sb.WriteString(lineBreak)
		}
	case "LTSV":
		for r := 1; r <= n; r++ {
			for k := 0; k < cols; k++ {
				if k > 0 {
					sb.WriteString("\t")
				}
				sb.WriteString(names[k%len(names)] + ":" + cell(r, k))
			}
			sb.WriteString(lineBreak)
		}
	case "JSONL":
		for r := 1; r <= n; r++ {
			sb.WriteString("{")
			for k := 0; k < cols; k++ {
				if k > 0 {
					sb.WriteString(",")
				}
				sb.WriteString(`"` + names[k%len(names)] + `":"` + cell(r, k) + `"`)
			}
			sb.WriteString("}" + lineBreak)
		}
	}
	return sb.String()
}

func sizeJob(tagPrefix string, format string, n int, rep repertoire, enc fileEnc, readOpt string, cols, units int, lineBreak string, query string, extra []opt) *job {
	data, ok := encodeAs(enc.name, sizeText(format, n, rep, cols, units, lineBreak))
	if !ok {
		return nil
	}
	name := "f" + sizeExt[format]
	ov := []opt{{"--encoding", readOpt, true}}
	if format == "FIXED" {
		ov = append(ov, opt{"--import-format", "FIXED", true}, opt{"--delimiter-positions", "SPACES", true})
	}
	ov = append(ov, extra...)
	tags := []string{tagPrefix + format, fmt.Sprintf("records:%d", n), "file-encoding:" + enc.name, "read-encoding:" + readOpt, "repertoire:" + rep.name}
	return &job{Group: "size", Tags: tags, Files: []fileSpec{{Name: name, Data: data, Gen: sizeGenCmd(format, n, rep, cols, units, lineBreak, enc.name)}}, Opts: ov, Stmts: []string{strings.ReplaceAll(query, "%f", "`"+name+"`")}}
}

func sizeJobs(g *hc.Gen, generated int, first bool) []*job {
	var jobs []*job
	push := func(j *job) {
		if j != nil {
			jobs = append(jobs, j)
		}
	}
	if first {
		for _, n := range []int{299, 300, 301, 320, 450, 680, 2000} {
			for _, format := range sizeFormats {
				for _, rep := range repertoires {
					for _, enc := range fileEncs {
						for _, read := range []string{enc.option, "AUTO"} {
							push(sizeJob("size:", format, n, rep, enc, read, 3, 6, "\n", "SELECT COUNT(*) FROM %f", nil))
							if n <= 680 {
								push(sizeJob("size:", format, n, rep, enc, read, 3, 6, "\n", "SELECT * FROM %f", nil))
							}
						}
					}
				}
			}
		}
	}
	counts := []int{1, 2, 15, 16, 17, 255, 256, 298, 299, 300, 301, 302, 310, 350, 375, 400, 500, 599, 600, 601, 700, 749, 750, 751, 900, 1200, 3000}
	queries := []string{"SELECT COUNT(*) FROM %f", "SELECT * FROM %f", "SELECT * FROM %f ORDER BY 1 DESC LIMIT 3", "SELECT COUNT(*) FROM %f a JOIN %f b ON a.a = b.a", "UPDATE %f SET a = 1; SELECT COUNT(*) FROM %f"}
	for k := 0; k < generated; k++ {
		n := counts[g.Intn(len(counts))]
		if g.Intn(3) == 0 {
			n = 280 + g.Intn(520)
		}
		format := sizeFormats[g.Intn(len(sizeFormats))]
		rep := repertoires[g.Intn(len(repertoires))]
		enc := fileEncs[g.Intn(len(fileEncs))]
		read := enc.option
		switch g.Intn(5) {
		case 0:
			read = "AUTO"
		case 1:
			read = pick(g, []string{"UTF8", "SJIS", "UTF16", "UTF16LE", "UTF16BE", "UTF8M"}) // not the file's: the loader must refuse or mis-decode, not crash
		}
		cols, units := 1+g.Intn(6), 1+g.Intn(12)
		lb := pick(g, []string{"\n", "\n", "\r\n", "\r"})
		q := pick(g, queries)
		if n > 700 && strings.Contains(q, " JOIN ") {
			q = queries[0] // the join is a nested loop: n² comparisons
		}
		var extra []opt
		if g.Intn(3) == 0 {
			extra = append(extra, opt{"--cpu", pick(g, []string{"1", "4", "16"}), true})
		}
		if g.Intn(4) == 0 {
			extra = append(extra, opt{pick(g, []string{"--no-header", "--without-null", "--allow-uneven-fields"}), "", false})
		}
		j := sizeJob("size:generated ", format, n, rep, enc, read, cols, units, lb, q, extra)
		if j == nil {
			continue
		}
		j.Stmts = strings.Split(j.Stmts[0], "; ")
		// the table-function route carries the encoding as an argument
		if g.Intn(4) == 0 && (format == "CSV" || format == "TSV" || format == "LTSV") {
			name := "f" + sizeExt[format]
			fn := map[string]string{"CSV": "CSV(',', `" + name + "`, '" + read + "')", "TSV": "TSV(`" + name + "`, '" + read + "')", "LTSV": "LTSV(`" + name + "`, '" + read + "')"}[format]
			j.Stmts = []string{"SELECT COUNT(*) FROM " + fn, "SELECT * FROM " + fn + " LIMIT 2"}
			j.Opts = extra
			j.Tags = append(j.Tags, "route:table function with encoding")
		}
		push(j)
	}
	return jobs
}

// sizeGenCmd: a python3 one-liner that writes the same file (for reproducers; checked against sizeText/encodeAs
// by TestSizeGenCmd when the generator is changed).
func sizeGenCmd(format string, n int, rep repertoire, cols, units int, lineBreak, enc string) string {
	codec, bom := map[string][2]string{
		"UTF-8": {"utf-8", ""}, "UTF-8 BOM": {"utf-8", "\\xef\\xbb\\xbf"}, "SJIS": {"cp932", ""},
		"UTF-16LE BOM": {"utf-16-le", "\\xff\\xfe"}, "UTF-16BE BOM": {"utf-16-be", "\\xfe\\xff"}, "UTF-16LE no BOM": {"utf-16-le", ""},
	}[enc][0], ""
	bom = map[string]string{"UTF-8 BOM": `\xef\xbb\xbf`, "UTF-16LE BOM": `\xff\xfe`, "UTF-16BE BOM": `\xfe\xff`}[enc]
	lb := strings.NewReplacer("\n", `\n`, "\r", `\r`).Replace(lineBreak)
	py := fmt.Sprintf(`import sys
U=%s;N=%d;C=%d;W=%d;F=%q;LB="%s";H="abcdefgh"
def cell(r,k): return "%%05d"%%r if k==0 else "".join(U[(r+k+u)%%len(U)] for u in range(W))
S={"CSV":",","TSV":"\t","FIXED":"   "};sep=S.get(F,"")
out=[]
if F in S: out.append(sep.join(H[k%%8]+(" "*((5 if k==0 else W)-1) if F=="FIXED" else "") for k in range(C)))
for r in range(1,N+1):
    if F in S: out.append(sep.join(cell(r,k) for k in range(C)))
    elif F=="LTSV": out.append("\t".join(H[k%%8]+":"+cell(r,k) for k in range(C)))
    else: out.append("{"+",".join("\""+H[k%%8]+"\":\""+cell(r,k)+"\"" for k in range(C))+"}")
sys.stdout.buffer.write(b"%s"+"".join(x+LB for x in out).encode(%q))`, pyList(rep.units), n, cols, units, format, lb, bom, codec)
	return "python3 -c " + shq(py)
}

func pyList(xs []string) string {
	q := make([]string, len(xs))
	for i, x := range xs {
		q[i] = `"` + x + `"`
	}
	return "[" + strings.Join(q, ",") + "]"
}
