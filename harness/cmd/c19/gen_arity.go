package main

// The arity grid: EVERY function name of the linked csvq packages × EVERY argument count 0 … arityMax, through SQL
// text (parser, evaluator glue, the function), in-process through the real Processor.
//
// The parser accepts any number of arguments for any function; what a function does with a count it does not expect
// is decided by hand-written `len(args)` checks in ~130 places (lib/query/function.go, eval.go,
// analytic_function.go).  The static side (extract/errfacts → Gen.argIndexSites / argCountChecks, Props/C19Args.lean)
// proves that every index expression on an argument slice is dominated by such a check; this is its dynamic twin:
//
//   - a call that ends in [Fatal Error] (a recovered panic) is confirmed on the real binary by a job of the normal
//     queue (group "arity") and reported by the usual oracle;
//   - one op line `c19.arity <table> <NAME> <count>` per cell with the implementation's answer lenerr | pass
//     (| mixed:…): the Lean driver answers the same question from the regenerated count checks, so the extracted
//     conditions are tied to the running code (and a function the facts do not know answers `no-fact`);
//   - user-defined scalar / aggregate functions (not in any table) with and without defaults: the count check
//     UserDefinedFunction.CheckArgsLen is what guards `expr.Args[0]` / `expr.Args[1:]` of evalAggregateFunction and
//     Analyze (the reviewed sites of Props/C19Args.lean); its answers are compared with the declared signature here.
//
// Stats: arity_grid_functions, arity_grid_cells (functions × argument counts driven), arity_grid_calls,
// arity_outcome:<class>, and per function `arity_of:<table>:<NAME> 0=… 1=… …` (which count ended how).

import (
	"fmt"
	"os"
	"sort"
	"strings"
	"time"

	"github.com/mithrandie/csvq/lib/parser"
	"github.com/mithrandie/csvq/lib/query"

	"verifharness/hc"
)

const arityMax = 7 // the widest built-in takes 5 arguments (NUMBER_FORMAT, LPAD, RPAD): max + 2

// the same records as the fixture t.csv (the confirmation jobs read the file)
const arityTable = "DECLARE t VIEW (c1, c2, c3); INSERT INTO t VALUES (1, 'a', 1.5), (2, 'b', NULL), (3, NULL, '2012-02-03'), (-4, 'x,y', 'NaN'), (5, '日本', 9223372036854775807);"

// argument vectors: small values of every class (the boundary values themselves are the business of the function
// fuzzer; here the COUNT is the subject, and nothing may ask for a large amount of work)
var arityPool = []string{"'abc'", "2", "1.5", "TRUE", "'2012-02-03 09:18:15'", "NULL", "0", "-1", "'%s'", "'UTF8'", "'a.b'", "'{\"a\":1}'", "'LEN'", "3", "''", "c1", "c2", "c3"}

func arityVectors(k int, rot int, cols bool) [][]string {
	mk := func(f func(i int) string) []string {
		a := make([]string, k)
		for i := range a {
			a[i] = f(i)
		}
		return a
	}
	n := len(arityPool)
	if !cols {
		n -= 3
	}
	vs := [][]string{
		mk(func(int) string { return "NULL" }),
		mk(func(int) string { return "1" }),
		mk(func(int) string { return "'a'" }),
		mk(func(i int) string { return arityPool[(rot+i)%n] }),
		mk(func(i int) string { return arityPool[(rot*7+3*i+5)%n] }),
	}
	if cols {
		vs = append(vs, mk(func(i int) string { return []string{"c1", "c2", "c3"}[i%3] }))
	}
	if k == 0 {
		return vs[:1]
	}
	return vs
}

type arityCell struct {
	table, name string
	count       int
	classes     map[string]int
}

type arityForm struct {
	pre, post string // SELECT <pre>args<post>
	cols      bool
}

func lenErrNumber() int {
	e := query.NewFunctionArgumentLengthError(parser.Function{Name: "x"}, "x", []int{1})
	return hc.ErrNum(e)
}

// arityGrid runs the grid; returns the confirmation jobs for the calls that ended in a fatal error.
func arityGrid(o *hc.Out, seed int64) []*job {
	t0 := time.Now()
	lenErr := lenErrNumber()
	p := hc.NewProc("")
	defer p.Close()
	if _, err := p.Exec(arityTable); err != nil {
		panic("arity grid: " + err.Error())
	}
	rot := int(seed % 97)
	var jobs []*job
	fatalSeen := map[string]bool{}
	calls := 0
	exec := func(sql string) string {
		calls++
		o.Eval()
		res := make(chan string, 1)
		go func() {
			_, err := p.Exec(sql)
			if _, isSyntax := err.(*parser.SyntaxError); isSyntax {
				res <- "syntax" // the form does not exist for this function (IGNORE NULLS, WITHIN GROUP): it never reaches the evaluator
				return
			}
			switch n := hc.ErrNum(err); {
			case err == nil:
				res <- "ok"
			case n == lenErr:
				res <- "lenerr"
			case n == query.ErrorFatal:
				res <- "fatal"
			default:
				res <- fmt.Sprintf("err%d", n)
			}
		}()
		select {
		case c := <-res:
			return c
		case <-time.After(10 * time.Second):
			return "hang"
		}
	}
	run := func(table, name string, forms []arityForm, maxCount int) {
		var line []string
		for k := 0; k <= maxCount; k++ {
			cell := arityCell{table, name, k, map[string]int{}}
			for _, f := range forms {
				for _, v := range arityVectors(k, rot+len(name), f.cols) {
					sql := "SELECT " + f.pre + strings.Join(v, ", ") + f.post
					c := exec(sql)
					cell.classes[c]++
					o.Count("arity_outcome:" + c)
					if c == "fatal" || c == "hang" {
						key := c + ":" + table + ":" + name
						if !fatalSeen[key] {
							fatalSeen[key] = true
							tag := "fn:" + name
							if table == "aggregate" {
								tag = "aggfn:" + name
							} else if table == "analytic" {
								tag = "anafn:" + name
							}
							jobs = append(jobs, progJob("arity", []string{tag, fmt.Sprintf("arity:%d", k), "arity_candidate:" + key}, nil, sql))
						}
						if c == "hang" {
							// the goroutine is lost; a fresh processor for the rest
							p = hc.NewProc("")
							_, _ = p.Exec(arityTable)
						}
					}
				}
			}
			var cls []string
			for c := range cell.classes {
				if c != "syntax" {
					cls = append(cls, c)
				}
			}
			sort.Strings(cls)
			impl := "pass"
			switch {
			case len(cls) == 0:
				impl = "syntax"
			case len(cls) == 1 && cls[0] == "lenerr":
				impl = "lenerr"
			case cell.classes["lenerr"] > 0:
				impl = "mixed:" + strings.Join(cls, "|")
			}
			if table != "udf" {
				o.Case(fmt.Sprintf("c19.arity %s %s %d", table, name, k), impl)
			}
			o.Count("arity_grid_cells")
			o.NonTrivial(fmt.Sprintf("arity:%s:%s:%d:%s", table, name, k, strings.Join(cls, "|")))
			line = append(line, fmt.Sprintf("%d=%s", k, strings.Join(cls, "|")))
		}
		o.Count("arity_grid_functions")
		o.Count("arity_of:" + table + ":" + name + " " + strings.Join(line, " "))
	}

	scalar := []arityForm{{"%s(", ")", false}, {"%s(", ") FROM t", true}}
	with := func(fs []arityForm, name string) []arityForm {
		out := make([]arityForm, len(fs))
		for i, f := range fs {
			out[i] = arityForm{strings.ReplaceAll(f.pre, "%s", name), strings.ReplaceAll(f.post, "%s", name), f.cols}
		}
		return out
	}
	for _, fn := range sortedKeys(query.Functions) {
		run("scalar", fn, with(scalar, fn), arityMax)
	}
	run("special", "NOW", with(scalar, "NOW"), arityMax)
	run("special", "JSON_OBJECT", with(scalar[1:], "JSON_OBJECT"), arityMax)
	run("special", "CALL", with(scalar[:1], "CALL"), 0) // with arguments CALL runs an external program: not generated
	agg := []arityForm{
		{"%s(", ") FROM t", true}, {"%s(DISTINCT ", ") FROM t", true}, {"%s(", ") FROM t GROUP BY c2", true},
		{"%s(", ") OVER () FROM t", true}, {"%s(", ") OVER (PARTITION BY c2 ORDER BY c1) FROM t", true},
		{"%s(", ") OVER (ORDER BY c1 ROWS BETWEEN 1 PRECEDING AND CURRENT ROW) FROM t", true},
	}
	for _, fn := range sortedKeys(query.AggregateFunctions) {
		run("aggregate", fn, with(agg, fn), arityMax)
	}
	list := []arityForm{
		{"%s(", ") FROM t", true}, {"%s(DISTINCT ", ") FROM t", true}, {"%s(", ") WITHIN GROUP (ORDER BY c1) FROM t", true},
		{"%s(", ") FROM t GROUP BY c2", true},
	}
	for _, fn := range []string{"JSON_AGG", "LISTAGG"} {
		run("list", fn, with(list, fn), arityMax)
	}
	ana := []arityForm{
		{"%s(", ") OVER () FROM t", true}, {"%s(", ") OVER (ORDER BY c1) FROM t", true}, {"%s(", ") OVER (PARTITION BY c2 ORDER BY c1) FROM t", true},
		{"%s(", ") IGNORE NULLS OVER (ORDER BY c1) FROM t", true},
		{"%s(", ") OVER (ORDER BY c1 ROWS BETWEEN 1 PRECEDING AND 1 FOLLOWING) FROM t", true},
	}
	for _, fn := range sortedKeys(query.AnalyticFunctions) {
		fs := with(ana, fn)
		if fn == "LISTAGG" || fn == "JSON_AGG" {
			fs = append(fs, arityForm{fn + "(", ") WITHIN GROUP (ORDER BY c1) OVER (PARTITION BY c2) FROM t", true})
		}
		run("analytic", fn, fs, arityMax)
	}

	// user-defined functions: the declared signature against the count check, in every calling position
	type udf struct {
		decl, name string
		min, max   int // accepted argument counts
		forms      []arityForm
	}
	udfs := []udf{
		{"DECLARE uf0 FUNCTION () AS BEGIN RETURN 1; END;", "uf0", 0, 0, scalar},
		{"DECLARE uf2 FUNCTION (@a, @b) AS BEGIN RETURN @a; END;", "uf2", 2, 2, scalar},
		{"DECLARE ufd FUNCTION (@a, @b DEFAULT 1, @c DEFAULT 2) AS BEGIN RETURN @c; END;", "ufd", 1, 3, scalar},
		{"DECLARE ufa FUNCTION (@a DEFAULT 1) AS BEGIN RETURN @a; END;", "ufa", 0, 1, scalar},
		{"DECLARE ua1 AGGREGATE (cur) AS BEGIN VAR @v, @s := 0; WHILE @v IN cur DO @s := @s + 1; END WHILE; RETURN @s; END;", "ua1", 1, 1, agg},
		{"DECLARE ua2 AGGREGATE (cur, @p) AS BEGIN RETURN @p; END;", "ua2", 2, 2, agg},
		{"DECLARE uad AGGREGATE (cur, @p DEFAULT 1, @q DEFAULT 2) AS BEGIN RETURN @q; END;", "uad", 1, 3, agg},
	}
	for _, u := range udfs {
		if _, err := p.Exec(u.decl); err != nil {
			panic("arity grid: " + u.decl + ": " + err.Error())
		}
		// one run per count so that the classes of a count can be judged
		for k := 0; k <= u.max+2; k++ {
			want := k < u.min || k > u.max
			for _, f := range with(u.forms, u.name) {
				for _, v := range arityVectors(k, rot, f.cols) {
					sql := "SELECT " + f.pre + strings.Join(v, ", ") + f.post
					c := exec(sql)
					o.Count("arity_outcome:" + c)
					o.NonTrivial(fmt.Sprintf("arity:udf:%s:%d:%s", u.name, k, c))
					if c == "fatal" || c == "hang" {
						key := c + ":udf:" + u.name
						if !fatalSeen[key] {
							fatalSeen[key] = true
							jobs = append(jobs, progJob("arity", []string{"fn:(user-defined function)", fmt.Sprintf("arity:%d", k), "arity_candidate:" + key}, nil, strings.TrimSuffix(u.decl, ";"), sql))
						}
						continue
					}
					if c != "syntax" && (c == "lenerr") != want {
						o.Law("arity:user_defined_count_check", map[string]interface{}{"declaration": u.decl, "statement": sql, "arguments": k, "accepted_counts": fmt.Sprintf("%d..%d", u.min, u.max), "answer": c})
					}
				}
			}
			o.Count("arity_grid_cells")
		}
		o.Count("arity_grid_functions")
		o.Count("arity_of:udf:" + u.name + fmt.Sprintf(" accepted %d..%d, driven 0..%d in %d forms", u.min, u.max, u.max+2, len(u.forms)))
	}
	o.Stats["arity_grid_calls"] += calls
	fmt.Fprintf(os.Stderr, "c19: arity grid: %d calls, %d functions, %d cells in %.1fs, %d fatal candidates\n",
		calls, o.Stats["arity_grid_functions"], o.Stats["arity_grid_cells"], time.Since(t0).Seconds(), len(jobs))
	return jobs
}
