package main

// Deterministic grids that run unsliced (they are small):
//
//	fieldsGridJobs  the `fields` sub-command builds `SELECT 1 FROM <argument>` and picks the table out of the parse with
//	                type assertions: every shape a FROM clause text can have is a possible argument;
//	preparedJobs    prepared statements from degenerate texts (no statement, several, not a query, placeholders, broken) ×
//	                every consumer of a statement name (EXECUTE [USING], DECLARE … CURSOR FOR name + OPEN [USING] + FETCH,
//	                DISPOSE PREPARE then use, re-PREPARE between declaration and use);
//	roleJobs        every kind of named object (file table, temporary view, cursor, scalar / aggregate function, prepared
//	                statement, variable, undeclared, DUAL) × every syntactic role that takes a name.

import (
	"strconv"
	"strings"

	"github.com/mithrandie/csvq/lib/query"
)

func fieldsGridJobs() []*job {
	files := append(append([]fileSpec{}, fixtures()...), fileSpec{Name: "select", Data: []byte("a,b\n1,2\n")}, fileSpec{Name: "e0.csv"})
	args := []struct{ class, arg string }{
		// files that exist / do not
		{"existing file", "t.csv"}, {"existing file", "./t.csv"}, {"existing file", "j.json"}, {"existing file", "fixed.txt"}, {"existing file", "l.ltsv"}, {"existing file", "jl.jsonl"},
		{"existing file", "e0.csv"}, {"existing file", "prog.sql"}, {"existing file named like a keyword", "select"},
		{"missing file", "nosuch.csv"}, {"missing file", "nosuch"}, {"missing file", "dir/nosuch.csv"}, {"missing file", "nosuch.json"}, {"directory", "."}, {"directory", "/"},
		// table-object spellings
		{"identifier", "t"}, {"identifier", "T"}, {"identifier", "j"}, {"identifier", "fixed"}, {"quoted identifier", "`t`"}, {"quoted identifier", "`t.csv`"}, {"quoted identifier", "`./t.csv`"},
		{"quoted identifier", "`nosuch.csv`"}, {"double-quoted", "\"t.csv\""}, {"string", "'t.csv'"}, {"qualified", "t.c1"}, {"qualified", "t.*"}, {"qualified", "a.b.c"},
		{"url", "file:t.csv"}, {"url", "file:./t.csv"}, {"url", "file:///nonexistent/x.csv"}, {"url", "file:"}, {"url", "`file:t.csv`"}, {"url", "file:j.json"},
		{"stdin", "STDIN"}, {"stdin", "stdin"}, {"stdin", "`STDIN`"}, {"stdin", "stdin s"},
		{"table function", "CSV(',', `t.csv`)"}, {"table function", "CSV(',', t)"}, {"table function", "CSV(',', `t.csv`, 'UTF8', TRUE, FALSE)"}, {"table function", "TSV(`t.csv`)"},
		{"table function", "JSON('a', `j.json`)"}, {"table function", "JSON('', j)"}, {"table function", "JSONL('', `jl.jsonl`)"}, {"table function", "FIXED('[5,9,12]', `fixed.txt`)"},
		{"table function", "FIXED('SPACES', `fixed.txt`)"}, {"table function", "LTSV(`l.ltsv`)"}, {"table function", "CSV(',', stdin)"}, {"table function", "JSON('', stdin)"},
		{"table function", "CSV()"}, {"table function", "CSV(1)"}, {"table function", "CSV(',', `nosuch.csv`)"}, {"table function", "JSON('a')"}, {"table function", "LTSV()"}, {"table function", "FIXED('x', t)"},
		{"table function", "CSV(',', `t.csv`) x"}, {"table function", "CSV(',', file:t.csv)"}, {"table function", "CSV(',', (select 1))"}, {"table function", "NOSUCH(`t.csv`)"},
		{"inline table", "CSV_INLINE(',', 'a,b\n1,2')"}, {"inline table", "CSV_INLINE(',', `t.csv`)"}, {"inline table", "JSON_INLINE('', '[{\"a\":1}]')"}, {"inline table", "JSON_INLINE('a', `j.json`)"},
		{"inline table", "JSON_TABLE('', '[{\"a\":1}]')"}, {"inline table", "JSON_TABLE('a', `j.json`)"}, {"inline table", "JSON_INLINE('', '')"}, {"inline table", "JSON_INLINE('[', '{}')"},
		{"inline table", "CSV_INLINE(',', '')"}, {"inline table", "JSON_INLINE('', (select 1))"}, {"inline table", "JSON_INLINE('', '[1,2]') x"}, {"inline table", "CSV_INLINE(',', file:t.csv)"},
		{"dual", "dual"}, {"dual", "DUAL"}, {"dual", "dual d"}, {"dual", "`dual`"},
		// shapes of a FROM clause that are not one plain table
		{"parenthesised table", "(t)"}, {"parenthesised table", "((t))"}, {"parenthesised table", "(`t.csv`)"}, {"parenthesised table", "(t) x"}, {"parenthesised table", "(t, u)"}, {"parenthesised table", "(t join u on 1)"},
		{"sub-query", "(select 1)"}, {"sub-query", "(select 1) x"}, {"sub-query", "(select 1) as x"}, {"sub-query", "(select * from t) x"}, {"sub-query", "(select 1 from dual) x"}, {"sub-query", "((select 1)) x"},
		{"sub-query", "(select 1 union select 2) x"}, {"sub-query", "lateral (select 1) x"}, {"sub-query", "(select @a := 1) x"},
		{"set operation", "t union select 1"}, {"set operation", "t union all select c1 from t"}, {"set operation", "t except select 1"}, {"set operation", "t intersect select 1"}, {"set operation", "dual union select 1 from dual"},
		{"set operation", "t union select 1 order by 1"},
		{"join list", "t, u"}, {"join list", "t join u on t.c1 = u.c1"}, {"join list", "t cross join u"}, {"join list", "t natural join u"}, {"join list", "t left join u using (c1)"}, {"join list", "t full outer join u on 1"},
		{"join list", "t a, u b"}, {"join list", "(select 1) x, t"}, {"join list", "dual, t"},
		{"alias", "t a"}, {"alias", "t as a"}, {"alias", "`t.csv` `x y`"}, {"alias", "t select"},
		{"trailing clause", "t where 1"}, {"trailing clause", "t where 1 = 1"}, {"trailing clause", "t group by c1"}, {"trailing clause", "t having 1"}, {"trailing clause", "t order by 1"}, {"trailing clause", "t limit 1"},
		{"trailing clause", "t limit 1 offset 1"}, {"trailing clause", "t for update"}, {"trailing clause", "t into @a"},
		{"several statements", "t; select 1"}, {"several statements", "t;"}, {"several statements", ";"}, {"several statements", "t; t"}, {"several statements", "t; commit"},
		{"comment", "t -- c"}, {"comment", "t /* c */"}, {"comment", "-- only a comment"}, {"comment", "/* only a comment */"}, {"comment", "/* open"},
		{"empty", ""}, {"empty", " "}, {"empty", "\t"}, {"empty", "\n"},
		{"keyword", "from"}, {"keyword", "table"}, {"keyword", "null"}, {"keyword", "true"}, {"keyword", "count"}, {"keyword", "union"}, {"keyword", "where"}, {"keyword", "as"}, {"keyword", "join"}, {"keyword", "cursor"},
		{"keyword", "fields"}, {"keyword", "stdin stdin"},
		{"other expression", "@var"}, {"other expression", "@%HOME"}, {"other expression", "@@CPU"}, {"other expression", "1"}, {"other expression", "*"}, {"other expression", "?"}, {"other expression", ":a"},
		{"other expression", "t x y"}, {"other expression", "t ("}, {"other expression", ")"}, {"other expression", "`"}, {"other expression", "'"}, {"other expression", "\""},
		{"other expression", strings.Repeat("(", 200) + "t" + strings.Repeat(")", 200)}, {"other expression", strings.Repeat("t, ", 300) + "t"},
	}
	var jobs []*job
	for _, a := range args {
		tags := []string{"subcommand-text:fields (grid) " + a.class, "fields-arg:" + trunc(a.arg, 30)}
		j := &job{Group: "subcmd", Tags: tags, Files: files, Fixed: []string{"fields", a.arg}}
		if a.class == "stdin" || strings.Contains(a.arg, "stdin") {
			j.HasStdin, j.Stdin = true, []byte("a,b\n1,2\n")
			k := j.clone()
			k.HasStdin, k.Stdin = false, nil
			k.Tags = append(append([]string{}, tags...), "stdin:missing (/dev/null)")
			jobs = append(jobs, k)
		}
		jobs = append(jobs, j)
		switch a.class {
		case "double-quoted", "string", "quoted identifier", "alias":
			k := j.clone()
			k.Opts = []opt{{"--ansi-quotes", "", false}}
			jobs = append(jobs, k)
		case "identifier", "table function", "inline table", "sub-query", "set operation", "parenthesised table":
			k := j.clone()
			k.Opts = []opt{{"--import-format", "JSON", true}, {"--json-query", "a", true}}
			jobs = append(jobs, k)
		}
	}
	return jobs
}

// ---------------------------------------------------------------- prepared statements

// (a text that executes ITSELF — PREPARE st FROM 'EXECUTE st' — nests Processor.ExecuteStatement without end: an unbounded
// recursion like a user-defined function that calls itself; such programs are not generated, see "not_driven")
var preparedTexts = []struct{ class, text string }{
	{"no statement", ""}, {"no statement", " "}, {"no statement", "\n\t"}, {"no statement", "/* later */"}, {"no statement", "-- later"}, {"no statement", ";"}, {"no statement", ";;"},
	{"one query", "SELECT 1"}, {"one query", "SELECT c1 FROM t"}, {"one query", "SELECT 1;"}, {"one query", "SELECT 1 FROM nosuch"}, {"one query", "SELECT 1 UNION SELECT 2"}, {"one query", "SELECT 1 INTO @v"},
	{"placeholders", "SELECT ?"}, {"placeholders", "SELECT ?, ?"}, {"placeholders", "SELECT :a"}, {"placeholders", "SELECT ?, :a, ?"}, {"placeholders", "SELECT c1 FROM t WHERE c1 = ? LIMIT ?"},
	{"placeholders", "SELECT 1 FROM t LIMIT ?"}, {"placeholders", "SELECT * FROM ?"},
	{"several statements", "SELECT 1; SELECT 2"}, {"several statements", "SELECT 1; PRINT 2"}, {"several statements", "PRINT 1; SELECT 2"}, {"several statements", "SELECT ?; SELECT ?"},
	{"not a query", "PRINT 1"}, {"not a query", "UPDATE u SET c2 = 1"}, {"not a query", "VAR @x := 1"}, {"not a query", "COMMIT"}, {"not a query", "DECLARE c2 CURSOR FOR SELECT 1"}, {"not a query", "INSERT INTO u VALUES (?, ?, ?)"},
	{"not a query", "EXIT 3"}, {"not a query", "IF TRUE THEN SELECT 1; END IF"}, {"not a query", "SET @@CPU TO 1"},
	{"uses prepared statements itself", "PREPARE z FROM ''SELECT 1''"}, {"uses prepared statements itself", "EXECUTE other"}, {"uses prepared statements itself", "DISPOSE PREPARE st"},
	{"uses prepared statements itself", "DECLARE cur CURSOR FOR st"}, {"uses prepared statements itself", "OPEN cur"}, {"uses prepared statements itself", "SOURCE `prog.sql`"},
	{"broken", "SELECT"}, {"broken", "SELECT ''"}, {"broken", "SELECT (1"}, {"broken", "?"}, {"broken", "\\"},
}

var preparedConsumers = []struct {
	tag   string
	stmts []string
}{
	{"EXECUTE", []string{"EXECUTE st"}},
	{"EXECUTE USING one value", []string{"EXECUTE st USING 1"}},
	{"EXECUTE USING positional and named", []string{"EXECUTE st USING 1, 2 AS a, 'x'"}},
	{"EXECUTE twice", []string{"EXECUTE st", "EXECUTE st USING 1, 2"}},
	{"cursor FOR statement, OPEN", []string{"DECLARE cur CURSOR FOR st", "OPEN cur"}},
	{"cursor FOR statement, OPEN USING", []string{"DECLARE cur CURSOR FOR st", "OPEN cur USING 1"}},
	{"cursor FOR statement, OPEN USING named", []string{"DECLARE cur CURSOR FOR st", "OPEN cur USING 1, 2 AS a, 3"}},
	{"cursor FOR statement, OPEN FETCH CLOSE", []string{"DECLARE cur CURSOR FOR st", "OPEN cur", "VAR @a, @b", "FETCH cur INTO @a", "FETCH cur INTO @a, @b", "SELECT CURSOR cur COUNT, CURSOR cur IS IN RANGE", "CLOSE cur", "OPEN cur USING 1", "CLOSE cur"}},
	{"cursor FOR statement, loop", []string{"DECLARE cur CURSOR FOR st", "OPEN cur", "VAR @a", "WHILE @a IN cur DO PRINT @a; END WHILE", "CLOSE cur"}},
	{"DISPOSE PREPARE then EXECUTE", []string{"DISPOSE PREPARE st", "EXECUTE st"}},
	{"DISPOSE PREPARE then cursor", []string{"DISPOSE PREPARE st", "DECLARE cur CURSOR FOR st", "OPEN cur"}},
	{"cursor declared, DISPOSE PREPARE, OPEN", []string{"DECLARE cur CURSOR FOR st", "DISPOSE PREPARE st", "OPEN cur"}},
	{"cursor declared, statement prepared again, OPEN", []string{"DECLARE cur CURSOR FOR st", "DISPOSE PREPARE st", "PREPARE st FROM ''", "OPEN cur", "CLOSE cur", "DISPOSE PREPARE st", "PREPARE st FROM 'SELECT 1; SELECT 2'", "OPEN cur"}},
	{"SHOW STATEMENTS", []string{"SHOW STATEMENTS", "DISPOSE PREPARE st", "SHOW STATEMENTS"}},
	{"inside a function", []string{"DECLARE f FUNCTION () AS BEGIN EXECUTE st; DECLARE cur CURSOR FOR st; OPEN cur; RETURN 1; END", "SELECT f() FROM t"}},
}

func preparedJobs() []*job {
	var jobs []*job
	for _, t := range preparedTexts {
		for _, c := range preparedConsumers {
			lit := "'" + t.text + "'"
			if !strings.Contains(t.text, "''") {
				lit = sqlString(t.text)
			}
			stmts := append([]string{"PREPARE st FROM " + lit}, c.stmts...)
			jobs = append(jobs, progJob("roles", []string{"stmt:PREPARE", "prepared-text:" + t.class, "prepared-consumer:" + c.tag}, nil, stmts...))
		}
	}
	// the statement text from a variable / an expression that is not a string
	for _, src := range []string{"@t", "NULL", "1", "TRUE", "''", "(SELECT '')", "'SELECT 1' || ''", "@@CPU", "@%NOSUCH"} {
		jobs = append(jobs, progJob("roles", []string{"stmt:PREPARE", "prepared-text:from " + src, "prepared-consumer:EXECUTE and cursor"}, nil,
			"VAR @t := ''", "PREPARE st FROM "+src, "EXECUTE st", "DECLARE cur CURSOR FOR st", "OPEN cur"))
	}
	return jobs
}

// ---------------------------------------------------------------- names in the wrong role

func roleJobs() []*job {
	preamble := []string{
		"DECLARE v VIEW (a)", "DECLARE cur CURSOR FOR SELECT 1", "DECLARE f FUNCTION () AS BEGIN RETURN 1; END",
		"DECLARE ag AGGREGATE (c) AS BEGIN RETURN 1; END", "PREPARE st FROM 'SELECT 1'", "VAR @x := 1", "DECLARE pc CURSOR FOR st",
	}
	names := []struct{ kind, name string }{
		{"file table", "t"}, {"temporary view", "v"}, {"cursor", "cur"}, {"cursor for a statement", "pc"}, {"scalar function", "f"}, {"aggregate function", "ag"},
		{"prepared statement", "st"}, {"variable name", "x"}, {"undeclared", "nosuch"}, {"dual", "dual"}, {"built-in function name", "count"}, {"quoted file", "`t.csv`"},
	}
	roles := []struct{ tag, tmpl string }{
		{"EXECUTE", "EXECUTE %s"}, {"EXECUTE USING", "EXECUTE %s USING 1"}, {"DISPOSE PREPARE", "DISPOSE PREPARE %s"},
		{"DECLARE CURSOR FOR name, OPEN", "DECLARE c9 CURSOR FOR %s; OPEN c9"}, {"DECLARE CURSOR FOR name, OPEN USING", "DECLARE c9 CURSOR FOR %s; OPEN c9 USING 1, 2 AS a"},
		{"OPEN", "OPEN %s"}, {"OPEN USING", "OPEN %s USING 1"}, {"OPEN twice", "OPEN %s; OPEN %s"}, {"FETCH", "VAR @a; FETCH %s INTO @a"}, {"FETCH ABSOLUTE", "VAR @a; FETCH ABSOLUTE 0 %s INTO @a"},
		{"CLOSE", "CLOSE %s"}, {"OPEN FETCH CLOSE DISPOSE", "VAR @a; OPEN %s; FETCH %s INTO @a; CLOSE %s; DISPOSE CURSOR %s; OPEN %s"},
		{"DISPOSE CURSOR", "DISPOSE CURSOR %s"}, {"DISPOSE CURSOR while open", "OPEN %s; DISPOSE CURSOR %s; FETCH %s INTO @x"},
		{"cursor status", "SELECT CURSOR %s IS OPEN, CURSOR %s IS NOT IN RANGE, CURSOR %s COUNT"}, {"WHILE IN", "VAR @a; WHILE @a IN %s DO PRINT @a; END WHILE"},
		{"DISPOSE FUNCTION", "DISPOSE FUNCTION %s"}, {"DISPOSE VIEW", "DISPOSE VIEW %s"}, {"DISPOSE (variable)", "DISPOSE @%s"},
		{"call", "SELECT %s()"}, {"call with arguments", "SELECT %s(1, 2)"}, {"call over rows", "SELECT %s(c1) FROM t"}, {"call OVER", "SELECT %s(c1) OVER () FROM t"}, {"call OVER without arguments", "SELECT %s() OVER (ORDER BY c1) FROM t"},
		{"call WITHIN GROUP", "SELECT %s(c1) WITHIN GROUP (ORDER BY c1) FROM t"}, {"call DISTINCT", "SELECT %s(DISTINCT c1) FROM t GROUP BY c2"},
		{"FROM", "SELECT * FROM %s"}, {"FROM with alias and join", "SELECT * FROM %s a JOIN %s b ON 1 = 1"}, {"sub-query FROM", "SELECT (SELECT COUNT(*) FROM %s)"},
		{"SHOW FIELDS", "SHOW FIELDS FROM %s"}, {"UPDATE", "UPDATE %s SET c1 = 1"}, {"INSERT", "INSERT INTO %s VALUES (1)"}, {"DELETE", "DELETE FROM %s"}, {"REPLACE", "REPLACE INTO %s (c1) USING (c1) VALUES (1)"},
		{"ALTER ADD", "ALTER TABLE %s ADD z"}, {"ALTER SET", "ALTER TABLE %s SET FORMAT TO JSON"}, {"CREATE TABLE", "CREATE TABLE %s (a)"}, {"DECLARE VIEW again", "DECLARE %s VIEW (a)"},
		{"DECLARE CURSOR again", "DECLARE %s CURSOR FOR SELECT 2"}, {"DECLARE FUNCTION again", "DECLARE %s FUNCTION () AS BEGIN RETURN 2; END"}, {"DECLARE AGGREGATE again", "DECLARE %s AGGREGATE (c) AS BEGIN RETURN 2; END"},
		{"PREPARE again", "PREPARE %s FROM 'SELECT 2'"}, {"VAR again", "VAR @%s := 2"}, {"column reference", "SELECT %s FROM t"}, {"qualified column", "SELECT %s.c1 FROM t"},
		{"SELECT INTO", "SELECT 1 INTO @%s"}, {"recursive table", "WITH RECURSIVE %s (n) AS (SELECT 1 UNION ALL SELECT n + 1 FROM %s WHERE n < 3) SELECT * FROM %s"}, {"inline table", "WITH %s AS (SELECT 1) SELECT * FROM %s"},
	}
	var jobs []*job
	for _, n := range names {
		for _, r := range roles {
			body := strings.ReplaceAll(r.tmpl, "%s", n.name)
			stmts := append(append([]string{}, preamble...), strings.Split(body, "; ")...)
			jobs = append(jobs, progJob("roles", []string{"stmt:role grid", "role:" + r.tag, "name-kind:" + n.kind}, nil, stmts...))
		}
	}
	return jobs
}

// ---------------------------------------------------------------- names and table objects through the "other" grammar rule

// quotedNameJobs: a function name written as a QUOTED identifier takes the generic production identifier '(' arguments ')' even
// when the name is a token with a production of its own (JSON_OBJECT '(' fields ')', COUNT, LISTAGG, SUBSTRING … FROM, IF, REPLACE,
// analytic names …): the evaluator still dispatches on the name and meets an argument list of another shape.
func quotedNameJobs() []*job {
	names := append(append(append([]string{}, sortedKeys(query.Functions)...), sortedKeys(query.AggregateFunctions)...), sortedKeys(query.AnalyticFunctions)...)
	names = append(names, "JSON_OBJECT", "NOW", "CALL", "LISTAGG", "JSON_AGG", "IF", "REPLACE", "SUBSTRING", "COUNT", "CASE", "CAST", "CURSOR", "EXISTS", "JSON_ROW", "JSON_TABLE", "CSV", "DUAL", "STDIN")
	argss := [][]string{{}, {"c1"}, {"1"}, {"c1", "c2"}, {"*"}, {"c1 AS a"}, {"1", "2", "3"}}
	var jobs []*job
	seen := map[string]bool{}
	for _, n := range names {
		if seen[n] {
			continue
		}
		seen[n] = true
		for _, a := range argss {
			if n == "CALL" && len(a) > 0 {
				continue // would run an external program
			}
			call := "`" + n + "`(" + strings.Join(a, ", ") + ")"
			tags := []string{"stmt:quoted function name", "quoted-name:" + n, "arity:" + strconv.Itoa(len(a))}
			jobs = append(jobs, progJob("roles", tags, nil, "SELECT "+call+" FROM t"))
			if len(a) == 1 {
				jobs = append(jobs, progJob("roles", tags, nil, "SELECT "+call+" OVER () FROM t"))
				jobs = append(jobs, progJob("roles", tags, nil, "SELECT "+call))
			}
		}
	}
	return jobs
}

// dmlTargetJobs: every shape of table object where a statement expects a plain table.
func dmlTargetJobs() []*job {
	objects := []struct{ class, obj string }{
		{"identifier", "t"}, {"quoted file", "`t.csv`"}, {"parenthesised table", "(t)"}, {"parenthesised table", "((t))"}, {"parenthesised join", "(t JOIN u ON t.c1 = u.c1)"},
		{"join", "t JOIN u ON t.c1 = u.c1"}, {"cross join", "t CROSS JOIN u"}, {"table list", "t, u"}, {"alias", "t x"}, {"sub-query", "(SELECT 1) x"}, {"sub-query", "(SELECT * FROM t) x"},
		{"lateral", "t CROSS JOIN LATERAL (SELECT 1) x"}, {"dual", "DUAL"}, {"stdin", "STDIN"}, {"table function", "CSV(',', `t.csv`)"}, {"table function", "CSV(',', `t.csv`) x"},
		{"inline table", "CSV_INLINE(',', 'a,b\n1,2')"}, {"inline table", "JSON_INLINE('', '[{\"a\":1}]') j"}, {"url", "file:t.csv"}, {"file function", "FILE::('t.csv')"}, {"data function", "DATA::('a,b')"},
		{"temporary view", "v"}, {"missing", "nosuch"}, {"keyword", "select"},
	}
	tmpls := []struct{ tag, tmpl string }{
		{"DELETE FROM", "DELETE FROM %s"}, {"DELETE FROM WHERE", "DELETE FROM %s WHERE 1 = 1"}, {"DELETE x FROM", "DELETE t FROM %s"}, {"DELETE with CTE", "WITH w AS (SELECT 1) DELETE FROM %s"},
		{"UPDATE", "UPDATE %s SET c1 = 1"}, {"UPDATE FROM", "UPDATE t SET c1 = 1 FROM %s"}, {"INSERT VALUES", "INSERT INTO %s VALUES (1, 2, 3)"}, {"INSERT SELECT", "INSERT INTO %s SELECT 1, 2, 3"},
		{"REPLACE", "REPLACE INTO %s USING (c1) VALUES (1, 2, 3)"}, {"ALTER ADD", "ALTER TABLE %s ADD z"}, {"ALTER DROP", "ALTER TABLE %s DROP c1"}, {"ALTER RENAME", "ALTER TABLE %s RENAME c1 TO z"},
		{"ALTER SET", "ALTER TABLE %s SET FORMAT TO 'JSON'"}, {"SHOW FIELDS", "SHOW FIELDS FROM %s"}, {"SELECT FOR UPDATE", "SELECT * FROM %s FOR UPDATE"}, {"CREATE TABLE AS", "CREATE TABLE `n.csv` AS SELECT * FROM %s"},
		{"DISPOSE VIEW", "DISPOSE VIEW %s"}, {"cursor", "DECLARE c CURSOR FOR SELECT * FROM %s; OPEN c"}, {"sub-query IN", "SELECT 1 WHERE 1 IN (SELECT c1 FROM %s)"},
	}
	var jobs []*job
	for _, o := range objects {
		for _, t := range tmpls {
			stmts := append([]string{"DECLARE v VIEW (c1, c2, c3)"}, strings.Split(strings.ReplaceAll(t.tmpl, "%s", o.obj), "; ")...)
			stmts = append(stmts, "ROLLBACK")
			jobs = append(jobs, progJob("roles", []string{"stmt:table object grid", "table-object:" + o.class, "target-of:" + t.tag}, nil, stmts...))
		}
	}
	return jobs
}
