package main

import (
	"fmt"
	"strings"

	"github.com/mithrandie/csvq/lib/option"
	"github.com/mithrandie/csvq/lib/query"

	"verifharness/hc"
)

// A template is one program (statements separated by ";;"); every § is a hole filled from the boundary pool.
type tmpl struct {
	tag  string
	text string
}

// clauses, operators and expressions of the SELECT syntax (docs: select-query, set-operators, common-table-expression,
// comparison / logic / arithmetic / string operators, analytic functions, json, cursor …)
var clauseTemplates = []tmpl{
	{"LIMIT", "SELECT * FROM big LIMIT §"},
	{"LIMIT PERCENT", "SELECT * FROM big LIMIT § PERCENT"},
	{"LIMIT WITH TIES", "SELECT * FROM big ORDER BY b LIMIT § WITH TIES"},
	{"LIMIT PERCENT WITH TIES", "SELECT * FROM big ORDER BY b LIMIT § PERCENT WITH TIES"},
	{"LIMIT OFFSET", "SELECT * FROM big LIMIT § OFFSET §"},
	{"OFFSET", "SELECT * FROM big OFFSET §"},
	{"OFFSET FETCH", "SELECT * FROM big ORDER BY b OFFSET § ROWS FETCH FIRST § ROWS ONLY"},
	{"FETCH WITH TIES", "SELECT * FROM big ORDER BY b FETCH NEXT § ROWS WITH TIES"},
	{"FETCH PERCENT", "SELECT * FROM big ORDER BY b OFFSET § FETCH FIRST § PERCENT ROWS WITH TIES"},
	{"LIMIT in subquery", "SELECT * FROM (SELECT * FROM t LIMIT § OFFSET §) x"},
	{"ORDER BY", "SELECT * FROM big ORDER BY § DESC NULLS FIRST, § ASC NULLS LAST"},
	{"GROUP BY", "SELECT COUNT(*) FROM big GROUP BY §"},
	{"GROUP BY", "SELECT §, COUNT(*) FROM big GROUP BY b"},
	{"HAVING", "SELECT b, COUNT(*) FROM big GROUP BY b HAVING §"},
	{"WHERE", "SELECT * FROM big WHERE §"},
	{"DISTINCT", "SELECT DISTINCT §, b FROM big"},
	{"IN", "SELECT * FROM big WHERE i IN (§, §, §)"},
	{"IN row values", "SELECT * FROM big WHERE (i, s) IN ((§, §), (§, §))"},
	{"IN row values", "SELECT * FROM big WHERE (i, s) IN ((§, §), (§))"},
	{"IN subquery", "SELECT * FROM big WHERE i NOT IN (SELECT § FROM t)"},
	{"BETWEEN", "SELECT * FROM big WHERE i BETWEEN § AND §"},
	{"BETWEEN row values", "SELECT * FROM big WHERE (i, b) NOT BETWEEN (§, §) AND (§, §)"},
	{"LIKE", "SELECT * FROM big WHERE s LIKE §"},
	{"LIKE", "SELECT § LIKE §"},
	{"ANY", "SELECT * FROM big WHERE i = ANY (SELECT § FROM t)"},
	{"ALL", "SELECT * FROM big WHERE (i, b) > ALL ((§, §), (§, §))"},
	{"EXISTS", "SELECT * FROM t WHERE EXISTS (SELECT § FROM big WHERE §)"},
	{"CASE", "SELECT CASE § WHEN § THEN § WHEN § THEN § ELSE § END"},
	{"CASE", "SELECT CASE WHEN § THEN § END FROM big"},
	{"arithmetic +", "SELECT § + §"}, {"arithmetic -", "SELECT § - §"}, {"arithmetic *", "SELECT § * §"},
	{"arithmetic /", "SELECT § / §"}, {"arithmetic %", "SELECT § % §"},
	{"arithmetic on columns", "SELECT i + §, f * §, i / §, i % § FROM big"},
	{"unary", "SELECT -§, +§, !§, NOT §"},
	{"concat", "SELECT § || § || §"},
	{"logic", "SELECT § AND §, § OR §, NOT (§ AND §)"},
	{"comparison", "SELECT § = §, § < §, § <= §, § <> §, § == §"},
	{"comparison row values", "SELECT (§, §) = (§, §), (§, §) < (§, §)"},
	{"comparison row values", "SELECT (§, §) = (§, §, §)"},
	{"IS", "SELECT § IS NULL, § IS NOT TRUE, § IS UNKNOWN, § IS §"},
	{"scalar subquery", "SELECT (SELECT § FROM big)"},
	{"scalar subquery", "SELECT (SELECT i, s FROM big LIMIT §)"},
	{"variable", "SELECT @a := §, @a, @b"},
	{"placeholders outside prepare", "SELECT ?, :a"},
	{"JOIN ON", "SELECT * FROM t a JOIN big b ON §"},
	{"JOIN ON", "SELECT * FROM t a JOIN big b ON a.c1 = b.i AND §"},
	{"JOIN USING", "SELECT * FROM t a JOIN t b USING (c1, c2)"},
	{"JOIN USING", "SELECT * FROM t a JOIN big b USING (c1)"},
	{"NATURAL JOIN", "SELECT * FROM t NATURAL JOIN u"},
	{"LEFT JOIN", "SELECT * FROM t a LEFT JOIN big b ON a.c1 = b.i AND § WHERE §"},
	{"RIGHT JOIN", "SELECT * FROM big b RIGHT JOIN t a ON a.c1 = b.i AND §"},
	{"FULL JOIN", "SELECT * FROM t a FULL JOIN u b ON §"},
	{"CROSS JOIN", "SELECT * FROM t CROSS JOIN big CROSS JOIN u LIMIT §"},
	{"LATERAL", "SELECT * FROM t a, LATERAL (SELECT * FROM big WHERE i = a.c1 LIMIT §) b"},
	{"LATERAL", "SELECT * FROM t a LEFT JOIN LATERAL (SELECT § AS x FROM big WHERE i > a.c1 LIMIT §) b ON §"},
	{"LATERAL", "SELECT * FROM t a RIGHT JOIN LATERAL (SELECT 1) b ON TRUE"},
	{"UNION", "SELECT * FROM t UNION SELECT §, §, §"},
	{"UNION ALL", "SELECT c1 FROM t UNION ALL SELECT § UNION ALL SELECT §, §"},
	{"EXCEPT", "SELECT * FROM t EXCEPT ALL SELECT §, §, §"},
	{"INTERSECT", "SELECT c1 FROM t INTERSECT SELECT i FROM big LIMIT §"},
	{"WITH", "WITH x (a, b) AS (SELECT §, §) SELECT * FROM x, x y"},
	{"WITH", "WITH x (a) AS (SELECT §, §) SELECT * FROM x"},
	{"WITH RECURSIVE", "WITH RECURSIVE r (n) AS (SELECT 1 UNION ALL SELECT n + 1 FROM r WHERE n < §) SELECT COUNT(*) FROM r"},
	{"WITH RECURSIVE", "WITH RECURSIVE r (n) AS (SELECT § UNION SELECT n || § FROM r WHERE LEN(n) < 6) SELECT * FROM r LIMIT §"},
	{"WITH RECURSIVE nested", "WITH RECURSIVE r (n) AS (SELECT 1 UNION ALL SELECT n + 1 FROM r, r r2 WHERE r.n < 4) SELECT COUNT(*) FROM r LIMIT §"},
	{"SUBSTRING FROM FOR", "SELECT SUBSTRING(s FROM § FOR §) FROM big"},
	{"SUBSTRING FROM", "SELECT SUBSTRING(§ FROM §)"},
	{"NTILE", "SELECT NTILE(§) OVER (ORDER BY i) FROM big"},
	{"NTILE", "SELECT NTILE(§) OVER (PARTITION BY b ORDER BY i) FROM big"},
	{"NTH_VALUE", "SELECT NTH_VALUE(i, §) OVER (ORDER BY i) FROM big"},
	{"NTH_VALUE", "SELECT NTH_VALUE(n, §) IGNORE NULLS OVER (PARTITION BY b ORDER BY i ROWS BETWEEN 2 PRECEDING AND 2 FOLLOWING) FROM big"},
	{"LAG", "SELECT LAG(i, §, §) OVER (ORDER BY i) FROM big"},
	{"LEAD", "SELECT LEAD(n, §) IGNORE NULLS OVER (PARTITION BY § ORDER BY §) FROM big"},
	{"FIRST_VALUE", "SELECT FIRST_VALUE(§) OVER (), LAST_VALUE(n) IGNORE NULLS OVER (ORDER BY i) FROM big"},
	{"window frame", "SELECT SUM(i) OVER (ORDER BY i ROWS BETWEEN § PRECEDING AND § FOLLOWING) FROM big"},
	{"window frame", "SELECT AVG(f) OVER (PARTITION BY b ORDER BY i ROWS § PRECEDING) FROM big"},
	{"window frame", "SELECT MAX(i) OVER (ORDER BY i ROWS BETWEEN § FOLLOWING AND § PRECEDING) FROM big"},
	{"analytic outside select", "SELECT * FROM big WHERE ROW_NUMBER() OVER (ORDER BY i) < §"},
	{"analytic ORDER BY", "SELECT RANK() OVER (ORDER BY §), DENSE_RANK() OVER (PARTITION BY § ORDER BY §), CUME_DIST() OVER (ORDER BY b), PERCENT_RANK() OVER (ORDER BY b) FROM big"},
	{"COUNT(*) OVER", "SELECT i, COUNT(*) OVER (), COUNT(*) OVER (PARTITION BY b) FROM big"},
	{"LISTAGG", "SELECT LISTAGG(s, §) WITHIN GROUP (ORDER BY §) FROM big"},
	{"LISTAGG", "SELECT LISTAGG(DISTINCT s, §) FROM big GROUP BY b"},
	{"JSON_AGG", "SELECT JSON_AGG(§) WITHIN GROUP (ORDER BY i DESC) FROM big"},
	{"nested aggregate", "SELECT SUM(COUNT(§)) FROM big"},
	{"aggregate without grouping", "SELECT i, COUNT(§) FROM big"},
	{"table object CSV", "SELECT * FROM CSV(§, `t.csv`, §, §, §)"},
	{"table object CSV", "SELECT * FROM CSV(§, `t.csv`)"},
	{"table object TSV", "SELECT * FROM TSV(`t.csv`, §, §, §)"},
	{"table object FIXED", "SELECT * FROM FIXED(§, `fixed.txt`, §, §, §)"},
	{"table object FIXED", "SELECT * FROM FIXED(§, `fixed.txt`)"},
	{"table object JSON", "SELECT * FROM JSON(§, `j.json`)"},
	{"table object JSONL", "SELECT * FROM JSONL(§, `jl.jsonl`)"},
	{"table object LTSV", "SELECT * FROM LTSV(`l.ltsv`, §, §)"},
	{"table object arguments", "SELECT * FROM CSV(§, `t.csv`, §, §, §, §, §)"},
	{"table object on stdin", "SELECT * FROM CSV(§, STDIN)"},
	{"JSON_INLINE", "SELECT * FROM JSON_INLINE(§, §)"},
	{"JSON_INLINE", "SELECT * FROM JSON_INLINE(§, '[{\"a\":1,\"b\":[1,2]},{\"a\":null}]')"},
	{"JSON_INLINE", "SELECT * FROM JSON_INLINE('a', `j.json`)"},
	{"CSV_INLINE", "SELECT * FROM CSV_INLINE(§, §)"},
	{"JSON_TABLE", "SELECT * FROM JSON_TABLE(§, §)"},
	{"JSON_ROW", "SELECT * FROM t WHERE (c1, c2) = JSON_ROW(§, §)"},
	{"JSON_ROW", "SELECT * FROM t WHERE c1 IN JSON_ROW(§, '{\"a\":[1,2,3]}')"},
	{"JSON_VALUE", "SELECT JSON_VALUE(§, '{\"a\":[{\"b\":1},{\"b\":[1,{\"c\":2}]}]}')"},
	{"FROM file", "SELECT * FROM `nosuch.csv`"},
	{"FROM file", "SELECT * FROM `j.json`"},
	{"FROM file", "SELECT * FROM `jl.jsonl`, `l.ltsv`, `fixed.txt`"},
	{"FROM STDIN", "SELECT * FROM STDIN"},
	{"FROM DUAL", "SELECT § FROM DUAL"},
	{"duplicate table name", "SELECT * FROM t, t"},
	{"ambiguous field", "SELECT c1 FROM t, u"},
	{"field reference", "SELECT t.§, t.*, u.c1 FROM t"},
	{"column number", "SELECT t.1, t.99, t.0 FROM t"},
	{"FOR UPDATE", "SELECT * FROM u FOR UPDATE"},
	{"runtime information", "SELECT @#UNCOMMITTED, @#CREATED, @#UPDATED, @#UPDATED_VIEWS, @#LOADED_TABLES, @#WORKING_DIRECTORY, @#VERSION"},
	{"environment variable", "SELECT @%HOME, @%`NO SUCH`"},
	{"flag as value", "SELECT @@REPOSITORY, @@TIMEZONE, @@DATETIME_FORMAT, @@DELIMITER_POSITIONS, @@JSON_QUERY, @@CPU"},
	{"constant", "SELECT MATH::PI, MATH::E, FLOAT::MAX, INTEGER::MIN, FLOAT::SMALLEST_NONZERO, MATH::NOSUCH"},
	{"syntax error", "SELECT § FROM"},
	{"syntax error", "SELEC 1"},
	{"syntax error", "SELECT 'unterminated"},
	{"syntax error", "SELECT `unterminated"},
	{"syntax error", "SELECT /* unterminated"},
	{"empty program", ""},
	{"empty program", ";;;"},
}

// every statement kind of the manual (processor.go ExecuteStatement), except external commands (`$ …`, CALL)
var statementTemplates = []tmpl{
	{"VAR", "VAR @a := §, @b;; SELECT @a, @b"},
	{"VAR", "VAR @a := §;; VAR @a := §"},
	{"variable substitution", "VAR @a;; @a := §;; @nosuch := §"},
	{"DISPOSE variable", "VAR @a;; DISPOSE @a;; DISPOSE @a"},
	{"SET environment variable", "SET @%C19_ENV TO §;; SELECT @%C19_ENV;; UNSET @%C19_ENV;; UNSET @%C19_ENV"},
	{"cursor FETCH ABSOLUTE", "DECLARE cur CURSOR FOR SELECT * FROM t;; OPEN cur;; VAR @a, @b, @c;; FETCH ABSOLUTE § cur INTO @a, @b, @c;; SELECT @a, CURSOR cur IS IN RANGE, CURSOR cur COUNT"},
	{"cursor FETCH RELATIVE", "DECLARE cur CURSOR FOR SELECT * FROM t;; OPEN cur;; VAR @a, @b, @c;; FETCH RELATIVE § cur INTO @a, @b, @c;; FETCH NEXT cur INTO @a, @b, @c;; FETCH PRIOR cur INTO @a, @b, @c;; SELECT @a"},
	{"cursor FETCH positions", "DECLARE cur CURSOR FOR SELECT * FROM t;; OPEN cur;; VAR @a, @b, @c;; FETCH LAST cur INTO @a, @b, @c;; FETCH NEXT cur INTO @a, @b, @c;; FETCH FIRST cur INTO @a, @b, @c;; FETCH PRIOR cur INTO @a, @b, @c;; CLOSE cur;; DISPOSE CURSOR cur"},
	{"cursor FETCH length", "DECLARE cur CURSOR FOR SELECT * FROM t;; OPEN cur;; VAR @a;; FETCH cur INTO @a"},
	{"cursor misuse", "DECLARE cur CURSOR FOR SELECT * FROM t;; FETCH cur INTO @a;; CLOSE cur;; OPEN cur;; OPEN cur"},
	{"cursor misuse", "OPEN nosuch;; DISPOSE CURSOR nosuch"},
	{"cursor misuse", "DECLARE cur CURSOR FOR SELECT * FROM t;; DECLARE cur CURSOR FOR SELECT 1"},
	{"cursor for statement", "PREPARE st FROM 'SELECT ?, c1 FROM t';; DECLARE cur CURSOR FOR st;; OPEN cur USING §;; VAR @a, @b;; FETCH cur INTO @a, @b;; SELECT @a, @b"},
	{"cursor for statement", "PREPARE st FROM 'UPDATE u SET c2 = 1';; DECLARE cur CURSOR FOR st;; OPEN cur"},
	{"cursor status", "DECLARE cur CURSOR FOR SELECT * FROM t;; SELECT CURSOR cur IS OPEN, CURSOR cur IS IN RANGE, CURSOR cur COUNT, CURSOR nosuch IS OPEN"},
	{"WHILE IN cursor", "DECLARE cur CURSOR FOR SELECT c1, c2 FROM t LIMIT §;; OPEN cur;; VAR @a, @b;; WHILE @a, @b IN cur DO PRINT @a; END WHILE"},
	{"WHILE IN cursor", "DECLARE cur CURSOR FOR SELECT c1 FROM t;; OPEN cur;; WHILE VAR @a, @b IN cur DO PRINT @a; END WHILE"},
	{"DECLARE VIEW", "DECLARE v VIEW (a, b) AS SELECT §, §;; SELECT * FROM v;; INSERT INTO v VALUES (§, §);; SELECT * FROM v;; DISPOSE VIEW v;; DISPOSE VIEW v"},
	{"DECLARE VIEW", "DECLARE v VIEW (a, b);; INSERT INTO v VALUES (§, §), (§);; SELECT * FROM v"},
	{"DECLARE VIEW", "DECLARE v VIEW (a) AS SELECT §, §"},
	{"DECLARE VIEW", "DECLARE v VIEW (a, a)"},
	{"DECLARE FUNCTION", "DECLARE f FUNCTION (@x, @y DEFAULT §) AS BEGIN RETURN @x || @y; END;; SELECT f(§), f(§, §), f(), f(§, §, §)"},
	{"DECLARE FUNCTION", "DECLARE f FUNCTION (@x, @x) AS BEGIN RETURN 1; END"},
	{"DECLARE FUNCTION", "DECLARE upper FUNCTION () AS BEGIN RETURN 1; END"},
	{"DECLARE FUNCTION", "DECLARE f FUNCTION () AS BEGIN RETURN 1; END;; DECLARE f FUNCTION () AS BEGIN RETURN 2; END"},
	{"DECLARE FUNCTION", "DECLARE f FUNCTION (@n) AS BEGIN IF @n < 1 THEN RETURN 0; END IF; RETURN f(@n - 1) + 1; END;; SELECT f(300)"},
	{"DECLARE FUNCTION", "DECLARE f FUNCTION () AS BEGIN BREAK; END;; SELECT f();; DISPOSE FUNCTION f;; DISPOSE FUNCTION f"},
	{"DECLARE AGGREGATE", "DECLARE ag AGGREGATE (cur, @p DEFAULT §) AS BEGIN VAR @v, @s := 0; WHILE @v IN cur DO @s := @s + @v; END WHILE; RETURN @s; END;; SELECT ag(i), ag(i, §), ag() FROM big"},
	{"DECLARE AGGREGATE", "DECLARE ag AGGREGATE (cur) AS BEGIN FETCH cur INTO @nosuch; RETURN 1; END;; SELECT ag(i) FROM big;; SELECT ag(i) OVER (PARTITION BY b) FROM big"},
	{"DECLARE AGGREGATE", "DECLARE ag AGGREGATE (cur) AS BEGIN CLOSE cur; RETURN 1; END;; SELECT ag(i) FROM big"},
	{"PREPARE", "PREPARE st FROM 'SELECT ?, :a, ?';; EXECUTE st USING §, § AS a, §;; EXECUTE st USING §;; DISPOSE PREPARE st;; EXECUTE st"},
	{"PREPARE", "PREPARE st FROM §"},
	{"PREPARE", "PREPARE st FROM 'SELECT 1';; PREPARE st FROM 'SELECT 2'"},
	{"INSERT VALUES", "INSERT INTO u VALUES (§, §, §), (§, §, §);; SELECT * FROM u"},
	{"INSERT VALUES", "INSERT INTO u (c1, c2) VALUES (§), (§, §)"},
	{"INSERT VALUES", "INSERT INTO u (c1, nosuch) VALUES (§, §)"},
	{"INSERT SELECT", "INSERT INTO u SELECT §, §;; INSERT INTO u (c1) SELECT i FROM big LIMIT §"},
	{"INSERT into missing", "INSERT INTO `nosuch.csv` VALUES (§)"},
	{"UPDATE", "UPDATE u SET c2 = §, c3 = § WHERE §;; SELECT * FROM u"},
	{"UPDATE", "UPDATE u SET nosuch = §"},
	{"UPDATE join", "UPDATE u SET c2 = t.c2 FROM t WHERE u.c1 = t.c1 AND §"},
	{"UPDATE join", "UPDATE u SET c2 = big.s FROM big WHERE big.b = 1"},
	{"UPDATE table object", "UPDATE CSV(§, `u.csv`) SET c2 = 1"},
	{"DELETE", "DELETE FROM u WHERE §;; SELECT COUNT(*) FROM u"},
	{"DELETE", "DELETE FROM u, t"},
	{"DELETE", "DELETE u FROM u JOIN t ON u.c1 = t.c1 WHERE §"},
	{"REPLACE", "REPLACE INTO u (c1, c2) USING (c1) VALUES (§, §), (§, §);; SELECT * FROM u"},
	{"REPLACE", "REPLACE INTO u (c1, c2) USING (c3) VALUES (§, §)"},
	{"REPLACE", "REPLACE INTO u USING (c1) SELECT §, §, §"},
	{"CREATE TABLE", "CREATE TABLE `new.csv` (a, b);; INSERT INTO `new.csv` VALUES (§, §);; CREATE TABLE `new.csv` (a);; SELECT * FROM `new.csv`"},
	{"CREATE TABLE IF NOT EXISTS", "CREATE TABLE IF NOT EXISTS `t.csv` (c1, c2, c3);; CREATE TABLE IF NOT EXISTS `t.csv` (x);; CREATE TABLE IF NOT EXISTS `new.csv` (x)"},
	{"CREATE TABLE AS", "CREATE TABLE `n2.csv` (a, b) AS SELECT §, §;; CREATE TABLE `n3.json` AS SELECT * FROM t;; CREATE TABLE `n4.csv` (a) AS SELECT §, §"},
	{"CREATE TABLE", "CREATE TABLE `sub/dir/x.csv` (a);; CREATE TABLE `n.csv` (a, a)"},
	{"CREATE TABLE", "CREATE TABLE `j.json` (a)"},
	{"ALTER TABLE ADD", "ALTER TABLE u ADD (x DEFAULT §, y) FIRST;; ALTER TABLE u ADD z AFTER nosuch"},
	{"ALTER TABLE ADD", "ALTER TABLE u ADD c1;; ALTER TABLE u ADD (x, x) LAST;; ALTER TABLE u ADD x BEFORE c2"},
	{"ALTER TABLE DROP", "ALTER TABLE u DROP (c1, c2, c3);; SELECT * FROM u;; INSERT INTO u VALUES (§)"},
	{"ALTER TABLE DROP", "ALTER TABLE u DROP nosuch;; ALTER TABLE u DROP (c1, c1)"},
	{"ALTER TABLE RENAME", "ALTER TABLE u RENAME c1 TO c2;; ALTER TABLE u RENAME c1 TO x;; ALTER TABLE u RENAME nosuch TO y"},
	{"ALTER TABLE SET", "ALTER TABLE u SET FORMAT TO §;; ALTER TABLE u SET DELIMITER TO §;; SELECT * FROM u"},
	{"ALTER TABLE SET", "ALTER TABLE u SET DELIMITER_POSITIONS TO §;; ALTER TABLE u SET ENCODING TO §;; ALTER TABLE u SET LINE_BREAK TO §"},
	{"ALTER TABLE SET", "ALTER TABLE u SET HEADER TO §;; ALTER TABLE u SET ENCLOSE_ALL TO §;; ALTER TABLE u SET JSON_ESCAPE TO §;; ALTER TABLE u SET PRETTY_PRINT TO §;; ALTER TABLE u SET NOSUCH TO §"},
	{"ALTER TABLE SET", "ALTER TABLE u SET FORMAT TO FIXED;; ALTER TABLE u SET DELIMITER_POSITIONS TO §;; COMMIT;; SELECT * FROM FIXED('SPACES', `u.csv`)"},
	{"ALTER TABLE SET", "ALTER TABLE u SET FORMAT TO JSON;; ALTER TABLE u ADD `a.b[`;; COMMIT"},
	{"ALTER TABLE SET", "DECLARE v VIEW (a);; ALTER TABLE v SET FORMAT TO JSON"},
	{"COMMIT / ROLLBACK", "UPDATE u SET c2 = §;; COMMIT;; DELETE FROM u;; ROLLBACK;; SELECT * FROM u;; COMMIT;; ROLLBACK"},
	{"IF", "IF § THEN PRINT 1; ELSEIF § THEN PRINT 2; ELSE PRINT 3; END IF"},
	{"CASE statement", "CASE § WHEN § THEN PRINT 1; WHEN § THEN PRINT 2; ELSE PRINT 3; END CASE;; CASE WHEN § THEN PRINT 1; END CASE"},
	{"WHILE", "VAR @i := 0;; WHILE @i < § DO @i := @i + 1; IF @i > 50 THEN BREAK; END IF; IF @i % 2 = 0 THEN CONTINUE; END IF; PRINT @i; END WHILE"},
	{"flow control outside a loop", "CONTINUE;; PRINT 1"},
	{"flow control outside a loop", "BREAK;; PRINT 1"},
	{"RETURN outside a function", "RETURN §;; PRINT 1"},
	{"ECHO", "ECHO §"},
	{"PRINT", "PRINT §;; PRINT (§, §)"},
	{"PRINTF", "PRINTF § USING §, §, §"},
	{"PRINTF", "PRINTF '%s %d %f %e %b %o %x %X %i %t %q %T %% %5s %-5d %+.3f %08.3e %#x' USING §, §, §, §, §, §, §, §, §, §, §, §, §, §, §, §, §"},
	{"PRINTF", "PRINTF '%s %s' USING §;; PRINTF '%z' USING §;; PRINTF '%';; PRINTF '%-'"},
	{"SOURCE", "SOURCE §"},
	{"SOURCE", "SOURCE `prog.sql`;; SOURCE `nosuch.sql`"},
	{"SOURCE", "SOURCE `t.csv`"},
	{"SOURCE", "SOURCE `.`"},
	{"EXECUTE", "EXECUTE § USING §, §"},
	{"EXECUTE", "EXECUTE 'PRINT %s; SELECT %s' USING §, §"},
	{"EXECUTE", "EXECUTE 'SELEC %s' USING §"},
	{"CHDIR / PWD", "CHDIR §;; PWD"},
	{"CHDIR / PWD", "CHDIR `/`;; PWD;; SELECT * FROM t"},
	{"CHDIR / PWD", "CHDIR `nosuch`;; PWD"},
	{"RELOAD CONFIG", "RELOAD CONFIG"},
	{"SYNTAX", "SYNTAX §;; SYNTAX;; SYNTAX select, 'limit clause'"},
	{"SHOW FIELDS", "SHOW FIELDS FROM t;; SHOW FIELDS FROM `nosuch.csv`"},
	{"SHOW FIELDS", "DECLARE v VIEW (a, b);; SHOW FIELDS FROM v;; UPDATE u SET c1 = 1;; SHOW FIELDS FROM u;; SHOW FIELDS FROM `j.json`"},
	{"TRIGGER ERROR", "TRIGGER ERROR"},
	{"EXIT", "EXIT"},
	{"transaction and EXIT", "UPDATE u SET c2 = §;; EXIT"},
	{"ADD / REMOVE flag element", "ADD § TO @@DATETIME_FORMAT;; SHOW @@DATETIME_FORMAT;; REMOVE § FROM @@DATETIME_FORMAT;; REMOVE 0 FROM @@DATETIME_FORMAT;; REMOVE § FROM @@DATETIME_FORMAT"},
	{"ADD / REMOVE flag element", "ADD § TO @@CPU;; REMOVE § FROM @@TIMEZONE;; ADD § TO @@NOSUCH"},
	{"datetime format", "SET @@DATETIME_FORMAT TO §;; SELECT DATETIME(§), DATETIME_FORMAT(§, §)"},
	{"datetime format", "SET @@DATETIME_FORMAT TO '[\"%Y%m%d\", \"%d/%m/%y %H\", \"%\", \"%%%\"]';; SELECT DATETIME(§), DATETIME('20120203'), DATETIME('03/02/12 9')"},
}

func fill(g *hc.Gen, text string) string {
	var sb strings.Builder
	for _, r := range text {
		if r == '§' {
			sb.WriteString(pick(g, pool))
		} else {
			sb.WriteRune(r)
		}
	}
	return sb.String()
}

func splitStmts(text string) []string {
	parts := strings.Split(text, ";;")
	for i := range parts {
		parts[i] = strings.TrimSpace(parts[i])
	}
	return parts
}

// command-line options a program run may carry (each removable by the shrinker)
func progOpts(g *hc.Gen) []opt {
	var o []opt
	add := func(p int, f, v string, has bool) {
		if g.Intn(p) == 0 {
			o = append(o, opt{f, v, has})
		}
	}
	add(2, "--cpu", pick(g, []string{"1", "2", "4", "16", "0", "-1"}), true)
	add(6, "--strict-equal", "", false)
	add(6, "--ansi-quotes", "", false)
	add(8, "--quiet", "", false)
	add(8, "--stats", "", false)
	add(5, "--format", pick(g, []string{"CSV", "TSV", "FIXED", "JSON", "JSONL", "LTSV", "GFM", "ORG", "BOX", "TEXT", "XXX"}), true)
	add(10, "--timezone", pick(g, []string{"UTC", "Local", "Asia/Tokyo", "No/Where", ""}), true)
	add(10, "--datetime-format", pick(g, []string{"%Y%m%d", "[\"%Y\"]", "[", "%", ""}), true)
	// recursion stays bounded by construction: the limit is at most 1000 wherever a recursive query can run with a
	// bound drawn from the pool (unlimited / huge limits are driven in grammarJobs, over a recursion of 20 steps)
	add(10, "--limit-recursion", pick(g, []string{"5", "0", "50", "1000"}), true)
	add(10, "--write-encoding", pick(g, []string{"UTF8", "UTF8M", "UTF16", "UTF16BE", "UTF16LEM", "SJIS", "XXX"}), true)
	add(10, "--write-delimiter", pick(g, []string{";", "\t", "", "ab", "\n"}), true)
	add(10, "--write-delimiter-positions", pick(g, []string{"SPACES", "[1,2]", "S[3]", "[", "[2,1]", "[0]"}), true)
	add(10, "--line-break", pick(g, []string{"CRLF", "CR", "LF", "XX"}), true)
	add(12, "--without-header", "", false)
	add(12, "--enclose-all", "", false)
	add(12, "--pretty-print", "", false)
	add(12, "--scientific-notation", "", false)
	add(12, "--strip-ending-line-break", "", false)
	add(12, "--json-escape", pick(g, []string{"BACKSLASH", "HEX", "HEXALL", "X"}), true)
	add(12, "--east-asian-encoding", "", false)
	add(12, "--count-diacritical-sign", "", false)
	add(12, "--count-format-code", "", false)
	add(12, "--color", "", false)
	add(12, "--out", pick(g, []string{"out.txt", "t.csv", "sub/x.csv", ".", "/dev/null", "/dev/full", "/proc/c19x"}), true)
	return o
}

func optTags(ov []opt) []string {
	var t []string
	for _, o := range ov {
		t = append(t, "opt:"+o.Flag)
	}
	return t
}

func stmtJobs(g *hc.Gen, budget int) []*job {
	var jobs []*job
	all := len(clauseTemplates) + len(statementTemplates)
	rounds := budget / (all + len(option.FlagList)*2 + len(query.ShowObjectList) + 40)
	if rounds < 2 {
		rounds = 2
	}
	for r := 0; r < rounds; r++ {
		for _, t := range clauseTemplates {
			ov := progOpts(g)
			j := progJob("clause", append([]string{"clause:" + t.tag}, optTags(ov)...), ov, splitStmts(fill(g, t.text))...)
			if strings.Contains(t.text, "STDIN") {
				j.HasStdin = true
				if g.Intn(3) > 0 {
					j.Stdin = []byte("a,b\n1,2\n")
				}
			}
			jobs = append(jobs, j)
		}
		for _, t := range statementTemplates {
			ov := progOpts(g)
			if strings.HasPrefix(t.tag, "CHDIR") {
				ov = nil // no --out relative to a changed directory: nothing is ever written outside the scratch directory
			}
			jobs = append(jobs, progJob("stmt", append([]string{"stmt:" + t.tag}, optTags(ov)...), ov, splitStmts(fill(g, t.text))...))
		}
		// EXIT n / TRIGGER ERROR n: the program names its exit code
		for _, code := range []int{0, 1, 3, 7, 64, 100, 255, 256, 300} {
			jobs = append(jobs, &job{Group: "stmt", Tags: []string{"stmt:EXIT n"}, Files: fixtures(), Allow: []int{code},
				Stmts: []string{"UPDATE u SET c2 = 1", fmt.Sprintf("EXIT %d", code)}})
			jobs = append(jobs, &job{Group: "stmt", Tags: []string{"stmt:TRIGGER ERROR n"}, Files: fixtures(), Allow: []int{code},
				Stmts: []string{fmt.Sprintf("TRIGGER ERROR %d %s", code, pick(g, []string{"'msg'", "''", "", "'%s'", longStr}))}})
		}
		for _, s := range []string{"EXIT " + pick(g, pool), "TRIGGER ERROR " + pick(g, pool), "TRIGGER ERROR " + pick(g, pool) + " " + pick(g, pool)} {
			// a non-literal code is a syntax or evaluation error, or one of the literal integers of the pool
			j := progJob("stmt", []string{"stmt:EXIT / TRIGGER ERROR with a pool value"}, nil, s)
			for c := -300; c <= 70000; c++ {
				if strings.Contains(s, fmt.Sprintf(" %d", c)) {
					j.Allow = append(j.Allow, c)
				}
			}
			j.Allow = append(j.Allow, 2147483647, 2147483648, -2147483649, 9223372036854775807, -9223372036854775807)
			jobs = append(jobs, j)
		}
		// every flag: SET to a pool value, SHOW, use
		for _, f := range option.FlagList {
			jobs = append(jobs, progJob("stmt", []string{"stmt:SET @@" + f}, nil,
				"SET @@"+f+" TO "+pick(g, pool), "SHOW @@"+f, "SELECT @@"+f, "SELECT * FROM t", "SELECT c1, DATETIME(c3) FROM t ORDER BY c3"))
			jobs = append(jobs, progJob("stmt", []string{"stmt:SET @@" + f}, nil,
				"SET @@"+f+" TO "+pick(g, flagValues), "SHOW @@"+f, "SELECT * FROM t", "UPDATE u SET c2 = 'é'", "COMMIT"))
		}
		jobs = append(jobs, progJob("stmt", []string{"stmt:SET @@NOSUCH"}, nil, "SET @@NOSUCH TO "+pick(g, pool)))
		jobs = append(jobs, progJob("stmt", []string{"stmt:SHOW FLAGS"}, nil, "SHOW FLAGS", "SHOW @@NOSUCH"))
		for _, ob := range append(append([]string{}, query.ShowObjectList...), "NOSUCH") {
			jobs = append(jobs, progJob("stmt", []string{"stmt:SHOW " + ob}, nil,
				"DECLARE v VIEW (a)", "DECLARE cur CURSOR FOR SELECT 1", "DECLARE f FUNCTION (@a DEFAULT 1) AS BEGIN RETURN 1; END",
				"PREPARE st FROM 'SELECT 1'", "UPDATE u SET c1 = 1", "SHOW "+ob, "OPEN cur", "SHOW "+ob))
		}
		// sub-commands and --source
		jobs = append(jobs, &job{Group: "stmt", Tags: []string{"subcommand:fields"}, Files: fixtures(), Fixed: []string{"fields", pick(g, []string{"t.csv", "nosuch.csv", "j.json", ".", ""})}})
		jobs = append(jobs, &job{Group: "stmt", Tags: []string{"subcommand:syntax"}, Files: fixtures(), Fixed: []string{"syntax", pick(g, []string{"select", "", "limit clause", "%"})}})
		jobs = append(jobs, &job{Group: "stmt", Tags: []string{"subcommand:calc"}, Files: fixtures(), Fixed: []string{"calc", pick(g, []string{"c1 + 1", "md5(c1)", "c2", "", "1/0", "lpad(c1, 5, '')"})},
			HasStdin: true, Stdin: []byte(pick(g, []string{"1", "", "a,b", "\xff", "1\n2"}))})
		jobs = append(jobs, &job{Group: "stmt", Tags: []string{"opt:--source"}, Files: fixtures(), Opts: []opt{{"--source", pick(g, []string{"prog.sql", "nosuch.sql", ".", "t.csv", ""}), true}}})
		jobs = append(jobs, &job{Group: "stmt", Tags: []string{"opt:--source"}, Files: fixtures(), Opts: []opt{{"--source", "prog.sql", true}}, Stmts: []string{"SELECT 1"}})
		jobs = append(jobs, &job{Group: "stmt", Tags: []string{"usage:two arguments"}, Files: fixtures(), Fixed: []string{"SELECT 1", "SELECT 2"}})
		jobs = append(jobs, &job{Group: "stmt", Tags: []string{"usage:unknown option"}, Files: fixtures(), Fixed: []string{"--no-such-option"}, Stmts: []string{"SELECT 1"}})
		jobs = append(jobs, &job{Group: "stmt", Tags: []string{"usage:option value missing"}, Files: fixtures(), Fixed: []string{"--cpu"}})
		jobs = append(jobs, &job{Group: "stmt", Tags: []string{"usage:option value of the wrong type"}, Files: fixtures(), Opts: []opt{{"--cpu", pick(g, []string{"x", "1.5", "", "99999999999999999999"}), true}}, Stmts: []string{"SELECT 1"}})
		jobs = append(jobs, &job{Group: "stmt", Tags: []string{"usage:option value of the wrong type"}, Files: fixtures(), Opts: []opt{{"--wait-timeout", pick(g, []string{"x", "-1", "1e309", "NaN"}), true}}, Stmts: []string{"SELECT * FROM t"}})
		jobs = append(jobs, &job{Group: "stmt", Tags: []string{"opt:--repository"}, Files: fixtures(), Opts: []opt{{"--repository", pick(g, []string{"nosuch", "t.csv", "/", ""}), true}}, Stmts: []string{"SELECT * FROM t"}})
		// several statements of different kinds in one program
		for k := 0; k < 12; k++ {
			var stmts []string
			tags := []string{"stmt:(mixed program)"}
			for m := 0; m < 2+g.Intn(4); m++ {
				if g.Intn(2) == 0 {
					t := clauseTemplates[g.Intn(len(clauseTemplates)-9)]
					stmts = append(stmts, splitStmts(fill(g, t.text))...)
				} else {
					t := statementTemplates[g.Intn(len(statementTemplates))]
					if strings.HasPrefix(t.tag, "EXIT") || strings.HasPrefix(t.tag, "TRIGGER") || strings.HasPrefix(t.tag, "CHDIR") {
						continue
					}
					stmts = append(stmts, splitStmts(fill(g, t.text))...)
				}
			}
			if len(stmts) == 0 {
				continue
			}
			ov := progOpts(g)
			jobs = append(jobs, progJob("stmt", append(tags, optTags(ov)...), ov, stmts...))
		}
	}
	return jobs
}

var flagValues = []string{"TRUE", "FALSE", "'CSV'", "'TSV'", "'FIXED'", "'JSON'", "'JSONL'", "'LTSV'", "'GFM'", "'ORG'", "'BOX'", "'TEXT'", "'UTF8'", "'UTF16'", "'SJIS'", "'AUTO'",
	"'SPACES'", "'[1,3]'", "'S[2]'", "'[3,1]'", "','", "'\t'", "' '", "'CRLF'", "'CR'", "'HEX'", "'HEXALL'", "0", "1", "3", "0.1", "-1", "1000000", "'UTC'", "'.'", "'/nonexistent'", "'a.b'", "'[]'"}
