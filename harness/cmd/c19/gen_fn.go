package main

import (
	"fmt"
	"sort"
	"strings"

	"github.com/mithrandie/csvq/lib/query"

	"verifharness/hc"
)

// ---------------------------------------------------------------- fixtures every program run finds in its directory

func bigCSV() []byte {
	var sb strings.Builder
	sb.WriteString("i,s,f,d,b,n\n")
	strs := []string{"ab", "", "日本語", "x y", "q", "é", "0", "-1", "2012-02-03", "true"}
	for k := 0; k < 200; k++ {
		n := ""
		if k%7 == 0 {
			n = fmt.Sprintf("%d", k-50)
		}
		fmt.Fprintf(&sb, "%d,%s,%g,2012-02-%02d %02d:18:15,%d,%s\n", k, strs[k%len(strs)], float64(k)/8-5, k%28+1, k%24, k%3, n)
	}
	return []byte(sb.String())
}

// the same file as a shell command (for reproducers)
const bigAwk = `awk 'BEGIN{print "i,s,f,d,b,n"; split("ab,,日本語,x y,q,é,0,-1,2012-02-03,true",S,","); for(k=0;k<200;k++) printf "%d,%s,%g,2012-02-%02d %02d:18:15,%d,%s\n", k, S[k%10+1], k/8-5, k%28+1, k%24, k%3, (k%7==0 ? k-50 : "")}'`

var fixtureCache []fileSpec

// fixtures: shared, read-only (a job that adds files copies the slice)
func fixtures() []fileSpec {
	if fixtureCache == nil {
		fixtureCache = makeFixtures()
	}
	return fixtureCache
}

func makeFixtures() []fileSpec {
	return []fileSpec{
		{Name: "t.csv", Data: []byte("c1,c2,c3\n1,a,1.5\n2,b,\n3,,2012-02-03\n-4,\"x,y\",NaN\n5,日本,9223372036854775807\n")},
		{Name: "big.csv", Data: bigCSV()},
		{Name: "u.csv", Data: []byte("c1,c2,c3\n1,a,x\n2,b,y\n3,c,z\n")},
		{Name: "j.json", Data: []byte(`{"a":[{"b":1,"c":"x"},{"b":2,"c":null}],"d":{"e":[1,2,3]},"f":"s"}`)},
		{Name: "jl.jsonl", Data: []byte("{\"a\":1,\"b\":\"x\"}\n{\"a\":2,\"b\":null}\n")},
		{Name: "l.ltsv", Data: []byte("a:1\tb:x\na:2\tc:y\n")},
		{Name: "fixed.txt", Data: []byte("a    b   c  \n1    xy  3  \n22   日本z  \n")},
		{Name: "prog.sql", Data: []byte("PRINT 'sourced'; SELECT 1;")},
	}
}

// ---------------------------------------------------------------- the boundary pool (SQL text of each value)

var longStr = "'" + strings.Repeat("a", 5000) + "'"

var pool = []string{
	// integers
	"0", "1", "-1", "2", "3", "10", "-10", "100", "255", "256", "65536", "2147483647", "2147483648", "-2147483649",
	"9223372036854775807", "-9223372036854775807", "9223372036854775808", "-9223372036854775808", "99999999999999999999",
	// floats
	"0.0", "-0.0", "0.5", "-0.5", "1.5", "2.5", "1e308", "-1e308", "1e309", "1e-320", "1e18", "1e19", "123456.789",
	// ternary / null
	"NULL", "TRUE", "FALSE", "UNKNOWN",
	// strings: empty, blank, numeric-looking, special floats, dates, formats, json, regexps, paths, encodings
	"''", "' '", "'a'", "'abc'", "'ABC'", "'NaN'", "'Inf'", "'-Inf'", "'+Inf'", "'1'", "'-1'", "'0'", "'1.5'", "'1e400'", "'0x10'", "'1_000'",
	"'true'", "'false'", "'2012-02-03'", "'2012-02-03 09:18:15'", "'2012-02-03T09:18:15.123456789+09:00'", "'2012-02-03 09:18:15 JST'",
	"'0000-00-00'", "'9999-12-31 23:59:59.999999999'", "'0001-01-01 00:00:00'", "'1970-01-01T00:00:00Z'", "'20120203'", "'2012-02-3x'", "'2012/2/3 1:02:03'",
	"'2012-02-03T'", "'2012-02-03 '", "'12345678'", "'1234-678'", "'1234/678'", "'1234-67890T'", "'1234-67890 '",
	"'%'", "'%s'", "'%s%d%q'", "'%'''", "'%-05.3f'", "'%Y-%m-%d %H:%i:%s.%n %Z'", "'%", "'\\\\'", "'a\\'", "','", "'\t'", "'\n'", "'\"'",
	"'{\"a\":1}'", "'[1,2,3]'", "'{\"a\":[{\"b\":1},{\"b\":2}]}'", "'[1,2'", "'{'", "'a.b'", "'a[0]'", "'a['", "'a[].b'", "'a{b}'", "'..'", "'[]'", "'{}'",
	"'(?'", "'(a)(b)'", "'[a-'", "'.*'", "'(?P<n>a)'", "'a{1000000}'", "'\\\\p{Foo}'", "'${1}'", "'$'",
	"'日本語'", "'é'", "'ｱｲｳ'", "'́'", "'​'",
	"'UTF8'", "'SJIS'", "'UTF16'", "'XXX'", "'LEN'", "'BYTE'", "'WIDTH'", "'CSV'", "'JSON'", "'LF'", "'CRLF'", "'Local'", "'UTC'", "'Asia/Tokyo'", "'No/Where'",
	"'.'", "'/'", "'/nonexistent/x'", "'t.csv'", "'big'",
	longStr,
	// expressions
	"@undeclared", "(SELECT 1)", "(SELECT c1 FROM t)", "(SELECT c1, c2 FROM t LIMIT 1)", "(SELECT 1 FROM t WHERE FALSE)", "1 / 0", "1.0 / 0", "-(1.0 / 0)", "0.0 / 0.0",
	"NOW()", "@%HOME", "@%NOSUCH", "@#VERSION", "@#NOSUCH", "@@CPU", "@@NOSUCH", "MATH::PI", "MATH::NOSUCH", "INTEGER::MAX", "INTEGER::MIN", "FLOAT::MAX", "FLOAT::SMALLEST_NONZERO",
	"nosuchcolumn", "1 = 1", "NULL IS NULL",
}

// values that make sense as a column-free argument in `FROM big` too; columns are added there
var bigCols = []string{"i", "s", "f", "d", "b", "n", "big.i", "i - 100", "i * 46116860184273879", "s || s", "f / 0"}

func argClass(a string) string {
	switch {
	case a == "NULL" || a == "UNKNOWN" || a == "TRUE" || a == "FALSE":
		return "ternary/null"
	case a == longStr:
		return "long string"
	case a == "''":
		return "empty string"
	case strings.HasPrefix(a, "'"):
		return "string"
	case strings.HasPrefix(a, "(SELECT"):
		return "subquery"
	case strings.ContainsAny(a[:1], "-0123456789") && !strings.ContainsAny(a, " /"):
		if strings.ContainsAny(a, ".e") {
			return "float"
		}
		if strings.HasPrefix(a, "-") {
			return "negative integer"
		}
		if len(a) > 9 {
			return "huge integer"
		}
		return "integer"
	}
	return "expression"
}

func pick(g *hc.Gen, xs []string) string { return xs[g.Intn(len(xs))] }

func sortedKeys[V any](m map[string]V) []string {
	ks := make([]string, 0, len(m))
	for k := range m {
		ks = append(ks, k)
	}
	sort.Strings(ks)
	return ks
}

func progJob(group string, tags []string, opts []opt, stmts ...string) *job {
	return &job{Group: group, Tags: tags, Files: fixtures(), Opts: opts, Stmts: stmts}
}

func callJob(group string, tags []string, opts []opt, pre string, args []string, post string) *job {
	for _, a := range args {
		tags = append(tags, "argclass:"+argClass(a))
	}
	return &job{Group: group, Tags: tags, Files: fixtures(), Opts: opts, Call: &callSpec{Pre: pre, Args: args, Post: post}}
}

var cpu4 = []opt{{Flag: "--cpu", Val: "4", Has: true}}

// fnJobs: every key of query.Functions / AggregateFunctions / AnalyticFunctions (read from the linked csvq
// packages, so the list is the running code's; vt/p_c19.py compares it with the generated Lean list).
func fnJobs(g *hc.Gen, budget int) []*job {
	var jobs []*job
	names := sortedKeys(query.Functions)
	aggs := sortedKeys(query.AggregateFunctions)
	anas := sortedKeys(query.AnalyticFunctions)
	total := len(names) + len(aggs) + len(anas) + 3
	per := budget / total
	if per < 16 {
		per = 16 // the floor of a quick run; the in-process fuzzer carries the volume
	}
	randArgs := func(k int, cols bool) []string {
		a := make([]string, k)
		for i := range a {
			if cols && g.Intn(3) > 0 {
				a[i] = pick(g, bigCols)
			} else {
				a[i] = pick(g, pool)
			}
		}
		return a
	}
	for _, fn := range names {
		tag := "fn:" + fn
		// arity 0, then every pool value alone (as far as the budget goes), then random tuples of 2..5
		jobs = append(jobs, callJob("fn", []string{tag, "arity:0", "where:scalar"}, nil, "SELECT "+fn+"(", nil, ")"))
		scalar := per * 7 / 10
		n1 := len(pool)
		if n1 > scalar*4/10 {
			n1 = scalar * 4 / 10
		}
		off := g.Intn(len(pool))
		for i := 0; i < n1; i++ {
			a := pool[(off+i*len(pool)/n1)%len(pool)]
			jobs = append(jobs, callJob("fn", []string{tag, "arity:1", "where:scalar"}, nil, "SELECT "+fn+"(", []string{a}, ")"))
		}
		for i := 0; i < scalar-n1; i++ {
			k := 2 + g.Intn(3)
			if g.Intn(8) == 0 {
				k = 5
			}
			jobs = append(jobs, callJob("fn", []string{tag, fmt.Sprintf("arity:%d", k), "where:scalar"}, nil, "SELECT "+fn+"(", randArgs(k, false), ")"))
		}
		// over the 200-row table with several workers (a failing argument fails in every worker at once)
		for i := 0; i < per-scalar; i++ {
			k := 1 + g.Intn(4)
			jobs = append(jobs, callJob("fn", []string{tag, fmt.Sprintf("arity:%d", k), "where:table_cpu4"}, cpu4, "SELECT "+fn+"(", randArgs(k, true), ") FROM big"))
		}
	}
	for _, fn := range aggs {
		tag := "aggfn:" + fn
		for i := 0; i < per; i++ {
			k := g.Intn(3)
			if i > 2 {
				k = 1 + g.Intn(2)
			}
			args := randArgs(k, true)
			pre := "SELECT " + fn + "("
			if g.Intn(4) == 0 && k > 0 {
				pre += "DISTINCT "
			}
			post := ") FROM big"
			switch g.Intn(4) {
			case 0:
				post += " GROUP BY b"
			case 1:
				post = ") OVER (PARTITION BY b ORDER BY i) FROM big"
			case 2:
				post = ") OVER (ORDER BY i ROWS BETWEEN " + pick(g, frameBounds) + " AND " + pick(g, frameBounds) + ") FROM big"
			}
			jobs = append(jobs, callJob("fn", []string{tag, fmt.Sprintf("arity:%d", k), "where:aggregate"}, cpu4, pre, args, post))
		}
	}
	for _, fn := range anas {
		tag := "anafn:" + fn
		for i := 0; i < per; i++ {
			k := g.Intn(4)
			args := randArgs(k, true)
			post := ")"
			if g.Intn(4) == 0 {
				post += " IGNORE NULLS"
			}
			if (fn == "LISTAGG" || fn == "JSON_AGG") && g.Intn(2) == 0 {
				post += " WITHIN GROUP (ORDER BY " + pick(g, bigCols) + ")"
			}
			switch g.Intn(5) {
			case 0:
				post += " OVER ()"
			case 1:
				post += " OVER (PARTITION BY b)"
			case 2:
				post += " OVER (PARTITION BY " + pick(g, pool) + " ORDER BY " + pick(g, bigCols) + ")"
			case 3:
				post += " OVER (ORDER BY i ROWS BETWEEN " + pick(g, frameBounds) + " AND " + pick(g, frameBounds) + ")"
			default:
				post += " OVER (PARTITION BY b ORDER BY i)"
			}
			post += " FROM big"
			jobs = append(jobs, callJob("fn", []string{tag, fmt.Sprintf("arity:%d", k), "where:analytic"}, cpu4, "SELECT "+fn+"(", args, post))
		}
	}
	// functions with their own evaluation path (CALL is left out on purpose: it runs external programs)
	for i := 0; i < per; i++ {
		k := g.Intn(4)
		jobs = append(jobs, callJob("fn", []string{"fn:NOW", fmt.Sprintf("arity:%d", k), "where:scalar"}, nil, "SELECT NOW(", randArgs(k, false), ")"))
		jobs = append(jobs, callJob("fn", []string{"fn:JSON_OBJECT", fmt.Sprintf("arity:%d", k), "where:table_cpu4"}, cpu4, "SELECT JSON_OBJECT(", randArgs(k, true), ") FROM big"))
		// user-defined scalar and aggregate functions: wrong argument counts, defaults, recursion to a bounded depth
		udf := "DECLARE uf FUNCTION (@x, @y DEFAULT " + pick(g, pool) + ") AS BEGIN IF @x >= 1 AND @x <= 40 THEN RETURN uf(@x - 1, @y); END IF; RETURN @y; END" // recursion only while the bound is TRUE (NaN, NULL, text: no recursion)
		uag := "DECLARE ua AGGREGATE (cur, @p DEFAULT " + pick(g, pool) + ") AS BEGIN VAR @v, @s := 0; WHILE @v IN cur DO @s := @s + @v; END WHILE; RETURN @s || @p; END"
		a := randArgs(k, true)
		jobs = append(jobs, progJob("fn", []string{"fn:(user-defined function)", fmt.Sprintf("arity:%d", k)}, cpu4, udf, "SELECT uf("+strings.Join(a, ", ")+") FROM t"))
		jobs = append(jobs, progJob("fn", []string{"fn:(user-defined aggregate)", fmt.Sprintf("arity:%d", k)}, cpu4, uag, "SELECT ua("+strings.Join(a, ", ")+") FROM big GROUP BY b"))
	}
	return jobs
}

var frameBounds = []string{"UNBOUNDED PRECEDING", "UNBOUNDED FOLLOWING", "CURRENT ROW", "0 PRECEDING", "1 PRECEDING", "1 FOLLOWING", "300 PRECEDING", "300 FOLLOWING",
	"9223372036854775807 FOLLOWING", "9223372036854775807 PRECEDING"}

// jsonPathJobs: the key paths of JSON_OBJECT / JSON output (`AS alias` with dots, brackets, duplicates, empty) and
// malformed JSON queries through every route that takes one.  Deterministic, run once.
func jsonPathJobs() []*job {
	var jobs []*job
	aliasSets := [][]string{{"a"}, {"a.b"}, {"a.b.c"}, {"a", "a.b"}, {"a.b", "a"}, {"a.b", "a.b.c"}, {"a.b.c", "a.b"}, {"a[0]"}, {"a[0]", "a[1]"}, {"a[1]"}, {"a", "a[0]"}, {"a[0]", "a"},
		{"a..b"}, {"."}, {".a"}, {"a."}, {""}, {"a", "a"}, {"a.b", "a.b"}, {`a\.b`, "a"}, {"a["}, {"a[x]"}, {"a{"}, {"'"}, {`a."`}, {"a[0].b", "a[0]"}, {"a[0]", "a.b"}, {"a.b", "a[0]"}, {"日本.語"}}
	q := func(a string) string { return "`" + strings.ReplaceAll(a, "`", "``") + "`" }
	for _, as := range aliasSets {
		var lit, col []string
		for i, a := range as {
			lit = append(lit, fmt.Sprintf("%d AS %s", i+1, q(a)))
			col = append(col, fmt.Sprintf("c%d AS %s", i+1, q(a)))
		}
		tag := "jsonpath:alias " + strings.Join(as, " + ")
		jobs = append(jobs, progJob("jsonpath", []string{tag, "route:JSON_OBJECT"}, nil, "SELECT JSON_OBJECT("+strings.Join(lit, ", ")+")"))
		jobs = append(jobs, progJob("jsonpath", []string{tag, "route:JSON_OBJECT FROM"}, cpu4, "SELECT JSON_OBJECT("+strings.Join(col, ", ")+") FROM t"))
		jobs = append(jobs, progJob("jsonpath", []string{tag, "route:JSON_AGG(JSON_OBJECT)"}, nil, "SELECT JSON_AGG(JSON_OBJECT("+strings.Join(col, ", ")+")) FROM t"))
		for _, f := range []string{"JSON", "JSONL"} {
			jobs = append(jobs, progJob("jsonpath", []string{tag, "route:--format " + f}, []opt{{"--format", f, true}}, "SELECT "+strings.Join(col, ", ")+" FROM t"))
		}
		jobs = append(jobs, progJob("jsonpath", []string{tag, "route:CREATE TABLE json AS"}, nil, "CREATE TABLE `o.json` AS SELECT "+strings.Join(col, ", ")+" FROM t", "COMMIT", "SELECT * FROM `o.json`"))
	}
	queries := append([]string{"'", `"`, "`", "", ".", "[", "{", "a", "a.b.c", "a['", "''", `""`, "'''", `a.""`, `"a`}, ipJSONQueries...)
	for _, jq := range queries {
		s := sqlString(jq)
		tag := "jsonquery:" + jq
		add := func(route string, opts []opt, stmts ...string) {
			jobs = append(jobs, progJob("jsonpath", []string{tag, "route:" + route}, opts, stmts...))
		}
		add("JSON_VALUE", nil, "SELECT JSON_VALUE("+s+", '{\"a\":{\"b\":{\"c\":1}}}')")
		add("JSON_ROW", nil, "SELECT * FROM t WHERE c1 IN JSON_ROW("+s+", '{\"a\":[1,2,3]}')")
		add("JSON_TABLE", nil, "SELECT * FROM JSON_TABLE("+s+", '{\"a\":[{\"b\":1},{\"b\":2}]}')")
		add("JSON_INLINE", nil, "SELECT * FROM JSON_INLINE("+s+", '{\"a\":[{\"b\":1},{\"b\":2}]}')")
		add("JSON()", nil, "SELECT * FROM JSON("+s+", `j.json`)")
		add("JSONL()", nil, "SELECT * FROM JSONL("+s+", `jl.jsonl`)")
		add("--json-query on .json", []opt{{"--json-query", jq, true}}, "SELECT * FROM `j.json`")
		add("--json-query on .jsonl", []opt{{"--json-query", jq, true}}, "SELECT * FROM `jl.jsonl`")
		add("--json-query on stdin", []opt{{"--json-query", jq, true}, {"--import-format", "JSON", true}}, "SELECT * FROM `j.json`", "SELECT * FROM `jl.jsonl`")
		add("SET @@JSON_QUERY", nil, "SET @@JSON_QUERY TO "+s, "SELECT * FROM `j.json`", "SELECT * FROM `jl.jsonl`")
	}
	return jobs
}
