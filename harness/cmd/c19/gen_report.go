package main

// Titled reports and other output that depends on the width of the terminal (lib/doc Writer: the title is centred over a rule
// whose length is clamped to the screen width — 75 columns when standard input is not a terminal, else the terminal's).
//
// reportGrid (in-process, once per stream): every statement that prints a titled report
//
//	SHOW FIELDS FROM t · ALTER TABLE t SET attribute TO v · SHOW TABLES · SHOW VIEWS · SHOW CURSORS · SHOW FUNCTIONS ·
//	SHOW STATEMENTS · SHOW FLAGS · SHOW ENV · SHOW RUNINFO · SYNTAX with long keys
//
// × names (table paths through deep directories, view / cursor / function / statement names, search keys) of length 1 … 200
// × screen widths (no terminal: the 75-column default; a terminal of 0 1 2 3 5 10 20 40 74 75 76 77 80 120 250 columns, given
// through Session.SetTerminal) × --color on / off.  Law internal_panic.
//
// reportJobs (process level): the same commands on the binary with standard input from /dev/null (what a harness and every
// script has) and from a pseudo-terminal of 0 / 20 / 80 columns, `csvq fields <path>`, `csvq syntax <keys>`, --stats.

import (
	"context"
	"fmt"
	"io"
	"os"
	"path/filepath"
	"strings"
	"syscall"
	"unsafe"

	"github.com/mithrandie/csvq/lib/option"

	"verifharness/hc"
)

type fakeTerminal struct{ cols int }

func (t *fakeTerminal) ReadLine() (string, error)               { return "", io.EOF }
func (t *fakeTerminal) Write(string) error                      { return nil }
func (t *fakeTerminal) WriteError(string) error                 { return nil }
func (t *fakeTerminal) SetPrompt(ctx context.Context)           {}
func (t *fakeTerminal) SetContinuousPrompt(ctx context.Context) {}
func (t *fakeTerminal) SaveHistory(string) error                { return nil }
func (t *fakeTerminal) Teardown() error                         { return nil }
func (t *fakeTerminal) GetSize() (int, int, error)              { return t.cols, 24, nil }
func (t *fakeTerminal) ReloadConfig() error                     { return nil }
func (t *fakeTerminal) UpdateCompleter()                        {}

// pathOfLength: a relative path of exactly n characters (n >= 5) through directories of at most 40 characters, ending in .csv
func pathOfLength(n int) string {
	if n < 5 {
		n = 5
	}
	file := "t.csv"
	left := n - len(file)
	var parts []string
	for left > 0 {
		k := left - 1
		if k > 40 {
			k = 40
		}
		if k <= 0 {
			// one character left: lengthen the file name instead of an empty directory
			file = "t" + file
			break
		}
		parts = append(parts, strings.Repeat("d", k))
		left -= k + 1
	}
	return strings.Join(append(parts, file), "/")
}

func nameOfLength(n int) string {
	if n < 1 {
		n = 1
	}
	return "n" + strings.Repeat("m", n-1)
}

var reportLengths = []int{1, 2, 5, 10, 30, 50, 60, 62, 63, 64, 65, 66, 67, 68, 70, 73, 74, 75, 76, 77, 80, 100, 130, 200}
var reportWidths = []int{-1, 0, 1, 2, 3, 5, 10, 20, 40, 74, 75, 76, 77, 80, 120, 250} // -1 = no terminal

// reportStatements: programs whose last statement prints a titled report with a name of length n in the title or the body
func reportStatements(n int) (files []string, progs map[string]string) {
	p := pathOfLength(n)
	nm := nameOfLength(n)
	progs = map[string]string{
		"SHOW FIELDS":        "SHOW FIELDS FROM `" + p + "`",
		"ALTER TABLE SET":    "ALTER TABLE `" + p + "` SET ENCLOSE_ALL TO TRUE; ROLLBACK",
		"ALTER TABLE SET 2":  "ALTER TABLE `" + p + "` SET DELIMITER TO ';'; ROLLBACK",
		"SHOW TABLES":        "SELECT COUNT(*) FROM `" + p + "`; UPDATE `" + p + "` SET id = 2; SHOW TABLES; ROLLBACK",
		"SHOW VIEWS":         "DECLARE " + nm + " VIEW (" + nm + "c) AS SELECT 1; INSERT INTO " + nm + " VALUES (2); SHOW VIEWS; ROLLBACK",
		"SHOW CURSORS":       "DECLARE " + nm + " CURSOR FOR SELECT '" + nm + "' FROM `" + p + "`; OPEN " + nm + "; SHOW CURSORS",
		"SHOW CURSORS closed": "DECLARE " + nm + " CURSOR FOR SELECT '" + nm + "'; SHOW CURSORS",
		"SHOW FUNCTIONS":     "DECLARE " + nm + " FUNCTION (@a, @b DEFAULT '" + nm + "') AS BEGIN RETURN @a; END; DECLARE a" + nm + " AGGREGATE (c, @x DEFAULT 1) AS BEGIN RETURN 1; END; SHOW FUNCTIONS",
		"SHOW STATEMENTS":    "PREPARE " + nm + " FROM 'SELECT ''" + nm + "'', ?'; SHOW STATEMENTS",
		"SYNTAX":             "SYNTAX " + nm,
		"SYNTAX many keys":   "SYNTAX " + strings.TrimSuffix(strings.Repeat("select ", n/7+1), " "),
		"SYNTAX string key":  "SYNTAX '" + nm + " " + nm + "'",
	}
	return []string{p}, progs
}

var reportFixed = map[string]string{
	"SHOW FLAGS":   "SHOW FLAGS",
	"SHOW ENV":     "SHOW ENV",
	"SHOW RUNINFO": "SHOW RUNINFO",
	"SHOW TABLES (none)": "SHOW TABLES",
	"SYNTAX (contents)":  "SYNTAX",
}

func sortedProgKeys(m map[string]string) []string {
	var ks []string
	for k := range m {
		ks = append(ks, k)
	}
	sortStrings(ks)
	return ks
}

func sortStrings(a []string) {
	for i := 1; i < len(a); i++ {
		for j := i; j > 0 && a[j] < a[j-1]; j-- {
			a[j], a[j-1] = a[j-1], a[j]
		}
	}
}

func reportGrid(o *hc.Out) []*job {
	var jobs []*job
	seen := map[string]bool{}
	base := filepath.Join(scratch, "report")
	must(os.MkdirAll(base, 0o755))
	defer os.RemoveAll(base)
	// one directory with every path
	for _, n := range reportLengths {
		p := filepath.Join(base, pathOfLength(n))
		must(os.MkdirAll(filepath.Dir(p), 0o755))
		must(os.WriteFile(p, []byte("id,name\n1,a\n"), 0o644))
	}
	calls := 0
	run1 := func(p *hc.Proc, what, prog string, n, w int, color bool) {
		calls++
		o.Eval()
		cls, msg := execRecovered(p, prog)
		o.Count("report_outcome:" + cls)
		if cls != "fatal" && cls != "panic" {
			return
		}
		o.Count("report_fatal:" + what)
		if seen[what] {
			return
		}
		seen[what] = true
		var opts []opt
		if color {
			opts = append(opts, opt{"--color", "", false})
		}
		j := &job{Group: "report", Tags: []string{"report:" + what, fmt.Sprintf("title-length:%d", n)}, Opts: opts, Stmts: strings.Split(prog, "; ")}
		if n > 0 {
			j.Files = []fileSpec{{Name: pathOfLength(n), Data: []byte("id,name\n1,a\n")}}
		}
		screen := "standard input is no terminal (75 columns)"
		if w >= 0 {
			screen = fmt.Sprintf("a terminal of %d columns", w)
			j.PtyCols = w
			if w == 0 {
				j.PtyCols = -1
			}
		}
		o.Law("internal_panic", map[string]interface{}{"grid": "titled reports", "report": what, "statement": prog, "name_length": n, "screen": screen, "color": color, "outcome": cls, "stderr": msg,
			"command": repro(j), "reproduce": repro(j) + "   (in-process: the same program through query.Processor.Execute under recover, the screen width given by Session.SetTerminal)"})
		jobs = append(jobs, j)
	}
	for _, w := range reportWidths {
		for _, color := range []bool{false, true} {
			p := hc.NewProc(base)
			if w >= 0 {
				p.P.Tx.Session.SetTerminal(&fakeTerminal{cols: w})
			}
			if color {
				_ = p.P.Tx.SetFlag(option.ColorFlag, true)
			}
			for _, k := range sortedProgKeys(reportFixed) {
				run1(p, k, reportFixed[k], 0, w, color)
			}
			for _, n := range reportLengths {
				_, progs := reportStatements(n)
				for _, k := range sortedProgKeys(progs) {
					run1(p, k, progs[k], n, w, color)
					// objects declared by the program stay in the session: dispose what can be disposed
					nm := nameOfLength(n)
					for _, d := range []string{"DISPOSE CURSOR " + nm, "DISPOSE VIEW " + nm, "DISPOSE FUNCTION " + nm, "DISPOSE FUNCTION a" + nm, "DISPOSE PREPARE " + nm} {
						_, _ = execRecovered(p, d)
					}
				}
			}
			p.Close()
		}
	}
	// the attribute block of SHOW FIELDS / ALTER TABLE (writeTableAttribute pads with WriteSpaces(constant - width of a name)):
	// every format x encoding x line break, delimiters of every width class, with and without East Asian widths
	{
		short := pathOfLength(10)
		for _, ea := range []bool{false, true} {
			p := hc.NewProc(base)
			if ea {
				_ = p.P.Tx.SetFlag(option.EastAsianEncodingFlag, true)
				_ = p.P.Tx.SetFlag(option.CountDiacriticalSignFlag, true)
				_ = p.P.Tx.SetFlag(option.CountFormatCodeFlag, true)
			}
			for _, f := range []string{"CSV", "TSV", "FIXED", "JSON", "JSONL", "LTSV", "GFM", "ORG", "BOX", "TEXT"} {
				for _, e := range []string{"UTF8", "UTF8M", "UTF16", "UTF16BE", "UTF16LE", "UTF16BEM", "UTF16LEM", "SJIS"} {
					for _, lb := range []string{"LF", "CR", "CRLF"} {
						run1(p, "SHOW FIELDS (attributes)", "ALTER TABLE `"+short+"` SET FORMAT TO "+f+"; ALTER TABLE `"+short+"` SET ENCODING TO "+e+"; ALTER TABLE `"+short+"` SET LINE_BREAK TO "+lb+"; SHOW FIELDS FROM `"+short+"`; ROLLBACK", 10, -1, false)
					}
				}
			}
			for _, d := range []string{";", "\\t", "\\\\", "\"", "\\a", "\\b", "\\v", " ", "あ", "😀", "‱", "§", "\u0301", "\u200b", "ｱ"} {
				run1(p, "SHOW FIELDS (delimiter)", "ALTER TABLE `"+short+"` SET DELIMITER TO '"+d+"'; SHOW FIELDS FROM `"+short+"`; ROLLBACK", 10, -1, false)
			}
			for _, q := range []string{"", "{}", strings.Repeat("a.", 60) + "a"} {
				for _, esc := range []string{"BACKSLASH", "HEX", "HEXALL"} {
					run1(p, "SHOW FIELDS (json attributes)", "ALTER TABLE `"+short+"` SET FORMAT TO JSON; ALTER TABLE `"+short+"` SET JSON_ESCAPE TO "+esc+"; SHOW FIELDS FROM `"+short+"`; ROLLBACK", 10, -1, false)
				}
				_ = q
			}
			p.Close()
		}
	}
	o.Stats["report_grid_calls"] += calls
	o.Count(fmt.Sprintf("report_grid: %d statements x %d name lengths x %d screen widths x color on/off", len(reportFixed)+12, len(reportLengths), len(reportWidths)))
	o.NonTrivial("report grid")
	return jobs
}

// ---------------------------------------------------------------- process level

var ptyAvailable = false

// openPty: a pseudo-terminal whose slave has `cols` columns (cols < 0: the winsize of a fresh pty, 0 x 0)
func openPty(cols int) (master, slave *os.File, err error) {
	m, err := os.OpenFile("/dev/ptmx", os.O_RDWR|syscall.O_NOCTTY, 0)
	if err != nil {
		return nil, nil, err
	}
	var n uint32
	var unlock int32
	if _, _, e := syscall.Syscall(syscall.SYS_IOCTL, m.Fd(), syscall.TIOCSPTLCK, uintptr(unsafe.Pointer(&unlock))); e != 0 {
		_ = m.Close()
		return nil, nil, e
	}
	if _, _, e := syscall.Syscall(syscall.SYS_IOCTL, m.Fd(), syscall.TIOCGPTN, uintptr(unsafe.Pointer(&n))); e != 0 {
		_ = m.Close()
		return nil, nil, e
	}
	s, err := os.OpenFile(fmt.Sprintf("/dev/pts/%d", n), os.O_RDWR|syscall.O_NOCTTY, 0)
	if err != nil {
		_ = m.Close()
		return nil, nil, err
	}
	if cols >= 0 {
		ws := struct{ Row, Col, X, Y uint16 }{24, uint16(cols), 0, 0}
		if _, _, e := syscall.Syscall(syscall.SYS_IOCTL, s.Fd(), syscall.TIOCSWINSZ, uintptr(unsafe.Pointer(&ws))); e != 0 {
			_ = m.Close()
			_ = s.Close()
			return nil, nil, e
		}
	}
	return m, s, nil
}

func probePty() {
	m, s, err := openPty(40)
	if err == nil {
		ptyAvailable = true
		_ = s.Close()
		_ = m.Close()
	}
}

func reportJobs() []*job {
	var jobs []*job
	type screen struct {
		tag  string
		cols int // 0 = not a terminal
	}
	screens := []screen{{"stdin:not-a-terminal", 0}}
	if ptyAvailable {
		screens = append(screens, screen{"stdin:terminal-80", 80}, screen{"stdin:terminal-20", 20}, screen{"stdin:terminal-0x0", -1})
	}
	for _, n := range []int{10, 60, 64, 65, 66, 67, 70, 90, 200} {
		p := pathOfLength(n)
		files := []fileSpec{{Name: p, Data: []byte("id,name\n1,a\n2,b\n")}}
		for _, sc := range screens {
			for _, color := range []bool{false, true} {
				var opts []opt
				ctag := "color:off"
				if color {
					opts, ctag = []opt{{"--color", "", false}}, "color:on"
				}
				tags := func(what string) []string {
					return []string{"report:" + what, fmt.Sprintf("title-length:%d", n), sc.tag, ctag}
				}
				add := func(what string, j *job) {
					j.Group, j.Tags, j.Files, j.PtyCols = "report", tags(what), files, sc.cols
					j.Opts = append(j.Opts, opts...)
					jobs = append(jobs, j)
				}
				add("fields sub-command", &job{Fixed: []string{"fields", p}})
				if color && sc.cols != 0 && n != 66 && n != 200 {
					continue // the remaining commands: every screen without colour, colour only without a terminal and at two lengths
				}
				add("SHOW FIELDS", &job{Stmts: []string{"SHOW FIELDS FROM `" + p + "`"}})
				add("ALTER TABLE SET", &job{Stmts: []string{"ALTER TABLE `" + p + "` SET ENCLOSE_ALL TO TRUE"}})
				add("SHOW TABLES", &job{Stmts: []string{"UPDATE `" + p + "` SET id = 3", "SHOW TABLES"}})
				add("syntax sub-command", &job{Fixed: append([]string{"syntax"}, strings.Fields(strings.Repeat("select ", n/7+1))...)})
				add("SYNTAX", &job{Stmts: []string{"SYNTAX " + nameOfLength(n)}})
				add("--stats", &job{Opts: []opt{{"--stats", "", false}}, Stmts: []string{"SELECT COUNT(*) FROM `" + p + "`"}})
			}
		}
	}
	for _, sc := range screens {
		for _, st := range []string{"SHOW FLAGS", "SHOW ENV", "SHOW RUNINFO", "SHOW TABLES", "SHOW VIEWS", "SHOW CURSORS", "SHOW FUNCTIONS", "SHOW STATEMENTS", "SYNTAX"} {
			jobs = append(jobs, &job{Group: "report", Tags: []string{"report:" + st, sc.tag, "color:off"}, Stmts: []string{st}, PtyCols: sc.cols})
		}
	}
	return jobs
}
