package main

import (
	"bytes"
	"encoding/binary"
	"fmt"
	"os"
	"strings"
	"unicode/utf16"

	"github.com/mithrandie/csvq/lib/option"

	"verifharness/hc"
)

// ---------------------------------------------------------------- seeds per format

var seeds = map[string][]string{
	"CSV": {
		"a,b,c\n1,2,3\n4,5,6\n", "a,b\n\"x,y\",\"q\"\"r\"\n\"line\nbreak\",z\n", "a,b,c\n1,2\n3,4,5,6\n", "a\n\n\n1\n", "", "\n", "a,b", "a,b\r\n1,2\r\n", "a,b\r1,2\r",
		"\xef\xbb\xbfa,b\n1,2\n", ",,\n,,\n", "a,a,a\n1,2,3\n", "\"a\nb\",c\n1,2\n", "a,b\n\"unterminated,1\n2,3\n", "a,b\n1,\"x\"y\n", "日本,語\nｱ,é\n", "a,b\n1,2\n\n\n3,4\n\n",
		"a;b;c\n1;2;3\n", "a b c\n1 2 3\n", " a , b \n 1 , 2 \n", "a,b\n1,2", "\"\",\"\"\n\"\",\n",
	},
	"TSV": {"a\tb\tc\n1\t2\t3\n", "a\tb\n\"x\ty\"\tz\n", "a\t\tb\n\t\t\n", "a\tb\n1\n2\t3\t4\n", "\t", "a\tb\r\n1\t2\r\n"},
	"FIXED": {
		"a    b   c  \n1    xy  3  \n22   日本z  \n", "a b c\n1 2 3\n", "aaaa\n", "a  b\n\n1  2\n", "  a  b\n 1  2\n", "a\tb\n1\t2\n", "abcdefghij\nklmnopqrst\n", "", "\n\n", "日本語日本語\nｱｲｳｴｵｶｷ\n",
		"a  b  \n1  2  3  4  5\n", "abcdefghijklmnopqrstuvwxyz", "x\n",
	},
	"LTSV": {"a:1\tb:2\na:3\tc:4\n", "a:1\n", "a\tb\n", ":1\t:2\n", "a:\tb:\n", "a:1\ta:2\n", "a:x:y\tb:z\n", "\n\n", "", "a:1\t\tb:2\n", "日本:語\tｱ:é\n", "a:1\r\nb:2\r\n", "\ta:1\t\n"},
	"JSON": {
		`[{"a":1,"b":"x"},{"a":2,"b":null}]`, `[{"a":1},{"b":2},{"a":3,"b":4,"c":[1,2]}]`, `{"a":[{"b":1},{"b":2}],"c":{"d":1}}`, `[]`, `{}`, `null`, `1`, `"s"`, `[1,2,3]`, `[[1,2],[3]]`,
		`[{"a":{"b":{"c":1}}},{"a":{"b":2}},{"a":3}]`, `[{"a.b":1,"a":{"b":2}}]`, `[{"a[0]":1,"a..b":2,"":3}]`, `[{"a":1e400,"b":-0,"c":12345678901234567890,"d":1.5e-400}]`,
		`[{"a":"\ud800","b":"\u0000","c":"\uD83D\uDE00"}]`, `[{"a":1,"a":2}]`, `[{"a":1},`, `[{"a":1}]]`, `{"a":`, `[{"a":1} {"b":2}]`, `[{"a":tru}]`, "\xef\xbb\xbf[{\"a\":1}]", `[{"a":[]},{"a":{}}]`,
		`[null,{"a":1}]`, `[{"a":1},null]`, `[{"a":1},2]`, " \n\t[ { \"a\" : 1 } ] \n",
	},
	"JSONL": {
		"{\"a\":1,\"b\":\"x\"}\n{\"a\":2,\"b\":null}\n", "{\"a\":1}\n{\"b\":2}\n{\"a\":3,\"c\":[1]}\n", "{\"a\":1}\n\n\n{\"a\":2}\n", "1\n2\n", "[1]\n[2]\n", "{\"a\":1}{\"a\":2}\n", "{\"a\":1}\n{\"a\":\n", "", "\n", "{}\n{}\n",
		"{\"a\":{\"b\":1}}\n{\"a\":2}\n", "null\n{\"a\":1}\n", "{\"a\":1}\r\n{\"a\":2}\r\n", "{\"a\":1,\"a\":2}\n",
	},
}

var formats = []string{"CSV", "TSV", "FIXED", "LTSV", "JSON", "JSONL"}

var specialBytes = [][]byte{{'"'}, {','}, {'\t'}, {'\n'}, {'\r'}, {'\r', '\n'}, {':'}, {'\\'}, {0}, {0xff}, {0xfe}, {0xef, 0xbb, 0xbf}, {0xff, 0xfe}, {0xfe, 0xff}, {'{'}, {'['}, {']'}, {'}'}, {' '},
	{0x93, 0xfa, 0x96, 0x7b}, {0x82}, {0xb1, 0xb2}, {0xe3, 0x81}, {0xc0, 0x80}, {0xed, 0xa0, 0x80}, {0xf4, 0x90, 0x80, 0x80}, {'\\', 'u', 'd', '8', '0', '0'}, {0x1b, '[', '3', '1', 'm'}, {0xe2, 0x80, 0x8b}, {0xcc, 0x81}}

// SJIS byte strings (hand-encoded; no dependency on a transcoder in the harness)
var sjisSeeds = []string{"\x93\xfa\x96\x7b,\x8c\xea\n\xb1\xb2,1\n", "a,b\n\x83\x5c,\x95\x5c\n", "\x93\xfa\tb\n1\t2\n", "a:\x93\xfa\tb:\x8c\xea\n", "\x82\xa0  \x82\xa2\n1   2\n"}

func utf16Of(b []byte, bigEndian, bom bool) []byte {
	u := utf16.Encode([]rune(string(b)))
	var out bytes.Buffer
	var order binary.ByteOrder = binary.LittleEndian
	if bigEndian {
		order = binary.BigEndian
	}
	if bom {
		_ = binary.Write(&out, order, uint16(0xfeff))
	}
	for _, c := range u {
		_ = binary.Write(&out, order, c)
	}
	return out.Bytes()
}

func mutate(g *hc.Gen, b []byte) []byte {
	b = append([]byte{}, b...)
	for k := g.Intn(4); k >= 0; k-- {
		pos := 0
		if len(b) > 0 {
			pos = g.Intn(len(b) + 1)
		}
		switch g.Intn(10) {
		case 0: // flip a byte
			if len(b) > 0 {
				b[g.Intn(len(b))] ^= byte(1 << uint(g.Intn(8)))
			}
		case 1, 2: // insert a special sequence
			s := specialBytes[g.Intn(len(specialBytes))]
			b = append(b[:pos:pos], append(append([]byte{}, s...), b[pos:]...)...)
		case 3: // delete a range
			if len(b) > 0 {
				n := 1 + g.Intn(4)
				if pos+n > len(b) {
					n = len(b) - pos
				}
				b = append(b[:pos:pos], b[pos+n:]...)
			}
		case 4: // duplicate a range
			if len(b) > 0 {
				a := g.Intn(len(b))
				e := a + 1 + g.Intn(len(b)-a)
				b = append(b[:e:e], append(append([]byte{}, b[a:e]...), b[e:]...)...)
			}
		case 5: // truncate
			b = b[:pos]
		case 6: // append random bytes
			for i := g.Intn(12); i >= 0; i-- {
				b = append(b, byte(g.Intn(256)))
			}
		case 7: // a long run
			s := specialBytes[g.Intn(len(specialBytes))]
			run := bytes.Repeat(s, 200+g.Intn(3000))
			b = append(b[:pos:pos], append(run, b[pos:]...)...)
		case 8: // swap two bytes
			if len(b) > 1 {
				i, j := g.Intn(len(b)), g.Intn(len(b))
				b[i], b[j] = b[j], b[i]
			}
		case 9: // replace a line break style
			b = bytes.ReplaceAll(b, []byte("\n"), []byte(pick(g, []string{"\r\n", "\r", "\n\n", ""})))
		}
	}
	return b
}

func dataBytes(g *hc.Gen, format string) ([]byte, string) {
	switch g.Intn(12) {
	case 0: // arbitrary bytes
		b := make([]byte, g.Intn(300))
		for i := range b {
			b[i] = byte(g.Intn(256))
		}
		return b, "bytes:random"
	case 1: // bytes from a small alphabet of structure characters
		alpha := []byte("a1,\"\n\t: {}[]\\\r\x00\xff")
		b := make([]byte, g.Intn(120))
		for i := range b {
			b[i] = alpha[g.Intn(len(alpha))]
		}
		return b, "bytes:structure_alphabet"
	case 2:
		return []byte(pick(g, sjisSeeds)), "bytes:sjis"
	case 3: // a seed of ANOTHER format
		return []byte(pick(g, seeds[pick(g, formats)])), "bytes:other_format_seed"
	case 4: // deep nesting / very long line / many columns / many rows
		switch g.Intn(5) {
		case 0:
			n := 1000 + g.Intn(40000)
			return []byte(strings.Repeat("[", n) + strings.Repeat("]", n-g.Intn(2))), "bytes:deep_nesting"
		case 1:
			n := 200 + g.Intn(1300) // as CSV with delimiter `"` or `:` this is a record of thousands of fields
			return []byte(strings.Repeat(`{"a":`, n) + "1" + strings.Repeat("}", n)), "bytes:deep_nesting"
		case 2:
			return []byte("a,b\n" + strings.Repeat("x", 100000+g.Intn(200000)) + ",1\n"), "bytes:long_line"
		case 3:
			return []byte(strings.Repeat("c,", 1500) + "c\n" + strings.Repeat("1,", 1500) + "1\n"), "bytes:many_columns"
		default:
			return []byte("a,b\n" + strings.Repeat("1,2\n", 5000) + "3\n"), "bytes:many_rows"
		}
	}
	s := []byte(pick(g, seeds[format]))
	if g.Intn(4) == 0 {
		return s, "bytes:seed"
	}
	return mutate(g, s), "bytes:mutated_seed"
}

// ---------------------------------------------------------------- option vectors

var delimiters = []string{",", "\t", ";", " ", "|", ":", "\"", "\n", "", "ab", "日", "\\t", "\xff"}
var positions = []string{"SPACES", "spaces", "[1,3,5]", "[5, 9, 12]", "S[2,4]", "s[1]", "[]", "S[]", "[5,3]", "[0]", "[-1]", "[99999999999]", "[1,1]", "x", "[", "[1,", "[1.5]", "[\"a\"]", "", "[9223372036854775807]", "[3,9223372036854775807]", "S[0]", "[2,4,4,8]"}
var encodings = []string{"AUTO", "UTF8", "UTF8M", "UTF16", "UTF16BE", "UTF16LE", "UTF16BEM", "UTF16LEM", "SJIS", "auto", "XXX", ""}
var jsonQueries = []string{"", "a", "a.b", "a[0]", "a[1].b", "a[", "[", "{}", "{a}", "a[].b", "a{b,c}", "a{b as x, c}", "..", "a\\.b", "[]", "[0]", "[-1]", "[99999999999999999999]", "a[]", "{", "a{", "a{b", "a..b", "`a`", "'a'", "a.b.c.d.e.f", strings.Repeat("a.", 2000) + "a", "d.e", "a[1]", "c{d}"}
var extensions = []string{".csv", ".tsv", ".txt", ".json", ".jsonl", ".ltsv", ".dat", ""}

type inproc struct {
	Opts  []opt
	Table string
}

func sqlStr(s string) string { return "'" + strings.ReplaceAll(strings.ReplaceAll(s, `\`, `\\`), "'", "''") + "'" }

func dataJobs(g *hc.Gen, budget int) []*job {
	var jobs []*job
	cases := budget / 3
	for c := 0; c < cases; c++ {
		format := formats[c%len(formats)]
		data, how := dataBytes(g, format)
		tags := []string{"format:" + format, how}
		var ov []opt
		// the format: by option, by extension, or both
		ext := pick(g, extensions)
		byExt := map[string]string{"CSV": ".csv", "TSV": ".tsv", "JSON": ".json", "JSONL": ".jsonl", "LTSV": ".ltsv", "FIXED": ".txt"}
		if g.Intn(3) == 0 {
			ext = byExt[format]
			if format == "FIXED" {
				ov = append(ov, opt{"--import-format", "FIXED", true})
			}
		} else {
			ov = append(ov, opt{"--import-format", pick(g, []string{format, strings.ToLower(format)}), true})
		}
		if g.Intn(12) == 0 {
			ov = append(ov, opt{"--import-format", pick(g, []string{"XXX", "", "GFM", "TEXT"}), true})
		}
		switch g.Intn(3) {
		case 0:
			ov = append(ov, opt{"--delimiter", pick(g, delimiters), true})
		case 1:
			if format == "FIXED" || g.Intn(4) == 0 {
				ov = append(ov, opt{"--delimiter-positions", pick(g, positions), true})
			}
		}
		if format == "FIXED" && g.Intn(2) == 0 {
			ov = append(ov, opt{"--delimiter-positions", pick(g, positions), true})
		}
		enc := ""
		if g.Intn(2) == 0 {
			enc = pick(g, encodings)
			ov = append(ov, opt{"--encoding", enc, true})
		}
		// sometimes really transcode the bytes to UTF-16 / add a BOM (matching the option or not)
		switch g.Intn(10) {
		case 0:
			data, tags = utf16Of(data, false, true), append(tags, "transcoded:utf16le_bom")
		case 1:
			data, tags = utf16Of(data, true, true), append(tags, "transcoded:utf16be_bom")
		case 2:
			data, tags = utf16Of(data, g.Intn(2) == 0, false), append(tags, "transcoded:utf16_no_bom")
		case 3:
			data, tags = append([]byte{0xef, 0xbb, 0xbf}, data...), append(tags, "transcoded:utf8_bom")
		}
		if g.Intn(3) == 0 {
			ov = append(ov, opt{"--no-header", "", false})
		}
		if g.Intn(3) == 0 {
			ov = append(ov, opt{"--allow-uneven-fields", "", false})
		}
		if g.Intn(3) == 0 {
			ov = append(ov, opt{"--without-null", "", false})
		}
		if format == "JSON" || format == "JSONL" || g.Intn(6) == 0 {
			if g.Intn(3) > 0 {
				ov = append(ov, opt{"--json-query", pick(g, jsonQueries), true})
			}
		}
		if g.Intn(4) == 0 {
			ov = append(ov, opt{"--cpu", pick(g, []string{"1", "2", "4", "16"}), true})
		}
		tags = append(tags, optTags(ov)...)
		if enc != "" {
			tags = append(tags, "encoding:"+strings.ToUpper(enc))
		}
		name := "f" + ext
		files := []fileSpec{{Name: name, Data: data}}
		ip := &inproc{Opts: ov, Table: name}

		withFmt := func(o []opt, f string) []opt { return append(append([]opt{}, o...), opt{"--format", f, true}) }
		// 1. SELECT * with JSON output: output shape + the in-process rectangularity probe on the same bytes and options
		jobs = append(jobs, &job{Group: "data", Tags: append([]string{"query:select_star_json"}, tags...), Files: files, Opts: withFmt(ov, "JSON"),
			Stmts: []string{"SELECT * FROM `" + name + "`"}, Probe: "json_rect", InProc: ip})
		// 2. a query that touches every field of every record, or COUNT(*), or the table-object form
		switch g.Intn(4) {
		case 0:
			jobs = append(jobs, &job{Group: "data", Tags: append([]string{"query:count"}, tags...), Files: files, Opts: ov,
				Stmts: []string{"SELECT COUNT(*) FROM `" + name + "`"}})
		case 1:
			jobs = append(jobs, &job{Group: "data", Tags: append([]string{"query:order_distinct_update"}, tags...), Files: files, Opts: ov,
				Stmts: []string{"SELECT DISTINCT * FROM `" + name + "` ORDER BY 1 DESC", "UPDATE `" + name + "` SET `1` = 'x' WHERE TRUE", "SELECT * FROM `" + name + "`", "COMMIT", "SELECT COUNT(*) FROM `" + name + "`"}})
		case 2:
			jobs = append(jobs, &job{Group: "data", Tags: append([]string{"query:fields_subcommand"}, tags...), Files: files, Opts: ov, Fixed: []string{"fields", name}})
		default:
			jobs = append(jobs, &job{Group: "data", Tags: append([]string{"query:table_object"}, tags...), Files: files, Opts: withFmt(nil, pick(g, []string{"CSV", "JSON", "FIXED", "LTSV", "GFM", "BOX", "TEXT", "JSONL", "TSV", "ORG"})),
				Stmts: []string{tableObject(g, format, name, ov)}})
		}
		// 3. the same bytes on standard input
		jobs = append(jobs, &job{Group: "data", Tags: append([]string{"query:stdin"}, tags...), Opts: withFmt(ov, pick(g, []string{"JSON", "CSV", "FIXED", "LTSV", "GFM"})),
			Stmts: []string{pick(g, stdinQueries(len(data)))}, HasStdin: true, Stdin: data, Probe: ""})
	}
	return jobs
}

// tableObject renders the option vector as the arguments of the format's table function.
func tableObject(g *hc.Gen, format, name string, ov []opt) string {
	get := func(flag, def string) string {
		for _, o := range ov {
			if o.Flag == flag {
				if !o.Has {
					return "TRUE"
				}
				return o.Val
			}
		}
		return def
	}
	enc := sqlStr(get("--encoding", "AUTO"))
	nh := get("--no-header", "FALSE")
	wn := get("--without-null", "FALSE")
	id := "`" + name + "`"
	switch format {
	case "CSV":
		return fmt.Sprintf("SELECT * FROM CSV(%s, %s, %s, %s, %s)", sqlStr(get("--delimiter", ",")), id, enc, nh, wn)
	case "TSV":
		return fmt.Sprintf("SELECT * FROM TSV(%s, %s, %s, %s)", id, enc, nh, wn)
	case "FIXED":
		return fmt.Sprintf("SELECT * FROM FIXED(%s, %s, %s, %s, %s)", sqlStr(get("--delimiter-positions", "SPACES")), id, enc, nh, wn)
	case "LTSV":
		return fmt.Sprintf("SELECT * FROM LTSV(%s, %s, %s)", id, enc, wn)
	case "JSON":
		return fmt.Sprintf("SELECT * FROM JSON(%s, %s)", sqlStr(get("--json-query", "")), id)
	}
	return fmt.Sprintf("SELECT * FROM JSONL(%s, %s)", sqlStr(get("--json-query", "")), id)
}

// ---------------------------------------------------------------- the direct rectangularity probe (real loader, in-process)

var flagOf = map[string]string{
	"--import-format": option.ImportFormatFlag, "--delimiter": option.DelimiterFlag, "--delimiter-positions": option.DelimiterPositionsFlag,
	"--encoding": option.EncodingFlag, "--no-header": option.NoHeaderFlag, "--allow-uneven-fields": option.AllowUnevenFieldsFlag,
	"--without-null": option.WithoutNullFlag, "--json-query": option.JsonQueryFlag,
}

// check loads the same bytes with the same import options through the real loader and compares the length
// of every record of the view with the header's.  "" = rectangular (or not loadable in-process).
func (ip *inproc) check(j *job) (why string) {
	defer func() {
		if r := recover(); r != nil {
			why = "loaded_view_probe_panicked"
			_ = r
		}
	}()
	d := freshDir()
	defer os.RemoveAll(d)
	materialise(d, j.Files)
	p := hc.NewProc(d)
	defer p.Close()
	for _, o := range ip.Opts {
		f, ok := flagOf[o.Flag]
		if !ok {
			continue
		}
		var v interface{} = o.Val
		if !o.Has {
			v = true
		}
		if err := p.P.Tx.SetFlag(f, v); err != nil {
			return ""
		}
	}
	view, err := p.Query("SELECT * FROM `" + ip.Table + "`")
	if err != nil || view == nil {
		return ""
	}
	n := view.FieldLen()
	for i, rec := range view.RecordSet {
		if len(rec) != n {
			_ = i
			return "loaded_view"
		}
	}
	return ""
}

// stdinQueries: the unconditional self-join squares the input, so it is only asked of small inputs (a generated
// program must end within the watchdog by construction).
func stdinQueries(size int) []string {
	q := []string{"SELECT * FROM STDIN", "SELECT COUNT(*) FROM STDIN", "UPDATE STDIN SET `1` = 1"}
	if size <= 2048 {
		q = append(q, "SELECT * FROM STDIN a, STDIN b LIMIT 3")
	}
	return q
}
