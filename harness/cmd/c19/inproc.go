package main

// In-process function fuzzer.
//
// The process-level streams spend one csvq process per call, so a coherent argument tuple such as
// (string, small int, huge int) is almost never produced.  Here child processes of THIS binary call
// query.Functions[name](parser.Function{Name: name}, args, flags) (and the aggregate functions) directly,
// millions of times, over typed compact pools:
//
//	arity 0; ALL single values; ALL pairs over the compact pool plus (every 2-character string × a handful
//	of partners, both positions); ALL triples over a reduced pool; random 4-5-tuples.
//
// Safety: before every call the child writes (function, call number, argument indices) into a small
// mmap'ed ring file; it runs under the same address-space limit as the csvq children plus GOMEMLIMIT; the
// parent watches the ring: a child that dies or stops advancing is attributed to its last call, that call is
// reported as a candidate, the value that is extreme in it is poisoned for this function and a new child
// continues behind it.  A recovered panic is a `fatal` candidate, a call over 2 s a `hang` candidate.
//
// NOTHING found here is a law by itself: every candidate is CONFIRMED on the real csvq binary as
// `csvq "SELECT fn(<sql literals>)"` through the existing job machinery, judged by the same oracle, and only
// then reported (grouped by first own frame, so one defect = one law name).

import (
	"bufio"
	"encoding/binary"
	"encoding/json"
	"fmt"
	"math"
	"math/rand"
	"os"
	"os/exec"
	"path/filepath"
	"runtime"
	"sort"
	"strconv"
	"strings"
	"sync"
	"syscall"
	"time"

	"github.com/mithrandie/csvq/lib/option"
	"github.com/mithrandie/csvq/lib/parser"
	"github.com/mithrandie/csvq/lib/query"
	"github.com/mithrandie/csvq/lib/value"
	"github.com/mithrandie/ternary"
)

// ---------------------------------------------------------------- typed pools

type fval struct {
	mk      func() value.Primary // a fresh object per call (functions may hand objects back to csvq's value pool)
	sql     string               // the same value as SQL text, for the confirmation on the binary
	cls     string
	extreme bool // huge by construction: the first suspect when a child runs out of memory or time
}

var (
	vals     []fval
	compact  []int // everything but the 2-character strings
	twoChar  []int
	partners []int // partners of the 2-character strings
	reduced  []int // pool of the exhaustive triples
	// the mode grid: optional unit / mode / encoding arguments ('LEN' | 'BYTE' | 'WIDTH', encodings) × strings of
	// characters whose length, byte count and display width differ (zero-width, combining, wide, surrogate pair, control)
	specials  []int
	smallInts []int
	modes     []int
)

func sqlString(s string) string {
	return "'" + strings.NewReplacer(`\`, `\\`, `'`, `\'`).Replace(s) + "'"
}

func addVal(cls string, sql string, extreme bool, mk func() value.Primary) int {
	vals = append(vals, fval{mk, sql, cls, extreme})
	return len(vals) - 1
}

func addStr(cls, s string) int {
	return addVal(cls, sqlString(s), len(s) > 1000 || reHugeInt.MatchString(s), func() value.Primary { return value.NewString(s) })
}

func sqlInt(i int64) string {
	if i == math.MinInt64 {
		return "(-9223372036854775807 - 1)"
	}
	return strconv.FormatInt(i, 10)
}

func sqlFloat(f float64) string {
	switch {
	case math.IsNaN(f):
		return "FLOAT('NaN')"
	case math.IsInf(f, 1):
		return "FLOAT('Inf')"
	case math.IsInf(f, -1):
		return "FLOAT('-Inf')"
	case f == 0 && math.Signbit(f):
		return "-0.0"
	case math.Abs(f) >= 1e15 || math.Abs(f) < 1e-6 && f != 0:
		return "FLOAT('" + strconv.FormatFloat(f, 'g', -1, 64) + "')"
	}
	s := strconv.FormatFloat(f, 'f', -1, 64)
	if !strings.Contains(s, ".") {
		s += ".0"
	}
	return s
}

const alphabet = "a'\"`\\.[]{}%$() 0-,:*"

var fmtStrings = func() []string {
	var out []string
	for _, v := range "sdfeqxbotTU" {
		for _, m := range []string{"", ".5", "5", ".0"} {
			out = append(out, "%"+m+string(v))
		}
	}
	// widths and precisions of 10+ digits in every placeholder: the formatter must refuse them, not allocate them
	for _, v := range "dfesqxbo" {
		for _, m := range []string{"99999999999", "9999999999999999999", ".99999999999", ".9999999999999999999", "099999999999", "-99999999999"} {
			out = append(out, "%"+m+string(v))
		}
	}
	return append(out, "%-5s", "%05d", "%+d", "%#x", "% d", "%*d", "%.*f", "%[2]d", "%!", "abc%", "%%", "%5", "%.", "%-", "%5.2f%s", "%s %s", "%99999999999s", "%.99999999999f",
		"%Y-%m-%d %H:%i:%s.%n %Z", "%a %b %e %h %p %v %y %c %E %F %f %g %j %k %l %M %N %u %z", "%Y%", "%10Y")
}()

var jsonTexts = []string{`{"a":1}`, `[1,2,3]`, `{"a":[{"b":1},{"b":2}]}`, `{"a":{"b":{"c":1}}}`, `[1,2`, `{"a"`, `{"a":`, `"s"`, `null`, `[]`, `{}`, `[{"a":1,"a.b":2}]`, `{"a":"\ud800"}`, `[{"a":1},2]`}

var ipJSONQueries = []string{"a.b", "a.b.c", "a[0]", "a[1].b", "a[]", "a[].b", "a{b}", "a{b as x}", "a[", "a[0", "a{", "a{b", "..", "a.", ".a", `a."`, `a.'`, "a.`", "'a", `"a"`, "'a'.b", `a\.b`,
	"[0]", "a[-1]", "a[99999999999999999999]", "a[0][0]", "a{b,}", "a[].b{c}", "a.b[", `a["`}

var regexps = []string{"(?", "(a)(b)", "[a-", ".*", "(?P<n>a)", "a{2,1}", `\p{Foo}`, "a|", "^$", "(?i)A", "a{1001}", "(((a)))", "(a*)*b", "(a|aa)+$", "^(a+)+$", "(.*a){12}b", "%a%a%a%a%a%a%a%a%a%a%a%a%b"}

var words = []string{"UTF8", "UTF16", "SJIS", "AUTO", "XXX", "LEN", "BYTE", "WIDTH", "Local", "UTC", "Asia/Tokyo", "No/Where", "L", "R", "CSV", "JSON", "LF", "BACKSLASH", "HEXALL", "year", "true"}

func initPools() {
	if vals != nil {
		return
	}
	red := map[string]bool{}
	mark := func(i int, isReduced bool) {
		compact = append(compact, i)
		if isReduced {
			reduced = append(reduced, i)
			red[vals[i].sql] = true
		}
	}
	for _, i := range []int64{0, 1, -1, 2, 3, 5, 10, 64, 255, 1<<31 - 1, 1 << 31, -(1 << 31) - 1, 1 << 53, math.MaxInt64, math.MinInt64, math.MaxInt64 - 1, math.MinInt64 + 1} {
		i := i
		isRed := i == 0 || i == 1 || i == -1 || i == 5 || i == 1<<31-1 || i == math.MaxInt64 || i == math.MinInt64
		mark(addVal("int", sqlInt(i), i >= 1<<31-1 || i <= -(1<<31), func() value.Primary { return value.NewInteger(i) }), isRed)
	}
	for _, f := range []float64{0, math.Copysign(0, -1), 0.5, 1.5, -2.5, 1e18, 1e19, 1e308, math.NaN(), math.Inf(1), math.Inf(-1), 5e-324} {
		f := f
		mark(addVal("float", sqlFloat(f), math.Abs(f) >= 1e18, func() value.Primary { return value.NewFloat(f) }), f == 1.5 || math.IsNaN(f))
	}
	mark(addVal("null", "NULL", false, func() value.Primary { return value.NewNull() }), true)
	for _, t := range []struct {
		s string
		v ternary.Value
	}{{"TRUE", ternary.TRUE}, {"FALSE", ternary.FALSE}, {"UNKNOWN", ternary.UNKNOWN}} {
		t := t
		mark(addVal("ternary", t.s, false, func() value.Primary { return value.NewTernary(t.v) }), t.s == "TRUE")
	}
	for _, b := range []bool{true, false} {
		b := b
		mark(addVal("boolean", "BOOLEAN("+strings.ToUpper(strconv.FormatBool(b))+")", false, func() value.Primary { return value.NewBoolean(b) }), false)
	}
	for k, t := range []time.Time{
		time.Date(2012, 2, 3, 9, 18, 15, 123456789, time.UTC), time.Date(0, 1, 1, 0, 0, 0, 0, time.UTC), time.Date(9999, 12, 31, 23, 59, 59, 999999999, time.UTC),
		time.Date(1970, 1, 1, 0, 0, 0, 0, time.UTC), time.Date(2012, 2, 29, 23, 59, 59, 0, time.FixedZone("", 9*3600)),
	} {
		t := t
		mark(addVal("datetime", "DATETIME('"+t.Format(time.RFC3339Nano)+"')", false, func() value.Primary { return value.NewDatetime(t) }), k == 0)
	}
	for _, s := range []string{"", " ", "a", "abc", "日本語", "é", "-1", "1.5", "NaN", "2012-02-03", strings.Repeat("a", 40), strings.Repeat("a", 5000)} {
		mark(addStr("string", s), s == "" || s == "abc" || s == "日本語")
	}
	for _, c := range alphabet {
		if string(c) == "a" || string(c) == " " {
			continue // already there
		}
		mark(addStr("string1", string(c)), c == '-')
	}
	for _, s := range fmtStrings {
		mark(addStr("format", s), false)
	}
	for _, s := range jsonTexts {
		mark(addStr("json", s), false)
	}
	for _, s := range ipJSONQueries {
		mark(addStr("jsonquery", s), false)
	}
	for _, s := range regexps {
		mark(addStr("regexp", s), false)
	}
	for _, s := range words {
		mark(addStr("word", s), false)
	}
	for _, s := range []string{"\u0301", "\u200b", "\u0301\u200b\u0301", "\u65e5\u672c", "\U0001F600", "\x01\x1b", "\t\n", "\uff71", "a\u0301", "\u200f\u202e"} {
		i := addStr("special", s)
		mark(i, false)
		specials = append(specials, i)
	}
	for i, v := range vals {
		in := func(xs ...string) bool {
			for _, x := range xs {
				if v.sql == x {
					return true
				}
			}
			return false
		}
		if in("''", "'abc'", "'"+strings.Repeat("a", 5000)+"'") {
			specials = append(specials, i)
		}
		if in("0", "1", "-1", "3", "5", "10") {
			smallInts = append(smallInts, i)
		}
		if in("'LEN'", "'BYTE'", "'WIDTH'", "'UTF8'", "'SJIS'", "'UTF16'", "'AUTO'", "'XXX'", "NULL", "''") {
			modes = append(modes, i)
		}
	}
	for _, a := range alphabet {
		for _, b := range alphabet {
			twoChar = append(twoChar, addStr("string2", string(a)+string(b)))
		}
	}
	// partners of the 2-character strings: the values a string function typically meets them with
	for _, sql := range []string{"NULL", "0", "1", "'abc'", "'{\"a\":1}'", "'" + `{"a":{"b":{"c":1}}}` + "'", "''", "'a'"} {
		for i, v := range vals {
			if v.sql == sql {
				partners = append(partners, i)
				break
			}
		}
	}
}

// ---------------------------------------------------------------- the call sequence of one function

type task struct {
	Name  string
	Kind  string // "scalar" | "aggregate" | "listagg" | "jsonagg"
	From  int    // first call number to run (resume point)
	Phase int    // 0: exhaustive singles / pairs / triples + sampled tuples; > 0 (later rounds of a thorough run): sampled tuples only
}

// forEachCall enumerates the calls of one function in a fixed order; f returns false to stop.
func forEachCall(t task, seed int64, f func(k int, args []int) bool) {
	k := 0
	emit := func(args ...int) bool {
		ok := f(k, args)
		k++
		return ok
	}
	rnd := rand.New(rand.NewSource(seed ^ int64(hashName(t.Name)) ^ int64(t.Phase)<<40))
	samples := 1
	if t.Phase > 0 {
		samples = 8
	}
	if t.Kind != "scalar" {
		// a list of cells (plus, for LISTAGG, the separator as the LAST index)
		if t.Phase == 0 {
			if !emit() {
				return
			}
			for i := range vals {
				if !emit(i) {
					return
				}
			}
			for _, a := range reduced {
				for _, b := range reduced {
					if !emit(a, b) {
						return
					}
				}
			}
		}
		for n := 0; n < 600*samples; n++ {
			l := 3 + rnd.Intn(14)
			args := make([]int, l)
			for i := range args {
				if rnd.Intn(3) == 0 {
					args[i] = compact[rnd.Intn(len(compact))]
				} else {
					args[i] = reduced[rnd.Intn(len(reduced))]
				}
			}
			if !emit(args...) {
				return
			}
		}
		return
	}
	if t.Phase == 0 {
		if !emit() {
			return
		}
		for i := range vals {
			if !emit(i) {
				return
			}
		}
		for _, a := range compact {
			for _, b := range compact {
				if !emit(a, b) {
					return
				}
			}
		}
		for _, a := range twoChar {
			for _, b := range partners {
				if !emit(a, b) || !emit(b, a) {
					return
				}
			}
		}
		for _, a := range reduced {
			for _, b := range reduced {
				for _, c := range reduced {
					if !emit(a, b, c) {
						return
					}
				}
			}
		}
	}
	if t.Phase == 0 {
		// the mode grid (see the pools): f(s, m), f(s, x, m), f(s, i, s2, m), f(s, i, s2, m, m2)
		for _, a := range specials {
			for _, m := range modes {
				if !emit(a, m) {
					return
				}
				for _, x := range smallInts {
					if !emit(a, x, m) {
						return
					}
				}
				for _, x := range specials {
					if !emit(a, x, m) {
						return
					}
				}
				for ii, i := range smallInts {
					for _, b := range specials {
						if !emit(a, i, b, m) {
							return
						}
						if ii%2 == 1 {
							continue
						}
						for _, m2 := range modes[:3] {
							if !emit(a, i, b, m, m2) {
								return
							}
						}
					}
				}
			}
		}
	}
	// pairs of the compact pool extended by one reduced value in front / behind (functions of 3 arguments whose
	// interesting argument is a format, a query, a regular expression …): sampled
	for n := 0; n < 6000*samples; n++ {
		a, b, c := compact[rnd.Intn(len(compact))], compact[rnd.Intn(len(compact))], reduced[rnd.Intn(len(reduced))]
		switch rnd.Intn(3) {
		case 0:
			a, c = c, a
		case 1:
			b, c = c, b
		}
		if !emit(a, b, c) {
			return
		}
	}
	for n := 0; n < 1500*samples; n++ {
		l := 4 + rnd.Intn(2)
		args := make([]int, l)
		for i := range args {
			if rnd.Intn(2) == 0 {
				args[i] = compact[rnd.Intn(len(compact))]
			} else {
				args[i] = reduced[rnd.Intn(len(reduced))]
			}
		}
		if !emit(args...) {
			return
		}
	}
}

func hashName(s string) uint32 {
	var h uint32 = 2166136261
	for i := 0; i < len(s); i++ {
		h = (h ^ uint32(s[i])) * 16777619
	}
	return h
}

func callSQL(t task, args []int) string {
	parts := make([]string, len(args))
	for i, a := range args {
		parts[i] = vals[a].sql
	}
	switch t.Kind {
	case "scalar":
		return "SELECT " + t.Name + "(" + strings.Join(parts, ", ") + ")"
	case "listagg":
		sep := "','"
		if len(parts) > 0 {
			sep, parts = parts[len(parts)-1], parts[:len(parts)-1]
		}
		return "SELECT LISTAGG(x, " + sep + ") FROM (" + unionOf(parts) + ") t"
	}
	return "SELECT " + t.Name + "(x) FROM (" + unionOf(parts) + ") t"
}

func unionOf(parts []string) string {
	if len(parts) == 0 {
		return "SELECT 1 AS x FROM DUAL WHERE FALSE"
	}
	sel := make([]string, len(parts))
	for i, p := range parts {
		sel[i] = "SELECT " + p + " AS x"
		if i > 0 {
			sel[i] = "SELECT " + p
		}
	}
	return strings.Join(sel, " UNION ALL ")
}

func inprocTasks(phase int) []task {
	ts := inprocTasksOf()
	for i := range ts {
		ts[i].Phase = phase
	}
	return ts
}

func inprocTasksOf() []task {
	var ts []task
	for _, n := range sortedKeys(query.Functions) {
		ts = append(ts, task{Name: n, Kind: "scalar"})
	}
	for _, n := range sortedKeys(query.AggregateFunctions) {
		ts = append(ts, task{Name: n, Kind: "aggregate"})
	}
	ts = append(ts, task{Name: "LISTAGG", Kind: "listagg"}, task{Name: "JSON_AGG", Kind: "jsonagg"})
	return ts
}

// ---------------------------------------------------------------- the ring (last call about to be made)

const ringSize = 64

// layout: [0:8] sequence number (^0 = shard finished), [8:12] task index, [12:20] call number, [20] argument count, [21:] argument indices (uint16, at most 20)
func ringWrite(ring []byte, seq uint64, ti int, k int, args []int) {
	binary.LittleEndian.PutUint32(ring[8:], uint32(ti))
	binary.LittleEndian.PutUint64(ring[12:], uint64(k))
	n := len(args)
	if n > 20 {
		n = 20
	}
	ring[20] = byte(n)
	for i := 0; i < n; i++ {
		binary.LittleEndian.PutUint16(ring[21+2*i:], uint16(args[i]))
	}
	binary.LittleEndian.PutUint64(ring[0:], seq)
}

func ringRead(ring []byte) (seq uint64, ti int, k int, args []int) {
	seq = binary.LittleEndian.Uint64(ring[0:])
	ti = int(binary.LittleEndian.Uint32(ring[8:]))
	k = int(binary.LittleEndian.Uint64(ring[12:]))
	n := int(ring[20])
	for i := 0; i < n && i < 20; i++ {
		args = append(args, int(binary.LittleEndian.Uint16(ring[21+2*i:])))
	}
	return
}

func mapRing(path string, create bool) []byte {
	flag := os.O_RDWR
	if create {
		flag |= os.O_CREATE | os.O_TRUNC
	}
	f, err := os.OpenFile(path, flag, 0o644)
	must(err)
	defer f.Close()
	if create {
		must(f.Truncate(ringSize))
	}
	b, err := syscall.Mmap(int(f.Fd()), 0, ringSize, syscall.PROT_READ|syscall.PROT_WRITE, syscall.MAP_SHARED)
	must(err)
	return b
}

// ---------------------------------------------------------------- child

type poison struct {
	Pos int // -1: the exact tuple
	Val int
	All []int
}

type childSpec struct {
	Seed   int64
	Tasks  []task
	Poison map[string][]poison
	Ring   string
	Out    string
}

type childLine struct {
	Kind     string         `json:"kind"` // "candidate" | "done"
	Task     int            `json:"task"`
	K        int            `json:"k,omitempty"`
	Args     []int          `json:"args,omitempty"`
	What     string         `json:"what,omitempty"` // fatal | slow
	Msg      string         `json:"msg,omitempty"`
	Frame    string         `json:"frame,omitempty"`
	Calls    int            `json:"calls,omitempty"`
	Arity    map[string]int `json:"arity,omitempty"`
	Outcomes map[string]int `json:"outcomes,omitempty"`
}

func poisoned(ps []poison, args []int) bool {
	for _, p := range ps {
		if p.Pos >= 0 {
			if p.Pos < len(args) && args[p.Pos] == p.Val {
				return true
			}
			continue
		}
		if len(p.All) == len(args) {
			same := true
			for i := range args {
				if args[i] != p.All[i] {
					same = false
				}
			}
			if same {
				return true
			}
		}
	}
	return false
}

func ownFrame() string {
	pcs := make([]uintptr, 64)
	n := runtime.Callers(3, pcs)
	fr := runtime.CallersFrames(pcs[:n])
	var names []string
	for {
		f, more := fr.Next()
		names = append(names, f.Function)
		if !more {
			break
		}
	}
	// the frames above the runtime's panic machinery, innermost first; stop at the harness
	start := 0
	for start < len(names) && strings.HasPrefix(names[start], "runtime.") {
		start++ // gopanic, goPanicIndex, panicmem, sigpanic … are contiguous at the top
	}
	for _, f := range names[start:] {
		if strings.HasPrefix(f, "main.") {
			break
		}
		if strings.HasPrefix(f, "github.com/mithrandie/") {
			return short(f)
		}
	}
	for _, f := range names[start:] {
		if !strings.HasPrefix(f, "runtime.") && !strings.HasPrefix(f, "main.") {
			return short(f)
		}
	}
	return "unknown"
}

func inprocChild() {
	b, err := os.ReadFile(os.Getenv("C19_INPROC_SPEC"))
	must(err)
	var spec childSpec
	must(json.Unmarshal(b, &spec))
	initPools()
	ring := mapRing(spec.Ring, false)
	of, err := os.OpenFile(spec.Out, os.O_APPEND|os.O_CREATE|os.O_WRONLY, 0o644)
	must(err)
	defer of.Close()
	emit := func(l childLine) {
		jb, _ := json.Marshal(l)
		_, _ = of.Write(append(jb, '\n'))
	}
	flags, err := option.NewFlags(nil)
	must(err)
	must(flags.SetLocation("UTC"))
	var seq uint64
	selfTest := os.Getenv("C19_INPROC_SELFTEST") // "<FN>:<call number>": exercise the parent's watchdog / restart path
	argv := make([]value.Primary, 0, 24)
	for ti, t := range spec.Tasks {
		var scalar query.BuiltInFunction
		var agg query.AggregateFunction
		switch t.Kind {
		case "scalar":
			scalar = query.Functions[t.Name]
		case "aggregate":
			agg = query.AggregateFunctions[t.Name]
		}
		ps := spec.Poison[t.Name]
		calls, arity, outcomes := 0, map[string]int{}, map[string]int{}
		expr := parser.Function{Name: t.Name}
		forEachCall(t, spec.Seed, func(k int, args []int) bool {
			if k < t.From || poisoned(ps, args) {
				return true
			}
			seq++
			ringWrite(ring, seq, ti, k, args)
			if selfTest != "" && selfTest == fmt.Sprintf("%s:%d", t.Name, k) {
				switch os.Getenv("C19_INPROC_SELFTEST_MODE") {
				case "hang":
					time.Sleep(time.Hour)
				case "die":
					os.Exit(3)
				}
			}
			argv = argv[:0]
			for _, a := range args {
				argv = append(argv, vals[a].mk())
			}
			t0 := time.Now()
			outcome, msg, frame := func() (outcome, msg, frame string) {
				defer func() {
					if r := recover(); r != nil {
						outcome, msg, frame = "panic", fmt.Sprint(r), ownFrame()
					}
				}()
				switch t.Kind {
				case "scalar":
					v, err := scalar(expr, argv, flags)
					switch {
					case err != nil:
						return "error", "", ""
					case v == nil || value.IsNull(v):
						return "null", "", ""
					}
					return "value", "", ""
				case "aggregate":
					_ = agg(argv, flags)
				case "listagg":
					sep := ","
					list := argv
					if len(argv) > 0 {
						if s, ok := argv[len(argv)-1].(*value.String); ok {
							sep = s.Raw()
						}
						list = argv[:len(argv)-1]
					}
					_ = query.ListAgg(list, sep)
				case "jsonagg":
					_ = query.JsonAgg(argv)
				}
				return "value", "", ""
			}()
			dur := time.Since(t0)
			calls++
			arity[strconv.Itoa(len(args))]++
			outcomes[outcome]++
			if outcome == "panic" {
				emit(childLine{Kind: "candidate", Task: ti, K: k, Args: append([]int{}, args...), What: "fatal", Msg: trunc(msg, 200), Frame: frame})
			} else if dur > 2*time.Second {
				emit(childLine{Kind: "candidate", Task: ti, K: k, Args: append([]int{}, args...), What: "slow", Msg: dur.String()})
			}
			return true
		})
		emit(childLine{Kind: "done", Task: ti, Calls: calls, Arity: arity, Outcomes: outcomes})
	}
	binary.LittleEndian.PutUint64(ring[0:], ^uint64(0))
}

// ---------------------------------------------------------------- parent

type candidate struct {
	t     task
	args  []int
	what  string // fatal | slow | hang (watchdog) | died
	msg   string
	frame string
}

type inprocResult struct {
	cands     []candidate
	calls     map[string]int // per function
	arity     map[string]int
	outcomes  map[string]int
	sigs      []string // distinct (function, arity) / (function, outcome) signatures seen
	restarts  int
	oom       int
	abandoned []string
}

// runInproc shards the functions over child processes and collects the candidates.
func runInproc(seed int64, workers int, phase int) *inprocResult {
	initPools()
	tasks := inprocTasks(phase)
	res := &inprocResult{calls: map[string]int{}, arity: map[string]int{}, outcomes: map[string]int{}}
	var mu sync.Mutex
	self, err := os.Executable()
	must(err)
	shards := make([][]task, workers)
	for i, t := range tasks {
		shards[i%workers] = append(shards[i%workers], t)
	}
	var wg sync.WaitGroup
	for w := range shards {
		if len(shards[w]) == 0 {
			continue
		}
		w := w
		wg.Add(1)
		go func() {
			defer wg.Done()
			dir := filepath.Join(scratch, fmt.Sprintf("inproc-%d", w))
			must(os.MkdirAll(dir, 0o755))
			defer os.RemoveAll(dir)
			todo := append([]task{}, shards[w]...)
			poisonOf := map[string][]poison{}
			restartsOf := map[string]int{}
			for len(todo) > 0 {
				ringPath, outPath, specPath := filepath.Join(dir, "ring"), filepath.Join(dir, "out"), filepath.Join(dir, "spec")
				ring := mapRing(ringPath, true)
				_ = os.Remove(outPath)
				sb, _ := json.Marshal(childSpec{Seed: seed, Tasks: todo, Poison: poisonOf, Ring: ringPath, Out: outPath})
				must(os.WriteFile(specPath, sb, 0o644))
				cmd := exec.Command("/bin/sh", "-c", limitSh+`exec "$@"`, "sh", self)
				cmd.Env = []string{"C19_INPROC_SPEC=" + specPath, "GOMEMLIMIT=2500MiB", "HOME=" + dir, "TZ=UTC", "PATH=/usr/bin:/bin",
					"C19_INPROC_SELFTEST=" + os.Getenv("C19_INPROC_SELFTEST"), "C19_INPROC_SELFTEST_MODE=" + os.Getenv("C19_INPROC_SELFTEST_MODE")}
				cmd.Dir = dir
				var se strings.Builder
				cmd.Stderr = &limitedWriter{w: &se, n: 4000}
				cmd.SysProcAttr = &syscall.SysProcAttr{Setpgid: true}
				must(cmd.Start())
				done := make(chan error, 1)
				go func() { done <- cmd.Wait() }()
				var lastSeq uint64
				lastMove := time.Now()
				hung := false
			watch:
				for {
					select {
					case <-done:
						break watch
					case <-time.After(200 * time.Millisecond):
						seq, _, _, _ := ringRead(ring)
						if seq != lastSeq {
							lastSeq, lastMove = seq, time.Now()
						} else if time.Since(lastMove) > 6*time.Second {
							_ = syscall.Kill(-cmd.Process.Pid, syscall.SIGKILL)
							<-done
							hung = true
							break watch
						}
					}
				}
				seq, ti, k, args := ringRead(ring)
				_ = syscall.Munmap(ring)
				// what the child reported before it ended
				finishedTasks := 0
				if f, err := os.Open(outPath); err == nil {
					sc := bufio.NewScanner(f)
					sc.Buffer(make([]byte, 1<<20), 1<<20)
					mu.Lock()
					for sc.Scan() {
						var l childLine
						if json.Unmarshal(sc.Bytes(), &l) != nil || l.Task >= len(todo) {
							continue
						}
						switch l.Kind {
						case "candidate":
							res.cands = append(res.cands, candidate{todo[l.Task], l.Args, l.What, l.Msg, l.Frame})
						case "done":
							finishedTasks = l.Task + 1
							res.calls[todo[l.Task].Name] += l.Calls
							for a, n := range l.Arity {
								res.arity[a] += n
								res.sigs = append(res.sigs, "inproc:"+todo[l.Task].Name+":arity"+a)
							}
							for a, n := range l.Outcomes {
								res.outcomes[a] += n
								res.sigs = append(res.sigs, "inproc:"+todo[l.Task].Name+":"+a)
							}
						}
					}
					mu.Unlock()
					f.Close()
				}
				if seq == ^uint64(0) {
					break // shard finished
				}
				if seq == 0 || ti >= len(todo) {
					// the child died before its first call: nothing to attribute; give up on this shard's remainder
					mu.Lock()
					for _, t := range todo[finishedTasks:] {
						res.abandoned = append(res.abandoned, t.Name+" (child could not start: "+trunc(se.String(), 200)+")")
					}
					mu.Unlock()
					break
				}
				// the child died or hung IN call (ti, k)
				t := todo[ti]
				stderr := se.String()
				mu.Lock()
				res.restarts++
				res.calls[t.Name] += k - t.From + 1 // approximately: poisoned calls were skipped
				switch {
				case hung:
					res.cands = append(res.cands, candidate{t, args, "hang", "no progress for 6 s", ""})
				case strings.Contains(stderr, "out of memory") || strings.Contains(stderr, "cannot allocate memory"):
					// confirmed on the binary like every candidate: there the oracle decides whether the command names
					// a large quantity (observation) or not (memory:unbounded_growth)
					res.oom++
					res.cands = append(res.cands, candidate{t, args, "oom", "out of memory under the harness limit", ""})
				default:
					res.cands = append(res.cands, candidate{t, args, "died", trunc(stderr, 300), ""})
				}
				mu.Unlock()
				// poison the suspect value(s) for this function, continue behind the call
				suspects := 0
				for pos, a := range args {
					if vals[a].extreme {
						poisonOf[t.Name] = append(poisonOf[t.Name], poison{Pos: pos, Val: a})
						suspects++
					}
				}
				if suspects == 0 {
					poisonOf[t.Name] = append(poisonOf[t.Name], poison{Pos: -1, All: args})
				}
				restartsOf[t.Name]++
				todo = append([]task{}, todo[ti:]...)
				todo[0].From = k + 1
				if restartsOf[t.Name] > 150 {
					mu.Lock()
					res.abandoned = append(res.abandoned, t.Name+" (more than 150 restarts)")
					mu.Unlock()
					todo = todo[1:]
				}
			}
		}()
	}
	wg.Wait()
	return res
}

type limitedWriter struct {
	w *strings.Builder
	n int
}

func (l *limitedWriter) Write(p []byte) (int, error) {
	if l.w.Len() < l.n {
		l.w.Write(p[:min(len(p), l.n-l.w.Len())])
	}
	return len(p), nil
}

// confirmJobs: for every group of candidates (kind, first own frame, function) a few jobs for the real binary,
// shortest SQL first.
func (r *inprocResult) confirmJobs() []*job {
	type grp struct{ cands []candidate }
	groups := map[string]*grp{}
	var keys []string
	for _, c := range r.cands {
		key := c.what + "|" + c.frame
		if c.frame == "" {
			key = c.what + "|" + c.t.Name
		}
		if groups[key] == nil {
			groups[key] = &grp{}
			keys = append(keys, key)
		}
		groups[key].cands = append(groups[key].cands, c)
	}
	sort.Strings(keys)
	var jobs []*job
	for _, key := range keys {
		cs := groups[key].cands
		sort.SliceStable(cs, func(i, j int) bool { return len(callSQL(cs[i].t, cs[i].args)) < len(callSQL(cs[j].t, cs[j].args)) })
		// a few per group, preferring different functions (one frame is often reached from several)
		seenFn := map[string]int{}
		n := 0
		for _, c := range cs {
			if seenFn[c.t.Name] >= 2 || n >= 8 {
				continue
			}
			seenFn[c.t.Name]++
			n++
			j := &job{Group: "inproc", Tags: []string{"fn:" + c.t.Name, "inproc_candidate:" + key}, Files: nil, Stmts: []string{callSQL(c.t, c.args)}}
			if c.t.Kind == "scalar" {
				parts := make([]string, len(c.args))
				for i, a := range c.args {
					parts[i] = vals[a].sql
				}
				j.Stmts = nil
				j.Call = &callSpec{Pre: "SELECT " + c.t.Name + "(", Args: parts, Post: ")"}
			}
			jobs = append(jobs, j)
		}
	}
	return jobs
}
