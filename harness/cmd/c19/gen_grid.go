package main

// Two small exhaustive grids, in-process through the real Processor (parser, evaluator, the function / the clause), run
// once per stream — the dynamic twins of the size obligations of Csvq/Props/C19Sizes.lean:
//
//   placeholder grid   FORMAT (and PRINTF for a slice): every verb × flag (none + - 0 space) × width (none, 1, 2, 3, the number
//                      of characters of the argument − 1 / ± 0 / + 1 in both notations, 20) × precision (none, `.`, 0, 1, 6) ×
//                      argument (0, ±1.2, ±12.5, ±123456.7, ±1e20, NaN-like strings, integers incl. the int64 bounds, NULL,
//                      text, boolean, datetime) — the padding arithmetic of StringFormatter.Format
//                      (`strings.Repeat(.., width - len(s) - len(sign))`) at every sign / width / digits boundary;
//   paging grid        tables of 0 … 8 records with ties at both ends × every LIMIT 0 … n+2 × every OFFSET 0 … n+2 × with and
//                      without ORDER BY × WITH TIES × LIMIT PERCENT, OFFSET alone; with ORDER BY the rows returned are compared
//                      with the cut of the sorted keys (law limit_offset_rows).
//
// A statement that ends in a recovered panic ([Fatal Error]) or panics is reported as law `internal_panic` with the statement
// as replay, and handed to the normal queue as a confirmation job on the real binary (group "grid").

import (
	"fmt"
	"math"
	"os"
	"sort"
	"strconv"
	"strings"
	"time"

	"github.com/mithrandie/csvq/lib/query"

	"verifharness/hc"
)

type gridRunner struct {
	o     *hc.Out
	p     *hc.Proc
	setup string
	// setupFor: the part of the setup a statement needs (the replay names one table, not nine)
	setupFor func(sql string) string
	jobs     []*job
	seen  map[string]bool
	calls int
	hangs int // statements that did not answer: their goroutines keep spinning, so a grid gives up after three
}

// exec: outcome class and the printed result
func (r *gridRunner) exec(sql string) (class string, out string, msg string) {
	if r.hangs >= 3 {
		return "skipped", "", "the grid gave up after three statements that did not end"
	}
	r.calls++
	r.o.Eval()
	type res struct{ c, out, msg string }
	ch := make(chan res, 1)
	go func() {
		defer func() {
			if e := recover(); e != nil {
				ch <- res{"panic", "", fmt.Sprint(e)}
			}
		}()
		s, err := r.p.Exec(sql)
		switch n := hc.ErrNum(err); {
		case err == nil:
			ch <- res{"ok", s, ""}
		case n == query.ErrorFatal:
			ch <- res{"fatal", "", err.Error()}
		default:
			ch <- res{fmt.Sprintf("err%d", n), "", err.Error()}
		}
	}()
	select {
	case x := <-ch:
		return x.c, x.out, x.msg
	case <-time.After(10 * time.Second):
		r.hangs++
		r.p = hc.NewProc("")
		if r.setup != "" {
			_, _ = r.p.Exec(r.setup)
		}
		return "hang", "", "no answer within 10 s"
	}
}

func (r *gridRunner) report(grid, key, sql, class, msg string) {
	r.o.Count("grid_fatal:" + grid)
	if r.seen[grid+"|"+key] {
		return
	}
	r.seen[grid+"|"+key] = true
	stmts := []string{}
	if r.setupFor != nil {
		stmts = append(stmts, strings.TrimSuffix(r.setupFor(sql), ";"))
	} else if r.setup != "" {
		stmts = append(stmts, strings.TrimSuffix(r.setup, ";"))
	}
	stmts = append(stmts, sql)
	prog := strings.Join(stmts, "; ") + ";"
	if len(r.seen) <= 12 {
		r.o.Law("internal_panic", map[string]interface{}{
			"grid": grid, "statement": sql, "outcome": class, "stderr": msg,
			"command":   "csvq " + shellQuote(prog),
			"reproduce": "csvq " + shellQuote(prog) + "   (in-process: the same program through query.Processor.Execute under recover)",
		})
	}
	r.jobs = append(r.jobs, progJob("grid", []string{"grid:" + grid, "grid_candidate:" + key}, nil, stmts...))
}

func shellQuote(s string) string { return "'" + strings.ReplaceAll(s, "'", `'\''`) + "'" }

// ---------------------------------------------------------------- FORMAT / PRINTF

type fmtArg struct {
	sql    string
	digits []int // character counts of the absolute value in the notations the formatter uses
}

func fmtArgs() []fmtArg {
	var out []fmtArg
	num := func(v float64, lit string) {
		a := math.Abs(v)
		ds := map[int]bool{}
		for _, f := range []byte{'f', 'e', 'E'} {
			ds[len(strconv.FormatFloat(a, f, -1, 64))] = true
		}
		if a == math.Trunc(a) && a < 1e18 {
			for _, base := range []int{2, 8, 10, 16} {
				ds[len(strconv.FormatInt(int64(a), base))] = true
			}
		}
		var l []int
		for d := range ds {
			l = append(l, d)
		}
		sort.Ints(l)
		out = append(out, fmtArg{lit, l})
	}
	num(0, "0")
	for _, v := range []float64{1.2, 12.5, 123456.7, 1e20} {
		lit := strconv.FormatFloat(v, 'f', -1, 64)
		num(v, lit)
		num(-v, "-"+lit)
	}
	for _, v := range []int64{7, -7, 42, -42, 1000, -1000} {
		num(float64(v), strconv.FormatInt(v, 10))
	}
	out = append(out,
		fmtArg{"9223372036854775807", []int{19, 16, 63}}, fmtArg{"-9223372036854775808", []int{19, 16, 64}},
		fmtArg{"'NaN'", []int{3}}, fmtArg{"'Inf'", []int{3, 4}}, fmtArg{"'-Inf'", []int{3, 4}}, fmtArg{"'1e400'", []int{4, 5}},
		fmtArg{"NULL", []int{4}}, fmtArg{"'abc'", []int{3, 5}}, fmtArg{"''", []int{0, 2}}, fmtArg{"'日本語'", []int{3, 9}},
		fmtArg{"TRUE", []int{4}}, fmtArg{"'2012-02-03 09:18:15.123'", []int{23, 30}}, fmtArg{"-0.0", []int{1, 2}}, fmtArg{"0.000001", []int{5, 8}},
	)
	return out
}

func formatGrid(o *hc.Out) []*job {
	t0 := time.Now()
	r := &gridRunner{o: o, p: hc.NewProc(""), seen: map[string]bool{}}
	defer func() { r.p.Close() }()
	verbs := []string{"b", "o", "d", "x", "X", "e", "E", "f", "s", "q", "i", "T", "%", "z"}
	flags := []string{"", "+", "-", "0", " "}
	precs := []string{"", ".", ".0", ".1", ".6"}
	args := fmtArgs()
	for _, a := range args {
		ws := map[string]bool{"": true, "1": true, "2": true, "3": true, "20": true}
		for _, d := range a.digits {
			for _, w := range []int{d - 1, d, d + 1, d + 2} {
				if w >= 0 {
					ws[strconv.Itoa(w)] = true
				}
			}
		}
		var widths []string
		for w := range ws {
			widths = append(widths, w)
		}
		sort.Strings(widths)
		for _, v := range verbs {
			for _, f := range flags {
				for _, w := range widths {
					for _, pr := range precs {
						ph := "%" + f + w + pr + v
						sql := "SELECT FORMAT('" + ph + "', " + a.sql + ")"
						if v == "%" {
							sql = "SELECT FORMAT('" + ph + "')"
						}
						c, _, msg := r.exec(sql)
						o.Count("format_grid_outcome:" + c)
						if c == "fatal" || c == "panic" || c == "hang" {
							r.report("format", c+":%"+f+"w"+pr+v+":"+signClass(a.sql), sql, c, msg)
						}
					}
				}
			}
		}
		o.NonTrivial("format_grid:" + a.sql)
	}
	// PRINTF: the same formatter behind the statement, several placeholders in one format, every verb × flag × a few widths
	for _, v := range verbs[:12] {
		for _, f := range flags {
			for _, w := range []string{"", "1", "3", "4", "5", "20"} {
				for _, pr := range []string{"", ".1"} {
					ph := "%" + f + w + pr + v
					for _, pair := range [][2]string{{"-12.5", "7"}, {"12.5", "-7"}, {"NULL", "'abc'"}, {"'x'", "-123456.7"}} {
						sql := "PRINTF '" + ph + "|" + ph + "', " + pair[0] + ", " + pair[1]
						c, _, msg := r.exec(sql)
						o.Count("format_grid_outcome:" + c)
						if c == "fatal" || c == "panic" || c == "hang" {
							r.report("printf", c+":%"+f+"w"+pr+v, sql, c, msg)
						}
					}
				}
			}
		}
	}
	o.Stats["format_grid_calls"] += r.calls
	o.Count(fmt.Sprintf("format_grid: %d verbs x %d flags x widths (none 1 2 3 20 digits-1..digits+2) x %d precisions x %d arguments", len(verbs), len(flags), len(precs), len(args)))
	fmt.Fprintf(os.Stderr, "c19: placeholder grid: %d calls in %.1fs, %d fatal candidates\n", r.calls, time.Since(t0).Seconds(), len(r.jobs))
	return r.jobs
}

func signClass(lit string) string {
	switch {
	case strings.HasPrefix(lit, "-"):
		return "negative"
	case strings.HasPrefix(lit, "'") || lit == "NULL" || lit == "TRUE":
		return "non-number"
	}
	return "non-negative"
}

// ---------------------------------------------------------------- LIMIT / OFFSET

// keys of the table with n records: ties at both ends (1 1 … n-1 n-1), distinct in the middle
func pagingKeys(n int) []int {
	ks := make([]int, n)
	for i := range ks {
		ks[i] = i + 1
	}
	if n >= 2 {
		ks[1] = ks[0]
	}
	if n >= 4 {
		ks[n-1] = ks[n-2]
	}
	return ks
}

func limitGrid(o *hc.Out) []*job {
	t0 := time.Now()
	r := &gridRunner{o: o, seen: map[string]bool{}}
	var setup []string
	per := map[int]string{}
	for n := 0; n <= 8; n++ {
		from := len(setup)
		setup = append(setup, fmt.Sprintf("DECLARE p%d VIEW (k, v)", n))
		if n > 0 {
			var rows []string
			// inserted in an order that is not the sorted one
			ks := pagingKeys(n)
			for i := range ks {
				j := (i*5 + 3) % n
				if gcd(5, n) != 1 {
					j = n - 1 - i
				}
				rows = append(rows, fmt.Sprintf("(%d, 'r%d')", ks[j], j))
			}
			setup = append(setup, fmt.Sprintf("INSERT INTO p%d VALUES %s", n, strings.Join(rows, ", ")))
		}
		per[n] = strings.Join(setup[from:], "; ") + ";"
	}
	r.setup = strings.Join(setup, "; ") + ";"
	r.setupFor = func(sql string) string {
		for n := 0; n <= 8; n++ {
			if strings.Contains(sql, fmt.Sprintf("FROM p%d", n)) {
				return per[n]
			}
		}
		return r.setup
	}
	r.p = hc.NewProc("")
	defer func() { r.p.Close() }()
	if _, err := r.p.Exec(r.setup); err != nil {
		panic("paging grid: " + err.Error())
	}
	rowsOf := func(out string) []string {
		var rows []string
		for _, l := range strings.Split(strings.TrimSpace(out), "\n") {
			l = strings.TrimSpace(l)
			if strings.HasPrefix(l, "|") && !strings.Contains(l, " k ") {
				rows = append(rows, strings.TrimSpace(strings.Trim(l, "|")))
			}
		}
		return rows
	}
	run := func(n int, sql, key string, expect []int) {
		c, out, msg := r.exec(sql)
		o.Count("paging_grid_outcome:" + c)
		if c == "fatal" || c == "panic" || c == "hang" {
			r.report("paging", c+":"+key, sql, c, msg)
			return
		}
		if c == "ok" && expect != nil {
			got := rowsOf(out)
			want := make([]string, len(expect))
			for i, k := range expect {
				want[i] = strconv.Itoa(k)
			}
			if strings.Join(got, ",") != strings.Join(want, ",") && !r.seen["rows|"+key] {
				r.seen["rows|"+key] = true
				o.Law("limit_offset_rows", map[string]interface{}{"statement": sql, "records": n, "keys_sorted": pagingKeys(n), "expected_keys": want, "got_keys": got,
					"command": "csvq " + shellQuote(r.setupFor(sql)+" "+sql+";"), "reproduce": "csvq " + shellQuote(r.setupFor(sql)+" "+sql+";")})
			}
		}
	}
	for n := 0; n <= 8; n++ {
		ks := pagingKeys(n)
		cut := func(limit, offset int, ties bool) []int {
			start := offset
			if start > n {
				start = n
			}
			end := start + limit
			if end > n {
				end = n
			}
			if ties && end > start {
				for end < n && ks[end] == ks[end-1] {
					end++
				}
			}
			return ks[start:end]
		}
		for off := -1; off <= n+2; off++ {
			offClause := ""
			o0 := 0
			if off >= 0 {
				offClause = fmt.Sprintf(" OFFSET %d", off)
				o0 = off
			}
			for lim := 0; lim <= n+2; lim++ {
				for _, ties := range []bool{false, true} {
					tc := ""
					if ties {
						tc = " WITH TIES"
					}
					key := fmt.Sprintf("limit%s offset:%v", tc, off >= 0)
					run(n, fmt.Sprintf("SELECT k FROM p%d ORDER BY k LIMIT %d%s%s", n, lim, tc, offClause), "ordered "+key, cut(lim, o0, ties))
					run(n, fmt.Sprintf("SELECT k FROM p%d LIMIT %d%s%s", n, lim, tc, offClause), "unordered "+key, nil)
					run(n, fmt.Sprintf("SELECT k, RANK() OVER (ORDER BY k) FROM p%d ORDER BY 1 DESC LIMIT %d%s%s", n, lim, tc, offClause), "analytic "+key, nil)
				}
			}
			for _, pc := range []string{"0", "10", "34", "50", "99.9", "100", "150"} {
				for _, ties := range []bool{false, true} {
					tc := ""
					if ties {
						tc = " WITH TIES"
					}
					key := fmt.Sprintf("percent%s offset:%v", tc, off >= 0)
					run(n, fmt.Sprintf("SELECT k FROM p%d ORDER BY k LIMIT %s PERCENT%s%s", n, pc, tc, offClause), "ordered "+key, nil)
					run(n, fmt.Sprintf("SELECT k FROM p%d LIMIT %s PERCENT%s%s", n, pc, tc, offClause), "unordered "+key, nil)
				}
			}
			if off >= 0 {
				run(n, fmt.Sprintf("SELECT k FROM p%d ORDER BY k%s", n, offClause), "ordered offset only", cut(n, off, false))
				run(n, fmt.Sprintf("SELECT k FROM p%d%s", n, offClause), "unordered offset only", nil)
				run(n, fmt.Sprintf("SELECT k FROM (SELECT k FROM p%d ORDER BY k LIMIT %d WITH TIES%s) s ORDER BY k DESC LIMIT 1 WITH TIES OFFSET 1", n, n/2+1, offClause), "nested", nil)
			}
		}
		o.NonTrivial(fmt.Sprintf("paging_grid:%d", n))
	}
	o.Stats["paging_grid_calls"] += r.calls
	o.Count("paging_grid: tables of 0..8 records (ties at both ends) x LIMIT 0..n+2 [WITH TIES] x OFFSET none,0..n+2 x ORDER BY yes/no/analytic; PERCENT 0 10 34 50 99.9 100 150")
	fmt.Fprintf(os.Stderr, "c19: paging grid: %d calls in %.1fs, %d fatal candidates\n", r.calls, time.Since(t0).Seconds(), len(r.jobs))
	return r.jobs
}

func gcd(a, b int) int {
	for b != 0 {
		a, b = b, a%b
	}
	return a
}
