package main

import (
	"strings"
	"time"

	"verifharness/hc"
)

// corpusJobs: the pre-findings of DESIGN.md §7 for C19 (fixed or not) — always run first.
func corpusJobs() []*job {
	mk := func(tag string, opts []opt, stmts ...string) *job {
		return &job{Group: "corpus", Tags: []string{"corpus:" + tag}, Files: fixtures(), Opts: opts, Stmts: stmts}
	}
	removed := mk("F11b removed cwd, relative table name", nil, "SELECT * FROM t")
	removed.RemovedCwd = true
	var racy []*job
	for k := 0; k < 14; k++ {
		// which worker panics second depends on the schedule: several attempts
		racy = append(racy, mk("F36 LPAD with an empty pad string, several workers", cpu4, "SELECT LPAD(s, 10, '') FROM big"))
	}
	return append(racy, []*job{
		mk("F11 LIMIT NaN PERCENT", nil, "SELECT * FROM big LIMIT 'NaN' PERCENT"),
		mk("F11 LIMIT NaN PERCENT", nil, "SELECT * FROM big ORDER BY b LIMIT 'NaN' PERCENT WITH TIES"),
		mk("LIMIT 0 WITH TIES", nil, "SELECT * FROM big ORDER BY b LIMIT 0 WITH TIES"),
		mk("LIMIT 0 WITH TIES", nil, "SELECT * FROM big ORDER BY b OFFSET 200 LIMIT 0 WITH TIES"),
		mk("F9 FETCH RELATIVE overflow", nil, "DECLARE cur CURSOR FOR SELECT * FROM t", "OPEN cur", "VAR @a, @b, @c", "FETCH RELATIVE 9223372036854775807 cur INTO @a, @b, @c",
			"FETCH RELATIVE 9223372036854775807 cur INTO @a, @b, @c", "FETCH NEXT cur INTO @a, @b, @c", "FETCH RELATIVE -9223372036854775808 cur INTO @a, @b, @c", "SELECT @a"),
		mk("F35 LPAD with an empty pad string", nil, "SELECT LPAD('a', 10, '')"),
		mk("F35 RPAD with an empty pad string", nil, "SELECT RPAD(s, 10, '') FROM t"),
		mk("F36 LPAD with an empty pad string, several workers", cpu4, "SELECT LPAD(s, 10, '') FROM big"),
		mk("F36 LPAD with an empty pad string, several workers", cpu4, "SELECT * FROM big WHERE LPAD(s, 10, '') = 'x'"),
		removed,
		// found by this harness (kept as fixed points of the search; each is a law failure while it is not repaired)
		{Group: "corpus", Tags: []string{"corpus:empty file, COUNT(*)"}, Files: []fileSpec{{Name: "e.csv"}}, Stmts: []string{"SELECT COUNT(*) FROM e"}},
		{Group: "corpus", Tags: []string{"corpus:empty LTSV file, UPDATE"}, Files: []fileSpec{{Name: "e.ltsv"}}, Stmts: []string{"UPDATE e SET `1` = 1"}},
		mk("NUMBER_FORMAT with a huge precision", nil, "SELECT NUMBER_FORMAT(1, 4611686018427387904)"),
		mk("window frame whose start lies after its end", nil, "SELECT MAX(i) OVER (ORDER BY i ROWS BETWEEN 0 PRECEDING AND 300 PRECEDING) FROM big"),
		mk("window frame with an offset that overflows", nil, "SELECT AVG(c1) OVER (ORDER BY c1 ROWS BETWEEN 9223372036854775807 FOLLOWING AND 9223372036854775807 FOLLOWING) FROM t"),
		mk("EXECUTE with a value that is not a string", nil, "EXECUTE 1"),
		mk("JSON_VALUE with a blank JSON text", nil, "SELECT JSON_VALUE('', ' ')"),
		mk("LPAD with a length that overflows", nil, "SELECT LPAD('a', 9223372036854775807, 'x')"),
		{Group: "corpus", Tags: []string{"corpus:calc sub-command, panicking function"}, Fixed: []string{"calc", "lpad(c1, 5, '')"}, HasStdin: true, Stdin: []byte("1")},
	}...)
}

// fsJobs: file-system conditions around a load or a write.
func fsJobs(g *hc.Gen) []*job {
	var jobs []*job
	fx := fixtures()
	with := func(extra ...fileSpec) []fileSpec { return append(append([]fileSpec{}, fx...), extra...) }
	add := func(cond string, files []fileSpec, opts []opt, stmts ...string) *job {
		j := &job{Group: "fs", Tags: []string{"fs:" + cond}, Files: files, Opts: opts, Stmts: stmts}
		jobs = append(jobs, j)
		return j
	}
	reads := []string{"SELECT * FROM `%s`", "SELECT COUNT(*) FROM `%s` a, t", "UPDATE `%s` SET c1 = 1", "INSERT INTO `%s` VALUES (1)", "DELETE FROM `%s`", "SELECT * FROM CSV(',', `%s`)",
		"SELECT * FROM JSON('', `%s`)", "SHOW FIELDS FROM `%s`", "SOURCE `%s`", "ALTER TABLE `%s` ADD x", "SELECT * FROM t WHERE c1 IN (SELECT c1 FROM `%s`)",
		"CREATE TABLE `%s` (a)", "CREATE TABLE IF NOT EXISTS `%s` (a)", "SELECT * FROM FIXED('SPACES', `%s`)", "SELECT * FROM LTSV(`%s`)", "SELECT * FROM JSONL('', `%s`)"}
	f := func(t, name string) string { return strings.ReplaceAll(t, "%s", name) }
	for _, q := range reads {
		add("missing file", fx, nil, f(q, "nosuch.csv"))
		add("missing file in missing directory", fx, nil, f(q, "no/such/dir/x.csv"))
		add("directory in place of a file", with(fileSpec{Name: "d.csv", Kind: "dir"}), nil, f(q, "d.csv"))
		add("directory in place of a file (no extension)", with(fileSpec{Name: "dd", Kind: "dir"}), nil, f(q, "dd"))
		add("dangling symlink", with(fileSpec{Name: "dangling.csv", Kind: "symlink", Data: []byte("nowhere.csv")}), nil, f(q, "dangling.csv"))
		add("symlink loop", with(fileSpec{Name: "loop.csv", Kind: "symlink", Data: []byte("loop.csv")}), nil, f(q, "loop.csv"))
		add("symlink to a directory", with(fileSpec{Name: "sd", Kind: "dir"}, fileSpec{Name: "ld.csv", Kind: "symlink", Data: []byte("sd")}), nil, f(q, "ld.csv"))
		add("path through a regular file", fx, nil, f(q, "t.csv/x.csv"))
		add("empty file name", fx, nil, f(q, ""))
		add("very long file name", fx, nil, f(q, strings.Repeat("n", 300)+".csv"))
		add("very long path", fx, nil, f(q, strings.Repeat("p/", 2100)+"x.csv"))
		add("absolute path of a procfs file", fx, nil, f(q, "/proc/self/status"))
		add("ambiguous file name", with(fileSpec{Name: "amb.csv", Data: []byte("a\n1\n")}, fileSpec{Name: "amb.tsv", Data: []byte("a\n1\n")}), nil, f(q, "amb"))
		add("file name that is not UTF-8", with(fileSpec{Name: "\xff\xfe.csv", Data: []byte("a\n1\n")}), nil, f(q, "\xff\xfe.csv"))
		add("stale lock file", with(fileSpec{Name: ".t.csv.lock"}), []opt{{"--wait-timeout", "0.2", true}}, f(q, "t.csv"))
		add("stale read-lock file", with(fileSpec{Name: ".t.csv.rlock.x"}), []opt{{"--wait-timeout", "0.2", true}}, f(q, "t.csv"))
		add("stale temp file", with(fileSpec{Name: ".t.csv.temp"}), []opt{{"--wait-timeout", "0.2", true}}, f(q, "t.csv"))
		add("directory in place of the lock file", with(fileSpec{Name: ".t.csv.lock", Kind: "dir"}), []opt{{"--wait-timeout", "0.2", true}}, f(q, "t.csv"))
		add("wait-timeout 0 with a stale lock", with(fileSpec{Name: ".t.csv.lock"}), []opt{{"--wait-timeout", pick(g, []string{"0", "-1", "0.0001"}), true}}, f(q, "t.csv"))
		j := add("removed working directory", fx, nil, f(q, pick(g, []string{"t.csv", "t", "nosuch.csv", "../t.csv", "./t.csv"})))
		j.RemovedCwd = true
		j = add("removed working directory, --repository given", fx, []opt{{"--repository", ".", true}}, f(q, "t.csv"))
		j.RemovedCwd = true
		// FIFO whose writer arrives late: csvq must read it like a pipe and end
		j = add("FIFO with a late writer", with(fileSpec{Name: "p.csv", Kind: "fifo_writer", Data: []byte("a,b\n1,2\n")}), []opt{{"--wait-timeout", "1", true}}, f(q, "p.csv"))
		j.Timeout = 20 * time.Second
	}
	// FIFO nobody writes to: open(2) blocks by POSIX semantics — observed and counted, not a law
	j := add("FIFO without a writer", with(fileSpec{Name: "p.csv", Kind: "fifo"}), []opt{{"--wait-timeout", "0.2", true}}, "SELECT * FROM `p.csv`")
	j.Timeout, j.BlockOK = 2*time.Second, true

	// writes: targets that cannot be created or written
	outs := []string{"/proc/c19-out.csv", "/dev/full", "/dev/null", ".", "nosuch/dir/out.csv", "t.csv/out.csv", "", "d.csv", "loop.csv", strings.Repeat("n", 300), "/sys/c19-out.csv", "out.csv"}
	for _, o := range outs {
		files := with(fileSpec{Name: "d.csv", Kind: "dir"}, fileSpec{Name: "loop.csv", Kind: "symlink", Data: []byte("loop.csv")})
		add("--out "+o, files, []opt{{"--out", o, true}, {"--format", pick(g, []string{"CSV", "JSON", "FIXED", "TEXT"}), true}}, "SELECT * FROM big", "SELECT 1", "PRINT 'x'")
		add("--out "+o+" with a failing program", files, []opt{{"--out", o, true}}, "SELECT * FROM t", "SELECT 1 / 0")
	}
	creates := []string{"/proc/c19-x.csv", "/sys/c19-x.csv", "/dev/null/x.csv", "nosuch/x.csv", "t.csv/x.csv", "d.csv", "loop.csv", strings.Repeat("n", 300) + ".csv"}
	for _, c := range creates {
		files := with(fileSpec{Name: "d.csv", Kind: "dir"}, fileSpec{Name: "loop.csv", Kind: "symlink", Data: []byte("loop.csv")})
		add("CREATE TABLE "+c, files, nil, "CREATE TABLE `"+c+"` (a, b)", "INSERT INTO `"+c+"` VALUES (1, 2)", "COMMIT")
		add("CREATE TABLE AS "+c, files, nil, "CREATE TABLE `"+c+"` AS SELECT * FROM big")
	}
	// (tables under /dev are left out on purpose: csvq would create its lock files next to them, outside the scratch directory)
	// configuration files in HOME / cwd that are broken
	for _, cfg := range []string{"{", "[]", "{\"datetime_format\": 5}", "\xff\xfe", "{\"environment_variables\": {\"A\": 1}}", strings.Repeat("[", 5000)} {
		add("broken csvq_env.json", with(fileSpec{Name: "csvq_env.json", Data: []byte(cfg)}), nil, "SELECT 1")
		add("broken .csvqrc", with(fileSpec{Name: ".csvqrc", Data: []byte(cfg)}), nil, "SELECT 1")
	}
	add("csvq_env.json is a directory", with(fileSpec{Name: "csvq_env.json", Kind: "dir"}), nil, "SELECT 1")
	add(".csvqrc is a directory", with(fileSpec{Name: ".csvqrc", Kind: "dir"}), nil, "SELECT 1")
	add(".csvqrc fails", with(fileSpec{Name: ".csvqrc", Data: []byte("SELECT 1 / 0;")}), nil, "SELECT 1")
	add("preload .csvqrc declares a variable", with(fileSpec{Name: ".csvqrc", Data: []byte("VAR @x := 1;")}), nil, "SELECT @x")
	return jobs
}
