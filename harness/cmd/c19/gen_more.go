package main

// More deterministic generators (each answers a class of inputs the random streams did not reach):
//
//	joinJobs         joins of every kind × {field-less, empty, one, many rows} on each side (empty file, header-only
//	                 file, WHERE FALSE sub-query, empty JSON array, `[{},{}]`) at --cpu 1 and 4
//	levelPairJobs    option values crossed PAIRWISE between the session level (command-line option / SET @@…) and the
//	                 table-function level (FIXED / CSV / JSON(…) arguments): the second can inherit from the first
//	udfEffectJobs    user-defined functions whose body runs data-changing statements or queries on the same / another
//	                 table, called from INSERT…SELECT, UPDATE SET, WHERE, JOIN conditions, GROUP BY, ORDER BY
//	nameListJobs     duplicate / unknown / too many names in USING, GROUP BY, ORDER BY, PARTITION BY, INSERT column lists …
//	patternJobs      pathological LIKE patterns and regular expressions over 30-60 character subjects
//	fieldlessJobs    tables with records but NO fields (`[{},{}]`, empty file, every column dropped) in every clause position

import (
	"fmt"
	"strings"
	"time"
)

func manyCSV(n int) []byte {
	var sb strings.Builder
	sb.WriteString("a,b\n")
	for i := 1; i <= n; i++ {
		fmt.Fprintf(&sb, "%d,v%d\n", i%50, i)
	}
	return []byte(sb.String())
}

func sideFixtures() []fileSpec {
	return []fileSpec{
		{Name: "e0.csv"}, {Name: "h.csv", Data: []byte("a,b\n")}, {Name: "o.csv", Data: []byte("a,b\n1,x\n")}, {Name: "m.csv", Data: manyCSV(300)},
		{Name: "r.csv", Data: []byte("a,c\n1,p\n2,q\n")}, {Name: "ej.json", Data: []byte("[]")}, {Name: "z.json", Data: []byte("[{},{}]")},
		{Name: "oj.json", Data: []byte(`[{"a":1,"b":"x"}]`)}, {Name: "t.csv", Data: []byte("a,b\n1,2\n3,4\n")}, {Name: "u.csv", Data: []byte("a,b\n9,9\n")},
	}
}

type side struct{ tag, from string }

var joinSides = []side{
	{"field-less empty file", "`e0.csv`"}, {"field-less [{},{}]", "`z.json`"}, {"empty: header-only file", "`h.csv`"}, {"empty: WHERE FALSE sub-query", "(SELECT * FROM `o.csv` WHERE FALSE)"},
	{"empty: JSON []", "`ej.json`"}, {"empty: WHERE FALSE on many", "(SELECT a, b FROM `m.csv` WHERE a < 0)"}, {"one row", "`o.csv`"}, {"one row JSON", "`oj.json`"}, {"two rows", "`r.csv`"}, {"many rows", "`m.csv`"},
}

func joinJobs() []*job {
	var jobs []*job
	files := sideFixtures()
	kinds := []string{
		"%L l JOIN %R r ON l.a = r.a", "%L l INNER JOIN %R r USING (a)", "%L l NATURAL JOIN %R r", "%L l CROSS JOIN %R r", "%L l, %R r",
		"%L l LEFT JOIN %R r ON l.a = r.a", "%L l LEFT OUTER JOIN %R r USING (a)", "%L l NATURAL LEFT JOIN %R r",
		"%L l RIGHT JOIN %R r ON l.a = r.a", "%L l RIGHT JOIN %R r USING (a)", "%L l NATURAL RIGHT JOIN %R r",
		"%L l FULL JOIN %R r ON l.a = r.a", "%L l FULL OUTER JOIN %R r USING (a)", "%L l NATURAL FULL JOIN %R r", "%L l FULL JOIN %R r ON TRUE", "%L l LEFT JOIN %R r ON FALSE",
		"%L l JOIN LATERAL (SELECT * FROM %R x WHERE x.a = l.a) r ON TRUE", "%L l LEFT JOIN LATERAL (SELECT * FROM %R x LIMIT 1) r ON TRUE",
	}
	for _, k := range kinds {
		kind := strings.TrimSpace(strings.NewReplacer("%L l", "", "%R r", "", "%R x", "").Replace(k))
		for _, l := range joinSides {
			for _, r := range joinSides {
				from := strings.NewReplacer("%L", l.from, "%R", r.from).Replace(k)
				for _, cpu := range []string{"1", "4"} {
					q := "SELECT * FROM " + from
					if cpu == "4" {
						q = "SELECT COUNT(*) FROM " + from
					}
					jobs = append(jobs, &job{Group: "join", Tags: []string{"join:" + kind, "left:" + l.tag, "right:" + r.tag, "cpu:" + cpu}, Files: files,
						Opts: []opt{{"--cpu", cpu, true}}, Stmts: []string{q}})
				}
			}
		}
	}
	return jobs
}

// ---------------------------------------------------------------- session level × table-function level

func levelPairJobs() []*job {
	var jobs []*job
	files := append(append([]fileSpec{}, fixtures()...),
		fileSpec{Name: "one.txt", Data: []byte("abcdefghijklmnop")}, fileSpec{Name: "onenl.txt", Data: []byte("abcdefghijklmnop\n")},
		fileSpec{Name: "semi.csv", Data: []byte("a;b\n1;2\n")}, fileSpec{Name: "sj.csv", Data: []byte("a,b\n\x93\xfa\x96\x7b,1\n")})
	add := func(tag, route string, opts []opt, stmts ...string) {
		jobs = append(jobs, &job{Group: "levels", Tags: []string{"levels:" + tag, "route:" + route}, Files: files, Opts: opts, Stmts: stmts})
	}
	pos := []string{"SPACES", "[]", "[0]", "[3,1]", "[5,9,12]", "s[]", "S[2,5]", "s[0]", "S[ ]", "x", "", "[99999999999999999999]"}
	for _, p1 := range pos {
		for _, p2 := range pos {
			tag := "delimiter-positions " + p1 + " × FIXED(" + p2 + ")"
			for _, f := range []string{"fixed.txt", "one.txt", "onenl.txt"} {
				q := "SELECT * FROM FIXED(" + sqlString(p2) + ", `" + f + "`)"
				add(tag, "--delimiter-positions × FIXED()", []opt{{"--delimiter-positions", p1, true}}, q)
				add(tag, "SET @@DELIMITER_POSITIONS × FIXED()", nil, "SET @@DELIMITER_POSITIONS TO "+sqlString(p1), q, "SELECT * FROM FIXED("+sqlString(p2)+", `"+f+"`, 'UTF8', TRUE)")
			}
			add(tag, "-i FIXED --delimiter-positions × FIXED() × plain", []opt{{"--import-format", "FIXED", true}, {"--delimiter-positions", p1, true}},
				"SELECT * FROM FIXED("+sqlString(p2)+", `one.txt`) a, `fixed.txt` b")
		}
	}
	delims := []string{",", ";", "\t", "", "ab", "\"", " ", "\n"}
	for _, d1 := range delims {
		for _, d2 := range delims {
			tag := "delimiter " + d1 + " × CSV(" + d2 + ")"
			q := []string{"SELECT * FROM CSV(" + sqlString(d2) + ", `semi.csv`)", "SELECT * FROM CSV_INLINE(" + sqlString(d2) + ", `semi.csv`)", "SELECT * FROM TSV(`semi.csv`)", "SELECT * FROM `semi.csv`"}
			add(tag, "--delimiter × CSV()", []opt{{"--delimiter", d1, true}}, q...)
			add(tag, "SET @@DELIMITER × CSV()", nil, append([]string{"SET @@DELIMITER TO " + sqlString(d1)}, q...)...)
			add(tag, "-i TSV --delimiter × CSV()", []opt{{"--import-format", "TSV", true}, {"--delimiter", d1, true}}, q...)
		}
	}
	encs := []string{"AUTO", "UTF8", "UTF8M", "SJIS", "UTF16", "XXX", ""}
	for _, e1 := range encs {
		for _, e2 := range encs {
			tag := "encoding " + e1 + " × CSV(,," + e2 + ")"
			q := []string{"SELECT * FROM CSV(',', `sj.csv`, " + sqlString(e2) + ")", "SELECT * FROM LTSV(`l.ltsv`, " + sqlString(e2) + ")", "SELECT * FROM JSON_INLINE('a', `j.json`, " + sqlString(e2) + ")", "SELECT * FROM `sj.csv`"}
			add(tag, "--encoding × table functions", []opt{{"--encoding", e1, true}}, q...)
			add(tag, "SET @@ENCODING × table functions", nil, append([]string{"SET @@ENCODING TO " + sqlString(e1)}, q...)...)
		}
	}
	jq := []string{"", "a", "a[0]", "a[", "'", "d.e", "{}", ".."}
	for _, q1 := range jq {
		for _, q2 := range jq {
			tag := "json-query " + q1 + " × JSON(" + q2 + ")"
			q := []string{"SELECT * FROM JSON(" + sqlString(q2) + ", `j.json`)", "SELECT * FROM JSONL(" + sqlString(q2) + ", `jl.jsonl`)", "SELECT * FROM `j.json`", "SELECT JSON_VALUE(" + sqlString(q2) + ", '{\"a\":[1]}')"}
			add(tag, "--json-query × JSON()", []opt{{"--json-query", q1, true}}, q...)
			add(tag, "SET @@JSON_QUERY × JSON()", nil, append([]string{"SET @@JSON_QUERY TO " + sqlString(q1)}, q...)...)
		}
	}
	// boolean import switches of the session × the same arguments of the table functions
	for _, sw := range [][]opt{{{"--no-header", "", false}}, {{"--without-null", "", false}}, {{"--allow-uneven-fields", "", false}}, {{"--no-header", "", false}, {"--without-null", "", false}, {"--allow-uneven-fields", "", false}}} {
		for _, nh := range []string{"TRUE", "FALSE", "NULL", "1", "'x'"} {
			for _, wn := range []string{"TRUE", "FALSE", "NULL"} {
				add("switches × table function arguments", "switches × CSV/FIXED/LTSV()", sw,
					"SELECT * FROM CSV(',', `t.csv`, 'UTF8', "+nh+", "+wn+")", "SELECT * FROM FIXED('SPACES', `fixed.txt`, 'UTF8', "+nh+", "+wn+")", "SELECT * FROM LTSV(`l.ltsv`, 'UTF8', "+wn+")", "SELECT * FROM `t.csv`")
			}
		}
	}
	// formats: the session's import format × the function that names another
	for _, f := range []string{"CSV", "TSV", "FIXED", "JSON", "JSONL", "LTSV"} {
		add("import-format "+f+" × every table function", "-i × table functions", []opt{{"--import-format", f, true}},
			"SELECT * FROM CSV(',', `t.csv`)", "SELECT * FROM TSV(`t.csv`)", "SELECT * FROM FIXED('SPACES', `fixed.txt`)", "SELECT * FROM FIXED('[]', `one.txt`)", "SELECT * FROM JSON('a', `j.json`)", "SELECT * FROM JSONL('', `jl.jsonl`)", "SELECT * FROM LTSV(`l.ltsv`)")
	}
	return jobs
}

// ---------------------------------------------------------------- user-defined functions with side effects

func udfEffectJobs() []*job {
	var jobs []*job
	files := sideFixtures()
	bodies := []struct{ tag, body string }{
		{"INSERT other", "INSERT INTO u VALUES (@x, @x);"},
		{"INSERT same", "INSERT INTO t VALUES (@x, @x);"},
		{"UPDATE other", "UPDATE u SET b = @x;"},
		{"UPDATE same", "UPDATE t SET b = @x WHERE a = @x;"},
		{"DELETE same", "DELETE FROM t WHERE a = @x;"},
		{"SELECT same", "VAR @c := (SELECT COUNT(*) FROM t);"},
		{"SELECT other file", "VAR @c := (SELECT MAX(a) FROM `m.csv`);"},
		{"cursor on same", "DECLARE c CURSOR FOR SELECT a FROM t; OPEN c; VAR @v; FETCH c INTO @v; CLOSE c; DISPOSE CURSOR c;"},
		{"COMMIT", "COMMIT;"},
		{"ROLLBACK", "ROLLBACK;"},
		{"CREATE TABLE", "CREATE TABLE IF NOT EXISTS `n.csv` (a, b); INSERT INTO `n.csv` VALUES (@x, 1);"},
		{"ALTER same", "ALTER TABLE t ADD z;"},
	}
	sites := []struct{ tag, stmt string }{
		{"INSERT…SELECT from other", "INSERT INTO t SELECT f(a), b FROM u"},
		{"INSERT…SELECT from same", "INSERT INTO t SELECT f(a), b FROM t"},
		{"INSERT VALUES", "INSERT INTO t VALUES (f(1), 2)"},
		{"UPDATE SET", "UPDATE t SET b = f(a)"},
		{"UPDATE WHERE", "UPDATE t SET b = 0 WHERE f(a) = a"},
		{"DELETE WHERE", "DELETE FROM t WHERE f(a) < 0"},
		{"SELECT list", "SELECT f(a) FROM t"},
		{"WHERE", "SELECT * FROM t WHERE f(a) = a"},
		{"JOIN ON", "SELECT * FROM t JOIN u ON f(t.a) <> u.a"},
		{"GROUP BY / HAVING", "SELECT f(a), COUNT(*) FROM t GROUP BY f(a) HAVING f(MAX(b)) IS NOT NULL"},
		{"ORDER BY", "SELECT * FROM t ORDER BY f(a)"},
		{"analytic", "SELECT SUM(f(a)) OVER (PARTITION BY f(b)) FROM t"},
	}
	for _, b := range bodies {
		for _, s := range sites {
			for _, cpu := range []string{"1", "4"} {
				if cpu == "4" && !(strings.HasPrefix(b.tag, "INSERT") || strings.HasPrefix(b.tag, "SELECT same")) {
					continue
				}
				jobs = append(jobs, &job{Group: "udf", Tags: []string{"udf-effect " + s.tag + " / body " + b.tag, "cpu:" + cpu}, Files: files, Opts: []opt{{"--cpu", cpu, true}}, Timeout: 10 * time.Second,
					Stmts: []string{"DECLARE f FUNCTION (@x) AS BEGIN " + b.body + " RETURN @x; END", s.stmt, "SELECT * FROM t", "SELECT COUNT(*) FROM u"}})
			}
		}
	}
	return jobs
}

// ---------------------------------------------------------------- name lists

func nameListJobs() []*job {
	var jobs []*job
	files := sideFixtures()
	many := strings.TrimSuffix(strings.Repeat("a, ", 40), ", ")
	lists := []string{"a, a", "a, a, a, a, a", "a, b, a", "a, nosuch", "nosuch", "nosuch, nosuch", many, "a, b, a, b, a, b", "b, a", "`a`, A", "1, 1, 1", "l.a, l.a"}
	ctx := []struct{ tag, stmt string }{
		{"JOIN USING", "SELECT * FROM t l JOIN r USING (%s)"},
		{"FULL JOIN USING", "SELECT * FROM t l FULL JOIN `m.csv` USING (%s)"},
		{"GROUP BY", "SELECT COUNT(*) FROM t l GROUP BY %s"},
		{"GROUP BY + select", "SELECT %s, COUNT(*) FROM t l GROUP BY %s"},
		{"ORDER BY", "SELECT * FROM t l ORDER BY %s"},
		{"DISTINCT", "SELECT DISTINCT %s FROM t l"},
		{"PARTITION BY", "SELECT ROW_NUMBER() OVER (PARTITION BY %s ORDER BY %s) FROM t l"},
		{"INSERT columns VALUES", "INSERT INTO t (%s) VALUES (1, 2)"},
		{"INSERT columns VALUES n", "INSERT INTO t (%s) VALUES (1, 2, 3, 4, 5)"},
		{"INSERT columns SELECT", "INSERT INTO t (%s) SELECT * FROM u"},
		{"REPLACE USING", "REPLACE INTO t (a, b) USING (%s) VALUES (1, 2)"},
		{"REPLACE columns", "REPLACE INTO t (%s) USING (a) VALUES (1, 2)"},
		{"UPDATE SET twice", "UPDATE t SET a = 1, a = 2, b = 3, b = 4"},
		{"CREATE TABLE columns", "CREATE TABLE `n.csv` (%s)"},
		{"CREATE TABLE AS columns", "CREATE TABLE `n.csv` (%s) AS SELECT * FROM t"},
		{"ALTER ADD", "ALTER TABLE t ADD (%s)"},
		{"ALTER DROP", "ALTER TABLE t DROP (%s)"},
		{"WITH columns", "WITH x (%s) AS (SELECT * FROM t) SELECT * FROM x"},
		{"DECLARE VIEW columns", "DECLARE v VIEW (%s) AS SELECT * FROM t; SELECT * FROM v"},
		{"select list", "SELECT %s FROM t l"},
		{"row value IN", "SELECT * FROM t l WHERE (%s) IN (SELECT * FROM u)"},
		{"LISTAGG ORDER BY", "SELECT LISTAGG(a, ',') WITHIN GROUP (ORDER BY %s) FROM t l"},
		{"cursor FETCH INTO", "DECLARE c CURSOR FOR SELECT * FROM t; OPEN c; VAR @a, @b; FETCH c INTO @a, @a; FETCH c INTO @a, @b, @a, @b, @a"},
		{"NATURAL JOIN duplicate columns", "SELECT * FROM (SELECT a, a AS a, b FROM t) l NATURAL JOIN (SELECT a, a AS a FROM u) r"},
	}
	for _, c := range ctx {
		for _, l := range lists {
			if !strings.Contains(c.stmt, "%s") && l != lists[0] {
				continue
			}
			jobs = append(jobs, &job{Group: "names", Tags: []string{"names:" + strings.ReplaceAll(c.tag, " ", "_") + " (" + trunc(l, 20) + ")"}, Files: files,
				Stmts: strings.Split(strings.ReplaceAll(c.stmt, "%s", l), "; ")})
		}
	}
	return jobs
}

// ---------------------------------------------------------------- pathological patterns

func patternJobs() []*job {
	var jobs []*job
	subjects := []string{strings.Repeat("a", 30), strings.Repeat("a", 40), strings.Repeat("a", 60), strings.Repeat("ab", 25), strings.Repeat("a", 40) + "b", strings.Repeat("日", 40)}
	likes := []string{"%a%a%a%a%a%a%a%a%a%a%a%a%b", "%a%a%a%a%a%a%a%a%a%a%a%a%a%a%a%a%a%a%a%a%c", "_%_%_%_%_%_%_%_%_%_%_%_%_%_%z", "%%%%%%%%%%%%%%%%%%%%%%%%b", "%a_%a_%a_%a_%a_%a_%a_%a_%a_%b", "%日%日%日%日%日%日%日%日%日%日%日%日%本",
		"a%a%a%a%a%a%a%a%a%a%a%a%a%a%a%a", "%\\%%\\_%\\", "%" + strings.Repeat("a%", 30) + "b"}
	regs := []string{"(a*)*b", "(a|aa)+$", "^(a+)+$", "(.*a){12}b", "(a?){40}a{40}", "((a+)+)+b", "^(([a-z])+.)+[A-Z]([a-z])+$"}
	for _, s := range subjects {
		for _, p := range likes {
			jobs = append(jobs, progJob("pattern", []string{"pattern:LIKE"}, nil, "SELECT "+sqlString(s)+" LIKE "+sqlString(p)+", "+sqlString(s)+" NOT LIKE "+sqlString(p)))
			if len(s) == 40 {
				jobs = append(jobs, progJob("pattern", []string{"pattern:LIKE over a table"}, cpu4, "SELECT COUNT(*) FROM t WHERE "+sqlString(s)+" || c2 LIKE "+sqlString(p)))
			}
		}
		for _, p := range regs {
			jobs = append(jobs, progJob("pattern", []string{"pattern:REGEXP"}, nil,
				"SELECT REGEXP_MATCH("+sqlString(s)+", "+sqlString(p)+"), REGEXP_FIND("+sqlString(s)+", "+sqlString(p)+"), REGEXP_FIND_ALL("+sqlString(s)+", "+sqlString(p)+"), REGEXP_REPLACE("+sqlString(s)+", "+sqlString(p)+", 'x'), REGEXP_FIND_SUBMATCHES("+sqlString(s)+", "+sqlString(p)+")"))
		}
	}
	for _, j := range jobs {
		j.Timeout = 10 * time.Second // a pattern that runs this long on a 60-character subject is reported (after the run alone with 4 × 20 s)
	}
	return jobs
}

// ---------------------------------------------------------------- field-less tables

func fieldlessJobs() []*job {
	var jobs []*job
	files := sideFixtures()
	type src struct {
		tag   string
		setup []string
		from  string
		opts  []opt
	}
	srcs := []src{
		{"[{},{}]", nil, "z", nil},
		{"[{},{}] via JSON()", nil, "JSON('', `z.json`)", nil},
		{"empty file", nil, "`e0.csv`", nil},
		{"empty file --no-header", nil, "`e0.csv`", []opt{{"--no-header", "", false}}},
		{"every column dropped", []string{"ALTER TABLE u DROP (a, b)"}, "u", nil},
		{"every column dropped, committed", []string{"ALTER TABLE u DROP (a, b)", "COMMIT"}, "u", nil},
		{"JSON_INLINE [{},{}]", nil, "JSON_INLINE('', '[{},{}]')", nil},
		{"view without columns", []string{"DECLARE v VIEW AS SELECT * FROM z"}, "v", nil},
	}
	uses := []string{
		"SELECT * FROM %Z", "SELECT COUNT(*) FROM %Z", "SELECT (SELECT * FROM %Z LIMIT 1)", "SELECT * FROM t WHERE 1 = (SELECT * FROM %Z LIMIT 1)", "SELECT * FROM t WHERE 1 IN (SELECT * FROM %Z)",
		"SELECT * FROM t WHERE a = ANY (SELECT * FROM %Z)", "SELECT * FROM t WHERE a > ALL (SELECT * FROM %Z)", "SELECT * FROM t WHERE EXISTS (SELECT * FROM %Z)", "SELECT * FROM t WHERE (a, b) = (SELECT * FROM %Z LIMIT 1)",
		"SELECT * FROM t WHERE (a, b) IN (SELECT * FROM %Z)", "SELECT * FROM t WHERE (a, b) > ANY (SELECT * FROM %Z)", "INSERT INTO t SELECT * FROM %Z", "INSERT INTO %Z SELECT * FROM t", "INSERT INTO %Z VALUES (1)",
		"CREATE TABLE `n.csv` AS SELECT * FROM %Z", "CREATE TABLE `n.json` AS SELECT * FROM %Z; COMMIT; SELECT * FROM `n.json`", "SELECT * FROM t JOIN %Z z ON TRUE", "SELECT * FROM %Z z JOIN t ON TRUE", "SELECT * FROM t NATURAL JOIN %Z z",
		"SELECT * FROM t CROSS JOIN %Z z", "SELECT * FROM t FULL JOIN %Z z ON TRUE", "SELECT * FROM %Z z FULL JOIN t ON TRUE", "SELECT * FROM t LEFT JOIN %Z z ON t.a = 1", "SELECT * FROM %Z a, %Z b",
		"SELECT * FROM t UNION SELECT * FROM %Z", "SELECT * FROM %Z UNION ALL SELECT * FROM t", "SELECT * FROM %Z EXCEPT SELECT * FROM %Z", "SELECT * FROM %Z INTERSECT SELECT * FROM %Z", "SELECT * FROM %Z UNION SELECT * FROM %Z",
		"SELECT COUNT(*), MAX(1), SUM(1), LISTAGG(1, ','), JSON_AGG(1) FROM %Z", "SELECT COUNT(*) FROM %Z GROUP BY 1", "SELECT 1 FROM %Z GROUP BY 1 HAVING COUNT(*) > 0", "SELECT DISTINCT * FROM %Z", "SELECT * FROM %Z ORDER BY 1",
		"SELECT ROW_NUMBER() OVER (ORDER BY 1), COUNT(*) OVER (), FIRST_VALUE(1) OVER (), LAG(1) OVER (ORDER BY 1) FROM %Z", "SELECT RANK() OVER (PARTITION BY 1 ORDER BY 1) FROM %Z", "SELECT * FROM %Z LIMIT 1 OFFSET 1", "SELECT * FROM %Z LIMIT 50 PERCENT WITH TIES",
		"DECLARE c CURSOR FOR SELECT * FROM %Z; OPEN c; VAR @a; FETCH c INTO @a", "DECLARE c CURSOR FOR SELECT * FROM %Z; OPEN c; VAR @a; WHILE @a IN c DO PRINT @a; END WHILE", "DECLARE c CURSOR FOR SELECT * FROM %Z; OPEN c; FETCH LAST c INTO @a; SELECT CURSOR c COUNT, CURSOR c IS IN RANGE",
		"UPDATE %Z z SET z.a = 1", "DELETE FROM %Z", "DELETE FROM %Z WHERE TRUE; SELECT * FROM %Z", "SHOW FIELDS FROM %Z", "ALTER TABLE %Z ADD x; SELECT * FROM %Z", "ALTER TABLE %Z DROP x", "ALTER TABLE %Z RENAME a TO b",
		"SELECT * FROM (SELECT * FROM %Z) s", "WITH x AS (SELECT * FROM %Z) SELECT * FROM x, x y", "SELECT * FROM t, LATERAL (SELECT * FROM %Z) s", "SELECT z.* FROM %Z z", "SELECT z.1 FROM %Z z", "SELECT *, 1 FROM %Z", "SELECT JSON_OBJECT() FROM %Z",
		"SELECT * FROM %Z WHERE TRUE FOR UPDATE", "REPLACE INTO %Z USING (a) VALUES (1)", "SELECT @x := (SELECT * FROM %Z LIMIT 1)", "SELECT CASE WHEN (SELECT * FROM %Z LIMIT 1) THEN 1 END", "SELECT * FROM t ORDER BY (SELECT * FROM %Z LIMIT 1)",
	}
	for _, s := range srcs {
		for _, u := range uses {
			stmts := append(append([]string{}, s.setup...), strings.Split(strings.ReplaceAll(u, "%Z", s.from), "; ")...)
			tag := u
			if i := strings.Index(u, "%Z"); i >= 0 {
				tag = trunc(strings.ReplaceAll(u, "%Z", "Z"), 48)
			}
			jobs = append(jobs, &job{Group: "fieldless", Tags: []string{"fieldless:" + strings.ReplaceAll(s.tag, " ", "_"), "position:" + tag}, Files: files, Opts: s.opts, Stmts: stmts})
		}
		for _, f := range []string{"CSV", "TSV", "FIXED", "JSON", "JSONL", "LTSV", "GFM", "ORG", "BOX", "TEXT"} {
			stmts := append(append([]string{}, s.setup...), "SELECT * FROM "+s.from)
			jobs = append(jobs, &job{Group: "fieldless", Tags: []string{"fieldless:" + strings.ReplaceAll(s.tag, " ", "_"), "position:--format " + f}, Files: files,
				Opts: append(append([]opt{}, s.opts...), opt{"--format", f, true}), Stmts: stmts})
			jobs = append(jobs, &job{Group: "fieldless", Tags: []string{"fieldless:" + strings.ReplaceAll(s.tag, " ", "_"), "position:--format " + f + " --out"}, Files: files,
				Opts: append(append([]opt{}, s.opts...), opt{"--format", f, true}, opt{"--out", "o.out", true}, opt{"--without-header", "", false}), Stmts: stmts})
		}
	}
	return jobs
}
