package main

// recChainCases: `WITH RECURSIVE r (n) AS (anchor <op> member1 <op> member2 [<op> member3]) SELECT * FROM r` - a CHAIN of set
// operators in the recursive table's own query (op c03.recchain, Model/RecChain.lean): the parser nests the chain to the
// left and every prefix is run as a recursion of its own whose finished result is the anchor of the next member; all
// members share the --limit-recursion budget.  Graphs: DAGs, chains, cycles over few nodes; UNION ALL and UNION mixed;
// limits 1 … 10 and 1000.  Law recursive_chain_eq_nested: the same result from separate recursive tables, one per member.

import (
	"fmt"
	"strconv"
	"strings"

	"github.com/mithrandie/csvq/lib/query"
	"github.com/mithrandie/csvq/lib/value"

	"verifharness/hc"
)

func recChainCases(g *hc.Gen, o *hc.Out, n int) {
	rounds := n / 12
	if rounds < 40 {
		rounds = 40
	}
	pr := hc.NewProc("")
	defer pr.Close()
	for c := 0; c < rounds; c++ {
		nodes := 3 + g.Intn(4)
		members := 2 + g.Intn(2)
		cyclic := g.Intn(5) == 0
		epoch++
		an := &table{name: fmt.Sprintf("rc%d_a", epoch), cols: []string{"n"}}
		for i, k := 0, g.Intn(3); i <= k; i++ {
			if g.Intn(6) != 0 || i > 0 {
				an.rows = append(an.rows, []value.Primary{value.NewInteger(int64(g.Intn(2)))})
			}
		}
		tabs := []*table{an}
		for m := 0; m < members; m++ {
			t := &table{name: fmt.Sprintf("rc%d_e%d", epoch, m+1), cols: []string{"s", "d"}}
			for i, k := 0, g.Intn(6); i < k; i++ {
				s := g.Intn(nodes)
				d := s + 1 + g.Intn(2)
				if cyclic && g.Intn(3) == 0 {
					d = g.Intn(s + 1)
				}
				t.rows = append(t.rows, []value.Primary{value.NewInteger(int64(s)), value.NewInteger(int64(d))})
			}
			tabs = append(tabs, t)
		}
		ok := true
		for _, t := range tabs {
			if err := pr.DeclareTable(t.name, t.cols, t.rows); err != nil {
				o.Law("declare_table_error", err.Error())
				ok = false
			}
		}
		if !ok {
			return
		}
		limit := []int{1, 2, 3, 4, 5, 6, 8, 10, 1000}[g.Intn(9)]
		if cyclic && limit > 10 {
			limit = 10
		}
		cpu := []int{1, 2, 4}[g.Intn(3)]
		pr.SetCPU(cpu)
		pr.P.Tx.Flags.SetLimitRecursion(int64(limit))
		e := newEnc()
		sql := "WITH RECURSIVE r (n) AS (SELECT a.n FROM " + an.name + " AS a"
		ops := make([]string, members)
		tok := []string{strconv.Itoa(members)}
		plans := []string{"Q", "T", strconv.Itoa(e.tblIdx(an)), "-", "S", "1", "1"}
		for m := 0; m < members; m++ {
			ops[m] = "A"
			kw := " UNION ALL "
			if g.Intn(3) == 0 {
				ops[m], kw = "U", " UNION "
			}
			sql += kw + "SELECT e.d FROM r AS g JOIN " + tabs[m+1].name + " AS e ON e.s = g.n"
			plans = append(plans, "Q", "J", "I", "G", "T", strconv.Itoa(e.tblIdx(tabs[m+1])), "O", "cmp", "=", "c", "1", "1", "c", "0", "0", "-", "S", "1", "3")
		}
		tok = append(append(tok, ops...), plans...)
		sql += ") SELECT * FROM r"
		v, err := pr.Query(sql)
		impl := ""
		if err != nil {
			if _, isLimit := err.(*query.RecursionExceededLimitError); !isLimit {
				o.Law("recursive_sql_error", map[string]interface{}{"sql": sql, "limit_recursion": limit, "error": err.Error(), "tables": dumpTables(tabs)})
				disposeAll(pr, tabs)
				continue
			}
			impl = "ERR"
		} else {
			impl = canon(v)
		}
		o.Case(fmt.Sprintf("c03.recchain %d %d %s %s #%s", cpu, limit, e.header(), strings.Join(tok, " "), hc.Hex(sql)), impl)
		o.Count(fmt.Sprintf("recchain:members=%d", members))
		o.Count("recchain:ops=" + strings.Join(ops, ""))
		out := "limit"
		if err == nil {
			out = "rows:" + band(v.RecordLen())
		}
		o.Count("recchain:outcome=" + strings.SplitN(out, ":", 2)[0])
		o.NonTrivial(fmt.Sprintf("recchain:%s:cyclic=%v:limit=%d:%s", strings.Join(ops, ""), cyclic, limit, out))

		// the same by separate recursive tables r1 … rk, each with the one before as its anchor (unlimited budget apart)
		if err == nil {
			pr.P.Tx.Flags.SetLimitRecursion(1000)
			nsql := "WITH "
			prev := "SELECT a.n FROM " + an.name + " AS a"
			for m := 0; m < members; m++ {
				kw := map[string]string{"A": " UNION ALL ", "U": " UNION "}[ops[m]]
				if m > 0 {
					nsql += ", "
				}
				nsql += fmt.Sprintf("RECURSIVE r%d (n) AS (%s%sSELECT e.d FROM r%d AS g JOIN %s AS e ON e.s = g.n)", m+1, prev, kw, m+1, tabs[m+1].name)
				prev = fmt.Sprintf("SELECT n FROM r%d", m+1)
			}
			nsql += fmt.Sprintf(" SELECT * FROM r%d", members)
			nv, nerr := pr.Query(nsql)
			o.Eval()
			if nerr != nil {
				o.Law("recursive_sql_error", map[string]interface{}{"sql": nsql, "error": nerr.Error()})
			} else {
				o.Count("law_checks:recursive_chain_eq_nested")
				if canon(nv) != impl {
					o.Law("recursive_chain_eq_nested", map[string]interface{}{"chain": sql, "nested": nsql, "limit_recursion": limit, "tables": dumpTables(tabs)})
				}
			}
		}
		disposeAll(pr, tabs)
	}
}
