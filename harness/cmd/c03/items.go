package main

// Select lists with several COMPUTED, near-identical items (they differ only in the letter case of a string literal,
// in one operand, in the operand order, or not at all): every item is evaluated for every record on its own.
//   * model-compared cases: literals, conditions used as values, CASE WHEN … THEN … ELSE … END, plain columns
//   * law select_item_independent (implementation alone, also over `||`, `+`, COALESCE items): column i of
//     `SELECT e1, …, en FROM src` = the only column of `SELECT ei FROM src`; two RAND() items are two draws
//   * law order_by_item_independent / group_by_item_independent: ORDER BY e1 / GROUP BY e1, e2 next to a
//     near-identical select item = the same over a derived table that holds the expressions as plain columns

import (
	"fmt"
	"strconv"
	"strings"

	"github.com/mithrandie/csvq/lib/query"
	"github.com/mithrandie/csvq/lib/value"

	"verifharness/hc"
)

type citem struct {
	kind string // lit cond case col concat arith coalesce
	c    *cond
	a, b value.Primary
	col  int
	n    int
}

func flipCase(p value.Primary) value.Primary {
	s, ok := p.(*value.String)
	if !ok {
		return p
	}
	up := strings.ToUpper(s.Raw())
	if up != s.Raw() {
		return value.NewString(up)
	}
	return value.NewString(strings.ToLower(s.Raw()))
}

func cloneCond(c *cond) *cond {
	if c == nil {
		return nil
	}
	d := *c
	d.a, d.b = cloneCond(c.a), cloneCond(c.b)
	d.e = append([]expr{}, c.e...)
	d.lits = append([]value.Primary{}, c.lits...)
	return &d
}

// flipCondCase flips the letter case of the first string literal found; false if there is none
func flipCondCase(c *cond) bool {
	if c == nil {
		return false
	}
	for i := range c.e {
		if !c.e[i].isCol && !c.e[i].named {
			if _, ok := c.e[i].lit.(*value.String); ok {
				c.e[i].lit = flipCase(c.e[i].lit)
				return true
			}
		}
	}
	for i := range c.lits {
		if _, ok := c.lits[i].(*value.String); ok {
			c.lits[i] = flipCase(c.lits[i])
			return true
		}
	}
	return flipCondCase(c.a) || flipCondCase(c.b)
}

type igen struct {
	g    *hc.Gen
	lay  []col
	lits []value.Primary
	strs []value.Primary
}

func (x *igen) strLit() value.Primary { return x.strs[x.g.Intn(len(x.strs))] }
func (x *igen) anyLit() value.Primary { return x.lits[x.g.Intn(len(x.lits))] }

func (x *igen) simpleCond() *cond {
	g := x.g
	colE := expr{isCol: true, idx: g.Intn(len(x.lay))}
	switch g.Intn(6) {
	case 0:
		return &cond{op: "in", neg: g.Intn(3) == 0, e: []expr{colE}, lits: []value.Primary{x.strLit(), x.anyLit()}}
	case 1:
		return &cond{op: "isnull", neg: g.Intn(2) == 0, e: []expr{colE}}
	}
	op := []string{"==", "==", "=", "<", ">=", "<>"}[g.Intn(6)]
	l := expr{lit: x.strLit()}
	if g.Intn(3) == 0 {
		l = expr{lit: x.anyLit()}
	}
	if g.Intn(6) == 0 {
		return &cond{op: "cmp", cop: op, e: []expr{l, colE}}
	}
	return &cond{op: "cmp", cop: op, e: []expr{colE, l}}
}

func (x *igen) base(modelled bool) citem {
	g := x.g
	n := 4
	if !modelled {
		n = 7
	}
	switch g.Intn(n) {
	case 0:
		return citem{kind: "lit", a: x.strLit()}
	case 1:
		return citem{kind: "cond", c: x.simpleCond()}
	case 2:
		return citem{kind: "case", c: x.simpleCond(), a: x.strLit(), b: x.anyLit()}
	case 3:
		return citem{kind: "col", col: g.Intn(len(x.lay))}
	case 4:
		return citem{kind: "concat", col: g.Intn(len(x.lay)), a: x.strLit()}
	case 5:
		return citem{kind: "arith", col: g.Intn(len(x.lay)), n: 1 + g.Intn(3)}
	}
	return citem{kind: "coalesce", col: g.Intn(len(x.lay)), a: x.strLit()}
}

// variant: a near-identical copy
func (x *igen) variant(it citem) citem {
	g := x.g
	v := it
	v.c = cloneCond(it.c)
	switch g.Intn(4) {
	case 0: // the letter case of a string literal
		switch it.kind {
		case "lit", "concat", "coalesce":
			v.a = flipCase(it.a)
		case "cond":
			flipCondCase(v.c)
		case "case":
			if g.Intn(2) == 0 || !flipCondCase(v.c) {
				v.a = flipCase(it.a)
			}
		}
	case 1: // one operand
		switch it.kind {
		case "lit":
			v.a = x.anyLit()
		case "cond", "case":
			if len(v.c.e) > 0 && v.c.e[0].isCol {
				v.c.e[0].idx = g.Intn(len(x.lay))
			} else {
				v.b = x.strLit()
			}
		case "col", "concat", "coalesce":
			v.col = g.Intn(len(x.lay))
		case "arith":
			v.n = it.n + 1
		}
	case 2: // operand order
		if (it.kind == "cond" || it.kind == "case") && v.c.op == "cmp" {
			v.c.e[0], v.c.e[1] = v.c.e[1], v.c.e[0]
		} else if it.kind == "case" {
			v.a, v.b = it.b, it.a
		}
	}
	return v
}

func (x *igen) sql(it citem) string {
	r := func() string { return ref(x.lay[it.col]) }
	switch it.kind {
	case "lit":
		return lit(it.a)
	case "cond":
		return sqlCond(it.c, x.lay, nil)
	case "case":
		return "CASE WHEN " + sqlCond(it.c, x.lay, nil) + " THEN " + lit(it.a) + " ELSE " + lit(it.b) + " END"
	case "col":
		return r()
	case "concat":
		return r() + " || " + lit(it.a)
	case "arith":
		return r() + " + " + strconv.Itoa(it.n)
	}
	return "COALESCE(" + r() + ", " + lit(it.a) + ")"
}

func (x *igen) tok(e *enc, it citem, out string) []string {
	var t []string
	switch it.kind {
	case "lit":
		t = []string{"v", e.val(it.a)}
	case "cond":
		t = append([]string{"b"}, e.cond(it.c)...)
	case "case":
		t = append(append([]string{"k"}, e.cond(it.c)...), e.val(it.a), e.val(it.b))
	case "col":
		t = []string{"i", strconv.Itoa(it.col)}
	default:
		panic("item kind without model")
	}
	return append(t, out)
}

func column(rows [][]string, j int) string {
	out := make([]string, len(rows))
	for i, r := range rows {
		out[i] = r[j]
	}
	return strings.Join(out, "|")
}

func nearIdenticalItemCases(g *hc.Gen, pr *hc.Proc, o *hc.Out, n int) {
	rounds := n / 6
	if rounds < 20 {
		rounds = 20
	}
	strs := []value.Primary{value.NewString("ab"), value.NewString("AB"), value.NewString("Ab"), value.NewString("q"), value.NewString("Q"),
		value.NewString("x y"), value.NewString("1a"), value.NewString("-x"), value.NewString("-X")}
	var tabs []*table
	defer func() {
		for _, t := range tabs {
			pr.DisposeTable(t.name)
		}
	}()
	for c := 0; c < rounds; c++ {
		if c%10 == 0 {
			for _, t := range tabs {
				pr.DisposeTable(t.name)
			}
			tabs = nil
			vals := append(append([]value.Primary{}, strs[:5]...), value.NewInteger(1), value.NewString("1"), value.NewNull(), value.NewFloat(2.5), value.NewInteger(2))
			for i := 0; i < 2; i++ {
				epoch++
				t := &table{name: fmt.Sprintf("ni%d_%d", epoch, i+1), cols: []string{"k", "v"}}
				nr := []int{1, 3, 6, 12, 40, 170}[g.Intn(6)]
				for r := 0; r < nr; r++ {
					t.rows = append(t.rows, []value.Primary{vals[g.Intn(len(vals))], vals[g.Intn(len(vals))]})
				}
				if err := pr.DeclareTable(t.name, t.cols, t.rows); err != nil {
					o.Law("declare_table_error", err.Error())
					return
				}
				tabs = append(tabs, t)
			}
		}
		cpu := []int{1, 2, 4}[g.Intn(3)]
		pr.SetCPU(cpu)
		e := newEnc()
		a := nTable(e, tabs[g.Intn(2)], "a1")
		from := a
		if g.Intn(3) == 0 {
			b := nTable(e, tabs[g.Intn(2)], "a2")
			on := &cond{op: "cmp", cop: "=", e: []expr{{isCol: true, side: 0, idx: 0}, {isCol: true, side: 1, idx: 0}}}
			from = nJoin(e, "IL"[g.Intn(2)], a, b, 'o', nil, on)
		}
		x := &igen{g: g, lay: from.hdr, strs: strs}
		x.lits = append(append([]value.Primary{}, strs...), value.NewInteger(1), value.NewInteger(2), value.NewFloat(2.5), value.NewNull(), value.NewString("1"))
		var where *cond
		if g.Intn(3) == 0 {
			where = x.simpleCond()
		}
		tail := " FROM " + from.sql
		if where != nil {
			tail += " WHERE " + sqlCond(where, from.hdr, nil)
		}
		build := func(modelled bool) []citem {
			var items []citem
			for i, nb := 0, 1+g.Intn(2); i < nb; i++ {
				b := x.base(modelled)
				items = append(items, b)
				for j, nv := 0, 1+g.Intn(2); j < nv; j++ {
					items = append(items, x.variant(b))
				}
			}
			g.Shuffle(len(items), func(i, j int) { items[i], items[j] = items[j], items[i] })
			return items
		}
		selectList := func(items []citem) string {
			parts := make([]string, len(items))
			for i, it := range items {
				parts[i] = x.sql(it) + " AS o" + strconv.Itoa(i+1)
			}
			return strings.Join(parts, ", ")
		}
		independent := func(items []citem, sql string, rows [][]string) {
			for i, it := range items {
				alone := "SELECT " + x.sql(it) + " AS o" + tail
				ar, _, ok := qrows(pr, o, alone)
				if !ok {
					continue
				}
				o.Count("law_checks:select_item_independent")
				if column(ar, 0) != column(rows, i) {
					o.Law("select_item_independent", map[string]interface{}{"sql": sql, "item": i + 1, "item_alone_sql": alone,
						"column_in_list": short(column(rows, i)), "column_alone": short(column(ar, 0)), "tables": dumpTables(tabs)})
				}
			}
		}

		// 1. modelled items: compared with the Lean model, and every item with itself alone
		items := build(true)
		sql := "SELECT " + selectList(items) + tail
		v, err := pr.Query(sql)
		if err != nil {
			o.Law("select_sql_error", map[string]interface{}{"sql": sql, "error": err.Error(), "tables": dumpTables(tabs)})
			continue
		}
		tok := append([]string{"Q"}, from.tok...)
		if where == nil {
			tok = append(tok, "-")
		} else {
			tok = append(append(tok, "W"), e.cond(where)...)
		}
		tok = append(tok, "L", strconv.Itoa(len(items)))
		kinds := make([]string, len(items))
		for i, it := range items {
			tok = append(tok, x.tok(e, it, "o"+strconv.Itoa(i+1))...)
			kinds[i] = it.kind
		}
		o.Case(fmt.Sprintf("c03.q %d %s %s #%s", cpu, e.header(), strings.Join(tok, " "), hc.Hex(sql)), canon(v))
		o.Count("items:modelled_cases")
		o.NonTrivial("items:" + strings.Join(kinds, ",") + ":" + band(v.RecordLen()))
		independent(items, sql, viewRows(v))

		// 2. with `||`, `+`, COALESCE items: the law only
		items2 := build(false)
		sql2 := "SELECT " + selectList(items2) + tail
		if rows2, _, ok := qrows(pr, o, sql2); ok {
			independent(items2, sql2, rows2)
		}

		// 3. ORDER BY / GROUP BY an expression next to a near-identical select item (single table only)
		if !from.isJoin {
			b := x.base(false)
			for b.kind == "col" || b.kind == "lit" {
				b = x.base(false)
			}
			e1, e2 := x.sql(b), x.sql(x.variant(b))
			q1 := "SELECT a1.id AS i, " + e2 + " AS x" + tail + " ORDER BY " + e1 + ", a1.id"
			q2 := "SELECT s.i AS i, s.x AS x FROM (SELECT a1.id AS i, " + e2 + " AS x, " + e1 + " AS s1" + tail + ") AS s ORDER BY s.s1, s.i"
			r1, _, ok1 := qrows(pr, o, q1)
			r2, _, ok2 := qrows(pr, o, q2)
			if ok1 && ok2 {
				o.Count("law_checks:order_by_item_independent")
				if canonRows(r1) != canonRows(r2) {
					o.Law("order_by_item_independent", map[string]interface{}{"sql": q1, "over_derived_table_sql": q2, "tables": dumpTables(tabs)})
				}
			}
			g1 := "SELECT " + e1 + " AS g1, " + e2 + " AS g2, COUNT(*) AS n" + tail + " GROUP BY " + e1 + ", " + e2
			g2 := "SELECT s.g1 AS g1, s.g2 AS g2, COUNT(*) AS n FROM (SELECT " + e1 + " AS g1, " + e2 + " AS g2" + tail + ") AS s GROUP BY s.g1, s.g2"
			// (a computed GROUP BY key can be selected again only in some forms: "field … is not a group key" otherwise)
			if gv, gerr := pr.Query(g1); gerr == nil {
				o.Eval()
				if r2, _, ok2 := qrows(pr, o, g2); ok2 {
					o.Count("law_checks:group_by_item_independent")
					if multiset(viewRows(gv)) != multiset(r2) {
						o.Law("group_by_item_independent", map[string]interface{}{"sql": g1, "over_derived_table_sql": g2, "tables": dumpTables(tabs)})
					}
				}
			} else if _, ok := gerr.(*query.FieldNotGroupKeyError); !ok {
				o.Law("law_sql_error", map[string]interface{}{"sql": g1, "error": gerr.Error()})
			}
		}
	}
	// two RAND() items are two draws per record
	if len(tabs) > 0 {
		t := tabs[0]
		for _, tt := range tabs {
			if len(tt.rows) > len(t.rows) {
				t = tt
			}
		}
		if len(t.rows) >= 3 {
			sql := "SELECT RAND() AS r1, RAND() AS r2 FROM " + t.name + " AS a1"
			if rows, _, ok := qrows(pr, o, sql); ok {
				same := 0
				for _, r := range rows {
					if r[0] == r[1] {
						same++
					}
				}
				o.Count("law_checks:select_item_independent")
				if same == len(rows) {
					o.Law("select_item_independent", map[string]interface{}{"sql": sql, "what": "both RAND() items show the same value in every record: the second item was not evaluated", "records": len(rows)})
				}
			}
		}
	}
}
