package main

// Laws of property C03 checked on the implementation alone (independent of the Lean model):
//   where_keeps_iff_true            a row is kept iff `SELECT (cond)` says TRUE for it, order kept
//   {left,right,full}_join_eq_inner_plus_padded   outer join = inner join rows ∪ NULL-padded unmatched rows
//   left_right_mirror               A LEFT JOIN B  vs  B RIGHT JOIN A: same rows modulo column order
//   using_eq_on_merged              USING (k) = the ON a.k = b.k join with the two k columns merged once, first, coalesced
//   lateral_empty_left_header       e CROSS JOIN LATERAL (…) keeps its header when e is empty   (pre-finding F15)
//   lateral_eq_inner / lateral_left_eq_left       LATERAL = per-left-row application
//   recursive_eq_iterated           recursive CTE (UNION ALL / UNION) = generations computed by separate non-recursive queries
//                                   (for UNION the accumulated rows are merged by the implementation's own non-recursive UNION)
//   cte_reference_stable            `SELECT * FROM cte` as the LAST reference of a query whose earlier references filter /
//                                   project the CTE inside derived tables = the CTE's own query evaluated alone
//   table_reference_stable          the same for a temporary table referenced several times
//   subquery_over_temp_table_keeps_table_usable   after SELECT * FROM (SELECT * FROM t) AS s an UPDATE of t is visible
//                                   in a following SELECT and DISPOSE VIEW t works
// plus the correspondence stream `c03.rec` for recursive CTEs.

import (
	"fmt"
	"sort"
	"strconv"
	"strings"

	"github.com/mithrandie/csvq/lib/query"
	"github.com/mithrandie/csvq/lib/value"
	"github.com/mithrandie/ternary"

	"verifharness/hc"
)

func lateralWitness(pr *hc.Proc, o *hc.Out) {
	setup := "DECLARE le VIEW (a, b); DECLARE lt VIEW (k, ob); INSERT INTO lt VALUES (1, 'p'), (2, 'q');"
	if _, err := pr.Exec(setup); err != nil {
		o.Law("lateral_sql_error", err.Error())
		return
	}
	defer pr.DisposeTable("le")
	defer pr.DisposeTable("lt")
	sql := "SELECT * FROM le AS e CROSS JOIN LATERAL (SELECT t.ob FROM lt AS t WHERE t.k = e.a) AS s"
	v, err := pr.Query(sql)
	o.Eval()
	o.Count("lateral_witness")
	if err != nil {
		o.Law("lateral_sql_error", map[string]interface{}{"sql": sql, "error": err.Error()})
		return
	}
	if v.FieldLen() != 3 {
		o.Law("lateral_empty_left_header", map[string]interface{}{"setup": setup, "sql": sql,
			"expected_header": []string{"a", "b", "ob"}, "got_header_width": v.FieldLen(), "got_rows": v.RecordLen()})
	}
}

// cteWitness: the minimal multi-reference case, first on every run
func cteWitness(pr *hc.Proc, o *hc.Out) {
	setup := "DECLARE cw VIEW (n, s); INSERT INTO cw VALUES (1, 'a'), (2, 'b'), (3, 'c'), (4, 'd');"
	if _, err := pr.Exec(setup); err != nil {
		o.Law("law_sql_error", err.Error())
		return
	}
	defer pr.DisposeTable("cw")
	alone := "SELECT n, s FROM cw"
	for _, sql := range []string{
		"WITH t AS (SELECT n, s FROM cw) SELECT z.* FROM (SELECT * FROM t WHERE n >= 3) AS b RIGHT JOIN t AS z ON FALSE",
		"WITH t AS (SELECT n, s FROM cw) SELECT z.* FROM (SELECT s, n FROM t) AS b RIGHT JOIN t AS z ON FALSE",
		"WITH t AS (SELECT n, s FROM cw), u AS (SELECT s FROM t WHERE n <> 2) SELECT z.* FROM u AS b RIGHT JOIN t AS z ON FALSE",
	} {
		want, w1, ok1 := qrows(pr, o, alone)
		got, w2, ok2 := qrows(pr, o, sql)
		if !ok1 || !ok2 {
			continue
		}
		o.Count("law_checks:cte_reference_stable")
		if w1 != w2 || canonRows(want) != canonRows(got) {
			o.Law("cte_reference_stable", map[string]interface{}{"setup": setup, "sql": sql, "cte_query_alone": alone,
				"rows_alone": canonRows(want), "rows_as_last_reference": canonRows(got)})
		}
	}
}

// tempTableWitness: a sub-select over a temporary table must leave the table usable
func tempTableWitness(pr *hc.Proc, o *hc.Out) {
	run := func(name string, withSubquery bool) (problems []string) {
		setup := "DECLARE " + name + " VIEW (id, k); INSERT INTO " + name + " VALUES (0, 1);"
		if _, err := pr.Exec(setup); err != nil {
			return []string{"setup: " + err.Error()}
		}
		if withSubquery {
			if _, err := pr.Query("SELECT * FROM (SELECT * FROM " + name + ") AS s"); err != nil {
				problems = append(problems, "subquery: "+err.Error())
			}
		}
		if _, err := pr.Exec("UPDATE " + name + " SET k = 2;"); err != nil {
			problems = append(problems, "UPDATE: "+err.Error())
		}
		v, err := pr.Query("SELECT k FROM " + name)
		if err != nil {
			problems = append(problems, "SELECT after UPDATE: "+err.Error())
		} else if v.RecordLen() != 1 || cellEnc(v, 0, 0) != "I2" {
			problems = append(problems, "UPDATE not visible: SELECT k returns "+canonRows(viewRows(v))+" (expected I2)")
		}
		if _, err := pr.Exec("DISPOSE VIEW " + name + ";"); err != nil {
			problems = append(problems, "DISPOSE: "+err.Error())
		}
		return
	}
	o.Eval()
	o.Count("temp_table_witness")
	if p := run("swc", false); len(p) > 0 {
		o.Law("law_sql_error", map[string]interface{}{"control": "DECLARE/UPDATE/SELECT/DISPOSE without a sub-select", "problems": p})
		return
	}
	if p := run("sw", true); len(p) > 0 {
		o.Law("subquery_over_temp_table_keeps_table_usable", map[string]interface{}{
			"program": "DECLARE sw VIEW (id, k); INSERT INTO sw VALUES (0, 1); SELECT * FROM (SELECT * FROM sw) AS s; UPDATE sw SET k = 2; SELECT k FROM sw; DISPOSE VIEW sw;",
			"problems": p})
	}
}

func qrows(pr *hc.Proc, o *hc.Out, sql string) ([][]string, int, bool) {
	v, err := pr.Query(sql)
	o.Eval()
	if err != nil {
		o.Law("law_sql_error", map[string]interface{}{"sql": sql, "error": err.Error()})
		return nil, 0, false
	}
	return viewRows(v), v.FieldLen(), true
}

// lawRefStable: a CTE (or a temporary table) read as the last reference, after earlier references were filtered /
// projected inside derived tables, still holds what its own query (the table) holds
func lawRefStable(x *qgen, pr *hc.Proc, o *hc.Out) {
	g := x.g
	x.nAlias, x.nCTE = 0, 0
	x.ctes, x.outer = nil, nil
	saved, so := x.enter()
	defer func() { x.ctes, x.outer = saved, so }()
	var mk func() *src
	law, with, alone := "cte_reference_stable", "", ""
	if g.Intn(4) != 0 {
		var body *qry
		for try := 0; try < 30; try++ {
			body = x.query(1, false, 400)
			if body.est <= 500 && body.cost <= 60000 {
				break
			}
			body = nil
		}
		if body == nil {
			return
		}
		def := x.subOf(body)
		def.asCTE, def.cteName = true, x.cte()
		x.ctes = append(x.ctes, def)
		mk = func() *src { return x.refTo(def) }
		with = "WITH " + def.cteName + " AS (" + sqlQuery(body) + ") "
		alone = sqlQuery(body)
	} else {
		law = "table_reference_stable"
		t := x.pickTable(400)
		mk = func() *src { return leafOf(x, t) }
		alone = "SELECT * FROM " + t.name
	}
	first := x.wrap(mk())
	if g.Intn(4) == 0 {
		first = x.wrap(first)
	}
	left := sqlSrc(first)
	if g.Intn(3) == 0 {
		second := x.wrap(mk())
		left = "(" + left + " LEFT JOIN " + sqlSrc(second) + " ON FALSE)"
	}
	z := mk()
	sql := with + "SELECT " + z.alias + ".* FROM " + left + " RIGHT JOIN " + sqlSrc(z) + " ON FALSE"
	want, w1, ok1 := qrows(pr, o, alone)
	got, w2, ok2 := qrows(pr, o, sql)
	if !ok1 || !ok2 {
		return
	}
	o.Count("law_checks:" + law)
	o.NonTrivial(fmt.Sprintf("refstable:%s:%s:%v", law, band(len(want)), first.q.where != nil))
	if w1 != w2 || canonRows(want) != canonRows(got) {
		o.Law(law, map[string]interface{}{"sql": sql, "alone_sql": alone, "rows_alone": len(want), "rows_as_last_reference": len(got),
			"tables": dumpTables(x.tables)})
	}
}

func ternOf(p value.Primary) ternary.Value { return p.Ternary() }

func lawWhere(pr *hc.Proc, o *hc.Out, q *qry, v *query.View, sql string) {
	chk := sqlWith(q) + "SELECT " + sqlSelectList(q, sqlCond(q.where, q.from.layout, nil)+" AS c__") + " FROM " + sqlSrc(q.from)
	w, err := pr.Query(chk)
	o.Eval()
	o.Count("law_checks:where")
	if err != nil {
		o.Law("where_check_sql_error", map[string]interface{}{"sql": chk, "error": err.Error()})
		return
	}
	var want [][]string
	for i := 0; i < w.RecordLen(); i++ {
		if c0, ok := cellAt(w, i, 0); !ok || ternOf(c0) != ternary.TRUE {
			continue
		}
		r := make([]string, w.FieldLen()-1)
		for j := range r {
			r[j] = cellEnc(w, i, j+1)
		}
		want = append(want, r)
	}
	got := canonRows(viewRows(v))
	if got != canonRows(want) || v.FieldLen() != w.FieldLen()-1 {
		o.Law("where_keeps_iff_true", map[string]interface{}{"sql": sql, "per_row_sql": chk,
			"rows_kept": v.RecordLen(), "rows_with_condition_true": len(want)})
	}
}

func multiset(rows [][]string) string {
	s := make([]string, len(rows))
	for i, r := range rows {
		s[i] = strings.Join(r, ",")
	}
	sort.Strings(s)
	return strings.Join(s, "|")
}

func nullRow(n int) []string {
	r := make([]string, n)
	for i := range r {
		r[i] = "N"
	}
	return r
}

func cat(a, b []string) []string { return append(append([]string{}, a...), b...) }

func leafOf(x *qgen, t *table) *src {
	s := &src{kind: 'T', t: t, alias: x.alias(), est: len(t.rows)}
	s.layout = append(s.layout, col{s.alias, "id", true})
	for _, c := range t.cols {
		s.layout = append(s.layout, col{s.alias, c, false})
	}
	return s
}

func lawStreams(g *hc.Gen, pr *hc.Proc, o *hc.Out, n int) {
	x := &qgen{g: g}
	rows := func(sql string) ([][]string, int, bool) {
		v, err := pr.Query(sql)
		o.Eval()
		if err != nil {
			o.Law("law_sql_error", map[string]interface{}{"sql": sql, "error": err.Error()})
			return nil, 0, false
		}
		return viewRows(v), v.FieldLen(), true
	}

	// ---------- outer joins ----------
	rounds := n / 6
	if rounds < 6 {
		rounds = 6
	}
	for i := 0; i < rounds; i++ {
		if i%4 == 0 {
			x.tables = newTables(g, pr, o, x.tables)
			x.lits = pool(g, 8, false)
			for _, t := range x.tables {
				for r := 0; r < len(t.rows) && r < 8; r++ {
					x.lits = append(x.lits, t.rows[r]...)
				}
			}
		}
		if len(x.tables) < 2 {
			continue
		}
		cpu := []int{1, 2, 3, 4, 8}[g.Intn(5)]
		pr.SetCPU(cpu)
		x.nAlias = 0
		ta := x.tables[g.Intn(len(x.tables))]
		tb := x.tables[g.Intn(len(x.tables))]
		if len(ta.rows)*len(tb.rows) > 30000 {
			tb = x.tables[0]
		}
		a, b := leafOf(x, ta), leafOf(x, tb)
		var c *cond
		if g.Intn(4) == 0 {
			c = x.cond(2, a.layout, b.layout)
		} else {
			c = x.onCond(a.layout, b.layout)
		}
		on := sqlCond(c, a.layout, b.layout)
		A, B := sqlSrc(a), sqlSrc(b)
		wa, wb := ta.width(), tb.width()
		ra, _, ok1 := rows("SELECT * FROM " + A)
		rb, _, ok2 := rows("SELECT * FROM " + B)
		inner, _, ok3 := rows("SELECT * FROM " + A + " INNER JOIN " + B + " ON " + on)
		if !ok1 || !ok2 || !ok3 {
			continue
		}
		ma, mb := map[string]bool{}, map[string]bool{}
		for _, r := range inner {
			ma[r[0]] = true
			mb[r[wa]] = true
		}
		var padA, padB [][]string
		for _, r := range ra {
			if !ma[r[0]] {
				padA = append(padA, cat(r, nullRow(wb)))
			}
		}
		for _, r := range rb {
			if !mb[r[0]] {
				padB = append(padB, cat(nullRow(wa), r))
			}
		}
		rep := func(kind string, sql string) map[string]interface{} {
			return map[string]interface{}{"sql": sql, "inner_sql": "SELECT * FROM " + A + " INNER JOIN " + B + " ON " + on,
				"cpu": cpu, "tables": dumpTables([]*table{ta, tb})}
		}
		var leftRows [][]string
		for _, k := range []struct {
			name, kw string
			want [][]string
		}{
			{"left", "LEFT JOIN", append(append([][]string{}, inner...), padA...)},
			{"right", "RIGHT JOIN", append(append([][]string{}, inner...), padB...)},
			{"full", "FULL JOIN", append(append(append([][]string{}, inner...), padA...), padB...)},
		} {
			sql := "SELECT * FROM " + A + " " + k.kw + " " + B + " ON " + on
			got, w, ok := rows(sql)
			if !ok {
				continue
			}
			o.Count("law_checks:outer_" + k.name)
			if w != wa+wb || multiset(got) != multiset(k.want) {
				o.Law(k.name+"_join_eq_inner_plus_padded", rep(k.name, sql))
			}
			if k.name == "left" {
				leftRows = got
			}
			o.NonTrivial(fmt.Sprintf("outerlaw:%s:%s:%s:%v", k.name, band(len(inner)), band(len(got)-len(inner)), cpu > 1))
		}
		// mirror
		msql := "SELECT * FROM " + B + " RIGHT JOIN " + A + " ON " + on
		if got, _, ok := rows(msql); ok && leftRows != nil {
			sw := make([][]string, len(got))
			for i, r := range got {
				sw[i] = cat(r[wb:], r[:wb])
			}
			o.Count("law_checks:mirror")
			if multiset(sw) != multiset(leftRows) {
				o.Law("left_right_mirror", rep("mirror", msql))
			} else if canonRows(sw) == canonRows(leftRows) {
				o.Count("mirror_same_order")
			}
		}
		// USING (k) against ON a.k = b.k, merged once / first / coalesced
		ka, _ := resolve(a.layout, "k")
		kb, _ := resolve(b.layout, "k")
		for _, kw := range []string{"INNER JOIN", "LEFT JOIN", "RIGHT JOIN", "FULL JOIN"} {
			usql := "SELECT * FROM " + A + " " + kw + " " + B + " USING (k)"
			osql := "SELECT * FROM " + A + " " + kw + " " + B + " ON " + ref(a.layout[ka]) + " = " + ref(b.layout[kb])
			u, w, ok := rows(usql)
			on2, _, ok2 := rows(osql)
			if !ok || !ok2 {
				continue
			}
			want := make([][]string, len(on2))
			for i, r := range on2 {
				inc, exc := r[ka], r[wa+kb]
				if kw == "RIGHT JOIN" {
					inc, exc = exc, inc
				}
				if inc == "N" {
					inc = exc
				}
				m := []string{inc}
				for j, c := range r {
					if j != ka && j != wa+kb {
						m = append(m, c)
					}
				}
				want[i] = m
			}
			o.Count("law_checks:using")
			if w != wa+wb-1 || canonRows(u) != canonRows(want) {
				o.Law("using_eq_on_merged", map[string]interface{}{"sql": usql, "on_sql": osql, "cpu": cpu, "tables": dumpTables([]*table{ta, tb})})
			}
		}
	}

	// ---------- a source referenced several times ----------
	rounds = n / 10
	if rounds < 6 {
		rounds = 6
	}
	for i := 0; i < rounds && len(x.tables) >= 3; i++ {
		pr.SetCPU([]int{1, 2, 4, 8}[g.Intn(4)])
		lawRefStable(x, pr, o)
	}

	// ---------- LATERAL ----------
	rounds = n / 12
	if rounds < 4 {
		rounds = 4
	}
	for i := 0; i < rounds; i++ {
		x.nAlias = 0
		var ta, tb *table
		for _, t := range x.tables {
			if len(t.rows) <= 80 {
				if ta == nil || g.Intn(2) == 0 {
					ta = t
				}
				if tb == nil || g.Intn(2) == 0 {
					tb = t
				}
			}
		}
		if ta == nil || tb == nil {
			continue
		}
		if i%4 == 1 { // an empty left table
			epoch++
			te := &table{name: fmt.Sprintf("t%d_e", epoch), cols: ta.cols}
			if err := pr.DeclareTable(te.name, te.cols, te.rows); err == nil {
				ta = te
				defer pr.DisposeTable(te.name)
			}
		}
		a, b := leafOf(x, ta), leafOf(x, tb)
		ka, _ := resolve(a.layout, "k")
		kb, _ := resolve(b.layout, "k")
		extra := ""
		if g.Intn(2) == 0 {
			extra = " AND " + sqlCond(x.cond(1, b.layout, nil), b.layout, nil)
		}
		cnd := ref(b.layout[kb]) + " = " + ref(a.layout[ka]) + extra
		A, B := sqlSrc(a), sqlSrc(b)
		wa, wb := ta.width(), tb.width()
		for _, k := range []struct{ law, lat, plain string }{
			{"lateral_eq_inner", "SELECT * FROM " + A + " CROSS JOIN LATERAL (SELECT * FROM " + B + " WHERE " + cnd + ") AS s",
				"SELECT * FROM " + A + " INNER JOIN " + B + " ON " + cnd},
			{"lateral_left_eq_left", "SELECT * FROM " + A + " LEFT JOIN LATERAL (SELECT * FROM " + B + " WHERE " + cnd + ") AS s ON TRUE",
				"SELECT * FROM " + A + " LEFT JOIN " + B + " ON " + cnd},
		} {
			l, w, ok := rows(k.lat)
			p, _, ok2 := rows(k.plain)
			if !ok || !ok2 {
				continue
			}
			o.Count("law_checks:lateral")
			o.NonTrivial(fmt.Sprintf("lateral:%s:%s:%s", k.law, band(len(ta.rows)), band(len(l))))
			if w != wa+wb && len(ta.rows) == 0 {
				o.Law("lateral_empty_left_header", map[string]interface{}{"sql": k.lat, "expected_header_width": wa + wb,
					"got_header_width": w, "tables": dumpTables([]*table{ta, tb})})
				continue
			}
			if w != wa+wb || canonRows(l) != canonRows(p) {
				o.Law(k.law, map[string]interface{}{"sql": k.lat, "plain_sql": k.plain, "tables": dumpTables([]*table{ta, tb})})
			}
		}
	}
	for _, t := range x.tables {
		pr.DisposeTable(t.name)
	}
	x.tables = nil

	// ---------- recursive CTE ----------
	rounds = n / 8
	if rounds < 6 {
		rounds = 6
	}
	for i := 0; i < rounds; i++ {
		recursiveCase(g, pr, o, x)
	}
}

func declareRaw(pr *hc.Proc, name string, cols []string, rows [][]value.Primary) error {
	var sb strings.Builder
	fmt.Fprintf(&sb, "DECLARE %s VIEW (%s);", name, strings.Join(cols, ", "))
	if len(rows) > 0 {
		fmt.Fprintf(&sb, "INSERT INTO %s VALUES ", name)
		for i, r := range rows {
			if i > 0 {
				sb.WriteString(", ")
			}
			ls := make([]string, len(r))
			for j, p := range r {
				ls[j] = lit(p)
			}
			sb.WriteString("(" + strings.Join(ls, ", ") + ")")
		}
		sb.WriteString(";")
	}
	_, err := pr.Exec(sb.String())
	return err
}

func recursiveCase(g *hc.Gen, pr *hc.Proc, o *hc.Out, x *qgen) {
	m := 3 + g.Intn(6)
	epoch++
	te := &table{name: fmt.Sprintf("te%d", epoch), cols: []string{"src", "dst", "v"}}
	pay := pool(g, 3, true)
	distinct := g.Intn(2) == 0 // UNION instead of UNION ALL
	if distinct {
		pay = pay[:1+g.Intn(2)] // few payloads: the de-duplication has something to merge
	}
	edge := func(s, d int) {
		var dv value.Primary = value.NewInteger(int64(d))
		if d < 0 {
			dv = value.NewNull()
		}
		var sv value.Primary = value.NewInteger(int64(s))
		if g.Intn(10) == 0 {
			sv = value.NewString(" " + strconv.Itoa(s) + " ")
		}
		te.rows = append(te.rows, []value.Primary{sv, dv, pay[g.Intn(len(pay))]})
	}
	graph := []string{"dag", "dag", "chain", "diamond", "cycle", "selfloop"}[g.Intn(6)]
	cyclic := false
	switch graph {
	case "dag":
		for i, ne := 0, g.Intn(13); i < ne; i++ {
			s := g.Intn(m)
			d := s + 1 + g.Intn(2)
			if g.Intn(8) == 0 {
				d = -1
			}
			edge(s, d)
		}
	case "chain": // depth m, plus a few shortcuts
		for i := 0; i+1 < m; i++ {
			edge(i, i+1)
		}
		for i, k := 0, g.Intn(3); i < k; i++ {
			s := g.Intn(m - 1)
			edge(s, s+1+g.Intn(m-1-s))
		}
	case "diamond": // 0 -> 1,2 -> 3 -> 4 -> 5,6 -> 7: the same node reached along several paths, depth >= 3
		for _, e := range [][2]int{{0, 1}, {0, 2}, {1, 3}, {2, 3}, {3, 4}, {4, 5}, {4, 6}, {5, 7}, {6, 7}} {
			if e[1] <= m {
				edge(e[0], e[1])
			}
		}
		if g.Intn(2) == 0 {
			edge(1, 3) // a parallel edge
		}
	case "cycle":
		cyclic = true
		k := 2 + g.Intn(3)
		for i := 0; i < k; i++ {
			edge(i, (i+1)%k)
		}
		if g.Intn(2) == 0 {
			edge(g.Intn(k), k) // a tail leaving the cycle
			edge(k, k+1)
		}
	case "selfloop":
		cyclic = true
		edge(0, 1)
		edge(1, 1)
		if g.Intn(2) == 0 {
			edge(1, 2)
		}
	}
	ts := &table{name: fmt.Sprintf("ts%d", epoch), cols: []string{"k", "v"}}
	anchorMode := []string{"random", "random", "duplicates", "duplicates", "empty", "shared_successors"}[g.Intn(6)]
	switch anchorMode {
	case "random":
		for i, k := 0, g.Intn(4); i < k; i++ {
			var kv value.Primary = value.NewInteger(int64(g.Intn(m)))
			switch g.Intn(8) {
			case 0:
				kv = value.NewString(strconv.Itoa(g.Intn(m)))
			case 1:
				kv = value.NewNull()
			}
			ts.rows = append(ts.rows, []value.Primary{kv, pay[g.Intn(len(pay))]})
		}
	case "duplicates": // the same anchor row several times (also spelled differently: 0 and '0' share a key)
		k0, p0 := g.Intn(2), pay[g.Intn(len(pay))]
		for i, k := 0, 2+g.Intn(2); i < k; i++ {
			var kv value.Primary = value.NewInteger(int64(k0))
			if g.Intn(5) == 0 {
				kv = value.NewString(strconv.Itoa(k0))
			}
			ts.rows = append(ts.rows, []value.Primary{kv, p0})
		}
		if g.Intn(3) == 0 {
			ts.rows = append(ts.rows, []value.Primary{value.NewInteger(int64(g.Intn(m))), pay[g.Intn(len(pay))]})
		}
	case "shared_successors": // several anchor rows whose successors coincide
		for i, k := 0, 2+g.Intn(3); i < k; i++ {
			ts.rows = append(ts.rows, []value.Primary{value.NewInteger(int64(g.Intn(3))), pay[g.Intn(len(pay))]})
		}
	}
	if err := pr.DeclareTable(te.name, te.cols, te.rows); err != nil {
		o.Law("declare_table_error", err.Error())
		return
	}
	defer pr.DisposeTable(te.name)
	if err := pr.DeclareTable(ts.name, ts.cols, ts.rows); err != nil {
		o.Law("declare_table_error", err.Error())
		return
	}
	defer pr.DisposeTable(ts.name)
	x.tables = []*table{te, ts}
	x.lits = append(pool(g, 4, false), pay...)
	for k := 0; k < m; k++ {
		x.lits = append(x.lits, value.NewInteger(int64(k)))
	}
	x.nAlias = 0

	// anchor: SELECT k AS c0, v AS c1 FROM ts [WHERE …]
	sa := leafOf(x, ts)
	anchor := &qry{from: sa, sel: []int{1, 2}, names: []string{"c0", "c1"}, uniq: []bool{false, false}}
	if g.Intn(3) == 0 {
		anchor.where = x.cond(1, sa.layout, nil)
	}
	// step: generation ⋈ te
	gs := &src{kind: 'G', gname: "r", alias: x.alias()}
	gs.layout = []col{{gs.alias, "c0", false}, {gs.alias, "c1", false}}
	es := leafOf(x, te)
	var l, r *src = gs, es
	gside, eside := 0, 1
	if g.Intn(3) == 0 {
		l, r = es, gs
		gside, eside = 1, 0
	}
	eq := &cond{op: "cmp", cop: "=", e: []expr{{isCol: true, side: eside, idx: 1}, {isCol: true, side: gside, idx: 0}}}
	j := &src{kind: 'J', l: l, r: r, jk: 'I', jform: 'o', on: eq, layout: joinLayout(l.layout, r.layout)}
	step := &qry{from: j, names: []string{"c0", "c1"}, uniq: []bool{false, false}}
	off := 0
	if eside == 1 {
		off = 2
	}
	step.sel = []int{off + 2, off + 3} // te.dst, te.v
	switch g.Intn(4) {
	case 0:
		j.on = &cond{op: "and", a: eq, b: x.cond(1, l.layout, r.layout)}
	case 1:
		j.jk, j.jform, j.on = 'C', 'c', nil
		step.where = &cond{op: "cmp", cop: "=", e: []expr{{isCol: true, idx: eoff(eside, 1)}, {isCol: true, idx: goff(gside, 0, len(es.layout))}}}
	case 2:
		step.where = x.cond(1, j.layout, nil)
	}
	if g.Intn(4) == 0 {
		// carry the previous payload instead of the edge's
		step.sel[1] = goff(gside, 1, len(es.layout))
	}

	limit := 1000
	if g.Intn(4) == 0 {
		limit = g.Intn(5)
	}
	if cyclic {
		// the working table never becomes empty on a cycle (also with UNION: it is not reduced by the rows
		// already known) - only the recursion limit ends it; out-degree <= 2 keeps the generations small
		limit = 2 + g.Intn(5)
	}
	setop, opcmd := "UNION ALL", "c03.rec"
	if distinct {
		setop, opcmd = "UNION", "c03.recu"
	}
	pr.P.Tx.Flags.SetLimitRecursion(int64(limit))
	defer pr.P.Tx.Flags.SetLimitRecursion(1000)
	cpu := []int{1, 2, 4}[g.Intn(3)]
	pr.SetCPU(cpu)

	gs.gname = "r"
	stepSQL := sqlQuery(step)
	sql := "WITH RECURSIVE r (c0, c1) AS (" + sqlQuery(anchor) + " " + setop + " " + stepSQL + ") SELECT * FROM r"
	v, err := pr.Query(sql)
	e := newEnc()
	ap := strings.Join(e.query(anchor), " ")
	sp := strings.Join(e.query(step), " ")
	op := fmt.Sprintf("%s %d %d %s %s %s #%s", opcmd, cpu, limit, e.header(), ap, sp, hc.Hex(sql))
	impl := ""
	if err != nil {
		if _, ok := err.(*query.RecursionExceededLimitError); !ok {
			o.Law("recursive_sql_error", map[string]interface{}{"sql": sql, "error": err.Error(), "tables": dumpTables(x.tables)})
			return
		}
		impl = "ERR"
		o.Count("recursive:limit_exceeded")
	} else {
		impl = canon(v)
	}
	o.Case(op, impl)
	o.Count("recursive:cases")
	o.Count("recursive:setop=" + setop)
	o.Count("recursive:graph=" + graph)
	o.Count("recursive:anchor=" + anchorMode)

	if err == nil && v.RecordLen() <= 40 {
		nrows := v.RecordLen()
		mk := func() *src {
			s := &src{kind: 'G', gname: "r", alias: x.alias(), est: nrows}
			s.layout = []col{{s.alias, "c0", false}, {s.alias, "c1", false}}
			return s
		}
		with := "WITH RECURSIVE r (c0, c1) AS (" + sqlQuery(anchor) + " " + setop + " " + stepSQL + ") "
		x.ctes, x.outer = nil, nil
		fq := x.multiRef(mk, nrows)
		sql2 := with + sqlQuery(fq)
		if v2, err2 := pr.Query(sql2); err2 != nil {
			o.Law("recursive_sql_error", map[string]interface{}{"sql": sql2, "error": err2.Error(), "tables": dumpTables(x.tables)})
		} else {
			e2 := newEnc()
			ap2 := strings.Join(e2.query(anchor), " ")
			sp2 := strings.Join(e2.query(step), " ")
			fp2 := strings.Join(e2.query(fq), " ")
			o.Case(fmt.Sprintf("%s %d %d %s %s %s %s #%s", opcmd, cpu, limit, e2.header(), ap2, sp2, fp2, hc.Hex(sql2)), canon(v2))
			o.Count("recursive:" + fq.tag)
			o.NonTrivial("rec:" + queryShape(fq, nil, 0) + "|" + band(v2.RecordLen()))
		}
		// the recursive table read last, after a filtered / projected earlier reference
		first := x.wrap(mk())
		z := mk()
		sql3 := with + "SELECT " + z.alias + ".* FROM " + sqlSrc(first) + " RIGHT JOIN " + sqlSrc(z) + " ON FALSE"
		if got, w, ok := qrows(pr, o, sql3); ok {
			o.Count("law_checks:cte_reference_stable")
			if w != 2 || "2 "+canonRows(got) != impl {
				o.Law("cte_reference_stable", map[string]interface{}{"sql": sql3, "alone_sql": sql, "tables": dumpTables(x.tables)})
			}
		}
	}

	// the same by separate non-recursive queries, one per generation
	av, err := pr.Query(sqlQuery(anchor))
	o.Eval()
	if err != nil {
		o.Law("recursive_sql_error", map[string]interface{}{"sql": sqlQuery(anchor), "error": err.Error()})
		return
	}
	all := viewRows(av)
	gen := primRows(av)
	accPrim := primRows(av)
	iterSQL := ""
	gens := 0
	exceeded := false
	for {
		if gens >= limit {
			exceeded = true
			break
		}
		gens++
		epoch++
		gs.gname = fmt.Sprintf("gt%d", epoch)
		iterSQL = sqlQuery(step)
		if err := declareRaw(pr, gs.gname, []string{"c0", "c1"}, gen); err != nil {
			o.Law("recursive_sql_error", map[string]interface{}{"sql": "DECLARE gt", "error": err.Error()})
			return
		}
		nv, err := pr.Query(iterSQL)
		o.Eval()
		pr.DisposeTable(gs.gname)
		if err != nil {
			o.Law("recursive_sql_error", map[string]interface{}{"sql": iterSQL, "error": err.Error()})
			return
		}
		if nv.RecordLen() == 0 {
			break
		}
		if distinct {
			// accumulated := accumulated UNION step result, computed by the implementation's own (non-recursive) UNION
			epoch++
			ga, gn := fmt.Sprintf("ga%d", epoch), fmt.Sprintf("gn%d", epoch)
			e1 := declareRaw(pr, ga, []string{"c0", "c1"}, accPrim)
			e2 := declareRaw(pr, gn, []string{"c0", "c1"}, primRows(nv))
			var uv *query.View
			var e3 error
			if e1 == nil && e2 == nil {
				uv, e3 = pr.Query("SELECT * FROM " + ga + " UNION SELECT * FROM " + gn)
				o.Eval()
			}
			pr.DisposeTable(ga)
			pr.DisposeTable(gn)
			if e1 != nil || e2 != nil || e3 != nil {
				o.Law("recursive_sql_error", map[string]interface{}{"sql": "accumulated UNION step", "error": fmt.Sprint(e1, e2, e3)})
				return
			}
			all = viewRows(uv)
			accPrim = primRows(uv)
		} else {
			all = append(all, viewRows(nv)...)
		}
		gen = primRows(nv)
		if gens > 200 {
			break
		}
	}
	o.Count("law_checks:recursive")
	o.NonTrivial(fmt.Sprintf("rec:%d:%s:%v:%c%c:%s:%s:%s", gens, band(len(all)), exceeded, j.jk, j.jform, setop, graph, anchorMode))
	want := "ERR"
	if !exceeded {
		want = "2 " + canonRows(all)
	}
	if impl != want {
		o.Law("recursive_eq_iterated", map[string]interface{}{"sql": sql, "step_sql_over_generation_table_gt": iterSQL,
			"limit_recursion": limit, "generations": gens, "set_operator": setop, "tables": dumpTables(x.tables)})
	}
}

func eoff(eside, idx int) int {
	if eside == 0 {
		return idx
	}
	return 2 + idx
}

func goff(gside, idx, ew int) int {
	if gside == 0 {
		return idx
	}
	return ew + idx
}

func primRows(v *query.View) [][]value.Primary {
	out := make([][]value.Primary, v.RecordLen())
	for i := range out {
		r := make([]value.Primary, v.FieldLen())
		for j := range r {
			r[j], _ = cellAt(v, i, j)
		}
		out[i] = r
	}
	return out
}
