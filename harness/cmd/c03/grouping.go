package main

// joinGrouping: a chain of joins without parentheses groups to the LEFT, as SQL join chains do:
//   a J1 b J2 c …   =   (a J1 b) J2 c …
// for every pair of join spellings.  The parenthesised spelling is csvq's own (a parenthesised join is a table), so the
// law is checked on the implementation alone: both texts go through the real parser and processor.  Known finding F117:
// behind a join WITHOUT a trailing condition (CROSS JOIN, NATURAL JOIN) a following join that begins with LEFT / RIGHT /
// INNER is read as part of the RIGHT operand (parser.y gives LEFT / RIGHT / INNER no precedence; FULL / JOIN / NATURAL /
// CROSS associate to the left).

import (
	"fmt"

	"verifharness/hc"
)

func joinGrouping(pr *hc.Proc, o *hc.Out) {
	setup := []string{
		"DECLARE jg_t VIEW (id, name, v)", "INSERT INTO jg_t VALUES (1, 'a', 10), (2, 'b', 20), (3, 'c', 30)",
		"DECLARE jg_u VIEW (id, w)", "INSERT INTO jg_u VALUES (1, 'x'), (2, 'y'), (4, 'z')",
		"DECLARE jg_k VIEW (w, z)", "INSERT INTO jg_k VALUES ('x', 100), ('y', 200), ('q', 300)",
	}
	for _, s := range setup {
		if _, err := pr.Exec(s); err != nil {
			o.Law("law_sql_error", map[string]interface{}{"sql": s, "error": err.Error()})
			return
		}
	}
	defer func() {
		for _, v := range []string{"jg_t", "jg_u", "jg_k"} {
			_, _ = pr.Exec("DISPOSE VIEW " + v)
		}
	}()
	first := []struct{ name, sql string }{
		{"cross", "CROSS JOIN jg_u AS u"},
		{"natural", "NATURAL JOIN jg_u AS u"},
		{"inner-on", "JOIN jg_u AS u ON t.id = u.id"},
		{"left-on", "LEFT JOIN jg_u AS u ON t.id = u.id"},
		{"full-on", "FULL JOIN jg_u AS u ON t.id = u.id"},
	}
	second := []struct{ name, sql string }{
		{"right-using", "RIGHT JOIN jg_k AS k USING (w)"},
		{"left-using", "LEFT JOIN jg_k AS k USING (w)"},
		{"inner-using", "INNER JOIN jg_k AS k USING (w)"},
		{"join-using", "JOIN jg_k AS k USING (w)"},
		{"full-using", "FULL JOIN jg_k AS k USING (w)"},
		{"natural", "NATURAL JOIN jg_k AS k"},
		{"cross", "CROSS JOIN jg_k AS k"},
		{"right-on", "RIGHT JOIN jg_k AS k ON u.w = k.w"},
		{"left-outer-on", "LEFT OUTER JOIN jg_k AS k ON u.w = k.w"},
	}
	for _, a := range first {
		for _, b := range second {
			chain := "SELECT * FROM jg_t AS t " + a.sql + " " + b.sql
			grouped := "SELECT * FROM (jg_t AS t " + a.sql + ") " + b.sql
			v1, e1 := pr.Query(chain)
			o.Eval()
			v2, e2 := pr.Query(grouped)
			o.Eval()
			o.Count("law_checks:join_chain_groups_left")
			o.NonTrivial(fmt.Sprintf("grouping:%s:%s:%v:%v", a.name, b.name, e1 == nil, e2 == nil))
			if e1 != nil || e2 != nil {
				if (e1 == nil) != (e2 == nil) {
					o.Law("join_chain_groups_left:"+a.name+"_then_"+b.name, map[string]interface{}{"chain": chain, "grouped": grouped,
						"chain_error": fmt.Sprint(e1), "grouped_error": fmt.Sprint(e2)})
				}
				continue
			}
			if canonRows(viewRows(v1)) != canonRows(viewRows(v2)) || v1.FieldLen() != v2.FieldLen() {
				o.Law("join_chain_groups_left:"+a.name+"_then_"+b.name, map[string]interface{}{"chain": chain, "grouped": grouped,
					"chain_rows": len(viewRows(v1)), "grouped_rows": len(viewRows(v2))})
			}
		}
	}
}
