package main

// Recursive common table expressions written by NAME, compared with the Lean model (plan node `WR`):
//
//  recursiveNamedCases   WITH RECURSIVE name (c0, c1) AS (anchor UNION [ALL] step) body, where the recursive member
//                        refers to `name` MORE THAN ONCE and at every depth the scope constructors of
//                        reference_scope.go reach: a second time in the FROM list (self-join of the working view),
//                        inside a derived table (CreateNode), inside LATERAL sub-selects and inside sub-queries
//                        evaluated per record (createScope: IN, EXISTS, scalar, ANY, ALL, two levels deep, a self-join
//                        inside the sub-query, a scalar sub-query as select item).  Every such reference denotes the
//                        records of the PREVIOUS iteration (Model/Rel.lean NameScope; theorem
//                        recursive_reference_any_depth).  Sessions come with and without decoys of the same name: a
//                        file, a temporary table, a common table expression of the enclosing query (all have the
//                        columns c0, c1 and rows over the same node numbers, so a captured name gives wrong rows,
//                        not an error); the ANCHOR member may read the decoy (there the name is what it was before:
//                        anchor_reference_is_outer), also from a sub-query.  The edge table is also reached through a
//                        common table expression from inside per-record sub-queries (the inline tables of the
//                        enclosing nodes are inherited as well).
//                        Set operators (UNION / EXCEPT / INTERSECT [ALL]) stand everywhere below the recursive table's own
//                        set operator: inside the per-record sub-queries and LATERAL sub-selects of the recursive
//                        member, as derived tables in the FROM of the anchor and of the recursive member, as a
//                        parenthesised right-hand side `anchor UNION ALL (m1 <op> m2)` with both members reading the
//                        working view, and in a common table expression defined AFTER the recursive one over the
//                        finished table.  Each is an ordinary set operator evaluated in the scope where it stands
//                        (nested_set_operator_is_ordinary; for the parenthesised form every generation is the
//                        combination of both members applied to the generation before: two_member_generation).
//                        Law recursive_named_eq_iterated (implementation alone): the same generations computed by
//                        separate non-recursive queries over a temporary table holding the previous generation.
//  scopeInheritWitness   NOW() inside per-record sub-queries = NOW() of the statement (the statement's time stamp is
//                        inherited by every derived scope)

import (
	"fmt"
	"os"
	"path/filepath"
	"strconv"
	"strings"

	"github.com/mithrandie/csvq/lib/query"
	"github.com/mithrandie/csvq/lib/value"

	"verifharness/hc"
)

func nodeOf(p value.Primary) (int, bool) {
	switch v := p.(type) {
	case *value.Integer:
		return int(v.Raw()), true
	case *value.String:
		k, err := strconv.Atoi(strings.TrimSpace(v.Raw()))
		return k, err == nil
	}
	return 0, false
}

// recBound: the largest number of steps (<= limit) whose results stay within `cap` rows, counted per node
// (an upper bound: the additional predicates only remove rows); square = the working view joined with itself;
// pre / post = how often a UNION ALL below / above the join repeats a record
func recBound(anchor []value.Primary, edges [][2]int, pre int, square bool, post int, limit, cap int) int {
	cnt := map[int]int{}
	for _, p := range anchor {
		if k, ok := nodeOf(p); ok {
			cnt[k]++
		}
	}
	for step := 1; step <= limit; step++ {
		next := map[int]int{}
		total := 0
		for _, e := range edges {
			m := cnt[e[0]] * pre
			if square {
				m *= m
			}
			m *= post
			if m == 0 {
				continue
			}
			total += m
			if total > cap {
				return step - 1
			}
			if e[1] >= 0 {
				next[e[1]] += m
			}
		}
		if total == 0 {
			return limit
		}
		cnt = next
	}
	return limit
}

type setKind struct {
	kw, tok string
	all     bool
}

var setKinds = []setKind{{"UNION", "U", false}, {"UNION ALL", "U", true}, {"EXCEPT", "E", false}, {"EXCEPT ALL", "E", true},
	{"INTERSECT", "I", false}, {"INTERSECT ALL", "I", true}}

// setJoin: `l <op> r` as a query / plan
func setJoin(k setKind, l, r subq) subq {
	return subq{l.sql + " " + k.kw + " " + r.sql, append(append([]string{"SO", k.tok, b01(k.all)}, l.tok...), r.tok...)}
}

func andCond(a, b *cond) *cond {
	if a == nil {
		return b
	}
	if b == nil {
		return a
	}
	return &cond{op: "and", a: a, b: b}
}

func nref(view, name string) expr { return expr{named: true, rview: view, rname: name} }

func eqRef(a, b expr) *cond { return &cond{op: "cmp", cop: "=", e: []expr{a, b}} }

// qsTok: the tokens of a query with numbered sub-queries
func qsTok(subs []subq, from nsrc, e *enc, where *cond, itemTok []string, nitems int) []string {
	tok := []string{"QS", strconv.Itoa(len(subs))}
	for _, s := range subs {
		tok = append(tok, s.tok...)
	}
	tok = append(tok, from.tok...)
	if where == nil {
		tok = append(tok, "-")
	} else {
		tok = append(append(tok, "W"), e.cond(where)...)
	}
	if nitems < 0 {
		return append(tok, "*")
	}
	return append(append(tok, "L", strconv.Itoa(nitems)), itemTok...)
}

func recursiveNamedCases(g *hc.Gen, o *hc.Out, n int) {
	scratch := os.Getenv("VERIF_SCRATCH")
	if scratch == "" {
		scratch = os.TempDir()
	}
	dir, err := os.MkdirTemp(scratch, "c03-rec-")
	if err != nil {
		o.Law("law_sql_error", err.Error())
		return
	}
	defer os.RemoveAll(dir)
	pr := hc.NewProc(dir)
	defer pr.Close()
	defer pr.P.Tx.Flags.SetLimitRecursion(1000)
	scopeInheritWitness(pr, o)
	parenLimitWitness(dir, o)
	x := &ngen{g: g}
	rounds := n / 6
	if rounds < 36 {
		rounds = 36
	}
	for c := 0; c < rounds; c++ {
		recursiveNamedCase(g, pr, o, x, dir, c)
	}
}

func recursiveNamedCase(g *hc.Gen, pr *hc.Proc, o *hc.Out, x *ngen, dir string, c int) {
	epoch++
	name := fmt.Sprintf("rq%d", epoch)
	decoy := c % 6 // 0 none, 1 file, 2 temporary table, 3 both, 4 CTE of the enclosing query, 5 that and a temporary table
	hasFile, hasTemp, hasOuter := decoy == 1 || decoy == 3, decoy == 2 || decoy == 3 || decoy == 5, decoy >= 4
	m := 3 + g.Intn(5)
	pay := pool(g, 2+g.Intn(2), false)

	// ---- the edge table ----
	te := &table{name: fmt.Sprintf("re%d", epoch), cols: []string{"src", "dst", "v"}}
	var edges [][2]int
	seen := map[[2]int]bool{}
	edge := func(s, d int) {
		if seen[[2]int{s, d}] {
			return
		}
		seen[[2]int{s, d}] = true
		edges = append(edges, [2]int{s, d})
		var dv value.Primary = value.NewInteger(int64(d))
		if d < 0 {
			dv = value.NewNull()
		}
		var sv value.Primary = value.NewInteger(int64(s))
		if g.Intn(12) == 0 {
			sv = value.NewString(" " + strconv.Itoa(s) + " ")
		}
		te.rows = append(te.rows, []value.Primary{sv, dv, pay[g.Intn(len(pay))]})
	}
	graph := []string{"dag", "dag", "chain", "diamond", "cycle"}[g.Intn(5)]
	cyclic := false
	switch graph {
	case "dag":
		for i, ne := 0, 2+g.Intn(9); i < ne; i++ {
			s := g.Intn(m)
			d := s + 1 + g.Intn(2)
			if g.Intn(10) == 0 {
				d = -1 - s // a NULL successor (one per source)
			}
			edge(s, d)
		}
	case "chain":
		for i := 0; i+1 < m; i++ {
			edge(i, i+1)
		}
		if g.Intn(2) == 0 {
			s := g.Intn(m - 1)
			edge(s, s+1+g.Intn(m-1-s))
		}
	case "diamond":
		for _, e := range [][2]int{{0, 1}, {0, 2}, {1, 3}, {2, 3}, {3, 4}, {4, 5}, {4, 6}, {5, 7}, {6, 7}} {
			if e[1] <= m {
				edge(e[0], e[1])
			}
		}
	case "cycle":
		cyclic = true
		k := 2 + g.Intn(2)
		for i := 0; i < k; i++ {
			edge(i, (i+1)%k)
		}
		if g.Intn(2) == 0 {
			edge(g.Intn(k), k)
		}
	}
	if err := pr.DeclareTable(te.name, te.cols, te.rows); err != nil {
		o.Law("declare_table_error", err.Error())
		return
	}
	defer pr.DisposeTable(te.name)

	// ---- the anchor table ----
	ts := &table{name: fmt.Sprintf("rs%d", epoch), cols: []string{"k", "v"}}
	for i, k := 0, []int{0, 1, 1, 2, 2, 3}[g.Intn(6)]; i < k; i++ {
		var kv value.Primary = value.NewInteger(int64(g.Intn(3)))
		switch g.Intn(10) {
		case 0:
			kv = value.NewString(strconv.Itoa(g.Intn(3)))
		case 1:
			kv = value.NewNull()
		}
		ts.rows = append(ts.rows, []value.Primary{kv, pay[g.Intn(len(pay))]})
	}
	if len(ts.rows) >= 2 && g.Intn(3) == 0 {
		ts.rows[1] = ts.rows[0] // a duplicate record
	}
	if err := pr.DeclareTable(ts.name, ts.cols, ts.rows); err != nil {
		o.Law("declare_table_error", err.Error())
		return
	}
	defer pr.DisposeTable(ts.name)

	// ---- the decoys: objects called like the recursive table, columns c0, c1, rows over the same nodes ----
	decoyRows := func(text bool) [][]value.Primary {
		var rows [][]value.Primary
		for i, k := 0, 1+g.Intn(4); i < k; i++ {
			node := g.Intn(m + 1)
			p := pay[g.Intn(len(pay))]
			if text {
				// a file holds texts
				s := "d" + strconv.Itoa(i)
				if q, ok := p.(*value.String); ok {
					s = q.Raw()
				}
				if strings.ContainsAny(s, ",\"\n\r") || strings.TrimSpace(s) != s || s == "" {
					s = "d" + strconv.Itoa(i)
				}
				rows = append(rows, []value.Primary{value.NewString(strconv.Itoa(node)), value.NewString(s)})
			} else {
				rows = append(rows, []value.Primary{value.NewInteger(int64(node)), p})
			}
		}
		return rows
	}
	var temp, file, od *table
	if hasTemp {
		temp = &table{name: name, cols: []string{"c0", "c1"}, rows: decoyRows(false), noID: true}
		if err := declareRaw(pr, name, temp.cols, temp.rows); err != nil {
			o.Law("declare_table_error", err.Error())
			return
		}
		defer pr.DisposeTable(name)
	}
	if hasFile {
		file = &table{name: name, cols: []string{"c0", "c1"}, rows: decoyRows(true), noID: true}
		var sb strings.Builder
		sb.WriteString("c0,c1\n")
		for _, r := range file.rows {
			sb.WriteString(r[0].(*value.String).Raw() + "," + r[1].(*value.String).Raw() + "\n")
		}
		fp := filepath.Join(dir, name+".csv")
		if err := os.WriteFile(fp, []byte(sb.String()), 0o644); err != nil {
			o.Law("law_sql_error", err.Error())
			return
		}
		defer os.Remove(fp)
	}
	if hasOuter {
		od = &table{name: fmt.Sprintf("rd%d", epoch), cols: []string{"k", "v"}, rows: decoyRows(false)}
		if err := pr.DeclareTable(od.name, od.cols, od.rows); err != nil {
			o.Law("declare_table_error", err.Error())
			return
		}
		defer pr.DisposeTable(od.name)
	}
	// what the name denotes OUTSIDE the recursive member (outer CTE over temporary table over file)
	var outside *table
	switch {
	case hasOuter:
		outside = od
	case hasTemp:
		outside = temp
	case hasFile:
		outside = file
	}
	x.lits = append([]value.Primary{value.NewInteger(0), value.NewInteger(1), value.NewInteger(2), value.NewInteger(int64(m - 1)), value.NewNull()}, pay...)

	e := newEnc()
	recRef := func(alias string, mayUpper bool) nsrc {
		rn := name
		if mayUpper && g.Intn(6) == 0 {
			rn = strings.ToUpper(name)
		}
		return nsrc{sql: rn + " AS " + alias, tok: []string{"A", alias, "0", "N", rn},
			hdr: []col{{alias, "c0", false}, {alias, "c1", false}}}
	}
	useEC := g.Intn(3) == 0 // the edge table also through a common table expression `ec`
	ecName := fmt.Sprintf("ec%d", epoch)
	edgeRef := func(alias string, viaCTE bool) nsrc {
		if viaCTE {
			return nsrc{sql: ecName + " AS " + alias, tok: []string{"A", alias, "0", "N", ecName},
				hdr: []col{{alias, "id", false}, {alias, "src", false}, {alias, "dst", false}, {alias, "v", false}}}
		}
		return nTable(e, te, alias)
	}

	// ---- a predicate holding a sub-query over the recursive name; xa = alias of the working view in scope,
	//      ea = alias of the edge table in scope ("" when there is none) ----
	nsub := 0
	usedKinds := map[string]bool{}
	var pred func(subs *[]subq, xa, ea string, depth int) *cond
	pred = func(subs *[]subq, xa, ea string, depth int) *cond {
		nsub++
		y := "y" + strconv.Itoa(nsub)
		target := nref(xa, "c0")
		if ea != "" && g.Intn(4) != 0 {
			target = nref(ea, "dst")
		}
		sel := func(from nsrc, item expr, w *cond, inner []subq) subq {
			sql, tok, _ := nQuery(e, from, w, false, []nitem{{e: item, out: "c1"}})
			if len(inner) > 0 {
				pre := []string{"QS", strconv.Itoa(len(inner))}
				for _, s := range inner {
					pre = append(pre, s.tok...)
				}
				tok = append(pre, tok[1:]...)
			}
			return subq{sql, tok}
		}
		add := func(s subq) int { *subs = append(*subs, s); return len(*subs) - 1 }
		// every third sub-query is a set operation: a second operand over the working view or over the edges
		withSet := func(s subq, item string) subq {
			if g.Intn(3) != 0 {
				return s
			}
			usedKinds["setop_subquery"] = true
			k := setKinds[g.Intn(len(setKinds))]
			o.Count("recnamed:setop_subquery=" + k.kw)
			var r subq
			if g.Intn(3) == 0 {
				h := "h" + strconv.Itoa(nsub)
				r = sel(edgeRef(h, false), nref(h, "dst"), eqRef(nref(h, "src"), nref(xa, "c0")), nil)
			} else {
				z := "w" + strconv.Itoa(nsub)
				var w *cond
				switch g.Intn(3) {
				case 0:
					w = eqRef(nref(z, "c1"), nref(xa, "c1"))
				case 1:
					w = &cond{op: "cmp", cop: []string{"<>", "<", ">="}[g.Intn(3)], e: []expr{nref(z, "c0"), target}}
				}
				r = sel(recRef(z, true), nref(z, item), w, nil)
			}
			if g.Intn(2) == 0 {
				return setJoin(k, r, s)
			}
			return setJoin(k, s, r)
		}
		kind := g.Intn(8)
		if depth == 0 && kind == 5 {
			kind = 0
		}
		switch kind {
		case 0, 7: // [NOT] IN
			usedKinds["in"] = true
			var w *cond
			if g.Intn(3) == 0 {
				w = eqRef(nref(y, "c1"), nref(xa, "c1"))
			}
			s := withSet(sel(recRef(y, true), nref(y, "c0"), w, nil), "c0")
			return &cond{op: "insub", neg: g.Intn(2) == 0, e: []expr{target}, subSQL: s.sql, sub: add(s)}
		case 1: // [NOT] EXISTS, correlated
			usedKinds["exists"] = true
			w := eqRef(nref(y, "c0"), target)
			if g.Intn(3) == 0 {
				w = andCond(w, &cond{op: "cmp", cop: "<>", e: []expr{nref(y, "c1"), nref(xa, "c1")}})
			}
			s := withSet(sel(recRef(y, true), nref(y, "c0"), w, nil), "c0")
			cd := &cond{op: "exists", subSQL: s.sql, sub: add(s)}
			if g.Intn(3) == 0 {
				return &cond{op: "not", a: cd}
			}
			return cd
		case 2: // scalar (several records of the node in the working view: `too many records`)
			usedKinds["scalar"] = true
			s := withSet(sel(recRef(y, true), nref(y, "c1"), eqRef(nref(y, "c0"), nref(xa, "c0")), nil), "c1")
			return &cond{op: "cmp", cop: []string{"=", "=", "<>", "<=", "=="}[g.Intn(5)],
				e: []expr{nref(xa, "c1"), {scalar: true, subSQL: s.sql, sub: add(s)}}}
		case 3: // ANY
			usedKinds["any"] = true
			s := withSet(sel(recRef(y, true), nref(y, "c0"), nil, nil), "c0")
			return &cond{op: "anysub", cop: []string{"=", ">", ">=", "<>", "<"}[g.Intn(5)], e: []expr{target}, subSQL: s.sql, sub: add(s)}
		case 4: // ALL
			usedKinds["all"] = true
			var w *cond
			if g.Intn(2) == 0 {
				w = eqRef(nref(y, "c1"), nref(xa, "c1"))
			}
			s := withSet(sel(recRef(y, true), nref(y, "c0"), w, nil), "c0")
			return &cond{op: "allsub", cop: []string{">=", "<=", "<>", "=", ">"}[g.Intn(5)], e: []expr{nref(xa, "c0")}, subSQL: s.sql, sub: add(s)}
		case 5: // two levels: a sub-query over the edges with a sub-query over the working view
			usedKinds["nested"] = true
			e2 := "f" + strconv.Itoa(nsub)
			from := edgeRef(e2, useEC)
			var inner []subq
			ic := pred(&inner, xa, e2, depth-1)
			w := andCond(eqRef(nref(e2, "src"), nref(xa, "c0")), ic)
			s := sel(from, nref(e2, "dst"), w, inner)
			cd := &cond{op: "exists", subSQL: s.sql, sub: add(s)}
			if g.Intn(4) == 0 {
				return &cond{op: "insub", neg: false, e: []expr{target}, subSQL: s.sql, sub: cd.sub}
			}
			return cd
		default: // the working view joined with itself INSIDE the sub-query
			usedKinds["subjoin"] = true
			z := "z" + strconv.Itoa(nsub)
			j := nJoin(e, "IL"[g.Intn(2)], recRef(y, true), recRef(z, true), 'o', nil, eqRef(nref(z, "c0"), nref(y, "c0")))
			s := sel(j, nref(z, "c1"), eqRef(nref(y, "c0"), target), nil)
			return &cond{op: "exists", subSQL: s.sql, sub: add(s)}
		}
	}

	// ---- the anchor member ----
	var anchorSQL string
	var anchorTok []string
	var anchorKeys []value.Primary // for the size bound
	anchorForm := "table"
	if outside != nil && g.Intn(2) == 0 {
		anchorForm = "decoy"
	} else if outside != nil && g.Intn(3) == 0 {
		anchorForm = "table+decoy_subquery"
	} else if g.Intn(4) == 0 {
		anchorForm = "derived_setop"
	}
	switch anchorForm {
	case "derived_setop": // a set operation as derived table in the anchor's FROM (an ordinary one, not the recursion)
		a0 := nTable(e, ts, "a0")
		var w *cond
		if g.Intn(2) == 0 {
			w = x.cond(0, a0.hdr)
		}
		lsql, ltok, _ := nQuery(e, a0, w, false, []nitem{{e: nref("a0", "k"), out: "c0"}, {e: nref("a0", "v"), out: "c1"}})
		var r subq
		for _, row := range ts.rows {
			anchorKeys = append(anchorKeys, row[0])
		}
		if outside != nil && g.Intn(2) == 0 {
			rsql, rtok, _ := nQuery(e, recRef("d0", false), nil, false, []nitem{{e: nref("d0", "c0"), out: "c0"}, {e: nref("d0", "c1"), out: "c1"}})
			r = subq{rsql, rtok}
			for _, row := range outside.rows {
				anchorKeys = append(anchorKeys, row[0])
			}
		} else {
			a1 := nTable(e, ts, "a1")
			rsql, rtok, _ := nQuery(e, a1, x.cond(0, a1.hdr), false, []nitem{{e: nref("a1", "k"), out: "c0"}, {e: nref("a1", "v"), out: "c1"}})
			r = subq{rsql, rtok}
			for _, row := range ts.rows {
				anchorKeys = append(anchorKeys, row[0])
			}
		}
		k := setKinds[g.Intn(len(setKinds))]
		o.Count("recnamed:setop_anchor_derived=" + k.kw)
		u := setJoin(k, subq{lsql, ltok}, r)
		anchorSQL = "SELECT s0.c0 AS c0, s0.c1 AS c1 FROM (" + u.sql + ") AS s0"
		anchorTok = append(append([]string{"Q", "A", "s0", "0"}, u.tok...), "-", "L", "2", "r", "s0", "c0", "c0", "r", "s0", "c1", "c1")
	case "decoy": // the idiom WITH RECURSIVE t AS (SELECT … FROM t …): here the name is still the object outside
		from := recRef("d0", false)
		var w *cond
		if g.Intn(2) == 0 {
			w = &cond{op: "cmp", cop: "<=", e: []expr{nref("d0", "c0"), {lit: value.NewInteger(int64(g.Intn(3)))}}}
		}
		anchorSQL, anchorTok, _ = nQuery(e, from, w, false, []nitem{{e: nref("d0", "c0"), out: "c0"}, {e: nref("d0", "c1"), out: "c1"}})
		for _, r := range outside.rows {
			anchorKeys = append(anchorKeys, r[0])
		}
	default:
		from := nTable(e, ts, "a0")
		var w *cond
		var subs []subq
		if anchorForm != "table" {
			s0sql, s0tok, _ := nQuery(e, recRef("d1", false), nil, false, []nitem{{e: nref("d1", "c0"), out: "c1"}})
			subs = append(subs, subq{s0sql, s0tok})
			w = &cond{op: "insub", neg: g.Intn(3) == 0, e: []expr{nref("a0", "k")}, subSQL: s0sql, sub: 0}
		} else if g.Intn(3) == 0 {
			w = x.cond(0, from.hdr)
		}
		anchorSQL = "SELECT a0.k AS c0, a0.v AS c1 FROM " + from.sql
		if w != nil {
			anchorSQL += " WHERE " + sqlCond(w, nil, nil)
		}
		anchorTok = qsTok(subs, from, e, w, []string{"r", "a0", "k", "c0", "r", "a0", "v", "c1"}, 2)
		for _, r := range ts.rows {
			anchorKeys = append(anchorKeys, r[0])
		}
	}

	// ---- the recursive member ----
	form := []string{"join", "join", "selfjoin", "selfjoin", "derived", "lateral", "lateral", "fromlist"}[g.Intn(8)]
	var subs []subq
	var from nsrc
	var where *cond
	xa, ea := "x1", "e1"
	dstRef, payRef := nref("e1", "dst"), nref("e1", "v")
	npreds := []int{0, 1, 1, 1, 2}[g.Intn(5)]
	preFactor, postFactor := 1, 1
	on := eqRef(nref("e1", "src"), nref("x1", "c0"))
	switch form {
	case "join":
		l, r := recRef("x1", true), edgeRef("e1", false)
		if g.Intn(3) == 0 {
			l, r = r, l
		}
		from = nJoin(e, 'I', l, r, 'o', nil, on)
	case "selfjoin": // the working view twice in the FROM list
		sj := eqRef(nref("x2", "c0"), nref("x1", "c0"))
		if g.Intn(3) == 0 {
			sj = andCond(sj, eqRef(nref("x2", "c1"), nref("x1", "c1")))
		}
		l := nJoin(e, 'I', recRef("x1", true), recRef("x2", true), 'o', nil, sj)
		if g.Intn(2) == 0 {
			from = nJoin(e, 'I', l, edgeRef("e1", false), 'o', nil, on)
		} else {
			from = nJoin(e, 'I', edgeRef("e1", false), l, 'o', nil, on)
		}
	case "derived": // the working view inside a derived table (a node scope of its own)
		inner := recRef("y0", true)
		var iw *cond
		var isubs []subq
		if g.Intn(2) == 0 {
			iw = x.cond(0, inner.hdr)
		} else if g.Intn(2) == 0 {
			iw = pred(&isubs, "y0", "", 0)
		}
		isql := "SELECT * FROM " + inner.sql
		if iw != nil {
			isql += " WHERE " + sqlCond(iw, nil, nil)
		}
		dq := subq{isql, qsTok(isubs, inner, e, iw, nil, -1)}
		if g.Intn(2) == 0 {
			// the derived table is a set operation of two reads of the working view
			y9 := recRef("y9", true)
			var w9 *cond
			if g.Intn(3) != 0 {
				w9 = x.cond(0, y9.hdr)
			}
			rsql, rtok, _ := nQuery(e, y9, w9, true, nil)
			k := setKinds[g.Intn(len(setKinds))]
			o.Count("recnamed:setop_step_derived=" + k.kw)
			usedKinds["setop_derived"] = true
			if k.kw == "UNION ALL" {
				preFactor = 2
			}
			dq = setJoin(k, dq, subq{rsql, rtok})
		}
		d := nsrc{sql: "(" + dq.sql + ") AS x1", hdr: []col{{"x1", "c0", false}, {"x1", "c1", false}}}
		d.tok = append([]string{"A", "x1", "0"}, dq.tok...)
		from = nJoin(e, 'I', d, edgeRef("e1", useEC && g.Intn(2) == 0), 'o', nil, on)
	case "lateral": // the edges of the record at hand, chosen by a LATERAL sub-select that looks at the working view
		l := recRef("x1", true)
		var lsubs []subq
		lw := eqRef(nref("e1", "src"), nref("x1", "c0"))
		for i := 0; i < npreds || i < 1; i++ {
			lw = andCond(lw, pred(&lsubs, "x1", "e1", 1))
		}
		npreds = 0
		ef := edgeRef("e1", false)
		ssql := "SELECT e1.dst AS d, e1.v AS pv FROM " + ef.sql + " WHERE " + sqlCond(lw, nil, nil)
		stok := qsTok(lsubs, ef, e, lw, []string{"r", "e1", "dst", "d", "r", "e1", "v", "pv"}, 2)
		if g.Intn(3) == 0 {
			// the LATERAL sub-select is a set operation: successors EXCEPT / INTERSECT the working view, or UNION further edges
			k := setKinds[g.Intn(len(setKinds))]
			o.Count("recnamed:setop_lateral=" + k.kw)
			usedKinds["setop_lateral"] = true
			var r subq
			if k.tok == "U" {
				h := nTable(e, te, "h1")
				w := andCond(eqRef(nref("h1", "src"), nref("x1", "c0")),
					&cond{op: "cmp", cop: []string{">", "<=", "<>"}[g.Intn(3)], e: []expr{nref("h1", "dst"), {lit: value.NewInteger(int64(g.Intn(m)))}}})
				rsql, rtok, _ := nQuery(e, h, w, false, []nitem{{e: nref("h1", "dst"), out: "d"}, {e: nref("h1", "v"), out: "pv"}})
				r = subq{rsql, rtok}
				if k.all {
					postFactor *= 2
				}
			} else {
				rsql, rtok, _ := nQuery(e, recRef("y8", true), nil, false, []nitem{{e: nref("y8", "c0"), out: "d"}, {e: nref("y8", "c1"), out: "pv"}})
				r = subq{rsql, rtok}
			}
			u := setJoin(k, subq{ssql, stok}, r)
			ssql, stok = u.sql, u.tok
		}
		kind := "CI"[g.Intn(2)]
		from = nsrc{isJoin: true, hdr: append(append([]col{}, l.hdr...), col{"s", "d", false}, col{"s", "pv", false})}
		from.tok = append(append(append([]string{"JL", string(kind)}, l.tok...), "A", "s", "0"), stok...)
		if kind == 'C' {
			from.sql = l.sql + " CROSS JOIN LATERAL (" + ssql + ") AS s"
			from.tok = append(from.tok, "-")
		} else {
			lon := &cond{op: "isnull", neg: true, e: []expr{nref("s", "d")}}
			if g.Intn(2) == 0 {
				lon = &cond{op: "cmp", cop: ">=", e: []expr{nref("s", "d"), nref("x1", "c0")}}
			}
			from.sql = l.sql + " INNER JOIN LATERAL (" + ssql + ") AS s ON " + sqlCond(lon, nil, nil)
			from.tok = append(append(from.tok, "O"), e.cond(lon)...)
		}
		ea = ""
		dstRef, payRef = nref("s", "d"), nref("s", "pv")
	case "fromlist":
		l, r := recRef("x1", true), edgeRef("e1", false)
		from = nsrc{sql: l.sql + " CROSS JOIN " + r.sql, isJoin: true, hdr: joinLayout(l.hdr, r.hdr)}
		from.tok = append(append(append([]string{"J", "C"}, l.tok...), r.tok...), "-")
		where = on
	}
	for i := 0; i < npreds; i++ {
		where = andCond(where, pred(&subs, xa, ea, 1))
	}
	if g.Intn(6) == 0 {
		where = andCond(where, x.cond(0, from.hdr[:2]))
	}
	itemSQL := []string{dstRef.refText() + " AS c0"}
	itemTok := []string{"r", dstRef.rview, dstRef.rname, "c0"}
	switch r := g.Intn(10); {
	case r < 5:
		itemSQL = append(itemSQL, payRef.refText()+" AS c1")
		itemTok = append(itemTok, "r", payRef.rview, payRef.rname, "c1")
	case r < 8:
		itemSQL = append(itemSQL, "x1.c1 AS c1")
		itemTok = append(itemTok, "r", "x1", "c1", "c1")
	default: // a scalar sub-query over the working view as select item
		usedKinds["scalar_item"] = true
		nsub++
		y := "y" + strconv.Itoa(nsub)
		ssql, stok, _ := nQuery(e, recRef(y, true), eqRef(nref(y, "c0"), nref("x1", "c0")), false, []nitem{{e: nref(y, "c1"), out: "c1"}})
		subs = append(subs, subq{ssql, stok})
		itemSQL = append(itemSQL, "("+ssql+") AS c1")
		itemTok = append(itemTok, "s", strconv.Itoa(len(subs)-1), "c1")
	}
	stepSQL := "SELECT " + strings.Join(itemSQL, ", ") + " FROM " + from.sql
	if where != nil {
		stepSQL += " WHERE " + sqlCond(where, nil, nil)
	}
	stepTok := qsTok(subs, from, e, where, itemTok, 2)
	// ---- limit: small on cycles; never more steps than keep the working view small ----
	limit := 1000
	if g.Intn(5) == 0 {
		limit = g.Intn(5)
	}
	if cyclic {
		limit = 2 + g.Intn(4)
	}
	boundFor := func(post int) int {
		if limit > 12 {
			if b := recBound(anchorKeys, edges, preFactor, form == "selfjoin", post, 12, 300); b < 12 {
				return b
			}
			return limit
		}
		return recBound(anchorKeys, edges, preFactor, form == "selfjoin", post, limit, 300)
	}
	stepAloneSQL := stepSQL // the member as a statement of its own (law)
	stepForm := "single"
	// (while the limit error of a parenthesised right-hand side panics - parenLimitPanics - the form is written only
	// where the recursion ends by itself: an acyclic graph, no limit below the depth of the graph)
	if g.Intn(4) == 0 && (!parenLimitPanics || (!cyclic && boundFor(postFactor*2) == 1000)) {
		// anchor UNION [ALL] (m1 <op> m2): the right-hand side is a query of its own, both members read the working view
		stepForm = "two_members"
		x9, e9 := recRef("x9", true), nTable(e, te, "e9")
		j := nJoin(e, 'I', x9, e9, 'o', nil, eqRef(nref("e9", "src"), nref("x9", "c0")))
		var w9 *cond
		if g.Intn(2) == 0 {
			w9 = x.cond(0, x9.hdr)
		}
		m2sql, m2tok, _ := nQuery(e, j, w9, false, []nitem{{e: nref("e9", "dst"), out: "c0"}, {e: []expr{nref("x9", "c1"), nref("e9", "v")}[g.Intn(2)], out: "c1"}})
		k := setKinds[g.Intn(len(setKinds))]
		if g.Intn(2) == 0 {
			k = setKinds[1] // UNION ALL, the usual spelling
		}
		o.Count("recnamed:setop_two_members=" + k.kw)
		if k.kw == "UNION ALL" {
			postFactor *= 2
		}
		u := setJoin(k, subq{stepSQL, stepTok}, subq{m2sql, m2tok})
		stepAloneSQL, stepTok = u.sql, u.tok
		stepSQL = "(" + u.sql + ")"
	}

	limit = boundFor(postFactor)
	distinct := g.Intn(3) == 0
	setop, opTok := "UNION ALL", "A"
	if distinct {
		setop, opTok = "UNION", "U"
	}

	// ---- the body ----
	bodyForm := []string{"star", "star", "filter", "subquery", "setcte"}[g.Intn(5)]
	if hasOuter && bodyForm != "setcte" {
		bodyForm = "star"
	}
	var bodySQL string
	var bodyTok []string
	laterDef := "" // a common table expression defined after the recursive one
	switch bodyForm {
	case "setcte": // WITH RECURSIVE name …, u AS (… name … <op> … name …) SELECT * FROM u
		un := fmt.Sprintf("ru%d", epoch)
		b3, b4 := recRef("b3", true), recRef("b4", true)
		var w3 *cond
		if g.Intn(2) == 0 {
			w3 = x.cond(0, b3.hdr)
		}
		lsql, ltok, _ := nQuery(e, b3, w3, true, nil)
		rsql, rtok, _ := nQuery(e, b4, x.cond(1, b4.hdr), true, nil)
		k := setKinds[g.Intn(len(setKinds))]
		o.Count("recnamed:setop_later_cte=" + k.kw)
		u := setJoin(k, subq{lsql, ltok}, subq{rsql, rtok})
		laterDef = ", " + un + " AS (" + u.sql + ")"
		bodySQL = "SELECT * FROM " + un
		bodyTok = append(append([]string{"W", un, "0"}, u.tok...), "Q", "N", un, "-", "*")
	case "star":
		bodySQL, bodyTok = "SELECT * FROM "+name, []string{"Q", "N", name, "-", "*"}
	case "filter":
		b := recRef("b1", true)
		bodySQL, bodyTok, _ = nQuery(e, b, x.cond(1, b.hdr), false, []nitem{{e: nref("b1", "c0"), out: "o1"}, {e: nref("b1", "c1"), out: "o2"}})
	default: // the finished table read again from a sub-query evaluated per record
		b := recRef("b1", true)
		ssql, stok, _ := nQuery(e, recRef("b2", true), eqRef(nref("b2", "c1"), nref("b1", "c1")), false, []nitem{{e: nref("b2", "c0"), out: "c1"}})
		w := &cond{op: "anysub", cop: []string{"<", "<>", ">="}[g.Intn(3)], e: []expr{nref("b1", "c0")}, subSQL: ssql, sub: 0}
		bodySQL = "SELECT b1.c0 AS o1, b1.c1 AS o2 FROM " + b.sql + " WHERE " + sqlCond(w, nil, nil)
		bodyTok = qsTok([]subq{{ssql, stok}}, b, e, w, []string{"r", "b1", "c0", "o1", "r", "b1", "c1", "o2"}, 2)
	}

	// ---- the statement ----
	collist, colTok := " (c0, c1)", []string{"2", "c0", "c1"}
	if g.Intn(4) == 0 {
		collist, colTok = "", []string{"0"} // the names come from the anchor's select list
	}
	ecDef, ecSQL := []string(nil), ""
	if useEC {
		i2 := nTable(e, te, "i2")
		_, dtok, _ := nQuery(e, i2, nil, true, nil)
		ecDef = append([]string{"W", ecName, "0"}, dtok...)
		ecSQL = ecName + " AS (SELECT * FROM " + i2.sql + ")"
	}
	recDef := "RECURSIVE " + name + collist + " AS (" + anchorSQL + " " + setop + " " + stepSQL + ")"
	withRec := "WITH "
	if useEC {
		withRec += ecSQL + ", "
	}
	withRecOnly := withRec + recDef + " "
	withRec += recDef + laterDef + " "
	mkPlan := func(body []string) []string {
		p := append([]string{}, ecDef...)
		p = append(append(p, "WR", name), colTok...)
		p = append(p, opTok, strconv.Itoa(limit))
		p = append(append(append(p, anchorTok...), stepTok...), body...)
		return p
	}
	sql := withRec + bodySQL
	plan := mkPlan(bodyTok)
	outerDef := ""
	if hasOuter {
		// the recursive table lives in a sub-select; the enclosing query has a CTE of the same name and reads it too
		i1 := nTable(e, od, "i1")
		dsql, dtok, _ := nQuery(e, i1, nil, false, []nitem{{e: nref("i1", "k"), out: "c0"}, {e: nref("i1", "v"), out: "c1"}})
		outerDef = "WITH " + name + " AS (" + dsql + ") "
		s := nsrc{sql: "(" + sql + ") AS s", tok: append([]string{"A", "s", "0"}, plan...), hdr: []col{{"s", "c0", false}, {"s", "c1", false}}}
		t1 := recRef("t1", false)
		j := nJoin(e, "LF"[g.Intn(2)], s, t1, 'o', nil, eqRef(nref("t1", "c0"), nref("s", "c0")))
		osql, otok, _ := nQuery(e, j, nil, false, []nitem{{e: nref("s", "c0"), out: "o1"}, {e: nref("s", "c1"), out: "o2"}, {e: nref("t1", "c1"), out: "o3"}})
		sql = outerDef + osql
		plan = append(append([]string{"W", name, "0"}, dtok...), otok...)
	}
	session := []string{"E"}
	addT := func(t *table) {
		if t == nil {
			session = append(session, "0")
			return
		}
		session = append(session, "1", name, strconv.Itoa(e.tblIdx(t)), strconv.Itoa(t.width()))
		session = append(session, t.colNames()...)
	}
	addT(temp)
	addT(file)

	pr.P.Tx.Flags.SetLimitRecursion(int64(limit))
	cpu := []int{1, 2, 4}[g.Intn(3)]
	pr.SetCPU(cpu)
	sessionText := fmt.Sprintf("name %s: file %s.csv=%v temporary table=%v CTE of the enclosing query=%v; --limit-recursion %d", name, name, hasFile, hasTemp, hasOuter, limit)
	tabs := []*table{te, ts}
	for _, t := range []*table{temp, file, od} {
		if t != nil {
			tabs = append(tabs, t)
		}
	}
	run := func(sql string) (res string, ok bool) {
		defer func() {
			if r := recover(); r != nil {
				o.Law("recursive_query_panics", map[string]interface{}{"sql": sql, "panic": fmt.Sprint(r), "session": sessionText, "tables": dumpTables(tabs)})
				res, ok = "", false
			}
		}()
		v, err := pr.Query(sql)
		if err != nil {
			if _, ok := err.(*query.RecursionExceededLimitError); ok {
				return "ERR", true
			}
			if t, ok := errTok2(err); ok {
				return t, true
			}
			o.Law("recursive_sql_error", map[string]interface{}{"sql": sql, "error": err.Error(), "session": sessionText, "tables": dumpTables(tabs)})
			return "", false
		}
		return canon(v), true
	}
	impl, ok := run(sql)
	if !ok {
		return
	}
	o.Case(fmt.Sprintf("c03.q %d %s %s #%s", cpu, e.header(), strings.Join(append(session, plan...), " "), hc.Hex(sql)), impl)
	outcome := strings.SplitN(impl, " ", 2)[0]
	rowsBand := outcome
	if !strings.HasPrefix(impl, "E") {
		outcome = "rows"
		rowsBand = "rows:" + band(strings.Count(impl, "|")+b2i(!strings.HasSuffix(impl, " -")))
	}
	o.Count("recnamed:cases")
	o.Count("recnamed:form=" + form)
	o.Count(fmt.Sprintf("recnamed:decoy=%d", decoy))
	o.Count("recnamed:anchor=" + anchorForm)
	o.Count("recnamed:outcome=" + outcome)
	var kinds []string
	for _, k := range []string{"all", "any", "exists", "in", "nested", "scalar", "scalar_item", "setop_derived", "setop_lateral", "setop_subquery", "subjoin"} {
		if usedKinds[k] {
			o.Count("recnamed:subquery=" + k)
			kinds = append(kinds, k)
		}
	}
	o.Count("recnamed:step=" + stepForm)
	o.Count("recnamed:body=" + bodyForm)
	o.NonTrivial(fmt.Sprintf("recnamed:%s:%s:%s:%d:%s:%s:%s:%s:%s", form, stepForm, strings.Join(kinds, "+"), decoy, anchorForm, setop, graph, bodyForm, rowsBand))

	// ---- the same generations by separate non-recursive queries (implementation alone) ----
	if distinct || g.Intn(2) == 0 {
		return
	}
	wholeSQL := withRecOnly + "SELECT * FROM " + name
	if hasOuter {
		wholeSQL = outerDef + "SELECT * FROM (" + wholeSQL + ") AS s"
	}
	whole, ok := run(wholeSQL)
	if !ok {
		return
	}
	nonRec := "" // the common table expressions a member needs when it runs alone
	if hasOuter {
		nonRec = strings.TrimSuffix(outerDef, " ")
	}
	wrap := func(q string, withOuter bool) string {
		var defs []string
		if withOuter && nonRec != "" {
			defs = append(defs, strings.TrimPrefix(nonRec, "WITH "))
		}
		if useEC {
			defs = append(defs, ecSQL)
		}
		if len(defs) == 0 {
			return q
		}
		return "WITH " + strings.Join(defs, ", ") + " " + q
	}
	want := ""
	av, err := pr.Query(wrap(anchorSQL, true))
	o.Eval()
	if err != nil {
		o.Law("recursive_sql_error", map[string]interface{}{"sql": wrap(anchorSQL, true), "error": err.Error(), "session": sessionText})
		return
	}
	all := viewRows(av)
	gen := primRows(av)
	iterSQL := ""
	for steps := 0; want == ""; steps++ {
		if steps >= limit {
			want = "ERR"
			break
		}
		epoch++
		gt := fmt.Sprintf("gq%d", epoch)
		iterSQL = strings.ReplaceAll(strings.ReplaceAll(stepAloneSQL, name+" AS ", gt+" AS "), strings.ToUpper(name)+" AS ", gt+" AS ")
		if err := declareRaw(pr, gt, []string{"c0", "c1"}, gen); err != nil {
			o.Law("recursive_sql_error", map[string]interface{}{"sql": "DECLARE " + gt, "error": err.Error()})
			return
		}
		nv, err := pr.Query(wrap(iterSQL, false))
		o.Eval()
		pr.DisposeTable(gt)
		if err != nil {
			if t, ok := errTok2(err); ok {
				want = t
				break
			}
			o.Law("recursive_sql_error", map[string]interface{}{"sql": wrap(iterSQL, false), "error": err.Error(), "session": sessionText})
			return
		}
		if nv.RecordLen() == 0 {
			break
		}
		all = append(all, viewRows(nv)...)
		gen = primRows(nv)
	}
	if want == "" {
		want = "2 " + canonRows(all)
	}
	o.Count("law_checks:recursive_named_eq_iterated")
	if whole != want {
		o.Law("recursive_named_eq_iterated", map[string]interface{}{"sql": wholeSQL,
			"step_over_a_temporary_table_holding_the_previous_generation": wrap(iterSQL, false), "session": sessionText,
			"recursive_outcome": short(whole), "iterated_outcome": short(want), "tables": dumpTables(tabs)})
	}
}

func b2i(b bool) int {
	if b {
		return 1
	}
	return 0
}

// scopeInheritWitness: the statement's time stamp reaches every derived scope (per-record sub-queries, derived
// tables, LATERAL sub-selects): NOW() is one value per statement
func scopeInheritWitness(pr *hc.Proc, o *hc.Out) {
	setup := "DECLARE sw VIEW (n); INSERT INTO sw VALUES (1), (2), (3);"
	if _, err := pr.Exec(setup); err != nil {
		o.Law("law_sql_error", err.Error())
		return
	}
	defer pr.DisposeTable("sw")
	sql := "SELECT a.n FROM sw AS a CROSS JOIN LATERAL (SELECT NOW() AS t FROM sw AS b WHERE b.n = a.n) AS l " +
		"WHERE NOW() = (SELECT NOW() FROM sw AS c WHERE c.n = a.n) AND l.t = NOW() AND NOW() IN (SELECT NOW() FROM (SELECT NOW() AS u FROM sw AS d) AS e)"
	got, _, ok := qrows(pr, o, sql)
	o.Count("law_checks:now_inherited_by_nested_scopes")
	if ok && len(got) != 3 {
		o.Law("now_inherited_by_nested_scopes", map[string]interface{}{"setup": setup, "sql": sql, "expected_rows": 3, "got_rows": len(got)})
	}
}

// parenLimitPanics: on this tree the recursion-limit error of `anchor UNION ALL (member)` - a parenthesised right-hand
// side - is a panic instead of the error (NewRecursionExceededLimitError hands a parser.Subquery to
// searchSelectClauseInSelectEntity, error.go).  Found by this generator, reported; measured at the start of every run
// so that the generator reaches the limit in that form as soon as the tree is repaired.
var parenLimitPanics bool

func parenLimitWitness(dir string, o *hc.Out) {
	pr := hc.NewProc(dir)
	defer pr.Close()
	pr.P.Tx.Flags.SetLimitRecursion(2)
	sql := "WITH RECURSIVE pw (n) AS (SELECT 1 UNION ALL (SELECT n FROM pw)) SELECT * FROM pw"
	func() {
		defer func() {
			if r := recover(); r != nil {
				parenLimitPanics = true
			}
		}()
		_, err := pr.Query(sql)
		o.Eval()
		if _, ok := err.(*query.RecursionExceededLimitError); !ok {
			o.Law("recursive_sql_error", map[string]interface{}{"sql": sql, "limit_recursion": 2, "error": fmt.Sprint(err), "expected": "iteration of recursive query exceeded the limit"})
		}
	}()
	if parenLimitPanics {
		// repaired in /repo (F104): a panic here is a regression
		o.Count("finding:limit_error_of_parenthesised_member_panics")
		o.Law("recursive_paren_limit_error_panics", map[string]interface{}{"sql": sql, "limit_recursion": 2, "expected": "iteration of recursive query exceeded the limit"})
	}
}
