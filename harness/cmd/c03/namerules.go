package main

// nameRuleCases: what a written reference denotes - the rules of header.go (FieldIndex / FieldNumberIndex / SearchIndex) and
// the scope walk of eval.go evalFieldReference, resolved by the Lean model itself (Model/Rel.lean, Model/RelNames.lean)
// from the NAMES in the plan:
//   numbers      column numbers `a1.2` in the select list, WHERE and JOIN ON; out of range; through a derived table
//                (renumbered by View.Fix) and after a USING join (the merged column has no number and no view)
//   case         qualifiers and column names in another letter case (`A1.K`), the alias of a derived table too
//   duplabel     a derived table with the same label twice: `s.p` / `p` are ambiguous, `s.1` / `s.2` / other labels are not
//   alias        AS names that shadow columns (`SELECT v AS k, k …`), AS names used by later items, one column selected
//                several times
//   scopes       sub-queries nested two levels deep with UNQUALIFIED references: the innermost query that has the name
//                answers; names only an enclosing query has; names nobody has
//   innerambig   the sub-query's own FROM knows the name twice: ambiguous, although the enclosing query knows it once

import (
	"fmt"
	"strconv"
	"strings"

	"github.com/mithrandie/csvq/lib/value"

	"verifharness/hc"
)

func numRef(view string, k int) expr { return expr{colnum: true, rview: view, cnum: k} }

func flipStr(g *hc.Gen, s string) string {
	switch g.Intn(3) {
	case 0:
		return strings.ToUpper(s)
	case 1:
		return strings.ToUpper(s[:1]) + s[1:]
	}
	return s
}

// ritem: a select item by name or by number with its output name, as SQL and as plan tokens
type ritem struct {
	e   expr
	out string
}

func ritems(items []ritem) (string, []string) {
	parts := make([]string, len(items))
	tok := []string{"L", strconv.Itoa(len(items))}
	for i, it := range items {
		parts[i] = sqlExpr(it.e, nil, nil)
		if it.e.colnum {
			tok = append(tok, "m", it.e.rview, strconv.Itoa(it.e.cnum))
		} else {
			v := it.e.rview
			if v == "" {
				v = "-"
			}
			tok = append(tok, "r", v, it.e.rname)
		}
		if it.out == "" {
			tok = append(tok, "-")
		} else {
			parts[i] += " AS " + it.out
			tok = append(tok, it.out)
		}
	}
	return strings.Join(parts, ", "), tok
}

// rquery: SELECT items FROM from [WHERE w] with `nsubs` numbered sub-queries (their plans in subTok)
func rquery(e *enc, from nsrc, w *cond, items []ritem, subs []subq) (string, []string) {
	isql, itok := ritems(items)
	sql := "SELECT " + isql + " FROM " + from.sql
	tok := []string{"Q"}
	if len(subs) > 0 {
		tok = []string{"QS", strconv.Itoa(len(subs))}
		for _, s := range subs {
			tok = append(tok, s.tok...)
		}
	}
	tok = append(tok, from.tok...)
	if w == nil {
		tok = append(tok, "-")
	} else {
		sql += " WHERE " + sqlCond(w, nil, nil)
		tok = append(append(tok, "W"), e.cond(w)...)
	}
	return sql, append(tok, itok...)
}

func nameRuleCases(g *hc.Gen, pr *hc.Proc, o *hc.Out, n int) {
	x := &ngen{g: g}
	rounds := n / 6
	if rounds < 60 {
		rounds = 60
	}
	var tabs []*table
	defer func() { disposeAll(pr, tabs) }()
	nm := func(view, name string) expr { return expr{named: true, rview: view, rname: name} }
	eq := func(a, b expr) *cond { return &cond{op: "cmp", cop: "=", e: []expr{a, b}} }
	for c := 0; c < rounds; c++ {
		if c%12 == 0 {
			disposeAll(pr, tabs)
			tabs, x.lits = smallTables(g, pr, o, "nr", 3, []int{0, 1, 2, 4, 7, 12})
			if tabs == nil {
				return
			}
		}
		e := newEnc()
		cpu := []int{1, 2, 4}[g.Intn(3)]
		ta, tb, tc := tabs[g.Intn(3)], tabs[g.Intn(3)], tabs[g.Intn(3)]
		a := nTable(e, ta, "a1")
		wa := ta.width()
		shape := []string{"numbers", "numjoin", "case", "duplabel", "alias", "scopes", "scopes", "innerambig"}[g.Intn(8)]
		var sql string
		var tok []string
		detail := ""
		anyNum := func(view string, w int) expr { return numRef(view, []int{1, 2, w, w + 1, 0, 1 + g.Intn(w)}[g.Intn(6)]) }
		switch shape {
		case "numbers":
			items := []ritem{{anyNum("a1", wa), "o1"}, {nm("a1", "id"), "o2"}}
			if g.Intn(2) == 0 {
				items = append(items, ritem{numRef("a1", 1+g.Intn(wa)), "o3"})
			}
			var w *cond
			switch g.Intn(3) {
			case 0:
				w = &cond{op: "cmp", cop: cops[g.Intn(len(cops))], e: []expr{numRef("a1", 1+g.Intn(wa)), {lit: x.lits[g.Intn(len(x.lits))]}}}
			case 1:
				w = eq(numRef("a1", 2), nm("a1", "k")) // the same column by number and by name
				if g.Intn(3) == 0 {
					w = eq(anyNum(flipStr(g, "a1"), wa), nm("", "v"))
				}
			}
			sql, tok = rquery(e, a, w, items, nil)
		case "numjoin":
			// a derived table (renumbered by Fix) joined by column numbers; sometimes a USING join whose merged column has no number
			b := nTable(e, tb, "b1")
			dsql, dtok, _ := nQuery(e, b, nil, false, []nitem{{e: nm("b1", "v"), out: "p"}, {e: nm("b1", "k"), out: "q"}, {e: nm("b1", "id"), out: "id"}})
			s := nsrc{sql: "(" + dsql + ") AS s", tok: append([]string{"A", "s", "0"}, dtok...), hdr: []col{{"s", "p", false}, {"s", "q", false}, {"s", "id", false}}}
			kind := "ILRF"[g.Intn(4)]
			var j nsrc
			if g.Intn(3) == 0 {
				j = nJoin(e, kind, a, s, 'u', []string{"id"}, nil)
				detail = "using"
			} else {
				j = nJoin(e, kind, a, s, 'o', nil, eq(numRef("s", 1+g.Intn(3)), numRef("a1", 1+g.Intn(wa))))
				detail = "on"
			}
			items := []ritem{{anyNum("s", 3), "o1"}, {anyNum("a1", wa), "o2"}}
			var w *cond
			if g.Intn(2) == 0 {
				w = &cond{op: "isnull", neg: g.Intn(2) == 0, e: []expr{numRef([]string{"s", "a1"}[g.Intn(2)], 1+g.Intn(3))}}
			}
			sql, tok = rquery(e, j, w, items, nil)
		case "case":
			b := nTable(e, tb, "b1")
			j := nJoin(e, "IL"[g.Intn(2)], a, b, 'o', nil, eq(nm(flipStr(g, "a1"), flipStr(g, "id")), nm(flipStr(g, "b1"), flipStr(g, "k"))))
			items := []ritem{{nm(flipStr(g, "a1"), flipStr(g, "k")), "o1"}, {nm(flipStr(g, "b1"), flipStr(g, "v")), "o2"}, {nm("", flipStr(g, []string{"k", "v", "id", "w"}[g.Intn(4)])), "o3"}}
			var w *cond
			if g.Intn(2) == 0 {
				w = &cond{op: "cmp", cop: cops[g.Intn(len(cops))], e: []expr{nm(flipStr(g, "b1"), flipStr(g, "k")), {lit: x.lits[g.Intn(len(x.lits))]}}}
			}
			sql, tok = rquery(e, j, w, items, nil)
		case "duplabel":
			b := nTable(e, tb, "b1")
			lab2 := []string{"p", "P", "q"}[g.Intn(3)]
			dsql, dtok, _ := nQuery(e, b, nil, false, []nitem{{e: nm("b1", "k"), out: "p"}, {e: nm("b1", "v"), out: lab2}, {e: nm("b1", "id"), out: "r"}})
			alias := "s"
			s := nsrc{sql: "(" + dsql + ") AS " + alias, tok: append([]string{"A", alias, "0"}, dtok...)}
			refs := []expr{nm("s", "p"), nm("", "p"), nm(flipStr(g, "s"), "P"), numRef("s", 1), numRef("s", 2), nm("s", "r"), nm("", "q"), numRef("S", 3)}
			items := []ritem{{refs[g.Intn(len(refs))], "o1"}, {nm("s", "r"), "o2"}}
			var w *cond
			if g.Intn(3) == 0 {
				w = &cond{op: "isnull", neg: true, e: []expr{refs[g.Intn(len(refs))]}}
			}
			detail = lab2
			sql, tok = rquery(e, s, w, items, nil)
		case "alias":
			var items []ritem
			switch g.Intn(5) {
			case 0: // the alias of an earlier item makes a later unqualified name ambiguous
				items = []ritem{{nm("a1", "v"), "k"}, {nm("", "k"), "o2"}}
				detail = "shadow"
			case 1: // an alias as a name for later items
				items = []ritem{{nm("a1", "k"), "x"}, {nm("", "x"), "o2"}, {nm("a1", "k"), "o3"}}
				detail = "use"
			case 2: // one column several times, the alias equal to its own name
				items = []ritem{{nm("a1", "k"), "k"}, {nm("", "k"), "o2"}, {nm("", "K"), "o3"}, {numRef("a1", 2), "o4"}}
				detail = "same"
			case 3: // the same alias for two columns, then used
				items = []ritem{{nm("a1", "k"), "x"}, {nm("a1", "v"), "x"}, {nm("", "x"), "o3"}}
				detail = "twice"
			default: // the alias is qualified away: a1.k is not the alias k of v
				items = []ritem{{nm("a1", "v"), "k"}, {nm("a1", "k"), "o2"}, {nm("", "id"), "o3"}}
				detail = "qualified"
			}
			sql, tok = rquery(e, a, nil, items, nil)
		case "scopes", "innerambig":
			// level 2: (SELECT c1.id FROM tc AS c1 WHERE c1.k = <unqualified>)  - scopes [c1, b1…, a1]
			names := []string{"k", "v", "w", "id", "zz", "v", "w"}
			c1 := nTable(e, tc, "c1")
			u2 := nm("", flipStr(g, names[g.Intn(len(names))]))
			w2 := eq(nm("c1", "k"), u2)
			if g.Intn(3) == 0 {
				w2 = &cond{op: "and", a: w2, b: eq(nm("c1", "id"), nm("a1", "id"))}
			}
			s2sql, s2tok, _ := nQuery(e, c1, w2, false, []nitem{{e: nm("c1", "id"), out: "c1"}})
			// level 1: FROM tb AS b1 [JOIN tc AS d1 ON b1.id = d1.id]
			b := nTable(e, tb, "b1")
			from1 := b
			if shape == "innerambig" {
				d := nTable(e, tc, "d1")
				from1 = nJoin(e, 'I', b, d, 'o', nil, eq(nm("b1", "id"), nm("d1", "id")))
			}
			u1 := nm("", names[g.Intn(len(names))])
			w1 := eq(nm("b1", "k"), u1)
			var subs1 []subq
			if g.Intn(2) == 0 {
				ex := &cond{op: "exists", subSQL: s2sql, sub: 0}
				if g.Intn(3) == 0 {
					ex = &cond{op: "insub", e: []expr{nm("", "id")}, subSQL: s2sql, sub: 0}
				}
				w1 = &cond{op: "and", a: w1, b: ex}
				subs1 = []subq{{s2sql, s2tok}}
			}
			s1sql, s1tok := rquery(e, from1, w1, []ritem{{nm("b1", "v"), "c1"}}, subs1)
			// level 0
			var w0 *cond
			items := []ritem{{nm("a1", "id"), "o1"}, {nm("", "k"), "o2"}}
			itemSQLExtra := ""
			switch g.Intn(4) {
			case 0:
				w0 = &cond{op: "exists", subSQL: s1sql, sub: 0}
			case 1:
				w0 = &cond{op: "insub", neg: g.Intn(2) == 0, e: []expr{nm("", "v")}, subSQL: s1sql, sub: 0}
			case 2:
				w0 = &cond{op: "not", a: &cond{op: "exists", subSQL: s1sql, sub: 0}}
			default:
				w0 = &cond{op: "anysub", cop: "=", e: []expr{nm("a1", "k")}, subSQL: s1sql, sub: 0}
			}
			_ = itemSQLExtra
			detail = u1.rname + "/" + strings.ToLower(u2.rname) + fmt.Sprint(len(subs1))
			sql, tok = rquery(e, a, w0, items, []subq{{s1sql, s1tok}})
		}
		impl, v := runCase(pr, o, e, cpu, sql, tok, tabs)
		if impl == "" {
			continue
		}
		o.Count("namerule:" + shape)
		o.Count("namerule:outcome=" + strings.SplitN(outcomeOf(impl, v), ":", 2)[0])
		o.NonTrivial(fmt.Sprintf("namerule:%s:%s:%s", shape, detail, outcomeOf(impl, v)))
	}
	_ = value.NewNull
}
