package main

// LATERAL joins with the join AS WRITTEN, and sub-queries with an aggregate select list, compared with the Lean
// model (Model/Lateral.lean: latRun over worker chunks / latJoinOne per left record / aggQuery):
//
//   lateralDeepCases   plans `JLX jt dir …`: CROSS JOIN LATERAL, `, LATERAL`, [INNER] JOIN LATERAL … ON,
//                      LEFT [OUTER] JOIN LATERAL … ON, RIGHT / FULL [OUTER] JOIN LATERAL (refused), USING / NATURAL forms;
//                      left tables of 0 … 330 records at --cpu 1-8 (>= 160 records: several workers evaluate the
//                      sub-select), key columns drawn so that the sub-select is EMPTY for chosen left records - the first
//                      one, or only later ones -, sub-selects correlated on a key / freely / not at all / with an
//                      aggregate select list (always one record).  Laws on the implementation alone:
//                      lateral_left_outer_spelling (LEFT JOIN = LEFT OUTER JOIN), lateral_comma_eq_cross.
//   aggSubqueryCases   EXISTS / NOT EXISTS, IN / NOT IN, scalar, ANY / ALL over sub-queries `SELECT COUNT(*) | COUNT(c) |
//                      MAX(c) | MIN(c) FROM t WHERE <correlated>` in WHERE and as a select item: one record also over no
//                      source record.  Law exists_aggregate_always_true.

import (
	"fmt"
	"strconv"
	"strings"

	"github.com/mithrandie/csvq/lib/query"
	"github.com/mithrandie/csvq/lib/value"
	"github.com/mithrandie/ternary"

	"verifharness/hc"
)

func errTok3(err error) (string, bool) {
	if _, ok := err.(*query.IncorrectLateralUsageError); ok {
		return "ELAT", true
	}
	return errTok2(err)
}

// values that find a partner / never find one under `=` (whatever the types: 1 = '1' = 1.0, 'a' = 'A')
var latMatched = []value.Primary{
	value.NewInteger(1), value.NewInteger(2), value.NewString("2"), value.NewFloat(1), value.NewString("a"),
	value.NewString("A"), value.NewString("abc"), value.NewInteger(3),
}
var latUnmatched = []value.Primary{
	value.NewInteger(-1), value.NewInteger(0), value.NewString("x"), value.NewNull(), value.NewInteger(7),
}

func pick(g *hc.Gen, l []value.Primary) value.Primary { return l[g.Intn(len(l))] }

// latTables: a left table whose key column k decides whether the sub-select over the right table is empty
func latTables(g *hc.Gen, pr *hc.Proc, o *hc.Out, nl, nr int, firstEmpty bool, pEmpty int) (*table, *table, bool) {
	epoch++
	ta := &table{name: fmt.Sprintf("lx%d_a", epoch), cols: []string{"k", "v"}}
	tb := &table{name: fmt.Sprintf("lx%d_b", epoch), cols: []string{"k", "v"}}
	if g.Intn(2) == 0 {
		tb.cols = append(tb.cols, "w")
	}
	both := append(append([]value.Primary{}, latMatched...), latUnmatched...)
	for r := 0; r < nr; r++ {
		row := make([]value.Primary, len(tb.cols))
		row[0] = pick(g, latMatched[:5])
		for j := 1; j < len(row); j++ {
			row[j] = pick(g, both)
		}
		tb.rows = append(tb.rows, row)
	}
	laterEmpty := false
	for r := 0; r < nl; r++ {
		empty := g.Intn(100) < pEmpty
		if r == 0 {
			empty = firstEmpty
		} else if empty {
			laterEmpty = true
		}
		k := pick(g, latMatched)
		if empty {
			k = pick(g, latUnmatched)
		}
		ta.rows = append(ta.rows, []value.Primary{k, pick(g, both)})
	}
	for _, t := range []*table{ta, tb} {
		if err := pr.DeclareTable(t.name, t.cols, t.rows); err != nil {
			o.Law("declare_table_error", err.Error())
			return nil, nil, false
		}
	}
	return ta, tb, laterEmpty
}

// corrWhere: the WHERE of a sub-select over `from` (alias), correlated with the record of the enclosing query
func (x *ngen) corrWhere(from nsrc, alias string, outer []col, corr string) *cond {
	g := x.g
	all := append(append([]col{}, from.hdr...), outer...)
	switch corr {
	case "key":
		w := &cond{op: "cmp", cop: "=", e: []expr{{named: true, rview: alias, rname: "k"}, {named: true, rview: outer[0].view, rname: "k"}}}
		if g.Intn(4) == 0 {
			return &cond{op: "and", a: w, b: x.cond(0, all)}
		}
		return w
	case "free":
		return x.cond(1, all)
	case "none":
		if g.Intn(2) == 0 {
			return x.cond(0, from.hdr)
		}
	}
	return nil
}

var aggFns = []struct{ tok, sql string }{{"CNT", "COUNT"}, {"CNT", "COUNT"}, {"MAX", "MAX"}, {"MIN", "MIN"}}

// aggSubSelect: SELECT FN(arg) AS out FROM t AS alias WHERE …   (plan node QA: always exactly one record)
func (x *ngen) aggSubSelect(e *enc, t *table, alias string, outer []col, corr string, out string) (subq, string) {
	g := x.g
	from := nTable(e, t, alias)
	w := x.corrWhere(from, alias, outer, corr)
	f := aggFns[g.Intn(len(aggFns))]
	argSQL, argTok := "*", []string{"*"}
	if f.tok != "CNT" || g.Intn(2) == 0 {
		c := []string{"k", "v", "id"}[g.Intn(3)]
		argSQL, argTok = alias+"."+c, []string{"r", alias, c}
	}
	sql := "SELECT " + f.sql + "(" + argSQL + ") AS " + out + " FROM " + from.sql
	tok := append(append([]string{"QA", f.tok}, argTok...), out)
	tok = append(tok, from.tok...)
	if w == nil {
		tok = append(tok, "-")
	} else {
		sql += " WHERE " + sqlCond(w, from.hdr, nil)
		tok = append(append(tok, "W"), e.cond(w)...)
	}
	return subq{sql, tok}, f.tok
}

type latSpelling struct {
	name    string
	jt, dir string
	kw      string // between the left table and LATERAL
	on      bool
}

var latSpellings = []latSpelling{
	{"cross", "C", "N", " CROSS JOIN", false},
	{"comma", "C", "N", ",", false},
	{"join", "N", "N", " JOIN", true},
	{"inner", "I", "N", " INNER JOIN", true},
	{"left", "N", "L", " LEFT JOIN", true},
	{"left_outer", "O", "L", " LEFT OUTER JOIN", true},
	{"left", "N", "L", " LEFT JOIN", true},
	{"left_outer", "O", "L", " LEFT OUTER JOIN", true},
	{"right", "N", "R", " RIGHT JOIN", true},
	{"full_outer", "O", "F", " FULL OUTER JOIN", true},
}

func lateralDeepCases(g *hc.Gen, pr *hc.Proc, o *hc.Out, n int) {
	x := &ngen{g: g}
	x.lits = append(append([]value.Primary{}, latMatched...), latUnmatched...)
	rounds := n / 12
	if rounds < 40 {
		rounds = 40
	}
	for c := 0; c < rounds; c++ {
		nl := []int{0, 1, 3, 7, 40, 161, 170, 200, 240, 330}[g.Intn(10)]
		if c%4 == 1 {
			nl = 160 + g.Intn(180)
		}
		nr := []int{0, 1, 2, 5, 9, 12}[g.Intn(6)]
		firstEmpty := g.Intn(2) == 0
		ta, tb, laterEmpty := latTables(g, pr, o, nl, nr, firstEmpty, []int{0, 10, 40, 90}[g.Intn(4)])
		if ta == nil {
			return
		}
		tabs := []*table{ta, tb}
		cpu := []int{1, 2, 3, 4, 8, 8}[g.Intn(6)]
		e := newEnc()
		l := nTable(e, ta, "a1")
		sp := latSpellings[g.Intn(len(latSpellings))]

		// the sub-select
		subForm := []string{"key", "key", "key", "free", "none", "agg", "agg", "failing"}[g.Intn(8)]
		var s subq
		shdr := []col{{"s", "c1", false}}
		merge := "" // "using" / "natural": the sub-select names its key column k
		if subForm == "agg" {
			s, _ = x.aggSubSelect(e, tb, "b1", l.hdr, []string{"key", "key", "free", "none"}[g.Intn(4)], "c1")
		} else if subForm == "failing" {
			// the sub-select FAILS for the left records whose key has two or more partners (a scalar sub-query with too
			// many records), for the others it does not: whatever worker meets a failing record first, the join fails
			inner := nTable(e, tb, "c1")
			iw := &cond{op: "cmp", cop: "=", e: []expr{{named: true, rview: "c1", rname: "k"}, {named: true, rview: "a1", rname: "k"}}}
			isql, itok, _ := nQuery(e, inner, iw, false, []nitem{{e: expr{named: true, rview: "c1", rname: "v"}, out: "c1"}})
			from := nTable(e, tb, "b1")
			w := &cond{op: "cmp", cop: "=", e: []expr{{named: true, rview: "b1", rname: "v"}, {scalar: true, subSQL: isql, sub: 0}}}
			sql, tok, _ := nQuery(e, from, w, false, []nitem{{e: expr{named: true, rview: "b1", rname: "k"}, out: "c1"}})
			s = subq{sql, append(append([]string{"QS", "1"}, itok...), tok[1:]...)}
		} else {
			ncols := 1 + g.Intn(2)
			if sp.on && sp.dir != "R" && sp.dir != "F" && g.Intn(6) == 0 {
				merge = []string{"using", "natural"}[g.Intn(2)]
			}
			from := nTable(e, tb, "b1")
			w := x.corrWhere(from, "b1", l.hdr, subForm)
			first := "c1"
			if merge != "" {
				first = "k"
				shdr = []col{{"s", "k", false}}
			}
			items := []nitem{{e: expr{named: true, rview: "b1", rname: "k"}, out: first}}
			if ncols == 2 {
				items = append(items, nitem{e: expr{named: true, rview: "b1", rname: []string{"v", "id"}[g.Intn(2)]}, out: "c2"})
				shdr = append(shdr, col{"s", "c2", false})
			}
			sql, tok, _ := nQuery(e, from, w, false, items)
			s = subq{sql, tok}
		}

		tok := []string{"JLX", sp.jt, sp.dir}
		tok = append(tok, l.tok...)
		tok = append(append(tok, "A", "s", "0"), s.tok...)
		sql := l.sql + sp.kw + " LATERAL (" + s.sql + ") AS s"
		onKind := "-"
		switch {
		case merge == "using":
			sql += " USING (k)"
			tok = append(tok, "UN", "1", "k")
			onKind = "using"
		case merge == "natural":
			sql = l.sql + " NATURAL" + sp.kw + " LATERAL (" + s.sql + ") AS s"
			tok = append(tok, "NA")
			onKind = "natural"
		case sp.on:
			var on *cond
			if g.Intn(2) == 0 {
				on = &cond{op: "truth", e: []expr{{lit: value.NewTernary(ternary.TRUE)}}}
				onKind = "true"
			} else {
				on = x.cond(0, append(append([]col{}, l.hdr...), shdr...))
				onKind = "cond"
			}
			sql += " ON " + sqlCond(on, nil, nil)
			tok = append(append(tok, "O"), e.cond(on)...)
		default:
			tok = append(tok, "-")
		}
		from := nsrc{sql: sql, tok: tok, hdr: append(append([]col{}, l.hdr...), shdr...), isJoin: true}
		var w *cond
		star := merge != "" || g.Intn(2) == 0
		if merge == "" && g.Intn(4) == 0 {
			w = x.cond(0, from.hdr)
		}
		var items []nitem
		if !star {
			items = x.items(from.hdr, "o")
		}
		qsql, qtok, _ := nQuery(e, from, w, star, items)
		pr.SetCPU(cpu)
		v, err := pr.Query(qsql)
		impl := ""
		if err != nil {
			t, ok := errTok3(err)
			if !ok {
				o.Law("select_sql_error", map[string]interface{}{"sql": qsql, "error": err.Error(), "tables": dumpTables(tabs)})
				disposeAll(pr, tabs)
				continue
			}
			impl = t
		} else {
			impl = canon(v)
		}
		o.Case(fmt.Sprintf("c03.q %d %s %s #%s", cpu, e.header(), strings.Join(qtok, " "), hc.Hex(qsql)), impl)
		par := cpu > 1 && nl >= 160
		o.Count("lateralx:spelling=" + sp.name)
		o.Count("lateralx:sub=" + subForm)
		o.Count("lateralx:on=" + onKind)
		if par {
			o.Count("lateralx:several_workers")
		}
		if laterEmpty && !firstEmpty {
			o.Count("lateralx:empty_only_after_first")
		}
		if nl == 0 {
			o.Count("lateralx:empty_left")
		}
		o.NonTrivial(fmt.Sprintf("lateralx:%s:%s:%s:left=%s:first_empty=%v:later_empty=%v:par=%v:%s", sp.name, subForm, onKind,
			band(nl), firstEmpty, laterEmpty, par, outcomeOf(impl, v)))

		// ---- the spellings, on the implementation alone ----
		if c%3 == 0 && subForm != "agg" && subForm != "failing" {
			body := " LATERAL (" + s.sql + ") AS s"
			r1, _, ok1 := qrows(pr, o, "SELECT * FROM "+l.sql+" LEFT JOIN"+body+" ON TRUE")
			r2, _, ok2 := qrows(pr, o, "SELECT * FROM "+l.sql+" LEFT OUTER JOIN"+body+" ON TRUE")
			if ok1 && ok2 {
				o.Count("law_checks:lateral_left_outer_spelling")
				if canonRows(r1) != canonRows(r2) {
					o.Law("lateral_left_outer_spelling", map[string]interface{}{"sub": s.sql, "cpu": cpu, "tables": dumpTables(tabs)})
				}
			}
			r3, _, ok3 := qrows(pr, o, "SELECT * FROM "+l.sql+" CROSS JOIN"+body)
			r4, _, ok4 := qrows(pr, o, "SELECT * FROM "+l.sql+","+body)
			if ok3 && ok4 {
				o.Count("law_checks:lateral_comma_eq_cross")
				if canonRows(r3) != canonRows(r4) {
					o.Law("lateral_comma_eq_cross", map[string]interface{}{"sub": s.sql, "cpu": cpu, "tables": dumpTables(tabs)})
				}
			}
		}
		disposeAll(pr, tabs)
	}
}

// ---------- sub-queries with an aggregate select list ----------

func aggSubqueryCases(g *hc.Gen, pr *hc.Proc, o *hc.Out, n int) {
	x := &ngen{g: g}
	x.lits = append(append([]value.Primary{}, latMatched...), latUnmatched...)
	rounds := n / 10
	if rounds < 40 {
		rounds = 40
	}
	var ta, tb *table
	for c := 0; c < rounds; c++ {
		if c%8 == 0 {
			if ta != nil {
				disposeAll(pr, []*table{ta, tb})
			}
			nl := []int{1, 2, 5, 12, 30, 170}[g.Intn(6)]
			nr := []int{0, 1, 3, 6, 12}[g.Intn(5)]
			ta, tb, _ = latTables(g, pr, o, nl, nr, g.Intn(2) == 0, []int{10, 40, 90}[g.Intn(3)])
			if ta == nil {
				return
			}
		}
		tabs := []*table{ta, tb}
		e := newEnc()
		cpu := []int{1, 2, 4}[g.Intn(3)]
		outer := nTable(e, ta, "a1")
		corr := []string{"key", "key", "key", "free", "none"}[g.Intn(5)]
		s, fn := x.aggSubSelect(e, tb, "b1", outer.hdr, corr, "c1")
		lhs := expr{named: true, rview: "a1", rname: []string{"k", "v", "id"}[g.Intn(3)]}
		if g.Intn(5) == 0 {
			lhs = expr{lit: x.lits[g.Intn(len(x.lits))]}
		}
		var where *cond
		form := []string{"exists", "not_exists", "in", "not_in", "scalar", "any", "all", "item"}[g.Intn(8)]
		switch form {
		case "exists":
			where = &cond{op: "exists", subSQL: s.sql}
		case "not_exists":
			where = &cond{op: "not", a: &cond{op: "exists", subSQL: s.sql}}
		case "in":
			where = &cond{op: "insub", e: []expr{lhs}, subSQL: s.sql}
		case "not_in":
			where = &cond{op: "insub", neg: true, e: []expr{lhs}, subSQL: s.sql}
		case "scalar":
			where = &cond{op: "cmp", cop: cops[g.Intn(len(cops))], e: []expr{lhs, {scalar: true, subSQL: s.sql}}}
		case "any":
			where = &cond{op: "anysub", cop: cops[g.Intn(len(cops)-1)], e: []expr{lhs}, subSQL: s.sql}
		case "all":
			where = &cond{op: "allsub", cop: cops[g.Intn(len(cops)-1)], e: []expr{lhs}, subSQL: s.sql}
		}
		if where != nil && g.Intn(4) == 0 {
			where = &cond{op: "and", a: x.cond(0, outer.hdr), b: where}
		}
		itemSQL := []string{"a1.id AS o1", "a1.k AS o2"}
		itemTok := []string{"r", "a1", "id", "o1", "r", "a1", "k", "o2"}
		nitems := 2
		if form == "item" || g.Intn(4) == 0 {
			// the aggregate sub-query (sub-query 0 of this query, the same one) as a select item
			itemSQL = append(itemSQL, "("+s.sql+") AS o3")
			itemTok = append(itemTok, "s", "0", "o3")
			nitems++
		}
		sql := "SELECT " + strings.Join(itemSQL, ", ") + " FROM " + outer.sql
		tok := append([]string{"QS", "1"}, s.tok...)
		tok = append(tok, outer.tok...)
		if where != nil {
			sql += " WHERE " + sqlCond(where, outer.hdr, nil)
			tok = append(append(tok, "W"), e.cond(where)...)
		} else {
			tok = append(tok, "-")
		}
		tok = append(append(tok, "L", strconv.Itoa(nitems)), itemTok...)
		impl, v := runCase(pr, o, e, cpu, sql, tok, tabs)
		if impl == "" {
			continue
		}
		o.Count("aggsub:" + form)
		o.Count("aggsub:fn=" + fn)
		o.NonTrivial(fmt.Sprintf("aggsub:%s:%s:%s:src=%s:%s", form, fn, corr, band(len(tb.rows)), outcomeOf(impl, v)))

		// EXISTS over an aggregate sub-query holds for every record of the outer table (one record, always)
		if c%2 == 0 {
			r1, _, ok1 := qrows(pr, o, "SELECT a1.id FROM "+outer.sql+" WHERE EXISTS ("+s.sql+")")
			r2, _, ok2 := qrows(pr, o, "SELECT a1.id FROM "+outer.sql)
			r3, _, ok3 := qrows(pr, o, "SELECT a1.id FROM "+outer.sql+" WHERE NOT EXISTS ("+s.sql+")")
			if ok1 && ok2 && ok3 {
				o.Count("law_checks:exists_aggregate_always_true")
				if canonRows(r1) != canonRows(r2) || len(r3) != 0 {
					o.Law("exists_aggregate_always_true", map[string]interface{}{"subquery": s.sql, "tables": dumpTables(tabs)})
				}
			}
		}
	}
	if ta != nil {
		disposeAll(pr, []*table{ta, tb})
	}
}
