package main

// c03.resolve: Header.SearchIndex (FieldIndex / FieldNumberIndex) and Header.ContainsObject called DIRECTLY on
// described headers (views and columns in several letter cases and with surrounding blanks, aliases, flagged join
// columns in any position, column numbers, computed columns with their formatted expression) and compared with the
// model's fieldIndex / fieldNumberIndex / containsIdent.
//
// outerOnTernaryCases: LEFT / RIGHT / FULL joins whose ON condition is UNKNOWN for some pairs and FALSE for others
// (NULL keys, values of different kinds, NOT, IN with NULL): NULL padding iff no pair is TRUE; law
// outer_join_pads_iff_no_true_match: the padded left records are those for which NOT EXISTS (partner with the condition).

import (
	"fmt"
	"strconv"
	"strings"

	"github.com/mithrandie/csvq/lib/parser"
	"github.com/mithrandie/csvq/lib/query"
	"github.com/mithrandie/csvq/lib/value"

	"verifharness/hc"
)

func hx(s string) string {
	if s == "" {
		return "-"
	}
	return hc.Hex(s)
}

func parseExpr(text string) (parser.QueryExpression, bool) {
	stmts, _, err := parser.Parse("SELECT "+text, "", false, false)
	if err != nil || len(stmts) != 1 {
		return nil, false
	}
	sq, ok := stmts[0].(parser.SelectQuery)
	if !ok {
		return nil, false
	}
	se, ok := sq.SelectEntity.(parser.SelectEntity)
	if !ok {
		return nil, false
	}
	fields := se.SelectClause.(parser.SelectClause).Fields
	if len(fields) != 1 {
		return nil, false
	}
	return fields[0].(parser.Field).Object, true
}

var exprTexts = []string{"k || 'x'", "K || 'x'", "k || 'X'", "upper(k)", "UPPER(K)", "UPPER(k)", "coalesce(k, 'a`b')", "COALESCE(k, 'A`b')",
	"k + 1", "K + 1", "k + 2", "'it\\'s' || k", "'IT\\'s' || k", "'it\\'s' || K", "`Col` || 'x'", "`col` || 'x'", "1", "'q'", "'Q'", "k = 'ab'", "K = 'AB'"}

func resolveDirectCases(g *hc.Gen, o *hc.Out, n int) {
	views := []string{"a", "A", "b", "t1", "", "a"}
	names := []string{"id", "ID", "k", "K", " k", "k ", "v", "w", "Id"}
	// names that differ by case in non-ASCII letters, incl. the fold orbits where strings.EqualFold (these look-ups)
	// and strings.ToUpper (value equality) part ways: Kelvin sign / k / K, long s / s / S, sharp s / capital sharp s,
	// dotless i / i / I / dotted capital I, A with ring / Angstrom sign, the digraphs, Omega / ohm sign, sigma's three forms
	asciiViews, asciiNames := views, names
	uniViews := []string{"\u00c9t\u00e9", "\u00e9T\u00c9", "\u212a", "k", "\u017f", "S", "a", ""}
	uniNames := []string{"\u212a", "k", "K", "\u017f", "S", "s", "\u00df", "\u1e9e", "\u0131", "i", "I", "\u0130", "\u00c5", "\u00e5", "\u212b",
		"\u00e9", "\u00c9", "\u01c6", "\u01c5", "\u01c4", "\u03a9", "\u03c9", "\u2126", "\u044f", "\u042f", "\u03c3", "\u03c2", "\u03a3",
		" \u00df", "\u0131 ", "stra\u00dfe", "STRA\u1e9eE", "\u10d0", "\u1c90", "\U00010428", "\U00010400"}
	for c := 0; c < n; c++ {
		views, names = asciiViews, asciiNames
		if c%3 == 2 {
			views, names = uniViews, uniNames
			o.Count("resolve:non-ascii-names")
		}
		nf := 1 + g.Intn(6)
		h := make(query.Header, nf)
		desc := []string{strconv.Itoa(nf)}
		var used []int
		for i := range h {
			f := query.HeaderField{View: views[g.Intn(len(views))], Column: names[g.Intn(len(names))], Number: g.Intn(4), IsFromTable: g.Intn(3) != 0}
			if g.Intn(5) == 0 {
				f.IsJoinColumn = true
				if g.Intn(2) == 0 {
					f.View = ""
				}
			}
			for a, na := 0, g.Intn(3)/2; a < na; a++ {
				f.Aliases = append(f.Aliases, names[g.Intn(len(names))])
			}
			if !f.IsFromTable && g.Intn(4) != 0 {
				k := g.Intn(len(exprTexts))
				if ex, ok := parseExpr(exprTexts[k]); ok {
					f.Identifier = query.FormatFieldIdentifier(ex)
					used = append(used, k)
				}
			}
			h[i] = f
			desc = append(desc, hx(f.View), hx(f.Column), b01(f.IsJoinColumn), strconv.Itoa(len(f.Aliases)))
			for _, a := range f.Aliases {
				desc = append(desc, hx(a))
			}
			desc = append(desc, strconv.Itoa(f.Number), b01(f.IsFromTable), hx(f.Identifier))
		}
		show := func(idx int, err error) string {
			if err == nil {
				return "I" + strconv.Itoa(idx)
			}
			switch err.Error() {
			case "field ambiguous":
				return "EAMB"
			case "field not exists":
				return "ENOF"
			}
			return "error: " + err.Error()
		}
		switch g.Intn(5) {
		case 0, 1, 2:
			view := views[g.Intn(len(views))]
			if g.Intn(2) == 0 {
				view = ""
			}
			name := names[g.Intn(len(names))]
			ref := parser.FieldReference{View: parser.Identifier{Literal: view}, Column: parser.Identifier{Literal: name}}
			idx, err := h.SearchIndex(ref)
			res := show(idx, err)
			o.Case("c03.resolve "+strings.Join(desc, " ")+" N "+hx(view)+" "+hx(name), res)
			o.NonTrivial(fmt.Sprintf("resolve:name:%d:q=%v:%s", nf, view != "", strings.TrimLeft(res, "I0123456789")))
			o.Count("resolve:name:" + strings.TrimRight(res[:1]+res[1:], "0123456789"))
		case 3:
			view := views[g.Intn(len(views))]
			num := int64(g.Intn(6) - 1)
			if g.Intn(5) < 3 { // mostly a field that is there (perhaps in another letter case)
				f := h[g.Intn(nf)]
				view, num = f.View, int64(f.Number)
				if g.Intn(3) == 0 {
					view = strings.ToUpper(view)
				}
			}
			ref := parser.ColumnNumber{View: parser.Identifier{Literal: view}, Number: value.NewInteger(num)}
			idx, err := h.SearchIndex(ref)
			res := show(idx, err)
			o.Case("c03.resolve "+strings.Join(desc, " ")+" C "+hx(view)+" "+strconv.FormatInt(num, 10), res)
			o.NonTrivial(fmt.Sprintf("resolve:number:%d:%d:%s", nf, num, res[:1]))
			o.Count("resolve:number:" + res[:1])
		default:
			text := exprTexts[g.Intn(len(exprTexts))]
			if g.Intn(5) < 3 && len(used) > 0 { // mostly an expression of the header, or its neighbour in the list (another letter case)
				k := used[g.Intn(len(used))]
				if g.Intn(2) == 0 {
					k = (k + 1) % len(exprTexts)
				}
				text = exprTexts[k]
			}
			ex, ok := parseExpr(text)
			if !ok {
				continue
			}
			column := query.FormatFieldIdentifier(ex)
			idx, found := h.ContainsObject(ex)
			res := "NONE"
			if found {
				res = "I" + strconv.Itoa(idx)
			}
			o.Case("c03.resolve "+strings.Join(desc, " ")+" X "+hx(column), res)
			o.NonTrivial(fmt.Sprintf("resolve:expr:%d:%s:%s", nf, column, res[:1]))
			o.Count("resolve:expr:" + res[:1])
		}
	}
}

func outerOnTernaryCases(g *hc.Gen, pr *hc.Proc, o *hc.Out, n int) {
	x := &ngen{g: g}
	rounds := n / 8
	if rounds < 18 {
		rounds = 18
	}
	var tabs []*table
	defer func() { disposeAll(pr, tabs) }()
	for c := 0; c < rounds; c++ {
		if c%9 == 0 {
			disposeAll(pr, tabs)
			tabs = nil
			// NULL-heavy keys of mixed kinds: comparisons are UNKNOWN (NULL, incomparable) as often as FALSE
			vals := []value.Primary{value.NewNull(), value.NewNull(), value.NewInteger(1), value.NewInteger(2), value.NewString("1"), value.NewString("a"),
				value.NewString("A"), value.NewFloat(2), value.NewBoolean(true), value.NewTernary(0), value.NewString("2012-02-03")}
			x.lits = append(append([]value.Primary{}, vals...), value.NewInteger(0))
			for i := 0; i < 2; i++ {
				epoch++
				t := &table{name: fmt.Sprintf("ot%d_%d", epoch, i+1), cols: []string{"k", "v"}}
				nr := []int{0, 1, 3, 6, 12, 40, 170}[g.Intn(7)]
				for r := 0; r < nr; r++ {
					t.rows = append(t.rows, []value.Primary{vals[g.Intn(len(vals))], vals[g.Intn(len(vals))]})
				}
				if err := pr.DeclareTable(t.name, t.cols, t.rows); err != nil {
					o.Law("declare_table_error", err.Error())
					return
				}
				tabs = append(tabs, t)
			}
		}
		e := newEnc()
		ta, tb := tabs[g.Intn(2)], tabs[g.Intn(2)]
		a, b := nTable(e, ta, "a1"), nTable(e, tb, "a2")
		both := joinLayout(a.hdr, b.hdr)
		var on *cond
		switch g.Intn(4) {
		case 0:
			on = &cond{op: "cmp", cop: cops[g.Intn(len(cops))], e: []expr{{named: true, rview: "a1", rname: "k"}, {named: true, rview: "a2", rname: []string{"k", "v"}[g.Intn(2)]}}}
		case 1:
			on = &cond{op: "not", a: &cond{op: "cmp", cop: "=", e: []expr{{named: true, rview: "a1", rname: "k"}, {named: true, rview: "a2", rname: "k"}}}}
		default:
			on = x.cond(2, both)
		}
		kind := "LRF"[g.Intn(3)]
		j := nJoin(e, kind, a, b, 'o', nil, on)
		sql, tok, _ := nQuery(e, j, nil, true, nil)
		cpu := []int{1, 2, 4, 8}[g.Intn(4)]
		impl, v := runCase(pr, o, e, cpu, sql, tok, tabs)
		if impl == "" {
			continue
		}
		o.Count(fmt.Sprintf("outer_on:%c", kind))
		o.NonTrivial(fmt.Sprintf("outer_on:%c:%s:%s:%v", kind, condShape(on), outcomeOf(impl, v), cpu > 1))
		if v == nil {
			continue
		}
		// the padded left records of the LEFT join = the records without a partner that makes the condition TRUE
		onSQL := sqlCond(on, nil, nil)
		lj, _, ok1 := qrows(pr, o, "SELECT a1.id FROM "+a.sql+" LEFT JOIN "+b.sql+" ON "+onSQL+" WHERE a2.id IS NULL")
		ne, _, ok2 := qrows(pr, o, "SELECT a1.id FROM "+a.sql+" WHERE NOT EXISTS (SELECT 1 FROM "+b.sql+" WHERE "+onSQL+")")
		if ok1 && ok2 {
			o.Count("law_checks:outer_join_pads_iff_no_true_match")
			if canonRows(lj) != canonRows(ne) {
				o.Law("outer_join_pads_iff_no_true_match", map[string]interface{}{"on": onSQL, "cpu": cpu, "tables": dumpTables([]*table{ta, tb}),
					"padded_ids": short(canonRows(lj)), "ids_without_true_partner": short(canonRows(ne))})
			}
		}
	}
}

// fromListCases: `FROM a, b[, c]` (a list of tables = cross joins folded to the left), derived tables inside the list,
// and queries without FROM (one record without fields), alone and as sub-selects - compared with the model.
func fromListCases(g *hc.Gen, pr *hc.Proc, o *hc.Out, n int) {
	x := &ngen{g: g}
	rounds := n / 12
	if rounds < 14 {
		rounds = 14
	}
	var tabs []*table
	defer func() { disposeAll(pr, tabs) }()
	for c := 0; c < rounds; c++ {
		if c%8 == 0 {
			disposeAll(pr, tabs)
			tabs, x.lits = smallTables(g, pr, o, "fl", 3, []int{0, 1, 2, 3, 5, 9})
			if tabs == nil {
				return
			}
		}
		e := newEnc()
		if c%4 == 3 {
			// no FROM clause: literals and conditions on literals; also as a derived table and in a list
			l1, l2 := x.lits[g.Intn(len(x.lits))], x.lits[g.Intn(len(x.lits))]
			cd := &cond{op: "cmp", cop: cops[g.Intn(len(cops))], e: []expr{{lit: l1}, {lit: l2}}}
			sql := "SELECT " + lit(l1) + " AS o1, " + sqlCond(cd, nil, nil) + " AS o2"
			tok := append(append([]string{"Q", "D", "-", "L", "2", "v", e.val(l1), "o1", "b"}, e.cond(cd)...), "o2")
			if g.Intn(2) == 0 {
				t := nTable(e, tabs[g.Intn(3)], "a1")
				sql = "SELECT * FROM " + t.sql + ", (" + sql + ") AS s"
				tok = append(append(append([]string{"Q", "J", "C"}, t.tok...), append([]string{"A", "s", "0"}, tok...)...), "-", "-", "*")
			}
			impl, v := runCase(pr, o, e, 1, sql, tok, tabs)
			if impl != "" {
				o.Count("fromlist:dual")
				o.NonTrivial("fromlist:dual:" + outcomeOf(impl, v))
			}
			continue
		}
		k := 2 + g.Intn(2)
		var parts []string
		var src nsrc
		for i := 0; i < k; i++ {
			alias := "a" + strconv.Itoa(i+1)
			t := nTable(e, tabs[g.Intn(3)], alias)
			// csvq's grammar continues a FROM list after its second element only behind a sub-query
			// (`tables: table ',' joinable_tables`, `joinable_tables: laterable_query_table ',' joinable_tables`):
			// `FROM t1, t2, t3` is a syntax error, `FROM t1, (…) s, t3` is not - reported, not generated
			if g.Intn(4) == 0 || (i == 1 && k == 3) {
				// a derived table in the list
				var w *cond
				if g.Intn(2) == 0 {
					w = x.cond(0, t.hdr)
				}
				in := nTable(e, tabs[g.Intn(3)], alias+"i")
				isql, itok, names := nQuery(e, in, w, true, nil)
				if w != nil {
					isql, itok, names = nQuery(e, in, x.cond(0, in.hdr), true, nil)
				}
				t = nsrc{sql: "(" + isql + ") AS " + alias, tok: append([]string{"A", alias, "0"}, itok...)}
				for _, nm := range names {
					t.hdr = append(t.hdr, col{alias, nm, false})
				}
			}
			parts = append(parts, t.sql)
			if i == 0 {
				src = t
			} else {
				j := nsrc{isJoin: true, hdr: joinLayout(src.hdr, t.hdr)}
				j.tok = append(append(append([]string{"J", "C"}, src.tok...), t.tok...), "-")
				src = j
			}
		}
		src.sql = strings.Join(parts, ", ")
		var w *cond
		if g.Intn(2) == 0 {
			w = x.cond(1, src.hdr)
		}
		star := g.Intn(2) == 0
		var items []nitem
		if !star {
			items = x.items(src.hdr, "o")
		}
		sql, tok, _ := nQuery(e, src, w, star, items)
		impl, v := runCase(pr, o, e, []int{1, 2}[g.Intn(2)], sql, tok, tabs)
		if impl != "" {
			o.Count(fmt.Sprintf("fromlist:tables=%d", k))
			o.NonTrivial(fmt.Sprintf("fromlist:%d:%s", k, outcomeOf(impl, v)))
		}
	}
}
