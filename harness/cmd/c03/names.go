package main

// Field references written by NAME and FROM names that have to be resolved - both resolved by the implementation
// and, independently, by the Lean model (Model/Rel.lean: fieldIndex with its AMBIGUOUS / NOT FOUND outcomes,
// tableKind: CTE over temporary table over file).
//
//  namedRefCases      a derived table or CTE built FROM a USING / NATURAL / ON join, joined again with a table that
//                     shares column names; unqualified, qualified and upper-case references in ON, WHERE and the
//                     select list; the outcome (rows, or `field … is ambiguous` / `… does not exist`) is compared
//                     with the model; law derived_table_eq_materialised: the same outer query over a temporary
//                     table holding the derived table's rows has the same outcome
//  precedenceSessions sessions in which a temporary table, a file and a CTE carry the same name

import (
	"fmt"
	"os"
	"path/filepath"
	"strconv"
	"strings"

	"github.com/mithrandie/csvq/lib/query"
	"github.com/mithrandie/csvq/lib/value"

	"verifharness/hc"
)

type nsrc struct {
	sql    string
	tok    []string
	hdr    []col // view == "" : merged column of a USING / NATURAL join of THIS query
	isJoin bool
}

func errTok(err error) (string, bool) {
	switch err.(type) {
	case *query.FieldAmbiguousError:
		return "EAMB", true
	case *query.FieldNotExistError:
		return "ENOF", true
	}
	return "", false
}

func nTable(e *enc, t *table, alias string) nsrc {
	names := t.colNames()
	s := nsrc{sql: t.name + " AS " + alias}
	s.tok = append([]string{"A", alias, strconv.Itoa(len(names))}, names...)
	s.tok = append(s.tok, "T", strconv.Itoa(e.tblIdx(t)))
	for _, n := range names {
		s.hdr = append(s.hdr, col{alias, n, false})
	}
	return s
}

func nSide(s nsrc) string {
	if s.isJoin {
		return "(" + s.sql + ")"
	}
	return s.sql
}

var kindKW = map[byte]string{'I': "INNER JOIN", 'L': "LEFT JOIN", 'R': "RIGHT JOIN", 'F': "FULL JOIN"}

// commonNames: names that both sides resolve without error, in left order (every name once)
func commonNames(ll, rl []col) []string {
	var names []string
	seen := map[string]bool{}
	for _, c := range ll {
		if seen[c.name] {
			continue
		}
		seen[c.name] = true
		_, s1 := resolve(ll, c.name)
		_, s2 := resolve(rl, c.name)
		if s1 == 0 && s2 == 0 {
			names = append(names, c.name)
		}
	}
	return names
}

// naturalNames mirrors ParseJoinCondition for NATURAL; ok = the implementation raises no error
func naturalNames(ll, rl []col) ([]string, bool) {
	var names []string
	seen := map[string]bool{}
	for _, c := range ll {
		_, st := resolve(rl, c.name)
		if st == 2 {
			return nil, false
		}
		if st == 1 {
			continue
		}
		if seen[c.name] {
			return nil, false
		}
		seen[c.name] = true
		if _, sl := resolve(ll, c.name); sl != 0 {
			return nil, false
		}
		names = append(names, c.name)
	}
	return names, true
}

func nJoin(e *enc, kind byte, l, r nsrc, form byte, names []string, on *cond) nsrc {
	s := nsrc{isJoin: true}
	s.tok = append([]string{"J", string(kind)}, l.tok...)
	s.tok = append(s.tok, r.tok...)
	switch form {
	case 'o':
		s.sql = nSide(l) + " " + kindKW[kind] + " " + nSide(r) + " ON " + sqlCond(on, l.hdr, r.hdr)
		s.tok = append(s.tok, "O")
		s.tok = append(s.tok, e.cond(on)...)
		s.hdr = joinLayout(l.hdr, r.hdr)
	default:
		if form == 'u' {
			s.sql = nSide(l) + " " + kindKW[kind] + " " + nSide(r) + " USING (" + strings.Join(names, ", ") + ")"
		} else {
			s.sql = nSide(l) + " NATURAL " + kindKW[kind] + " " + nSide(r)
		}
		// the MODEL resolves the names (ParseJoinCondition): `UN n names` / `NA`; the header kept here only guides
		// the choice of later references (when a name does not resolve the query fails anyway)
		var pairs [][2]int
		resolvable := true
		for _, n := range names {
			li, s1 := resolve(l.hdr, n)
			ri, s2 := resolve(r.hdr, n)
			if s1 != 0 || s2 != 0 {
				resolvable = false
				break
			}
			pairs = append(pairs, [2]int{li, ri})
		}
		if form == 'u' {
			s.tok = append(append(s.tok, "UN", strconv.Itoa(len(names))), names...)
		} else {
			s.tok = append(s.tok, "NA")
		}
		if resolvable {
			s.hdr = mergedLayout(l.hdr, r.hdr, pairs, names)
		} else {
			s.hdr = joinLayout(l.hdr, r.hdr)
		}
	}
	return s
}

type nitem struct {
	e   expr
	out string
}

// nQuery renders SELECT … FROM from [WHERE …]; returns the names of the result columns
func nQuery(e *enc, from nsrc, where *cond, star bool, items []nitem) (string, []string, []string) {
	sql := "SELECT "
	tok := append([]string{"Q"}, from.tok...)
	if where == nil {
		tok = append(tok, "-")
	} else {
		tok = append(tok, "W")
		tok = append(tok, e.cond(where)...)
	}
	var names []string
	if star {
		sql += "*"
		tok = append(tok, "*")
		for _, c := range from.hdr {
			names = append(names, c.name)
		}
	} else {
		tok = append(tok, "L", strconv.Itoa(len(items)))
		parts := make([]string, len(items))
		for i, it := range items {
			out := it.out
			if it.e.named {
				parts[i] = it.e.refText()
				v := it.e.rview
				if v == "" {
					v = "-"
				}
				tok = append(tok, "r", v, it.e.rname)
				if out == "" {
					names = append(names, it.e.rname)
				}
			} else {
				parts[i] = ref(from.hdr[it.e.idx])
				tok = append(tok, "i", strconv.Itoa(it.e.idx))
				if out == "" {
					names = append(names, from.hdr[it.e.idx].name)
				}
			}
			if out == "" {
				tok = append(tok, "-")
			} else {
				parts[i] += " AS " + out
				tok = append(tok, out)
				names = append(names, out)
			}
		}
		sql += strings.Join(parts, ", ")
	}
	sql += " FROM " + from.sql
	if where != nil {
		sql += " WHERE " + sqlCond(where, from.hdr, nil)
	}
	return sql, tok, names
}

type ngen struct {
	g    *hc.Gen
	lits []value.Primary
}

// named draws a reference by name to one of the header's columns: unqualified (also in upper case) or qualified
func (x *ngen) named(hdr []col) expr {
	g := x.g
	c := hdr[g.Intn(len(hdr))]
	e := expr{named: true, rname: c.name}
	if c.view != "" && g.Intn(10) < 4 {
		e.rview = c.view
	}
	if g.Intn(10) == 0 {
		e.rname = strings.ToUpper(e.rname)
	}
	return e
}

func (x *ngen) operand(hdr []col) expr {
	if x.g.Intn(3) == 0 {
		return expr{lit: x.lits[x.g.Intn(len(x.lits))]}
	}
	return x.named(hdr)
}

func (x *ngen) cond(depth int, hdr []col) *cond {
	g := x.g
	if depth > 0 && g.Intn(3) == 0 {
		switch g.Intn(5) {
		case 0, 1:
			return &cond{op: "and", a: x.cond(depth-1, hdr), b: x.cond(depth-1, hdr)}
		case 2, 3:
			return &cond{op: "or", a: x.cond(depth-1, hdr), b: x.cond(depth-1, hdr)}
		}
		return &cond{op: "not", a: x.cond(depth-1, hdr)}
	}
	switch r := g.Intn(100); {
	case r < 55:
		a, b := x.named(hdr), x.operand(hdr)
		if g.Intn(8) == 0 {
			a, b = b, a
		}
		return &cond{op: "cmp", cop: cops[g.Intn(len(cops))], e: []expr{a, b}}
	case r < 70:
		return &cond{op: "isnull", neg: g.Intn(2) == 0, e: []expr{x.named(hdr)}}
	case r < 82:
		return &cond{op: "btw", neg: g.Intn(3) == 0, e: []expr{x.named(hdr), x.operand(hdr), x.operand(hdr)}}
	case r < 91:
		c := &cond{op: "in", neg: g.Intn(3) == 0, e: []expr{x.named(hdr)}}
		for i, n := 0, 1+g.Intn(3); i < n; i++ {
			c.lits = append(c.lits, x.lits[g.Intn(len(x.lits))])
		}
		return c
	case r < 96:
		return &cond{op: "like", neg: g.Intn(3) == 0, e: []expr{x.named(hdr), {lit: likePatternFrom(g, x.lits)}}}
	}
	return &cond{op: "truth", e: []expr{x.named(hdr)}}
}

func (x *ngen) items(hdr []col, outPrefix string) []nitem {
	g := x.g
	n := 1 + g.Intn(4)
	items := make([]nitem, n)
	for i := range items {
		items[i] = nitem{e: x.named(hdr)}
		items[i].out = outPrefix + strconv.Itoa(i+1)
	}
	return items
}

func namedRefCases(g *hc.Gen, pr *hc.Proc, o *hc.Out, n int) {
	x := &ngen{g: g}
	rounds := n / 5
	if rounds < 20 {
		rounds = 20
	}
	var tabs []*table
	for c := 0; c < rounds; c++ {
		if c%10 == 0 {
			for _, t := range tabs {
				pr.DisposeTable(t.name)
			}
			tabs = nil
			keys := pool(g, 3+g.Intn(3), false)
			x.lits = append(keys, value.NewInteger(0), value.NewInteger(1), value.NewNull())
			for i := 0; i < 3; i++ {
				epoch++
				t := &table{name: fmt.Sprintf("n%d_%d", epoch, i+1), cols: []string{"k"}}
				for _, cn := range colNames[1:3] {
					if g.Intn(3) != 0 {
						t.cols = append(t.cols, cn)
					}
				}
				nr := []int{0, 1, 2, 4, 7, 12, 20}[g.Intn(7)]
				for r := 0; r < nr; r++ {
					row := make([]value.Primary, len(t.cols))
					for j := range row {
						row[j] = keys[g.Intn(len(keys))]
					}
					if g.Intn(3) == 0 {
						row[0] = value.NewInteger(int64(g.Intn(nr))) // k often equals some id
					}
					t.rows = append(t.rows, row)
				}
				if err := pr.DeclareTable(t.name, t.cols, t.rows); err != nil {
					o.Law("declare_table_error", err.Error())
					return
				}
				tabs = append(tabs, t)
			}
		}
		cpu := []int{1, 2, 4}[g.Intn(3)]
		pr.SetCPU(cpu)
		e := newEnc()
		ta, tb, tc := tabs[g.Intn(3)], tabs[g.Intn(3)], tabs[g.Intn(3)]
		a, b := nTable(e, ta, "a1"), nTable(e, tb, "a2")

		// the inner join: NATURAL / USING / ON
		var inner nsrc
		kind := "ILRF"[g.Intn(4)]
		innerForm := "natural"
		switch r := g.Intn(10); {
		case r < 5:
			names, _ := naturalNames(a.hdr, b.hdr)
			inner = nJoin(e, kind, a, b, 'n', names, nil)
		case r < 9:
			innerForm = "using"
			names := commonNames(a.hdr, b.hdr)
			g.Shuffle(len(names), func(i, j int) { names[i], names[j] = names[j], names[i] })
			names = names[:1+g.Intn(len(names))]
			if g.Intn(12) == 0 {
				extra := []string{"w", "v", "zz"}[g.Intn(3)] // perhaps unknown to one side
				dup := false
				for _, nm := range names {
					dup = dup || nm == extra
				}
				if !dup {
					names = append(names, extra)
				}
			}
			inner = nJoin(e, kind, a, b, 'u', names, nil)
		default:
			innerForm = "on"
			on := &cond{op: "cmp", cop: "=", e: []expr{{named: true, rview: "a1", rname: "id"}, {named: true, rview: "a2", rname: "id"}}}
			inner = nJoin(e, kind, a, b, 'o', nil, on)
		}
		// the inner query: `*` or items (references by name: inside the join's own query the merged column wins)
		var iw *cond
		if g.Intn(4) == 0 {
			iw = x.cond(1, inner.hdr)
		}
		star := g.Intn(2) == 0
		var its []nitem
		if !star {
			its = x.items(inner.hdr, "")
			// output names: the source names (so that they collide with the third table's), made unique
			used := map[string]bool{}
			for i := range its {
				nm := "k"
				if its[i].e.named {
					nm = strings.ToLower(its[i].e.rname)
				} else {
					nm = inner.hdr[its[i].e.idx].name
				}
				for used[nm] {
					nm += "x"
				}
				used[nm] = true
				its[i].out = nm
			}
		}
		isql, itok, inames := nQuery(e, inner, iw, star, its)

		// the derived table / CTE under the alias s
		asCTE := g.Intn(3) == 0
		s := nsrc{}
		for _, nm := range inames {
			s.hdr = append(s.hdr, col{"s", nm, false})
		}
		cteName := "cn1"
		if asCTE {
			s.sql = cteName + " AS s"
			s.tok = []string{"A", "s", "0", "N", cteName}
		} else {
			s.sql = "(" + isql + ") AS s"
			s.tok = append([]string{"A", "s", "0"}, itok...)
		}
		cs := nTable(e, tc, "a3")

		// the outer join of the third table with the derived table
		l, r := cs, s
		if g.Intn(2) == 0 {
			l, r = s, cs
		}
		okind := "ILRF"[g.Intn(4)]
		var outer nsrc
		outerForm := "on"
		both := joinLayout(l.hdr, r.hdr)
		switch rr := g.Intn(10); {
		case rr < 2:
			// any column name of the left side: it may be ambiguous or unknown on a side (the model says which error)
			nm := l.hdr[g.Intn(len(l.hdr))].name
			if cn := commonNames(l.hdr, r.hdr); len(cn) > 0 && g.Intn(10) < 7 {
				nm = cn[g.Intn(len(cn))]
			}
			outerForm = "using"
			outer = nJoin(e, okind, l, r, 'u', []string{nm}, nil)
		case rr < 3:
			// NATURAL whatever the headers are: an ambiguous side is an error
			names, _ := naturalNames(l.hdr, r.hdr)
			outerForm = "natural"
			outer = nJoin(e, okind, l, r, 'n', names, nil)
		}
		if outerForm == "on" {
			var on *cond
			if g.Intn(2) == 0 {
				// qualified equi-condition (always resolves), sometimes AND a condition with free references
				on = &cond{op: "cmp", cop: "=", e: []expr{{named: true, rview: "a3", rname: "id"}, {named: true, rview: "s", rname: s.hdr[g.Intn(len(s.hdr))].name}}}
				if g.Intn(3) == 0 {
					on = &cond{op: "and", a: on, b: x.cond(0, both)}
				}
			} else {
				on = x.cond(1, both)
			}
			outer = nJoin(e, okind, l, r, 'o', nil, on)
		}
		var ow *cond
		missing := g.Intn(25) == 0
		if missing {
			ow = &cond{op: "cmp", cop: "=", e: []expr{{named: true, rname: "zz"}, {lit: value.NewInteger(1)}}}
		} else if g.Intn(10) < 6 {
			ow = x.cond(1, outer.hdr)
		}
		ostar := g.Intn(3) == 0
		var oits []nitem
		if !ostar {
			oits = x.items(outer.hdr, "o")
		}
		osql, otok, _ := nQuery(e, outer, ow, ostar, oits)
		sql, tok := osql, otok
		if asCTE {
			sql = "WITH " + cteName + " AS (" + isql + ") " + osql
			tok = append(append([]string{"W", cteName, "0"}, itok...), otok...)
		}

		v, err := pr.Query(sql)
		impl := ""
		if err != nil {
			t, ok := errTok(err)
			if !ok {
				o.Law("select_sql_error", map[string]interface{}{"sql": sql, "error": err.Error(), "tables": dumpTables(tabs)})
				continue
			}
			impl = t
		} else {
			impl = canon(v)
		}
		o.Case(fmt.Sprintf("c03.q %d %s %s #%s", cpu, e.header(), strings.Join(tok, " "), hc.Hex(sql)), impl)
		outcome := impl
		if err == nil {
			outcome = "rows:" + band(v.RecordLen())
		}
		o.Count("named:outcome=" + strings.SplitN(outcome, ":", 2)[0])
		o.Count("named:inner=" + innerForm + "/outer=" + outerForm)
		o.NonTrivial(fmt.Sprintf("named:%s:%c:%s:%c:cte=%v:star=%v/%v:%s", innerForm, kind, outerForm, okind, asCTE, star, ostar, outcome))

		// the same outer query over a temporary table that holds the derived table's rows: same outcome
		if uniqueNames(s.hdr) && !asCTE {
			iv, ierr := pr.Query(isql)
			o.Eval()
			if ierr == nil && iv.RecordLen() <= 400 {
				epoch++
				mt := fmt.Sprintf("mt%d", epoch)
				if derr := declareRaw(pr, mt, inames, primRows(iv)); derr == nil {
					msql := strings.Replace(sql, "("+isql+") AS s", mt+" AS s", 1)
					mv, merr := pr.Query(msql)
					o.Eval()
					pr.DisposeTable(mt)
					mimpl := ""
					if merr != nil {
						mimpl, _ = errTok(merr)
						if mimpl == "" {
							mimpl = "error: " + merr.Error()
						}
					} else {
						mimpl = canon(mv)
					}
					o.Count("law_checks:derived_table_eq_materialised")
					if mimpl != impl {
						o.Law("derived_table_eq_materialised", map[string]interface{}{"sql": sql, "derived_table_query": isql,
							"sql_over_temporary_table_with_the_same_rows": msql, "outcome": short(impl), "outcome_materialised": short(mimpl),
							"tables": dumpTables(tabs)})
					}
				}
			}
		}
	}
	for _, t := range tabs {
		pr.DisposeTable(t.name)
	}
}

func short(s string) string {
	if len(s) > 300 {
		return s[:300] + "…"
	}
	return s
}

// ---------- one name, several kinds of object ----------

func precedenceSessions(g *hc.Gen, o *hc.Out, n int) {
	scratch := os.Getenv("VERIF_SCRATCH")
	if scratch == "" {
		scratch = os.TempDir()
	}
	dir, err := os.MkdirTemp(scratch, "c03-repo-")
	if err != nil {
		o.Law("law_sql_error", err.Error())
		return
	}
	defer os.RemoveAll(dir)
	pr := hc.NewProc(dir)
	defer pr.Close()
	x := &ngen{g: g}
	rounds := n / 8
	if rounds < 14 {
		rounds = 14
	}
	for c := 0; c < rounds; c++ {
		epoch++
		name := fmt.Sprintf("px%d", epoch)
		kinds := 1 + c%7 // bit 0: CTE, bit 1: temporary table, bit 2: file
		hasCTE, hasTemp, hasFile := kinds&1 != 0, kinds&2 != 0, kinds&4 != 0
		// an unrelated temporary table (source of a CTE that does not read the shadowed name)
		other := &table{name: fmt.Sprintf("po%d", epoch), cols: []string{"k", "v"}}
		for i, nr := 0, 2+g.Intn(6); i < nr; i++ {
			other.rows = append(other.rows, []value.Primary{value.NewInteger(int64(50 + g.Intn(4))), value.NewString("o" + strconv.Itoa(i))})
		}
		if err := pr.DeclareTable(other.name, other.cols, other.rows); err != nil {
			o.Law("declare_table_error", err.Error())
			return
		}
		var temp, file *table
		if hasTemp {
			temp = &table{name: name, cols: []string{"k", "v"}}
			for i, nr := 0, 1+g.Intn(8); i < nr; i++ {
				temp.rows = append(temp.rows, []value.Primary{value.NewInteger(int64(g.Intn(4))), value.NewString("t" + strconv.Itoa(i))})
			}
			if err := pr.DeclareTable(temp.name, temp.cols, temp.rows); err != nil {
				o.Law("declare_table_error", err.Error())
				return
			}
		}
		if hasFile {
			file = &table{name: name, cols: []string{"id", "k", "v"}, noID: true}
			var sb strings.Builder
			sb.WriteString("id,k,v\n")
			for i, nr := 0, 1+g.Intn(6); i < nr; i++ {
				row := []string{strconv.Itoa(i), strconv.Itoa(100 + g.Intn(4)), "f" + strconv.Itoa(i)}
				sb.WriteString(strings.Join(row, ",") + "\n")
				file.rows = append(file.rows, []value.Primary{value.NewString(row[0]), value.NewString(row[1]), value.NewString(row[2])})
			}
			if err := os.WriteFile(filepath.Join(dir, name+".csv"), []byte(sb.String()), 0o644); err != nil {
				o.Law("law_sql_error", err.Error())
				return
			}
		}
		x.lits = []value.Primary{value.NewInteger(0), value.NewInteger(1), value.NewInteger(2), value.NewInteger(101), value.NewString("t1"), value.NewString("f0"), value.NewInteger(51)}
		refName := func() string {
			// (a file name is matched by the file system: case-sensitive; CTEs and temporary tables are not)
			if g.Intn(6) == 0 && (!hasFile || hasTemp) {
				return strings.ToUpper(name)
			}
			return name
		}
		// session prefix of every plan: the named objects
		session := func(e *enc) []string {
			tok := []string{"E"}
			add := func(t *table) {
				tok = append(tok, name, strconv.Itoa(e.tblIdx(t)), strconv.Itoa(t.width()))
				tok = append(tok, t.colNames()...)
			}
			if temp != nil {
				tok = append(tok, "1")
				add(temp)
			} else {
				tok = append(tok, "0")
			}
			if file != nil {
				tok = append(tok, "1")
				add(file)
			} else {
				tok = append(tok, "0")
			}
			return tok
		}
		hdrOf := func(alias string) []col {
			return []col{{alias, "id", false}, {alias, "k", false}, {alias, "v", false}}
		}
		namedSrc := func(alias string) nsrc {
			rn := refName()
			if alias == "" {
				return nsrc{sql: rn, tok: []string{"N", rn}, hdr: hdrOf(rn)}
			}
			return nsrc{sql: rn + " AS " + alias, tok: []string{"A", alias, "0", "N", rn}, hdr: hdrOf(alias)}
		}
		emit := func(tag, sql string, e *enc, plan []string) {
			cpu := []int{1, 2}[g.Intn(2)]
			pr.SetCPU(cpu)
			v, err := pr.Query(sql)
			impl := ""
			if err != nil {
				t, ok := errTok(err)
				if !ok {
					o.Law("select_sql_error", map[string]interface{}{"sql": sql, "error": err.Error(), "session": fmt.Sprintf("name %s: cte=%v temporary table=%v file=%v", name, hasCTE, hasTemp, hasFile)})
					return
				}
				impl = t
			} else {
				impl = canon(v)
			}
			tok := append(session(e), plan...)
			o.Case(fmt.Sprintf("c03.q %d %s %s #%s", cpu, e.header(), strings.Join(tok, " "), hc.Hex(sql)), impl)
			o.Count("precedence:" + tag)
			o.NonTrivial(fmt.Sprintf("precedence:%s:kinds=%d:%s", tag, kinds, strings.SplitN(impl, " ", 2)[0]))
		}

		// the CTE's own query: over the shadowed name (the idiom WITH t AS (SELECT … FROM t WHERE …)) or over `other`
		cteDef := func(e *enc) (string, []string) {
			var from nsrc
			if (hasTemp || hasFile) && g.Intn(4) != 0 {
				from = namedSrc("")
				if g.Intn(2) == 0 {
					from = namedSrc("i1")
				}
			} else {
				from = nTable(e, other, "i1")
			}
			var w *cond
			if g.Intn(4) != 0 {
				w = x.cond(0, from.hdr)
			}
			items := []nitem{{e: expr{named: true, rname: "id"}, out: "id"}, {e: expr{named: true, rname: "k"}, out: "k"}, {e: expr{named: true, rname: "v"}, out: "v"}}
			if g.Intn(3) == 0 {
				items[1], items[2] = nitem{e: expr{named: true, rname: "v"}, out: "k"}, nitem{e: expr{named: true, rname: "k"}, out: "v"}
			}
			sql, tok, _ := nQuery(e, from, w, false, items)
			return sql, tok
		}
		if hasCTE {
			// 1. WITH name AS (…) SELECT … FROM name [AS a]
			e := newEnc()
			dsql, dtok := cteDef(e)
			from := namedSrc([]string{"", "b1"}[g.Intn(2)])
			var w *cond
			if g.Intn(2) == 0 {
				w = x.cond(0, from.hdr)
			}
			bsql, btok, _ := nQuery(e, from, w, g.Intn(2) == 0, x.items(from.hdr, "o"))
			emit("cte_reference", "WITH "+name+" AS ("+dsql+") "+bsql, e, append(append([]string{"W", name, "0"}, dtok...), btok...))

			// 2. … joined with itself
			e = newEnc()
			dsql, dtok = cteDef(e)
			l, r := namedSrc("b1"), namedSrc("b2")
			on := &cond{op: "cmp", cop: "=", e: []expr{{named: true, rview: "b1", rname: "k"}, {named: true, rview: "b2", rname: "k"}}}
			j := nJoin(e, "ILRF"[g.Intn(4)], l, r, 'o', nil, on)
			bsql, btok, _ = nQuery(e, j, nil, true, nil)
			emit("cte_self_join", "WITH "+name+" AS ("+dsql+") "+bsql, e, append(append([]string{"W", name, "0"}, dtok...), btok...))

			if hasTemp || hasFile {
				// 3. the CTE lives in a sub-select only; outside the name is the table / file again
				e = newEnc()
				dsql, dtok = cteDef(e)
				isql, itok, _ := nQuery(e, namedSrc(""), nil, true, nil)
				sub := nsrc{sql: "(WITH " + name + " AS (" + dsql + ") " + isql + ") AS s", hdr: hdrOf("s")}
				sub.tok = append([]string{"A", "s", "0", "W", name, "0"}, append(dtok, itok...)...)
				out := namedSrc("t1")
				on := &cond{op: "cmp", cop: "=", e: []expr{{named: true, rview: "s", rname: "id"}, {named: true, rview: "t1", rname: "id"}}}
				l, r := sub, out
				if g.Intn(2) == 0 {
					l, r = out, sub
				}
				j := nJoin(e, "ILRF"[g.Intn(4)], l, r, 'o', nil, on)
				bsql, btok, _ := nQuery(e, j, nil, true, nil)
				emit("cte_in_subselect_only", bsql, e, btok)
			}
		}
		if hasTemp || hasFile {
			// 4. without a CTE: temporary table over file
			e := newEnc()
			from := namedSrc([]string{"", "b1"}[g.Intn(2)])
			var w *cond
			if g.Intn(2) == 0 {
				w = x.cond(0, from.hdr)
			}
			bsql, btok, _ := nQuery(e, from, w, true, nil)
			emit("plain_reference", bsql, e, btok)
		}
		if hasTemp {
			pr.DisposeTable(name)
		}
		pr.DisposeTable(other.name)
	}
}
