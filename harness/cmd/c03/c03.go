// Stream binary for property C03: SELECT filters, projects and joins as relational semantics prescribe.
//
// A typed query generator builds query plans (1-4 sources, join trees of every kind, WHERE over the
// modelled condition language, sub-selects in FROM nested to depth 3, CTEs, recursive CTEs), renders them
// as SQL, runs the SQL through the real processor in-process, and writes
//   ops.txt  : the plan in the prefix token encoding read by lean/Csvq/Drive/C03.lean
//   impl.txt : header width + result rows of the implementation (ordered)
// Laws checked on the implementation alone are written to laws.txt (see laws.go).
package main

import (
	"fmt"
	"os"
	"strconv"
	"strings"

	"github.com/mithrandie/csvq/lib/query"
	"github.com/mithrandie/csvq/lib/value"
	"github.com/mithrandie/ternary"

	"verifharness/hc"
)

func main() { hc.Main(run) }

// ---------- tables ----------

type table struct {
	name string
	cols []string          // without the leading id
	rows [][]value.Primary // without the leading id
	noID bool              // cols / rows are the whole table (files: every cell is text)
}

func (t *table) width() int {
	if t.noID {
		return len(t.cols)
	}
	return len(t.cols) + 1
}

func (t *table) full(i int) []value.Primary {
	if t.noID {
		return t.rows[i]
	}
	return append([]value.Primary{value.NewInteger(int64(i))}, t.rows[i]...)
}

func (t *table) colNames() []string {
	if t.noID {
		return t.cols
	}
	return append([]string{"id"}, t.cols...)
}

// ---------- plans ----------

type col struct {
	view, name string // view == "" : a column merged by USING / NATURAL (IsJoinColumn)
	uniq       bool   // the column identifies the row of its source (base-table id, kept by WHERE / projection)
}

type expr struct {
	isCol     bool
	side, idx int
	lit       value.Primary
	// a field reference written by NAME (resolved by the implementation and, independently, by the Lean model)
	named        bool
	rview, rname string
	// a column number `rview.cnum`
	colnum bool
	cnum   int
	// a scalar sub-query (number `sub` of the enclosing query, SQL text in subSQL)
	scalar bool
	sub    int
	subSQL string
}

func (e expr) refText() string {
	if e.rview == "" {
		return e.rname
	}
	return e.rview + "." + e.rname
}

type cond struct {
	op   string // cmp and or not isnull btw in truth like | exists insub anysub allsub (sub-query number `sub`)
	sub    int
	subSQL string
	cop  string
	neg  bool
	a, b *cond
	e    []expr
	lits []value.Primary
}

type src struct {
	kind  byte // 'T' 'J' 'Q' 'G'
	t     *table
	alias string
	// join
	jk     byte // 'C' 'I' 'L' 'R' 'F'
	jform  byte // 'c' cross, 'o' ON, 'u' USING, 'n' NATURAL
	l, r   *src
	on     *cond
	unames []string
	pairs  [][2]int
	// subquery / CTE reference
	q       *qry
	asCTE   bool
	cteName string
	// recursive generation reference
	gname string

	layout []col
	est    int // upper bound of the number of rows
	cost   int // nested-loop pairs evaluated in this subtree
}

type qry struct {
	from  *src
	where *cond
	star  bool
	sel   []int
	names []string
	uniq  []bool
	ctes  []*src // Q sources rendered in this query's WITH clause
	tag   string
	est   int
	cost  int
}

func ref(c col) string {
	if c.view == "" {
		return c.name
	}
	return c.view + "." + c.name
}

// resolve mirrors Header.FieldIndex for an unqualified column name. status: 0 found, 1 not found, 2 ambiguous
func resolve(lay []col, name string) (int, int) {
	idx := -1
	for i, c := range lay {
		if !strings.EqualFold(c.name, name) {
			continue
		}
		if c.view == "" {
			return i, 0
		}
		if idx >= 0 {
			return -1, 2
		}
		idx = i
	}
	if idx < 0 {
		return -1, 1
	}
	return idx, 0
}

// ---------- SQL rendering ----------

func lit(p value.Primary) string {
	s, ok := hc.SqlLit(p)
	if !ok {
		panic("literal without spelling")
	}
	return s
}

func sqlExpr(e expr, ll, rl []col) string {
	if e.scalar {
		return "(" + e.subSQL + ")"
	}
	if e.colnum {
		return e.rview + "." + strconv.Itoa(e.cnum)
	}
	if e.named {
		return e.refText()
	}
	if !e.isCol {
		return lit(e.lit)
	}
	if e.side == 0 {
		return ref(ll[e.idx])
	}
	return ref(rl[e.idx])
}

func sqlCond(c *cond, ll, rl []col) string {
	ex := func(i int) string { return sqlExpr(c.e[i], ll, rl) }
	not := ""
	if c.neg {
		not = "NOT "
	}
	switch c.op {
	case "cmp":
		return "(" + ex(0) + " " + c.cop + " " + ex(1) + ")"
	case "and":
		return "(" + sqlCond(c.a, ll, rl) + " AND " + sqlCond(c.b, ll, rl) + ")"
	case "or":
		return "(" + sqlCond(c.a, ll, rl) + " OR " + sqlCond(c.b, ll, rl) + ")"
	case "not":
		return "(NOT " + sqlCond(c.a, ll, rl) + ")"
	case "isnull":
		return "(" + ex(0) + " IS " + not + "NULL)"
	case "btw":
		return "(" + ex(0) + " " + not + "BETWEEN " + ex(1) + " AND " + ex(2) + ")"
	case "in":
		ls := make([]string, len(c.lits))
		for i, p := range c.lits {
			ls[i] = lit(p)
		}
		return "(" + ex(0) + " " + not + "IN (" + strings.Join(ls, ", ") + "))"
	case "truth":
		return "(" + ex(0) + ")"
	case "like":
		return "(" + ex(0) + " " + not + "LIKE " + ex(1) + ")"
	case "exists":
		return "(EXISTS (" + c.subSQL + "))"
	case "insub":
		return "(" + ex(0) + " " + not + "IN (" + c.subSQL + "))"
	case "anysub":
		return "(" + ex(0) + " " + c.cop + " ANY (" + c.subSQL + "))"
	case "allsub":
		return "(" + ex(0) + " " + c.cop + " ALL (" + c.subSQL + "))"
	}
	panic("cond op")
}

func sqlSrc(s *src) string {
	switch s.kind {
	case 'T':
		return s.t.name + " AS " + s.alias
	case 'G':
		return s.gname + " AS " + s.alias
	case 'Q':
		if s.asCTE {
			return s.cteName + " AS " + s.alias
		}
		return "(" + sqlQuery(s.q) + ") AS " + s.alias
	}
	side := func(x *src) string {
		if x.kind == 'J' {
			return "(" + sqlSrc(x) + ")"
		}
		return sqlSrc(x)
	}
	kw := map[byte]string{'I': "INNER JOIN", 'L': "LEFT OUTER JOIN", 'R': "RIGHT JOIN", 'F': "FULL OUTER JOIN"}[s.jk]
	switch s.jform {
	case 'c':
		return side(s.l) + " CROSS JOIN " + side(s.r)
	case 'o':
		return side(s.l) + " " + kw + " " + side(s.r) + " ON " + sqlCond(s.on, s.l.layout, s.r.layout)
	case 'u':
		return side(s.l) + " " + kw + " " + side(s.r) + " USING (" + strings.Join(s.unames, ", ") + ")"
	}
	return side(s.l) + " NATURAL " + kw + " " + side(s.r)
}

func sqlSelectList(q *qry, extra string) string {
	var items []string
	if extra != "" {
		items = append(items, extra)
	}
	if q.star {
		items = append(items, "*")
	} else {
		for i, k := range q.sel {
			items = append(items, ref(q.from.layout[k])+" AS "+q.names[i])
		}
	}
	return strings.Join(items, ", ")
}

func sqlWith(q *qry) string {
	if len(q.ctes) == 0 {
		return ""
	}
	defs := make([]string, len(q.ctes))
	for i, c := range q.ctes {
		defs[i] = c.cteName + " AS (" + sqlQuery(c.q) + ")"
	}
	return "WITH " + strings.Join(defs, ", ") + " "
}

func sqlQuery(q *qry) string {
	s := sqlWith(q) + "SELECT " + sqlSelectList(q, "") + " FROM " + sqlSrc(q.from)
	if q.where != nil {
		s += " WHERE " + sqlCond(q.where, q.from.layout, nil)
	}
	return s
}

// ---------- encoding for the Lean driver ----------

type enc struct {
	dict   map[string]int
	vals   []string
	tidx   map[*table]int
	tables []*table
	// byName: the plan carries NAMES (tables under their aliases with their column names, references as written in
	// the SQL text, USING by names, NATURAL as such) - the Lean model resolves them; otherwise column indices
	// resolved by this generator
	byName bool
	ll, rl []col // the layouts a condition's column operands refer to (byName)
	noNames bool // a source without names was met: the plan cannot be sent by name
}

// condIn encodes a condition whose column operands refer to the layouts ll / rl
func (e *enc) condIn(c *cond, ll, rl []col) []string {
	sl, sr := e.ll, e.rl
	e.ll, e.rl = ll, rl
	out := e.cond(c)
	e.ll, e.rl = sl, sr
	return out
}

func refTok(c col) []string {
	v := c.view
	if v == "" {
		v = "-"
	}
	return []string{"n", v, c.name}
}

func newEnc() *enc { return &enc{dict: map[string]int{}, tidx: map[*table]int{}} }

func (e *enc) val(p value.Primary) string {
	tok := hc.EncProfile(p)
	i, ok := e.dict[tok]
	if !ok {
		i = len(e.vals)
		e.dict[tok] = i
		e.vals = append(e.vals, tok)
	}
	return strconv.Itoa(i)
}

func (e *enc) expr(x expr) []string {
	if x.scalar {
		return []string{"s", strconv.Itoa(x.sub)}
	}
	if x.colnum {
		return []string{"m", x.rview, strconv.Itoa(x.cnum)}
	}
	if x.named {
		v := x.rview
		if v == "" {
			v = "-"
		}
		return []string{"n", v, x.rname}
	}
	if x.isCol {
		if e.byName {
			lay := e.ll
			if x.side != 0 {
				lay = e.rl
			}
			if x.idx < len(lay) {
				return refTok(lay[x.idx])
			}
			e.noNames = true
		}
		return []string{"c", strconv.Itoa(x.side), strconv.Itoa(x.idx)}
	}
	return []string{"l", e.val(x.lit)}
}

func b01(b bool) string {
	if b {
		return "1"
	}
	return "0"
}

func (e *enc) cond(c *cond) []string {
	var out []string
	switch c.op {
	case "cmp":
		out = append(out, "cmp", c.cop)
		out = append(out, e.expr(c.e[0])...)
		out = append(out, e.expr(c.e[1])...)
	case "and", "or":
		out = append(out, c.op)
		out = append(out, e.cond(c.a)...)
		out = append(out, e.cond(c.b)...)
	case "not":
		out = append(out, "not")
		out = append(out, e.cond(c.a)...)
	case "isnull":
		out = append(out, "isnull", b01(c.neg))
		out = append(out, e.expr(c.e[0])...)
	case "btw":
		out = append(out, "btw", b01(c.neg))
		for i := 0; i < 3; i++ {
			out = append(out, e.expr(c.e[i])...)
		}
	case "in":
		out = append(out, "in", b01(c.neg))
		out = append(out, e.expr(c.e[0])...)
		out = append(out, strconv.Itoa(len(c.lits)))
		for _, p := range c.lits {
			out = append(out, e.val(p))
		}
	case "truth":
		out = append(out, "truth")
		out = append(out, e.expr(c.e[0])...)
	case "like":
		out = append(out, "like", b01(c.neg))
		out = append(out, e.expr(c.e[0])...)
		out = append(out, e.expr(c.e[1])...)
	case "exists":
		out = append(out, "ex", strconv.Itoa(c.sub))
	case "insub":
		out = append(out, "ins", b01(c.neg))
		out = append(out, e.expr(c.e[0])...)
		out = append(out, strconv.Itoa(c.sub))
	case "anysub", "allsub":
		out = append(out, map[string]string{"anysub": "anys", "allsub": "alls"}[c.op], c.cop)
		out = append(out, e.expr(c.e[0])...)
		out = append(out, strconv.Itoa(c.sub))
	}
	return out
}

func (e *enc) tblIdx(t *table) int {
	i, ok := e.tidx[t]
	if !ok {
		i = len(e.tables)
		e.tidx[t] = i
		e.tables = append(e.tables, t)
	}
	return i
}

func (e *enc) src(s *src) []string {
	switch s.kind {
	case 'T':
		if e.byName {
			names := s.t.colNames()
			out := append([]string{"A", s.alias, strconv.Itoa(len(names))}, names...)
			return append(out, "T", strconv.Itoa(e.tblIdx(s.t)))
		}
		return []string{"T", strconv.Itoa(e.tblIdx(s.t))}
	case 'G':
		e.noNames = true
		return []string{"G"}
	case 'Q':
		if e.byName {
			return append([]string{"A", s.alias, "0"}, e.query(s.q)...)
		}
		return e.query(s.q)
	}
	out := []string{"J", string(s.jk)}
	out = append(out, e.src(s.l)...)
	out = append(out, e.src(s.r)...)
	if e.byName {
		switch s.jform {
		case 'c':
			return append(out, "-")
		case 'o':
			return append(append(out, "O"), e.condIn(s.on, s.l.layout, s.r.layout)...)
		case 'u':
			return append(append(out, "UN", strconv.Itoa(len(s.unames))), s.unames...)
		}
		return append(out, "NA")
	}
	switch s.jform {
	case 'c':
		out = append(out, "-")
	case 'o':
		out = append(out, "O")
		out = append(out, e.cond(s.on)...)
	default:
		out = append(out, "U", strconv.Itoa(len(s.pairs)))
		for _, p := range s.pairs {
			out = append(out, strconv.Itoa(p[0]), strconv.Itoa(p[1]))
		}
	}
	return out
}

func (e *enc) query(q *qry) []string {
	out := []string{"Q"}
	out = append(out, e.src(q.from)...)
	if q.where == nil {
		out = append(out, "-")
	} else {
		out = append(out, "W")
		out = append(out, e.condIn(q.where, q.from.layout, nil)...)
	}
	if q.star {
		out = append(out, "*")
	} else if e.byName {
		out = append(out, "L", strconv.Itoa(len(q.sel)))
		for i, k := range q.sel {
			out = append(append(out, "r"), refTok(q.from.layout[k])[1:]...)
			out = append(out, q.names[i])
		}
	} else {
		out = append(out, "S", strconv.Itoa(len(q.sel)))
		for _, k := range q.sel {
			out = append(out, strconv.Itoa(k))
		}
	}
	return out
}

// header assembles `<nv> vals… <nt> tables…` after the plan tokens were produced (the dictionary is complete then)
func (e *enc) header() string {
	var sb strings.Builder
	// table cells may add dictionary entries: encode the tables first
	var tb strings.Builder
	tb.WriteString(strconv.Itoa(len(e.tables)))
	for _, t := range e.tables {
		fmt.Fprintf(&tb, " %d %d", t.width(), len(t.rows))
		for i := range t.rows {
			for _, p := range t.full(i) {
				tb.WriteByte(' ')
				tb.WriteString(e.val(p))
			}
		}
	}
	sb.WriteString(strconv.Itoa(len(e.vals)))
	for _, v := range e.vals {
		sb.WriteByte(' ')
		sb.WriteString(v)
	}
	sb.WriteByte(' ')
	sb.WriteString(tb.String())
	return sb.String()
}

// canon renders a result view: header width, then the rows in order
func canon(v *query.View) string {
	return strconv.Itoa(v.FieldLen()) + " " + canonRows(viewRows(v))
}

// cellAt is hc.ViewCell that survives a damaged record (a changed implementation may hand out records whose
// cells were truncated by another reference); such a cell is reported as `?corrupt` instead of a panic
func cellAt(v *query.View, i, j int) (value.Primary, bool) {
	r := v.RecordSet[i]
	if j >= len(r) || len(r[j]) == 0 || r[j][0] == nil {
		return value.NewNull(), false
	}
	return r[j][0], true
}

func cellEnc(v *query.View, i, j int) string {
	p, ok := cellAt(v, i, j)
	if !ok {
		return "?corrupt"
	}
	return hc.EncVal(p)
}

func viewRows(v *query.View) [][]string {
	rows := make([][]string, v.RecordLen())
	for i := range rows {
		r := make([]string, v.FieldLen())
		for j := range r {
			r[j] = cellEnc(v, i, j)
		}
		rows[i] = r
	}
	return rows
}

func canonRows(rows [][]string) string {
	if len(rows) == 0 {
		return "-"
	}
	parts := make([]string, len(rows))
	for i, r := range rows {
		parts[i] = strings.Join(r, ",")
	}
	return strings.Join(parts, "|")
}

// ---------- generator ----------

type qgen struct {
	g      *hc.Gen
	tables []*table
	lits   []value.Primary
	nAlias int
	nCTE   int
	ctes   []*src // CTEs defined so far in the WITH clause of the query under construction
	outer  []*src // CTEs of the enclosing queries (visible in nested sub-selects)
	// forced choices for the next join (matrix cases); zero = draw
	forceForm, forceKind byte
	forceUsingK          int
}

func (x *qgen) alias() string { x.nAlias++; return "a" + strconv.Itoa(x.nAlias) }
func (x *qgen) cte() string   { x.nCTE++; return "c" + strconv.Itoa(x.nCTE) }

var keyCands = []value.Primary{
	value.NewInteger(1), value.NewInteger(2), value.NewInteger(3), value.NewInteger(0), value.NewInteger(-1),
	value.NewString("1"), value.NewString("2"), value.NewString(" 2 "), value.NewString("a"), value.NewString("A"),
	value.NewString("abc"), value.NewString("1.0"), value.NewString("true"), value.NewString(""), value.NewString("3e0"),
	value.NewFloat(1), value.NewFloat(2), value.NewFloat(2.5), value.NewNull(), value.NewNull(),
	value.NewBoolean(true), value.NewTernary(ternary.TRUE), value.NewString("x"), value.NewString(" x"),
}

func pool(g *hc.Gen, n int, wide bool) []value.Primary {
	p := make([]value.Primary, n)
	for i := range p {
		if wide && g.Intn(3) == 0 {
			p[i] = g.LitVal()
		} else {
			p[i] = keyCands[g.Intn(len(keyCands))]
		}
	}
	return p
}

var colNames = []string{"k", "v", "w", "x"}

func sizeOf(g *hc.Gen, class int) int {
	switch class {
	case 0:
		return []int{0, 1, 2, 3, 4, 5, 8, 9}[g.Intn(8)]
	case 1:
		return 10 + g.Intn(70)
	}
	return 160 + g.Intn(241)
}

var epoch int

// newTables declares four tables (one small, one medium, one large, one of any class) over shared value pools.
// The names are fresh in every epoch: a sub-select over a temporary table rewrites the table's FileInfo
// (load_view.go: `view.FileInfo.ViewType = ViewTypeInlineTable`, `Path = ""` on the shared pointer), after which
// DISPOSE VIEW no longer finds the table — outside C03, reported separately.
func newTables(g *hc.Gen, pr *hc.Proc, o *hc.Out, old []*table) []*table {
	for _, t := range old {
		pr.DisposeTable(t.name)
	}
	epoch++
	keys := pool(g, 3+g.Intn(5), false)
	pay := pool(g, 4+g.Intn(6), true)
	// texts for LIKE: words of a small vocabulary between runes of several bytes (like.go)
	curVocab = newLikeVocab(g)
	for i := range pay {
		if g.Intn(4) == 0 {
			pay[i] = value.NewString(curVocab.text(g))
		}
	}
	var out []*table
	for i := 0; i < 4; i++ {
		class := i
		if i == 3 {
			class = g.Intn(3)
		}
		n := sizeOf(g, class)
		t := &table{name: fmt.Sprintf("t%d_%d", epoch, i+1), cols: []string{"k"}}
		for _, c := range colNames[1:] {
			if g.Intn(2) == 0 {
				t.cols = append(t.cols, c)
			}
		}
		t.rows = make([][]value.Primary, n)
		for r := range t.rows {
			row := make([]value.Primary, len(t.cols))
			row[0] = keys[g.Intn(len(keys))]
			for c := 1; c < len(row); c++ {
				if g.Intn(3) == 0 {
					row[c] = keys[g.Intn(len(keys))]
				} else {
					row[c] = pay[g.Intn(len(pay))]
				}
			}
			if r > 0 && g.Intn(12) == 0 {
				copy(row, t.rows[g.Intn(r)]) // duplicate rows
			}
			t.rows[r] = row
		}
		if err := pr.DeclareTable(t.name, t.cols, t.rows); err != nil {
			o.Law("declare_table_error", err.Error())
			continue
		}
		out = append(out, t)
		o.Count(fmt.Sprintf("table:rows=%s", band(n)))
	}
	return out
}

func band(n int) string {
	switch {
	case n == 0:
		return "0"
	case n < 10:
		return "1-9"
	case n < 160:
		return "10-159"
	case n < 1000:
		return "160-999"
	case n < 10000:
		return "1000-9999"
	}
	return "10000+"
}

func (x *qgen) anyLit() value.Primary { return x.lits[x.g.Intn(len(x.lits))] }

func (x *qgen) pickCol(ll, rl []col) expr {
	side := 0
	if rl != nil && x.g.Intn(2) == 0 {
		side = 1
	}
	lay := ll
	if side == 1 {
		lay = rl
	}
	return expr{isCol: true, side: side, idx: x.g.Intn(len(lay))}
}

func (x *qgen) operand(ll, rl []col) expr {
	if x.g.Intn(4) != 0 {
		return x.pickCol(ll, rl)
	}
	return expr{lit: x.anyLit()}
}

var cops = []string{"=", "=", "<", "<=", "<=", ">", ">=", ">=", "<>", "<>", "=="}

func (x *qgen) cond(depth int, ll, rl []col) *cond {
	g := x.g
	if depth > 0 && g.Intn(100) < 40 {
		switch g.Intn(6) {
		case 0, 1:
			return &cond{op: "and", a: x.cond(depth-1, ll, rl), b: x.cond(depth-1, ll, rl)}
		case 2, 3, 4:
			return &cond{op: "or", a: x.cond(depth-1, ll, rl), b: x.cond(depth-1, ll, rl)}
		}
		return &cond{op: "not", a: x.cond(depth-1, ll, rl)}
	}
	switch r := g.Intn(100); {
	case r < 55:
		a := x.pickCol(ll, rl)
		var b expr
		if rl != nil && g.Intn(3) != 0 {
			// compare with a column of the other side, preferably of the same name
			other, os := rl, 1
			if a.side == 1 {
				other, os = ll, 0
			}
			name := ll[0].name
			if a.side == 0 {
				name = ll[a.idx].name
			} else {
				name = rl[a.idx].name
			}
			b = expr{isCol: true, side: os, idx: g.Intn(len(other))}
			if g.Intn(3) != 0 {
				for i, c := range other {
					if c.name == name {
						b.idx = i
						break
					}
				}
			}
		} else {
			b = x.operand(ll, rl)
		}
		if g.Intn(12) == 0 {
			a, b = b, a
		}
		return &cond{op: "cmp", cop: cops[g.Intn(len(cops))], e: []expr{a, b}}
	case r < 67:
		return &cond{op: "isnull", neg: g.Intn(2) == 0, e: []expr{x.pickCol(ll, rl)}}
	case r < 80:
		return &cond{op: "btw", neg: g.Intn(3) == 0, e: []expr{x.pickCol(ll, rl), x.operand(ll, rl), x.operand(ll, rl)}}
	case r < 90:
		n := 1 + g.Intn(4)
		c := &cond{op: "in", neg: g.Intn(3) == 0, e: []expr{x.pickCol(ll, rl)}}
		for i := 0; i < n; i++ {
			c.lits = append(c.lits, x.anyLit())
		}
		return c
	case r < 96:
		// [NOT] LIKE: the pattern cut out of a text of the tables (like.go), now and then another column
		pat := expr{lit: likePatternFrom(g, x.lits)}
		if g.Intn(8) == 0 {
			pat = x.pickCol(ll, rl)
		}
		return &cond{op: "like", neg: g.Intn(3) == 0, e: []expr{x.pickCol(ll, rl), pat}}
	}
	return &cond{op: "truth", e: []expr{x.operand(ll, rl)}}
}

// onCond: mostly equi-conditions so that joins have partners
func (x *qgen) onCond(ll, rl []col) *cond {
	g := x.g
	eq := func(name string, needUniq bool) *cond {
		for i, a := range ll {
			if a.name != name || (needUniq && !a.uniq) {
				continue
			}
			for j, b := range rl {
				if b.name == name && (!needUniq || b.uniq) {
					return &cond{op: "cmp", cop: "=", e: []expr{{isCol: true, side: 0, idx: i}, {isCol: true, side: 1, idx: j}}}
				}
			}
		}
		return nil
	}
	var base *cond
	switch g.Intn(10) {
	case 0, 1, 2:
		base = eq("id", true)
	case 3, 4, 5, 6:
		base = eq(colNames[g.Intn(2)], false)
	}
	if base == nil {
		return x.cond(2, ll, rl)
	}
	switch g.Intn(4) {
	case 0:
		return &cond{op: "and", a: base, b: x.cond(1, ll, rl)}
	case 1:
		if base.e[0].isCol && ll[base.e[0].idx].uniq {
			return base // keep the size bound
		}
		return &cond{op: "or", a: base, b: x.cond(1, ll, rl)}
	}
	return base
}

func (x *qgen) pickTable(maxRows int) *table {
	var cands []*table
	for _, t := range x.tables {
		if len(t.rows) <= maxRows {
			cands = append(cands, t)
		}
	}
	if len(cands) == 0 {
		return x.tables[0]
	}
	return cands[x.g.Intn(len(cands))]
}

func (x *qgen) leaf(nest, maxRows int) *src {
	g := x.g
	if n := len(x.ctes) + len(x.outer); n > 0 && g.Intn(4) == 0 {
		k := g.Intn(n)
		var c *src
		if k < len(x.ctes) {
			c = x.ctes[k]
		} else {
			c = x.outer[k-len(x.ctes)]
		}
		if c.est <= maxRows {
			return x.refTo(c)
		}
	}
	if nest > 0 && g.Intn(10) < 3 {
		q := x.query(nest-1, false, maxRows)
		s := x.subOf(q)
		if g.Intn(3) == 0 {
			s.asCTE = true
			s.cteName = x.cte()
			x.ctes = append(x.ctes, s)
		}
		return s
	}
	t := x.pickTable(maxRows)
	s := &src{kind: 'T', t: t, alias: x.alias(), est: len(t.rows)}
	s.layout = append(s.layout, col{s.alias, "id", true})
	for _, c := range t.cols {
		s.layout = append(s.layout, col{s.alias, c, false})
	}
	return s
}

func hasUniqEq(c *cond, ll, rl []col) bool {
	if c == nil {
		return false
	}
	switch c.op {
	case "and":
		return hasUniqEq(c.a, ll, rl) || hasUniqEq(c.b, ll, rl)
	case "cmp":
		if c.cop != "=" || !c.e[0].isCol || !c.e[1].isCol || c.e[0].side == c.e[1].side {
			return false
		}
		u := func(e expr) bool {
			if e.side == 0 {
				return ll[e.idx].uniq
			}
			return rl[e.idx].uniq
		}
		return u(c.e[0]) && u(c.e[1])
	}
	return false
}

func max1(a int) int {
	if a < 1 {
		return 1
	}
	return a
}

func (x *qgen) join(l, r *src, noMerge bool) *src {
	g := x.g
	s := &src{kind: 'J', l: l, r: r, alias: ""}
	form := []byte{'c', 'o', 'o', 'o', 'o', 'u', 'u', 'n', 'n'}[g.Intn(9)]
	if noMerge && (form == 'u' || form == 'n') {
		form = 'o'
	}
	s.jk = []byte{'I', 'I', 'L', 'L', 'R', 'F'}[g.Intn(6)]
	if x.forceForm != 0 {
		form = x.forceForm
	}
	if x.forceKind != 0 {
		s.jk = x.forceKind
	}
	ll, rl := l.layout, r.layout
	if form == 'u' {
		var names []string
		seen := map[string]bool{}
		for _, c := range ll {
			if seen[c.name] {
				continue
			}
			seen[c.name] = true
			_, s1 := resolve(ll, c.name)
			_, s2 := resolve(rl, c.name)
			if s1 == 0 && s2 == 0 {
				names = append(names, c.name)
			}
		}
		if len(names) == 0 {
			form = 'o'
		} else {
			g.Shuffle(len(names), func(i, j int) { names[i], names[j] = names[j], names[i] })
			k := 1
			if len(names) > 1 && g.Intn(3) == 0 {
				k = 2
			}
			if x.forceUsingK > 0 {
				k = x.forceUsingK
				if k > len(names) {
					k = len(names)
				}
			}
			s.unames = names[:k]
		}
	}
	if form == 'n' {
		var names []string
		ok := true
		seen := map[string]bool{}
		for _, c := range ll {
			_, st := resolve(rl, c.name)
			if st == 2 {
				ok = false
				break
			}
			if st == 1 {
				continue
			}
			if seen[c.name] {
				ok = false
				break
			}
			seen[c.name] = true
			if _, sl := resolve(ll, c.name); sl != 0 {
				ok = false
				break
			}
			names = append(names, c.name)
		}
		if !ok {
			form = 'o'
		} else {
			s.unames = names
		}
	}
	s.jform = form
	equi := false
	switch form {
	case 'c':
		s.jk = 'C'
		s.layout = joinLayout(ll, rl)
	case 'o':
		s.on = x.onCond(ll, rl)
		s.layout = joinLayout(ll, rl)
		equi = hasUniqEq(s.on, ll, rl)
	default:
		for _, n := range s.unames {
			li, _ := resolve(ll, n)
			ri, _ := resolve(rl, n)
			s.pairs = append(s.pairs, [2]int{li, ri})
			if ll[li].uniq && rl[ri].uniq {
				equi = true
			}
		}
		s.layout = mergedLayout(ll, rl, s.pairs, s.unames)
	}
	L, R := l.est, r.est
	m := L * R
	if equi {
		m = L
		if R < L {
			m = R
		}
	}
	switch s.jk {
	case 'C', 'I':
		s.est = m
	case 'L':
		s.est = m + L
	case 'R':
		s.est = m + R
	default:
		s.est = m + L + R
	}
	s.cost = l.cost + r.cost + max1(L)*max1(R)
	return s
}

func joinLayout(ll, rl []col) []col {
	out := make([]col, 0, len(ll)+len(rl))
	for _, c := range ll {
		out = append(out, col{c.view, c.name, false})
	}
	for _, c := range rl {
		out = append(out, col{c.view, c.name, false})
	}
	return out
}

func mergedLayout(ll, rl []col, pairs [][2]int, names []string) []col {
	if len(pairs) == 0 {
		return joinLayout(ll, rl)
	}
	drop := map[int]bool{}
	var out []col
	for i, p := range pairs {
		drop[p[0]] = true
		drop[len(ll)+p[1]] = true
		out = append(out, col{"", names[i], false})
	}
	for i, c := range joinLayout(ll, rl) {
		if !drop[i] {
			out = append(out, c)
		}
	}
	return out
}

func (x *qgen) tree(n, nest, maxRows int) *src {
	if n == 1 {
		return x.leaf(nest, maxRows)
	}
	if n >= 3 && x.g.Intn(4) == 0 {
		l := x.tree(n-2, nest, maxRows)
		r := x.join(x.leaf(nest, 80), x.leaf(nest, 80), true)
		return x.join(l, r, false)
	}
	l := x.tree(n-1, nest, maxRows)
	lim := maxRows
	if l.est > 0 && 6000/l.est < lim {
		lim = 6000 / l.est
		if x.g.Intn(3) == 0 {
			lim = maxRows // equi-joins may still fit; the caller re-draws when the bound is exceeded
		}
	}
	r := x.leaf(nest, lim)
	return x.join(l, r, false)
}

func uniqueNames(lay []col) bool {
	seen := map[string]bool{}
	for _, c := range lay {
		if seen[c.name] {
			return false
		}
		seen[c.name] = true
	}
	return true
}

// refTo makes a new reference (own alias) to an already defined CTE
func (x *qgen) refTo(c *src) *src {
	s := &src{kind: 'Q', q: c.q, asCTE: true, cteName: c.cteName, alias: x.alias(), est: c.est, cost: 0}
	s.layout = make([]col, len(c.layout))
	for i, cc := range c.layout {
		s.layout[i] = col{s.alias, cc.name, cc.uniq}
	}
	return s
}

func (x *qgen) enter() (saved, savedOuter []*src) {
	saved, savedOuter = x.ctes, x.outer
	x.outer = append(append([]*src{}, x.outer...), x.ctes...)
	x.ctes = nil
	return
}

func (x *qgen) leave(q *qry, saved, savedOuter []*src) {
	q.ctes = x.ctes
	x.ctes, x.outer = saved, savedOuter
	q.est, q.cost = q.from.est, q.from.cost
}

func (x *qgen) query(nest int, top bool, maxRows int) *qry {
	g := x.g
	saved, savedOuter := x.enter()
	var n int
	if top {
		n = []int{1, 1, 1, 2, 2, 2, 2, 3, 3, 4}[g.Intn(10)]
	} else {
		n = []int{1, 1, 1, 1, 2, 2, 2, 3}[g.Intn(8)]
	}
	q := &qry{from: x.tree(n, nest, maxRows)}
	whereP := 40
	if top {
		whereP = 60
	}
	x.finish(q, top, whereP)
	x.leave(q, saved, savedOuter)
	return q
}

// finish draws WHERE and the select list of a query whose FROM is built
func (x *qgen) finish(q *qry, allowDupNames bool, whereP int) {
	g := x.g
	lay := q.from.layout
	if g.Intn(100) < whereP {
		q.where = x.cond(1+g.Intn(3), lay, nil)
	}
	if (allowDupNames || uniqueNames(lay)) && g.Intn(100) < 40 {
		q.star = true
		for _, c := range lay {
			q.names = append(q.names, c.name)
			q.uniq = append(q.uniq, c.uniq)
		}
	} else {
		k := 1 + g.Intn(len(lay)+1)
		if k > 7 {
			k = 7
		}
		used := map[string]bool{}
		for i := 0; i < k; i++ {
			j := g.Intn(len(lay))
			name := lay[j].name
			for c := 2; used[name]; c++ {
				name = lay[j].name + "_" + strconv.Itoa(c)
			}
			used[name] = true
			q.sel = append(q.sel, j)
			q.names = append(q.names, name)
			q.uniq = append(q.uniq, lay[j].uniq)
		}
	}
}

func (x *qgen) subOf(q *qry) *src {
	s := &src{kind: 'Q', q: q, alias: x.alias(), est: q.est, cost: q.cost}
	s.layout = make([]col, len(q.names))
	for i, n := range q.names {
		s.layout[i] = col{s.alias, n, q.uniq[i]}
	}
	return s
}

// wrap puts a reference into a derived table that filters it and / or projects a subset / a permutation of its
// columns (the in-place operations of View.filter and View.Fix run on the referenced view)
func (x *qgen) wrap(ref *src) *src {
	g := x.g
	saved, savedOuter := x.enter()
	q := &qry{from: ref}
	lay := ref.layout
	mode := g.Intn(4) // 0 filter only, 1 project only, 2 both, 3 both
	if mode != 1 {
		q.where = x.cond(g.Intn(2), lay, nil)
	}
	if mode == 0 && uniqueNames(lay) {
		q.star = true
		for _, c := range lay {
			q.names = append(q.names, c.name)
			q.uniq = append(q.uniq, c.uniq)
		}
	} else {
		perm := g.Perm(len(lay))
		k := 1 + g.Intn(len(lay))
		if g.Intn(2) == 0 {
			k = len(lay) // pure permutation
		}
		used := map[string]bool{}
		for _, j := range perm[:k] {
			name := lay[j].name
			for c := 2; used[name]; c++ {
				name = lay[j].name + "_" + strconv.Itoa(c)
			}
			used[name] = true
			q.sel = append(q.sel, j)
			q.names = append(q.names, name)
			q.uniq = append(q.uniq, lay[j].uniq)
		}
	}
	x.leave(q, saved, savedOuter)
	return x.subOf(q)
}

// multiRef builds a query whose FROM references ONE source (a CTE, a temporary table, or — mk given — the
// recursive table) two or three times, at different nesting depths: the earlier references mostly inside derived
// tables that filter / project / permute, the last one mostly direct; also plain self-joins.
func (x *qgen) multiRef(mk func() *src, targetEst int) *qry {
	g := x.g
	saved, savedOuter := x.enter()
	kind := "rec"
	if mk == nil {
		if g.Intn(10) < 6 {
			kind = "cte"
			var body *qry
			for try := 0; try < 20; try++ {
				body = x.query(1, false, 60)
				if body.est <= 60 && body.cost <= 20000 {
					break
				}
				body = nil
			}
			if body == nil {
				saved2, so2 := x.enter()
				body = &qry{from: x.leaf(0, 30)}
				x.finish(body, false, 40)
				x.leave(body, saved2, so2)
			}
			def := x.subOf(body)
			def.asCTE, def.cteName = true, x.cte()
			x.ctes = append(x.ctes, def)
			targetEst = body.est
			first := true
			mk = func() *src {
				if first {
					first = false
					return def
				}
				return x.refTo(def)
			}
			if g.Intn(4) == 0 {
				// a second CTE defined over the first one (filtering / projecting it), then both are used
				d2 := x.wrap(mk())
				d2.asCTE, d2.cteName = true, x.cte()
				x.ctes = append(x.ctes, d2)
				kind = "cte2"
				mk2 := mk
				used2 := false
				mk = func() *src {
					if !used2 {
						used2 = true
						return d2
					}
					return mk2()
				}
			}
		} else {
			kind = "table"
			t := x.pickTable(60)
			targetEst = len(t.rows)
			mk = func() *src { return leafOf(x, t) }
		}
	}
	n := 2
	if targetEst <= 16 && g.Intn(3) == 0 {
		n = 3
	}
	leaves := make([]*src, n)
	nwrap := 0
	for i := range leaves {
		s := mk()
		wrapP := 80
		if i == n-1 {
			wrapP = 20
		}
		if g.Intn(100) < wrapP {
			s = x.wrap(s)
			nwrap++
			if g.Intn(4) == 0 {
				s = x.wrap(s) // one level deeper
			}
		}
		leaves[i] = s
	}
	from := leaves[0]
	for _, r := range leaves[1:] {
		from = x.join(from, r, false)
	}
	q := &qry{from: from}
	x.finish(q, true, 20)
	x.leave(q, saved, savedOuter)
	q.tag = fmt.Sprintf("multiref:%s:refs=%d:wrapped=%d", kind, n, nwrap)
	return q
}

// ---------- signatures / distribution ----------

func condShape(c *cond) string {
	if c == nil {
		return "-"
	}
	switch c.op {
	case "and", "or":
		return c.op + "(" + condShape(c.a) + "," + condShape(c.b) + ")"
	case "not":
		return "not(" + condShape(c.a) + ")"
	case "cmp":
		k := "cl"
		if c.e[0].isCol && c.e[1].isCol {
			k = "cc"
		}
		return "cmp" + k
	}
	return c.op
}

func srcShape(s *src, o *hc.Out, depth int) string {
	switch s.kind {
	case 'T':
		return "T"
	case 'G':
		return "G"
	case 'Q':
		if o != nil {
			o.Count(fmt.Sprintf("subselect:depth=%d", depth+1))
			if s.asCTE {
				o.Count("cte_reference")
			}
		}
		if s.asCTE {
			return "K" + s.cteName + "[" + queryShape(s.q, o, depth+1) + "]"
		}
		return "Q[" + queryShape(s.q, o, depth+1) + "]"
	}
	if o != nil {
		o.Count("join:" + string(s.jk) + "/" + string(s.jform))
		o.Count("join_on_shape:" + topOp(s.on))
	}
	return "J" + string(s.jk) + string(s.jform) + "(" + srcShape(s.l, o, depth) + "," + srcShape(s.r, o, depth) + ")"
}

func topOp(c *cond) string {
	if c == nil {
		return "-"
	}
	return c.op
}

func queryShape(q *qry, o *hc.Out, depth int) string {
	if o != nil {
		o.Count("where_shape:" + topOp(q.where))
		if q.star {
			o.Count("select:*")
		} else {
			o.Count("select:list")
		}
	}
	st := "l"
	if q.star {
		st = "*"
	}
	return srcShape(q.from, o, depth) + "W" + topOp(q.where) + st
}

func joinDepth(s *src) int {
	if s.kind != 'J' {
		return 0
	}
	a, b := joinDepth(s.l), joinDepth(s.r)
	if b > a {
		a = b
	}
	return a + 1
}

// ---------- main loop ----------

func run(seed int64, n int, dir string, _ []string) {
	g := hc.NewGen(seed)
	o := hc.NewOut(dir)
	defer o.Close()
	pr := hc.NewProc("")
	defer pr.Close()

	// readable samples (the op lines carry whole tables and are far too long for the evidence file)
	var samples []string
	defer func() { o.Samples = samples }()

	// the pre-finding F15 witness runs first on every run
	lateralWitness(pr, o)
	cteWitness(pr, o)
	tempTableWitness(pr, o)

	x := &qgen{g: g}
	for i := 0; i < n; i++ {
		if i%8 == 0 || len(x.tables) < 3 {
			x.tables = newTables(g, pr, o, x.tables)
			x.lits = nil
			for _, t := range x.tables {
				for r := 0; r < len(t.rows) && r < 12; r++ {
					x.lits = append(x.lits, t.rows[r]...)
				}
			}
			x.lits = append(x.lits, pool(g, 6, false)...)
			x.lits = append(x.lits, value.NewInteger(int64(g.Intn(5))), value.NewNull())
			if len(x.tables) < 3 {
				continue
			}
		}
		cpu := []int{1, 1, 2, 3, 4, 8}[g.Intn(6)]
		pr.SetCPU(cpu)

		var q *qry
		for try := 0; ; try++ {
			x.nAlias, x.nCTE = 0, 0
			maxRows := 400
			if try > 12 {
				maxRows = 30
			}
			x.ctes, x.outer = nil, nil
			if i%5 == 2 {
				q = x.multiRef(nil, 0)
			} else {
				q = x.query(3, true, maxRows)
			}
			if q.est <= 6000 && q.cost <= 120000 && maxEst(q.from) <= 12000 {
				break
			}
			o.Count("generator:redraw")
		}
		sql := sqlQuery(q)
		v, err := pr.Query(sql)
		if err != nil {
			o.Law("select_sql_error", map[string]interface{}{"sql": sql, "error": err.Error(), "tables": dumpTables(x.tables)})
			continue
		}
		if len(samples) < 8 && i%37 == 0 {
			sm := sql
			if len(sm) > 700 {
				sm = sm[:700] + "…"
			}
			samples = append(samples, fmt.Sprintf("cpu=%d %s  =>  width %d, %d rows", cpu, sm, v.FieldLen(), v.RecordLen()))
		}
		if os.Getenv("C03_DEBUG") != "" {
			fmt.Fprintf(os.Stderr, "%d\t%s\n", v.RecordLen(), sql)
		}
		e := newEnc()
		e.byName = i%5 == 1 || i%5 == 3 || i%10 == 2
		plan := strings.Join(e.query(q), " ")
		if e.byName && e.noNames {
			e = newEnc()
			plan = strings.Join(e.query(q), " ")
		}
		if e.byName {
			o.Count("plan_sent_by_name")
		}
		op := fmt.Sprintf("c03.q %d %s %s #%s", cpu, e.header(), plan, hc.Hex(sql))
		o.Case(op, canon(v))
		shape := queryShape(q, o, 0)
		if q.tag != "" {
			o.Count(q.tag)
			shape += "|" + q.tag
		}
		o.Count(fmt.Sprintf("sources=%d", countLeaves(q.from)))
		o.Count(fmt.Sprintf("join_depth=%d", joinDepth(q.from)))
		o.Count("result_rows=" + band(v.RecordLen()))
		o.Count(fmt.Sprintf("cpu=%d", cpu))
		par := "seq"
		if cpu > 1 && largest(q.from) >= 160 {
			par = "par"
			o.Count("parallel_path_cases")
		}
		o.NonTrivial(shape + "|" + band(v.RecordLen()) + "|" + par)

		if q.where != nil && (q.est <= 3000 || g.Intn(3) == 0) {
			lawWhere(pr, o, q, v, sql)
		}
	}
	for _, t := range x.tables {
		pr.DisposeTable(t.name)
	}
	x.tables = nil

	naturalMatrix(g, pr, o, n)
	namedRefCases(g, pr, o, n)
	nearIdenticalItemCases(g, pr, o, n)
	resolveDirectCases(g, o, n)
	outerOnTernaryCases(g, pr, o, n)
	fromListCases(g, pr, o, n)
	subqueryCases(g, pr, o, n)
	likeCases(g, pr, o, n)
	setOperatorCases(g, pr, o, n)
	lateralModelCases(g, pr, o, n)
	lateralDeepCases(g, pr, o, n)
	aggSubqueryCases(g, pr, o, n)
	nameRuleCases(g, pr, o, n)
	joinGrouping(pr, o)
	starExpansionCases(g, pr, o, n)
	precedenceSessions(g, o, n)
	recursiveNamedCases(g, o, n)
	recChainCases(g, o, n)
	lawStreams(g, pr, o, n)
}

func maxEst(s *src) int {
	m := s.est
	if s.kind == 'J' {
		if a := maxEst(s.l); a > m {
			m = a
		}
		if a := maxEst(s.r); a > m {
			m = a
		}
	}
	if s.kind == 'Q' {
		if a := maxEst(s.q.from); a > m {
			m = a
		}
	}
	return m
}

func largest(s *src) int {
	switch s.kind {
	case 'T':
		return len(s.t.rows)
	case 'Q':
		return largest(s.q.from)
	case 'J':
		a, b := largest(s.l), largest(s.r)
		if b > a {
			return b
		}
		return a
	}
	return 0
}

func countLeaves(s *src) int {
	if s.kind == 'J' {
		return countLeaves(s.l) + countLeaves(s.r)
	}
	return 1
}

func dumpTables(ts []*table) map[string]interface{} {
	out := map[string]interface{}{}
	for _, t := range ts {
		rows := make([]string, 0, len(t.rows))
		for i := range t.rows {
			if i >= 40 {
				rows = append(rows, fmt.Sprintf("… %d rows in total", len(t.rows)))
				break
			}
			cells := make([]string, 0, t.width())
			for _, p := range t.full(i) {
				cells = append(cells, lit(p))
			}
			rows = append(rows, "("+strings.Join(cells, ", ")+")")
		}
		out[t.name+" (id, "+strings.Join(t.cols, ", ")+")"] = rows
	}
	return out
}
